import CollectionsC.Proofs.PQueue
/-! Lemmas for the cross-cutting properties of the priority queue (C06, C08, C14, C16, C20):
allocator bookkeeping of each operation, independence of the ledger, doubling growth. -/
namespace CC
open Gen (ccParent ccLeft ccRight)
open Spec (TotalPreorder)

namespace PQueue

/-! ## ledger bookkeeping of `Mem` -/
theorem alloc_true_fields (m : Mem) (h : m.alloc.1 = true) :
    m.alloc.2.nalloc = m.nalloc + 1 ∧ m.alloc.2.nrefused = m.nrefused ∧ m.alloc.2.libc = m.libc ∧
    m.alloc.2.nfree = m.nfree := by
  unfold Mem.alloc at *; split <;> simp_all
theorem alloc_false_fields (m : Mem) (h : m.alloc.1 = false) :
    m.alloc.2.nalloc = m.nalloc ∧ m.alloc.2.nrefused = m.nrefused + 1 ∧ m.alloc.2.libc = m.libc ∧
    m.alloc.2.nfree = m.nfree := by
  unfold Mem.alloc at *; split <;> simp_all
theorem free_fields (m : Mem) : m.free.nalloc = m.nalloc ∧ m.free.nrefused = m.nrefused ∧ m.free.libc = m.libc ∧
    m.free.sched = m.sched := by
  unfold Mem.free; split <;> simp
theorem check_fields (m : Mem) (b : Bool) : (m.check b).nalloc = m.nalloc ∧ (m.check b).nrefused = m.nrefused ∧
    (m.check b).nfree = m.nfree := by
  cases b <;> simp [Mem.check]
/-- the allocator's answer and the remaining schedule depend on the schedule only -/
theorem alloc_sched_congr (m m' : Mem) (h : m.sched = m'.sched) :
    m.alloc.1 = m'.alloc.1 ∧ m.alloc.2.sched = m'.alloc.2.sched := by
  unfold Mem.alloc; rw [h]; split <;> simp

/-! ## sift-up / sift-down do not depend on the ledger -/
theorem siftUp_pos (cmp : Nat → Nat → Int) (b : Buf Nat) (i : Nat) (m : Mem)
    (hc : i ≠ 0 ∧ cmp (b.get i) (b.get (ccParent i)) > 0) :
    siftUp cmp b i m = siftUp cmp (swap b i (ccParent i)) (ccParent i) (m.check (i < b.length)) := by
  rw [siftUp, dif_pos hc]
theorem siftUp_neg (cmp : Nat → Nat → Int) (b : Buf Nat) (i : Nat) (m : Mem)
    (hc : ¬ (i ≠ 0 ∧ cmp (b.get i) (b.get (ccParent i)) > 0)) : siftUp cmp b i m = (b, m) := by
  rw [siftUp, dif_neg hc]
theorem heapify_pos (cmp : Nat → Nat → Int) (b : Buf Nat) (n i : Nat) (m : Mem) (hs : ¬ n ≤ 1)
    (hb : pick cmp b n i ≠ i) :
    (heapify cmp b n i m).1 = (heapify cmp (swap b i (pick cmp b n i)) n (pick cmp b n i)
      (m.check (i < b.length && (!(ccLeft i < n) || ccLeft i < b.length) && (!(ccRight i < n) || ccRight i < b.length)))).1 := by
  rw [heapify, if_neg hs]; dsimp only; rw [dif_pos hb]
theorem heapify_neg (cmp : Nat → Nat → Int) (b : Buf Nat) (n i : Nat) (m : Mem) (hs : ¬ n ≤ 1)
    (hb : ¬ pick cmp b n i ≠ i) : (heapify cmp b n i m).1 = b := by
  rw [heapify, if_neg hs]; dsimp only; rw [dif_neg hb]
theorem siftUp_indep (cmp : Nat → Nat → Int) : ∀ (i : Nat) (b : Buf Nat) (m m' : Mem),
    (siftUp cmp b i m).1 = (siftUp cmp b i m').1 := by
  intro i
  induction i using Nat.strongRecOn with
  | _ i ih =>
    intro b m m'
    by_cases hc : i ≠ 0 ∧ cmp (b.get i) (b.get (ccParent i)) > 0
    · rw [siftUp_pos cmp b i m hc, siftUp_pos cmp b i m' hc]
      exact ih _ (ccParent_lt i hc.1) _ _ _
    · rw [siftUp_neg cmp b i m hc, siftUp_neg cmp b i m' hc]

theorem heapify_indep (cmp : Nat → Nat → Int) (n : Nat) : ∀ (d i : Nat) (b : Buf Nat) (m m' : Mem), n - i = d →
    (heapify cmp b n i m).1 = (heapify cmp b n i m').1 := by
  intro d
  induction d using Nat.strongRecOn with
  | _ d ih =>
    intro i b m m' hd
    by_cases hsmall : n ≤ 1
    · rw [heapify_small _ _ _ _ _ hsmall, heapify_small _ _ _ _ _ hsmall]
    · by_cases hbig : pick cmp b n i ≠ i
      · rw [heapify_pos cmp b n i m hsmall hbig, heapify_pos cmp b n i m' hsmall hbig]
        have hpc := pick_cases cmp b n i
        simp only [ccLeft, ccRight] at hpc
        exact ih (n - pick cmp b n i) (by omega) _ _ _ _ rfl
      · rw [heapify_neg cmp b n i m hsmall hbig, heapify_neg cmp b n i m' hsmall hbig]

theorem siftUp_sched (cmp : Nat → Nat → Int) : ∀ (i : Nat) (b : Buf Nat) (m : Mem),
    (siftUp cmp b i m).2.sched = m.sched := by
  intro i
  induction i using Nat.strongRecOn with
  | _ i ih =>
    intro b m
    by_cases hc : i ≠ 0 ∧ cmp (b.get i) (b.get (ccParent i)) > 0
    · rw [siftUp_pos cmp b i m hc, ih _ (ccParent_lt i hc.1)]; simp
    · rw [siftUp_neg cmp b i m hc]

/-! ## allocator events of the operations -/
/-- `expand_capacity` touches only the counters of the queue's own triple -/
theorem expand_other (grow : Nat → Nat) (q : PQueue) (m : Mem) :
    Mem.otherSame m (expandCapacity grow q m).2.2 q.triple := by
  unfold expandCapacity; dsimp only
  split
  · exact Mem.otherSame_refl _ _
  · split
    · exact Mem.otherSame_refl _ _
    · split
      · exact Mem.otherSame_allocT m q.triple
      · exact Mem.otherSame_trans (Mem.otherSame_trans (Mem.otherSame_allocT m q.triple) (Mem.otherSame_check _ _ _))
          (Mem.otherSame_freeT _ _)

/-- exact outcome of `expand_capacity` in terms of its guards and the allocator's answer -/
theorem expand_status (grow : Nat → Nat) (q : PQueue) (m : Mem) :
    ((expandCapacity grow q m).1 = .errAlloc ↔
      (q.capacity ≠ Gen.CC_MAX_ELEMENTS ∧ ¬ newCapacity grow q > Gen.CC_MAX_ELEMENTS / ptrSize ∧
       (m.allocT q.triple).1 = false)) ∧
    ((expandCapacity grow q m).1 = .errMaxCapacity ↔
      (q.capacity = Gen.CC_MAX_ELEMENTS ∨ newCapacity grow q > Gen.CC_MAX_ELEMENTS / ptrSize)) := by
  unfold expandCapacity; dsimp only
  by_cases h1 : q.capacity = Gen.CC_MAX_ELEMENTS
  · simp [h1]
  · by_cases h2 : newCapacity grow q > Gen.CC_MAX_ELEMENTS / ptrSize
    · simp [h1, h2]
    · by_cases ha : (m.allocT q.triple).1 = true
      · simp [h1, h2, ha]
      · have ha' : (m.allocT q.triple).1 = false := by simpa using ha
        simp [h1, h2, ha']

/-- allocator counters of `expand_capacity`, on the queue's own triple -/
theorem expand_counts (grow : Nat → Nat) (q : PQueue) (m : Mem) :
    ((expandCapacity grow q m).1 = .ok → (expandCapacity grow q m).2.2.allocsT q.triple = m.allocsT q.triple + 1 ∧
        (expandCapacity grow q m).2.2.nrefused = m.nrefused ∧
        (expandCapacity grow q m).2.1.capacity = newCapacity grow q) ∧
    ((expandCapacity grow q m).1 = .errAlloc → (expandCapacity grow q m).2.2.allocsT q.triple = m.allocsT q.triple ∧
        (expandCapacity grow q m).2.2.nrefused = m.nrefused + 1) ∧
    ((expandCapacity grow q m).1 = .errMaxCapacity → (expandCapacity grow q m).2.2 = m) := by
  unfold expandCapacity; dsimp only
  by_cases h1 : q.capacity = Gen.CC_MAX_ELEMENTS
  · simp [h1]
  · by_cases h2 : newCapacity grow q > Gen.CC_MAX_ELEMENTS / ptrSize
    · simp [h1, h2]
    · by_cases ha : (m.allocT q.triple).1 = true
      · have e1 := Mem.allocT_true_allocs m q.triple ha
        have e2 := Mem.allocT_nrefused_true m q.triple ha
        have e3 : ∀ b, ((m.allocT q.triple).2.check b).nrefused = m.nrefused := fun b => by
          rw [(Mem.check_allocs _ _ q.triple).2, e2]
        simp [h1, h2, ha, (Mem.freeT_allocs _ _).1, (Mem.freeT_allocs _ _).2, (Mem.check_allocs _ _ _).1, e1, e3]
      · have ha' : (m.allocT q.triple).1 = false := by simpa using ha
        have e1 := Mem.allocT_false_allocs m q.triple ha'
        have e2 := (Mem.allocT_false m q.triple ha').2.2.2.2
        simp [h1, h2, ha', e1, e2]

/-- `cc_pqueue_push`: status, and allocator counters of the queue's triple, in every case -/
theorem push_counts {cmp : Nat → Nat → Int} (tp : TotalPreorder cmp) (grow : Nat → Nat)
    (q : PQueue) (x : Nat) (m : Mem) (h : Inv' cmp q) (hl : 0 < m.liveT q.triple) :
    -- no growth attempted or growth impossible: the ledger record is untouched
    (((q.size < q.capacity ∧ (push cmp grow q x m).1 = .ok) ∨ (push cmp grow q x m).1 = .errMaxCapacity) ∧
        (push cmp grow q x m).2.2 = m ∧ (push cmp grow q x m).2.1.capacity = q.capacity) ∨
    -- growth succeeded
    ((push cmp grow q x m).1 = .ok ∧ q.size = q.capacity ∧ (m.allocT q.triple).1 = true ∧
        (push cmp grow q x m).2.2.allocsT q.triple = m.allocsT q.triple + 1 ∧
        (push cmp grow q x m).2.2.nrefused = m.nrefused ∧
        (push cmp grow q x m).2.1.capacity = newCapacity grow q) ∨
    -- growth refused
    ((push cmp grow q x m).1 = .errAlloc ∧ q.size = q.capacity ∧ (m.allocT q.triple).1 = false ∧
        (push cmp grow q x m).2.2.allocsT q.triple = m.allocsT q.triple ∧
        (push cmp grow q x m).2.2.nrefused = m.nrefused + 1 ∧
        (push cmp grow q x m).2.1 = q) := by
  have hsc := h.1.1
  rw [push_eq]
  by_cases hfull : q.size ≥ q.capacity
  · simp only [hfull, if_true]
    have hcnt := expand_counts grow q m
    rcases expand_spec cmp grow q m h hl with ⟨e1, e2, e3, e4, _, _, _, ea⟩ | ⟨e1, e2, _, _⟩
    · have : ((expandCapacity grow q m).1 != .ok) = false := by rw [e1]; rfl
      simp only [this, Bool.false_eq_true, if_false]
      have hroom : (expandCapacity grow q m).2.1.size < (expandCapacity grow q m).2.1.capacity := by omega
      have hs := storeSift_spec tp _ x (expandCapacity grow q m).2.2 e2 hroom
      right; left
      rw [hs.2.2.2.2.2, hs.2.2.2.2.1]
      have := hcnt.1 e1
      exact ⟨hs.1, by omega, ea, this.1, this.2.1, this.2.2⟩
    · have : ((expandCapacity grow q m).1 != .ok) = true := by
        rcases e1 with ⟨e1, _⟩ | e1 <;> rw [e1] <;> rfl
      simp only [this, if_true]
      rcases e1 with ⟨e1, ea⟩ | e1
      · right; right
        have := hcnt.2.1 e1
        exact ⟨e1, by omega, ea, this.1, this.2, e2⟩
      · left
        exact ⟨Or.inr e1, hcnt.2.2 e1, by rw [e2]⟩
  · simp only [hfull, if_false]
    have hs := storeSift_spec tp q x m h (by omega)
    left
    exact ⟨Or.inl ⟨by omega, hs.1⟩, hs.2.2.2.2.2, hs.2.2.2.2.1⟩

/-- `cc_pqueue_push` touches only the counters of the queue's own triple: a queue on the configured
allocators never causes a C-library event, a queue on the C library never touches the configured
allocator's counters, refusal counter or schedule -/
theorem push_other {cmp : Nat → Nat → Int} (tp : TotalPreorder cmp) (grow : Nat → Nat)
    (q : PQueue) (x : Nat) (m : Mem) (h : Inv' cmp q) (hl : 0 < m.liveT q.triple) :
    Mem.otherSame m (push cmp grow q x m).2.2 q.triple := by
  rw [push_eq]
  by_cases hfull : q.size ≥ q.capacity
  · simp only [hfull, if_true]
    rcases expand_spec cmp grow q m h hl with ⟨e1, e2, e3, e4, _, _, _, _⟩ | ⟨e1, _, _, _⟩
    · have : ((expandCapacity grow q m).1 != .ok) = false := by rw [e1]; rfl
      simp only [this, Bool.false_eq_true, if_false]
      have hroom : (expandCapacity grow q m).2.1.size < (expandCapacity grow q m).2.1.capacity := by
        have := h.1.1; omega
      rw [(storeSift_spec tp _ x (expandCapacity grow q m).2.2 e2 hroom).2.2.2.2.2]
      exact expand_other grow q m
    · have : ((expandCapacity grow q m).1 != .ok) = true := by
        rcases e1 with ⟨e1, _⟩ | e1 <;> rw [e1] <;> rfl
      simp only [this, if_true]
      exact expand_other grow q m
  · simp only [hfull, if_false]
    rw [(storeSift_spec tp q x m h (by omega)).2.2.2.2.2]
    exact Mem.otherSame_refl _ _

/-- statuses and resulting queue of `push` depend on the ledger only through its schedule -/
theorem push_indep (cmp : Nat → Nat → Int) (grow : Nat → Nat) (q : PQueue) (x : Nat) (m m' : Mem)
    (hs : m.sched = m'.sched) :
    (push cmp grow q x m).1 = (push cmp grow q x m').1 ∧ (push cmp grow q x m).2.1 = (push cmp grow q x m').2.1 ∧
    (push cmp grow q x m).2.2.sched = (push cmp grow q x m').2.2.sched := by
  have ha := Mem.allocT_sched_congr m m' q.triple hs
  have he : (expandCapacity grow q m).1 = (expandCapacity grow q m').1 ∧
      (expandCapacity grow q m).2.1 = (expandCapacity grow q m').2.1 ∧
      (expandCapacity grow q m).2.2.sched = (expandCapacity grow q m').2.2.sched := by
    unfold expandCapacity; dsimp only
    split
    · exact ⟨rfl, rfl, hs⟩
    · split
      · exact ⟨rfl, rfl, hs⟩
      · rw [ha.1]
        cases (m'.allocT q.triple).1
        · exact ⟨rfl, rfl, ha.2⟩
        · simp only [Bool.not_true, Bool.false_eq_true, if_false, Mem.freeT_sched, Mem.check_sched]
          exact ⟨trivial, trivial, ha.2⟩
  have hst : ∀ (q : PQueue) (m m' : Mem), m.sched = m'.sched →
      (storeSift cmp q x m).1 = (storeSift cmp q x m').1 ∧ (storeSift cmp q x m).2.1 = (storeSift cmp q x m').2.1 ∧
      (storeSift cmp q x m).2.2.sched = (storeSift cmp q x m').2.2.sched := by
    intro q m m' hs
    unfold storeSift; dsimp only
    split
    · exact ⟨rfl, rfl, by simp [hs]⟩
    · refine ⟨rfl, ?_, ?_⟩
      · rw [siftUp_indep cmp q.size _ (m.check _) (m'.check _)]
      · rw [siftUp_sched, siftUp_sched]; simp [hs]
  rw [push_eq, push_eq]
  by_cases hfull : q.size ≥ q.capacity
  · simp only [hfull, if_true]
    rw [he.1]
    split
    · exact he
    · rw [he.2.1]; exact hst _ _ _ he.2.2
  · simp only [hfull, if_false]; exact hst q m m' hs


/-- `pop`/`top` results do not depend on the ledger at all -/
theorem pop_indep (cmp : Nat → Nat → Int) (q : PQueue) (m m' : Mem) :
    (pop cmp q m).1 = (pop cmp q m').1 ∧ (pop cmp q m).2.1 = (pop cmp q m').2.1 ∧
    (pop cmp q m).2.2.1 = (pop cmp q m').2.2.1 := by
  unfold pop popOut
  split
  · exact ⟨rfl, rfl, rfl⟩
  · dsimp only
    refine ⟨rfl, rfl, ?_⟩
    rw [heapify_indep cmp (q.size - 1) _ 0 _ (m.check _) (m'.check _) rfl]

/-- `heapify` leaves the schedule alone -/
theorem heapify_sched (cmp : Nat → Nat → Int) (n : Nat) : ∀ (d i : Nat) (b : Buf Nat) (m : Mem), n - i = d →
    (heapify cmp b n i m).2.sched = m.sched := by
  intro d
  induction d using Nat.strongRecOn with
  | _ d ih =>
    intro i b m hd
    by_cases hsmall : n ≤ 1
    · rw [heapify_small _ _ _ _ _ hsmall]
    · rw [heapify, if_neg hsmall]
      dsimp only
      by_cases hbig : pick cmp b n i ≠ i
      · rw [dif_pos hbig]
        have hpc := pick_cases cmp b n i
        simp only [ccLeft, ccRight] at hpc
        rw [ih (n - pick cmp b n i) (by omega) _ _ _ rfl]; simp
      · rw [dif_neg hbig]; simp

theorem pop_sched (cmp : Nat → Nat → Int) (q : PQueue) (m m' : Mem) (hs : m.sched = m'.sched) :
    (pop cmp q m).2.2.2.sched = (pop cmp q m').2.2.2.sched := by
  simp only [pop, popOut]
  split
  · exact hs
  · dsimp only
    rw [heapify_sched cmp (q.size - 1) _ 0 _ _ rfl, heapify_sched cmp (q.size - 1) _ 0 _ _ rfl]
    simp [hs]

theorem top_indep (q : PQueue) (m m' : Mem) : (q.top m).1 = (q.top m').1 ∧ (q.top m).2.1 = (q.top m').2.1 := by
  unfold top; split <;> exact ⟨rfl, rfl⟩

/-! ## doubling growth -/
theorem newCapacity_double (grow : Nat → Nat) (q : PQueue) (hd : 2 * q.capacity ≤ grow q.capacity) (hc : 0 < q.capacity) :
    2 * q.capacity ≤ newCapacity grow q := by
  unfold newCapacity
  simp only
  split <;> omega

/-- invariant of a run of pushes under a growth law that at least doubles **on the capacities below the
final size `B`**: with `c0`/`n0` the capacity and the allocation counter (of the queue's triple) at
the start, after `k` successful growths the capacity is at least `c0 * 2^k`, and the size exceeds
`c0 * 2^(k-1)` -/
theorem pushAll_doubling {cmp : Nat → Nat → Int} (tp : TotalPreorder cmp) (grow : Nat → Nat) (B : Nat)
    (hd : ∀ c, c < B → 2 * c ≤ grow c) (c0 n0 : Nat) (t : Triple) :
    ∀ (xs : List Nat) (q : PQueue) (m : Mem), Inv' cmp q → q.triple = t → 0 < m.liveT t → q.size + xs.length ≤ B →
      n0 ≤ m.allocsT t → c0 * 2 ^ (m.allocsT t - n0) ≤ q.capacity →
      (1 ≤ m.allocsT t - n0 → c0 * 2 ^ (m.allocsT t - n0 - 1) < q.size) →
      Inv' cmp (pushAll cmp grow q xs m).1 ∧ n0 ≤ (pushAll cmp grow q xs m).2.allocsT t ∧
      c0 * 2 ^ ((pushAll cmp grow q xs m).2.allocsT t - n0) ≤ (pushAll cmp grow q xs m).1.capacity ∧
      (1 ≤ (pushAll cmp grow q xs m).2.allocsT t - n0 →
        c0 * 2 ^ ((pushAll cmp grow q xs m).2.allocsT t - n0 - 1) < (pushAll cmp grow q xs m).1.size) ∧
      (pushAll cmp grow q xs m).1.size ≤ q.size + xs.length ∧ q.capacity ≤ (pushAll cmp grow q xs m).1.capacity := by
  intro xs
  induction xs with
  | nil => intro q m h _ _ _ h1 h2 h3; exact ⟨h, h1, h2, h3, by simp [pushAll], Nat.le_refl _⟩
  | cons x xs ih =>
    intro q m h ht hl hB h1 h2 h3
    simp only [pushAll]
    simp only [List.length_cons] at hB
    have hl' : 0 < m.liveT q.triple := by rw [ht]; exact hl
    have hm := push_mem tp grow q x m h hl'
    rw [ht] at hm
    have hsp := push_spec tp grow q x m h hl'
    have ht' : (push cmp grow q x m).2.1.triple = t := by rw [push_triple, ht]
    have hinv' : Inv' cmp (push cmp grow q x m).2.1 := by
      rcases hsp with ⟨_, e, _⟩ | ⟨_, e⟩
      · exact e
      · rw [e]; exact h
    have hsize : (push cmp grow q x m).2.1.size ≤ q.size + 1 ∧ q.size ≤ (push cmp grow q x m).2.1.size := by
      rcases hsp with ⟨_, _, _, e⟩ | ⟨_, e⟩
      · omega
      · rw [e]; omega
    have key : n0 ≤ (push cmp grow q x m).2.2.allocsT t ∧
        c0 * 2 ^ ((push cmp grow q x m).2.2.allocsT t - n0) ≤ (push cmp grow q x m).2.1.capacity ∧
        (1 ≤ (push cmp grow q x m).2.2.allocsT t - n0 →
          c0 * 2 ^ ((push cmp grow q x m).2.2.allocsT t - n0 - 1) < (push cmp grow q x m).2.1.size) ∧
        q.capacity ≤ (push cmp grow q x m).2.1.capacity := by
      rcases push_counts tp grow q x m h hl' with ⟨_, k1, k2⟩ | ⟨kok, kfull, _, k1, _, k3⟩ | ⟨_, _, _, k1, _, k3⟩
      · rw [k1, k2]
        exact ⟨h1, h2, fun hh => Nat.lt_of_lt_of_le (h3 hh) hsize.2, Nat.le_refl _⟩
      · have hsz : (push cmp grow q x m).2.1.size = q.size + 1 := by
          rcases hsp with ⟨_, _, _, e⟩ | ⟨hb, _⟩
          · exact e
          · rcases hb with ⟨hb, _⟩ | hb <;> rw [hb] at kok <;> cases kok
        have hnc := newCapacity_double grow q (hd q.capacity (by omega)) h.1.2.2.1
        rw [ht] at k1
        rw [k1, k3, hsz]
        have e : m.allocsT t + 1 - n0 = (m.allocsT t - n0) + 1 := by omega
        refine ⟨by omega, ?_, fun _ => ?_, by omega⟩
        · rw [e, Nat.pow_succ, ← Nat.mul_assoc]; omega
        · rw [e, Nat.add_sub_cancel]; omega
      · rw [ht] at k1
        rw [k1, k3]
        exact ⟨h1, h2, h3, Nat.le_refl _⟩
    have := ih (push cmp grow q x m).2.1 (push cmp grow q x m).2.2 hinv' ht' (by rw [hm.1]; exact hl) (by omega)
      key.1 key.2.1 key.2.2.1
    obtain ⟨t1, t2, t3, t4, t5, t6⟩ := this
    refine ⟨t1, t2, t3, t4, ?_, by omega⟩
    simp only [List.length_cons]; omega

/-- **logarithmic number of re-allocations**: pushing `n` elements performs at most
`log2 (size + n) + 1` successful allocator calls on the queue's own triple when every growth step
taken below the final size at least doubles -/
theorem pushAll_realloc_log {cmp : Nat → Nat → Int} (tp : TotalPreorder cmp) (grow : Nat → Nat)
    (q : PQueue) (xs : List Nat) (m : Mem) (hd : ∀ c, c < q.size + xs.length → 2 * c ≤ grow c)
    (h : Inv' cmp q) (hl : 0 < m.liveT q.triple) :
    (pushAll cmp grow q xs m).2.allocsT q.triple - m.allocsT q.triple ≤ Nat.log2 (q.size + xs.length) + 1 := by
  obtain ⟨_, t2, t3, t4, t5, _⟩ := pushAll_doubling tp grow (q.size + xs.length) hd q.capacity (m.allocsT q.triple) q.triple
    xs q m h rfl hl (Nat.le_refl _) (Nat.le_refl _) (by simp) (fun hh => by omega)
  by_cases hk : (pushAll cmp grow q xs m).2.allocsT q.triple - m.allocsT q.triple = 0
  · omega
  · have h1 := t4 (by omega)
    have hc : 1 ≤ q.capacity := h.1.2.2.1
    have hpow : 2 ^ ((pushAll cmp grow q xs m).2.allocsT q.triple - m.allocsT q.triple - 1) ≤ q.size + xs.length := by
      have : 2 ^ ((pushAll cmp grow q xs m).2.allocsT q.triple - m.allocsT q.triple - 1) ≤
          q.capacity * 2 ^ ((pushAll cmp grow q xs m).2.allocsT q.triple - m.allocsT q.triple - 1) := Nat.le_mul_of_pos_left _ hc
      omega
    have hne : q.size + xs.length ≠ 0 := by
      have : 0 < 2 ^ ((pushAll cmp grow q xs m).2.allocsT q.triple - m.allocsT q.triple - 1) := Nat.pow_pos (by decide)
      omega
    have := (Nat.le_log2 hne).2 hpow
    omega

end PQueue
end CC
