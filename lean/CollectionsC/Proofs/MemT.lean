import CollectionsC.Base.Mem
/-! Triple-indexed view of the ledger: the counters that belong to a container's allocator triple,
and the facts about `allocT`/`freeT` the pool and priority-queue proofs need. -/
namespace CC.Mem

/-- number of live blocks obtained through the *other* triple -/
def liveO (m : Mem) : Triple → Nat
  | .conf => m.liveLibc
  | .libc => m.live

@[simp] theorem liveT_conf (m : Mem) : m.liveT .conf = m.live := rfl
@[simp] theorem liveT_libc (m : Mem) : m.liveT .libc = m.liveLibc := rfl
@[simp] theorem check_liveT (m : Mem) (b : Bool) (t : Triple) : (m.check b).liveT t = m.liveT t := by
  cases b <;> cases t <;> simp [check, liveT]
@[simp] theorem check_liveO (m : Mem) (b : Bool) (t : Triple) : (m.check b).liveO t = m.liveO t := by
  cases b <;> cases t <;> simp [check, liveO]

theorem allocT_true (m : Mem) (t : Triple) (h : (m.allocT t).1 = true) :
    (m.allocT t).2.liveT t = m.liveT t + 1 ∧ (m.allocT t).2.fault = m.fault ∧ (m.allocT t).2.liveO t = m.liveO t := by
  cases t
  · simp only [allocT_conf] at *
    unfold alloc at *; split <;> simp_all [liveT, liveO]
  · simp [allocT, liveT, liveO]

theorem allocT_false (m : Mem) (t : Triple) (h : (m.allocT t).1 = false) :
    (m.allocT t).2.liveT t = m.liveT t ∧ (m.allocT t).2.fault = m.fault ∧ (m.allocT t).2.liveO t = m.liveO t ∧
    t = .conf ∧ (m.allocT t).2.nrefused = m.nrefused + 1 := by
  cases t
  · simp only [allocT_conf] at *
    unfold alloc at *; split <;> simp_all [liveT, liveO]
  · simp [allocT] at h

/-- the C library is never refused -/
theorem allocT_libc_true (m : Mem) : (m.allocT .libc).1 = true := rfl

theorem allocT_nrefused_true (m : Mem) (t : Triple) (h : (m.allocT t).1 = true) :
    (m.allocT t).2.nrefused = m.nrefused := by
  cases t
  · simp only [allocT_conf] at *
    unfold alloc at *; split <;> simp_all
  · rfl

theorem freeT_pos (m : Mem) (t : Triple) (h : 0 < m.liveT t) :
    (m.freeT t).liveT t = m.liveT t - 1 ∧ (m.freeT t).fault = m.fault ∧ (m.freeT t).liveO t = m.liveO t ∧
    (m.freeT t).nrefused = m.nrefused ∧ (m.freeT t).sched = m.sched := by
  cases t
  · simp only [freeT_conf, liveT] at *
    have : ¬ m.live = 0 := by omega
    simp [free, this, liveO]
  · simp only [liveT] at h
    have : ¬ m.liveLibc = 0 := by omega
    simp [freeT, this, liveT, liveO]

/-- with an empty schedule no allocator call is refused, whatever the triple -/
theorem allocT_nil (m : Mem) (t : Triple) (h : m.sched = []) : (m.allocT t).1 = true ∧ (m.allocT t).2.sched = [] := by
  cases t
  · exact alloc_nil m h
  · exact ⟨rfl, h⟩

/-- the answer and the remaining schedule depend on the schedule only -/
theorem allocT_sched_congr (m m' : Mem) (t : Triple) (h : m.sched = m'.sched) :
    (m.allocT t).1 = (m'.allocT t).1 ∧ (m.allocT t).2.sched = (m'.allocT t).2.sched := by
  cases t
  · simp only [allocT_conf]; unfold alloc; rw [h]; split <;> simp
  · exact ⟨rfl, h⟩

theorem freeT_sched (m : Mem) (t : Triple) : (m.freeT t).sched = m.sched := by
  cases t
  · simp only [freeT_conf]; unfold free; split <;> rfl
  · simp only [freeT]; split <;> rfl


/-- `m'` differs from `m` at most in the counters that belong to triple `t`: everything that belongs
to the *other* triple is untouched (for `t = .conf`: the C-library counters; for `t = .libc`: the
configured allocator's counters, its refusal counter and its schedule) -/
def otherSame (m m' : Mem) : Triple → Prop
  | .conf => m'.libc = m.libc ∧ m'.liveLibc = m.liveLibc ∧ m'.lalloc = m.lalloc ∧ m'.lfree = m.lfree
  | .libc => m'.live = m.live ∧ m'.nalloc = m.nalloc ∧ m'.nfree = m.nfree ∧ m'.nrefused = m.nrefused ∧ m'.sched = m.sched

theorem otherSame_refl (m : Mem) (t : Triple) : otherSame m m t := by
  cases t <;> simp [otherSame]

theorem otherSame_trans {m m' m'' : Mem} {t : Triple} (h1 : otherSame m m' t) (h2 : otherSame m' m'' t) :
    otherSame m m'' t := by
  cases t
  · obtain ⟨a, b, c, d⟩ := h1; obtain ⟨a', b', c', d'⟩ := h2
    exact ⟨a'.trans a, b'.trans b, c'.trans c, d'.trans d⟩
  · obtain ⟨a, b, c, d, e⟩ := h1; obtain ⟨a', b', c', d', e'⟩ := h2
    exact ⟨a'.trans a, b'.trans b, c'.trans c, d'.trans d, e'.trans e⟩

theorem otherSame_allocT (m : Mem) (t : Triple) : otherSame m (m.allocT t).2 t := by
  cases t
  · simp only [allocT_conf, otherSame]; unfold alloc; split <;> simp
  · simp [allocT, otherSame]

theorem otherSame_freeT (m : Mem) (t : Triple) : otherSame m (m.freeT t) t := by
  cases t
  · simp only [freeT_conf, otherSame]; unfold free; split <;> simp
  · simp only [freeT, otherSame]; split <;> simp

theorem otherSame_check (m : Mem) (b : Bool) (t : Triple) : otherSame m (m.check b) t := by
  cases b <;> cases t <;> simp [check, otherSame]


/-- successful allocator calls of the current operation made through triple `t` -/
def allocsT (m : Mem) : Triple → Nat
  | .conf => m.nalloc
  | .libc => m.lalloc

theorem allocT_true_allocs (m : Mem) (t : Triple) (h : (m.allocT t).1 = true) :
    (m.allocT t).2.allocsT t = m.allocsT t + 1 := by
  cases t
  · simp only [allocT_conf] at *; unfold alloc at *; split <;> simp_all [allocsT]
  · simp [allocT, allocsT]

theorem allocT_false_allocs (m : Mem) (t : Triple) (h : (m.allocT t).1 = false) :
    (m.allocT t).2.allocsT t = m.allocsT t := by
  cases t
  · simp only [allocT_conf] at *; unfold alloc at *; split <;> simp_all [allocsT]
  · simp [allocT] at h

theorem freeT_allocs (m : Mem) (t : Triple) : (m.freeT t).allocsT t = m.allocsT t ∧ (m.freeT t).nrefused = m.nrefused := by
  cases t
  · simp only [freeT_conf, allocsT]; unfold free; split <;> simp
  · simp only [freeT, allocsT]; split <;> simp

theorem check_allocs (m : Mem) (b : Bool) (t : Triple) : (m.check b).allocsT t = m.allocsT t ∧ (m.check b).nrefused = m.nrefused := by
  cases b <;> cases t <;> simp [check, allocsT]

end CC.Mem
