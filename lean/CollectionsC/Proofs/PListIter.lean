import CollectionsC.Proofs.PListBulk
/-! Pointer-level model of `cc_list.c`, part 9: whole iterator programs on the raw links.  Along any program of
`next`/`add`/`remove`/`replace` calls the list stays represented (well-formed) and the iterator's `last`/`next` fields name
nodes of the list or are NULL — never a released node. -/
namespace CC.PList
open CC

/-- where the iterator fields point: `next` at the first node not yet passed, `last` (if any) at a node already passed -/
structure PItInv (cs : List Cell) (it : PIter) : Prop where
  ex : ∃ pre rest, cs = pre ++ rest ∧ it.next = nxt rest none ∧ (∀ n, it.last = some n → n ∈ idsOf pre)

theorem mem_split {pre : List Cell} {n : Nat} (h : n ∈ idsOf pre) : ∃ p1 c p2, pre = p1 ++ c :: p2 ∧ c.1 = n := by
  simp only [idsOf, List.mem_map] at h
  obtain ⟨c, hc, e⟩ := h
  obtain ⟨p1, p2, e2⟩ := List.append_of_mem hc
  exact ⟨p1, c, p2, e2, e⟩

theorem piterInit_inv {h : Heap} {l : Hdr} {cs : List Cell} (r : Repr h l cs) : PItInv cs (piterInit l) :=
  ⟨[], cs, rfl, r.head, fun _ hn => by cases hn⟩

/-- what holds between the calls of an iterator program -/
structure ProgInv (s : St) (l : Hdr) (it : PIter) (cs : List Cell) : Prop where
  repr : Repr s.heap l cs
  bound : ∀ y, y ∈ idsOf cs → y < s.fresh
  inv : PItInv cs it

theorem repr_setData {h : Heap} {l : Hdr} {p1 p2 : List Cell} {c : Cell} (x : Nat) (r : Repr h l (p1 ++ c :: p2)) :
    Repr (setData h c.1 x) l (p1 ++ (c.1, x) :: p2) := by
  obtain ⟨_, _, na1, na2, _, _⟩ := nodup_append_cons r.nodup
  obtain ⟨s1, ha, s2⟩ := Seg_split r.seg
  refine ⟨by simpa [idsOf] using r.nodup, ?_, by simpa using r.size, ?_, ?_⟩
  · rw [Seg_append, Seg_cons]
    refine ⟨Seg_upd_notin _ _ na1 s1, ?_, Seg_upd_notin _ _ na2 s2⟩
    rw [setData, upd_eq, ha]; rfl
  · have := r.head; rw [nxt_append] at this ⊢; exact this
  · have := r.tail; rw [lastOr_append] at this ⊢; exact this

/-- **one call of an iterator program keeps the invariant** -/
theorem piterStep_inv (s : St) (l : Hdr) (it : PIter) (op : PIOp) (m : Mem) (cs : List Cell) (I : ProgInv s l it cs) :
    ∃ cs', ProgInv (piterStep s l it op m).2.1 (piterStep s l it op m).2.2.1 (piterStep s l it op m).2.2.2.1 cs' := by
  obtain ⟨pre, rest, e, hn, hl⟩ := I.inv.ex
  subst e
  cases op with
  | next =>
    simp only [piterStep, piterNext]
    cases rest with
    | nil => rw [hn]; exact ⟨pre ++ [], I⟩
    | cons a rest' =>
      obtain ⟨_, ha, _⟩ := Seg_split I.repr.seg
      rw [hn]
      simp only [nxt_cons, nd_of ha]
      exact ⟨pre ++ a :: rest', I.repr, I.bound, ⟨pre ++ [a], rest', by simp, rfl, fun n hn' => by
        simp only [Option.some.injEq] at hn'; subst hn'; simp⟩⟩
  | add x =>
    simp only [piterStep]
    cases hlast : it.last with
    | none => exact ⟨pre ++ rest, I⟩
    | some n =>
      obtain ⟨p1, c, p2, e, ec⟩ := mem_split (hl n hlast)
      subst e; subst ec
      have ecs : (p1 ++ c :: p2) ++ rest = p1 ++ c :: (p2 ++ rest) := by simp
      have r' : Repr s.heap l (p1 ++ c :: (p2 ++ rest)) := ecs ▸ I.repr
      have hb' : ∀ y, y ∈ idsOf (p1 ++ c :: (p2 ++ rest)) → y < s.fresh := ecs ▸ I.bound
      obtain ⟨ar, ag⟩ := iterAddAt_spec s l p1 (p2 ++ rest) c x m r' hb'
      by_cases ha : (m.allocT l.triple).1 = true
      · obtain ⟨g1, _, gk⟩ := ag ha
        simp only [g1, if_true]
        refine ⟨p1 ++ c :: (s.fresh, x) :: (p2 ++ rest), gk.repr, gk.bound, ⟨p1 ++ c :: (s.fresh, x) :: p2, rest, by simp, hn, fun n' hn' => ?_⟩⟩
        have hn'' : some c.1 = some n' := hn'
        cases hn''; simp
      · have ha' : (m.allocT l.triple).1 = false := by simpa using ha
        simp only [ar ha', reduceCtorEq, if_false]
        exact ⟨(p1 ++ c :: p2) ++ rest, I.repr, I.bound, ⟨p1 ++ c :: p2, rest, rfl, hn, fun n' hn' => hl n' (hlast ▸ hn')⟩⟩
  | remove =>
    simp only [piterStep]
    cases hlast : it.last with
    | none => exact ⟨pre ++ rest, I⟩
    | some n =>
      obtain ⟨p1, c, p2, e, ec⟩ := mem_split (hl n hlast)
      subst e; subst ec
      have ecs : (p1 ++ c :: p2) ++ rest = p1 ++ c :: (p2 ++ rest) := by simp
      have r' : Repr s.heap l (p1 ++ c :: (p2 ++ rest)) := ecs ▸ I.repr
      have hb' : ∀ y, y ∈ idsOf (p1 ++ c :: (p2 ++ rest)) → y < s.fresh := ecs ▸ I.bound
      obtain ⟨_, _, uk⟩ := unlinkn_spec s l p1 (p2 ++ rest) c m r' hb'
      exact ⟨p1 ++ (p2 ++ rest), uk.repr, uk.bound, ⟨p1 ++ p2, rest, by simp, hn, fun _ hn' => by cases hn'⟩⟩
  | replace x =>
    simp only [piterStep]
    cases hlast : it.last with
    | none => exact ⟨pre ++ rest, I⟩
    | some n =>
      obtain ⟨p1, c, p2, e, ec⟩ := mem_split (hl n hlast)
      subst e; subst ec
      have ecs : (p1 ++ c :: p2) ++ rest = p1 ++ c :: (p2 ++ rest) := by simp
      have r' : Repr s.heap l (p1 ++ c :: (p2 ++ rest)) := ecs ▸ I.repr
      refine ⟨p1 ++ (c.1, x) :: (p2 ++ rest), repr_setData x r', fun y hy => I.bound y (by simpa [idsOf] using hy),
        ⟨p1 ++ (c.1, x) :: p2, rest, by simp, hn, fun n' hn' => ?_⟩⟩
      have hn'' : it.last = some n' := hn'
      rw [hlast] at hn''; cases hn''; simp

/-- **whole iterator programs**: well-formedness and "the iterator names only nodes of the list" are invariants -/
theorem piterRun_inv : ∀ (ops : List PIOp) (s : St) (l : Hdr) (it : PIter) (m : Mem) (cs : List Cell), ProgInv s l it cs →
    ∃ cs', ProgInv (piterRun s l it ops m).1 (piterRun s l it ops m).2.1 (piterRun s l it ops m).2.2.1 cs'
  | [], s, l, it, m, cs, I => ⟨cs, I⟩
  | op :: ops, s, l, it, m, cs, I => by
    obtain ⟨cs1, I1⟩ := piterStep_inv s l it op m cs I
    exact piterRun_inv ops _ _ _ _ cs1 I1

/-- the fields of a related iterator name live nodes of the list (or are NULL) -/
theorem ProgInv.no_dangling {s : St} {l : Hdr} {it : PIter} {cs : List Cell} (I : ProgInv s l it cs) :
    (∀ n, it.last = some n → n ∈ idsOf cs ∧ (s.heap n).isSome) ∧ (∀ n, it.next = some n → n ∈ idsOf cs ∧ (s.heap n).isSome) := by
  obtain ⟨pre, rest, e, hn, hl⟩ := I.inv.ex
  subst e
  refine ⟨fun n h => ?_, fun n h => ?_⟩
  · have hm : n ∈ idsOf (pre ++ rest) := by simp [hl n h]
    exact ⟨hm, Seg_live I.repr.seg n hm⟩
  · have hm : n ∈ idsOf (pre ++ rest) := by
      rw [hn] at h
      simp only [idsOf_append, List.mem_append]
      exact Or.inr (nxt_mem h)
    exact ⟨hm, Seg_live I.repr.seg n hm⟩

end CC.PList
