import CollectionsC.Proofs.SizedChunks
/-! Per-operation lemmas for the sized array: invariant, refinement of `Spec.SSeq`, fault
freedom and ledger balance of the mutating core operations of `Model/ArraySized.lean`.
Everything is stated for all states satisfying `Inv`, all indices and all element values. -/
namespace CC.ArraySized
open CC CC.Gen

/-! ### allocator ledger facts -/
/-- the live-block counter that belongs to a triple -/
def own (m : Mem) (t : Triple) : Nat := match t with | .conf => m.live | .libc => m.liveLibc
/-- the counter of successful allocations (of the current operation) that belongs to a triple -/
def cnt (m : Mem) (t : Triple) : Nat := match t with | .conf => m.nalloc | .libc => m.lalloc

/-- nothing happened on the *other* allocator: for a `.conf` container the C-library counters are
untouched; for a `.libc` container the configured ledger and its refusal schedule are untouched -/
def Other (t : Triple) (m m' : Mem) : Prop :=
  match t with
  | .conf => m'.libc = m.libc ∧ m'.liveLibc = m.liveLibc ∧ m'.lalloc = m.lalloc ∧ m'.lfree = m.lfree
  | .libc => m'.live = m.live ∧ m'.nalloc = m.nalloc ∧ m'.nfree = m.nfree ∧ m'.nrefused = m.nrefused ∧
      m'.sched = m.sched

theorem Other.refl (t : Triple) (m : Mem) : Other t m m := by
  cases t
  · exact ⟨rfl, rfl, rfl, rfl⟩
  · exact ⟨rfl, rfl, rfl, rfl, rfl⟩
theorem Other.trans {t : Triple} {a b c : Mem} (h1 : Other t a b) (h2 : Other t b c) : Other t a c := by
  cases t
  · exact ⟨h2.1.trans h1.1, h2.2.1.trans h1.2.1, h2.2.2.1.trans h1.2.2.1, h2.2.2.2.trans h1.2.2.2⟩
  · exact ⟨h2.1.trans h1.1, h2.2.1.trans h1.2.1, h2.2.2.1.trans h1.2.2.1, h2.2.2.2.1.trans h1.2.2.2.1,
      h2.2.2.2.2.trans h1.2.2.2.2⟩

/-- the ledger is where it was for a container with triple `t`: its own live-block counter and the
fault flag are unchanged, and nothing went through the other allocator -/
def MemSame (t : Triple) (m m' : Mem) : Prop := own m' t = own m t ∧ m'.fault = m.fault ∧ Other t m m'

theorem MemSame.refl (t : Triple) (m : Mem) : MemSame t m m := ⟨rfl, rfl, Other.refl t m⟩
theorem MemSame.trans {t : Triple} {a b c : Mem} (h1 : MemSame t a b) (h2 : MemSame t b c) : MemSame t a c :=
  ⟨h2.1.trans h1.1, h2.2.1.trans h1.2.1, Other.trans h1.2.2 h2.2.2⟩

/-- both live-block counters and the fault flag are where they were (independent of the triple) -/
def Bal (m m' : Mem) : Prop := m'.live = m.live ∧ m'.liveLibc = m.liveLibc ∧ m'.fault = m.fault
theorem Bal.refl (m : Mem) : Bal m m := ⟨rfl, rfl, rfl⟩
theorem Bal.trans {a b c : Mem} (h1 : Bal a b) (h2 : Bal b c) : Bal a c :=
  ⟨h2.1.trans h1.1, h2.2.1.trans h1.2.1, h2.2.2.trans h1.2.2⟩
theorem MemSame.bal {t : Triple} {m m' : Mem} (h : MemSame t m m') : Bal m m' := by
  cases t
  · exact ⟨h.1, h.2.2.2.1, h.2.1⟩
  · exact ⟨h.2.2.1, h.1, h.2.1⟩

theorem check_eq (m : Mem) (b : Bool) (hb : b = true) : m.check b = m := by subst hb; rfl

theorem allocT_true (m : Mem) (t : Triple) (h : (m.allocT t).1 = true) :
    own (m.allocT t).2 t = own m t + 1 ∧ (m.allocT t).2.fault = m.fault ∧ Other t m (m.allocT t).2 := by
  cases t
  · simp only [Mem.allocT_conf] at *
    unfold Mem.alloc at *
    split at h <;> simp_all [own, Other]
  · exact ⟨rfl, rfl, rfl, rfl, rfl, rfl, rfl⟩

/-- only the configured allocator can refuse; a refusal leaves the ledger as it was -/
theorem allocT_false (m : Mem) (t : Triple) (h : (m.allocT t).1 = false) :
    t = .conf ∧ MemSame t m (m.allocT t).2 := by
  cases t
  · refine ⟨rfl, ?_⟩
    simp only [Mem.allocT_conf] at *
    unfold Mem.alloc at *
    split at h <;> simp_all [own, Other, MemSame]
  · cases h

theorem freeT_pos (m : Mem) (t : Triple) (h : 0 < own m t) :
    own (m.freeT t) t = own m t - 1 ∧ (m.freeT t).fault = m.fault ∧ Other t m (m.freeT t) := by
  cases t
  · simp only [Mem.freeT_conf, own] at *
    unfold Mem.free
    rw [if_neg (by omega)]
    exact ⟨rfl, rfl, rfl, rfl, rfl, rfl⟩
  · simp only [own] at h
    unfold Mem.freeT
    dsimp only
    rw [if_neg (by omega)]
    exact ⟨rfl, rfl, rfl, rfl, rfl, rfl, rfl⟩

/-- allocate one block, release another one: the ledger is balanced -/
theorem memSame_alloc_free (m : Mem) (t : Triple) (h : (m.allocT t).1 = true) :
    MemSame t m ((m.allocT t).2.freeT t) := by
  have e := allocT_true m t h
  have f := freeT_pos (m.allocT t).2 t (by omega)
  exact ⟨by rw [f.1, e.1]; omega, by rw [f.2.1, e.2.1], Other.trans e.2.2 f.2.2⟩

/-! ### expand_capacity -/
theorem cap_le_max (a : ArraySized) (h : a.Inv) : a.capacity ≤ CC_MAX_ELEMENTS :=
  Nat.le_trans (Nat.le_mul_of_pos_right a.capacity h.1) h.2.2.2.2

/-- the capacity asked for is larger than the present one (below the limit) -/
theorem nextCapacity_gt (a : ArraySized) (h : a.Inv) (hc : a.capacity ≠ CC_MAX_ELEMENTS) :
    a.capacity < a.nextCapacity := by
  have := cap_le_max a h
  unfold nextCapacity
  dsimp only
  split
  · split <;> omega
  · omega

theorem expandCapacity_spec (a : ArraySized) (m : Mem) (h : a.Inv) :
    ((a.expandCapacity m).1 = .ok ∧ (a.expandCapacity m).2.1.Inv ∧
      (a.expandCapacity m).2.1.abs = a.abs ∧ (a.expandCapacity m).2.1.size = a.size ∧
      (a.expandCapacity m).2.1.dataLen = a.dataLen ∧ (a.expandCapacity m).2.1.cfg = a.cfg ∧
      a.capacity < (a.expandCapacity m).2.1.capacity ∧ MemSame a.triple m (a.expandCapacity m).2.2 ∧ (m.allocT a.triple).1 = true ∧
      ¬ a.AtLimit ∧ (a.expandCapacity m).2.1.capacity = a.nextCapacity) ∨
    ((a.expandCapacity m).1 = .errAlloc ∧ (a.expandCapacity m).2.1 = a ∧
      MemSame a.triple m (a.expandCapacity m).2.2 ∧ (m.allocT a.triple).1 = false ∧ ¬ a.AtLimit ∧ (a.expandCapacity m).2.2 = (m.allocT a.triple).2) ∨
    ((a.expandCapacity m).1 = .errMaxCapacity ∧ (a.expandCapacity m).2.1 = a ∧
      (a.expandCapacity m).2.2 = m ∧ a.AtLimit) := by
  have hh := h
  obtain ⟨hdl, hcap, hsz, hlen, hmax⟩ := h
  unfold expandCapacity
  by_cases hc : a.capacity = CC_MAX_ELEMENTS
  · right; right; simp [hc, AtLimit]
  · rw [if_neg hc]
    dsimp only
    have hd0 : (a.dataLen != 0) = true := by simp; omega
    rw [hd0]
    simp only [Mem.check_true]
    by_cases hlim : a.nextCapacity > CC_MAX_ELEMENTS / a.dataLen
    · right; right
      rw [if_pos hlim]
      exact ⟨rfl, rfl, rfl, Or.inr hlim⟩
    · rw [if_neg hlim]
      have hgt := nextCapacity_gt a hh hc
      have hnl : ¬ a.AtLimit := by
        intro hl; rcases hl with hl | hl
        · exact hc hl
        · exact hlim hl
      generalize hnc : a.nextCapacity = nc at *
      have hncm : nc * a.dataLen ≤ CC_MAX_ELEMENTS := (Nat.le_div_iff_mul_le hdl).1 (by omega)
      rcases Bool.eq_false_or_eq_true (m.allocT a.triple).1 with hal | hal
      · left
        simp only [hal, Bool.not_true, Bool.false_eq_true, if_false]
        have hsl : a.size * a.dataLen ≤ nc * a.dataLen := slots_le (by omega)
        have hsl2 : a.size * a.dataLen ≤ a.buf.length := Nat.le_trans (slots_le hsz) hlen
        have hchk : (decide (a.size * a.dataLen ≤ (fresh (nc * a.dataLen)).length) &&
            decide (a.size * a.dataLen ≤ a.buf.length)) = true := by
          simp [fresh, hsl, hsl2]
        rw [hchk]
        refine ⟨trivial, ?_, ?_, trivial, trivial, rfl, hgt, ?_, trivial, hnl, trivial⟩
        · unfold Inv; dsimp only
          exact ⟨hdl, by omega, by omega, by simp [fresh], hncm⟩
        · rw [abs_eq_elems, abs_eq_elems]
          dsimp only
          apply elems_congr
          intro k hk
          rw [chunkAt_memcpy _ _ a.dataLen 0 0 (a.size * a.dataLen) 0 0 a.size k (by simp) (by simp) rfl
            (by simp only [fresh, List.length_replicate]; exact slot_le (by omega))]
          rw [if_pos (by omega)]
          simp
        · simpa using memSame_alloc_free m a.triple hal
      · right; left
        have e := allocT_false m a.triple hal
        simp only [hal, Bool.not_false, if_true]
        exact ⟨trivial, trivial, e.2, trivial, hnl, trivial⟩

/-- the common prologue of `add`/`add_at`: `if (size >= capacity) expand_capacity` -/
def ensureRoom (a : ArraySized) (m : Mem) : Stat × ArraySized × Mem :=
  if a.size ≥ a.capacity then expandCapacity a m else (.ok, a, m)

theorem ensureRoom_spec (a : ArraySized) (m : Mem) (h : a.Inv) :
    ((a.ensureRoom m).1 = .ok ∧ (a.ensureRoom m).2.1.Inv ∧
      (a.ensureRoom m).2.1.abs = a.abs ∧ (a.ensureRoom m).2.1.size = a.size ∧
      (a.ensureRoom m).2.1.dataLen = a.dataLen ∧ (a.ensureRoom m).2.1.cfg = a.cfg ∧
      a.capacity ≤ (a.ensureRoom m).2.1.capacity ∧ a.size < (a.ensureRoom m).2.1.capacity ∧
      MemSame a.triple m (a.ensureRoom m).2.2 ∧ (a.size = a.capacity → (m.allocT a.triple).1 = true ∧ ¬ a.AtLimit)) ∨
    (((a.ensureRoom m).1 = .errAlloc ∨ (a.ensureRoom m).1 = .errMaxCapacity) ∧ (a.ensureRoom m).2.1 = a ∧
      MemSame a.triple m (a.ensureRoom m).2.2 ∧ a.size = a.capacity ∧
      ((a.ensureRoom m).1 = .errAlloc → (m.allocT a.triple).1 = false) ∧
      ((a.ensureRoom m).1 = .errMaxCapacity → a.AtLimit) ∧
      ((a.ensureRoom m).1 = .errAlloc → ¬ a.AtLimit)) := by
  unfold ensureRoom
  by_cases hfull : a.size ≥ a.capacity
  · rw [if_pos hfull]
    have hsz := h.2.2.1
    rcases expandCapacity_spec a m h with ⟨h1, h2, h3, h4, h5, h6, h7, h8, h9, h10, _⟩ | ⟨h1, h2, h3, h4, h5, _⟩ | ⟨h1, h2, h3, h4⟩
    · left; exact ⟨h1, h2, h3, h4, h5, h6, by omega, by omega, h8, fun _ => ⟨h9, h10⟩⟩
    · right; exact ⟨Or.inl h1, h2, h3, by omega, fun _ => h4, (fun hh => by rw [h1] at hh; cases hh), fun _ => h5⟩
    · right; exact ⟨Or.inr h1, h2, (by rw [h3]; exact MemSame.refl _ m), by omega,
        (fun hh => by rw [h1] at hh; cases hh), (fun _ => h4), (fun hh => by rw [h1] at hh; cases hh)⟩
  · rw [if_neg hfull]
    left
    exact ⟨rfl, h, rfl, rfl, rfl, rfl, Nat.le_refl _, (by dsimp only; omega), MemSame.refl _ m,
      (fun hh => by omega)⟩

/-! ### stores of whole elements -/
theorem elems_store (b e : Buf Nat) (dl i n cap : Nat) (he : e.length = dl) (hn : n ≤ cap)
    (hcap : cap * dl ≤ b.length) :
    elems dl (b.memcpy (dl * i) e 0 dl) n = (elems dl b n).set i e := by
  apply List.ext_getElem
  · simp
  · intro k h1 h2
    have hk : k < n := by simpa using h1
    rw [elems_getElem, List.getElem_set, elems_getElem]
    rw [chunkAt_memcpy_elem b e dl i k he (Nat.le_trans (slot_le (by omega)) hcap)]
    by_cases hik : i = k
    · subst hik; simp
    · rw [if_neg hik, if_neg (by omega)]

theorem slot_in (a : ArraySized) (h : a.Inv) (k : Nat) (hk : k < a.capacity) :
    a.dataLen * k + a.dataLen ≤ a.buf.length :=
  Nat.le_trans (slot_le hk) h.2.2.2.1

/-! ### add -/
theorem add_eq (a : ArraySized) (e : Buf Nat) (m : Mem) :
    a.add e m =
      (if (a.ensureRoom m).1 ≠ .ok then a.ensureRoom m else
       (.ok, { (a.ensureRoom m).2.1 with
                buf := (a.ensureRoom m).2.1.buf.memcpy ((a.ensureRoom m).2.1.dataLen * (a.ensureRoom m).2.1.size) e 0 (a.ensureRoom m).2.1.dataLen,
                size := (a.ensureRoom m).2.1.size + 1 },
        (a.ensureRoom m).2.2.check ((a.ensureRoom m).2.1.dataLen * (a.ensureRoom m).2.1.size + (a.ensureRoom m).2.1.dataLen ≤ (a.ensureRoom m).2.1.buf.length))) := rfl

/-- `add`: either the element is appended (and the invariant, element size, growth rule are kept,
capacity does not shrink, the ledger is balanced, no fault), or the growth was refused and the
whole array is exactly as before -/
theorem add_spec (a : ArraySized) (e : Buf Nat) (m : Mem) (h : a.Inv)
    (he : e.length = a.dataLen) :
    ((a.add e m).1 = .ok ∧ (a.add e m).2.1.Inv ∧ (a.add e m).2.1.abs = a.abs ++ [e] ∧
      (a.add e m).2.1.dataLen = a.dataLen ∧ (a.add e m).2.1.cfg = a.cfg ∧
      a.capacity ≤ (a.add e m).2.1.capacity ∧ MemSame a.triple m (a.add e m).2.2 ∧
      (a.size = a.capacity → (m.allocT a.triple).1 = true ∧ ¬ a.AtLimit)) ∨
    (((a.add e m).1 = .errAlloc ∨ (a.add e m).1 = .errMaxCapacity) ∧ (a.add e m).2.1 = a ∧
      MemSame a.triple m (a.add e m).2.2 ∧ a.size = a.capacity ∧
      ((a.add e m).1 = .errAlloc → (m.allocT a.triple).1 = false) ∧
      ((a.add e m).1 = .errMaxCapacity → a.AtLimit) ∧
      ((a.add e m).1 = .errAlloc → ¬ a.AtLimit)) := by
  rw [add_eq]
  rcases ensureRoom_spec a m h with ⟨h1, h2, h3, h4, h5, h6, h7, h8, h9, h10⟩ | ⟨h1, h2, h3, h4, h5, h6, h7⟩
  · left
    generalize a.ensureRoom m = r at *
    obtain ⟨st, a', m'⟩ := r
    dsimp only at *
    subst h1
    simp only [ne_eq, not_true_eq_false, if_false]
    have hslot := slot_in a' h2 a'.size (by omega)
    rw [decide_eq_true hslot]
    refine ⟨trivial, ?_, ?_, h5, h6, h7, h9, h10⟩
    · obtain ⟨i1, i2, i3, i4, i5⟩ := h2
      exact ⟨i1, i2, by dsimp only; omega, by simpa using i4, i5⟩
    · rw [abs_eq_elems, ← h3, abs_eq_elems]
      dsimp only
      rw [elems_succ, elems_store _ _ _ _ _ a'.capacity (by omega) (by omega) h2.2.2.2.1]
      rw [List.set_eq_of_length_le (by simp)]
      rw [chunkAt_memcpy_elem _ _ _ _ _ (by omega) hslot]
      simp
  · right
    have hne : (a.ensureRoom m).1 ≠ .ok := by
      rcases h1 with h1 | h1 <;> rw [h1] <;> decide
    rw [if_pos hne]
    exact ⟨h1, h2, h3, h4, h5, h6, h7⟩

/-! ### add_at -/
/-- opening a gap at `i` (memmove of the tail one slot up) and storing `e` there is `insertIdx` -/
theorem elems_insert (b e : Buf Nat) (dl i n cap : Nat) (he : e.length = dl) (hi : i < n) (hn : n < cap)
    (hcap : cap * dl ≤ b.length) :
    elems dl ((b.memmove (dl * (i + 1)) (dl * i) ((n - i) * dl)).memcpy (dl * i) e 0 dl) (n + 1) =
      (elems dl b n).insertIdx i e := by
  apply List.ext_getElem?
  intro k
  rw [elems_getElem?, List.getElem?_insertIdx, elems_getElem?, elems_getElem?, elems_length]
  by_cases hk : k < n + 1
  · have hslot : dl * k + dl ≤ b.length := Nat.le_trans (slot_le (by omega)) hcap
    rw [if_pos hk, chunkAt_memcpy_elem _ e dl i k he (by simpa using hslot)]
    rw [chunkAt_memmove b dl _ _ _ (i + 1) i (n - i) k rfl rfl rfl hslot]
    rcases Nat.lt_trichotomy k i with h | h | h
    · rw [if_neg (by omega), if_neg (by omega), if_pos h, if_pos (by omega)]
    · subst h; rw [if_pos rfl, if_neg (by omega), if_pos rfl, if_pos (by omega)]
    · rw [if_neg (by omega), if_pos (by omega), if_neg (by omega), if_neg (by omega), if_pos (by omega)]
      congr 2; omega
  · rw [if_neg hk, if_neg (by omega), if_neg (by omega), if_neg (by omega)]

theorem addAt_eq_mid (a : ArraySized) (e : Buf Nat) (index : Nat) (m : Mem) (hi : index < a.size) :
    a.addAt e index m =
      (if (a.ensureRoom m).1 ≠ .ok then a.ensureRoom m else
       let a' := (a.ensureRoom m).2.1
       let shift := (a'.size - index) * a'.dataLen
       let m' := (a.ensureRoom m).2.2.check (a'.dataLen * (index + 1) + shift ≤ a'.buf.length && a'.dataLen * index + shift ≤ a'.buf.length)
       let b := a'.buf.memmove (a'.dataLen * (index + 1)) (a'.dataLen * index) shift
       (.ok, { a' with buf := b.memcpy (a'.dataLen * index) e 0 a'.dataLen, size := a'.size + 1 },
        m'.check (a'.dataLen * index + a'.dataLen ≤ b.length))) := by
  unfold addAt
  rw [if_neg (by omega)]
  have : ((a.size = 0 && index != 0) || decide (index > a.size - 1)) = false := by
    simp; omega
  rw [this]
  rfl

/-- `add_at` outside `[0, size]` is rejected and changes nothing at all -/
theorem addAt_inert (a : ArraySized) (e : Buf Nat) (index : Nat) (m : Mem) (hi : a.size < index) :
    a.addAt e index m = (.errOutOfRange, a, m) := by
  unfold addAt
  rw [if_neg (by omega)]
  have : ((a.size = 0 && index != 0) || decide (index > a.size - 1)) = true := by
    simp; omega
  rw [this]; rfl

/-- `add_at` at a position in `[0, size]`: the element is inserted there, or the growth was refused
and the array is exactly as before -/
theorem addAt_spec (a : ArraySized) (e : Buf Nat) (index : Nat) (m : Mem) (h : a.Inv)
    (he : e.length = a.dataLen) (hi : index ≤ a.size) :
    ((a.addAt e index m).1 = .ok ∧ (a.addAt e index m).2.1.Inv ∧
      (a.addAt e index m).2.1.abs = a.abs.insertIdx index e ∧
      (a.addAt e index m).2.1.dataLen = a.dataLen ∧ (a.addAt e index m).2.1.cfg = a.cfg ∧
      a.capacity ≤ (a.addAt e index m).2.1.capacity ∧ MemSame a.triple m (a.addAt e index m).2.2 ∧
      (a.size = a.capacity → (m.allocT a.triple).1 = true ∧ ¬ a.AtLimit)) ∨
    (((a.addAt e index m).1 = .errAlloc ∨ (a.addAt e index m).1 = .errMaxCapacity) ∧
      (a.addAt e index m).2.1 = a ∧ MemSame a.triple m (a.addAt e index m).2.2 ∧ a.size = a.capacity ∧
      ((a.addAt e index m).1 = .errAlloc → (m.allocT a.triple).1 = false) ∧
      ((a.addAt e index m).1 = .errMaxCapacity → a.AtLimit) ∧
      ((a.addAt e index m).1 = .errAlloc → ¬ a.AtLimit)) := by
  by_cases hend : index = a.size
  · have : a.addAt e index m = a.add e m := by unfold addAt; rw [if_pos hend]
    rw [this]
    have hl : a.abs.insertIdx index e = a.abs ++ [e] := by
      rw [hend]
      have : a.abs.length = a.size := by simp [abs]
      rw [← this, List.insertIdx_length_self]
    rw [hl]
    exact add_spec a e m h he
  · have hlt : index < a.size := by omega
    rw [addAt_eq_mid a e index m hlt]
    rcases ensureRoom_spec a m h with ⟨h1, h2, h3, h4, h5, h6, h7, h8, h9, h10⟩ | ⟨h1, h2, h3, h4, h5, h6, h7⟩
    · left
      generalize a.ensureRoom m = r at *
      obtain ⟨st, a', m'⟩ := r
      dsimp only at *
      subst h1
      simp only [ne_eq, not_true_eq_false, if_false]
      obtain ⟨i1, i2, i3, i4, i5⟩ := h2
      have e1 : a'.dataLen * (index + 1) + (a'.size - index) * a'.dataLen = a'.dataLen * a'.size + a'.dataLen := by
        rw [Nat.mul_comm (a'.size - index), ← Nat.mul_add, ← Nat.mul_succ]; congr 1; omega
      have e2 : a'.dataLen * index + (a'.size - index) * a'.dataLen = a'.dataLen * a'.size := by
        rw [Nat.mul_comm (a'.size - index), ← Nat.mul_add]; congr 1; omega
      have s1 : a'.dataLen * a'.size + a'.dataLen ≤ a'.buf.length := Nat.le_trans (slot_le (by omega)) i4
      have s2 : a'.dataLen * index + a'.dataLen ≤ a'.buf.length := Nat.le_trans (slot_le (by omega)) i4
      have c1 : (decide (a'.dataLen * (index + 1) + (a'.size - index) * a'.dataLen ≤ a'.buf.length) &&
          decide (a'.dataLen * index + (a'.size - index) * a'.dataLen ≤ a'.buf.length)) = true := by
        rw [e1, e2]; simp; omega
      rw [c1]
      have c2 : decide (a'.dataLen * index + a'.dataLen ≤
          (a'.buf.memmove (a'.dataLen * (index + 1)) (a'.dataLen * index) ((a'.size - index) * a'.dataLen)).length) = true := by
        simpa using s2
      rw [c2]
      refine ⟨trivial, ?_, ?_, h5, h6, h7, h9, h10⟩
      · exact ⟨i1, i2, by dsimp only; omega, by simpa using i4, i5⟩
      · rw [abs_eq_elems, ← h3, abs_eq_elems]
        dsimp only
        exact elems_insert a'.buf e a'.dataLen index a'.size a'.capacity (by omega) (by omega) (by omega) i4
    · right
      have hne : (a.ensureRoom m).1 ≠ .ok := by
        rcases h1 with h1 | h1 <;> rw [h1] <;> decide
      rw [if_pos hne]
      exact ⟨h1, h2, h3, h4, h5, h6, h7⟩

/-! ### replace_at -/
theorem replaceAt_inert (a : ArraySized) (e : Buf Nat) (index : Nat) (m : Mem) (hi : a.size ≤ index) :
    a.replaceAt e index m = (.errOutOfRange, none, a, m) := by
  unfold replaceAt; rw [if_pos hi]

theorem abs_length (a : ArraySized) : a.abs.length = a.size := by simp [abs]

theorem abs_getElem? (a : ArraySized) (k : Nat) :
    a.abs[k]? = if k < a.size then some (a.chunk k) else none := elems_getElem? ..

theorem replaceAt_spec (a : ArraySized) (e : Buf Nat) (index : Nat) (m : Mem) (h : a.Inv)
    (he : e.length = a.dataLen) (hi : index < a.size) :
    a.replaceAt e index m =
      (.ok, a.abs[index]?, { a with buf := a.buf.memcpy (a.dataLen * index) e 0 a.dataLen }, m) ∧
    (a.replaceAt e index m).2.2.1.Inv ∧ (a.replaceAt e index m).2.2.1.abs = a.abs.set index e := by
  obtain ⟨i1, i2, i3, i4, i5⟩ := h
  have s1 : a.dataLen * index + a.dataLen ≤ a.buf.length := Nat.le_trans (slot_le (by omega)) i4
  have e1 : a.replaceAt e index m =
      (.ok, a.abs[index]?, { a with buf := a.buf.memcpy (a.dataLen * index) e 0 a.dataLen }, m) := by
    unfold replaceAt
    rw [if_neg (by omega), decide_eq_true s1, abs_getElem?, if_pos hi]
    rfl
  rw [e1]
  refine ⟨rfl, ⟨i1, i2, i3, by simpa using i4, i5⟩, ?_⟩
  rw [abs_eq_elems, abs_eq_elems]
  exact elems_store a.buf e a.dataLen index a.size a.capacity he i3 i4

/-! ### swap_at -/
/-- the index permutation of a swap -/
def sw (i1 i2 k : Nat) : Nat := if k = i1 then i2 else if k = i2 then i1 else k

theorem mul_add_inj {dl a b s t : Nat} (hs : s < dl) (ht : t < dl) : dl * a + s = dl * b + t ↔ a = b ∧ s = t := by
  constructor
  · intro h
    have h1 : a ≤ b := le_of_mul_le_mul_add (dl := dl) (j := t) ht (by omega)
    have h2 : b ≤ a := le_of_mul_le_mul_add (dl := dl) (j := s) hs (by omega)
    have : a = b := by omega
    subst this
    exact ⟨rfl, by omega⟩
  · rintro ⟨rfl, rfl⟩; rfl

/-- after `t` iterations the first `t` bytes of the two elements are exchanged -/
theorem swapLoop_spec (dl i1 i2 : Nat) (b0 : Buf Nat) (m : Mem) (cap : Nat) (h1 : i1 < cap) (h2 : i2 < cap)
    (hcap : cap * dl ≤ b0.length) :
    ∀ (f t : Nat) (b : Buf Nat), t + f = dl → b.length = b0.length →
      (∀ k j, k < cap → j < dl → b.get (dl * k + j) =
        if j < t then b0.get (dl * sw i1 i2 k + j) else b0.get (dl * k + j)) →
      (swapLoop dl i1 i2 f t b m).2 = m ∧ (swapLoop dl i1 i2 f t b m).1.length = b0.length ∧
      (∀ k, k < cap → chunkAt dl (swapLoop dl i1 i2 f t b m).1 k = chunkAt dl b0 (sw i1 i2 k)) := by
  intro f
  induction f with
  | zero =>
    intro t b ht hl hinv
    refine ⟨rfl, hl, ?_⟩
    intro k hk
    apply chunkAt_congr
    intro j hj
    have := hinv k j hk hj
    rw [if_pos (by omega)] at this
    exact this
  | succ f ih =>
    intro t b ht hl hinv
    have htl : t < dl := by omega
    have sl1 : dl * i1 + dl ≤ b.length := by rw [hl]; exact Nat.le_trans (slot_le h1) hcap
    have sl2 : dl * i2 + dl ≤ b.length := by rw [hl]; exact Nat.le_trans (slot_le h2) hcap
    have c : (decide (dl * i1 + t < b.length) && decide (dl * i2 + t < b.length)) = true := by
      simp; omega
    unfold swapLoop
    rw [c]
    simp only [Mem.check_true]
    apply ih (t + 1) _ (by omega) (by simpa using hl)
    intro k j hk hj
    have v1 := hinv i1 t h1 htl
    have v2 := hinv i2 t h2 htl
    rw [if_neg (Nat.lt_irrefl t)] at v1 v2
    have vk := hinv k j hk hj
    rw [Buf.get_put, Buf.get_put, Buf.length_put]
    simp only [mul_add_inj htl hj]
    rw [v1, v2, vk]
    have l1 : dl * i1 + t < b.length := by omega
    have l2 : dl * i2 + t < b.length := by omega
    simp only [l1, l2, and_true]
    unfold sw
    by_cases etj : t = j
    · subst etj
      by_cases ek2 : i2 = k
      · subst ek2
        simp only [and_self, if_true, Nat.lt_succ_self]
        by_cases e12 : i2 = i1
        · rw [if_pos e12, e12]
        · rw [if_neg e12]
      · by_cases ek1 : i1 = k
        · subst ek1
          have : ¬ (i2 = i1) := ek2
          simp [this]
        · have n1 : ¬ (k = i1) := fun hh => ek1 hh.symm
          have n2 : ¬ (k = i2) := fun hh => ek2 hh.symm
          simp [ek1, ek2, n1, n2]
    · have : (j < t + 1) = (j < t) := by apply propext; omega
      simp [etj, this]

theorem swapAt_inert (a : ArraySized) (i1 i2 : Nat) (m : Mem) (hi : a.size ≤ i1 ∨ a.size ≤ i2) :
    a.swapAt i1 i2 m = (.errOutOfRange, a, m) := by
  unfold swapAt
  have : (decide (i1 ≥ a.size) || decide (i2 ≥ a.size)) = true := by simp; omega
  rw [this]; rfl

theorem swapAt_spec (a : ArraySized) (i1 i2 : Nat) (m : Mem) (h : a.Inv) (h1 : i1 < a.size) (h2 : i2 < a.size) :
    (a.swapAt i1 i2 m).1 = .ok ∧ (a.swapAt i1 i2 m).2.2 = m ∧ (a.swapAt i1 i2 m).2.1.Inv ∧
    (a.swapAt i1 i2 m).2.1.abs = (a.abs.set i1 (a.chunk i2)).set i2 (a.chunk i1) ∧
    (a.swapAt i1 i2 m).2.1.dataLen = a.dataLen ∧ (a.swapAt i1 i2 m).2.1.cfg = a.cfg ∧
    (a.swapAt i1 i2 m).2.1.capacity = a.capacity ∧ (a.swapAt i1 i2 m).2.1.size = a.size := by
  obtain ⟨j1, j2, j3, j4, j5⟩ := h
  have hs := swapLoop_spec a.dataLen i1 i2 a.buf m a.capacity (by omega) (by omega) j4 a.dataLen 0 a.buf
    (by omega) rfl (by intro k j _ _; simp)
  unfold swapAt
  have : (decide (i1 ≥ a.size) || decide (i2 ≥ a.size)) = false := by simp; omega
  rw [this]
  simp only [Bool.false_eq_true, if_false]
  refine ⟨trivial, hs.1, ⟨j1, j2, j3, by rw [hs.2.1]; exact j4, j5⟩, ?_, trivial, rfl, trivial, trivial⟩
  rw [abs_eq_elems, abs_eq_elems]
  dsimp only
  apply List.ext_getElem
  · simp
  · intro k hk1 hk2
    have hk : k < a.size := by simpa using hk1
    rw [elems_getElem, hs.2.2 k (by omega)]
    simp only [List.getElem_set, elems_getElem, chunk, sw]
    by_cases e2 : i2 = k
    · subst e2
      by_cases e1 : i2 = i1
      · subst e1; simp
      · simp [e1]
    · by_cases e1 : i1 = k
      · subst e1; simp [e2]
      · have n1 : ¬ (k = i1) := fun hh => e1 hh.symm
        have n2 : ¬ (k = i2) := fun hh => e2 hh.symm
        simp [e1, e2, n1, n2]

/-! ### remove_at, remove_last, remove_all -/
/-- closing the gap at `i` (memmove of the tail one slot down) is `eraseIdx` -/
theorem elems_erase (b : Buf Nat) (dl i n cap : Nat) (hi : i < n) (hn : n ≤ cap) (hcap : cap * dl ≤ b.length) :
    elems dl (b.memmove (dl * i) (dl * (i + 1)) ((n - 1 - i) * dl)) (n - 1) = (elems dl b n).eraseIdx i := by
  apply List.ext_getElem?
  intro k
  rw [elems_getElem?, List.getElem?_eraseIdx, elems_getElem?, elems_getElem?]
  by_cases hk : k < n - 1
  · have hslot : dl * k + dl ≤ b.length := Nat.le_trans (slot_le (by omega)) hcap
    rw [if_pos hk, chunkAt_memmove b dl _ _ _ i (i + 1) (n - 1 - i) k rfl rfl rfl hslot]
    by_cases hki : k < i
    · rw [if_neg (by omega), if_pos hki, if_pos (by omega)]
    · rw [if_pos (by omega), if_neg hki, if_pos (by omega)]
      congr 2; omega
  · rw [if_neg hk]
    by_cases hki : k < i
    · omega
    · rw [if_neg hki, if_neg (by omega)]

theorem removeShift_spec (a : ArraySized) (index : Nat) (m : Mem) (h : a.Inv) (hi : index < a.size) :
    (a.removeShift index m).2 = m ∧ (a.removeShift index m).1.Inv ∧
    (a.removeShift index m).1.abs = a.abs.eraseIdx index ∧
    (a.removeShift index m).1.dataLen = a.dataLen ∧ (a.removeShift index m).1.cfg = a.cfg ∧
    (a.removeShift index m).1.capacity = a.capacity ∧ (a.removeShift index m).1.size = a.size - 1 := by
  obtain ⟨j1, j2, j3, j4, j5⟩ := h
  unfold removeShift
  by_cases hl : index ≠ a.size - 1
  · rw [if_pos hl]
    have e1 : a.dataLen * index + (a.size - 1 - index) * a.dataLen ≤ a.buf.length := by
      have : a.dataLen * index + (a.size - 1 - index) * a.dataLen = (a.size - 1) * a.dataLen := by
        rw [Nat.mul_comm (a.size - 1 - index), ← Nat.mul_add, Nat.mul_comm]; congr 1; omega
      rw [this]; exact Nat.le_trans (slots_le (by omega)) j4
    have e2 : a.dataLen * (index + 1) + (a.size - 1 - index) * a.dataLen ≤ a.buf.length := by
      have : a.dataLen * (index + 1) + (a.size - 1 - index) * a.dataLen = a.size * a.dataLen := by
        rw [Nat.mul_comm (a.size - 1 - index), ← Nat.mul_add, Nat.mul_comm]; congr 1; omega
      rw [this]; exact Nat.le_trans (slots_le j3) j4
    have c : (decide (a.dataLen * index + (a.size - 1 - index) * a.dataLen ≤ a.buf.length) &&
        decide (a.dataLen * (index + 1) + (a.size - 1 - index) * a.dataLen ≤ a.buf.length)) = true := by
      simp [e1, e2]
    dsimp only
    rw [c]
    refine ⟨rfl, ⟨j1, j2, by dsimp only; omega, by simpa using j4, j5⟩, ?_, rfl, rfl, rfl, rfl⟩
    rw [abs_eq_elems, abs_eq_elems]
    exact elems_erase a.buf a.dataLen index a.size a.capacity hi j3 j4
  · rw [if_neg hl]
    have hl' : index = a.size - 1 := by omega
    refine ⟨rfl, ⟨j1, j2, by dsimp only; omega, j4, j5⟩, ?_, rfl, rfl, rfl, rfl⟩
    rw [abs_eq_elems, abs_eq_elems]
    dsimp only
    apply List.ext_getElem?
    intro k
    rw [elems_getElem?, List.getElem?_eraseIdx, elems_getElem?, elems_getElem?]
    by_cases hk : k < a.size - 1
    · rw [if_pos hk, if_pos (by omega), if_pos (by omega)]
    · rw [if_neg hk]
      by_cases hki : k < index
      · omega
      · rw [if_neg hki, if_neg (by omega)]

theorem removeAt_inert (a : ArraySized) (index : Nat) (m : Mem) (hi : a.size ≤ index) :
    a.removeAt index m = (.errOutOfRange, none, a, m) := by
  unfold removeAt; rw [if_pos hi]

theorem removeAt_spec (a : ArraySized) (index : Nat) (m : Mem) (h : a.Inv) (hi : index < a.size) :
    (a.removeAt index m).1 = .ok ∧ (a.removeAt index m).2.1 = a.abs[index]? ∧
    (a.removeAt index m).2.2.2 = m ∧ (a.removeAt index m).2.2.1.Inv ∧
    (a.removeAt index m).2.2.1.abs = a.abs.eraseIdx index ∧
    (a.removeAt index m).2.2.1.dataLen = a.dataLen ∧ (a.removeAt index m).2.2.1.cfg = a.cfg ∧
    (a.removeAt index m).2.2.1.capacity = a.capacity ∧ (a.removeAt index m).2.2.1.size = a.size - 1 := by
  have s1 : a.dataLen * index + a.dataLen ≤ a.buf.length := slot_in a h index (by have := h.2.2.1; omega)
  have hs := removeShift_spec a index m h hi
  unfold removeAt
  rw [if_neg (by omega), decide_eq_true s1]
  simp only [Mem.check_true]
  refine ⟨trivial, ?_, hs.1, hs.2.1, hs.2.2.1, hs.2.2.2.1, hs.2.2.2.2.1, hs.2.2.2.2.2.1, hs.2.2.2.2.2.2⟩
  rw [abs_getElem?, if_pos hi]

theorem wdec_pos (x : Nat) (h : 0 < x) : wdec x = x - 1 := by
  unfold wdec; rw [if_neg (by omega)]

theorem sizeMax_gt (a : ArraySized) (h : a.Inv) : a.size < sizeMax := by
  have := h.2.2.1; have := cap_le_max a h; unfold sizeMax; omega

/-- `remove_last` on an empty array: `size - 1` wraps to `SIZE_MAX`, which is rejected -/
theorem removeLast_inert (a : ArraySized) (m : Mem) (h : a.Inv) (h0 : a.size = 0) :
    a.removeLast m = (.errOutOfRange, none, a, m) := by
  unfold removeLast
  apply removeAt_inert
  have := sizeMax_gt a h
  unfold wdec; rw [if_pos h0]; omega

theorem removeLast_spec (a : ArraySized) (m : Mem) (h : a.Inv) (h0 : 0 < a.size) :
    (a.removeLast m).1 = .ok ∧ (a.removeLast m).2.1 = a.abs.getLast? ∧
    (a.removeLast m).2.2.2 = m ∧ (a.removeLast m).2.2.1.Inv ∧
    (a.removeLast m).2.2.1.abs = a.abs.dropLast ∧
    (a.removeLast m).2.2.1.dataLen = a.dataLen ∧ (a.removeLast m).2.2.1.cfg = a.cfg ∧
    (a.removeLast m).2.2.1.capacity = a.capacity := by
  unfold removeLast
  rw [wdec_pos _ h0]
  have hs := removeAt_spec a (a.size - 1) m h (by omega)
  refine ⟨hs.1, ?_, hs.2.2.1, hs.2.2.2.1, ?_, hs.2.2.2.2.2.1, hs.2.2.2.2.2.2.1, hs.2.2.2.2.2.2.2.1⟩
  · rw [hs.2.1, List.getLast?_eq_getElem?, abs_length]
  · rw [hs.2.2.2.2.1, ← List.eraseIdx_length_sub_one, abs_length]

theorem removeAll_spec (a : ArraySized) (h : a.Inv) : a.removeAll.Inv ∧ a.removeAll.abs = [] := by
  obtain ⟨j1, j2, j3, j4, j5⟩ := h
  exact ⟨⟨j1, j2, Nat.zero_le _, j4, j5⟩, by simp [removeAll, abs]⟩

/-! ### get_at, get_last, peek -/
theorem getAt_spec (a : ArraySized) (index : Nat) (m : Mem) (h : a.Inv) :
    a.getAt index m = (if index < a.size then (.ok, a.abs[index]?, m) else (.errOutOfRange, none, m)) := by
  unfold getAt
  by_cases hi : index < a.size
  · have s1 := slot_in a h index (by have := h.2.2.1; omega)
    rw [if_neg (by omega), if_pos hi, decide_eq_true s1, abs_getElem?, if_pos hi]; rfl
  · rw [if_pos (by omega), if_neg hi]

theorem peek_spec (a : ArraySized) (index : Nat) (m : Mem) : a.peek index m = a.getAt index m := rfl

theorem getLast_spec (a : ArraySized) (m : Mem) (h : a.Inv) :
    a.getLast m = (if a.abs = [] then (.errValueNotFound, none, m) else (.ok, a.abs.getLast?, m)) := by
  unfold getLast
  by_cases h0 : a.size = 0
  · rw [if_pos h0, if_pos]
    simp [abs, h0]
  · rw [if_neg h0, getAt_spec a _ m h, if_pos (by omega), if_neg]
    · rw [List.getLast?_eq_getElem?, abs_length]
    · intro hc
      have := abs_length a
      rw [hc] at this
      simp at this; omega

/-! ### index_of, contains, remove -/
theorem chunkAt_eq_iff (dl : Nat) (b e : Buf Nat) (i : Nat) (he : e.length = dl) :
    chunkAt dl b i = e ↔ ∀ t, t < dl → b.get (dl * i + t) = e.get t := by
  constructor
  · intro h t ht
    rw [← h, ← chunkAt_getElem dl b i t (by simpa using ht)]
    simp [Buf.get, List.getD_eq_getElem?_getD, ht]
  · intro h
    apply List.ext_getElem
    · simp [he]
    · intro t h1 h2
      rw [chunkAt_getElem, h t (by simpa using h1)]
      simp [Buf.get, List.getD_eq_getElem?_getD, h2]

/-- the byte comparison loop started at byte `j` answers whether bytes `j …` of element `i`
equal those of `e`; it reads only inside the buffer -/
theorem cmpLoop_spec (a : ArraySized) (e : Buf Nat) (i : Nat) (m : Mem)
    (hslot : a.dataLen * i + a.dataLen ≤ a.buf.length) :
    ∀ (f j : Nat), j + f = a.dataLen → 0 < f →
      (cmpLoop a e i f j m).2 = m ∧
      ((cmpLoop a e i f j m).1 = true ↔ ∀ t, j ≤ t → t < a.dataLen → a.buf.get (a.dataLen * i + t) = e.get t) := by
  intro f
  induction f with
  | zero => intro j _ hf; omega
  | succ f ih =>
    intro j hj _
    unfold cmpLoop
    have c : decide (a.dataLen * i + j < a.buf.length) = true := by simp; omega
    rw [c]
    simp only [Mem.check_true]
    by_cases hb : a.buf.get (a.dataLen * i + j) = e.get j
    · have : (a.buf.get (a.dataLen * i + j) != e.get j) = false := by simp [hb]
      rw [this]
      simp only [Bool.false_eq_true, if_false]
      by_cases hl : j = a.dataLen - 1
      · rw [if_pos hl]
        refine ⟨rfl, ?_⟩
        simp only [true_iff]
        intro t h1 h2
        have : t = j := by omega
        subst this; exact hb
      · rw [if_neg hl]
        have := ih (j + 1) (by omega) (by omega)
        refine ⟨this.1, ?_⟩
        rw [this.2]
        constructor
        · intro hh t h1 h2
          by_cases etj : t = j
          · subst etj; exact hb
          · exact hh t (by omega) h2
        · intro hh t h1 h2
          exact hh t (by omega) h2
    · have : (a.buf.get (a.dataLen * i + j) != e.get j) = true := by simp [hb]
      rw [this]
      simp only [if_true]
      refine ⟨trivial, ?_⟩
      simp only [Bool.false_eq_true, false_iff]
      intro hh
      exact hb (hh j (Nat.le_refl _) (by omega))

theorem cmpLoop_eq (a : ArraySized) (e : Buf Nat) (i : Nat) (m : Mem) (h : a.Inv) (hi : i < a.capacity)
    (he : e.length = a.dataLen) :
    a.cmpLoop e i a.dataLen 0 m = (decide (a.chunk i = e), m) := by
  have hs := cmpLoop_spec a e i m (slot_in a h i hi) a.dataLen 0 (by omega) h.1
  apply Prod.ext
  · apply Bool.eq_iff_iff.2
    rw [hs.2, decide_eq_true_eq]
    have := chunkAt_eq_iff a.dataLen a.buf e i he
    unfold chunk
    rw [this]
    constructor
    · intro hh t ht; exact hh t (Nat.zero_le _) ht
    · intro hh t _ ht; exact hh t ht
  · exact hs.1

/-- elements `i, i+1, …, i+f-1` -/
def elemsFrom (a : ArraySized) (i f : Nat) : List (List Nat) := (List.range' i f).map a.chunk

theorem abs_eq_elemsFrom (a : ArraySized) : a.abs = a.elemsFrom 0 a.size := by
  simp [abs, elemsFrom, List.range_eq_range']

theorem indexOfLoop_spec (a : ArraySized) (e : Buf Nat) (m : Mem) (h : a.Inv) (he : e.length = a.dataLen) :
    ∀ (f i : Nat), i + f ≤ a.capacity →
      a.indexOfLoop e f i m = ((Spec.SSeq.indexOf (a.elemsFrom i f) e).map (· + i), m) := by
  intro f
  induction f with
  | zero => intro i _; simp [indexOfLoop, elemsFrom, Spec.SSeq.indexOf]
  | succ f ih =>
    intro i hi
    unfold indexOfLoop
    rw [cmpLoop_eq a e i m h (by omega) he]
    simp only [elemsFrom, List.range'_succ, List.map_cons, Spec.SSeq.indexOf]
    by_cases hc : a.chunk i = e
    · simp [hc]
    · simp only [hc, decide_false, Bool.false_eq_true, if_false]
      rw [ih (i + 1) (by omega)]
      simp only [elemsFrom, Option.map_map]
      congr 1
      apply congrArg (fun g => Option.map g _)
      funext x; simp; omega

theorem indexOf_spec (a : ArraySized) (e : Buf Nat) (m : Mem) (h : a.Inv) (he : e.length = a.dataLen) :
    a.indexOf e m = ((Spec.SSeq.indexOfSt a.abs e).1, (Spec.SSeq.indexOfSt a.abs e).2, m) := by
  unfold indexOf
  rw [indexOfLoop_spec a e m h he a.size 0 (by have := h.2.2.1; omega), ← abs_eq_elemsFrom]
  unfold Spec.SSeq.indexOfSt
  cases Spec.SSeq.indexOf a.abs e <;> simp

theorem containsLoop_spec (a : ArraySized) (e : Buf Nat) (m : Mem) (h : a.Inv) (he : e.length = a.dataLen) :
    ∀ (f i o : Nat), i + f ≤ a.capacity →
      a.containsLoop e f i o m = (o + Spec.SSeq.contains (a.elemsFrom i f) e, m) := by
  intro f
  induction f with
  | zero => intro i o _; simp [containsLoop, elemsFrom, Spec.SSeq.contains]
  | succ f ih =>
    intro i o hi
    unfold containsLoop
    rw [cmpLoop_eq a e i m h (by omega) he]
    dsimp only
    rw [ih (i + 1) _ (by omega)]
    simp only [elemsFrom, List.range'_succ, List.map_cons, Spec.SSeq.contains, List.filter_cons]
    by_cases hc : a.chunk i = e
    · simp [hc]; omega
    · simp [hc]

theorem contains_spec (a : ArraySized) (e : Buf Nat) (m : Mem) (h : a.Inv) (he : e.length = a.dataLen) :
    a.contains e m = (Spec.SSeq.contains a.abs e, m) := by
  unfold contains
  rw [containsLoop_spec a e m h he a.size 0 0 (by have := h.2.2.1; omega), ← abs_eq_elemsFrom]
  simp

theorem indexOf_lt (xs : List (List Nat)) (e : List Nat) (k : Nat) (h : Spec.SSeq.indexOf xs e = some k) :
    k < xs.length := by
  induction xs generalizing k with
  | nil => simp [Spec.SSeq.indexOf] at h
  | cons y ys ih =>
    simp only [Spec.SSeq.indexOf] at h
    split at h
    · simp at h; subst h; simp
    · cases hh : Spec.SSeq.indexOf ys e with
      | none => simp [hh] at h
      | some j => simp [hh] at h; subst h; have := ih j hh; simp; omega

theorem remove_spec (a : ArraySized) (e : Buf Nat) (m : Mem) (h : a.Inv) (he : e.length = a.dataLen) :
    (a.remove e m).1 = (Spec.SSeq.remove a.abs e).1 ∧ (a.remove e m).2.2 = m ∧ (a.remove e m).2.1.Inv ∧
    (a.remove e m).2.1.abs = (Spec.SSeq.remove a.abs e).2 ∧
    ((a.remove e m).1 ≠ .ok → (a.remove e m).2.1 = a) ∧
    (a.remove e m).2.1.dataLen = a.dataLen ∧ (a.remove e m).2.1.cfg = a.cfg ∧
    (a.remove e m).2.1.capacity = a.capacity := by
  unfold remove Spec.SSeq.remove
  rw [indexOf_spec a e m h he]
  unfold Spec.SSeq.indexOfSt
  cases hk : Spec.SSeq.indexOf a.abs e with
  | none => exact ⟨rfl, rfl, h, rfl, fun _ => rfl, rfl, rfl, rfl⟩
  | some k =>
    have hlt : k < a.size := by have := indexOf_lt _ _ _ hk; rwa [abs_length] at this
    have hs := removeShift_spec a k m h hlt
    exact ⟨rfl, hs.1, hs.2.1, hs.2.2.1, fun hh => absurd rfl hh, hs.2.2.2.1, hs.2.2.2.2.1, hs.2.2.2.2.2.1⟩
