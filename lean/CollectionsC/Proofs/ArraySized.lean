import CollectionsC.Proofs.SizedChunks
/-! Per-operation lemmas for the sized array: invariant, refinement of `Spec.SSeq`, fault
freedom and ledger balance of the mutating core operations of `Model/ArraySized.lean`.
Everything is stated for all states satisfying `Inv`, all indices and all element values. -/
namespace CC.ArraySized
open CC CC.Gen

/-! ### allocator ledger facts -/
/-- the ledger is where it was: same number of live blocks, same fault flag -/
def MemSame (m m' : Mem) : Prop := m'.live = m.live ∧ m'.fault = m.fault

theorem MemSame.refl (m : Mem) : MemSame m m := ⟨rfl, rfl⟩
theorem MemSame.trans {a b c : Mem} (h1 : MemSame a b) (h2 : MemSame b c) : MemSame a c :=
  ⟨h2.1.trans h1.1, h2.2.trans h1.2⟩

theorem memSame_check (m : Mem) (b : Bool) (hb : b = true) : MemSame m (m.check b) := by
  subst hb; exact MemSame.refl m

theorem free_of_pos (m : Mem) (h : 0 < m.live) : m.free.live = m.live - 1 ∧ m.free.fault = m.fault := by
  unfold Mem.free
  rw [if_neg (by omega)]
  exact ⟨rfl, rfl⟩

/-- allocate one block, release another one: the ledger is balanced -/
theorem memSame_alloc_free (m : Mem) (h : m.alloc.1 = true) : MemSame m m.alloc.2.free := by
  have e := Mem.alloc_fst_true m h
  have f := free_of_pos m.alloc.2 (by omega)
  exact ⟨by rw [f.1, e.1]; omega, by rw [f.2, e.2.1]⟩

/-! ### expand_capacity -/
theorem expandCapacity_spec (a : ArraySized) (m : Mem) (h : a.Inv) (hg : a.GrowOk) :
    ((a.expandCapacity m).1 = .ok ∧ (a.expandCapacity m).2.1.Inv ∧
      (a.expandCapacity m).2.1.abs = a.abs ∧ (a.expandCapacity m).2.1.size = a.size ∧
      (a.expandCapacity m).2.1.dataLen = a.dataLen ∧ (a.expandCapacity m).2.1.grow = a.grow ∧
      a.capacity < (a.expandCapacity m).2.1.capacity ∧ MemSame m (a.expandCapacity m).2.2 ∧ m.alloc.1 = true) ∨
    ((a.expandCapacity m).1 = .errAlloc ∧ (a.expandCapacity m).2.1 = a ∧
      MemSame m (a.expandCapacity m).2.2 ∧ m.alloc.1 = false) ∨
    ((a.expandCapacity m).1 = .errMaxCapacity ∧ (a.expandCapacity m).2.1 = a ∧
      (a.expandCapacity m).2.2 = m ∧ a.capacity = CC_MAX_ELEMENTS) := by
  obtain ⟨hdl, hcap, hsz, hlen, hmax⟩ := h
  unfold expandCapacity
  by_cases hc : a.capacity = CC_MAX_ELEMENTS
  · right; right; simp [hc]
  · rw [if_neg hc]
    dsimp only
    cases hal : m.alloc.1
    · right; left
      have e := Mem.alloc_fst_false m hal
      simp [MemSame, e]
    · left
      simp only [Bool.not_true, Bool.false_eq_true, if_false]
      generalize hnc : (if a.grow a.capacity ≤ a.capacity then
          (if a.capacity < CC_MAX_ELEMENTS / 2 then a.capacity + 1 else CC_MAX_ELEMENTS)
          else a.grow a.capacity) = nc
      have hnc1 : a.capacity < nc ∧ nc ≤ CC_MAX_ELEMENTS := by
        have := hg a.capacity
        subst hnc
        split
        · split <;> omega
        · omega
      have hsl : a.size * a.dataLen ≤ nc * a.dataLen := slots_le (by omega)
      have hsl2 : a.size * a.dataLen ≤ a.buf.length := Nat.le_trans (slots_le hsz) hlen
      have hchk : (decide (a.size * a.dataLen ≤ (fresh (nc * a.dataLen)).length) &&
          decide (a.size * a.dataLen ≤ a.buf.length)) = true := by
        simp [fresh, hsl, hsl2]
      rw [hchk]
      trace_state
      refine ⟨rfl, ⟨hdl, by omega, by omega, by simp [fresh], hnc1.2⟩, ?_, rfl, rfl, rfl, hnc1.1, ?_, rfl⟩
      · rw [abs_eq_elems, abs_eq_elems]
        apply elems_congr
        intro k hk
        rw [chunkAt_memcpy _ _ a.dataLen 0 0 (a.size * a.dataLen) 0 0 a.size k (by simp) (by simp) rfl
          (by simp only [Buf.length_memcpy, fresh, List.length_replicate]; exact slot_le (by omega))]
        rw [if_pos (by omega)]
        simp
      · simpa using memSame_alloc_free m hal
