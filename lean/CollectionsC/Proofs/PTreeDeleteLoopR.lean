import CollectionsC.Proofs.PTreeDeleteLoop
set_option linter.unusedSimpArgs false
set_option linter.unusedVariables false
namespace CC.PTree
open CC
open CC.Tree (Path Dir)

/-! The mirror image of the second half of `Proofs/PTreeDeleteLoop.lean`: `x` a right child. -/

/-- the rest of an iteration after case 1, `x` a right child -/
def delTailR (f : Nat) (st : PT) (x w : Nat) : PT × Nat :=
  if (st.heap.get (st.heap.get w).right).color = .black ∧ (st.heap.get (st.heap.get w).left).color = .black then
    rebalDeleteLoop f { st with heap := setColor st.heap w .red } ((setColor st.heap w .red).get x).parent
  else
    let r3 := delCase3R st x w
    let st4 := delCase4R r3.1 x r3.2
    (st4, st4.root)

theorem rebalDeleteLoop_right' (f : Nat) (st : PT) (x : Nat) (h1 : x ≠ st.root) (h2 : (st.heap.get x).color = .black)
    (h3 : x ≠ (st.heap.get (st.heap.get x).parent).left) :
    rebalDeleteLoop (f + 1) st x = delTailR f (delCase1R st x).1 x (delCase1R st x).2 :=
  rebalDeleteLoop_right f st x h1 h2 h3

/-- **the rest of an iteration with a black sibling** (`x` a right child): case 2 moves the deficit to the parent
(the loop continues there, or stops at once when the parent is red), cases 3/4 repair the tree -/
theorem delTailR_post (f : Nat)
    (ih : ∀ (st : PT) (T : ITree) (q : Path) (n x : Nat), DelPre st T q n x → q.length ≤ f →
      DelPost T (rebalDeleteLoop f st x))
    {st : PT} {T : ITree} {g : Path} {xp : Nat} {cp : Colour} {X : ITree} {kp vp w : Nat} {wl : ITree} {kw vw : Nat}
    {wr : ITree} (hA : At st T g (.node xp cp (.node w .black wr kw vw wl) kp vp X)) {n : Nat}
    (hS : Tree.Short (T.replace g (.node xp cp (.node w .black wr kw vw wl) kp vp X)).erase (g ++ [.R]) n)
    {x : Nat} (hx : x = X.rid) (hxp : (st.heap.get x).parent = xp) (hXc : X.col = .black)
    (hroot : g = [] ∨ (T.replace g (.node xp cp (.node w .black wr kw vw wl) kp vp X)).col = .black)
    (hcont : cp = .red ∨ g.length ≤ f) :
    DelPost (T.replace g (.node xp cp (.node w .black wr kw vw wl) kp vp X)) (delTailR f st x w) := by
  have hPne : (ITree.node xp cp (.node w .black wr kw vw wl) kp vp X) ≠ .nil := by simp
  obtain ⟨m, s1, c2, c3⟩ := Tree.Short_ctx g [.R] (by simp) hS
  have hsubE := (hA.swap hPne _ rfl (List.Perm.refl _)).2.2.2.2
  rw [hsubE] at s1 c2 c3
  have s1' : Tree.Short (.node cp (.node .black wr.erase kw vw wl.erase) kp vp X.erase) [.R] m := s1
  have hXc' : X.erase.col = .black := by rw [ITree.erase_col]; exact hXc
  obtain ⟨rw_, w0⟩ := hA.get [.L] rfl
  rcases Tree.col_cases wr.erase with hwr | hwr
  · rcases Tree.col_cases wl.erase with hwl | hwl
    · -- case 2
      have hwl' : wl.col = .black := by rw [← ITree.erase_col]; exact hwl
      have hwr' : wr.col = .black := by rw [← ITree.erase_col]; exact hwr
      obtain ⟨htest, hA2, hpar2⟩ := delete_step_R_case2 hA hwl' hwr' hxp
      unfold delTailR
      rw [if_pos htest, hpar2]
      obtain ⟨e1, e2, e3, e4, _⟩ := hA.swap hPne (.node xp cp (.node w .red wr kw vw wl) kp vp X)
        (by simp [ITree.erase, Tree.toList]) (List.Perm.refl _)
      have hS2 : Tree.Short (T.replace g (.node xp cp (.node w .red wr kw vw wl) kp vp X)).erase g n := by
        have := c2 _ [] (Tree.Short_case2_R s1' hXc' hwl hwr) (fun h => absurd rfl h)
        rw [e4]; simp only [List.append_nil] at this; exact this
      have hsub2 : (T.replace g (.node xp cp (.node w .red wr kw vw wl) kp vp X)).subtree g =
          .node xp cp (.node w .red wr kw vw wl) kp vp X := ITree.subtree_replace T g _ hA.ne
      have pre : DelPre { st with heap := setColor st.heap w .red }
          (T.replace g (.node xp cp (.node w .red wr kw vw wl) kp vp X)) g n xp := by
        refine ⟨hA2.rep, hS2, by rw [hsub2]; rfl, fun hg => ?_, ?_⟩
        · have := (hA2.get [] rfl).1
          rw [this]; simp [ITree.parentAt_replace]
        · rcases hroot with e | e
          · exact Or.inl e
          · by_cases hg : g = []
            · exact Or.inl hg
            · exact Or.inr (by rw [e3 hg]; exact e)
      have post : DelPost (T.replace g (.node xp cp (.node w .red wr kw vw wl) kp vp X))
          (rebalDeleteLoop f { st with heap := setColor st.heap w .red } xp) := by
        rcases hcont with hc | hc
        · exact pre.stop f (Or.inr (by rw [hsub2]; exact hc))
        · exact ih _ _ _ _ _ pre hc
      exact post.trans e1 e2
    · -- case 3, then case 4
      cases hwlE : wl with
      | nil => rw [hwlE] at hwl; simp [ITree.erase] at hwl
      | node l cl lb kl vl la =>
        subst hwlE
        have hcl : cl = Colour.red := by simpa [ITree.erase] using hwl
        subst hcl
        have hwr' : wr.col = .black := by rw [← ITree.erase_col]; exact hwr
        obtain ⟨st3, e3, hA3, hpar3⟩ := delete_step_R_case3 hA hwr' hx hxp
        obtain ⟨st4, e4, hA4⟩ := delete_step_R_case4 hA3 hpar3
        have hnt : ¬ ((st.heap.get (st.heap.get w).right).color = .black ∧
            (st.heap.get (st.heap.get w).left).color = .black) := by
          rw [rw_]; simp only [ITree.rid_node]
          have := (hA.get [.L, .R] rfl).1
          rw [this]; simp
        unfold delTailR
        rw [if_neg hnt]
        simp only [e3, e4]
        obtain ⟨f1, f2, f3, f4, _⟩ := hA.swap hPne
          (.node l cp (.node w .black wr kw vw lb) kl vl (.node xp .black la kp vp X))
          (by simp [ITree.erase, Tree.toList]) (by
            rw [List.perm_iff_count]; intro a
            simp only [ITree.ids_node, List.count_cons, List.count_append, List.cons_append]; omega)
        have s3 := Tree.Short_case3_R (X := X.erase) (la := la.erase) (lb := lb.erase) (wr := wr.erase) s1' hwr
        obtain ⟨k1, k2⟩ := Tree.Short_case4_R s3 hXc'
        obtain ⟨r1, r2, r3⟩ := c3 (ITree.node l cp (.node w .black wr kw vw lb) kl vl (.node xp .black la kp vp X)).erase
          k1 k2 (Or.inr rfl)
        rw [← f4] at r1 r3
        refine ⟨_, [], hA4.rep, f1, f2, by rw [ITree.subtree_root]; exact hA4.rep.root, ?_, Or.inl rfl⟩
        simp only [Tree.replaceAt]
        rw [Tree.subtree_root']; exact r1.blacken
  · -- case 4
    cases hwrE : wr with
    | nil => rw [hwrE] at hwr; simp [ITree.erase] at hwr
    | node r cr rb kr vr ra =>
      subst hwrE
      have hcr : cr = Colour.red := by simpa [ITree.erase] using hwr
      subst hcr
      have e3 : delCase3R st x w = (st, w) := delete_step_R_case3_skip hA rfl x
      obtain ⟨st4, e4, hA4⟩ := delete_step_R_case4 hA hxp
      have hnt : ¬ ((st.heap.get (st.heap.get w).right).color = .black ∧
          (st.heap.get (st.heap.get w).left).color = .black) := by
        rw [rw_]; simp only [ITree.rid_node]
        have := (hA.get [.L, .L] rfl).1
        rw [this]; simp
      unfold delTailR
      rw [if_neg hnt]
      simp only [e3, e4]
      obtain ⟨f1, f2, f3, f4, _⟩ := hA.swap hPne
        (.node w cp (.node r .black rb kr vr ra) kw vw (.node xp .black wl kp vp X))
        (by simp [ITree.erase, Tree.toList]) (by
          rw [List.perm_iff_count]; intro a
          simp only [ITree.ids_node, List.count_cons, List.count_append, List.cons_append]; omega)
      obtain ⟨k1, k2⟩ := Tree.Short_case4_R (X := X.erase) (wl := wl.erase) (ra := ra.erase) (rb := rb.erase) s1' hXc'
      obtain ⟨r1, r2, r3⟩ := c3 (ITree.node w cp (.node r .black rb kr vr ra) kw vw (.node xp .black wl kp vp X)).erase
        k1 k2 (Or.inr rfl)
      rw [← f4] at r1 r3
      refine ⟨_, [], hA4.rep, f1, f2, by rw [ITree.subtree_root]; exact hA4.rep.root, ?_, Or.inl rfl⟩
      simp only [Tree.replaceAt]
      rw [Tree.subtree_root']; exact r1.blacken

/-- **one iteration, `x` a black right child** -/
theorem iter_R (f : Nat)
    (ih : ∀ (st : PT) (T : ITree) (q : Path) (n x : Nat), DelPre st T q n x → q.length ≤ f →
      DelPost T (rebalDeleteLoop f st x))
    {st : PT} {T : ITree} {g : Path} {n x : Nat} (pre : DelPre st T (g ++ [.R]) n x)
    (hXc : (T.subtree (g ++ [.R])).col = .black) (hlen : g.length ≤ f) :
    DelPost T (rebalDeleteLoop (f + 1) st x) := by
  obtain ⟨m, s1, c2, c3⟩ := Tree.Short_ctx g [.R] (by simp) pre.short
  -- the parent
  cases hg : T.subtree g with
  | nil => rw [← ITree.erase_subtree, hg] at s1; simp [ITree.erase, Tree.Short] at s1
  | node xp cp B kp vp A =>
  have hXA : T.subtree (g ++ [.R]) = A := by rw [ITree.subtree_append, hg]; simp
  rw [hXA] at hXc
  have hne : T.subtree g ≠ .nil := by rw [hg]; simp
  have hTP : T.replace g (.node xp cp B kp vp A) = T := by rw [← hg, ITree.replace_subtree_self]
  have hAt : At st T g (.node xp cp B kp vp A) := by rw [← hg]; exact At.of_represents pre.rep g hne
  have s1' : Tree.Short (.node cp B.erase kp vp A.erase) [.R] m := by
    rw [← ITree.erase_subtree, hg] at s1; exact s1
  -- the sibling
  obtain ⟨cw, wl', kw, vw, wr', hW⟩ := Tree.Short_sibling_R s1'
  cases hB : B with
  | nil => rw [hB] at hW; simp [ITree.erase] at hW
  | node w cw wr kw vw wl =>
  subst hB
  obtain ⟨rp, p0⟩ := hAt.get [] rfl
  have hx : x = A.rid := by rw [pre.hx, hXA]
  have hxp : (st.heap.get x).parent = xp := by
    rw [pre.par (by simp)]; simp [parentAt, hg]
  have h1 : x ≠ st.root := by
    intro e
    have hT : T ≠ .nil := by intro e'; rw [e'] at hg; simp at hg
    cases hTT : T with
    | nil => exact hT hTT
    | node r c rr k v l =>
      have := (pre.rep.get_at [] (by rw [hTT]; exact ITree.subtree_root _)).1
      rw [pre.rep.root, hTT] at e
      simp only [ITree.rid_node] at e
      rw [e, this] at hxp
      simp [parentAt] at hxp
      exact p0 hxp.symm
  have h2 : (st.heap.get x).color = .black := by
    have := hAt.col_read [.R]
    simp only [ITree.subtree_R, ITree.subtree_root] at this
    rw [hx, this]; exact hXc
  have h3 : x ≠ (st.heap.get (st.heap.get x).parent).left := by
    rw [hxp, rp, hx]
    show A.rid ≠ w
    cases hAA : A with
    | nil => exact fun e => (hAt.get [.L] rfl).2 e.symm
    | node ai ac aa ak av ab =>
      have hnd := hAt.nodupG
      rw [hAA] at hnd
      simp only [ITree.ids_node, List.nodup_cons, List.mem_cons, List.mem_append, not_or, List.cons_append,
        List.nodup_append] at hnd
      intro e
      simp only [ITree.rid_node] at e
      exact hnd.2.1.2.1 e.symm
  rw [rebalDeleteLoop_right' f st x h1 h2 h3]
  have hPne : (ITree.node xp cp (.node w cw wr kw vw wl) kp vp A) ≠ .nil := by simp
  have hroot' : g = [] ∨ T.col = .black := by
    rcases pre.root with e | e
    · simp at e
    · exact Or.inr e
  cases cw with
  | black =>
    rw [delete_step_R_case1_skip hAt hxp]
    have := delTailR_post f ih hAt (by rw [hTP]; exact pre.short) hx hxp hXc (by rw [hTP]; exact hroot') (Or.inr hlen)
    rw [hTP] at this; exact this
  | red =>
    obtain ⟨st1, e1, hA1, hpar1⟩ := delete_step_R_case1 hAt hx hxp
    rw [e1]
    obtain ⟨hcp, k1, k2⟩ := Tree.Short_case1_R (X := A.erase) (wl := wl.erase) (wr := wr.erase) s1'
    subst hcp
    obtain ⟨f1, f2, f3, f4, f5⟩ := hAt.swap hPne (.node w .black wr kw vw (.node xp .red wl kp vp A))
      (by simp [ITree.erase, Tree.toList]) (by
        rw [List.perm_iff_count]; intro a
        simp only [ITree.ids_node, List.count_cons, List.count_append, List.cons_append]; omega)
    rw [hTP] at f1 f2 f3 f4
    -- the new sibling is a black node
    cases hwl : wl with
    | nil =>
      rw [hwl] at k1
      simp [ITree.erase, Tree.Short, Tree.bh] at k1
    | node w1 c1 wlr k1' v1' wll =>
    subst hwl
    have hc1 : c1 = Colour.black := by simpa [ITree.erase] using k2
    subst hc1
    have hS1 : Tree.Short (T.replace g (.node w .black wr kw vw (.node xp .red (.node w1 .black wlr k1' v1' wll) kp vp A))).erase
        (g ++ [.R] ++ [.R]) n := by
      have := c2 _ [.R, .R] k1 (fun _ => Or.inl rfl)
      have e : g ++ [Dir.R] ++ [Dir.R] = g ++ [Dir.R, Dir.R] := by simp
      rw [f4, e]; exact this
    have hsub1 : (T.replace g (.node w .black wr kw vw (.node xp .red (.node w1 .black wlr k1' v1' wll) kp vp A))).subtree
        (g ++ [.R]) = .node xp .red (.node w1 .black wlr k1' v1' wll) kp vp A := by
      rw [ITree.subtree_replace_under T g [.R] _ hne]; rfl
    have hA1' : At st1 (T.replace g (.node w .black wr kw vw (.node xp .red (.node w1 .black wlr k1' v1' wll) kp vp A)))
        (g ++ [.R]) (.node xp .red (.node w1 .black wlr k1' v1' wll) kp vp A) := by
      have := At.of_represents hA1.rep (g ++ [.R]) (by rw [hsub1]; simp)
      rw [hsub1] at this; exact this
    have hself : (T.replace g (.node w .black wr kw vw (.node xp .red (.node w1 .black wlr k1' v1' wll) kp vp A))).replace
        (g ++ [.R]) (.node xp .red (.node w1 .black wlr k1' v1' wll) kp vp A) =
        T.replace g (.node w .black wr kw vw (.node xp .red (.node w1 .black wlr k1' v1' wll) kp vp A)) := by
      have := ITree.replace_subtree_self (T.replace g (.node w .black wr kw vw (.node xp .red (.node w1 .black wlr k1' v1' wll) kp vp A))) (g ++ [.R])
      rw [hsub1] at this; exact this
    have := delTailR_post f ih hA1' (by rw [hself]; exact hS1) hx hpar1 hXc (by
      rw [hself]
      by_cases hg0 : g = []
      · right; subst hg0; simp
      · right; rw [f3 hg0]; exact hroot'.resolve_left hg0) (Or.inl rfl)
    rw [hself] at this
    exact this.trans f1 f2
end CC.PTree
