import CollectionsC.Proofs.ArraySizedIter
/-! Sized array, part 5: a rejected call of the core API leaves the whole physical state
untouched (C16), for every index in `Nat` (a fortiori every `size_t`). -/
namespace CC.ArraySized
open CC CC.Gen

/-- a status that reports a rejection: neither success nor an allocation/limit refusal -/
def Rejected (st : Option Stat) : Prop :=
  ∃ s, st = some s ∧ s ≠ .ok ∧ s ≠ .errAlloc ∧ s ≠ .errMaxCapacity

theorem step_inert (a : ArraySized) (op : Spec.SSeq.Op Elem) (m : Mem) (h : a.Inv)
    (hw : OpWF a.dataLen op) (hrej : Rejected (a.step op m).1.st) :
    (a.step op m).2.1 = a ∧ (a.step op m).2.2 = m := by
  obtain ⟨s, hs, n1, n2, n3⟩ := hrej
  cases op with
  | add x =>
    simp only [step, Option.some.injEq] at hs
    rcases add_spec a x m h hw with ⟨h1, _⟩ | ⟨h1, _⟩
    · rw [h1] at hs; exact absurd hs.symm n1
    · rcases h1 with h1 | h1 <;> rw [h1] at hs
      · exact absurd hs.symm n2
      · exact absurd hs.symm n3
  | addAt x i =>
    by_cases hi : i ≤ a.size
    · simp only [step, Option.some.injEq] at hs
      rcases addAt_spec a x i m h hw hi with ⟨h1, _⟩ | ⟨h1, _⟩
      · rw [h1] at hs; exact absurd hs.symm n1
      · rcases h1 with h1 | h1 <;> rw [h1] at hs
        · exact absurd hs.symm n2
        · exact absurd hs.symm n3
    · simp only [step, addAt_inert a x i m (by omega)]; exact ⟨trivial, trivial⟩
  | replaceAt x i =>
    by_cases hi : i < a.size
    · simp only [step, (replaceAt_spec a x i m h hw hi).1, Option.some.injEq] at hs
      exact absurd hs.symm n1
    · simp only [step, replaceAt_inert a x i m (by omega)]; exact ⟨trivial, trivial⟩
  | swapAt i j =>
    by_cases hi : i < a.size ∧ j < a.size
    · simp only [step, (swapAt_spec a i j m h hi.1 hi.2).1, Option.some.injEq] at hs
      exact absurd hs.symm n1
    · simp only [step, swapAt_inert a i j m (by omega)]; exact ⟨trivial, trivial⟩
  | remove x =>
    obtain ⟨s1, s2, _, _, s5, _⟩ := remove_spec a x m h hw
    simp only [step, Option.some.injEq] at hs
    exact ⟨s5 (by rw [hs]; exact n1), s2⟩
  | removeAt i =>
    by_cases hi : i < a.size
    · simp only [step, (removeAt_spec a i m h hi).1, Option.some.injEq] at hs
      exact absurd hs.symm n1
    · simp only [step, removeAt_inert a i m (by omega)]; exact ⟨trivial, trivial⟩
  | removeLast =>
    by_cases h0 : 0 < a.size
    · simp only [step, (removeLast_spec a m h h0).1, Option.some.injEq] at hs
      exact absurd hs.symm n1
    · simp only [step, removeLast_inert a m h (by omega)]; exact ⟨trivial, trivial⟩
  | removeAll => simp [step] at hs
  | reverse => simp [step] at hs
  | filterMut p =>
    by_cases h0 : 0 < a.size
    · simp only [step, (filterMut_spec a p m h h0).1, Option.some.injEq] at hs
      exact absurd hs.symm n1
    · simp only [step, filterMut_inert a p m (by omega)]; exact ⟨trivial, trivial⟩
  | trim =>
    simp only [step, Option.some.injEq] at hs
    rcases trimCapacity_spec a m h with ⟨h1, _⟩ | ⟨h1, _⟩
    · rw [h1] at hs; exact absurd hs.symm n1
    · rw [h1] at hs; exact absurd hs.symm n2
  | getAt i => exact ⟨rfl, by simp only [step, getAt_spec a i m h]; split <;> rfl⟩
  | getLast => exact ⟨rfl, by simp only [step, getLast_spec a m h]; split <;> rfl⟩
  | peek i => exact ⟨rfl, by simp only [step, peek_spec, getAt_spec a i m h]; split <;> rfl⟩
  | indexOf x => exact ⟨rfl, by simp only [step, indexOf_spec a x m h hw]⟩
  | contains x => simp [step] at hs
  | map f => simp [step] at hs
  | reduce fn r0 => simp [step] at hs
  | sort sortFn => simp [step] at hs

/-! ### the per-call bundle under the conventional names -/
theorem step_inv (a : ArraySized) (op : Spec.SSeq.Op Elem) (m : Mem) (h : a.Inv)
    (hw : OpWF a.dataLen op) : (a.step op m).2.1.Inv := (step_refines a op m h hw).2.2.1

theorem step_nofault (a : ArraySized) (op : Spec.SSeq.Op Elem) (m : Mem) (h : a.Inv)
    (hw : OpWF a.dataLen op) : (a.step op m).2.2.fault = m.fault := (step_refines a op m h hw).2.2.2.2.2.1.2.1

/-- the array owns its two blocks (of its own triple) before and after every call of the core API -/
theorem step_ledger (a : ArraySized) (op : Spec.SSeq.Op Elem) (m : Mem) (h : a.Inv)
    (hw : OpWF a.dataLen op) : own (a.step op m).2.2 a.triple = own m a.triple := (step_refines a op m h hw).2.2.2.2.2.1.1

/-- a refused allocation: status `CC_ERR_ALLOC`, physical state unchanged, ledger unchanged -/
theorem step_atomic (a : ArraySized) (op : Spec.SSeq.Op Elem) (m : Mem) (h : a.Inv)
    (hw : OpWF a.dataLen op) (hst : (a.step op m).1.st = some .errAlloc) :
    (a.step op m).2.1 = a ∧ own (a.step op m).2.2 a.triple = own m a.triple ∧ (a.step op m).2.2.fault = m.fault ∧
    (m.allocT a.triple).1 = false := by
  obtain ⟨_, _, _, _, _, h6, h7, h8, _⟩ := step_refines a op m h hw
  have hr : a.refusal op m = some .errAlloc := by unfold refusal; rw [hst]
  exact ⟨h7 (by rw [hr]; simp), h6.1, h6.2.1, h8 hr⟩

/-- every allocation and release of a call goes through the array's own triple: the counters of the
other allocator are untouched -/
theorem step_other (a : ArraySized) (op : Spec.SSeq.Op Elem) (m : Mem) (h : a.Inv)
    (hw : OpWF a.dataLen op) : Other a.triple m (a.step op m).2.2 := (step_refines a op m h hw).2.2.2.2.2.1.2.2

end CC.ArraySized
