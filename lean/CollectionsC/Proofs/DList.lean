import CollectionsC.Proofs.Chain
import CollectionsC.Spec.LSeq
import CollectionsC.Model.LinkedList
/-! Characterisation of every `cc_list.c` model function on canonical states: started in the state
`ofList t xs` (bookkeeping right, content `xs`), the function returns exactly the status/out-value of
the ideal list `Spec.LSeq`, ends in the state `ofList t (spec content)`, and its ledger is the original
one plus the stated `alloc`/`free` events — no `check` fails.  `Inv`-preservation, refinement,
fault-freedom, inertness and ledger theorems are corollaries (`Properties/C04.lean`). -/
namespace CC.DList
open CC Chain
open CC.Spec

/-- closes goals that are conjunctions of pointer/size equalities with `if`s after unfolding -/
macro "ptr_arith" : tactic => `(tactic| (
  (repeat' (first | (apply And.intro) | split))
  all_goals (try simp_all)
  all_goals (try omega)))

/-- variant that decides `if`s by `omega` and keeps the hypotheses intact -/
macro "ptr_arith2" : tactic => `(tactic| (
  repeat' (first | omega | (apply And.intro) | (simp (disch := omega) only [if_pos, if_neg]) | split | (simp [*]; done) | simp)))

theorem new_eq (m : Mem) :
    new t m = if (m.allocT t).1 then (.ok, some (ofList t []), (m.allocT t).2) else (.errAlloc, none, (m.allocT t).2) := by
  unfold new; by_cases h : (m.allocT t).1 = true <;> simp [h, ofList_nil]

theorem getNodeAt_ofList (xs : List Nat) (i : Nat) :
    getNodeAt (ofList t xs) i = if i < xs.length then (.ok, some i) else (.errOutOfRange, none) := by
  unfold getNodeAt
  by_cases h : i < xs.length
  · have h0 : xs.length ≠ 0 := by omega
    simp only [ofList_size, ofList_nodes, h, if_true, ge_iff_le, Nat.not_le.2 h, if_false]
    by_cases h2 : i < xs.length / 2
    · simp only [h2, if_true, ofList, h0, if_false]
      rw [walkNext_some _ _ _ (by omega)]; simp
    · simp only [h2, if_false, ofList, h0]
      rw [walkPrev_some _ _ (by omega)]; congr 2; omega
  · simp [h, Nat.le_of_not_lt h]

theorem addFirst_ofList (xs : List Nat) (x : Nat) (m : Mem) :
    addFirst (ofList t xs) x m =
      if (m.allocT t).1 then (.ok, ofList t (LSeq.addFirst xs x), (m.allocT t).2) else (.errAlloc, ofList t xs, (m.allocT t).2) := by
  unfold addFirst LSeq.addFirst
  simp only [ofList_triple]
  by_cases h : (m.allocT t).1 = true <;> simp [h]
  cases xs with
  | nil => simp [ofList]
  | cons y ys => simp [ofList, Chain.ins, Ptr.valid, Ptr.pos, Ptr.shiftIns]

theorem addLast_ofList (xs : List Nat) (x : Nat) (m : Mem) :
    addLast (ofList t xs) x m =
      if (m.allocT t).1 then (.ok, ofList t (LSeq.addLast xs x), (m.allocT t).2) else (.errAlloc, ofList t xs, (m.allocT t).2) := by
  unfold addLast LSeq.addLast
  simp only [ofList_triple]
  by_cases h : (m.allocT t).1 = true <;> simp [h]
  cases xs with
  | nil => simp [ofList]
  | cons y ys => simp [ofList, Chain.ins, Ptr.valid, Ptr.pos, Ptr.shiftIns]

theorem addAt_ofList (xs : List Nat) (x i : Nat) (m : Mem) :
    addAt (ofList t xs) x i m =
      if (LSeq.addAt xs x i).1 = .ok then
        (if (m.allocT t).1 then (.ok, ofList t (LSeq.addAt xs x i).2, (m.allocT t).2) else (.errAlloc, ofList t xs, (m.allocT t).2))
      else ((LSeq.addAt xs x i).1, ofList t xs, m) := by
  unfold addAt LSeq.addAt
  rw [getNodeAt_ofList]
  by_cases h : i < xs.length
  · simp only [h, if_true]
    simp only [ofList_triple]
    by_cases ha : (m.allocT t).1 = true
    case neg => simp [ha]
    case pos =>
      simp only [ha, if_true]
      have h0 : xs.length ≠ 0 := by omega
      have h4 : i ≤ xs.length - 1 := by omega
      simp [Ptr.valid, h, Ptr.pos, ofList, Chain.ins, Ptr.shiftIns, h0, List.length_insertIdx, Nat.le_of_lt h]
      by_cases hi : i = 0 <;> simp [hi, h4] <;> omega
  · simp [h]

/-- unlinking the `i`-th node -/
theorem unlinkn_ofList (xs : List Nat) (i : Nat) (m : Mem) (h : i < xs.length) :
    unlinkn (ofList t xs) (some i) m = (xs.getD i 0, ofList t (xs.eraseIdx i), (m.freeT t)) := by
  have h0 : xs.length ≠ 0 := by omega
  unfold unlinkn
  simp only [Ptr.valid, ofList_nodes, h, decide_true, Mem.check_true, data_some, Ptr.prev, Ptr.next, Ptr.pos, Option.getD_some]
  by_cases h1 : i = 0 <;> by_cases h2 : i + 1 < xs.length <;>
    simp only [h1, h2, if_true, if_false, ofList, Chain.del, Ptr.shiftDel, h0, List.length_eraseIdx, h, reduceCtorEq] <;>
    ptr_arith

theorem find_head_ofList (xs : List Nat) (f : Nat → Bool) :
    (ofList t xs).find (ofList t xs).head f = (xs.findIdx? f) := by
  cases xs with
  | nil => simp [ofList, Chain.find]
  | cons y ys =>
    simp only [ofList, Chain.find, List.length_cons, Nat.add_one_ne_zero, if_false, List.drop_zero]
    cases (y :: ys).findIdx? f <;> simp

theorem findIdx?_eq_of_mem (xs : List Nat) (x : Nat) (h : x ∈ xs) :
    ∃ i, xs.findIdx? (· == x) = some i ∧ i < xs.length ∧ xs.getD i 0 = x ∧ xs.eraseIdx i = xs.erase x := by
  induction xs with
  | nil => simp at h
  | cons y ys ih =>
    by_cases hy : y = x
    · subst hy; exact ⟨0, by simp [List.findIdx?_cons], by simp, by simp, by simp⟩
    · have hm : x ∈ ys := by simpa [Ne.symm hy] using h
      obtain ⟨i, h1, h2, h3, h4⟩ := ih hm
      refine ⟨i + 1, ?_, by simp; omega, by simpa using h3, ?_⟩
      · simp [List.findIdx?_cons, hy, h1]
      · have : (y == x) = false := by simp [hy]
        simp [this, h4]

theorem findIdx?_none_of_not_mem (xs : List Nat) (x : Nat) (h : x ∉ xs) : xs.findIdx? (· == x) = none := by
  simp only [List.findIdx?_eq_none_iff]
  intro y hy; simp; intro e; subst e; exact h hy

theorem remove_ofList (xs : List Nat) (x : Nat) (m : Mem) :
    remove (ofList t xs) x m =
      ((LSeq.remove xs x).1, (LSeq.remove xs x).2.1, ofList t (LSeq.remove xs x).2.2,
       if (LSeq.remove xs x).1 = .ok then (m.freeT t) else m) := by
  unfold remove getNode LSeq.remove
  rw [find_head_ofList]
  by_cases h : x ∈ xs
  · obtain ⟨i, h1, h2, h3, h4⟩ := findIdx?_eq_of_mem xs x h
    simp only [h1, h, if_true]
    rw [unlinkn_ofList _ _ _ h2]
    have h3' : xs[i]?.getD 0 = x := by simpa using h3
    simp [data_some, h3', h4]
  · simp [findIdx?_none_of_not_mem xs x h, h]

theorem removeAt_ofList (xs : List Nat) (i : Nat) (m : Mem) :
    removeAt (ofList t xs) i m =
      ((LSeq.removeAt xs i).1, (LSeq.removeAt xs i).2.1, ofList t (LSeq.removeAt xs i).2.2,
       if (LSeq.removeAt xs i).1 = .ok then (m.freeT t) else m) := by
  unfold removeAt LSeq.removeAt
  rw [getNodeAt_ofList]
  by_cases h : i < xs.length
  · simp only [h, if_true]
    rw [unlinkn_ofList _ _ _ h]; simp [data_some]
  · simp [h]

theorem removeFirst_ofList (xs : List Nat) (m : Mem) :
    removeFirst (ofList t xs) m =
      ((LSeq.removeFirst xs).1, (LSeq.removeFirst xs).2.1, ofList t (LSeq.removeFirst xs).2.2,
       if (LSeq.removeFirst xs).1 = .ok then (m.freeT t) else m) := by
  unfold removeFirst
  cases xs with
  | nil => simp [LSeq.removeFirst]
  | cons y ys =>
    simp only [ofList_size, List.length_cons, Nat.add_one_ne_zero, if_false, ofList_head_cons]
    rw [unlinkn_ofList _ _ _ (by simp)]; simp [LSeq.removeFirst]

theorem removeLast_ofList (xs : List Nat) (m : Mem) :
    removeLast (ofList t xs) m =
      ((LSeq.removeLast xs).1, (LSeq.removeLast xs).2.1, ofList t (LSeq.removeLast xs).2.2,
       if (LSeq.removeLast xs).1 = .ok then (m.freeT t) else m) := by
  unfold removeLast
  cases xs with
  | nil => simp [LSeq.removeLast]
  | cons y ys =>
    simp only [ofList_size, List.length_cons, Nat.add_one_ne_zero, if_false, ofList_tail_cons]
    rw [unlinkn_ofList _ _ _ (by simp)]
    have h1 : (y :: ys)[ys.length]?.getD 0 = (y :: ys).getLast?.getD 0 := by
      rw [List.getLast?_eq_getElem?]; simp
    have h2 : (y :: ys).eraseIdx ys.length = (y :: ys).dropLast := List.eraseIdx_eq_dropLast (by simp)
    simp only [LSeq.removeLast, List.getD_eq_getElem?_getD, List.getLastD_eq_getLast?, h1, h2]
    simp

theorem unlinkAllLoop_ofList : ∀ (xs : List Nat) (k : Nat) (cb : List Nat) (m : Mem), xs.length ≤ k →
    unlinkAllLoop k (ofList t xs) (ofList t xs).head cb m = (ofList t [], cb ++ xs, Mem.freeN t xs.length m)
  | [], k, cb, m, _ => by cases k <;> simp [unlinkAllLoop, ofList, Mem.freeN]
  | y :: ys, 0, cb, m, h => by simp at h
  | y :: ys, k + 1, cb, m, h => by
    rw [ofList_head_cons]
    simp only [unlinkAllLoop]
    rw [unlinkn_ofList _ _ _ (by simp)]
    have hn : (Ptr.next (ofList t (y :: ys)).nodes.length (some 0)).shiftDel 0 = (ofList t ys).head := by
      cases ys <;> simp [Ptr.next, Ptr.shiftDel, ofList]
    simp only [hn, List.eraseIdx_zero, List.tail_cons, data_some]
    rw [unlinkAllLoop_ofList ys k _ _ (by simpa using h)]
    simp [Mem.freeN]

theorem removeAll_ofList (xs : List Nat) (m : Mem) :
    removeAll (ofList t xs) m =
      ((LSeq.removeAll xs).1, (LSeq.removeAll xs).2.1, ofList t (LSeq.removeAll xs).2.2, Mem.freeN t xs.length m) := by
  unfold removeAll unlinknAll LSeq.removeAll
  cases xs with
  | nil => simp [Mem.freeN]
  | cons y ys =>
    simp only [ofList_size, List.length_cons, Nat.add_one_ne_zero, if_false, ofList_nodes]
    rw [unlinkAllLoop_ofList (y :: ys) (ys.length + 1) [] m (by simp)]
    simp [ofList]

theorem destroy_ofList (xs : List Nat) (m : Mem) :
    destroy (ofList t xs) m = Mem.freeN t (xs.length + 1) m := by
  unfold destroy
  cases xs with
  | nil => simp [Mem.freeN]
  | cons y ys =>
    rw [removeAll_ofList]
    simp [Mem.freeN, Mem.freeN_free]

theorem destroyCb_ofList (xs : List Nat) (m : Mem) :
    destroyCb (ofList t xs) m = (xs, Mem.freeN t (xs.length + 1) m) := by
  unfold destroyCb
  rw [removeAll_ofList]
  cases xs <;> simp [LSeq.removeAll, Mem.freeN, Mem.freeN_free]

theorem replaceAt_ofList (xs : List Nat) (x i : Nat) (m : Mem) :
    replaceAt (ofList t xs) x i m =
      ((LSeq.replaceAt xs x i).1, (LSeq.replaceAt xs x i).2.1, ofList t (LSeq.replaceAt xs x i).2.2, m) := by
  unfold replaceAt LSeq.replaceAt
  rw [getNodeAt_ofList]
  by_cases h : i < xs.length
  · have h0 : xs.length ≠ 0 := by omega
    simp [h, Ptr.valid, data_some, Chain.setData, Ptr.pos, ofList, h0]
  · simp [h]

theorem getFirst_ofList (xs : List Nat) (m : Mem) :
    getFirst (ofList t xs) m = ((LSeq.getFirst xs).1, (LSeq.getFirst xs).2, m) := by
  unfold getFirst
  cases xs <;> simp [LSeq.getFirst, ofList, Ptr.valid, data_some]

theorem getLast_ofList (xs : List Nat) (m : Mem) :
    getLast (ofList t xs) m = ((LSeq.getLast xs).1, (LSeq.getLast xs).2, m) := by
  unfold getLast
  cases xs with
  | nil => simp [LSeq.getLast]
  | cons y ys =>
    have h1 : (y :: ys)[ys.length]?.getD 0 = (y :: ys).getLast?.getD 0 := by
      rw [List.getLast?_eq_getElem?]; simp
    simp only [LSeq.getLast, ofList, Ptr.valid, Chain.data, Ptr.pos, List.getD_eq_getElem?_getD, List.getLastD_eq_getLast?]
    rw [← h1]; simp

theorem getAt_ofList (xs : List Nat) (i : Nat) (m : Mem) :
    getAt (ofList t xs) i m = ((LSeq.getAt xs i).1, (LSeq.getAt xs i).2, m) := by
  unfold getAt LSeq.getAt
  rw [getNodeAt_ofList]
  by_cases h : i < xs.length <;> simp [h, Ptr.valid, data_some]

theorem contains_ofList (xs : List Nat) (x : Nat) (m : Mem) : contains (ofList t xs) x m = (LSeq.contains xs x, m) := by
  simp only [contains, LSeq.contains, ofList_nodes]
  rw [ofList_head_ptrAt, countLoop_ofList xs _ m xs.length 0 0 (by omega)]
  simp [List.count]
theorem containsValue_ofList (cmp : Nat → Nat → Int) (xs : List Nat) (x : Nat) (m : Mem) :
    containsValue cmp (ofList t xs) x m = (LSeq.containsValue cmp xs x, m) := by
  simp only [containsValue, LSeq.containsValue, ofList_nodes]
  rw [ofList_head_ptrAt, countLoop_ofList xs _ m xs.length 0 0 (by omega)]
  simp
theorem indexOf_ofList (cmp : Nat → Nat → Int) (xs : List Nat) (x : Nat) (m : Mem) :
    indexOf cmp (ofList t xs) x m = ((LSeq.indexOf cmp xs x).1, (LSeq.indexOf cmp xs x).2, m) := by
  simp only [indexOf, LSeq.indexOf, ofList_nodes]
  rw [ofList_head_ptrAt, indexLoop_ofList xs _ m xs.length 0 0 (by omega)]
  simp only [List.drop_zero]
  cases xs.findIdx? fun y => cmp y x == 0 <;> simp
theorem foreach_ofList (xs : List Nat) (m : Mem) : foreach (ofList t xs) m = (xs, m) := by
  simp only [foreach, ofList_nodes]
  rw [ofList_head_ptrAt, foreachLoop_ofList xs m xs.length 0 (by omega)]
  simp
