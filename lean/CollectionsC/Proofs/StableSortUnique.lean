import CollectionsC.Proofs.MergeSort
/-! The stable sorted permutation is unique: the merge sort of `cc_list_sort_in_place` computes
exactly the stable insertion sort `Spec.LSeq.stableSort` that serves as the executable reference
in the correspondence check.  Technique (as in core's `mergeSort` lemmas): tag the elements with
their positions; on tagged elements the lexicographic relation `zipIdxLE` is antisymmetric, so two
ordered permutations coincide. -/
namespace CC.DList
open CC.Spec.LSeq
open List

variable {α : Type}

/-- `msort` for an arbitrary element type and Boolean relation -/
def gmsort (le : α → α → Bool) : Nat → List α → List α
  | 0, xs => xs
  | fuel + 1, xs =>
    if xs.length < 2 then xs else
    merge (gmsort le fuel (xs.take (xs.length / 2))) (gmsort le fuel (xs.drop (xs.length / 2))) le

/-- stable insertion sort for an arbitrary element type -/
def ginsert (le : α → α → Bool) (x : α) : List α → List α
  | [] => [x]
  | y :: ys => if le x y then x :: y :: ys else y :: ginsert le x ys
def gisort (le : α → α → Bool) (l : List α) : List α := l.foldr (ginsert le) []

theorem msort_eq_gmsort (cmp : Nat → Nat → Int) : ∀ fuel xs, msort cmp fuel xs = gmsort (leOf cmp) fuel xs
  | 0, _ => rfl
  | fuel + 1, xs => by
    simp only [msort, gmsort, msort_eq_gmsort cmp fuel]; rfl

theorem insertBy_eq_ginsert (cmp : Nat → Nat → Int) (x : Nat) : ∀ l, insertBy cmp x l = ginsert (leOf cmp) x l
  | [] => rfl
  | y :: ys => by simp only [insertBy, ginsert, leOf, decide_eq_true_eq, insertBy_eq_ginsert cmp x ys]

theorem stableSort_eq_gisort (cmp : Nat → Nat → Int) (l : List Nat) : stableSort cmp l = gisort (leOf cmp) l := by
  unfold stableSort gisort
  induction l with
  | nil => rfl
  | cons x xs ih => simp only [List.foldr_cons, ih, insertBy_eq_ginsert]

variable {le : α → α → Bool}

theorem gmsort_perm : ∀ (fuel : Nat) (xs : List α), (gmsort le fuel xs).Perm xs
  | 0, xs => by simp [gmsort]
  | fuel + 1, xs => by
    simp only [gmsort]
    split
    · exact Perm.refl _
    · refine (List.merge_perm_append _).trans ?_
      refine ((gmsort_perm fuel _).append (gmsort_perm fuel _)).trans ?_
      rw [List.take_append_drop]

theorem gmsort_sorted (trans : ∀ a b c, le a b → le b c → le a c) (total : ∀ a b, le a b || le b a) :
    ∀ (fuel : Nat) (xs : List α), xs.length ≤ fuel → (gmsort le fuel xs).Pairwise (fun a b => le a b = true)
  | 0, xs, h => by
    have : xs = [] := by simpa using h
    subst this; simp [gmsort]
  | fuel + 1, xs, h => by
    simp only [gmsort]
    split
    · rename_i h2
      match xs, h2 with
      | [], _ => exact List.Pairwise.nil
      | [a], _ => exact List.pairwise_singleton _ _
    · rename_i h2
      have h3 : 2 ≤ xs.length := by omega
      exact List.pairwise_merge trans total _ _
        (gmsort_sorted trans total fuel _ (by rw [List.length_take]; omega))
        (gmsort_sorted trans total fuel _ (by rw [List.length_drop]; omega))

theorem ginsert_perm (x : α) : ∀ l : List α, (ginsert le x l).Perm (x :: l)
  | [] => Perm.refl _
  | y :: ys => by
    simp only [ginsert]
    split
    · exact Perm.refl _
    · exact ((ginsert_perm x ys).cons y).trans (Perm.swap x y ys)

theorem gisort_perm : ∀ l : List α, (gisort le l).Perm l
  | [] => Perm.refl _
  | x :: xs => by
    simp only [gisort, List.foldr_cons]
    exact (ginsert_perm x _).trans ((gisort_perm xs).cons x)

theorem ginsert_sorted (trans : ∀ a b c, le a b → le b c → le a c) (total : ∀ a b, le a b || le b a) (x : α) :
    ∀ l : List α, l.Pairwise (fun a b => le a b = true) → (ginsert le x l).Pairwise (fun a b => le a b = true)
  | [], _ => List.pairwise_singleton _ _
  | y :: ys, h => by
    simp only [ginsert]
    by_cases hxy : le x y = true
    · rw [if_pos hxy]
      refine List.Pairwise.cons ?_ h
      intro z hz
      rcases List.mem_cons.1 hz with e | hm
      · subst e; exact hxy
      · exact trans _ _ _ hxy (List.rel_of_pairwise_cons h hm)
    · rw [if_neg hxy]
      have hyx : le y x = true := by have := total x y; simp_all
      refine List.Pairwise.cons ?_ (ginsert_sorted trans total x ys (List.Pairwise.of_cons h))
      intro z hz
      rcases List.mem_cons.1 ((ginsert_perm x ys).mem_iff.1 hz) with e | hm
      · subst e; exact hyx
      · exact List.rel_of_pairwise_cons h hm

theorem gisort_sorted (trans : ∀ a b c, le a b → le b c → le a c) (total : ∀ a b, le a b || le b a) :
    ∀ l : List α, (gisort le l).Pairwise (fun a b => le a b = true)
  | [] => List.Pairwise.nil
  | x :: xs => by
    simp only [gisort, List.foldr_cons]
    exact ginsert_sorted trans total x _ (gisort_sorted trans total xs)

/-- on position-tagged elements the insertion takes the same decisions -/
theorem ginsert_tagged (x : α) (i : Nat) : ∀ l : List (α × Nat), (∀ p, p ∈ l → i ≤ p.2) →
    (ginsert (zipIdxLE le) (x, i) l).map (·.1) = ginsert le x (l.map (·.1))
  | [], _ => rfl
  | (y, j) :: ys, h => by
    have hij : i ≤ j := h (y, j) (List.mem_cons_self)
    simp only [ginsert, zipIdxLE, List.map_cons]
    by_cases hxy : le x y = true
    · simp [hxy, hij]
    · simp only [hxy, Bool.false_eq_true, if_false, List.map_cons]
      rw [ginsert_tagged x i ys (fun p hp => h p (List.mem_cons_of_mem _ hp))]

theorem gisort_tagged : ∀ (xs : List α) (i : Nat),
    (gisort (zipIdxLE le) (xs.zipIdx i)).map (·.1) = gisort le xs
  | [], _ => rfl
  | x :: xs, i => by
    simp only [List.zipIdx_cons, gisort, List.foldr_cons]
    rw [ginsert_tagged x i]
    · have := gisort_tagged xs (i + 1)
      simp only [gisort] at this
      rw [this]
    · intro p hp
      have hm : p ∈ xs.zipIdx (i + 1) := (gisort_perm _).mem_iff.1 hp
      have := (List.mem_zipIdx_iff_le_and_getElem?_sub.1 hm).1
      omega

theorem take_zipIdx (xs : List α) (i k : Nat) : (xs.zipIdx i).take k = (xs.take k).zipIdx i := by
  induction xs generalizing i k with
  | nil => simp
  | cons x xs ih => cases k with
    | zero => simp
    | succ k => simp [ih]

theorem drop_zipIdx (xs : List α) (i k : Nat) : (xs.zipIdx i).drop k = (xs.drop k).zipIdx (i + k) := by
  induction xs generalizing i k with
  | nil => simp
  | cons x xs ih => cases k with
    | zero => simp
    | succ k => simp [ih]; congr 1; omega

theorem gmsort_tagged : ∀ (fuel : Nat) (xs : List α) (i : Nat),
    (gmsort (zipIdxLE le) fuel (xs.zipIdx i)).map (·.1) = gmsort le fuel xs
  | 0, xs, i => by simp [gmsort, List.zipIdx_map_fst]
  | fuel + 1, xs, i => by
    simp only [gmsort, List.length_zipIdx]
    split
    · exact List.zipIdx_map_fst _ _
    · rw [take_zipIdx, drop_zipIdx, List.merge_stable, gmsort_tagged fuel, gmsort_tagged fuel]
      intro x y hx hy
      have hx' := (gmsort_perm _ _).mem_iff.1 hx
      have hy' := (gmsort_perm _ _).mem_iff.1 hy
      obtain ⟨x1, x2⟩ := x
      obtain ⟨y1, y2⟩ := y
      have a1 := List.mem_zipIdx hx'
      have a2 := List.mem_zipIdx hy'
      have := a1.2.1
      have := a2.1
      simp only [List.length_take] at *
      omega

/-- **the stable sorted permutation is unique**: merge sort (left run = first half) and stable
insertion sort compute the same list, for every total preorder -/
theorem gmsort_eq_gisort (trans : ∀ a b c, le a b → le b c → le a c) (total : ∀ a b, le a b || le b a)
    (fuel : Nat) (xs : List α) (h : xs.length ≤ fuel) : gmsort le fuel xs = gisort le xs := by
  rw [← gmsort_tagged (le := le) fuel xs 0, ← gisort_tagged (le := le) xs 0]
  congr 1
  apply List.Perm.eq_of_pairwise (le := fun a b => zipIdxLE le a b = true)
  · rintro ⟨a, i⟩ ⟨b, j⟩ ha hb hab hba
    have ha' := List.mem_zipIdx ((gmsort_perm _ _).mem_iff.1 ha)
    have hb' := List.mem_zipIdx ((gisort_perm _).mem_iff.1 hb)
    simp only [zipIdxLE] at hab hba
    have hij : i = j := by
      by_cases h1 : le a b = true
      · by_cases h2 : le b a = true
        · simp only [h1, h2, if_true, decide_eq_true_eq] at hab hba; omega
        · simp [h1, h2] at hba
      · simp [h1] at hab
    subst hij
    rw [ha'.2.2, hb'.2.2]
  · exact gmsort_sorted (List.zipIdxLE_trans trans) (List.zipIdxLE_total total) fuel _ (by simpa using h)
  · exact gisort_sorted (List.zipIdxLE_trans trans) (List.zipIdxLE_total total) _
  · exact (gmsort_perm _ _).trans (gisort_perm _).symm

/-- `cc_list_sort_in_place`'s merge sort computes the reference stable sort of the spec -/
theorem msort_eq_stableSort {cmp : Nat → Nat → Int} (hc : CmpPreorder cmp) (xs : List Nat) :
    msort cmp xs.length xs = stableSort cmp xs := by
  rw [msort_eq_gmsort, stableSort_eq_gisort]
  exact gmsort_eq_gisort hc.le_trans hc.le_total _ _ (Nat.le_refl _)

end CC.DList
