import CollectionsC.Proofs.ArraySizedGeometric
/-! Sized array, part 9 (second audit): when appends succeed, which calls of a history may be
refused, unconditional inertness of rejected iterator calls, `sort` on ≤ 1 record is the identity on
the whole physical state, the doubling bound with its hypothesis restricted to the capacities that
occur. -/
namespace CC.ArraySized
open CC CC.Gen

/-! ### when an insertion succeeds -/
/-- `add` succeeds whenever there is a free slot — whatever the allocator would answer — and on a full
array whenever the allocator grants the request and the size limit is not reached -/
theorem add_succeeds (a : ArraySized) (e : Buf Nat) (m : Mem) (h : a.Inv) (he : e.length = a.dataLen)
    (hc : a.size < a.capacity ∨ ((m.allocT a.triple).1 = true ∧ ¬ a.AtLimit)) :
    (a.add e m).1 = .ok ∧ (a.add e m).2.1.abs = a.abs ++ [e] := by
  rcases add_spec a e m h he with ⟨h1, _, h3, _⟩ | ⟨h1, _, _, h4, h5, h6, _⟩
  · exact ⟨h1, h3⟩
  · rcases hc with hc | ⟨hal, hl⟩
    · omega
    · rcases h1 with h1 | h1
      · have := h5 h1; rw [hal] at this; cases this
      · exact absurd (h6 h1) hl

theorem addAt_succeeds (a : ArraySized) (e : Buf Nat) (i : Nat) (m : Mem) (h : a.Inv) (he : e.length = a.dataLen)
    (hi : i ≤ a.size) (hc : a.size < a.capacity ∨ ((m.allocT a.triple).1 = true ∧ ¬ a.AtLimit)) :
    (a.addAt e i m).1 = .ok ∧ (a.addAt e i m).2.1.abs = a.abs.insertIdx i e := by
  rcases addAt_spec a e i m h he hi with ⟨h1, _, h3, _⟩ | ⟨h1, _, _, h4, h5, h6, _⟩
  · exact ⟨h1, h3⟩
  · rcases hc with hc | ⟨hal, hl⟩
    · omega
    · rcases h1 with h1 | h1
      · have := h5 h1; rw [hal] at this; cases this
      · exact absurd (h6 h1) hl

/-- a dischargeable side condition: an array below half the element limit whose next capacity (the
growth function's value, resp. `capacity + 1`) still fits `CC_MAX_ELEMENTS` bytes is not at the limit -/
theorem not_atLimit (a : ArraySized) (hc : a.capacity < CC_MAX_ELEMENTS / 2)
    (hg : a.grow a.capacity ≤ CC_MAX_ELEMENTS / a.dataLen) (h1 : a.capacity + 1 ≤ CC_MAX_ELEMENTS / a.dataLen) :
    ¬ a.AtLimit := by
  intro hl
  rcases hl with hl | hl
  · omega
  · unfold nextCapacity at hl
    simp only [hc, if_true] at hl
    split at hl <;> omega

/-! ### which calls of a history are refused -/
theorem refusals_getElem? (ops : List (Spec.SSeq.Op Elem)) : ∀ (a : ArraySized) (m : Mem) (k : Nat),
    (a.refusals ops m)[k]? =
      (ops[k]?).map (fun op => (a.run (ops.take k) m).2.1.refusal op (a.run (ops.take k) m).2.2) := by
  induction ops with
  | nil => intro a m k; simp [refusals]
  | cons op ops ih =>
    intro a m k
    cases k with
    | zero => simp [refusals, run]
    | succ k => simp only [refusals, List.getElem?_cons_succ, List.take_succ_cons, run]; exact ih _ _ k

/-- **the refusal oracle is pinned at history level**: the `k`-th call of a history is reported as
refused only if, in the state the array is in at that point, the array is full and its own allocator
refuses the request (`CC_ERR_ALLOC`; for `trim_capacity`: the allocator refuses) or the array stands
at its size limit (`CC_ERR_MAX_CAPACITY`) — for every schedule -/
theorem run_refusals_pinned (ops : List (Spec.SSeq.Op Elem)) (a : ArraySized) (m : Mem) (h : a.Inv)
    (hw : ∀ op ∈ ops, OpWF a.dataLen op) (k : Nat) (op : Spec.SSeq.Op Elem) (hk : ops[k]? = some op) :
    ((a.refusals ops m)[k]? = some (some .errAlloc) →
      (((a.run (ops.take k) m).2.2).allocT (a.run (ops.take k) m).2.1.triple).1 = false) ∧
    ((a.refusals ops m)[k]? = some (some .errMaxCapacity) →
      (a.run (ops.take k) m).2.1.AtLimit ∧ (a.run (ops.take k) m).2.1.size = (a.run (ops.take k) m).2.1.capacity) ∧
    ((a.refusals ops m)[k]? = some none ∨ (a.refusals ops m)[k]? = some (some .errAlloc) ∨
      (a.refusals ops m)[k]? = some (some .errMaxCapacity)) := by
  have hmem : op ∈ ops := List.mem_of_getElem? hk
  obtain ⟨_, _, i1, _, d1, _⟩ := run_refines (ops.take k) a m h (fun o ho => hw o (List.mem_of_mem_take ho))
  have hwo : OpWF (a.run (ops.take k) m).2.1.dataLen op := by rw [d1]; exact hw op hmem
  obtain ⟨_, _, _, _, _, _, _, h8, h9⟩ := step_refines (a.run (ops.take k) m).2.1 op (a.run (ops.take k) m).2.2 i1 hwo
  rw [refusals_getElem?, hk]
  simp only [Option.map_some, Option.some.injEq]
  refine ⟨h8, h9, ?_⟩
  generalize (a.run (ops.take k) m).2.1 = b
  generalize (a.run (ops.take k) m).2.2 = mb
  unfold refusal
  split <;> simp

/-! ### rejected iterator calls, without any assumption on the cursor -/
theorem removeAt_not_ok (a : ArraySized) (i : Nat) (m : Mem) (h : (a.removeAt i m).1 ≠ .ok) :
    a.removeAt i m = (.errOutOfRange, none, a, m) := by
  unfold removeAt at *
  split
  · rfl
  · rename_i hh; rw [if_neg hh] at h; exact absurd rfl h

/-- a rejected `iter_remove` (stale or fresh cursor alike) leaves array, cursor and ledger untouched -/
theorem iterRemove_inert (it : Iter) (a : ArraySized) (m : Mem) (h : (a.iterRemove it m).1 ≠ .ok) :
    (a.iterRemove it m).2.2.1 = it ∧ (a.iterRemove it m).2.2.2.1 = a ∧ (a.iterRemove it m).2.2.2.2 = m := by
  unfold iterRemove at *
  split
  · rename_i hl
    rw [if_pos hl] at h
    dsimp only at h ⊢
    by_cases hok : (a.removeAt (wdec it.index) m).1 = .ok
    · rw [if_pos hok] at h; exact absurd hok h
    · rw [if_neg hok, removeAt_not_ok a _ m hok]; exact ⟨rfl, rfl, rfl⟩
  · exact ⟨rfl, rfl, rfl⟩

/-! ### sort on at most one record: nothing changes, dead slots and capacity included -/
theorem writeAll_single (dl : Nat) (c : List Nat) (b : Buf Nat) (hc : c = chunkAt dl b 0) (_hl : dl ≤ b.length) :
    writeAll dl [c] 0 b = b := by
  simp only [writeAll]
  apply List.ext_getElem
  · simp
  · intro j h1 h2
    have hj : j < b.length := by simpa using h1
    have := Buf.get_memcpy b (dl * 0) c 0 dl j hj
    simp only [Buf.get, List.getD_eq_getElem?_getD, List.getElem?_eq_getElem h1, List.getElem?_eq_getElem h2,
      Option.getD_some] at this
    rw [this]
    split
    · rename_i hr
      subst hc
      have hjd : j < dl := by omega
      have : (chunkAt dl b 0)[j - dl * 0 + 0]? = some b[j] := by
        rw [List.getElem?_eq_getElem (by simp; omega), chunkAt_getElem]
        simp [Buf.get, List.getD_eq_getElem?_getD, hj]
      rw [this]; rfl
    · rfl

theorem sort_le_one_phys (a : ArraySized) (sortFn : List Elem → List Elem) (h : a.Inv)
    (hperm : ∀ l, (sortFn l).Perm l) (h1 : a.size ≤ 1) (m : Mem) : a.sort sortFn m = (a, m) := by
  obtain ⟨j1, j2, j3, j4, j5⟩ := h
  have hp := hperm a.abs
  have hchk : decide (a.size * a.dataLen ≤ a.buf.length) = true :=
    decide_eq_true (Nat.le_trans (slots_le j3) j4)
  unfold sort
  rw [hchk]
  simp only [Mem.check_true]
  have hbuf : writeAll a.dataLen (sortFn a.abs) 0 a.buf = a.buf := by
    by_cases h0 : a.size = 0
    · have : a.abs = [] := by simp [abs, h0]
      rw [this] at hp ⊢
      rw [List.Perm.eq_nil hp]; rfl
    · have hs1 : a.size = 1 := by omega
      have : a.abs = [a.chunk 0] := by simp [abs, hs1, List.range_succ]
      rw [this] at hp ⊢
      rw [List.perm_singleton.1 hp]
      apply writeAll_single _ _ _ rfl
      have : 1 * a.dataLen ≤ a.capacity * a.dataLen := slots_le j2
      omega
  rw [hbuf]

/-! ### the doubling bound, hypothesis on the capacities that occur only -/
theorem addAll_doubling_below (xs : List (Buf Nat)) : ∀ (a : ArraySized) (m : Mem), a.Inv →
    (∀ x ∈ xs, x.length = a.dataLen) → (∀ c, 1 ≤ c → c < a.size + xs.length → 2 * c ≤ a.grow c) →
    a.size + xs.length ≤ CC_MAX_ELEMENTS / 2 →
    (a.addAll xs m).1.Inv ∧ cnt m a.triple ≤ cnt (a.addAll xs m).2 a.triple ∧
    (1 ≤ cnt (a.addAll xs m).2 a.triple - cnt m a.triple →
      2 ^ (cnt (a.addAll xs m).2 a.triple - cnt m a.triple - 1) * a.capacity ≤ a.size + xs.length - 1) := by
  induction xs with
  | nil => intro a m h _ _ _; exact ⟨h, Nat.le_refl _, fun hh => by simp [addAll] at hh⟩
  | cons x xs ih =>
    intro a m h hx hd hl
    simp only [List.length_cons] at hd hl
    obtain ⟨i1, g1, d1, hc⟩ := add_cases a x m h (hx x (List.mem_cons_self ..))
    have gg : (a.add x m).2.1.grow = a.grow := congrArg Prod.fst g1
    have gt : (a.add x m).2.1.triple = a.triple := congrArg Prod.snd g1
    have hsz : (a.add x m).2.1.size ≤ a.size + 1 := by
      rcases hc with ⟨_, _, n3⟩ | ⟨_, _, _, n4⟩ <;> omega
    have ih' := ih (a.add x m).2.1 (a.add x m).2.2 i1
      (by intro y hy; rw [d1]; exact hx y (List.mem_cons_of_mem _ hy))
      (by intro c hc1 hc2; rw [gg]; exact hd c hc1 (by omega)) (by omega)
    rw [gt] at ih'
    obtain ⟨j1, j2, j3⟩ := ih'
    simp only [addAll, List.length_cons]
    generalize (addAll (a.add x m).2.1 xs (a.add x m).2.2) = r at *
    rcases hc with ⟨n1, n2, n3⟩ | ⟨n1, n2, n3, n4⟩
    · rw [n1] at j2 j3
      refine ⟨j1, j2, fun hk => ?_⟩
      have := j3 hk
      rw [n2] at this
      omega
    · rw [n1] at j2 j3
      refine ⟨j1, by omega, fun _ => ?_⟩
      have hcap := h.2.1
      have hdbl : 2 * a.capacity ≤ a.nextCapacity := by
        have := hd a.capacity hcap (by omega)
        rw [nextCapacity_eq_capStep a (by omega)]
        unfold capStep; split <;> omega
      by_cases hk : 1 ≤ cnt r.2 a.triple - (cnt m a.triple + 1)
      · have h3 := j3 hk
        rw [n3, n4] at h3
        have e1 : cnt r.2 a.triple - cnt m a.triple - 1 = (cnt r.2 a.triple - (cnt m a.triple + 1) - 1) + 1 := by omega
        rw [e1, Nat.pow_succ, Nat.mul_assoc]
        have h4 : 2 ^ (cnt r.2 a.triple - (cnt m a.triple + 1) - 1) * (2 * a.capacity) ≤
            2 ^ (cnt r.2 a.triple - (cnt m a.triple + 1) - 1) * a.nextCapacity := Nat.mul_le_mul_left _ hdbl
        omega
      · have e1 : cnt r.2 a.triple - cnt m a.triple - 1 = 0 := by omega
        rw [e1]; simp; omega

theorem addAll_realloc_log_below (a : ArraySized) (xs : List (Buf Nat)) (m : Mem) (h : a.Inv)
    (hx : ∀ x ∈ xs, x.length = a.dataLen) (hd : ∀ c, 1 ≤ c → c < a.size + xs.length → 2 * c ≤ a.grow c)
    (hl : a.size + xs.length ≤ CC_MAX_ELEMENTS / 2) :
    cnt (a.addAll xs m).2 a.triple - cnt m a.triple ≤ Nat.log2 (a.size + xs.length) + 1 := by
  obtain ⟨_, _, d⟩ := addAll_doubling_below xs a m h hx hd hl
  by_cases hk : 1 ≤ cnt (a.addAll xs m).2 a.triple - cnt m a.triple
  · have h3 := d hk
    have hc := h.2.1
    have h4 : 2 ^ (cnt (a.addAll xs m).2 a.triple - cnt m a.triple - 1) ≤ a.size + xs.length := by
      have : 2 ^ (cnt (a.addAll xs m).2 a.triple - cnt m a.triple - 1) * 1 ≤
          2 ^ (cnt (a.addAll xs m).2 a.triple - cnt m a.triple - 1) * a.capacity := Nat.mul_le_mul_left _ hc
      omega
    have hne : a.size + xs.length ≠ 0 := by
      have : 0 < 2 ^ (cnt (a.addAll xs m).2 a.triple - cnt m a.triple - 1) := Nat.pow_pos (by omega)
      omega
    have := (Nat.le_log2 hne).mpr h4
    omega
  · omega

/-! ### zip iterator programs -/
theorem removeAt_dl (a : ArraySized) (i : Nat) (m : Mem) : (a.removeAt i m).2.2.1.dataLen = a.dataLen := by
  unfold removeAt
  split
  · rfl
  · dsimp only; unfold removeShift; split <;> rfl

theorem replaceAt_dl (a : ArraySized) (e : Buf Nat) (i : Nat) (m : Mem) : (a.replaceAt e i m).2.2.1.dataLen = a.dataLen := by
  unfold replaceAt; split <;> rfl

theorem expandCapacity_dl (a : ArraySized) (m : Mem) : (a.expandCapacity m).2.1.dataLen = a.dataLen := by
  unfold expandCapacity
  split
  · rfl
  · dsimp only
    split
    · rfl
    · split <;> rfl

theorem ensureRoom_dl (a : ArraySized) (m : Mem) : (a.ensureRoom m).2.1.dataLen = a.dataLen := by
  unfold ensureRoom; split
  · exact expandCapacity_dl a m
  · rfl

theorem add_dl (a : ArraySized) (e : Buf Nat) (m : Mem) : (a.add e m).2.1.dataLen = a.dataLen := by
  rw [add_eq]; split
  · exact ensureRoom_dl a m
  · exact ensureRoom_dl a m

theorem addAt_dl (a : ArraySized) (e : Buf Nat) (i : Nat) (m : Mem) : (a.addAt e i m).2.1.dataLen = a.dataLen := by
  by_cases hend : i = a.size
  · have : a.addAt e i m = a.add e m := by unfold addAt; rw [if_pos hend]
    rw [this]; exact add_dl a e m
  · by_cases hlt : i < a.size
    · rw [addAt_eq_mid a e i m hlt]; split
      · exact ensureRoom_dl a m
      · exact ensureRoom_dl a m
    · rw [addAt_inert a e i m (by omega)]

theorem zipStep_dl (it : Iter) (a1 a2 : ArraySized) (cmd : Spec.SSeq.ZipCmd Elem) (m : Mem) :
    (zipStep it a1 a2 cmd m).2.2.1.dataLen = a1.dataLen ∧ (zipStep it a1 a2 cmd m).2.2.2.1.dataLen = a2.dataLen := by
  cases cmd with
  | next => exact ⟨rfl, rfl⟩
  | index => exact ⟨rfl, rfl⟩
  | remove =>
    simp only [zipStep]
    unfold zipRemove
    split
    · exact ⟨rfl, rfl⟩
    · split
      · exact ⟨removeAt_dl _ _ _, removeAt_dl _ _ _⟩
      · exact ⟨rfl, rfl⟩
  | replace x y =>
    simp only [zipStep]
    unfold zipReplace
    split
    · exact ⟨rfl, rfl⟩
    · exact ⟨replaceAt_dl _ _ _ _, replaceAt_dl _ _ _ _⟩
  | add x y =>
    simp only [zipStep]
    unfold zipAdd
    dsimp only
    have e1 : ∀ mm, (if a1.size = a1.capacity then expandCapacity a1 mm else (Stat.ok, a1, mm)).2.1.dataLen = a1.dataLen := by
      intro mm; split
      · exact expandCapacity_dl a1 mm
      · rfl
    have e2 : ∀ mm, (if a2.size = a2.capacity then expandCapacity a2 mm else (Stat.ok, a2, mm)).2.1.dataLen = a2.dataLen := by
      intro mm; split
      · exact expandCapacity_dl a2 mm
      · rfl
    generalize hx1 : (if a1.size = a1.capacity then expandCapacity a1 m else (Stat.ok, a1, m)) = x1
    have d1 : x1.2.1.dataLen = a1.dataLen := by rw [← hx1]; exact e1 m
    by_cases c1 : x1.1 ≠ .ok
    · rw [if_pos c1]; exact ⟨d1, rfl⟩
    · rw [if_neg c1]
      generalize hx2 : (if a2.size = a2.capacity then expandCapacity a2 x1.2.2 else (Stat.ok, a2, x1.2.2)) = x2
      have d2 : x2.2.1.dataLen = a2.dataLen := by rw [← hx2]; exact e2 _
      by_cases c2 : x2.1 ≠ .ok
      · rw [if_pos c2]; exact ⟨d1, d2⟩
      · rw [if_neg c2]
        by_cases c3 : (x1.2.1.addAt x it.index x2.2.2).1 ≠ .ok
        · rw [if_pos c3]; exact ⟨by dsimp only; rw [addAt_dl]; exact d1, d2⟩
        · rw [if_neg c3]
          by_cases c4 : (x2.2.1.addAt y it.index (x1.2.1.addAt x it.index x2.2.2).2.2).1 ≠ .ok
          · rw [if_pos c4]; exact ⟨by dsimp only; rw [removeAt_dl, addAt_dl]; exact d1, by dsimp only; rw [addAt_dl]; exact d2⟩
          · rw [if_neg c4]; exact ⟨by dsimp only; rw [addAt_dl]; exact d1, by dsimp only; rw [addAt_dl]; exact d2⟩

/-- documented precondition of a zip call: element arguments have the two arrays' record sizes -/
def ZipCmdWF (d1 d2 : Nat) : Spec.SSeq.ZipCmd Elem → Prop
  | .add x y | .replace x y => x.length = d1 ∧ y.length = d2
  | _ => True

/-- one zip-iterator call refines one step of the lock-step cursor, keeps both invariants and both
live-block counters (the two arrays may be on different allocators) -/
theorem zipStep_refines (it : Iter) (a1 a2 : ArraySized) (c : Spec.SSeq.ZipCursor Elem) (cmd : Spec.SSeq.ZipCmd Elem)
    (m : Mem) (i1 : a1.Inv) (i2 : a2.Inv) (hw : ZipCmdWF a1.dataLen a2.dataLen cmd) (hrel : ZipRel it a1 a2 c) :
    (zipStep it a1 a2 cmd m).1 = (c.step cmd (zipRefusal it a1 a2 cmd m)).1 ∧
    ZipRel (zipStep it a1 a2 cmd m).2.1 (zipStep it a1 a2 cmd m).2.2.1 (zipStep it a1 a2 cmd m).2.2.2.1
      (c.step cmd (zipRefusal it a1 a2 cmd m)).2 ∧
    (zipStep it a1 a2 cmd m).2.2.1.Inv ∧ (zipStep it a1 a2 cmd m).2.2.2.1.Inv ∧ Bal m (zipStep it a1 a2 cmd m).2.2.2.2 := by
  cases cmd with
  | next =>
    obtain ⟨n1, n2, n3, n4⟩ := zipNext_refines it a1 a2 c m i1 i2 hrel
    simp only [zipStep, Spec.SSeq.ZipCursor.step, n1, n2]
    exact ⟨trivial, n3, i1, i2, by rw [n4]; exact Bal.refl m⟩
  | remove =>
    obtain ⟨r1, r2, r3, r4, r5, r6, _⟩ := zipRemove_refines it a1 a2 c m i1 i2 hrel
    simp only [zipStep, Spec.SSeq.ZipCursor.step, r1, r2]
    exact ⟨trivial, r3, r4, r5, by rw [r6]; exact Bal.refl m⟩
  | replace x y =>
    obtain ⟨p1, p2, p3, p4, p5, p6⟩ := zipReplace_refines it a1 a2 c x y m i1 i2 hw.1 hw.2 hrel
    simp only [zipStep, Spec.SSeq.ZipCursor.step, p1, p2]
    exact ⟨trivial, p3, p4, p5, by rw [p6]; exact Bal.refl m⟩
  | index =>
    simp only [zipStep, Spec.SSeq.ZipCursor.step, zipIndex_refines it a1 a2 c hrel]
    exact ⟨trivial, hrel, i1, i2, Bal.refl m⟩
  | add x y =>
    rcases zipAdd_spec it a1 a2 c x y m i1 i2 hw.1 hw.2 hrel with ⟨h1, h2, h3, h4, h5⟩ | ⟨h1, _, _, h4, h5, h6, _, h8⟩
    · simp only [zipStep, zipRefusal, Spec.SSeq.ZipCursor.step, h1]
      exact ⟨trivial, h2, h3, h4, h5⟩
    · simp only [zipStep, zipRefusal, Spec.SSeq.ZipCursor.step, h1]
      exact ⟨trivial, h8, h4, h5, h6⟩

/-- **zip programs**: any program of zip-iterator calls over two arrays yields the statuses, pairs and
indices of the same program on the lock-step cursor (given the same refusals of `add`), ends
representing the cursor's final state, keeps both invariants and both live-block counters -/
theorem zipRun_refines (cmds : List (Spec.SSeq.ZipCmd Elem)) :
    ∀ (it : Iter) (a1 a2 : ArraySized) (c : Spec.SSeq.ZipCursor Elem) (m : Mem), a1.Inv → a2.Inv →
      (∀ cmd ∈ cmds, ZipCmdWF a1.dataLen a2.dataLen cmd) → ZipRel it a1 a2 c →
      (zipRun it a1 a2 cmds m).1 = (c.run cmds (zipRefusals it a1 a2 cmds m)).1 ∧
      ZipRel (zipRun it a1 a2 cmds m).2.1 (zipRun it a1 a2 cmds m).2.2.1 (zipRun it a1 a2 cmds m).2.2.2.1
        (c.run cmds (zipRefusals it a1 a2 cmds m)).2 ∧
      (zipRun it a1 a2 cmds m).2.2.1.Inv ∧ (zipRun it a1 a2 cmds m).2.2.2.1.Inv ∧
      Bal m (zipRun it a1 a2 cmds m).2.2.2.2 := by
  induction cmds with
  | nil => intro it a1 a2 c m i1 i2 _ hrel; exact ⟨rfl, hrel, i1, i2, Bal.refl m⟩
  | cons cmd cmds ih =>
    intro it a1 a2 c m i1 i2 hw hrel
    obtain ⟨s1, s2, s3, s4, s5⟩ := zipStep_refines it a1 a2 c cmd m i1 i2 (hw cmd (List.mem_cons_self ..)) hrel
    obtain ⟨d1, d2⟩ := zipStep_dl it a1 a2 cmd m
    have ih' := ih _ _ _ _ (zipStep it a1 a2 cmd m).2.2.2.2 s3 s4
      (by intro o ho; rw [d1, d2]; exact hw o (List.mem_cons_of_mem _ ho)) s2
    simp only [zipRun, zipRefusals, Spec.SSeq.ZipCursor.run, List.headD_cons, List.tail_cons]
    exact ⟨by rw [s1, ih'.1], ih'.2.1, ih'.2.2.1, ih'.2.2.2.1, Bal.trans s5 ih'.2.2.2.2⟩

/-- when `iter_add` may be refused: only on a full array whose allocator refuses or that stands at
its size limit -/
theorem iterAdd_refused_only (it : Iter) (a : ArraySized) (c : Spec.SSeq.Cursor Elem) (e : Buf Nat) (m : Mem)
    (h : a.Inv) (he : e.length = a.dataLen) (hrel : IterRel it a c) (hst : (a.iterAdd it e m).1 ≠ .ok) :
    a.size = a.capacity ∧ (((a.iterAdd it e m).1 = .errAlloc ∧ (m.allocT a.triple).1 = false) ∨
      ((a.iterAdd it e m).1 = .errMaxCapacity ∧ a.AtLimit)) := by
  have hsz := rel_size hrel
  have hi : it.index ≤ a.size := by rw [hrel.2.1]; omega
  have e1 : (a.iterAdd it e m).1 = (a.addAt e it.index m).1 := by
    unfold iterAdd
    by_cases hq : (a.addAt e it.index m).1 = .ok
    · rw [if_pos hq]
    · rw [if_neg hq]
  rw [e1] at hst ⊢
  rcases addAt_spec a e it.index m h he hi with ⟨h1, _⟩ | ⟨h1, _, _, h4, h5, h6, _⟩
  · exact absurd h1 hst
  · refine ⟨h4, ?_⟩
    rcases h1 with h1 | h1
    · exact Or.inl ⟨h1, h5 h1⟩
    · exact Or.inr ⟨h1, h6 h1⟩

end CC.ArraySized
