import CollectionsC.Model.PList
import CollectionsC.Proofs.Chain
/-! Pointer-level model of `cc_list.c` (`Model/PList.lean`), part 1: doubly linked segments, the
representation predicate `Repr`, well-formedness `WF`, walks, and the mirror theorem
`bwd = fwd.reverse` — a statement about the raw `prev`/`next` links. -/
namespace CC.PList
open CC

/-- a node of a chain together with its content: `(id, data)` -/
abbrev Cell := Nat × Nat
def idsOf (cs : List Cell) : List Nat := cs.map (·.1)
def dataOf (cs : List Cell) : List Nat := cs.map (·.2)
@[simp] theorem idsOf_nil : idsOf [] = [] := rfl
@[simp] theorem idsOf_cons (c : Cell) (r : List Cell) : idsOf (c :: r) = c.1 :: idsOf r := rfl
@[simp] theorem idsOf_append (a b : List Cell) : idsOf (a ++ b) = idsOf a ++ idsOf b := by simp [idsOf]
@[simp] theorem dataOf_nil : dataOf [] = [] := rfl
@[simp] theorem dataOf_cons (c : Cell) (r : List Cell) : dataOf (c :: r) = c.2 :: dataOf r := rfl
@[simp] theorem dataOf_append (a b : List Cell) : dataOf (a ++ b) = dataOf a ++ dataOf b := by simp [dataOf]
@[simp] theorem idsOf_length (a : List Cell) : (idsOf a).length = a.length := by simp [idsOf]
@[simp] theorem dataOf_length (a : List Cell) : (dataOf a).length = a.length := by simp [dataOf]

/-- `next` field of the last node of a segment whose rest is `rest` and whose successor is `n` -/
def nxt : List Cell → Option Nat → Option Nat
  | [], n => n
  | b :: _, _ => some b.1
/-- the last node of `xs`, or `p` when `xs` is empty -/
def lastOr : List Cell → Option Nat → Option Nat
  | [], p => p
  | a :: rest, _ => lastOr rest (some a.1)

@[simp] theorem nxt_nil (n : Option Nat) : nxt [] n = n := rfl
@[simp] theorem nxt_cons (b : Cell) (r : List Cell) (n : Option Nat) : nxt (b :: r) n = some b.1 := rfl
@[simp] theorem lastOr_nil (p : Option Nat) : lastOr [] p = p := rfl
@[simp] theorem lastOr_cons (a : Cell) (r : List Cell) (p : Option Nat) : lastOr (a :: r) p = lastOr r (some a.1) := rfl
theorem lastOr_append (xs ys : List Cell) (p : Option Nat) : lastOr (xs ++ ys) p = lastOr ys (lastOr xs p) := by
  induction xs generalizing p with
  | nil => rfl
  | cons a r ih => simp [ih]
@[simp] theorem lastOr_concat (xs : List Cell) (b : Cell) (p : Option Nat) : lastOr (xs ++ [b]) p = some b.1 := by
  rw [lastOr_append]; rfl
theorem nxt_append (xs ys : List Cell) (n : Option Nat) : nxt (xs ++ ys) n = nxt xs (nxt ys n) := by
  cases xs <;> rfl
theorem nxt_eq_head? (xs : List Cell) : nxt xs none = (idsOf xs).head? := by cases xs <;> rfl
theorem lastOr_eq_getLast? (xs : List Cell) : lastOr xs none = (idsOf xs).getLast? := by
  rcases List.eq_nil_or_concat xs with h | ⟨ys, b, h⟩
  · subst h; rfl
  · subst h; simp

/-- **doubly linked segment**: the nodes `cs` (id and content) are live, linked by `next` in this order and by `prev` in
the opposite order; `p` is the `prev` of the first one, `n` the `next` of the last one -/
def Seg (h : Heap) : Option Nat → List Cell → Option Nat → Prop
  | _, [], _ => True
  | p, a :: rest, n => h a.1 = some ⟨a.2, nxt rest n, p⟩ ∧ Seg h (some a.1) rest n

@[simp] theorem Seg_nil (h : Heap) (p n : Option Nat) : Seg h p [] n = True := rfl
theorem Seg_cons (h : Heap) (p n : Option Nat) (a : Cell) (rest : List Cell) :
    Seg h p (a :: rest) n = (h a.1 = some ⟨a.2, nxt rest n, p⟩ ∧ Seg h (some a.1) rest n) := rfl

theorem Seg_frame {h h' : Heap} : ∀ {cs : List Cell} {p n : Option Nat}, (∀ a, a ∈ idsOf cs → h' a = h a) → Seg h p cs n → Seg h' p cs n
  | [], _, _, _, _ => trivial
  | a :: rest, p, n, hf, hs => by
    rw [Seg_cons] at hs ⊢
    exact ⟨by rw [hf a.1 (by simp)]; exact hs.1, Seg_frame (fun b hb => hf b (by simp [hb])) hs.2⟩

theorem Seg_append {h : Heap} : ∀ {xs ys : List Cell} {p n : Option Nat},
    Seg h p (xs ++ ys) n ↔ (Seg h p xs (nxt ys n) ∧ Seg h (lastOr xs p) ys n)
  | [], ys, p, n => by simp
  | a :: rest, ys, p, n => by
    simp only [List.cons_append, Seg_cons, lastOr_cons, nxt_append]
    rw [Seg_append (xs := rest)]
    constructor
    · rintro ⟨h1, h2, h3⟩; exact ⟨⟨h1, h2⟩, h3⟩
    · rintro ⟨⟨h1, h2⟩, h3⟩; exact ⟨h1, h2, h3⟩

/-- the middle node of a segment -/
theorem Seg_split {h : Heap} {pre post : List Cell} {a : Cell} {p n : Option Nat} (hs : Seg h p (pre ++ a :: post) n) :
    Seg h p pre (some a.1) ∧ h a.1 = some ⟨a.2, nxt post n, lastOr pre p⟩ ∧ Seg h (some a.1) post n := by
  rw [Seg_append, Seg_cons] at hs
  exact ⟨hs.1, hs.2.1, hs.2.2⟩

/-- every node of a segment is live -/
theorem Seg_live {h : Heap} : ∀ {cs : List Cell} {p n : Option Nat}, Seg h p cs n → ∀ a, a ∈ idsOf cs → (h a).isSome
  | [], _, _, _, _, ha => by cases ha
  | b :: rest, p, n, hs, a, ha => by
    rw [Seg_cons] at hs
    rcases List.mem_cons.1 ha with e | e
    · subst e; simp [hs.1]
    · exact Seg_live hs.2 a e

/-! ### writes -/
theorem upd_ne (h : Heap) (id : Nat) (f : PNode → PNode) (a : Nat) (hne : a ≠ id) : (upd h id f) a = h a := by
  show (if a = id then _ else _) = _; rw [if_neg hne]
theorem upd_eq (h : Heap) (id : Nat) (f : PNode → PNode) : (upd h id f) id = (h id).map f := by
  show (if id = id then _ else _) = _; rw [if_pos rfl]

theorem Seg_upd_notin {h : Heap} {cs : List Cell} {p n : Option Nat} (id : Nat) (f : PNode → PNode) (hn : id ∉ idsOf cs)
    (hs : Seg h p cs n) : Seg (upd h id f) p cs n :=
  Seg_frame (fun a ha => upd_ne h id f a (fun e => hn (e ▸ ha))) hs

/-- rewrite the `next` of the last node of a segment -/
theorem Seg_setNext_last {h : Heap} : ∀ {xs : List Cell} {b : Cell} {p n : Option Nat} (n' : Option Nat),
    Seg h p (xs ++ [b]) n → b.1 ∉ idsOf xs → Seg (setNext h b.1 n') p (xs ++ [b]) n'
  | [], b, p, n, n', hs, _ => by
    simp only [List.nil_append, Seg_cons, nxt_nil, Seg_nil, and_true] at hs ⊢
    rw [setNext, upd_eq, hs]; rfl
  | a :: rest, b, p, n, n', hs, hb => by
    simp only [List.cons_append, Seg_cons] at hs ⊢
    have hne : a.1 ≠ b.1 := fun e => hb (by simp [e])
    refine ⟨?_, Seg_setNext_last n' hs.2 (fun hm => hb (by simp [hm]))⟩
    rw [setNext, upd_ne _ _ _ _ hne, hs.1]
    cases rest <;> rfl

/-- rewrite the `prev` of the first node of a segment -/
theorem Seg_setPrev_first {h : Heap} {a : Cell} {xs : List Cell} {p n : Option Nat} (p' : Option Nat)
    (hs : Seg h p (a :: xs) n) (ha : a.1 ∉ idsOf xs) : Seg (setPrev h a.1 p') p' (a :: xs) n := by
  rw [Seg_cons] at hs ⊢
  exact ⟨by rw [setPrev, upd_eq, hs.1]; rfl, Seg_upd_notin a.1 _ ha hs.2⟩

/-! ### reading a segment -/
theorem nd_of {h : Heap} {a : Nat} {x : PNode} (e : h a = some x) : nd h a = x := by simp [nd, e]

theorem dataNext_seg {h : Heap} : ∀ {cs : List Cell} {p : Option Nat}, Seg h p cs none →
    dataNext h cs.length (nxt cs none) = dataOf cs
  | [], _, _ => rfl
  | a :: rest, p, hs => by
    rw [Seg_cons] at hs
    simp only [List.length_cons, nxt_cons, dataNext, dataOf_cons, nd_of hs.1]
    exact congrArg _ (dataNext_seg hs.2)

theorem idsNext_seg {h : Heap} : ∀ {cs : List Cell} {p : Option Nat} (k : Nat), Seg h p cs none → cs.length ≤ k →
    idsNext h k (nxt cs none) = idsOf cs
  | [], _, k, _, _ => by cases k <;> rfl
  | a :: rest, p, k, hs, hk => by
    rw [Seg_cons] at hs
    cases k with
    | zero => simp at hk
    | succ k =>
      simp only [nxt_cons, idsNext, nd_of hs.1, idsOf_cons]
      exact congrArg _ (idsNext_seg k hs.2 (by simpa using hk))

theorem walkNext_seg {h : Heap} : ∀ {cs : List Cell} {p : Option Nat} (k : Nat), Seg h p cs none → k ≤ cs.length →
    walkNext h k (nxt cs none) = (idsOf cs)[k]?
  | cs, p, 0, _, _ => by cases cs <;> rfl
  | [], _, k + 1, _, hk => by simp at hk
  | a :: rest, p, k + 1, hs, hk => by
    rw [Seg_cons] at hs
    simp only [nxt_cons, walkNext, nextOf, Option.bind_some, nd_of hs.1, idsOf_cons, List.getElem?_cons_succ]
    exact walkNext_seg k hs.2 (by simpa using hk)

/-! ### the mirror image of a heap: `next` and `prev` exchanged -/
def flip (h : Heap) : Heap := ⟨fun j => (h j).map fun x => ⟨x.data, x.prev, x.next⟩⟩

theorem nd_flip (h : Heap) (id : Nat) : nd (flip h) id = ⟨(nd h id).data, (nd h id).prev, (nd h id).next⟩ := by
  show ((h id).map _).getD _ = _
  cases e : h id <;> simp [nd, e] <;> rfl

theorem nxt_reverse (xs : List Cell) (p : Option Nat) : nxt xs.reverse p = lastOr xs p := by
  induction xs generalizing p with
  | nil => rfl
  | cons a r ih => rw [List.reverse_cons, nxt_append, lastOr_cons, ← ih]; rfl
theorem lastOr_reverse (xs : List Cell) (n : Option Nat) : lastOr xs.reverse n = nxt xs n := by
  have := nxt_reverse xs.reverse n; rw [List.reverse_reverse] at this; exact this.symm

/-- a segment read backwards is a segment of the mirrored heap -/
theorem Seg_flip {h : Heap} : ∀ {cs : List Cell} {p n : Option Nat}, Seg h p cs n → Seg (flip h) n cs.reverse p
  | [], _, _, _ => trivial
  | a :: rest, p, n, hs => by
    rw [Seg_cons] at hs
    rw [List.reverse_cons, Seg_append]
    refine ⟨?_, ?_⟩
    · simp only [nxt_cons]
      exact Seg_flip hs.2
    · simp only [Seg_cons, nxt_nil, Seg_nil, and_true, lastOr_reverse]
      show ((h a.1).map _) = _; rw [hs.1]; rfl

theorem dataPrev_eq (h : Heap) : ∀ (k : Nat) (p : Option Nat), dataPrev h k p = dataNext (flip h) k p
  | 0, _ => rfl
  | k + 1, none => rfl
  | k + 1, some id => by simp only [dataPrev, dataNext, nd_flip]; exact congrArg _ (dataPrev_eq h k _)
theorem walkPrev_eq (h : Heap) : ∀ (k : Nat) (p : Option Nat), walkPrev h k p = walkNext (flip h) k p
  | 0, _ => rfl
  | k + 1, p => by
    simp only [walkPrev, walkNext]
    have : prevOf h p = nextOf (flip h) p := by cases p <;> simp [prevOf, nextOf, nd_flip]
    rw [this]; exact walkPrev_eq h k _

/-! ### the representation predicate -/

/-- the list header `l` and the heap `h` represent the cell sequence `cs` (node ids with their contents) -/
structure Repr (h : Heap) (l : Hdr) (cs : List Cell) : Prop where
  nodup : (idsOf cs).Nodup
  seg : Seg h none cs none
  size : l.size = cs.length
  head : l.head = nxt cs none
  tail : l.tail = lastOr cs none

/-- **well-formedness**: following `next` from `head` visits `size` distinct live nodes and ends in `tail`, whose `next`
is NULL; `prev` of every node is its predecessor, `prev` of `head` is NULL -/
def WF (h : Heap) (l : Hdr) : Prop := ∃ cs, Repr h l cs

theorem Repr.fwd {h : Heap} {l : Hdr} {cs : List Cell} (r : Repr h l cs) : fwd h l = dataOf cs := by
  unfold PList.fwd; rw [r.size, r.head]; exact dataNext_seg r.seg

theorem Repr.bwd {h : Heap} {l : Hdr} {cs : List Cell} (r : Repr h l cs) : bwd h l = (dataOf cs).reverse := by
  unfold PList.bwd
  rw [r.size, r.tail, dataPrev_eq]
  have := dataNext_seg (Seg_flip r.seg)
  rw [List.length_reverse, nxt_reverse] at this
  rw [this]
  simp [dataOf]

/-- **mirror**: in every well-formed state the backward traversal (along the raw `prev` links from `tail`) is the
exact reverse of the forward traversal (along the raw `next` links from `head`) -/
theorem mirror {h : Heap} {l : Hdr} (w : WF h l) : bwd h l = (fwd h l).reverse := by
  obtain ⟨cs, r⟩ := w
  rw [r.bwd, r.fwd]

/-- `get_node_at` on a represented list: the node at that position, or the documented rejection -/
theorem getNodeAt_repr {h : Heap} {l : Hdr} {cs : List Cell} (r : Repr h l cs) (i : Nat) :
    getNodeAt h l i = if i < cs.length then (.ok, (idsOf cs)[i]?) else (.errOutOfRange, none) := by
  unfold getNodeAt
  rw [r.size]
  by_cases hi : i < cs.length
  · rw [if_neg (by omega), if_pos hi]
    by_cases h2 : i < cs.length / 2
    · rw [if_pos h2, r.head, walkNext_seg i r.seg (by omega)]
    · rw [if_neg h2, r.tail, walkPrev_eq]
      have := walkNext_seg (cs.length - 1 - i) (Seg_flip r.seg) (by simp; omega)
      rw [nxt_reverse] at this
      rw [this]
      simp only [idsOf, ← List.map_reverse]
      rw [List.getElem?_map, List.getElem?_map, List.getElem?_reverse (by omega)]
      have e : cs.length - 1 - (cs.length - 1 - i) = i := by omega
      rw [e]
  · rw [if_pos (by omega), if_neg hi]

end CC.PList
