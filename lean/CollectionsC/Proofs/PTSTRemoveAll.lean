import CollectionsC.Proofs.PTSTRemove
/-! Pointer-level TST: the loop of `cc_tsttable_remove_all` frees the whole trie in post-order. -/
set_option linter.unusedSimpArgs false
set_option linter.unusedVariables false
namespace CC.PTST
open CC CC.TST

/-- ids in the order `remove_all` frees them: left, mid, right subtree, then the node -/
def postI : INode → List Nat
  | .nil => []
  | .node id _ _ l m r => postI l ++ postI m ++ postI r ++ [id]

/-- `size` after the entries of the subtree were released (`size -= 1` each, on `size_t`) -/
def szI : INode → Nat → Nat
  | .nil, s => s
  | .node _ _ d l m r, s =>
    match d with
    | some _ => decSize (szI r (szI m (szI l s)))
    | none => szI r (szI m (szI l s))

theorem szI_erase (t : INode) (s : Nat) : szI t s = t.erase.freeAllSize s := by
  induction t generalizing s with
  | nil => rfl
  | node id c d l m r ihl ihm ihr =>
    simp only [szI, INode.erase_node, Node.freeAllSize, ihl, ihm, ihr]
    cases d <;> rfl

theorem mem_postI (t : INode) (j : Nat) : j ∈ postI t ↔ j ∈ t.ids := by
  induction t with
  | nil => simp [postI]
  | node id c d l m r ihl ihm ihr =>
    simp only [postI, List.mem_append, List.mem_singleton, ihl, ihm, ihr, INode.ids_node, List.mem_cons]; grind

/-- `parent->left/mid/right = NULL` for the field that points to `id` (in the order of `remove_all`) -/
def clearChild2 (n : PNode) (id : Nat) : PNode :=
  if n.left = id then { n with left := 0 }
  else if n.mid = id then { n with mid := 0 }
  else if n.right = id then { n with right := 0 }
  else n

/-- the state after a leaf was detached from its parent and freed by `remove_all` -/
def freeLeaf (st : PT) (node : Nat) : PT :=
  let n := st.heap.get node
  let parent := n.parent
  let h := st.heap
  let h :=
    if parent ≠ 0 then
      if (h.get parent).left = node then setLeft h parent 0
      else if (h.get parent).mid = node then setMid h parent 0
      else if (h.get parent).right = node then setRight h parent 0
      else h
    else h
  { st with heap := h.del node, freed := st.freed ++ [node],
            size := if n.data.isSome then decSize st.size else st.size }

theorem removeAllLoop_leaf (f : Nat) (st : PT) (node : Nat) (hn : node ≠ 0)
    (hc : (st.heap.get node).left = 0 ∧ (st.heap.get node).right = 0 ∧ (st.heap.get node).mid = 0) :
    removeAllLoop (f + 1) st node = removeAllLoop f (freeLeaf st node) (st.heap.get node).parent := by
  simp only [removeAllLoop, hn, if_false, hc, and_self, if_true, freeLeaf]

theorem removeAllLoop_down (f : Nat) (st : PT) (node : Nat) (hn : node ≠ 0)
    (hc : ¬ ((st.heap.get node).left = 0 ∧ (st.heap.get node).right = 0 ∧ (st.heap.get node).mid = 0)) :
    removeAllLoop (f + 1) st node =
      removeAllLoop f st (if (st.heap.get node).left ≠ 0 then (st.heap.get node).left
        else if (st.heap.get node).mid ≠ 0 then (st.heap.get node).mid else (st.heap.get node).right) := by
  simp only [removeAllLoop, hn, if_false, hc]
  split
  · rfl
  · split <;> rfl

theorem freeLeaf_get (st : PT) (node : Nat) (hne : (st.heap.get node).parent ≠ node) (j : Nat) :
    (freeLeaf st node).heap.get j =
      if j = node then {}
      else if j = (st.heap.get node).parent ∧ (st.heap.get node).parent ≠ 0 then
        clearChild2 (st.heap.get (st.heap.get node).parent) node
      else st.heap.get j := by
  simp only [freeLeaf, Heap.get_del, clearChild2]
  by_cases h1 : j = node
  · simp [h1]
  · simp only [h1, if_false]
    by_cases hp : (st.heap.get node).parent = 0
    · simp [hp]
    · simp only [hp, ne_eq, not_false_eq_true, if_true, and_true]
      by_cases h2 : j = (st.heap.get node).parent
      · subst h2
        simp only [if_true]
        split
        · simp [get_setLeft]
        · split
          · simp [get_setMid]
          · split
            · simp [get_setRight]
            · rfl
      · simp only [h2, if_false]
        split
        · simp [get_setLeft, h2]
        · split
          · simp [get_setMid, h2]
          · split
            · simp [get_setRight, h2]
            · rfl

theorem freeLeaf_has (st : PT) (node : Nat)
    (hph : (st.heap.get node).parent ≠ 0 → st.heap.has (st.heap.get node).parent = true) (j : Nat) :
    (freeLeaf st node).heap.has j = true ↔ (st.heap.has j = true ∧ j ≠ node) := by
  simp only [freeLeaf, Heap.has_del]
  have key : ∀ H : Heap, (∀ i, H.has i = true ↔ st.heap.has i = true) →
      ((!(j == node) && H.has j) = true ↔ (st.heap.has j = true ∧ j ≠ node)) := by
    intro H hH
    simp only [Bool.and_eq_true, Bool.not_eq_true', beq_eq_false_iff_ne, hH]
    exact and_comm
  by_cases hp : (st.heap.get node).parent = 0
  · simp only [hp, ne_eq, not_true_eq_false, if_false]; exact key _ (fun _ => Iff.rfl)
  · have hh := hph hp
    simp only [hp, ne_eq, not_false_eq_true, if_true]
    have hset : ∀ (n : PNode), ∀ i, (st.heap.set (st.heap.get node).parent n).has i = true ↔ st.heap.has i = true := by
      intro n i
      rw [Heap.has_set]
      simp only [Bool.or_eq_true, beq_iff_eq]
      constructor
      · rintro (h1 | h1)
        · rw [h1]; exact hh
        · exact h1
      · intro h1; exact Or.inr h1
    split
    · exact key _ (hset _)
    · split
      · exact key _ (hset _)
      · split
        · exact key _ (hset _)
        · exact key _ (fun _ => Iff.rfl)

/-- the whole subtree `s` was freed: the state in which the loop is back at the parent `p` -/
structure FreedAll (st st1 : PT) (s : INode) (p : Nat) : Prop where
  root   : st1.root = st.root
  size   : st1.size = szI s st.size
  fresh  : st1.fresh = st.fresh
  freed  : st1.freed = st.freed ++ postI s
  frame  : ∀ j, j ∉ s.ids → j ≠ p → st1.heap.get j = st.heap.get j
  parent : p ≠ 0 → st1.heap.get p = clearChild2 (st.heap.get p) s.rid
  has    : ∀ j, st1.heap.has j = true ↔ (st.heap.has j = true ∧ j ∉ s.ids)

theorem INode.nodes_pos {t : INode} (h : t ≠ .nil) : 0 < t.ids.length := by
  cases t with
  | nil => exact absurd rfl h
  | node _ _ _ _ _ _ => simp

/-- freeing the first existing child `ch` (everything before it is empty), then the rest `s'` of the node -/
theorem FreedAll.compose {st st1 st2 : PT} {id c : Nat} {dd : Option Entry} {l m r ch l' m' r' : INode} {p : Nat}
    (hid : id ≠ 0) (hpid : p ≠ id) (hpch : p ∉ ch.ids)
    (h1 : FreedAll st st1 ch id) (h2 : FreedAll st1 st2 (.node id c dd l' m' r') p)
    (hsz : ∀ z, szI (.node id c dd l m r) z = szI (.node id c dd l' m' r') (szI ch z))
    (hpost : postI (.node id c dd l m r) = postI ch ++ postI (.node id c dd l' m' r'))
    (hids : ∀ j, j ∈ (INode.node id c dd l m r).ids ↔ (j ∈ ch.ids ∨ j ∈ (INode.node id c dd l' m' r').ids)) :
    FreedAll st st2 (.node id c dd l m r) p := by
  refine ⟨by rw [h2.root, h1.root], by rw [h2.size, h1.size, hsz], by rw [h2.fresh, h1.fresh],
    by rw [h2.freed, h1.freed, hpost, List.append_assoc], ?_, ?_, ?_⟩
  · intro j hj hjp
    have hj' := (not_congr (hids j)).mp hj
    have hjid : j ≠ id := fun e => hj' (Or.inr (by rw [e]; simp))
    rw [h2.frame j (fun e => hj' (Or.inr e)) hjp, h1.frame j (fun e => hj' (Or.inl e)) hjid]
  · intro hp
    rw [h2.parent hp, h1.frame p hpch hpid]
    rfl
  · intro j
    rw [h2.has, h1.has, hids]
    constructor
    · rintro ⟨⟨a, b⟩, c'⟩; exact ⟨a, fun e => e.elim b c'⟩
    · rintro ⟨a, b⟩; exact ⟨⟨a, fun e => b (Or.inl e)⟩, fun e => b (Or.inr e)⟩

/-- **`remove_all`'s loop below a represented subtree**: entered at its root, it frees every node of the
subtree in post-order (each exactly once, `size -= 1` per entry), clears the parent's pointer to it, and
arrives at the parent -/
theorem removeAll_sub (s : INode) (p : Nat) (st : PT) (f : Nat)
    (hrep : Rep st.heap s p) (hnd : s.ids.Nodup) (hp : p ∉ s.ids)
    (hhas : ∀ j ∈ s.ids, st.heap.has j = true) (hph : p ≠ 0 → st.heap.has p = true) (hne : s ≠ .nil) :
    ∃ st1, removeAllLoop (f + (2 * s.ids.length - 1)) st s.rid = removeAllLoop f st1 p ∧ FreedAll st st1 s p := by
  match s, hne with
  | .node id c dd l m r, _ =>
    have hrep0 := hrep
    obtain ⟨h1, h2, h3, h4, h5⟩ := hrep
    have hnd0 := hnd
    simp only [INode.ids_node, List.nodup_cons, List.mem_append, not_or, List.nodup_append] at hnd
    obtain ⟨⟨⟨hil, him⟩, hir⟩, ⟨⟨ndl, ndm, dlm⟩, ndr, dlr⟩⟩ := hnd
    have hp0 := hp
    simp only [INode.ids_node, List.mem_cons, List.mem_append, not_or] at hp
    have hidp : id ≠ p := fun e => hp.1 e.symm
    have hrl : ∀ (x : INode), Rep st.heap x id → (x.rid = 0 ↔ x = .nil) := fun x hx => INode.rid_eq_zero hx
    simp only [INode.rid_node]
    by_cases hl : l = .nil
    · by_cases hm : m = .nil
      · by_cases hr : r = .nil
        · -- a leaf: freed now
          subst hl hm hr
          have hleaf : (st.heap.get id).left = 0 ∧ (st.heap.get id).right = 0 ∧ (st.heap.get id).mid = 0 := by
            rw [h2]; simp
          have hpar : (st.heap.get id).parent = p := by rw [h2]
          simp only [INode.ids_node, INode.ids_nil, List.append_nil, List.length_cons, List.length_nil]
          rw [show f + (2 * (0 + 1) - 1) = f + 1 by omega, removeAllLoop_leaf f st id h1 hleaf, hpar]
          refine ⟨freeLeaf st id, rfl, ?_⟩
          have hget := freeLeaf_get st id (by rw [hpar]; exact Ne.symm hidp)
          rw [hpar] at hget
          refine ⟨rfl, ?_, rfl, by simp [freeLeaf, postI], ?_, ?_, ?_⟩
          · simp only [freeLeaf, h2, szI]; cases dd <;> rfl
          · intro j hj hjp
            have hji : j ≠ id := by simpa using hj
            rw [hget]; simp [hji, hjp]
          · intro hp0'
            rw [hget]; simp [Ne.symm hidp, hp0']
          · intro j
            rw [freeLeaf_has st id (by rw [hpar]; exact hph)]; simp
        · -- only the right child exists
          have hrn : r.rid ≠ 0 := fun e => hr ((hrl r h5).mp e)
          subst hl hm
          have hnl : ¬ ((st.heap.get id).left = 0 ∧ (st.heap.get id).right = 0 ∧ (st.heap.get id).mid = 0) := by
            rw [h2]; simp [hrn]
          have hgo : (if (st.heap.get id).left ≠ 0 then (st.heap.get id).left
              else if (st.heap.get id).mid ≠ 0 then (st.heap.get id).mid else (st.heap.get id).right) = r.rid := by
            rw [h2]; simp
          have hlen : f + (2 * (INode.node id c dd .nil .nil r).ids.length - 1) =
              (f + (2 * (INode.node id c dd .nil .nil .nil).ids.length - 1)) + (2 * r.ids.length - 1) + 1 := by
            have := INode.nodes_pos hr
            simp only [INode.ids_node, INode.ids_nil, List.nil_append, List.append_nil, List.length_cons,
              List.length_nil]; omega
          rw [hlen, removeAllLoop_down _ st id h1 hnl, hgo]
          obtain ⟨st1, e1, f1⟩ := removeAll_sub r id st (f + (2 * (INode.node id c dd .nil .nil .nil).ids.length - 1))
            h5 ndr hir (fun j hj => hhas j (by simp [hj])) (fun _ => hhas id (by simp)) hr
          rw [e1]
          have hrec : st1.heap.get id = { c := c, data := dd, parent := p, left := 0, mid := 0, right := 0 } := by
            rw [f1.parent h1, h2]; simp [clearChild2, Ne.symm hrn]
          obtain ⟨st2, e2, f2⟩ := removeAll_sub (.node id c dd .nil .nil .nil) p st1 f
            ⟨h1, hrec, trivial, trivial, trivial⟩ (by simp) (by simpa using hp.1)
            (fun j hj => by
              have : j = id := by simpa using hj
              rw [this, f1.has]; exact ⟨hhas id (by simp), hir⟩)
            (fun hp0' => by rw [f1.has]; exact ⟨hph hp0', hp.2.2⟩) (by simp)
          simp only [INode.rid_node] at e2
          refine ⟨st2, e2, FreedAll.compose h1 (Ne.symm hidp) hp.2.2 f1 f2 ?_ ?_ ?_⟩
          · intro z; simp [szI]
          · simp [postI]
          · intro j; simp; grind
      · -- the mid child is the first one
        have hmn : m.rid ≠ 0 := fun e => hm ((hrl m h4).mp e)
        subst hl
        have hnl : ¬ ((st.heap.get id).left = 0 ∧ (st.heap.get id).right = 0 ∧ (st.heap.get id).mid = 0) := by
          rw [h2]; simp [hmn]
        have hgo : (if (st.heap.get id).left ≠ 0 then (st.heap.get id).left
            else if (st.heap.get id).mid ≠ 0 then (st.heap.get id).mid else (st.heap.get id).right) = m.rid := by
          rw [h2]; simp [hmn]
        have hlen : f + (2 * (INode.node id c dd .nil m r).ids.length - 1) =
            (f + (2 * (INode.node id c dd .nil .nil r).ids.length - 1)) + (2 * m.ids.length - 1) + 1 := by
          have := INode.nodes_pos hm
          simp only [INode.ids_node, INode.ids_nil, List.nil_append, List.append_nil, List.length_cons,
            List.length_append]; omega
        rw [hlen, removeAllLoop_down _ st id h1 hnl, hgo]
        obtain ⟨st1, e1, f1⟩ := removeAll_sub m id st (f + (2 * (INode.node id c dd .nil .nil r).ids.length - 1))
          h4 ndm him (fun j hj => hhas j (by simp [hj])) (fun _ => hhas id (by simp)) hm
        rw [e1]
        have hrec : st1.heap.get id = { c := c, data := dd, parent := p, left := 0, mid := 0, right := r.rid } := by
          rw [f1.parent h1, h2]; simp [clearChild2, Ne.symm hmn]
        have hfr : ∀ j ∈ r.ids, st1.heap.get j = st.heap.get j := fun j hj =>
          f1.frame j (fun e => dlr j (Or.inr e) j hj rfl) (fun e => hir (e ▸ hj))
        obtain ⟨st2, e2, f2⟩ := removeAll_sub (.node id c dd .nil .nil r) p st1 f
          ⟨h1, hrec, trivial, trivial, h5.frame hfr⟩ (by simpa using ⟨hir, ndr⟩) (by simpa using ⟨hp.1, hp.2.2⟩)
          (fun j hj => by
            rw [f1.has]
            have : j = id ∨ j ∈ r.ids := by simpa using hj
            rcases this with e | e
            · rw [e]; exact ⟨hhas id (by simp), him⟩
            · exact ⟨hhas j (by simp [e]), fun e' => dlr j (Or.inr e') j e rfl⟩)
          (fun hp0' => by rw [f1.has]; exact ⟨hph hp0', hp.2.1.2⟩) (by simp)
        simp only [INode.rid_node] at e2
        refine ⟨st2, e2, FreedAll.compose h1 (Ne.symm hidp) hp.2.1.2 f1 f2 ?_ ?_ ?_⟩
        · intro z; simp [szI]
        · simp [postI]
        · intro j; simp; grind
    · -- the left child is the first one
      have hln : l.rid ≠ 0 := fun e => hl ((hrl l h3).mp e)
      have hnl : ¬ ((st.heap.get id).left = 0 ∧ (st.heap.get id).right = 0 ∧ (st.heap.get id).mid = 0) := by
        rw [h2]; simp [hln]
      have hgo : (if (st.heap.get id).left ≠ 0 then (st.heap.get id).left
          else if (st.heap.get id).mid ≠ 0 then (st.heap.get id).mid else (st.heap.get id).right) = l.rid := by
        rw [h2]; simp [hln]
      have hlen : f + (2 * (INode.node id c dd l m r).ids.length - 1) =
          (f + (2 * (INode.node id c dd .nil m r).ids.length - 1)) + (2 * l.ids.length - 1) + 1 := by
        have := INode.nodes_pos hl
        simp only [INode.ids_node, INode.ids_nil, List.nil_append, List.length_cons, List.length_append]; omega
      rw [hlen, removeAllLoop_down _ st id h1 hnl, hgo]
      obtain ⟨st1, e1, f1⟩ := removeAll_sub l id st (f + (2 * (INode.node id c dd .nil m r).ids.length - 1))
        h3 ndl hil (fun j hj => hhas j (by simp [hj])) (fun _ => hhas id (by simp)) hl
      rw [e1]
      have hrec : st1.heap.get id = { c := c, data := dd, parent := p, left := 0, mid := m.rid, right := r.rid } := by
        rw [f1.parent h1, h2]; simp [clearChild2]
      have hfm : ∀ j ∈ m.ids, st1.heap.get j = st.heap.get j := fun j hj =>
        f1.frame j (fun e => dlm j e j hj rfl) (fun e => him (e ▸ hj))
      have hfr : ∀ j ∈ r.ids, st1.heap.get j = st.heap.get j := fun j hj =>
        f1.frame j (fun e => dlr j (Or.inl e) j hj rfl) (fun e => hir (e ▸ hj))
      obtain ⟨st2, e2, f2⟩ := removeAll_sub (.node id c dd .nil m r) p st1 f
        ⟨h1, hrec, trivial, h4.frame hfm, h5.frame hfr⟩
        (by
          simp only [INode.ids_node, INode.ids_nil, List.nil_append, List.nodup_cons, List.mem_append, not_or,
            List.nodup_append]
          exact ⟨⟨him, hir⟩, ndm, ndr, fun a ha b hb => dlr a (Or.inr ha) b hb⟩)
        (by simpa using ⟨hp.1, hp.2.1.2, hp.2.2⟩)
        (fun j hj => by
          rw [f1.has]
          have : j = id ∨ j ∈ m.ids ∨ j ∈ r.ids := by simpa using hj
          rcases this with e | e | e
          · rw [e]; exact ⟨hhas id (by simp), hil⟩
          · exact ⟨hhas j (by simp [e]), fun e' => dlm j e' j e rfl⟩
          · exact ⟨hhas j (by simp [e]), fun e' => dlr j (Or.inl e') j e rfl⟩)
        (fun hp0' => by rw [f1.has]; exact ⟨hph hp0', hp.2.1.1⟩) (by simp)
      simp only [INode.rid_node] at e2
      refine ⟨st2, e2, FreedAll.compose h1 (Ne.symm hidp) hp.2.1.1 f1 f2 ?_ ?_ ?_⟩
      · intro z; simp [szI]
      · simp [postI]
      · intro j; simp; grind
termination_by s.ids.length
decreasing_by all_goals (simp_all; try omega)

theorem removeAllLoop_null (f : Nat) (st : PT) : removeAllLoop f st 0 = st := by
  cases f <;> simp [removeAllLoop]

theorem postI_perm (t : INode) : (postI t).Perm t.ids := by
  induction t with
  | nil => simp [postI]
  | node id c d l m r ihl ihm ihr =>
    simp only [postI, INode.ids_node]
    exact List.perm_append_comm.trans (List.Perm.cons id ((ihl.append ihm).append ihr))

/-- **`remove_all` on a represented trie**: every node is freed exactly once, in post-order; the heap is
empty afterwards, `size` went down by one per entry (on `size_t`), like the inductive `freeAll` -/
theorem removeAll_represents {st : PT} {t : INode} (h : Represents st t) :
    Represents (removeAll st) .nil ∧ (removeAll st).size = t.erase.freeAllSize st.size ∧
    (removeAll st).freed = postI t ∧ (removeAll st).fresh = st.fresh := by
  unfold removeAll
  by_cases ht : t = .nil
  · subst ht
    have hroot : st.root = 0 := h.root
    simp only [hroot, removeAllLoop_null]
    refine ⟨⟨rfl, trivial, by simp, by simp, ?_, ?_⟩, rfl, rfl, trivial⟩
    · have := h.count; simpa using this
    · intro i; have := h.dom i; simpa using this
  · have hlen := INode.nodes_pos ht
    have hcnt := h.count
    obtain ⟨st1, e1, f1⟩ := removeAll_sub t 0 { st with freed := [] } (2 * st.fresh + 2 - (2 * t.ids.length - 1))
      h.rep h.nodup (fun h0 => h.rep.ids_ne 0 h0 rfl) (fun j hj => (h.dom j).mpr hj) (fun h0 => absurd rfl h0) ht
    have hfuel : 2 * st.fresh + 2 - (2 * t.ids.length - 1) + (2 * t.ids.length - 1) = 2 * st.fresh + 2 := by omega
    rw [hfuel, ← h.root] at e1
    rw [e1, removeAllLoop_null]
    refine ⟨⟨rfl, trivial, by simp, by simp, ?_, ?_⟩, ?_, ?_, f1.fresh⟩
    · simp only [INode.ids_nil, List.length_nil]; rw [f1.fresh]; show 0 < st.fresh; omega
    · intro i
      simp only [INode.ids_nil, List.not_mem_nil, iff_false]
      intro hi
      have := (f1.has i).mp hi
      exact this.2 ((h.dom i).mp this.1)
    · rw [f1.size, szI_erase]
    · rw [f1.freed]; simp

end CC.PTST
