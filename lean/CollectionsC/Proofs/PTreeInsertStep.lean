import CollectionsC.Proofs.PTreeAt
set_option linter.unusedSimpArgs false
set_option linter.unusedVariables false
namespace CC.PTree
open CC
open CC.Tree (Path Dir)

namespace ITree
/-- `Tree.fixInsLeft` on id-annotated trees: the same case analysis, the nodes keep their ids -/
def fixInsLeft : ITree → ITree
  | node g c (node p .red pl pk pv pr) k v y =>
    if pl.col = .red ∨ pr.col = .red then
      match y with
      | node yi .red yl yk yv yr =>
        node g .red (node p .black pl pk pv pr) k v (node yi .black yl yk yv yr)
      | _ =>
        match pl.col, pr with
        | .black, node z .red zl zk zv zr =>
          node z .black (node p .red pl pk pv zl) zk zv (node g .red zr k v y)
        | _, _ => node p .black pl pk pv (node g .red pr k v y)
    else node g c (node p .red pl pk pv pr) k v y
  | t => t

def fixInsRight : ITree → ITree
  | node g c y k v (node p .red pl pk pv pr) =>
    if pl.col = .red ∨ pr.col = .red then
      match y with
      | node yi .red yl yk yv yr =>
        node g .red (node yi .black yl yk yv yr) k v (node p .black pl pk pv pr)
      | _ =>
        match pr.col, pl with
        | .black, node z .red zl zk zv zr =>
          node z .black (node g .red y k v zl) zk zv (node p .red zr pk pv pr)
        | _, _ => node p .black (node g .red y k v pl) pk pv pr
    else node g c y k v (node p .red pl pk pv pr)
  | t => t

theorem erase_fixInsLeft (t : ITree) : (fixInsLeft t).erase = Tree.fixInsLeft t.erase := by
  rcases t with _ | ⟨g, c, _ | ⟨p, _ | _, pl, pk, pv, pr⟩, k, v, y⟩ <;> try rfl
  simp only [fixInsLeft, erase, Tree.fixInsLeft, erase_col]
  split
  · rcases y with _ | ⟨yi, _ | _, yl, yk, yv, yr⟩ <;> simp only [erase]
    · rcases pr with _ | ⟨z, _ | _, zl, zk, zv, zr⟩ <;> cases pl.col <;> simp [erase]
    · rcases pr with _ | ⟨z, _ | _, zl, zk, zv, zr⟩ <;> cases pl.col <;> simp [erase]
  · rfl

theorem erase_fixInsRight (t : ITree) : (fixInsRight t).erase = Tree.fixInsRight t.erase := by
  rcases t with _ | ⟨g, c, y, k, v, _ | ⟨p, _ | _, pl, pk, pv, pr⟩⟩
  · rfl
  · cases y <;> rfl
  · simp only [fixInsRight, erase, Tree.fixInsRight, erase_col]
    split
    · rcases y with _ | ⟨yi, _ | _, yl, yk, yv, yr⟩ <;> simp only [erase]
      · rcases pl with _ | ⟨z, _ | _, zl, zk, zv, zr⟩ <;> cases pr.col <;> simp [erase]
      · rcases pl with _ | ⟨z, _ | _, zl, zk, zv, zr⟩ <;> cases pr.col <;> simp [erase]
    · rfl
  · cases y <;> rfl
end ITree
end CC.PTree

namespace CC.PTree
open CC
open CC.Tree (Path Dir)

/-- **case 1** (red uncle) of `rebalance_after_insert`, parent on the left: three recolourings, `z` moves to
the grandparent; the heap then represents the tree with `Tree.fixInsLeft` applied at the grandparent -/
theorem insert_step_L_case1 {st : PT} {T : ITree} {g : Path} {gi : Nat} {cg : Colour} {p : Nat} {pl : ITree}
    {pk pv : Nat} {pr : ITree} {kg vg yi : Nat} {yl : ITree} {yk yv : Nat} {yr : ITree}
    (h : At st T g (.node gi cg (.node p .red pl pk pv pr) kg vg (.node yi .red yl yk yv yr)))
    (d2 : Dir) {z : Nat} {cz : Colour} {zl : ITree} {zk zv : Nat} {zr : ITree}
    (hz : (ITree.node p .red pl pk pv pr).subtree [d2] = .node z cz zl zk zv zr) :
    ∃ st', (∀ f, rebalInsertLoop (f + 1) st z = rebalInsertLoop f st' gi) ∧
      At st' T g (.node gi .red (.node p .black pl pk pv pr) kg vg (.node yi .black yl yk yv yr)) := by
  have rz := (h.get [.L, d2] (by simpa using hz)).1
  have rp := (h.get [.L] rfl).1
  have rg := (h.get [] rfl).1
  have ry := (h.get [.R] rfl).1
  simp only [List.dropLast, reduceCtorEq, if_false, ITree.subtree_L, ITree.subtree_root, ITree.rid_node,
    List.cons_ne_nil] at rz rp ry
  refine ⟨{ st with heap := setColor (setColor (setColor st.heap p .black) yi .black) gi .red }, ?_, ?_⟩
  · intro f; simp [rebalInsertLoop, rz, rp, rg, ry]
  · have h1 := h.setColor [.L] rfl .black
    have h2 := h1.setColor [.R] rfl .black
    have h3 := h2.setColor [] rfl .red
    simpa [ITree.replace] using h3
theorem At.nodupG {st : PT} {T : ITree} {g : Path} {G : ITree} (h : At st T g G) : G.ids.Nodup := by
  have := ITree.ids_subtree_nodup (T.replace g G) g h.rep.nodup
  rwa [ITree.subtree_replace T g G h.ne] at this

/-- the colour read through a pointer into `G` (the sentinel is black) -/
theorem At.col_read {st : PT} {T : ITree} {g : Path} {G : ITree} (h : At st T g G) (q2 : Path) :
    (st.heap.get (G.subtree q2).rid).color = (G.subtree q2).col := by
  cases hs : G.subtree q2 with
  | nil => simpa [ITree.col] using h.rep.black
  | node x c a k v b => simp [ITree.col, (h.get q2 hs).1]

/-- **case 3** (black uncle, `z` a left child), parent on the left: recolour parent and grandparent, rotate
right at the grandparent; the loop then stops -/
theorem insert_step_L_case3 {st : PT} {T : ITree} {g : Path} {gi : Nat} {cg : Colour} {p z : Nat} {zl : ITree}
    {zk zv : Nat} {zr : ITree} {pk pv : Nat} {pr : ITree} {kg vg : Nat} {Y : ITree}
    (h : At st T g (.node gi cg (.node p .red (.node z .red zl zk zv zr) pk pv pr) kg vg Y))
    (hY : Y.col = .black) :
    ∃ st', (∀ f, rebalInsertLoop (f + 1) st z = rebalInsertLoop f st' z) ∧
      At st' T g (.node p .black (.node z .red zl zk zv zr) pk pv (.node gi .red pr kg vg Y)) := by
  obtain ⟨rz, z0⟩ := h.get [.L, .L] rfl
  obtain ⟨rp, p0⟩ := h.get [.L] rfl
  obtain ⟨rg, g0⟩ := h.get [] rfl
  have ry := h.col_read [.R]
  simp only [List.dropLast, reduceCtorEq, if_false, ITree.subtree_L, ITree.subtree_R, ITree.subtree_root,
    ITree.rid_node, List.cons_ne_nil, hY] at rz rp ry
  have hnd := h.nodupG
  simp only [ITree.ids_node, List.nodup_cons, List.mem_cons, List.mem_append, not_or, List.cons_append] at hnd
  have hgp : gi ≠ p := hnd.1.1
  have hgz : gi ≠ z := hnd.1.2.1
  have hpz : p ≠ z := hnd.2.1.1
  have hzpr : z ≠ pr.rid := by
    cases pr with
    | nil => exact z0
    | node i c l k v r =>
      intro e; simp only [ITree.rid_node] at e
      exact hnd.2.2.1.1.2 (by simp [e])
  have h1 := h.setColor [.L] rfl .black
  have h2 := h1.setColor [] rfl .red
  simp only [ITree.replace, ITree.replace_root] at h1 h2
  have h3 := h2.rotR [] rfl
  simp only [ITree.replace_root] at h3
  refine ⟨_, ?_, h3⟩
  intro f
  simp [rebalInsertLoop, rz, rp, rg, ry, hzpr, setColor, Heap.get_set, hpz, Ne.symm hpz, hgp, Ne.symm hgp, hgz,
    Ne.symm hgz]
/-- **case 2 then 3** (black uncle, `z` a right child), parent on the left: rotate left at the parent, then
recolour and rotate right at the grandparent; the loop then stops -/
theorem insert_step_L_case2 {st : PT} {T : ITree} {g : Path} {gi : Nat} {cg : Colour} {p z : Nat} {zl : ITree}
    {zk zv : Nat} {zr : ITree} {pk pv : Nat} {pl : ITree} {kg vg : Nat} {Y : ITree}
    (h : At st T g (.node gi cg (.node p .red pl pk pv (.node z .red zl zk zv zr)) kg vg Y))
    (hY : Y.col = .black) :
    ∃ st', (∀ f, rebalInsertLoop (f + 1) st z = rebalInsertLoop f st' p) ∧
      At st' T g (.node z .black (.node p .red pl pk pv zl) zk zv (.node gi .red zr kg vg Y)) := by
  obtain ⟨rz, z0⟩ := h.get [.L, .R] rfl
  obtain ⟨rp, p0⟩ := h.get [.L] rfl
  obtain ⟨rg, g0⟩ := h.get [] rfl
  have ry := h.col_read [.R]
  simp only [List.dropLast, reduceCtorEq, if_false, ITree.subtree_L, ITree.subtree_R, ITree.subtree_root,
    ITree.rid_node, List.cons_ne_nil, hY] at rz rp ry
  have hnd := h.nodupG
  simp only [ITree.ids_node, List.nodup_cons, List.mem_cons, List.mem_append, not_or, List.cons_append] at hnd
  have hgp : gi ≠ p := hnd.1.1
  have h1 := h.rotL [.L] rfl
  simp only [ITree.replace, ITree.replace_root] at h1
  obtain ⟨r1p, _⟩ := h1.get [.L, .L] rfl
  obtain ⟨r1z, _⟩ := h1.get [.L] rfl
  simp only [List.dropLast, reduceCtorEq, if_false, ITree.subtree_L, ITree.subtree_R, ITree.subtree_root,
    ITree.rid_node, List.cons_ne_nil] at r1p r1z
  have hnd1 := h1.nodupG
  simp only [ITree.ids_node, List.nodup_cons, List.mem_cons, List.mem_append, not_or, List.cons_append] at hnd1
  have hgz : gi ≠ z := hnd1.1.1
  have hzp : z ≠ p := hnd1.2.1.1
  have h2 := h1.setColor [.L] rfl .black
  have h3 := h2.setColor [] rfl .red
  simp only [ITree.replace, ITree.replace_root] at h2 h3
  have h4 := h3.rotR [] rfl
  simp only [ITree.replace_root] at h4
  refine ⟨_, ?_, h4⟩
  intro f
  simp [rebalInsertLoop, rz, rp, rg, ry, r1p, r1z, setColor, Heap.get_set, hzp, Ne.symm hzp, hgp, Ne.symm hgp, hgz,
    Ne.symm hgz]
/-! ### the mirror images: parent on the right -/

theorem insert_step_R_case1 {st : PT} {T : ITree} {g : Path} {gi : Nat} {cg : Colour} {p : Nat} {pl : ITree}
    {pk pv : Nat} {pr : ITree} {kg vg yi : Nat} {yl : ITree} {yk yv : Nat} {yr : ITree}
    (h : At st T g (.node gi cg (.node yi .red yl yk yv yr) kg vg (.node p .red pl pk pv pr)))
    (d2 : Dir) {z : Nat} {cz : Colour} {zl : ITree} {zk zv : Nat} {zr : ITree}
    (hz : (ITree.node p .red pl pk pv pr).subtree [d2] = .node z cz zl zk zv zr) :
    ∃ st', (∀ f, rebalInsertLoop (f + 1) st z = rebalInsertLoop f st' gi) ∧
      At st' T g (.node gi .red (.node yi .black yl yk yv yr) kg vg (.node p .black pl pk pv pr)) := by
  have rz := (h.get [.R, d2] (by simpa using hz)).1
  have rp := (h.get [.R] rfl).1
  have rg := (h.get [] rfl).1
  have ry := (h.get [.L] rfl).1
  simp only [List.dropLast, reduceCtorEq, if_false, ITree.subtree_R, ITree.subtree_root, ITree.rid_node,
    List.cons_ne_nil] at rz rp ry
  have hnd := h.nodupG
  simp only [ITree.ids_node, List.nodup_cons, List.mem_cons, List.mem_append, not_or, List.cons_append] at hnd
  have hpy : p ≠ yi := by intro e; have := h.nodupG; rw [e] at this; simp [List.nodup_append] at this
  refine ⟨{ st with heap := setColor (setColor (setColor st.heap p .black) yi .black) gi .red }, ?_, ?_⟩
  · intro f; simp [rebalInsertLoop, rz, rp, rg, ry, hpy]
  · have h1 := h.setColor [.R] rfl .black
    have h2 := h1.setColor [.L] rfl .black
    have h3 := h2.setColor [] rfl .red
    simpa [ITree.replace] using h3

theorem insert_step_R_case3 {st : PT} {T : ITree} {g : Path} {gi : Nat} {cg : Colour} {p z : Nat} {zl : ITree}
    {zk zv : Nat} {zr : ITree} {pk pv : Nat} {pl : ITree} {kg vg : Nat} {Y : ITree}
    (h : At st T g (.node gi cg Y kg vg (.node p .red pl pk pv (.node z .red zl zk zv zr))))
    (hY : Y.col = .black) :
    ∃ st', (∀ f, rebalInsertLoop (f + 1) st z = rebalInsertLoop f st' z) ∧
      At st' T g (.node p .black (.node gi .red Y kg vg pl) pk pv (.node z .red zl zk zv zr)) := by
  obtain ⟨rz, z0⟩ := h.get [.R, .R] rfl
  obtain ⟨rp, p0⟩ := h.get [.R] rfl
  obtain ⟨rg, g0⟩ := h.get [] rfl
  have ry := h.col_read [.L]
  simp only [List.dropLast, reduceCtorEq, if_false, ITree.subtree_L, ITree.subtree_R, ITree.subtree_root,
    ITree.rid_node, List.cons_ne_nil, hY] at rz rp ry
  have hnd := h.nodupG
  simp only [ITree.ids_node, List.nodup_cons, List.mem_cons, List.mem_append, not_or, List.cons_append] at hnd
  have hne : gi ≠ p ∧ gi ≠ z ∧ p ≠ z ∧ p ≠ Y.rid ∧ z ≠ pl.rid := by
    refine ⟨fun e => ?_, fun e => ?_, fun e => ?_, ?_, ?_⟩
    · have := h.nodupG; rw [e] at this; simp [List.nodup_append] at this
    · have := h.nodupG; rw [e] at this; simp [List.nodup_append] at this
    · have := h.nodupG; rw [e] at this; simp [List.nodup_append] at this
    · cases Y with
      | nil => exact p0
      | node i c l k v r =>
        intro e; simp only [ITree.rid_node] at e; have := h.nodupG; rw [e] at this; simp [List.nodup_append] at this
    · cases pl with
      | nil => exact z0
      | node i c l k v r =>
        intro e; simp only [ITree.rid_node] at e; have := h.nodupG; rw [e] at this; simp [List.nodup_append] at this
  obtain ⟨hgp, hgz, hpz, hpY, hzpl⟩ := hne
  have h1 := h.setColor [.R] rfl .black
  have h2 := h1.setColor [] rfl .red
  simp only [ITree.replace, ITree.replace_root] at h1 h2
  have h3 := h2.rotL [] rfl
  simp only [ITree.replace_root] at h3
  refine ⟨_, ?_, h3⟩
  intro f
  simp [rebalInsertLoop, rz, rp, rg, ry, hzpl, hpY, setColor, Heap.get_set, hpz, Ne.symm hpz, hgp, Ne.symm hgp, hgz,
    Ne.symm hgz]

theorem insert_step_R_case2 {st : PT} {T : ITree} {g : Path} {gi : Nat} {cg : Colour} {p z : Nat} {zl : ITree}
    {zk zv : Nat} {zr : ITree} {pk pv : Nat} {pr : ITree} {kg vg : Nat} {Y : ITree}
    (h : At st T g (.node gi cg Y kg vg (.node p .red (.node z .red zl zk zv zr) pk pv pr)))
    (hY : Y.col = .black) :
    ∃ st', (∀ f, rebalInsertLoop (f + 1) st z = rebalInsertLoop f st' p) ∧
      At st' T g (.node z .black (.node gi .red Y kg vg zl) zk zv (.node p .red zr pk pv pr)) := by
  obtain ⟨rz, z0⟩ := h.get [.R, .L] rfl
  obtain ⟨rp, p0⟩ := h.get [.R] rfl
  obtain ⟨rg, g0⟩ := h.get [] rfl
  have ry := h.col_read [.L]
  simp only [List.dropLast, reduceCtorEq, if_false, ITree.subtree_L, ITree.subtree_R, ITree.subtree_root,
    ITree.rid_node, List.cons_ne_nil, hY] at rz rp ry
  have hnd := h.nodupG
  simp only [ITree.ids_node, List.nodup_cons, List.mem_cons, List.mem_append, not_or, List.cons_append] at hnd
  have hne : gi ≠ p ∧ gi ≠ z ∧ z ≠ p ∧ p ≠ Y.rid := by
    refine ⟨fun e => ?_, fun e => ?_, fun e => ?_, ?_⟩
    · have := h.nodupG; rw [e] at this; simp [List.nodup_append] at this
    · have := h.nodupG; rw [e] at this; simp [List.nodup_append] at this
    · have := h.nodupG; rw [e] at this; simp [List.nodup_append] at this
    · cases Y with
      | nil => exact p0
      | node i c l k v r =>
        intro e; simp only [ITree.rid_node] at e; have := h.nodupG; rw [e] at this; simp [List.nodup_append] at this
  obtain ⟨hgp, hgz, hzp, hpY⟩ := hne
  have h1 := h.rotR [.R] rfl
  simp only [ITree.replace, ITree.replace_root] at h1
  obtain ⟨r1p, _⟩ := h1.get [.R, .R] rfl
  obtain ⟨r1z, _⟩ := h1.get [.R] rfl
  simp only [List.dropLast, reduceCtorEq, if_false, ITree.subtree_L, ITree.subtree_R, ITree.subtree_root,
    ITree.rid_node, List.cons_ne_nil] at r1p r1z
  have h2 := h1.setColor [.R] rfl .black
  have h3 := h2.setColor [] rfl .red
  simp only [ITree.replace, ITree.replace_root] at h2 h3
  have h4 := h3.rotL [] rfl
  simp only [ITree.replace_root] at h4
  refine ⟨_, ?_, h4⟩
  intro f
  simp [rebalInsertLoop, rz, rp, rg, ry, r1p, r1z, hpY, setColor, Heap.get_set, hzp, Ne.symm hzp, hgp, Ne.symm hgp,
    hgz, Ne.symm hgz]

/-- the loop stops as soon as `z`'s parent is not red -/
theorem insert_loop_stop (st : PT) (z f : Nat) (h : (st.heap.get (st.heap.get z).parent).color ≠ .red) :
    rebalInsertLoop f st z = st := by
  cases f with
  | zero => rfl
  | succ f => simp [rebalInsertLoop, h]
end CC.PTree

namespace CC.PTree
open CC
open CC.Tree (Path Dir)

/-! ### the results of the six cases are the inductive fix-up -/
namespace ITree
@[simp] theorem col_node (id c l k v r) : col (node id c l k v r) = c := rfl
@[simp] theorem col_nil : col nil = .black := rfl
theorem fixInsLeft_case1 (gi cg p pl pk pv pr kg vg yi yl yk yv yr) (hz : pl.col = .red ∨ pr.col = .red) :
    fixInsLeft (node gi cg (node p .red pl pk pv pr) kg vg (node yi .red yl yk yv yr)) =
      node gi .red (node p .black pl pk pv pr) kg vg (node yi .black yl yk yv yr) := by
  simp [fixInsLeft, hz]
theorem fixInsLeft_case3 (gi cg p z zl zk zv zr pk pv pr kg vg Y) (hY : Y.col = .black) :
    fixInsLeft (node gi cg (node p .red (node z .red zl zk zv zr) pk pv pr) kg vg Y) =
      node p .black (node z .red zl zk zv zr) pk pv (node gi .red pr kg vg Y) := by
  rcases Y with _ | ⟨yi, _ | _, yl, yk, yv, yr⟩ <;> simp [fixInsLeft] at hY ⊢
theorem fixInsLeft_case2 (gi cg p z zl zk zv zr pk pv pl kg vg Y) (hY : Y.col = .black) (hs : pl.col = .black) :
    fixInsLeft (node gi cg (node p .red pl pk pv (node z .red zl zk zv zr)) kg vg Y) =
      node z .black (node p .red pl pk pv zl) zk zv (node gi .red zr kg vg Y) := by
  rcases Y with _ | ⟨yi, _ | _, yl, yk, yv, yr⟩ <;> simp [fixInsLeft, hs] at hY ⊢
theorem fixInsRight_case1 (gi cg p pl pk pv pr kg vg yi yl yk yv yr) (hz : pl.col = .red ∨ pr.col = .red) :
    fixInsRight (node gi cg (node yi .red yl yk yv yr) kg vg (node p .red pl pk pv pr)) =
      node gi .red (node yi .black yl yk yv yr) kg vg (node p .black pl pk pv pr) := by
  simp [fixInsRight, hz]
theorem fixInsRight_case3 (gi cg p z zl zk zv zr pk pv pl kg vg Y) (hY : Y.col = .black) :
    fixInsRight (node gi cg Y kg vg (node p .red pl pk pv (node z .red zl zk zv zr))) =
      node p .black (node gi .red Y kg vg pl) pk pv (node z .red zl zk zv zr) := by
  rcases Y with _ | ⟨yi, _ | _, yl, yk, yv, yr⟩ <;> simp [fixInsRight] at hY ⊢
theorem fixInsRight_case2 (gi cg p z zl zk zv zr pk pv pr kg vg Y) (hY : Y.col = .black) (hs : pr.col = .black) :
    fixInsRight (node gi cg Y kg vg (node p .red (node z .red zl zk zv zr) pk pv pr)) =
      node z .black (node gi .red Y kg vg zl) zk zv (node p .red zr pk pv pr) := by
  rcases Y with _ | ⟨yi, _ | _, yl, yk, yv, yr⟩ <;> simp [fixInsRight, hs] at hY ⊢
end ITree

/-- what `At` says about `toTree`: the inductive tree with the subtree at `g` replaced -/
theorem At.toTree {st : PT} {T : ITree} {g : Path} {G : ITree} (h : At st T g G) :
    toTree st = Tree.replaceAt T.erase g G.erase := by
  rw [h.rep.toTree, ITree.erase_replace]
end CC.PTree
