import CollectionsC.Proofs.PHashResize
/-! Pointer-level hash table: the constructor, `remove_all` and `destroy` (the loops that release every
entry of every chain). -/
namespace CC.PHash
open CC CC.HT

/-- `next = entry->next; mem_free(entry); entry = next` along one chain: exactly its entries go away -/
theorem freeChain_spec {ids : List Nat} : ∀ {h : Heap} {p : Option Nat} (_ : IsChain h p ids) (fuel : Nat)
    (_ : ids.length ≤ fuel) (_ : ids.Nodup),
    (freeChain fuel h p).2 = ids.length ∧
    ∀ y, (freeChain fuel h p).1.get y = if y ∈ ids then none else h.get y := by
  induction ids with
  | nil =>
    intro h p hc fuel _ _
    have : p = none := hc
    subst this
    have : freeChain fuel h none = (h, 0) := by cases fuel <;> rfl
    rw [this]
    exact ⟨rfl, fun y => by simp⟩
  | cons id rest ih =>
    intro h p hc fuel hf hnd
    obtain ⟨h1, _, hnext⟩ := hc
    subst h1
    cases fuel with
    | zero => simp at hf
    | succ k =>
      obtain ⟨hidrest, hndrest⟩ := List.nodup_cons.mp hnd
      have hstep : freeChain (k + 1) h (some id) =
          ((freeChain k (erase h id) (nd h id).next).1, (freeChain k (erase h id) (nd h id).next).2 + 1) := rfl
      obtain ⟨r1, r2⟩ := ih (h := erase h id) (p := (nd h id).next)
        (IsChain.congr hnext (fun y hy => by
          have hne : y ≠ id := by rintro rfl; exact hidrest hy
          rw [get_erase, if_neg hne, nd_erase_ne _ _ _ hne]; exact ⟨rfl, rfl⟩))
        k (by simpa using hf) hndrest
      rw [hstep]
      refine ⟨by simp only [r1, List.length_cons], fun y => ?_⟩
      simp only
      rw [r2 y, get_erase]
      by_cases hy : y = id
      · subst hy; simp
      · simp only [List.mem_cons, hy, false_or, if_false]

theorem freeChains_fold (fuel : Nat) {src : List (Option Nat)} : ∀ {S : List (List Nat)} {h : Heap} (n0 : Nat)
    (_ : Chains h src S) (_ : ∀ ids ∈ S, ids.length ≤ fuel) (_ : S.flatten.Nodup),
    (src.foldl (fun acc p => ((freeChain fuel acc.1 p).1, acc.2 + (freeChain fuel acc.1 p).2)) (h, n0)).2 =
        n0 + S.flatten.length ∧
    ∀ y, (src.foldl (fun acc p => ((freeChain fuel acc.1 p).1, acc.2 + (freeChain fuel acc.1 p).2)) (h, n0)).1.get y =
        if y ∈ S.flatten then none else h.get y := by
  induction src with
  | nil =>
    intro S h n0 hS _ _
    cases S with
    | cons _ _ => exact hS.elim
    | nil => exact ⟨rfl, fun y => by simp⟩
  | cons p src ih =>
    intro S h n0 hS hf hnd
    cases S with
    | nil => exact hS.elim
    | cons ids S =>
      rw [List.flatten_cons] at hnd
      obtain ⟨hnd1, hnd2, hnd3⟩ := List.nodup_append.mp hnd
      obtain ⟨c1, c2⟩ := freeChain_spec hS.1 fuel (hf ids (by simp)) hnd1
      have hS2 : Chains (freeChain fuel h p).1 src S := by
        refine Chains.congr hS.2 (fun y hy => ?_)
        have hne : y ∉ ids := fun hm => hnd3 y hm y hy rfl
        have hg : (freeChain fuel h p).1.get y = h.get y := by rw [c2 y, if_neg hne]
        unfold nd
        rw [hg]; exact ⟨rfl, rfl⟩
      obtain ⟨r1, r2⟩ := ih (n0 + (freeChain fuel h p).2) hS2 (fun x hx => hf x (by simp [hx])) hnd2
      rw [List.foldl_cons]
      refine ⟨by rw [r1, c1, List.flatten_cons, List.length_append]; omega, fun y => ?_⟩
      rw [r2 y, c2 y, List.flatten_cons]
      by_cases h1 : y ∈ S.flatten
      · simp [List.mem_append, h1]
      · by_cases h2 : y ∈ ids <;> simp [List.mem_append, h1, h2]

theorem freeChains_spec (fuel : Nat) {src : List (Option Nat)} {S : List (List Nat)} {h : Heap}
    (hS : Chains h src S) (hf : ∀ ids ∈ S, ids.length ≤ fuel) (hnd : S.flatten.Nodup) :
    (freeChains fuel h src).2 = S.flatten.length ∧
    ∀ y, (freeChains fuel h src).1.get y = if y ∈ S.flatten then none else h.get y := by
  have := freeChains_fold fuel 0 hS hf hnd
  rw [Nat.zero_add] at this
  exact this

theorem chains_const (h : Heap) (ps : List (Option Nat)) (idss : List (List Nat)) (hl : idss.length = ps.length) :
    Chains h (ps.map (fun _ => none)) (idss.map (fun _ => [])) := by
  rw [List.map_const', List.map_const', hl]
  exact Chains.replicate h _

theorem flatten_const (idss : List (List Nat)) : (idss.map (fun _ => ([] : List Nat))).flatten = [] := by
  induction idss with
  | nil => rfl
  | cons _ _ ih => simp

/-- `cc_hashtable_remove_all`: every entry is released, the bucket array is kept and cleared -/
theorem removeAll_spec {t : PTable} {idss : List (List Nat)} (hs : Shape t idss)
    (hlen : t.buckets.length = t.capacity) (m : Mem) :
    (PTable.toTable (t.removeAll m).1, (t.removeAll m).2) = (PTable.toTable t).removeAll m ∧
    Shape (t.removeAll m).1 (idss.map (fun _ => [])) ∧
    (∀ y, (t.removeAll m).1.heap.get y = none) ∧
    (t.removeAll m).1.fresh = t.fresh ∧ (t.removeAll m).1.buckets.length = t.buckets.length ∧
    (t.removeAll m).1.capacity = t.capacity ∧
    (t.removeAll m).2 = freeN m t.triple idss.flatten.length := by
  have htake : t.buckets.take t.capacity = t.buckets := List.take_of_length_le (by omega)
  have hdrop : t.buckets.drop t.capacity = [] := List.drop_of_length_le (by omega)
  obtain ⟨f1, f2⟩ := freeChains_spec t.fresh hs.chains hs.fuel_mem hs.nodup
  have hdec : decide (t.capacity ≤ t.buckets.length) = true := decide_eq_true (by omega)
  have hr : t.removeAll m = ({ t with
      heap := (freeChains t.fresh t.heap t.buckets).1,
      buckets := t.buckets.map (fun _ => none),
      size := decWrapN t.size idss.flatten.length }, freeN m t.triple idss.flatten.length) := by
    unfold PTable.removeAll
    simp only [htake, hdrop, hs.chainsOk, hdec, Bool.and_self, Mem.check_true, f1, List.append_nil]
  have hnone : ∀ y, (freeChains t.fresh t.heap t.buckets).1.get y = none := by
    intro y
    rw [f2 y]
    split
    · rfl
    · next hy =>
      cases hg : t.heap.get y with
      | none => rfl
      | some e => exact absurd ((hs.live y).mp (by rw [hg]; rfl)) hy
  have hs' : Shape { t with
      heap := (freeChains t.fresh t.heap t.buckets).1,
      buckets := t.buckets.map (fun _ => none),
      size := decWrapN t.size idss.flatten.length } (idss.map (fun _ => [])) := by
    refine ⟨chains_const _ _ _ hs.len, by rw [flatten_const]; exact List.nodup_nil, fun y => ?_, fun y hy => ?_⟩
    · simp only
      rw [hnone y, flatten_const]; simp
    · rw [flatten_const] at hy; cases hy
  have hwalk : (PTable.toTable t).walk.length = idss.flatten.length := by
    unfold HashTable.walk
    rw [toTable_eq hs]
    simp only
    rw [List.take_of_length_le (by rw [List.length_map, hs.len]; omega), ents_flatten, ents_length]
  have hl : (PTable.toTable t).removeAll m = ({ PTable.toTable t with
      buckets := (idss.map (fun _ => ([] : List Entry))),
      size := decWrapN t.size idss.flatten.length }, freeN m t.triple idss.flatten.length) := by
    unfold HashTable.removeAll
    simp only [hwalk]
    have h1 : decide ((PTable.toTable t).capacity ≤ (PTable.toTable t).buckets.length) = true := by
      rw [toTable_len]; exact decide_eq_true (by show t.capacity ≤ _; omega)
    rw [h1, Mem.check_true]
    have h2 : (PTable.toTable t).buckets.take (PTable.toTable t).capacity = (PTable.toTable t).buckets :=
      List.take_of_length_le (by rw [toTable_len]; show _ ≤ t.capacity; omega)
    have h3 : (PTable.toTable t).buckets.drop (PTable.toTable t).capacity = [] :=
      List.drop_of_length_le (by rw [toTable_len]; show _ ≤ t.capacity; omega)
    rw [h2, h3, List.append_nil]
    have h4 : (PTable.toTable t).buckets.map (fun _ => ([] : List Entry)) = idss.map (fun _ => ([] : List Entry)) := by
      rw [List.map_const', List.map_const', toTable_len, hs.len]
    rw [h4]
    rfl
  rw [hr, hl]
  refine ⟨?_, hs', hnone, rfl, by simp, rfl, rfl⟩
  rw [toTable_eq hs']
  simp only [List.map_map]
  rfl

/-- `cc_hashtable_destroy` -/
theorem destroy_comm {t : PTable} {idss : List (List Nat)} (hs : Shape t idss)
    (hlen : t.buckets.length = t.capacity) (m : Mem) : t.destroy m = (PTable.toTable t).destroy m := by
  have htake : t.buckets.take t.capacity = t.buckets := List.take_of_length_le (by omega)
  obtain ⟨f1, _⟩ := freeChains_spec t.fresh hs.chains hs.fuel_mem hs.nodup
  have hdec : decide (t.capacity ≤ t.buckets.length) = true := decide_eq_true (by omega)
  have hwalk : (PTable.toTable t).walk.length = idss.flatten.length := by
    unfold HashTable.walk
    rw [toTable_eq hs]
    simp only
    rw [List.take_of_length_le (by rw [List.length_map, hs.len]; omega), ents_flatten, ents_length]
  have h1 : decide ((PTable.toTable t).capacity ≤ (PTable.toTable t).buckets.length) = true := by
    rw [toTable_len]; exact decide_eq_true (by show t.capacity ≤ _; omega)
  unfold PTable.destroy HashTable.destroy
  simp only [htake, hs.chainsOk, hdec, Bool.and_self, Mem.check_true, f1, hwalk, h1]
  rfl

/-- `cc_hashtable_new_conf`: an empty heap under an array of NULL heads -/
theorem new_spec (c : HCfg) (initCap : Nat) (tr : Triple) (m : Mem) :
    ((PTable.new c initCap tr m).1, (PTable.new c initCap tr m).2.1.map PTable.toTable, (PTable.new c initCap tr m).2.2) =
        HashTable.new c initCap tr m ∧
    ∀ t, (PTable.new c initCap tr m).2.1 = some t →
      Shape t (List.replicate t.capacity []) ∧ Geo t ∧ t.fresh = 0 ∧ ∀ y, t.heap.get y = none := by
  cases h1 : (m.allocT tr).1 with
  | false =>
    have hr : PTable.new c initCap tr m = (.errAlloc, none, (m.allocT tr).2) := by
      unfold PTable.new; simp [h1]
    have hl : HashTable.new c initCap tr m = (.errAlloc, none, (m.allocT tr).2) := by
      unfold HashTable.new; simp [h1]
    rw [hr, hl]
    exact ⟨rfl, fun t ht => by cases ht⟩
  | true =>
    cases h2 : ((m.allocT tr).2.allocT tr).1 with
    | false =>
      have hr : PTable.new c initCap tr m = (.errAlloc, none, ((m.allocT tr).2.allocT tr).2.freeT tr) := by
        unfold PTable.new; simp [h1, h2]
      have hl : HashTable.new c initCap tr m = (.errAlloc, none, ((m.allocT tr).2.allocT tr).2.freeT tr) := by
        unfold HashTable.new; simp [h1, h2]
      rw [hr, hl]
      exact ⟨rfl, fun t ht => by cases ht⟩
    | true =>
      have hr : PTable.new c initCap tr m = (.ok, some {
          capacity := roundPowTwo initCap, size := 0, threshold := c.thr (roundPowTwo initCap),
          buckets := List.replicate (roundPowTwo initCap) none, triple := tr }, ((m.allocT tr).2.allocT tr).2) := by
        unfold PTable.new; simp [h1, h2]
      have hl : HashTable.new c initCap tr m = (.ok, some {
          capacity := roundPowTwo initCap, size := 0, threshold := c.thr (roundPowTwo initCap),
          buckets := List.replicate (roundPowTwo initCap) [], triple := tr }, ((m.allocT tr).2.allocT tr).2) := by
        unfold HashTable.new; simp [h1, h2]
      have hs : Shape {
          capacity := roundPowTwo initCap, size := 0, threshold := c.thr (roundPowTwo initCap),
          buckets := List.replicate (roundPowTwo initCap) none, triple := tr } (List.replicate (roundPowTwo initCap) []) :=
        ⟨Chains.replicate _ _, by simp, fun y => by simp, fun y hy => by simp at hy⟩
      rw [hr, hl]
      refine ⟨?_, ?_⟩
      · simp only [Option.map_some]
        rw [toTable_eq hs]
        simp
      · intro t ht
        simp only [Option.some.injEq] at ht
        subst ht
        obtain ⟨k, _, hk⟩ := roundPowTwo_pow2 initCap
        exact ⟨hs, ⟨⟨k, hk⟩, by simp⟩, rfl, fun _ => rfl⟩

end CC.PHash
