import CollectionsC.Proofs.DequeCross
/-! The zip iterator with the *same* deque on both sides (`iter->d1 == iter->d2`): the model threads the one
state through both halves as the C statements do (`zipRemoveSelf`, `zipAddSelf`, `zipReplaceSelf`;
`zipNext it d d` needs nothing new).  Remove and replace refine the self-zip cursor of
`Spec/DequeSpec.lean`; every call keeps the invariant and the ledger.  `zipAddSelf` is partial on finding D3
(both `add_at` calls); since repair D13 it is all-or-nothing also when the *second* `add_at` has to grow and
is refused (`corpus/deque/regress_D13_zip_alias_add_refused.ops`). -/
namespace CC.Deque
open CC CC.Spec

local macro "tr" : term => `(by first | rfl | trivial)

/-- aliased `zip_iter_replace`: the element yielded last ends up as the second value; out-values are the
old element and the first value -/
theorem zipReplaceSelf_spec (it : Iter) (d : Deque) (x y : Nat) (m : Mem) (hi : d.Inv) :
    (zipReplaceSelf it d x y m).1 = (DequeSpec.zipReplaceSelf d.abs it.cur x y).1 ∧
    (zipReplaceSelf it d x y m).2.1 = (DequeSpec.zipReplaceSelf d.abs it.cur x y).2.1 ∧
    (zipReplaceSelf it d x y m).2.2.1 = (DequeSpec.zipReplaceSelf d.abs it.cur x y).2.2.1 ∧
    (zipReplaceSelf it d x y m).2.2.2.1.abs = (DequeSpec.zipReplaceSelf d.abs it.cur x y).2.2.2 ∧
    (zipReplaceSelf it d x y m).2.2.2.1.Inv ∧ (zipReplaceSelf it d x y m).2.2.2.2 = m := by
  have hb := size_lt_two_pow_64 d hi
  unfold zipReplaceSelf DequeSpec.zipReplaceSelf Iter.cur
  by_cases h0 : it.index = 0
  · have hoor : decIdx it.index ≥ d.size := by unfold decIdx; rw [if_pos h0]; omega
    rw [if_pos (Or.inl hoor)]
    simp only [h0, if_true]
    exact ⟨tr, tr, tr, tr, hi, tr⟩
  · have hdec : decIdx it.index = it.index - 1 := by unfold decIdx; rw [if_neg h0]
    rw [hdec]
    simp only [h0, if_false]
    by_cases hr : it.index - 1 ≥ d.size ∨ it.index - 1 ≥ d.size
    · rw [if_pos hr, List.getElem?_eq_none (by simp; omega)]
      exact ⟨tr, tr, tr, tr, hi, tr⟩
    · rw [if_neg hr]
      have hl : it.index - 1 < d.abs.length := by simp; omega
      obtain ⟨r1, r2, r3, r4, r5, _⟩ := replaceAt_spec d x (it.index - 1) m hi
      obtain ⟨s1, s2, s3, s4, s5, _⟩ := replaceAt_spec (d.replaceAt x (it.index - 1) m).2.2.1 y (it.index - 1)
        (d.replaceAt x (it.index - 1) m).2.2.2 r4
      unfold DequeSpec.replaceAt at r1 r2 r3 s1 s2 s3
      rw [dif_pos hl] at r1 r2 r3
      simp only at r2 r3
      have hl2 : it.index - 1 < (d.replaceAt x (it.index - 1) m).2.2.1.abs.length := by rw [r3]; simpa using hl
      rw [dif_pos hl2] at s1 s2 s3
      simp only at s2 s3
      rw [List.getElem?_eq_getElem hl]
      simp only
      refine ⟨tr, r2, ?_, ?_, s4, by rw [s5, r5]⟩
      · rw [s2]; simp [r3]
      · rw [s3, r3]; simp

/-- aliased `zip_iter_remove`: removes the element yielded last and then the element that has moved into its
place (if any; otherwise the second out-value is not written) -/
theorem zipRemoveSelf_spec (it : Iter) (d : Deque) (m : Mem) (hi : d.Inv) :
    (zipRemoveSelf it d m).1 = (DequeSpec.zipRemoveSelf d.abs it.cur).1 ∧
    (zipRemoveSelf it d m).2.1 = (DequeSpec.zipRemoveSelf d.abs it.cur).2.1 ∧
    (zipRemoveSelf it d m).2.2.1 = (DequeSpec.zipRemoveSelf d.abs it.cur).2.2.1 ∧
    (zipRemoveSelf it d m).2.2.2.2.1.abs = (DequeSpec.zipRemoveSelf d.abs it.cur).2.2.2.1 ∧
    (zipRemoveSelf it d m).2.2.2.1.cur = (DequeSpec.zipRemoveSelf d.abs it.cur).2.2.2.2 ∧
    (zipRemoveSelf it d m).2.2.2.2.1.Inv ∧ (zipRemoveSelf it d m).2.2.2.2.2 = m := by
  have hb := size_lt_two_pow_64 d hi
  unfold zipRemoveSelf DequeSpec.zipRemoveSelf Iter.cur
  by_cases hrm : it.lastRemoved = true
  · simp only [hrm, if_true]
    exact ⟨tr, tr, tr, tr, tr, hi, tr⟩
  have hrm' : it.lastRemoved = false := by simpa using hrm
  simp only [hrm, Bool.false_eq_true, if_false]
  by_cases h0 : it.index = 0
  · have hoor : decIdx it.index ≥ d.size := by unfold decIdx; rw [if_pos h0]; omega
    rw [if_pos (Or.inl hoor)]
    simp only [h0, if_true]
    exact ⟨tr, tr, tr, tr, by simp [hrm'], hi, tr⟩
  · have hdec : decIdx it.index = it.index - 1 := by unfold decIdx; rw [if_neg h0]
    rw [hdec]
    simp only [h0, if_false]
    by_cases hr : it.index - 1 ≥ d.size ∨ it.index - 1 ≥ d.size
    · rw [if_pos hr, List.getElem?_eq_none (by simp; omega)]
      exact ⟨tr, tr, tr, tr, by first | rfl | simp [hrm'], hi, tr⟩
    · rw [if_neg hr]
      have hl : it.index - 1 < d.abs.length := by simp; omega
      obtain ⟨r1, r2, r3, r4, r5, _⟩ := removeAt_spec d (it.index - 1) m hi
      obtain ⟨s1, s2, s3, s4, s5, _⟩ := removeAt_spec (d.removeAt (it.index - 1) m).2.2.1 (it.index - 1)
        (d.removeAt (it.index - 1) m).2.2.2 r4
      unfold DequeSpec.removeAt at r1 r2 r3
      rw [dif_pos hl] at r1 r2 r3
      simp only at r2 r3
      rw [List.getElem?_eq_getElem hl]
      simp only
      rw [r3] at s2 s3
      unfold DequeSpec.removeAt at s2 s3
      by_cases h2 : it.index - 1 < (d.abs.eraseIdx (it.index - 1)).length
      · rw [dif_pos h2] at s2 s3
        exact ⟨tr, r2, by rw [s2, List.getElem?_eq_getElem h2], s3, tr, s4, by rw [s5, r5]⟩
      · rw [dif_neg h2] at s2 s3
        have hle : (d.abs.eraseIdx (it.index - 1)).length ≤ it.index - 1 := Nat.le_of_not_lt h2
        exact ⟨tr, r2, by rw [s2, List.getElem?_eq_none hle], by rw [s3, List.eraseIdx_of_length_le hle], tr, s4,
          by rw [s5, r5]⟩

theorem growIfFull_of_room (e : Deque) (n : Mem) (h : e.size < e.cap) : growIfFull e n = (.ok, e, n) := by
  unfold growIfFull; rw [if_neg (by omega)]

/-- **aliased `zip_iter_add` after repair D13 — both or none (partial on finding D3: both `add_at` calls must
be outside the front-half range).**  Either the call returns `CC_OK`, the sequence reads `…, y, x, …` at the
cursor position and the cursor has stepped on; or it fails (the pre-test growth or the growth needed by the
*second* insertion was refused, or the position is out of range), and then the **content and the cursor are
exactly as before** — the first element has been taken out again; only the capacity may have grown.
Invariant and ledger are intact either way. -/
theorem zipAddSelf_refines_partial (it : Iter) (d : Deque) (x y : Nat) (m : Mem) (hi : d.Inv)
    (hD3a : ¬ (1 ≤ it.index ∧ it.index + 1 ≤ d.size / 2))
    (hD3b : ¬ (1 ≤ it.index ∧ it.index + 1 ≤ (d.size + 1) / 2)) :
    (zipAddSelf it d x y m).2.2.1.Inv ∧ memSame d.triple (zipAddSelf it d x y m).2.2.2 m ∧
    (((zipAddSelf it d x y m).1 = .ok ∧ it.index < d.size ∧
        (zipAddSelf it d x y m).2.2.1.abs = (d.abs.insertIdx it.index x).insertIdx it.index y ∧
        (zipAddSelf it d x y m).2.1 = { it with index := it.index + 1 }) ∨
     ((zipAddSelf it d x y m).1 ≠ .ok ∧ (zipAddSelf it d x y m).2.2.1.abs = d.abs ∧
        (zipAddSelf it d x y m).2.1 = it ∧
        ((zipAddSelf it d x y m).1 = .errOutOfRange ↔ d.size ≤ it.index))) := by
  unfold zipAddSelf
  by_cases hr : it.index ≥ d.size ∨ it.index ≥ d.size
  · rw [if_pos hr]
    exact ⟨hi, memSame_refl _ m, Or.inr ⟨by simp, rfl, rfl, ⟨fun _ => (by omega), fun _ => rfl⟩⟩⟩
  have hidx : it.index < d.size := by omega
  rw [if_neg hr]
  dsimp only
  have fold : ∀ (e : Deque) n, (if e.cap = e.size then e.expandCapacity n else (Stat.ok, e, n)) = growIfFull e n :=
    fun _ _ => rfl
  simp only [fold]
  rcases growIfFull_spec d m hi with ⟨a1, a2, a3, a4, a5, a6⟩ | ⟨a1, a2, a3, a4⟩
  · have hne1 : ((growIfFull d m).1 != Stat.ok) = false := by simp [a1]
    simp only [hne1, Bool.false_eq_true, if_false]
    have t1 := growIfFull_triple d m
    rw [growIfFull_of_room (growIfFull d m).2.1 (growIfFull d m).2.2 a5]
    simp only [bne_self_eq_false, Bool.false_eq_true, if_false]
    -- first insertion: there is room, it succeeds and refines insertIdx
    rcases addAt_refines_partial (growIfFull d m).2.1 x it.index (growIfFull d m).2.2 a2 (by rw [a4]; exact hD3a) with
      ⟨p1, p2, p3, p4, _⟩ | ⟨_, _, _, _, p5, _⟩
    · unfold DequeSpec.addAt at p1 p2
      rw [a3, if_pos (by simpa using hidx)] at p1 p2
      simp only at p1 p2
      have hb1 : (((growIfFull d m).2.1.addAt x it.index (growIfFull d m).2.2).1 != Stat.ok) = false := by simp [p1]
      simp only [hb1, Bool.false_eq_true, if_false]
      have t2 := addAt_triple (growIfFull d m).2.1 x it.index (growIfFull d m).2.2
      have hsz1 : ((growIfFull d m).2.1.addAt x it.index (growIfFull d m).2.2).2.1.size = d.size + 1 := by
        have := congrArg List.length p2
        simpa [List.length_insertIdx, Nat.le_of_lt hidx] using this
      rw [t1] at p4
      have hlen1 : (d.abs.insertIdx it.index x).length = d.size + 1 := by
        rw [List.length_insertIdx, if_pos (by simp; omega)]; simp
      -- second insertion: may have to grow
      rcases addAt_refines_partial _ y it.index ((growIfFull d m).2.1.addAt x it.index (growIfFull d m).2.2).2.2 p3
        (by rw [hsz1]; exact hD3b) with ⟨q1, q2, q3, q4, _⟩ | ⟨q1, q2, q3, _⟩
      · unfold DequeSpec.addAt at q1 q2
        rw [p2, if_pos (by rw [hlen1]; omega)] at q1 q2
        simp only at q1 q2
        have hb2 : ((((growIfFull d m).2.1.addAt x it.index (growIfFull d m).2.2).2.1.addAt y it.index
          ((growIfFull d m).2.1.addAt x it.index (growIfFull d m).2.2).2.2).1 != Stat.ok) = false := by simp [q1]
        simp only [hb2, Bool.false_eq_true, if_false]
        rw [t2, t1] at q4
        exact ⟨q3, memSame_trans q4 (memSame_trans p4 a6), Or.inl ⟨tr, hidx, q2, tr⟩⟩
      · have hb2 : ((((growIfFull d m).2.1.addAt x it.index (growIfFull d m).2.2).2.1.addAt y it.index
          ((growIfFull d m).2.1.addAt x it.index (growIfFull d m).2.2).2.2).1 != Stat.ok) = true := by simp [q1]
        simp only [hb2, if_true]
        rw [q2]
        rw [t2, t1] at q3
        obtain ⟨r1, _, r3, r4, r5, _⟩ := removeAt_spec ((growIfFull d m).2.1.addAt x it.index (growIfFull d m).2.2).2.1
          it.index (((growIfFull d m).2.1.addAt x it.index (growIfFull d m).2.2).2.1.addAt y it.index
            ((growIfFull d m).2.1.addAt x it.index (growIfFull d m).2.2).2.2).2.2 p3
        unfold DequeSpec.removeAt at r3
        rw [p2, dif_pos (by rw [hlen1]; omega)] at r3
        simp only at r3
        rw [List.eraseIdx_insertIdx_self] at r3
        refine ⟨r4, by rw [r5]; exact memSame_trans q3 (memSame_trans p4 a6), Or.inr ⟨by rw [q1]; decide, r3, tr, ?_⟩⟩
        rw [q1]
        exact ⟨fun h => (by cases h), fun h => (by omega)⟩
    · omega
  · have hne1 : ((growIfFull d m).1 != Stat.ok) = true := by simp [a1]
    simp only [hne1, if_true]
    exact ⟨by rw [a2]; exact hi, a3, Or.inr ⟨by decide, by rw [a2], tr, ⟨fun h => (by cases h), fun h => (by omega)⟩⟩⟩

/-- memory safety of the aliased insertion for *every* cursor position (finding D3's range included):
invariant and ledger are kept, and a failed call leaves the cursor where it was -/
theorem zipAddSelf_safe (it : Iter) (d : Deque) (x y : Nat) (m : Mem) (hi : d.Inv) :
    (zipAddSelf it d x y m).2.2.1.Inv ∧ memSame d.triple (zipAddSelf it d x y m).2.2.2 m ∧
    ((zipAddSelf it d x y m).1 ≠ .ok → (zipAddSelf it d x y m).2.1 = it) := by
  unfold zipAddSelf
  by_cases hr : it.index ≥ d.size ∨ it.index ≥ d.size
  · rw [if_pos hr]; exact ⟨hi, memSame_refl _ m, fun _ => rfl⟩
  rw [if_neg hr]
  dsimp only
  have fold : ∀ (e : Deque) n, (if e.cap = e.size then e.expandCapacity n else (Stat.ok, e, n)) = growIfFull e n :=
    fun _ _ => rfl
  simp only [fold]
  rcases growIfFull_spec d m hi with ⟨a1, a2, a3, a4, a5, a6⟩ | ⟨a1, a2, a3, a4⟩
  · have hne1 : ((growIfFull d m).1 != Stat.ok) = false := by simp [a1]
    simp only [hne1, Bool.false_eq_true, if_false]
    have t1 := growIfFull_triple d m
    rw [growIfFull_of_room (growIfFull d m).2.1 (growIfFull d m).2.2 a5]
    simp only [bne_self_eq_false, Bool.false_eq_true, if_false]
    obtain ⟨p1, p2, _, _⟩ := addAt_inv (growIfFull d m).2.1 x it.index (growIfFull d m).2.2 a2
    have t2 := addAt_triple (growIfFull d m).2.1 x it.index (growIfFull d m).2.2
    obtain ⟨q1, q2, _, _⟩ := addAt_inv _ y it.index ((growIfFull d m).2.1.addAt x it.index (growIfFull d m).2.2).2.2 p1
    have t3 := addAt_triple ((growIfFull d m).2.1.addAt x it.index (growIfFull d m).2.2).2.1 y it.index
      ((growIfFull d m).2.1.addAt x it.index (growIfFull d m).2.2).2.2
    obtain ⟨_, _, _, r4, r5, _⟩ := removeAt_spec _ it.index
      (((growIfFull d m).2.1.addAt x it.index (growIfFull d m).2.2).2.1.addAt y it.index
        ((growIfFull d m).2.1.addAt x it.index (growIfFull d m).2.2).2.2).2.2 q1
    rw [t1] at p2
    rw [t2, t1] at q2
    split
    · exact ⟨p1, memSame_trans p2 a6, fun _ => rfl⟩
    · split
      · exact ⟨r4, by rw [r5]; exact memSame_trans q2 (memSame_trans p2 a6), fun _ => rfl⟩
      · exact ⟨q1, memSame_trans q2 (memSame_trans p2 a6), fun h => absurd rfl h⟩
  · have hne1 : ((growIfFull d m).1 != Stat.ok) = true := by simp [a1]
    simp only [hne1, if_true]
    exact ⟨by rw [a2]; exact hi, a3, fun _ => tr⟩

/-- regression witness for D13: one free slot, the growth needed by the second insertion is refused — the
call now reports `CC_ERR_ALLOC` and the content is what it was -/
theorem zipAddSelf_refusal_is_atomic :
    (zipAddSelf { index := 2 } (Deque.mk 3 4 0 3 [11, 12, 13, 0] .conf) 7 8 { sched := [true], live := 2 }).1 = .errAlloc ∧
    (zipAddSelf { index := 2 } (Deque.mk 3 4 0 3 [11, 12, 13, 0] .conf) 7 8 { sched := [true], live := 2 }).2.2.1.abs
      = [11, 12, 13] ∧
    (zipAddSelf { index := 2 } (Deque.mk 3 4 0 3 [11, 12, 13, 0] .conf) 7 8 { live := 2 }).2.2.1.abs
      = [11, 12, 8, 7, 13] := by decide

end CC.Deque
