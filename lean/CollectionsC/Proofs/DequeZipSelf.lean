import CollectionsC.Proofs.DequeCross
/-! The zip iterator with the *same* deque on both sides (`iter->d1 == iter->d2`): the model threads the one
state through both halves as the C statements do (`zipRemoveSelf`, `zipAddSelf`, `zipReplaceSelf`;
`zipNext it d d` needs nothing new).  Remove and replace refine the self-zip cursor of
`Spec/DequeSpec.lean`; every call keeps the invariant and the ledger.  `zipAddSelf` is partial on finding D3
(both `add_at` calls) **and exhibits a finding of its own**: when the second `add_at` has to grow and is
refused, the call still reports `CC_OK` with only one element inserted
(`corpus/deque/defect_zip_alias_add_swallows_refusal.ops`). -/
namespace CC.Deque
open CC CC.Spec

local macro "tr" : term => `(by first | rfl | trivial)

/-- aliased `zip_iter_replace`: the element yielded last ends up as the second value; out-values are the
old element and the first value -/
theorem zipReplaceSelf_spec (it : Iter) (d : Deque) (x y : Nat) (m : Mem) (hi : d.Inv) :
    (zipReplaceSelf it d x y m).1 = (DequeSpec.zipReplaceSelf d.abs it.cur x y).1 ∧
    (zipReplaceSelf it d x y m).2.1 = (DequeSpec.zipReplaceSelf d.abs it.cur x y).2.1 ∧
    (zipReplaceSelf it d x y m).2.2.1 = (DequeSpec.zipReplaceSelf d.abs it.cur x y).2.2.1 ∧
    (zipReplaceSelf it d x y m).2.2.2.1.abs = (DequeSpec.zipReplaceSelf d.abs it.cur x y).2.2.2 ∧
    (zipReplaceSelf it d x y m).2.2.2.1.Inv ∧ (zipReplaceSelf it d x y m).2.2.2.2 = m := by
  have hb := size_lt_two_pow_64 d hi
  unfold zipReplaceSelf DequeSpec.zipReplaceSelf Iter.cur
  by_cases h0 : it.index = 0
  · have hoor : decIdx it.index ≥ d.size := by unfold decIdx; rw [if_pos h0]; omega
    rw [if_pos (Or.inl hoor)]
    simp only [h0, if_true]
    exact ⟨tr, tr, tr, tr, hi, tr⟩
  · have hdec : decIdx it.index = it.index - 1 := by unfold decIdx; rw [if_neg h0]
    rw [hdec]
    simp only [h0, if_false]
    by_cases hr : it.index - 1 ≥ d.size ∨ it.index - 1 ≥ d.size
    · rw [if_pos hr, List.getElem?_eq_none (by simp; omega)]
      exact ⟨tr, tr, tr, tr, hi, tr⟩
    · rw [if_neg hr]
      have hl : it.index - 1 < d.abs.length := by simp; omega
      obtain ⟨r1, r2, r3, r4, r5, _⟩ := replaceAt_spec d x (it.index - 1) m hi
      obtain ⟨s1, s2, s3, s4, s5, _⟩ := replaceAt_spec (d.replaceAt x (it.index - 1) m).2.2.1 y (it.index - 1)
        (d.replaceAt x (it.index - 1) m).2.2.2 r4
      unfold DequeSpec.replaceAt at r1 r2 r3 s1 s2 s3
      rw [dif_pos hl] at r1 r2 r3
      simp only at r2 r3
      have hl2 : it.index - 1 < (d.replaceAt x (it.index - 1) m).2.2.1.abs.length := by rw [r3]; simpa using hl
      rw [dif_pos hl2] at s1 s2 s3
      simp only at s2 s3
      rw [List.getElem?_eq_getElem hl]
      simp only
      refine ⟨tr, r2, ?_, ?_, s4, by rw [s5, r5]⟩
      · rw [s2]; simp [r3]
      · rw [s3, r3]; simp

/-- aliased `zip_iter_remove`: removes the element yielded last and then the element that has moved into its
place (if any; otherwise the second out-value is not written) -/
theorem zipRemoveSelf_spec (it : Iter) (d : Deque) (m : Mem) (hi : d.Inv) :
    (zipRemoveSelf it d m).1 = (DequeSpec.zipRemoveSelf d.abs it.cur).1 ∧
    (zipRemoveSelf it d m).2.1 = (DequeSpec.zipRemoveSelf d.abs it.cur).2.1 ∧
    (zipRemoveSelf it d m).2.2.1 = (DequeSpec.zipRemoveSelf d.abs it.cur).2.2.1 ∧
    (zipRemoveSelf it d m).2.2.2.2.1.abs = (DequeSpec.zipRemoveSelf d.abs it.cur).2.2.2.1 ∧
    (zipRemoveSelf it d m).2.2.2.1.cur = (DequeSpec.zipRemoveSelf d.abs it.cur).2.2.2.2 ∧
    (zipRemoveSelf it d m).2.2.2.2.1.Inv ∧ (zipRemoveSelf it d m).2.2.2.2.2 = m := by
  have hb := size_lt_two_pow_64 d hi
  unfold zipRemoveSelf DequeSpec.zipRemoveSelf Iter.cur
  by_cases hrm : it.lastRemoved = true
  · simp only [hrm, if_true]
    exact ⟨tr, tr, tr, tr, tr, hi, tr⟩
  have hrm' : it.lastRemoved = false := by simpa using hrm
  simp only [hrm, Bool.false_eq_true, if_false]
  by_cases h0 : it.index = 0
  · have hoor : decIdx it.index ≥ d.size := by unfold decIdx; rw [if_pos h0]; omega
    rw [if_pos (Or.inl hoor)]
    simp only [h0, if_true]
    exact ⟨tr, tr, tr, tr, by simp [hrm'], hi, tr⟩
  · have hdec : decIdx it.index = it.index - 1 := by unfold decIdx; rw [if_neg h0]
    rw [hdec]
    simp only [h0, if_false]
    by_cases hr : it.index - 1 ≥ d.size ∨ it.index - 1 ≥ d.size
    · rw [if_pos hr, List.getElem?_eq_none (by simp; omega)]
      exact ⟨tr, tr, tr, tr, by first | rfl | simp [hrm'], hi, tr⟩
    · rw [if_neg hr]
      have hl : it.index - 1 < d.abs.length := by simp; omega
      obtain ⟨r1, r2, r3, r4, r5, _⟩ := removeAt_spec d (it.index - 1) m hi
      obtain ⟨s1, s2, s3, s4, s5, _⟩ := removeAt_spec (d.removeAt (it.index - 1) m).2.2.1 (it.index - 1)
        (d.removeAt (it.index - 1) m).2.2.2 r4
      unfold DequeSpec.removeAt at r1 r2 r3
      rw [dif_pos hl] at r1 r2 r3
      simp only at r2 r3
      rw [List.getElem?_eq_getElem hl]
      simp only
      rw [r3] at s2 s3
      unfold DequeSpec.removeAt at s2 s3
      by_cases h2 : it.index - 1 < (d.abs.eraseIdx (it.index - 1)).length
      · rw [dif_pos h2] at s2 s3
        exact ⟨tr, r2, by rw [s2, List.getElem?_eq_getElem h2], s3, tr, s4, by rw [s5, r5]⟩
      · rw [dif_neg h2] at s2 s3
        have hle : (d.abs.eraseIdx (it.index - 1)).length ≤ it.index - 1 := Nat.le_of_not_lt h2
        exact ⟨tr, r2, by rw [s2, List.getElem?_eq_none hle], by rw [s3, List.eraseIdx_of_length_le hle], tr, s4,
          by rw [s5, r5]⟩

/-- aliased `zip_iter_add`, every cursor position (D3's range included): invariant, ledger and triple are
kept whatever happens -/
theorem zipAddSelf_safe (it : Iter) (d : Deque) (x y : Nat) (m : Mem) (hi : d.Inv) :
    (zipAddSelf it d x y m).2.2.1.Inv ∧ memSame d.triple (zipAddSelf it d x y m).2.2.2 m ∧
    ((zipAddSelf it d x y m).1 ≠ .ok → (zipAddSelf it d x y m).2.2.1.abs = d.abs ∧ (zipAddSelf it d x y m).2.1 = it) := by
  unfold zipAddSelf
  by_cases hr : it.index ≥ d.size ∨ it.index ≥ d.size
  · rw [if_pos hr]; exact ⟨hi, memSame_refl _ m, fun _ => ⟨rfl, rfl⟩⟩
  rw [if_neg hr]
  dsimp only
  have fold : ∀ (e : Deque) n, (if e.cap = e.size then e.expandCapacity n else (Stat.ok, e, n)) = growIfFull e n :=
    fun _ _ => rfl
  simp only [fold]
  rcases growIfFull_spec d m hi with ⟨a1, a2, a3, a4, a5, a6⟩ | ⟨a1, a2, a3, a4⟩
  · have hne1 : ((growIfFull d m).1 != Stat.ok) = false := by simp [a1]
    simp only [hne1, Bool.false_eq_true, if_false]
    have t1 := growIfFull_triple d m
    rcases growIfFull_spec (growIfFull d m).2.1 (growIfFull d m).2.2 a2 with ⟨b1, b2, b3, b4, b5, b6⟩ | ⟨b1, b2, b3, b4⟩
    · have hne2 : ((growIfFull (growIfFull d m).2.1 (growIfFull d m).2.2).1 != Stat.ok) = false := by simp [b1]
      simp only [hne2, Bool.false_eq_true, if_false]
      have t2 := growIfFull_triple (growIfFull d m).2.1 (growIfFull d m).2.2
      obtain ⟨p1, p2, _, _⟩ := addAt_inv (growIfFull (growIfFull d m).2.1 (growIfFull d m).2.2).2.1 x it.index
        (growIfFull (growIfFull d m).2.1 (growIfFull d m).2.2).2.2 b2
      have t3 := addAt_triple (growIfFull (growIfFull d m).2.1 (growIfFull d m).2.2).2.1 x it.index
        (growIfFull (growIfFull d m).2.1 (growIfFull d m).2.2).2.2
      obtain ⟨q1, q2, _, _⟩ := addAt_inv _ y it.index
        ((growIfFull (growIfFull d m).2.1 (growIfFull d m).2.2).2.1.addAt x it.index
          (growIfFull (growIfFull d m).2.1 (growIfFull d m).2.2).2.2).2.2 p1
      rw [t3, t2, t1] at q2
      rw [t2, t1] at p2
      rw [t1] at b6
      exact ⟨q1, memSame_trans q2 (memSame_trans p2 (memSame_trans b6 a6)), fun h => absurd rfl h⟩
    · have hne2 : ((growIfFull (growIfFull d m).2.1 (growIfFull d m).2.2).1 != Stat.ok) = true := by simp [b1]
      simp only [hne2, if_true]
      rw [t1] at b3
      exact ⟨by rw [b2]; exact a2, memSame_trans b3 a6, fun _ => ⟨by rw [b2]; exact a3, tr⟩⟩
  · have hne1 : ((growIfFull d m).1 != Stat.ok) = true := by simp [a1]
    simp only [hne1, if_true]
    exact ⟨by rw [a2]; exact hi, a3, fun _ => ⟨by rw [a2], tr⟩⟩

/-- **finding (aliased zip add)**: the hypothesis "no refusal during the second `add_at`" cannot be dropped
from any atomicity statement — a concrete state with one free slot where the model (= the C code) reports
`CC_OK` although the refused second insertion did not happen -/
theorem zipAddSelf_swallows_refusal :
    (Deque.mk 3 4 0 3 [11, 12, 13, 0] .conf).Inv ∧
    (zipAddSelf { index := 2 } (Deque.mk 3 4 0 3 [11, 12, 13, 0] .conf) 7 8 { sched := [true], live := 2 }).1 = .ok ∧
    (zipAddSelf { index := 2 } (Deque.mk 3 4 0 3 [11, 12, 13, 0] .conf) 7 8 { sched := [true], live := 2 }).2.2.1.abs
      = [11, 12, 7, 13] ∧
    (zipAddSelf { index := 2 } (Deque.mk 3 4 0 3 [11, 12, 13, 0] .conf) 7 8 { sched := [true], live := 2 }).2.2.2.nrefused = 1 ∧
    (DequeSpec.zipAddSelf [11, 12, 13] { pos := 2 } 7 8).2.1 = [11, 12, 8, 7, 13] := by decide

end CC.Deque
