import CollectionsC.Model.Stack
import CollectionsC.Proofs.ArrayIter
import CollectionsC.Proofs.ArrayMem
/-! Helper lemmas for the stack adapter: every stack function is the corresponding array function
on `stack->v`; the constructor and `cc_stack_filter` add their own allocation logic. -/
namespace CC.Stack
open CC CC.Arr

/-- header and inner array share one allocator triple (what `cc_stack_new_conf` sets up) -/
def Coh (s : Stack) : Prop := s.v.triple = s.triple

instance (s : Stack) : Decidable s.Coh := by unfold Coh; infer_instance

/-- `cc_stack_new_conf`: the header is allocated first and released again when the inner array
constructor fails (invalid capacity or refusal); on success the stack owns three blocks of its triple -/
theorem new_spec (cap : Nat) (grow : Nat → Nat) (exGe : Nat → Bool) (m : Mem) (t : Triple := .conf) :
    (((Stack.new cap grow exGe m t).1 = .errAlloc ∨ (Stack.new cap grow exGe m t).1 = .errInvalidCapacity) ∧
      (Stack.new cap grow exGe m t).2.1 = none ∧
      own t (Stack.new cap grow exGe m t).2.2 = own t m ∧ (Stack.new cap grow exGe m t).2.2.fault = m.fault) ∨
    ((Stack.new cap grow exGe m t).1 = .ok ∧
      ∃ s, (Stack.new cap grow exGe m t).2.1 = some s ∧ s.abs = [] ∧ s.Inv ∧ s.v.capacity = cap ∧ s.v.grow = grow ∧
        own t (Stack.new cap grow exGe m t).2.2 = own t m + 3 ∧ (Stack.new cap grow exGe m t).2.2.fault = m.fault) := by
  unfold Stack.new
  rcases allocT_cases m t with ⟨g1, _, g3⟩ | ⟨g1, _, g3⟩
  · have o1 := own_allocT_ok m t g1
    simp only [g1, Bool.not_true, Bool.false_eq_true, if_false]
    rcases Arr.new_spec cap grow exGe (m.allocT t).2 t with ⟨n1, n2, n3, _⟩ | ⟨n1, n2, _, _, n5, n6⟩ | ⟨n1, _, r, n3, n4, n5, n6, n7, n8, n9⟩
    · left
      have hf := freeT_live (m.allocT t).2 t (by omega)
      rw [n2]
      simp only [n1, n3]
      exact ⟨Or.inr (by triv), by triv, by rw [hf.2.2]; omega, by rw [hf.2.1]; exact g3⟩
    · left
      have hf := freeT_live (Arr.new cap grow exGe (m.allocT t).2 t).2.2 t (by omega)
      rw [n2]
      simp only [n1]
      exact ⟨Or.inl (by triv), by triv, by rw [hf.2.2]; omega, by rw [hf.2.1, n6]; exact g3⟩
    · right
      rw [n3]
      simp only [n1, if_true]
      exact ⟨by triv, ⟨r, t⟩, by triv, n4, n5, n6, n7, by omega, by rw [n9]; exact g3⟩
  · left
    have o1 := own_allocT_refused m t g1
    simp only [g1, Bool.not_false, if_true]
    exact ⟨Or.inl (by triv), by triv, o1, g3⟩

/-- the stack built by the constructor uses one triple for header and array, the one it was given -/
theorem new_triple (cap : Nat) (grow : Nat → Nat) (exGe : Nat → Bool) (m : Mem) (t : Triple) (s : Stack)
    (h : (Stack.new cap grow exGe m t).2.1 = some s) : s.triple = t ∧ s.v.triple = t := by
  unfold Stack.new at h
  simp only at h
  split at h
  · simp at h
  · split at h
    · rename_i a ha
      split at h
      · simp only [Option.some.injEq] at h
        subst h
        refine ⟨rfl, ?_⟩
        simp only
        unfold Arr.new at ha
        simp only at ha
        repeat' split at ha
        all_goals first | (simp at ha; done) | skip
        all_goals (simp only [Option.some.injEq] at ha; rw [← ha])
      · simp at h
    · simp at h

theorem destroy_spec (s : Stack) (m : Mem) (hc : s.Coh) (hlive : 3 ≤ own s.triple m) :
    own s.triple (s.destroy m) = own s.triple m - 3 ∧ (s.destroy m).fault = m.fault := by
  unfold destroy
  unfold Coh at hc
  obtain ⟨d1, d2⟩ := Arr.destroy_spec s.v m (by rw [hc]; omega)
  rw [hc] at d1
  have hf := freeT_live (s.v.destroy m) s.triple (by omega)
  exact ⟨by rw [hf.2.2]; omega, by rw [hf.2.1, d2]⟩

theorem destroyCb_spec (s : Stack) (m : Mem) (hinv : s.Inv) (hc : s.Coh) (hlive : 3 ≤ own s.triple m) :
    (s.destroyCb m).1 = s.abs ∧ own s.triple (s.destroyCb m).2 = own s.triple m - 3 ∧ (s.destroyCb m).2.fault = m.fault := by
  simp only [destroyCb]
  unfold Coh at hc
  obtain ⟨d0, d1, d2⟩ := Arr.destroyCb_spec s.v m hinv (by rw [hc]; omega)
  rw [hc] at d1
  have hf := freeT_live (s.v.destroyCb m).2 s.triple (by omega)
  exact ⟨d0, by rw [hf.2.2]; omega, by rw [hf.2.1, d2]⟩

/-- the copying loop of `cc_stack_filter`: pushes the matching elements from position `it.index`
on; stops with the failing status when a push is blocked -/
theorem filterLoop_spec (p : Nat → Bool) (src : Arr) (hsrc : src.Inv) : ∀ n (it : ArrIter) (dst : Stack) (log : List Nat) (m : Mem),
    it.index ≤ src.size → src.size - it.index < n → dst.Inv →
    (((filterLoop p src n it dst log m).1 = .ok ∧
        (filterLoop p src n it dst log m).2.1.abs = dst.abs ++ (src.abs.drop it.index).filter p ∧
        (filterLoop p src n it dst log m).2.2.1 = log ++ src.abs.drop it.index) ∨
     ((filterLoop p src n it dst log m).1 = .errAlloc ∨ (filterLoop p src n it dst log m).1 = .errMaxCapacity)) ∧
    (filterLoop p src n it dst log m).2.1.Inv ∧ (filterLoop p src n it dst log m).2.1.v.grow = dst.v.grow ∧
    (filterLoop p src n it dst log m).2.2.2.live = m.live ∧ (filterLoop p src n it dst log m).2.2.2.fault = m.fault := by
  intro n
  induction n with
  | zero => intro it dst log m h1 h2; omega
  | succ n ih =>
    intro it dst log m h1 h2 hd
    have hbl := hsrc.size_le_len
    simp only [filterLoop]
    by_cases hend : it.index ≥ src.size
    · have hnx : src.iterNext it m = (.iterEnd, none, it, m) := by simp [Arr.iterNext, hend]
      have hdrop : src.abs.drop it.index = [] := List.drop_of_length_le (by simpa using hend)
      simp only [hnx, if_true, hdrop, List.filter_nil, List.append_nil]
      exact ⟨Or.inl ⟨by triv, by triv, by triv⟩, hd, by triv, by triv, by triv⟩
    · have hlt : it.index < src.size := by omega
      have h6 : decide (it.index < src.buf.length) = true := by simp; omega
      have hnx : src.iterNext it m = (.ok, some (src.buf.get it.index), { index := it.index + 1, lastRemoved := false }, m) := by
        simp [Arr.iterNext, hend, h6]
      have hlt' : it.index < src.abs.length := by simpa using hlt
      have hdrop : src.abs.drop it.index = src.buf.get it.index :: src.abs.drop (it.index + 1) := by
        rw [List.drop_eq_getElem_cons hlt', abs_getElem]
      have hne : ¬ (Stat.ok = Stat.iterEnd) := by decide
      simp only [hnx, hne, if_false, Option.getD_some]
      by_cases hp : p (src.buf.get it.index) = true
      · simp only [hp, if_true]
        obtain ⟨ad, al, af⟩ := add_spec dst.v (src.buf.get it.index) m hd
        rcases ad with ⟨ok, habs, hgf⟩ | ⟨hb, hsame⟩
        · have hok : ((dst.push (src.buf.get it.index) m).1 != .ok) = false := by simp [push, ok]
          simp only [hok, Bool.false_eq_true, if_false]
          have hinv' : (dst.push (src.buf.get it.index) m).2.1.Inv := hgf.inv hd
          have hgrow : (dst.push (src.buf.get it.index) m).2.1.v.grow = dst.v.grow := hgf.2.2.2.2
          have := ih { index := it.index + 1, lastRemoved := false } (dst.push (src.buf.get it.index) m).2.1
            (log ++ [src.buf.get it.index]) (dst.push (src.buf.get it.index) m).2.2 (by simp only; omega)
            (by simp only; omega) hinv'
          obtain ⟨t1, t2, t3, t4, t5⟩ := this
          refine ⟨?_, t2, by rw [t3, hgrow], by rw [t4]; exact al, by rw [t5]; exact af⟩
          rcases t1 with ⟨u1, u2, u3⟩ | u
          · left
            refine ⟨u1, ?_, ?_⟩
            · rw [u2, hdrop, List.filter_cons]
              simp only [hp, if_true]
              have : (dst.push (src.buf.get it.index) m).2.1.abs = dst.abs ++ [src.buf.get it.index] := habs
              rw [this]; simp
            · rw [u3, hdrop]; simp
          · exact Or.inr u
        · have hst : (dst.push (src.buf.get it.index) m).1 ≠ .ok := by
            simp only [push]
            rcases hb.1 with ⟨h, _⟩ | ⟨h, _⟩ <;> rw [h] <;> decide
          have hok : ((dst.push (src.buf.get it.index) m).1 != .ok) = true := by simpa using hst
          simp only [hok, if_true]
          have hsame' : (dst.push (src.buf.get it.index) m).2.1 = dst := by
            simp only [push]; rw [hsame]
          refine ⟨Or.inr ?_, by rw [hsame']; exact hd, by rw [hsame'], al, af⟩
          simp only [push]
          rcases hb.1 with ⟨h, _⟩ | ⟨h, _⟩
          · exact Or.inl h
          · exact Or.inr h
      · have hpf : p (src.buf.get it.index) = false := by simpa using hp
        simp only [hpf, Bool.false_eq_true, if_false]
        have := ih { index := it.index + 1, lastRemoved := false } dst (log ++ [src.buf.get it.index]) m
          (by simp only; omega) (by simp only; omega) hd
        obtain ⟨t1, t2, t3, t4, t5⟩ := this
        refine ⟨?_, t2, t3, t4, t5⟩
        rcases t1 with ⟨u1, u2, u3⟩ | u
        · left
          refine ⟨u1, ?_, ?_⟩
          · rw [u2, hdrop, List.filter_cons]; simp [hpf]
          · rw [u3, hdrop]; simp
        · exact Or.inr u

/-- the loop keeps the result's block counter balanced and never changes its allocator triple -/
theorem filterLoop_own (p : Nat → Bool) (src : Arr) : ∀ n (it : ArrIter) (dst : Stack) (log : List Nat) (m : Mem),
    own dst.v.triple (filterLoop p src n it dst log m).2.2.2 = own dst.v.triple m ∧
    (filterLoop p src n it dst log m).2.1.v.triple = dst.v.triple ∧
    (filterLoop p src n it dst log m).2.1.triple = dst.triple := by
  intro n
  induction n with
  | zero => intro it dst log m; exact ⟨rfl, rfl, rfl⟩
  | succ n ih =>
    intro it dst log m
    have hm : own dst.v.triple (src.iterNext it m).2.2.2 = own dst.v.triple m := by
      unfold Arr.iterNext; split
      · rfl
      · simp only [own_check]
    simp only [filterLoop]
    split
    · exact ⟨hm, rfl, rfl⟩
    · split
      · have l := add_led dst.v ((src.iterNext it m).2.1.getD 0) (src.iterNext it m).2.2.2
        have ht := add_triple dst.v ((src.iterNext it m).2.1.getD 0) (src.iterNext it m).2.2.2
        split
        · exact ⟨by simp only [push]; rw [l.1, hm]; rfl, ht, rfl⟩
        · obtain ⟨i1, i2, i3⟩ := ih (src.iterNext it m).2.2.1 (dst.push ((src.iterNext it m).2.1.getD 0) (src.iterNext it m).2.2.2).2.1
            (log ++ [(src.iterNext it m).2.1.getD 0]) (dst.push ((src.iterNext it m).2.1.getD 0) (src.iterNext it m).2.2.2).2.2
          simp only [push] at i1 i2 i3 ⊢
          rw [ht] at i1 i2
          exact ⟨by rw [i1, l.1, hm]; rfl, i2, i3⟩
      · obtain ⟨i1, i2, i3⟩ := ih (src.iterNext it m).2.2.1 dst (log ++ [(src.iterNext it m).2.1.getD 0]) (src.iterNext it m).2.2.2
        exact ⟨by rw [i1, hm], i2, i3⟩

/-- `cc_stack_filter`: refuses the empty stack; otherwise builds a stack with the default capacity
and expansion factor and **the source's allocator triple**, holding exactly the matching elements in
the same (bottom-to-top) order, calling the predicate once per element; any refusal on the way
(header, array, a growth step of the result) yields no object and a balanced ledger (Q3). -/
theorem filter_spec (p : Nat → Bool) (s : Stack) (dgrow : Nat → Nat) (dexGe : Nat → Bool) (m : Mem)
    (hinv : s.Inv) :
    ((s.filter p dgrow dexGe m).1 = .errOutOfRange ∧ s.abs = [] ∧ (s.filter p dgrow dexGe m).2.1 = none ∧
      (s.filter p dgrow dexGe m).2.2.2 = m) ∨
    (((s.filter p dgrow dexGe m).1 = .errAlloc ∨ (s.filter p dgrow dexGe m).1 = .errMaxCapacity ∨
        (s.filter p dgrow dexGe m).1 = .errInvalidCapacity) ∧ s.abs ≠ [] ∧
      (s.filter p dgrow dexGe m).2.1 = none ∧
      own s.triple (s.filter p dgrow dexGe m).2.2.2 = own s.triple m ∧ (s.filter p dgrow dexGe m).2.2.2.fault = m.fault) ∨
    ((s.filter p dgrow dexGe m).1 = .ok ∧ s.abs ≠ [] ∧
      ∃ r, (s.filter p dgrow dexGe m).2.1 = some r ∧ r.abs = s.abs.filter p ∧ r.Inv ∧ r.v.grow = dgrow ∧
        (s.filter p dgrow dexGe m).2.2.1 = s.abs ∧
        own s.triple (s.filter p dgrow dexGe m).2.2.2 = own s.triple m + 3 ∧ (s.filter p dgrow dexGe m).2.2.2.fault = m.fault) := by
  unfold filter
  by_cases h0 : s.size = 0
  · left
    have : s.abs = [] := (abs_eq_nil_iff s.v).2 h0
    simp [h0, this]
  · right
    have hne : s.abs ≠ [] := fun h => h0 ((abs_eq_nil_iff s.v).1 h)
    simp only [h0, if_false]
    rcases Stack.new_spec Gen.ARRAY_DEFAULT_CAPACITY dgrow dexGe m s.triple with ⟨n1, n2, n3, n4⟩ | ⟨n1, f, n2, n3, n4, n5, n6, n7, n8⟩
    · left
      rw [n2]
      refine ⟨?_, hne, by triv, n3, n4⟩
      rcases n1 with n1 | n1
      · exact Or.inl n1
      · exact Or.inr (Or.inr n1)
    · rw [n2]
      obtain ⟨ft, fvt⟩ := new_triple _ _ _ _ _ f n2
      have hokb : ((Stack.new Gen.ARRAY_DEFAULT_CAPACITY dgrow dexGe m s.triple).1 != .ok) = false := by simp [n1]
      simp only [hokb, Bool.false_eq_true, if_false]
      have hl := filterLoop_spec p s.v hinv (s.v.size + 1) {} f [] (Stack.new Gen.ARRAY_DEFAULT_CAPACITY dgrow dexGe m s.triple).2.2
        (Nat.zero_le _) (by simp only; omega) n4
      obtain ⟨o1, o2, o3⟩ := filterLoop_own p s.v (s.v.size + 1) {} f [] (Stack.new Gen.ARRAY_DEFAULT_CAPACITY dgrow dexGe m s.triple).2.2
      rw [fvt] at o1 o2
      rw [ft] at o3
      obtain ⟨t1, t2, t3, t4, t5⟩ := hl
      rcases t1 with ⟨u1, u2, u3⟩ | u
      · right
        have hokl : ((filterLoop p s.v (s.v.size + 1) {} f [] (Stack.new Gen.ARRAY_DEFAULT_CAPACITY dgrow dexGe m s.triple).2.2).1 != .ok) = false := by
          simp [u1]
        simp only [hokl, Bool.false_eq_true, if_false]
        refine ⟨by triv, hne, _, by triv, ?_, t2, by rw [t3, n6], ?_, by rw [o1, n7], by rw [t5, n8]⟩
        · rw [u2, n3]; simp [Stack.abs]
        · rw [u3]; simp [Stack.abs]
      · left
        have hokl : ((filterLoop p s.v (s.v.size + 1) {} f [] (Stack.new Gen.ARRAY_DEFAULT_CAPACITY dgrow dexGe m s.triple).2.2).1 != .ok) = true := by
          rcases u with u | u <;> rw [u] <;> decide
        simp only [hokl, if_true]
        obtain ⟨d1, d2⟩ := destroy_spec
          (filterLoop p s.v (s.v.size + 1) {} f [] (Stack.new Gen.ARRAY_DEFAULT_CAPACITY dgrow dexGe m s.triple).2.2).2.1
          (filterLoop p s.v (s.v.size + 1) {} f [] (Stack.new Gen.ARRAY_DEFAULT_CAPACITY dgrow dexGe m s.triple).2.2).2.2.2
          (by unfold Coh; rw [o2, o3]) (by rw [o3, o1]; omega)
        rw [o3] at d1
        refine ⟨?_, hne, by triv, by rw [d1, o1]; omega, by rw [d2, t5, n8]⟩
        rcases u with u | u
        · exact Or.inl u
        · exact Or.inr (Or.inl u)

/-- the result of `cc_stack_filter` carries the source's allocator triple, for header and array -/
theorem filter_triple (p : Nat → Bool) (s : Stack) (dgrow : Nat → Nat) (dexGe : Nat → Bool) (m : Mem) (r : Stack)
    (h : (s.filter p dgrow dexGe m).2.1 = some r) : r.triple = s.triple ∧ r.v.triple = s.triple := by
  unfold filter at h
  split at h
  · simp at h
  · cases hn : (Stack.new Gen.ARRAY_DEFAULT_CAPACITY dgrow dexGe m s.triple).2.1 with
    | none => simp [hn] at h
    | some f =>
      obtain ⟨ft, fvt⟩ := new_triple _ _ _ _ _ f hn
      obtain ⟨_, o2, o3⟩ := filterLoop_own p s.v (s.v.size + 1) {} f [] (Stack.new Gen.ARRAY_DEFAULT_CAPACITY dgrow dexGe m s.triple).2.2
      simp only [hn] at h
      split at h
      · simp at h
      · split at h
        · simp at h
        · simp only [Option.some.injEq] at h
          subst h
          exact ⟨by rw [o3, ft], by rw [o2, fvt]⟩

end CC.Stack
