import CollectionsC.Proofs.StackMem
/-! `cc_stack_filter` succeeds whenever its allocator does not refuse (C15, failure branch pinned):
on the C library's triple, or on configured allocators with an empty refusal schedule, with the default
configuration valid and the default growth function not overshooting the byte-size limit on the
capacities the result can reach. -/
namespace CC.Arr
open CC

/-- an allocator triple that cannot refuse in this ledger state: the C library's, or a configured one
whose refusal schedule is empty -/
def NeverRefuses (t : Triple) (m : Mem) : Prop := t = .libc ∨ m.sched = []

theorem NeverRefuses.allocT {t : Triple} {m : Mem} (h : NeverRefuses t m) :
    (m.allocT t).1 = true ∧ NeverRefuses t (m.allocT t).2 := by
  rcases h with h | h
  · subst h; exact ⟨rfl, Or.inl rfl⟩
  · have := allocT_never_refuses m t h
    exact ⟨this.1, Or.inr this.2⟩

theorem NeverRefuses.alloc2 {t : Triple} {m : Mem} (h : NeverRefuses t m) :
    (alloc2 m t).1 = true ∧ NeverRefuses t (alloc2 m t).2 := by
  obtain ⟨a1, n1⟩ := h.allocT
  obtain ⟨a2, n2⟩ := n1.allocT
  unfold Arr.alloc2
  simp only [a1, a2, Bool.not_true, Bool.false_eq_true, if_false]
  exact ⟨trivial, n2⟩

theorem not_atLimit' (a : Arr) (hc : a.capacity < Gen.CC_MAX_ELEMENTS / 8)
    (hg : a.grow a.capacity ≤ Gen.CC_MAX_ELEMENTS / 8) : ¬ a.AtLimit := by
  intro hl
  rcases hl with hl | hl
  · have := max8_lt; omega
  · unfold newCapacity at hl
    simp only at hl
    split at hl
    · split at hl <;> omega
    · omega

/-- `add` on a never-refusing allocator below the limit succeeds and keeps the allocator never-refusing -/
theorem add_ok_of_neverRefuses (a : Arr) (x : Nat) (m : Mem) (hinv : a.Inv) (hn : NeverRefuses a.triple m)
    (hc : a.size < Gen.CC_MAX_ELEMENTS / 8) (hg : a.size = a.capacity → a.grow a.capacity ≤ Gen.CC_MAX_ELEMENTS / 8) :
    (a.add x m).1 = .ok ∧ NeverRefuses a.triple (a.add x m).2.2 := by
  constructor
  · rcases (add_spec a x m hinv).1 with ⟨ok, _⟩ | ⟨⟨hb, hf⟩, _⟩
    · exact ok
    · exfalso
      rcases hb with ⟨_, hr⟩ | ⟨_, hl⟩
      · rw [hn.allocT.1] at hr; simp at hr
      · exact not_atLimit' a (by omega) (hg hf) hl
  · rcases hn with h | h
    · exact Or.inl h
    · exact Or.inr (add_sched_nil a x m h)

end CC.Arr

namespace CC.Stack
open CC CC.Arr

theorem filterLoop_ok (p : Nat → Bool) (src : Arr) (hsrc : src.Inv) :
    ∀ n (it : ArrIter) (dst : Stack) (log : List Nat) (m : Mem), dst.Inv → dst.v.size ≤ it.index →
      NeverRefuses dst.v.triple m → (∀ c, c < src.size → dst.v.grow c ≤ Gen.CC_MAX_ELEMENTS / 8) →
      (filterLoop p src n it dst log m).1 = .ok := by
  intro n
  induction n with
  | zero => intro it dst log m _ _ _ _; rfl
  | succ n ih =>
    intro it dst log m hd hle hn hg
    have hbl := hsrc.size_le_len
    simp only [filterLoop]
    by_cases hend : it.index ≥ src.size
    · have hnx : src.iterNext it m = (.iterEnd, none, it, m) := by simp [Arr.iterNext, hend]
      simp only [hnx, if_true]
    · have hlt : it.index < src.size := by omega
      have h6 : decide (it.index < src.buf.length) = true := by simp; omega
      have hnx : src.iterNext it m = (.ok, some (src.buf.get it.index), { index := it.index + 1, lastRemoved := false }, m) := by
        simp [Arr.iterNext, hend, h6]
      have hne : ¬ (Stat.ok = Stat.iterEnd) := by decide
      simp only [hnx, hne, if_false, Option.getD_some]
      by_cases hp : p (src.buf.get it.index) = true
      · simp only [hp, if_true]
        have hsz : src.size ≤ Gen.CC_MAX_ELEMENTS / 8 := Nat.le_trans hsrc.1 hsrc.2.2.2
        obtain ⟨ok, hn'⟩ := add_ok_of_neverRefuses dst.v (src.buf.get it.index) m hd hn (by omega)
          (fun hf => hg dst.v.capacity (by omega))
        obtain ⟨ad, _, _⟩ := add_spec dst.v (src.buf.get it.index) m hd
        have hok : ((dst.push (src.buf.get it.index) m).1 != .ok) = false := by simp [push, ok]
        simp only [hok, Bool.false_eq_true, if_false]
        rcases ad with ⟨_, _, hgf⟩ | ⟨hb, _⟩
        · exact ih _ (dst.push (src.buf.get it.index) m).2.1 _ _ (hgf.inv hd)
            (by simp only [push]; have := hgf.1; omega)
            (by simp only [push]; rw [add_triple]; exact hn')
            (fun c hc => by simp only [push]; rw [hgf.2.2.2.2]; exact hg c hc)
        · rcases hb.1 with ⟨h, _⟩ | ⟨h, _⟩ <;> rw [h] at ok <;> simp at ok
      · have hpf : p (src.buf.get it.index) = false := by simpa using hp
        simp only [hpf, Bool.false_eq_true, if_false]
        exact ih _ dst _ m hd (by simp only; omega) hn hg

/-- the constructor on a never-refusing allocator with valid arguments succeeds -/
theorem new_ok_of_neverRefuses (cap : Nat) (grow : Nat → Nat) (exGe : Nat → Bool) (m : Mem) (t : Triple)
    (hn : NeverRefuses t m) (h0 : ¬ cap = 0) (h1 : ¬ exGe (Gen.CC_MAX_ELEMENTS / cap) = true)
    (h8 : ¬ cap > Gen.CC_MAX_ELEMENTS / 8) :
    ∃ f m', Stack.new cap grow exGe m t = (.ok, some f, m') ∧ f.Inv ∧ f.v.size = 0 ∧ f.v.grow = grow ∧
      f.v.triple = t ∧ NeverRefuses t m' := by
  obtain ⟨a1, n1⟩ := hn.allocT
  obtain ⟨a2, n2⟩ := n1.alloc2
  refine ⟨⟨{ size := 0, capacity := cap, buf := Buf.mk cap, grow := grow, triple := t }, t⟩, (alloc2 (m.allocT t).2 t).2, ?_,
    ⟨Nat.zero_le _, by simp, by show 1 ≤ cap; omega, by show cap ≤ Gen.CC_MAX_ELEMENTS / 8; omega⟩, rfl, rfl, rfl, n2⟩
  unfold Stack.new
  simp only [a1, Bool.not_true, Bool.false_eq_true, if_false]
  rw [Arr.new_eq cap grow exGe _ t h0 h1 h8]
  simp only [a2, if_true]

/-- **`cc_stack_filter` succeeds whenever the allocator grants**: non-empty source, the source's triple
never refusing, the default configuration valid (`dexGe`: the factor test of the constructor, false for
the shipped default factor 2) and the default growth function within the byte-size limit on the
capacities below the source's size -/
theorem filter_ok (p : Nat → Bool) (s : Stack) (dgrow : Nat → Nat) (dexGe : Nat → Bool) (m : Mem)
    (hinv : s.Inv) (hne : s.size ≠ 0) (hn : NeverRefuses s.triple m)
    (hex : dexGe (Gen.CC_MAX_ELEMENTS / Gen.ARRAY_DEFAULT_CAPACITY) = false)
    (hg : ∀ c, c < s.size → dgrow c ≤ Gen.CC_MAX_ELEMENTS / 8) :
    (s.filter p dgrow dexGe m).1 = .ok := by
  obtain ⟨f, m', e, fi, fs, fg, ft, fn⟩ := new_ok_of_neverRefuses Gen.ARRAY_DEFAULT_CAPACITY dgrow dexGe m s.triple hn
    (by decide) (by rw [hex]; simp) (by decide)
  have hl := filterLoop_ok p s.v hinv (s.v.size + 1) {} f [] m' fi (by rw [fs]; exact Nat.zero_le _)
    (by rw [ft]; exact fn) (fun c hc => by rw [fg]; exact hg c hc)
  unfold filter
  simp only [hne, if_false, e, bne_self_eq_false, Bool.false_eq_true]
  rw [hl]
  rfl

/-- `CC_ERR_INVALID_CAPACITY` can come out of `cc_stack_filter` only through the constructor's factor
test on the default configuration (never with the shipped default factor 2, for which `dexGe` is false) -/
theorem filter_invalid_only_if (p : Nat → Bool) (s : Stack) (dgrow : Nat → Nat) (dexGe : Nat → Bool) (m : Mem)
    (hinv : s.Inv) (h : (s.filter p dgrow dexGe m).1 = .errInvalidCapacity) :
    dexGe (Gen.CC_MAX_ELEMENTS / Gen.ARRAY_DEFAULT_CAPACITY) = true := by
  apply Decidable.byContradiction
  intro hex
  unfold filter at h
  by_cases h0 : s.size = 0
  · simp [h0] at h
  · simp only [h0, if_false] at h
    have hnew : (Stack.new Gen.ARRAY_DEFAULT_CAPACITY dgrow dexGe m s.triple).1 ≠ .errInvalidCapacity ∧
        ∀ f, (Stack.new Gen.ARRAY_DEFAULT_CAPACITY dgrow dexGe m s.triple).2.1 = some f → f.Inv := by
      unfold Stack.new
      dsimp only
      rw [Arr.new_eq Gen.ARRAY_DEFAULT_CAPACITY dgrow dexGe _ s.triple (by decide) hex (by decide)]
      cases (m.allocT s.triple).1
      · simp
      · cases (alloc2 (m.allocT s.triple).2 s.triple).1
        · simp
        · simp only [Bool.not_true, Bool.false_eq_true, if_false, if_true]
          refine ⟨by simp, fun f hf => ?_⟩
          simp only [Option.some.injEq] at hf
          rw [← hf]
          exact ⟨Nat.zero_le _, by simp, by show 1 ≤ Gen.ARRAY_DEFAULT_CAPACITY; decide,
            by show Gen.ARRAY_DEFAULT_CAPACITY ≤ Gen.CC_MAX_ELEMENTS / 8; decide⟩
    cases hn : (Stack.new Gen.ARRAY_DEFAULT_CAPACITY dgrow dexGe m s.triple).2.1 with
    | none => rw [hn] at h; exact hnew.1 h
    | some f =>
      rw [hn] at h
      simp only at h
      by_cases hst : ((Stack.new Gen.ARRAY_DEFAULT_CAPACITY dgrow dexGe m s.triple).1 != .ok) = true
      · simp only [hst, if_true] at h; exact hnew.1 h
      · simp only [hst, Bool.false_eq_true, if_false] at h
        have hl := (filterLoop_spec p s.v hinv (s.v.size + 1) {} f []
          (Stack.new Gen.ARRAY_DEFAULT_CAPACITY dgrow dexGe m s.triple).2.2 (Nat.zero_le _) (by simp) (hnew.2 f hn)).1
        split at h
        · rcases hl with ⟨ok, _⟩ | hl | hl <;> rw [h] at * <;> simp_all
        · simp at h

/-- with the default growth function within the byte-size limit on the capacities below the source's
size, the copying loop can fail only with `CC_ERR_ALLOC` -/
theorem filterLoop_no_max (p : Nat → Bool) (src : Arr) (hsrc : src.Inv) :
    ∀ n (it : ArrIter) (dst : Stack) (log : List Nat) (m : Mem), dst.Inv → dst.v.size ≤ it.index →
      (∀ c, c < src.size → dst.v.grow c ≤ Gen.CC_MAX_ELEMENTS / 8) →
      (filterLoop p src n it dst log m).1 = .ok ∨ (filterLoop p src n it dst log m).1 = .errAlloc := by
  intro n
  induction n with
  | zero => intro it dst log m _ _ _; exact Or.inl rfl
  | succ n ih =>
    intro it dst log m hd hle hg
    have hbl := hsrc.size_le_len
    simp only [filterLoop]
    by_cases hend : it.index ≥ src.size
    · have hnx : src.iterNext it m = (.iterEnd, none, it, m) := by simp [Arr.iterNext, hend]
      simp only [hnx, if_true]
      exact Or.inl trivial
    · have hlt : it.index < src.size := by omega
      have h6 : decide (it.index < src.buf.length) = true := by simp; omega
      have hnx : src.iterNext it m = (.ok, some (src.buf.get it.index), { index := it.index + 1, lastRemoved := false }, m) := by
        simp [Arr.iterNext, hend, h6]
      have hne : ¬ (Stat.ok = Stat.iterEnd) := by decide
      simp only [hnx, hne, if_false, Option.getD_some]
      by_cases hp : p (src.buf.get it.index) = true
      · simp only [hp, if_true]
        have hsz : src.size ≤ Gen.CC_MAX_ELEMENTS / 8 := Nat.le_trans hsrc.1 hsrc.2.2.2
        obtain ⟨ad, _, _⟩ := add_spec dst.v (src.buf.get it.index) m hd
        rcases ad with ⟨ok, _, hgf⟩ | ⟨⟨hb, hf⟩, _⟩
        · have hok : ((dst.push (src.buf.get it.index) m).1 != .ok) = false := by simp [push, ok]
          simp only [hok, Bool.false_eq_true, if_false]
          exact ih _ (dst.push (src.buf.get it.index) m).2.1 _ _ (hgf.inv hd)
            (by simp only [push]; have := hgf.1; omega)
            (fun c hc => by simp only [push]; rw [hgf.2.2.2.2]; exact hg c hc)
        · rcases hb with ⟨e, _⟩ | ⟨_, hl⟩
          · have hok : ((dst.push (src.buf.get it.index) m).1 != .ok) = true := by simp [push, e]
            simp only [hok, if_true]
            exact Or.inr (by simp only [push]; exact e)
          · exact absurd hl (not_atLimit' dst.v (by omega) (hg dst.v.capacity (by omega)))
      · have hpf : p (src.buf.get it.index) = false := by simpa using hp
        simp only [hpf, Bool.false_eq_true, if_false]
        exact ih _ dst _ m hd (by simp only; omega) hg

/-- `CC_ERR_MAX_CAPACITY` can come out of `cc_stack_filter` only if the default growth function
overshoots the byte-size limit at a capacity below the source's size -/
theorem filter_max_only_if (p : Nat → Bool) (s : Stack) (dgrow : Nat → Nat) (dexGe : Nat → Bool) (m : Mem)
    (hinv : s.Inv) (hg : ∀ c, c < s.size → dgrow c ≤ Gen.CC_MAX_ELEMENTS / 8) :
    (s.filter p dgrow dexGe m).1 ≠ .errMaxCapacity := by
  intro h
  unfold filter at h
  by_cases h0 : s.size = 0
  · simp [h0] at h
  · simp only [h0, if_false] at h
    obtain hsp := Stack.new_spec Gen.ARRAY_DEFAULT_CAPACITY dgrow dexGe m s.triple
    cases hn : (Stack.new Gen.ARRAY_DEFAULT_CAPACITY dgrow dexGe m s.triple).2.1 with
    | none =>
      rw [hn] at h
      rcases hsp with ⟨e | e, _⟩ | ⟨_, f, e, _⟩
      · rw [e] at h; simp at h
      · rw [e] at h; simp at h
      · rw [hn] at e; simp at e
    | some f =>
      rw [hn] at h
      simp only at h
      rcases hsp with ⟨_, e, _⟩ | ⟨ok, f', e, habs, fi, _, fg, _⟩
      · rw [hn] at e; simp at e
      · rw [hn] at e; simp only [Option.some.injEq] at e; subst e
        simp only [ok, bne_self_eq_false, Bool.false_eq_true, if_false] at h
        have hl := filterLoop_no_max p s.v hinv (s.v.size + 1) {} f []
          (Stack.new Gen.ARRAY_DEFAULT_CAPACITY dgrow dexGe m s.triple).2.2 fi
          (by have hz : f.v.size = f.abs.length := by simp [Stack.abs]
              rw [hz, habs]; exact Nat.le_refl _)
          (fun c hc => by rw [fg]; exact hg c hc)
        split at h
        · rcases hl with hl | hl <;> rw [hl] at h <;> simp at h
        · simp at h

end CC.Stack
