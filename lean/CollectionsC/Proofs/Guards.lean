import CollectionsC.Model.Array
import CollectionsC.Model.ArraySized
import CollectionsC.Model.Deque
import CollectionsC.Model.LinkedList
import CollectionsC.Model.SList
/-! Helper lemmas for `Properties/C16Guards.lean`: which statuses the statements *behind* an argument
guard can produce.  Each lemma holds for every state (no invariant needed): it only follows the
control flow of the model function. -/
namespace CC.GuardsAux
open CC

/-! ## `cc_array.c` -/

theorem arr_expandCapacity_ne_range (a : Arr) (m : Mem) : (a.expandCapacity m).1 ≠ .errOutOfRange := by
  unfold Arr.expandCapacity
  simp only [apply_ite Prod.fst]
  repeat' split
  all_goals simp

theorem arr_add_ne_range (a : Arr) (x : Nat) (m : Mem) : (a.add x m).1 ≠ .errOutOfRange := by
  unfold Arr.add Arr.store
  have h := arr_expandCapacity_ne_range a m
  simp only [apply_ite Prod.fst]
  repeat' split
  all_goals simp_all

theorem arr_insertShift_status (a : Arr) (x i : Nat) (m : Mem) : (a.insertShift x i m).1 = .ok := rfl


/-! ## `sized/cc_array_sized.c` -/

theorem sized_expandCapacity_ne_range (a : ArraySized) (m : Mem) : (a.expandCapacity m).1 ≠ .errOutOfRange := by
  unfold ArraySized.expandCapacity
  simp only [apply_ite Prod.fst]
  repeat' split
  all_goals simp

theorem sized_add_ne_range (a : ArraySized) (e : Buf Nat) (m : Mem) : (a.add e m).1 ≠ .errOutOfRange := by
  unfold ArraySized.add
  have h := sized_expandCapacity_ne_range a m
  simp only [apply_ite Prod.fst]
  repeat' split
  all_goals simp_all


/-! ## `cc_deque.c` -/

theorem deque_expandCapacity_ne_range (d : Deque) (m : Mem) : (d.expandCapacity m).1 ≠ .errOutOfRange := by
  unfold Deque.expandCapacity
  simp only [apply_ite Prod.fst]
  repeat' split
  all_goals simp

theorem deque_addFirst_ne_range (d : Deque) (x : Nat) (m : Mem) : (d.addFirst x m).1 ≠ .errOutOfRange := by
  unfold Deque.addFirst Deque.addFirstCore
  simp only [apply_ite Prod.fst]
  repeat' split
  all_goals simp

theorem deque_addLast_ne_range (d : Deque) (x : Nat) (m : Mem) : (d.addLast x m).1 ≠ .errOutOfRange := by
  unfold Deque.addLast Deque.addLastCore
  simp only [apply_ite Prod.fst]
  repeat' split
  all_goals simp

theorem deque_addAtCore_ne_range (d : Deque) (x i : Nat) (m : Mem) : (d.addAtCore x i m).1 ≠ .errOutOfRange := by
  unfold Deque.addAtCore
  have h1 := deque_addFirst_ne_range d x m
  have h2 := deque_addLast_ne_range d x m
  simp only [apply_ite Prod.fst]
  repeat' split
  all_goals simp_all


/-! ## `cc_list.c` -/
section
open CC.DList

theorem dlist_addLast_status (l : Chain) (x : Nat) (m : Mem) : (addLast l x m).1 = .ok ∨ (addLast l x m).1 = .errAlloc := by
  unfold addLast
  simp only [apply_ite Prod.fst]
  repeat' split
  all_goals simp

theorem dlist_buildLoop_status (src : Chain) (sel : Nat → Option Nat) : ∀ (k : Nat) (node : Ptr) (dst : Chain) (m : Mem),
    (buildLoop src sel k node dst m).1 = .ok ∨ (buildLoop src sel k node dst m).1 = .errAlloc := by
  intro k
  induction k with
  | zero => intro node dst m; simp [buildLoop]
  | succ k ih =>
    intro node dst m
    cases node with
    | none => simp [buildLoop]
    | some j =>
      simp only [buildLoop]
      cases hs : sel (src.data (some j)) with
      | none => exact ih _ _ _
      | some y =>
        simp only []
        have ha := dlist_addLast_status dst y (m.check (Ptr.valid src.nodes.length (some j)))
        by_cases hok : (addLast dst y (m.check (Ptr.valid src.nodes.length (some j)))).1 = .ok
        · simp only [hok, bne_self_eq_false, Bool.false_eq_true, if_false]; exact ih _ _ _
        · rcases ha with ha | ha
          · exact absurd ha hok
          · simp [ha]

theorem dlist_addAllToEmpty_status (l1 l2 : Chain) (m : Mem) :
    (addAllToEmpty l1 l2 m).1 = .ok ∨ (addAllToEmpty l1 l2 m).1 = .errAlloc := by
  unfold addAllToEmpty
  simp only [apply_ite Prod.fst]
  repeat' split
  all_goals simp

end

/-! ## `cc_slist.c` -/
section
open CC.SList

theorem slist_addLast_status (l : Chain) (x : Nat) (m : Mem) : (addLast l x m).1 = .ok ∨ (addLast l x m).1 = .errAlloc := by
  unfold addLast
  simp only [apply_ite Prod.fst]
  repeat' split
  all_goals simp

theorem slist_buildLoop_status (src : Chain) (sel : Nat → Option Nat) : ∀ (k : Nat) (node : Ptr) (dst : Chain) (m : Mem),
    (buildLoop src sel k node dst m).1 = .ok ∨ (buildLoop src sel k node dst m).1 = .errAlloc := by
  intro k
  induction k with
  | zero => intro node dst m; simp [buildLoop]
  | succ k ih =>
    intro node dst m
    cases node with
    | none => simp [buildLoop]
    | some j =>
      simp only [buildLoop]
      cases hs : sel (src.data (some j)) with
      | none => exact ih _ _ _
      | some y =>
        simp only []
        have ha := slist_addLast_status dst y (m.check (Ptr.valid src.nodes.length (some j)))
        by_cases hok : (addLast dst y (m.check (Ptr.valid src.nodes.length (some j)))).1 = .ok
        · simp only [hok, bne_self_eq_false, Bool.false_eq_true, if_false]; exact ih _ _ _
        · rcases ha with ha | ha
          · exact absurd ha hok
          · simp [ha]

end
end CC.GuardsAux
