import CollectionsC.Proofs.TreeTableMem
/-! Histories of table calls and sessions that interleave them with iterator sessions: the per-call
bundle `StepOK` and the iterator simulation `iterRun_sim` composed over whole runs, for every
allocator schedule and both allocator triples. -/
namespace CC.TreeTable
open CC.Spec CC.Spec.OrdMap
variable {cmp : Nat → Nat → Int}

/-- what the ideal map is told about the allocator: the request of a call is refused iff the table
lives on the configured triple and the schedule of the call starts with a refusal (the C library is
never made to refuse) -/
def refusedOfT (tr : Triple) (sched : List Bool) : Bool :=
  match tr with
  | .conf => sched.head? == some true
  | .libc => false

theorem begin_allocT (m : Mem) (tr : Triple) (sched : List Bool) :
    (!((m.begin sched).allocT tr).1) = refusedOfT tr sched := by
  cases tr with
  | conf =>
    simp only [Mem.allocT_conf, refusedOfT]
    unfold Mem.begin Mem.alloc
    rcases sched with _ | ⟨_ | _, rest⟩ <;> rfl
  | libc => rfl

theorem liveOf_begin (m : Mem) (tr : Triple) (sched : List Bool) : liveOf (m.begin sched) tr = liveOf m tr := by
  cases tr <;> rfl

/-- **all histories of table calls** -/
theorem run_ok (ho : TotalOrder cmp) (ops : List (Op × List Bool)) {t : TreeTable} (h : t.Inv cmp)
    (m : Mem) (hm : Owns t m) :
    (t.run cmp ops m).1 = (OrdMap.run cmp t.abs (ops.map fun p => (p.1, refusedOfT t.triple p.2))).1 ∧
    (t.run cmp ops m).2.2.1.abs = (OrdMap.run cmp t.abs (ops.map fun p => (p.1, refusedOfT t.triple p.2))).2 ∧
    (t.run cmp ops m).2.2.1.Inv cmp ∧
    (t.run cmp ops m).2.2.2.fault = m.fault ∧
    liveOf (t.run cmp ops m).2.2.2 t.triple + t.size = liveOf m t.triple + (t.run cmp ops m).2.2.1.size ∧
    (t.run cmp ops m).2.2.1.triple = t.triple ∧
    Owns (t.run cmp ops m).2.2.1 (t.run cmp ops m).2.2.2 ∧
    ∀ p ∈ (t.run cmp ops m).2.1, p.2 ≤ 2 * Nat.log2 (p.1 + 1) + 2 := by
  induction ops generalizing t m with
  | nil => exact ⟨rfl, rfl, h, rfl, rfl, rfl, hm, fun _ hp => by simp [TreeTable.run] at hp⟩
  | cons x ops ih =>
    obtain ⟨op, sched⟩ := x
    have hm' : Owns t (m.begin sched) := by unfold Owns at hm ⊢; rw [liveOf_begin]; exact hm
    have s := step_ok ho h op (m.begin sched) hm'
    have hl := s.ledger
    rw [liveOf_begin] at hl
    obtain ⟨a, b, c, d, e, f, g, i⟩ := ih s.inv (t.step cmp op (m.begin sched)).2.2.1 s.owns
    rw [s.abs, begin_allocT, s.triple] at a b
    rw [s.triple] at e f
    simp only [TreeTable.run, OrdMap.run, List.map_cons]
    refine ⟨by rw [a, s.out, begin_allocT], b, c, by rw [d, s.nofault]; rfl, by omega, f, g, ?_⟩
    intro p hp
    rcases List.mem_cons.1 hp with rfl | hp
    · exact s.cmps
    · exact i p hp

/-- **sessions**: histories of table calls interleaved with iterator sessions (removal through the
iterator included) refine the ideal map; the fault flag stays clear when every iterator session
respects the precondition of `iter_remove` -/
theorem session_ok (ho : TotalOrder cmp) (segs : List Segment) {t : TreeTable} (h : t.Inv cmp)
    (m : Mem) (hm : Owns t m) :
    (t.runSession cmp segs m).1 = (OrdMap.runSession cmp (refusedOfT t.triple) t.abs segs).1 ∧
    (t.runSession cmp segs m).2.1.abs = (OrdMap.runSession cmp (refusedOfT t.triple) t.abs segs).2 ∧
    (t.runSession cmp segs m).2.1.Inv cmp ∧
    (SessionValid cmp t segs m → (t.runSession cmp segs m).2.2.fault = m.fault) ∧
    liveOf (t.runSession cmp segs m).2.2 t.triple + t.size = liveOf m t.triple + (t.runSession cmp segs m).2.1.size ∧
    (t.runSession cmp segs m).2.1.triple = t.triple ∧
    Owns (t.runSession cmp segs m).2.1 (t.runSession cmp segs m).2.2 := by
  induction segs generalizing t m with
  | nil => exact ⟨rfl, rfl, h, fun _ => rfl, rfl, rfl, hm⟩
  | cons seg rest ih =>
    cases seg with
    | calls ops =>
      obtain ⟨a, b, c, d, e, f, g, _⟩ := run_ok ho ops h m hm
      obtain ⟨a', b', c', d', e', f', g'⟩ := ih c (t.run cmp ops m).2.2.2 g
      rw [b, f] at a' b'
      rw [f] at e' f'
      simp only [runSession, OrdMap.runSession, SessionValid]
      exact ⟨by rw [a, a'], b', c', fun hv => by rw [d' hv, d], by omega, f', g'⟩
    | iterate prog =>
      obtain ⟨a, b, c, _, d, e, f⟩ := iterRun_sim ho prog h (iterInit_rel t) m hm
      have g := iterRun_owns ho prog h (iterInit_rel t) m hm
      obtain ⟨a', b', c', d', e', f', g'⟩ := ih c (t.iterRun cmp t.iterInit prog m).2.2.2 g
      rw [b, f] at a' b'
      rw [f] at e' f'
      simp only [runSession, OrdMap.runSession, SessionValid]
      exact ⟨by rw [a, a'], b', c', fun hv => by rw [d' hv.2, d hv.1], by omega, f', g'⟩

end CC.TreeTable

namespace CC.TreeSet
open CC.Spec CC.Spec.OrdMap
variable {cmp : Nat → Nat → Int}

abbrev apiOuts := OrdSet.apiOuts

/-- **all histories of set calls**, full results (status, out-value, callback sequence) -/
theorem run_ok (ho : TotalOrder cmp) (ops : List (OrdSet.Op × List Bool)) {s : TreeSet} (h : s.Inv cmp)
    (m : Mem) (hm : TreeTable.Owns s.t m) :
    (s.run cmp ops m).1 = apiOuts (ops.map (·.1))
      (OrdSet.run cmp s.t.abs (ops.map fun p => (p.1, TreeTable.refusedOfT s.triple p.2))).1 ∧
    (s.run cmp ops m).2.2.1.t.abs = (OrdSet.run cmp s.t.abs (ops.map fun p => (p.1, TreeTable.refusedOfT s.triple p.2))).2 ∧
    (s.run cmp ops m).2.2.1.Inv cmp ∧
    (s.run cmp ops m).2.2.2.fault = m.fault ∧
    TreeTable.liveOf (s.run cmp ops m).2.2.2 s.triple + s.t.size =
      TreeTable.liveOf m s.triple + (s.run cmp ops m).2.2.1.t.size ∧
    (s.run cmp ops m).2.2.1.triple = s.triple ∧
    TreeTable.Owns (s.run cmp ops m).2.2.1.t (s.run cmp ops m).2.2.2 ∧
    ∀ p ∈ (s.run cmp ops m).2.1, p.2 ≤ 2 * Nat.log2 (p.1 + 1) + 2 := by
  induction ops generalizing s m with
  | nil => exact ⟨rfl, rfl, h, rfl, rfl, rfl, hm, fun _ hp => by simp [TreeSet.run] at hp⟩
  | cons x ops ih =>
    obtain ⟨op, sched⟩ := x
    have hm' : TreeTable.Owns s.t (m.begin sched) := by
      unfold TreeTable.Owns at hm ⊢; rw [TreeTable.liveOf_begin]; exact hm
    have k := step_ok ho h op (m.begin sched) hm'
    have hl := k.ledger
    rw [TreeTable.liveOf_begin] at hl
    obtain ⟨a, b, c, d, e, f, g, i⟩ := ih k.inv (s.step cmp op (m.begin sched)).2.2.1 k.owns
    rw [k.abs, TreeTable.begin_allocT, k.triple] at a b
    rw [k.triple] at e f
    simp only [TreeSet.run, OrdSet.run, List.map_cons, apiOuts, OrdSet.apiOuts]
    refine ⟨by rw [a, k.out, TreeTable.begin_allocT], b, c, by rw [d, k.nofault]; rfl, by omega, f, g, ?_⟩
    intro p hp
    rcases List.mem_cons.1 hp with rfl | hp
    · exact k.cmps
    · exact i p hp

end CC.TreeSet

/-! ### constructors and destructors on either allocator triple -/
namespace CC.TreeTable
open CC.Spec CC.Spec.OrdMap
variable {cmp : Nat → Nat → Int}

/-- the constructor on either triple: success establishes the invariant, the empty content, the
triple and ledger consistency with exactly two new blocks; a refusal yields no object and leaves the
ledger of that triple as it was -/
theorem newT_spec (tr : Triple) (m0 : Mem) :
    (∀ t m1, TreeTable.newT tr m0 = (.ok, some t, m1) →
        t.Inv cmp ∧ t.abs = [] ∧ t.triple = tr ∧ liveOf m1 tr = liveOf m0 tr + 2 ∧ m1.fault = m0.fault ∧ Owns t m1) ∧
    ((TreeTable.newT tr m0).1 = .ok ∨ (TreeTable.newT tr m0).1 = .errAlloc) ∧
    ((TreeTable.newT tr m0).1 = .errAlloc → (TreeTable.newT tr m0).2.1 = none ∧
        liveOf (TreeTable.newT tr m0).2.2 tr = liveOf m0 tr ∧ (TreeTable.newT tr m0).2.2.fault = m0.fault) := by
  unfold TreeTable.newT; dsimp only
  rcases Bool.eq_false_or_eq_true (m0.allocT tr).1 with h1 | h1
  · obtain ⟨e1a, e1b⟩ := allocT_true m0 tr h1
    rcases Bool.eq_false_or_eq_true ((m0.allocT tr).2.allocT tr).1 with h2 | h2
    · obtain ⟨e2a, e2b⟩ := allocT_true (m0.allocT tr).2 tr h2
      simp only [h1, h2, Bool.not_true, Bool.false_eq_true, if_false, Prod.mk.injEq, Option.some.injEq,
        true_and, and_imp, reduceCtorEq, or_false, false_implies, and_true]
      intro t m1 ht hm; subst ht; subst hm
      refine ⟨⟨List.Pairwise.nil, ⟨trivial, rfl⟩, rfl⟩, rfl, rfl, by omega, by rw [e2b, e1b], ?_⟩
      unfold Owns; show (0 : Nat) + 2 ≤ liveOf _ tr; omega
    · obtain ⟨e2a, e2b⟩ := allocT_false (m0.allocT tr).2 tr h2
      obtain ⟨e3a, e3b⟩ := freeT_spec ((m0.allocT tr).2.allocT tr).2 tr (by omega)
      simp only [h1, h2, Bool.not_true, Bool.not_false, Bool.false_eq_true, if_false, if_true, Prod.mk.injEq,
        reduceCtorEq, false_and, implies_true, or_true, true_implies, true_and]
      exact ⟨fun _ _ hf => hf.elim, by omega, by rw [e3b, e2b, e1b]⟩
  · have e1 := allocT_false m0 tr h1
    simp only [h1, Bool.not_false, if_true, Prod.mk.injEq, reduceCtorEq, false_and, implies_true, or_true,
      true_implies, true_and]
    exact ⟨fun _ _ hf => hf.elim, e1⟩

/-- `destroy` releases exactly the blocks the table owns, on the table's triple -/
theorem destroy_spec {t : TreeTable} (h : t.Inv cmp) (m : Mem) (hm : Owns t m) :
    liveOf (t.destroy m) t.triple + t.size + 2 = liveOf m t.triple ∧ (t.destroy m).fault = m.fault := by
  unfold Owns at hm
  have a := freeN_spec t.root.size m t.triple (by rw [← h.2.2]; omega)
  have b := freeT_spec (freeN m t.triple t.root.size) t.triple (by rw [a.1, ← h.2.2]; omega)
  have c := freeT_spec ((freeN m t.triple t.root.size).freeT t.triple) t.triple (by rw [b.1, a.1, ← h.2.2]; omega)
  unfold TreeTable.destroy
  rw [c.1, c.2, b.1, b.2, a.1, a.2, ← h.2.2]
  exact ⟨by omega, rfl⟩
end CC.TreeTable

namespace CC.TreeSet
open CC.Spec CC.Spec.OrdMap
variable {cmp : Nat → Nat → Int}

/-- ledger consistency of a set: the table's blocks and the set header -/
def Owns (s : TreeSet) (m : Mem) : Prop := s.t.size + 3 ≤ TreeTable.liveOf m s.triple

theorem newT_spec (tr : Triple) (m0 : Mem) :
    (∀ s m1, TreeSet.newT tr m0 = (.ok, some s, m1) →
        s.Inv cmp ∧ s.t.abs = [] ∧ s.triple = tr ∧ TreeTable.liveOf m1 tr = TreeTable.liveOf m0 tr + 3 ∧
        m1.fault = m0.fault ∧ Owns s m1) ∧
    ((TreeSet.newT tr m0).1 = .ok ∨ (TreeSet.newT tr m0).1 = .errAlloc) ∧
    ((TreeSet.newT tr m0).1 = .errAlloc → (TreeSet.newT tr m0).2.1 = none ∧
        TreeTable.liveOf (TreeSet.newT tr m0).2.2 tr = TreeTable.liveOf m0 tr ∧ (TreeSet.newT tr m0).2.2.fault = m0.fault) := by
  have k := TreeTable.newT_spec (cmp := cmp) tr (m0.allocT tr).2
  unfold TreeSet.newT; dsimp only
  rcases Bool.eq_false_or_eq_true (m0.allocT tr).1 with h1 | h1
  · obtain ⟨e1a, e1b⟩ := TreeTable.allocT_true m0 tr h1
    simp only [h1, Bool.not_true, Bool.false_eq_true, if_false]
    generalize hr : TreeTable.newT tr (m0.allocT tr).2 = r at k
    obtain ⟨st, o, m'⟩ := r
    obtain ⟨k1, k2, k3⟩ := k
    simp only at k2 k3
    rcases k2 with hst | hst
    · subst hst
      cases o with
      | some t =>
        obtain ⟨a, b, c, d, e, f⟩ := k1 t m' rfl
        simp only [Prod.mk.injEq, Option.some.injEq, true_and, and_imp, reduceCtorEq, or_false,
          false_implies, and_true]
        intro s m1 hs hm; subst hs; subst hm
        refine ⟨⟨a, fun x hx => by rw [show t.root.toList = t.abs from rfl, b] at hx; simp at hx, c⟩, b, rfl,
          by omega, by rw [e, e1b], ?_⟩
        unfold Owns; show t.size + 3 ≤ TreeTable.liveOf _ tr
        have : t.size = 0 := by rw [a.size_eq, b]; rfl
        omega
      | none =>
        -- `ok` without an object does not happen
        exfalso
        unfold TreeTable.newT at hr; dsimp only at hr
        split at hr
        · simp at hr
        · split at hr <;> simp at hr
    · subst hst
      obtain ⟨a, b, c⟩ := k3 rfl
      obtain ⟨e3a, e3b⟩ := TreeTable.freeT_spec m' tr (by omega)
      simp only [Prod.mk.injEq, reduceCtorEq, false_and, implies_true, or_true, true_implies, true_and]
      exact ⟨fun _ _ hf => hf.elim, by omega, by rw [e3b, c, e1b]⟩
  · have e1 := TreeTable.allocT_false m0 tr h1
    simp only [h1, Bool.not_false, if_true, Prod.mk.injEq, reduceCtorEq, false_and, implies_true, or_true,
      true_implies, true_and]
    exact ⟨fun _ _ hf => hf.elim, e1⟩

theorem destroy_spec {s : TreeSet} (h : s.Inv cmp) (m : Mem) (hm : Owns s m) :
    TreeTable.liveOf (s.destroy m) s.triple + s.t.size + 3 = TreeTable.liveOf m s.triple ∧
    (s.destroy m).fault = m.fault := by
  unfold Owns at hm
  have a := TreeTable.destroy_spec h.1 m (by unfold TreeTable.Owns; rw [h.2.2]; omega)
  rw [h.2.2] at a
  have b := TreeTable.freeT_spec (s.t.destroy m) s.triple (by omega)
  unfold TreeSet.destroy
  rw [b.1, b.2]
  exact ⟨by omega, a.2⟩
end CC.TreeSet

/-! ### comparator budget of sessions; sessions of a set -/
namespace CC.TreeTable
open CC.Spec CC.Spec.OrdMap
variable {cmp : Nat → Nat → Int}

/-- the comparator budget holds for every table call of a session -/
theorem session_counts_ok (ho : TotalOrder cmp) (segs : List Segment) {t : TreeTable} (h : t.Inv cmp)
    (m : Mem) (hm : Owns t m) :
    ∀ p ∈ t.sessionCounts cmp segs m, p.2 ≤ 2 * Nat.log2 (p.1 + 1) + 2 := by
  induction segs generalizing t m with
  | nil => intro p hp; simp [sessionCounts] at hp
  | cons seg rest ih =>
    cases seg with
    | calls ops =>
      obtain ⟨_, _, c, _, _, _, g, i⟩ := run_ok ho ops h m hm
      intro p hp
      simp only [sessionCounts, List.mem_append] at hp
      rcases hp with hp | hp
      · exact i p hp
      · exact ih c _ g p hp
    | iterate prog =>
      obtain ⟨_, _, c, _, _, _, _⟩ := iterRun_sim ho prog h (iterInit_rel t) m hm
      have g := iterRun_owns ho prog h (iterInit_rel t) m hm
      intro p hp
      simp only [sessionCounts] at hp
      exact ih c _ g p hp
end CC.TreeTable

namespace CC.Spec.OrdMap
/-- an ideal iteration only erases entries -/
theorem Cursor.run_sublist (c : Cursor) (f : OrdMap) (prog : List IterOp) : (c.run f prog).2.2.Sublist f := by
  induction prog generalizing c f with
  | nil => exact List.Sublist.refl f
  | cons op rest ih =>
    simp only [Cursor.run]
    refine (ih _ _).trans ?_
    cases op with
    | next => exact List.Sublist.refl f
    | remove =>
      simp only [Cursor.step, Cursor.remove]
      cases c.last with
      | none => exact List.Sublist.refl f
      | some k => exact List.filter_sublist
end CC.Spec.OrdMap

namespace CC.TreeSet
open CC.Spec CC.Spec.OrdMap
variable {cmp : Nat → Nat → Int}

theorem owns_table {s : TreeSet} (h : s.Inv cmp) {m : Mem} (hm : TreeSet.Owns s m) : TreeTable.Owns s.t m := by
  unfold TreeSet.Owns at hm; unfold TreeTable.Owns; rw [h.2.2]; omega

/-- **set iterator programs**: statuses and yielded elements of the ideal cursor, ideal final content, the
*set* invariant (table invariant, all values the dummy, one triple), fault-freedom inside the contract,
ledger balance and ledger consistency — everything needed to go on with set calls -/
theorem iterRun_ok (ho : TotalOrder cmp) (prog : List IterOp) {s : TreeSet} (h : s.Inv cmp) (m : Mem)
    (hm : TreeTable.Owns s.t m) :
    (s.iterRun cmp s.iterInit prog m).1 =
      ((Cursor.init s.t.abs).run s.t.abs prog).1.map (fun o => { st := o.st, val := o.val }) ∧
    (s.iterRun cmp s.iterInit prog m).2.1.t.abs = ((Cursor.init s.t.abs).run s.t.abs prog).2.2 ∧
    (s.iterRun cmp s.iterInit prog m).2.1.Inv cmp ∧
    (TreeTable.IterValid cmp s.t s.iterInit prog m → (s.iterRun cmp s.iterInit prog m).2.2.2.fault = m.fault) ∧
    TreeTable.liveOf (s.iterRun cmp s.iterInit prog m).2.2.2 s.triple + s.t.size =
      TreeTable.liveOf m s.triple + (s.iterRun cmp s.iterInit prog m).2.1.t.size ∧
    (s.iterRun cmp s.iterInit prog m).2.1.triple = s.triple ∧
    TreeTable.Owns (s.iterRun cmp s.iterInit prog m).2.1.t (s.iterRun cmp s.iterInit prog m).2.2.2 := by
  obtain ⟨a, b, c, _, d, e, f⟩ := TreeTable.iterRun_sim ho prog h.1 (TreeTable.iterInit_rel s.t) m hm
  have g := TreeTable.iterRun_owns ho prog h.1 (TreeTable.iterInit_rel s.t) m hm
  obtain ⟨e1, e2, e3, e4⟩ := iterRun_eq_table (cmp := cmp) prog s s.iterInit m
  have e5 : (s.iterRun cmp s.iterInit prog m).2.2.2 = (s.t.iterRun cmp s.t.iterInit prog m).2.2.2 :=
    congrArg Prod.snd e4
  have e2' : (s.iterRun cmp s.iterInit prog m).2.1.t = (s.t.iterRun cmp s.t.iterInit prog m).2.1 := e2
  refine ⟨?_, ?_, ⟨?_, ?_, ?_⟩, ?_, ?_, e3, ?_⟩
  · rw [e1]; show List.map _ (s.t.iterRun cmp s.t.iterInit prog m).1 = _; rw [a]
  · rw [e2']; exact b
  · rw [e2']; exact c
  · intro x hx
    rw [e2'] at hx
    have : x ∈ (s.t.iterRun cmp s.t.iterInit prog m).2.1.abs := hx
    rw [b] at this
    exact h.2.1 x ((Cursor.run_sublist _ _ prog).subset this)
  · rw [e2', e3, f, h.2.2]
  · rw [e5]; exact d
  · rw [e5, e2', ← h.2.2]; exact e
  · rw [e5, e2']; exact g

/-- **sessions of a set**: histories of set calls interleaved with iterator sessions -/
theorem session_ok (ho : TotalOrder cmp) (segs : List OrdSet.Segment) {s : TreeSet} (h : s.Inv cmp)
    (m : Mem) (hm : TreeTable.Owns s.t m) :
    (s.runSession cmp segs m).1 = (OrdSet.runSession cmp (TreeTable.refusedOfT s.triple) s.t.abs segs).1 ∧
    (s.runSession cmp segs m).2.1.t.abs = (OrdSet.runSession cmp (TreeTable.refusedOfT s.triple) s.t.abs segs).2 ∧
    (s.runSession cmp segs m).2.1.Inv cmp ∧
    (SessionValid cmp s segs m → (s.runSession cmp segs m).2.2.fault = m.fault) ∧
    TreeTable.liveOf (s.runSession cmp segs m).2.2 s.triple + s.t.size =
      TreeTable.liveOf m s.triple + (s.runSession cmp segs m).2.1.t.size ∧
    (s.runSession cmp segs m).2.1.triple = s.triple ∧
    TreeTable.Owns (s.runSession cmp segs m).2.1.t (s.runSession cmp segs m).2.2 := by
  induction segs generalizing s m with
  | nil => exact ⟨rfl, rfl, h, fun _ => rfl, rfl, rfl, hm⟩
  | cons seg rest ih =>
    cases seg with
    | calls ops =>
      obtain ⟨a, b, c, d, e, f, g, _⟩ := run_ok ho ops h m hm
      obtain ⟨a', b', c', d', e', f', g'⟩ := ih c (s.run cmp ops m).2.2.2 g
      rw [b, f] at a' b'
      rw [f] at e' f'
      simp only [runSession, OrdSet.runSession, SessionValid]
      exact ⟨by rw [a, a'], b', c', fun hv => by rw [d' hv, d], by omega, f', g'⟩
    | iterate prog =>
      obtain ⟨a, b, c, d, e, f, g⟩ := iterRun_ok ho prog h m hm
      obtain ⟨a', b', c', d', e', f', g'⟩ := ih c (s.iterRun cmp s.iterInit prog m).2.2.2 g
      rw [b, f] at a' b'
      rw [f] at e' f'
      simp only [runSession, OrdSet.runSession, SessionValid]
      exact ⟨by rw [a, a'], b', c', fun hv => by rw [d' hv.2, d hv.1], by omega, f', g'⟩
end CC.TreeSet
