import CollectionsC.Proofs.PSListIter
import CollectionsC.Proofs.PListIter
/-! Pointer-level model of `cc_slist.c`, part 8: whole iterator programs on the raw links. -/
namespace CC.PSList
open CC
open CC.PList (Heap St Hdr PNode Cell nd setNext setData optSetNext upd idsOf dataOf nxt lastOr PIOp)
open CC.PList

/-- one call of an iterator program (`cc_slist_iter_add` without a current element is outside the contract and not executed) -/
def spStep (s : St) (l : Hdr) (it : PIter) (op : PIOp) (m : Mem) : St × Hdr × PIter × Mem :=
  match op with
  | .next => (s, l, (piterNext s.heap it).2.2, m)
  | .add x =>
    match it.current with
    | none => (s, l, it, m)
    | some _ => let r := piterAdd s l it x m; (r.2.1, r.2.2.1, r.2.2.2.1, r.2.2.2.2)
  | .remove => let r := piterRemove s l it m; (r.2.2.1, r.2.2.2.1, r.2.2.2.2.1, r.2.2.2.2.2)
  | .replace x => let r := piterReplace s it x; (r.2.2, l, it, m)

def spRun (s : St) (l : Hdr) (it : PIter) (ops : List PIOp) (m : Mem) : St × Hdr × PIter × Mem :=
  match ops with
  | [] => (s, l, it, m)
  | op :: ops => let r := spStep s l it op m; spRun r.1 r.2.1 r.2.2.1 ops r.2.2.2

/-- what holds between the calls of an iterator program -/
structure SProgInv (s : St) (l : Hdr) (it : PIter) (cs : List Cell) : Prop where
  repr : SRepr s.heap l cs
  bound : ∀ y, y ∈ idsOf cs → y < s.fresh
  rel : ∃ pre rest, SItRel cs pre rest it

theorem spStep_inv (s : St) (l : Hdr) (it : PIter) (op : PIOp) (m : Mem) (cs : List Cell) (I : SProgInv s l it cs) :
    ∃ cs', SProgInv (spStep s l it op m).1 (spStep s l it op m).2.1 (spStep s l it op m).2.2.1 cs' := by
  obtain ⟨pre, rest, k⟩ := I.rel
  cases op with
  | next =>
    simp only [spStep]
    obtain ⟨n1, n2⟩ := piterNext_links I.repr k
    cases rest with
    | nil => rw [n1 rfl]; exact ⟨cs, I⟩
    | cons a rest' => exact ⟨cs, I.repr, I.bound, pre ++ [a], rest', (n2 a rest' rfl).2.2⟩
  | add x =>
    simp only [spStep]
    rcases k.cur with ⟨c0, _⟩ | ⟨pre', c, e1, e2, _⟩
    · simp only [c0]; exact ⟨cs, I⟩
    · subst e1
      simp only [e2]
      obtain ⟨ar, ag⟩ := piterAdd_links x m I.repr I.bound k e2
      by_cases ha : (m.allocT l.triple).1 = true
      · obtain ⟨_, _, gk, gr⟩ := ag ha
        exact ⟨_, gk.repr, gk.bound, _, _, gr⟩
      · have ha' : (m.allocT l.triple).1 = false := by simpa using ha
        rw [ar ha']; exact ⟨cs, I⟩
  | remove =>
    simp only [spStep]
    rcases k.cur with ⟨c0, _⟩ | ⟨pre', c, e1, e2, _⟩
    · rw [piterRemove_none m c0]; exact ⟨cs, I⟩
    · subst e1
      obtain ⟨_, _, _, uk, ur⟩ := piterRemove_links m I.repr I.bound k e2
      exact ⟨_, uk.repr, uk.bound, _, _, ur⟩
  | replace x =>
    simp only [spStep]
    rcases k.cur with ⟨c0, _⟩ | ⟨pre', c, e1, e2, _⟩
    · have : piterReplace s it x = (.errValueNotFound, none, s) := by unfold piterReplace; simp only [c0]
      rw [this]; exact ⟨cs, I⟩
    · subst e1
      obtain ⟨_, _, r', k', f, _⟩ := piterReplace_links x I.repr k e2
      have ecs : cs = pre' ++ c :: rest := by rw [k.split]; simp
      refine ⟨_, r', fun y hy => ?_, _, _, k'⟩
      rw [f]; exact I.bound y (by rw [ecs]; simpa [idsOf] using hy)

/-- **whole iterator programs of the singly linked list**: representation (well-formedness) and the iterator relation are
invariants -/
theorem spRun_inv : ∀ (ops : List PIOp) (s : St) (l : Hdr) (it : PIter) (m : Mem) (cs : List Cell), SProgInv s l it cs →
    ∃ cs', SProgInv (spRun s l it ops m).1 (spRun s l it ops m).2.1 (spRun s l it ops m).2.2.1 cs'
  | [], s, l, it, m, cs, I => ⟨cs, I⟩
  | op :: ops, s, l, it, m, cs, I => by
    obtain ⟨cs1, I1⟩ := spStep_inv s l it op m cs I
    exact spRun_inv ops _ _ _ _ cs1 I1

/-- `next`, `current`, `prev` of a related iterator are NULL or name live nodes of the list -/
theorem SProgInv.no_dangling {s : St} {l : Hdr} {it : PIter} {cs : List Cell} (I : SProgInv s l it cs) :
    (∀ n, it.next = some n → n ∈ idsOf cs ∧ (s.heap n).isSome = true) ∧
    (∀ n, it.current = some n → n ∈ idsOf cs ∧ (s.heap n).isSome = true) ∧
    (∀ n, it.prev = some n → n ∈ idsOf cs ∧ (s.heap n).isSome = true) := by
  obtain ⟨pre, rest, k⟩ := I.rel
  have e := k.split
  have live : ∀ n, n ∈ idsOf cs → n ∈ idsOf cs ∧ (s.heap n).isSome = true := fun n hn => ⟨hn, SSeg_live I.repr.seg n hn⟩
  have inpre : ∀ n, n ∈ idsOf pre → n ∈ idsOf cs := fun n hn => by rw [e]; simp [hn]
  refine ⟨fun n h => live n ?_, fun n h => live n ?_, fun n h => live n ?_⟩
  · rw [k.nxt] at h; rw [e]; simp only [idsOf_append, List.mem_append]; exact Or.inr (nxt_mem h)
  · rcases k.cur with ⟨c0, _⟩ | ⟨pre', c, e1, e2, _⟩
    · rw [c0] at h; cases h
    · rw [e2] at h; cases h; exact inpre _ (by rw [e1]; simp)
  · rcases k.cur with ⟨_, p0⟩ | ⟨pre', c, e1, _, e3⟩
    · rw [p0] at h; exact inpre _ (lastOr_mem h)
    · rw [e3] at h; exact inpre _ (by rw [e1]; simp [lastOr_mem h])

end CC.PSList
