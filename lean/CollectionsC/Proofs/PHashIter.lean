import CollectionsC.Proofs.PHashClear
import CollectionsC.Proofs.HashTableIter
/-! Pointer-level hash-table iterator: `bucket_index`, `prev_entry`, `next_entry` as entry ids.  The
saved ids stay valid (H3 at pointer level) and every step commutes with the iterator of the bucket-list
model, which names entries by their keys. -/
namespace CC.PHash
open CC CC.HT

/-- the iterator's saved pointers against the shape: `next_entry` is an entry of chain `bucket_index`,
`prev_entry` is live, and the two are different entries -/
structure ItOk (t : PTable) (idss : List (List Nat)) (it : PIter) : Prop where
  next_in : ∀ id, it.next = some id → id ∈ idss.getD it.bucketIndex []
  prev_live : ∀ id, it.prev = some id → (t.heap.get id).isSome = true
  apart : ∀ id, it.prev = some id → it.next ≠ some id

/-- no two live entries carry the same key -/
def KeysDistinct (t : PTable) (idss : List (List Nat)) : Prop :=
  (idss.flatten.map (fun id => (nd t.heap id).key)).Nodup

theorem nodup_map_inj {α β : Type} {f : α → β} {l : List α} (h : (l.map f).Nodup) {a b : α}
    (ha : a ∈ l) (hb : b ∈ l) (hf : f a = f b) : a = b := by
  induction l with
  | nil => cases ha
  | cons x l ih =>
    rw [List.map_cons, List.nodup_cons] at h
    rcases List.mem_cons.mp ha with rfl | ha'
    · rcases List.mem_cons.mp hb with rfl | hb'
      · rfl
      · exact absurd (List.mem_map.mpr ⟨b, hb', hf.symm⟩) h.1
    · rcases List.mem_cons.mp hb with rfl | hb'
      · exact absurd (List.mem_map.mpr ⟨a, ha', hf⟩) h.1
      · exact ih h.2 ha' hb'

theorem findBucketFrom_comm {t : PTable} {idss : List (List Nat)} (hs : Shape t idss) (s : Nat) :
    t.findBucketFrom s = (PTable.toTable t).findBucketFrom s := by
  unfold PTable.findBucketFrom HashTable.findBucketFrom
  have : (fun i => (t.bucket i).isSome) = (fun i => !((PTable.toTable t).bucket i).isEmpty) := by
    funext i
    rw [hs.bucket_eq i]
    have := IsChain.head (hs.chains.get i)
    rw [show t.bucket i = t.buckets.getD i none from rfl, this]
    cases idss.getD i [] <;> rfl
  rw [this]
  rfl

theorem head_bucket {t : PTable} {idss : List (List Nat)} (hs : Shape t idss) (i : Nat) :
    t.bucket i = (idss.getD i []).head? := IsChain.head (hs.chains.get i)

theorem head_key {t : PTable} {idss : List (List Nat)} (hs : Shape t idss) (i : Nat) :
    (t.bucket i).map (fun id => (nd t.heap id).key) = ((PTable.toTable t).bucket i).head?.map (·.key) := by
  rw [hs.bucket_eq i, head_bucket hs i]
  cases idss.getD i [] <;> rfl

/-- `cc_hashtable_iter_init` -/
theorem iterInit_spec {t : PTable} {idss : List (List Nat)} (hs : Shape t idss) (m : Mem) :
    (t.toIter (t.iterInit m).1, (t.iterInit m).2) = (PTable.toTable t).iterInit m ∧
    ItOk t idss (t.iterInit m).1 := by
  unfold PTable.iterInit HashTable.iterInit
  rw [findBucketFrom_comm hs, toTable_len]
  have hcap : (PTable.toTable t).capacity = t.capacity := rfl
  rw [hcap]
  cases hf : (PTable.toTable t).findBucketFrom 0 with
  | none =>
    simp only
    exact ⟨rfl, ⟨fun id h => (by cases h), fun id h => (by cases h), fun id h => (by cases h)⟩⟩
  | some i =>
    simp only
    refine ⟨?_, ⟨fun id h => ?_, fun id h => (by cases h), fun id h => (by cases h)⟩⟩
    · unfold PTable.toIter
      simp only [Option.map_none]
      rw [head_key hs i]
    · simp only at h
      rw [head_bucket hs i] at h
      exact List.mem_of_mem_head? h

/-- `cc_hashtable_iter_next` -/
theorem iterNext_spec {t : PTable} {idss : List (List Nat)} (hs : Shape t idss) (hk : KeysDistinct t idss)
    (it : PIter) (hit : ItOk t idss it) (m : Mem) :
    ((t.iterNext it m).1, (t.iterNext it m).2.1.map (fun id => toEntry (nd t.heap id)),
      t.toIter (t.iterNext it m).2.2.1, (t.iterNext it m).2.2.2) = (PTable.toTable t).iterNext (t.toIter it) m ∧
    ItOk t idss (t.iterNext it m).2.2.1 ∧
    (∀ id, (t.iterNext it m).2.1 = some id → it.next = some id ∧ (t.iterNext it m).2.2.1.prev = some id) := by
  cases hn : it.next with
  | none =>
    have hr : t.iterNext it m = (.iterEnd, none, it, m) := by unfold PTable.iterNext; rw [hn]
    have hl : (PTable.toTable t).iterNext (t.toIter it) m = (.iterEnd, none, t.toIter it, m) := by
      unfold HashTable.iterNext
      rw [show (t.toIter it).next = none by unfold PTable.toIter; rw [hn]; rfl]
    rw [hr, hl]
    exact ⟨rfl, hit, fun id h => (by cases h)⟩
  | some id =>
    have hmem := hit.next_in id hn
    obtain ⟨pre, post, hd⟩ := List.append_of_mem hmem
    have hlive : (t.heap.get id).isSome = true := hs.mem_live _ id hmem
    have hc := hs.chains.get it.bucketIndex
    rw [hd] at hc
    obtain ⟨hnext, _⟩ := IsChain.next_eq hc
    have hnd := nodup_getD_of_nodup_flatten hs.nodup it.bucketIndex
    rw [hd] at hnd
    obtain ⟨_, hnd2, hdisj⟩ := List.nodup_append.mp hnd
    obtain ⟨hidpost, _⟩ := List.nodup_cons.mp hnd2
    -- the key of `next_entry` singles it out of its chain
    have hpre : ∀ x ∈ ents t.heap pre, x.key ≠ (nd t.heap id).key := by
      intro x hx
      obtain ⟨y, hy, rfl⟩ := List.mem_map.mp hx
      intro he
      have hy1 : y ∈ idss.flatten := mem_flatten_of_getD idss y it.bucketIndex (by rw [hd]; simp [hy])
      have hy2 : id ∈ idss.flatten := mem_flatten_of_getD idss id it.bucketIndex hmem
      have := nodup_map_inj hk hy1 hy2 he
      exact hdisj y hy id (by simp) this
    have hdw : ((PTable.toTable t).bucket it.bucketIndex).dropWhile (fun e => e.key != (nd t.heap id).key) =
        toEntry (nd t.heap id) :: ents t.heap post := by
      rw [hs.bucket_eq, hd, ents_append, ents_cons]
      exact HashTable.dropWhile_pre _ _ _ _ hpre rfl
    have hlnext : (t.toIter it).next = some (nd t.heap id).key := by unfold PTable.toIter; rw [hn]; rfl
    have hlbi : (t.toIter it).bucketIndex = it.bucketIndex := rfl
    cases post with
    | cons n post' =>
      have hnn : (nd t.heap id).next = some n := hnext
      have hr : t.iterNext it m = (.ok, some id, { it with prev := some id, next := some n }, m) := by
        unfold PTable.iterNext; rw [hn]; simp only [hlive, Mem.check_true, hnn]
      have hl : (PTable.toTable t).iterNext (t.toIter it) m =
          (.ok, some (toEntry (nd t.heap id)),
            { t.toIter it with prev := some (nd t.heap id).key, next := some (nd t.heap n).key }, m) := by
        unfold HashTable.iterNext
        rw [hlnext]
        simp only [hlbi, hdw, ents_cons]
        rfl
      rw [hr, hl]
      refine ⟨rfl, ⟨fun x hx => ?_, fun x hx => ?_, fun x hx => ?_⟩, fun x hx => ?_⟩
      · simp only [Option.some.injEq] at hx; subst hx
        simp only; rw [hd]; simp
      · simp only [Option.some.injEq] at hx; subst hx; exact hlive
      · simp only [Option.some.injEq] at hx; subst hx
        simp only [ne_eq, Option.some.injEq]
        rintro rfl
        exact hidpost (by simp)
      · simp only [Option.some.injEq] at hx; subst hx; exact ⟨rfl, rfl⟩
    | nil =>
      have hnn : (nd t.heap id).next = none := hnext
      have hdec : decide ((PTable.toTable t).capacity ≤ (PTable.toTable t).buckets.length) =
          decide (t.capacity ≤ t.buckets.length) := by rw [toTable_len]; rfl
      cases hf : (PTable.toTable t).findBucketFrom (it.bucketIndex + 1) with
      | none =>
        have hr : t.iterNext it m = (.ok, some id, { it with prev := some id, next := none },
            m.check (t.capacity ≤ t.buckets.length)) := by
          unfold PTable.iterNext; rw [hn]; simp only [hlive, Mem.check_true, hnn, findBucketFrom_comm hs, hf]
        have hl : (PTable.toTable t).iterNext (t.toIter it) m =
            (.ok, some (toEntry (nd t.heap id)),
              { t.toIter it with prev := some (nd t.heap id).key, next := none },
              m.check (t.capacity ≤ t.buckets.length)) := by
          unfold HashTable.iterNext
          rw [hlnext]
          simp only [hlbi, hdw, ents_nil, hf, hdec]
        rw [hr, hl]
        refine ⟨rfl, ⟨fun x hx => (by cases hx), fun x hx => ?_, fun x _ => (by simp)⟩, fun x hx => ?_⟩
        · simp only [Option.some.injEq] at hx; subst hx; exact hlive
        · simp only [Option.some.injEq] at hx; subst hx; exact ⟨rfl, rfl⟩
      | some i =>
        obtain ⟨hge, _, _, _⟩ := HashTable.findBucketFrom_some _ _ _ hf
        have hr : t.iterNext it m = (.ok, some id, { bucketIndex := i, prev := some id, next := t.bucket i },
            m.check (t.capacity ≤ t.buckets.length)) := by
          unfold PTable.iterNext; rw [hn]; simp only [hlive, Mem.check_true, hnn, findBucketFrom_comm hs, hf]
        have hl : (PTable.toTable t).iterNext (t.toIter it) m =
            (.ok, some (toEntry (nd t.heap id)),
              { bucketIndex := i, prev := some (nd t.heap id).key,
                next := ((PTable.toTable t).bucket i).head?.map (·.key) },
              m.check (t.capacity ≤ t.buckets.length)) := by
          unfold HashTable.iterNext
          rw [hlnext]
          simp only [hlbi, hdw, ents_nil, hf, hdec]
        rw [hr, hl]
        refine ⟨?_, ⟨fun x hx => ?_, fun x hx => ?_, fun x hx => ?_⟩, fun x hx => ?_⟩
        · simp only [Option.map_some]
          unfold PTable.toIter
          simp only [Option.map_some]
          rw [head_key hs i]
        · simp only at hx ⊢
          rw [head_bucket hs i] at hx
          exact List.mem_of_mem_head? hx
        · simp only [Option.some.injEq] at hx; subst hx; exact hlive
        · simp only [Option.some.injEq] at hx; subst hx
          simp only
          intro h2
          rw [head_bucket hs i] at h2
          have h3 := List.mem_of_mem_head? h2
          exact disjoint_of_nodup_flatten hs.nodup i it.bucketIndex (by omega) _ h3 hmem
        · simp only [Option.some.injEq] at hx; subst hx; exact ⟨rfl, rfl⟩

/-- `cc_hashtable_iter_remove` (H3): rejected without a `prev_entry`; otherwise exactly the entry
`prev_entry` points to is unlinked and released, `prev_entry` becomes NULL and `next_entry` still
names an entry of chain `bucket_index` -/
theorem iterRemove_spec (c : HCfg) {t : PTable} {idss : List (List Nat)} (hs : Shape t idss) (hg : Geo t)
    (hk : KeysDistinct t idss) (it : PIter) (hit : ItOk t idss it) (m : Mem) :
    ((t.iterRemove c it m).1, (t.iterRemove c it m).2.1, PTable.toTable (t.iterRemove c it m).2.2.1,
      (t.iterRemove c it m).2.2.1.toIter (t.iterRemove c it m).2.2.2.1, (t.iterRemove c it m).2.2.2.2) =
        (PTable.toTable t).iterRemove c (t.toIter it) m ∧
    ∃ idss', Shape (t.iterRemove c it m).2.2.1 idss' ∧ ItOk (t.iterRemove c it m).2.2.1 idss' (t.iterRemove c it m).2.2.2.1 ∧
      ((t.iterRemove c it m).1 ≠ .ok → (t.iterRemove c it m).2.2.1 = t ∧ (t.iterRemove c it m).2.2.2.1 = it ∧
        (t.iterRemove c it m).2.2.2.2 = m ∧ idss' = idss) ∧
      ((t.iterRemove c it m).1 = .ok → ∃ id, it.prev = some id ∧
        (t.iterRemove c it m).2.2.2.1 = { it with prev := none } ∧
        (t.iterRemove c it m).2.2.2.2 = m.freeT t.triple ∧
        Unlinked t (t.iterRemove c it m).2.2.1 idss idss' (nd t.heap id).key id) := by
  cases hp : it.prev with
  | none =>
    have hr : t.iterRemove c it m = (.errKeyNotFound, none, t, it, m) := by unfold PTable.iterRemove; rw [hp]
    have hl : (PTable.toTable t).iterRemove c (t.toIter it) m = (.errKeyNotFound, none, PTable.toTable t, t.toIter it, m) := by
      unfold HashTable.iterRemove
      rw [show (t.toIter it).prev = none by unfold PTable.toIter; rw [hp]; rfl]
    rw [hr, hl]
    exact ⟨rfl, idss, hs, hit, fun _ => ⟨rfl, rfl, rfl, rfl⟩, fun h => (by cases h)⟩
  | some id =>
    have hlive := hit.prev_live id hp
    obtain ⟨e, hno, hok⟩ := remove_spec c hs (nd t.heap id).key m (hg.index_lt _)
    have hr : t.iterRemove c it m = ((t.remove c (nd t.heap id).key m).1, (t.remove c (nd t.heap id).key m).2.1,
        (t.remove c (nd t.heap id).key m).2.2.1,
        if (t.remove c (nd t.heap id).key m).1 = .ok then { it with prev := none } else it,
        (t.remove c (nd t.heap id).key m).2.2.2) := by
      unfold PTable.iterRemove; rw [hp]; simp only [hlive, Mem.check_true]
    have hl : (PTable.toTable t).iterRemove c (t.toIter it) m =
        (((PTable.toTable t).remove c (nd t.heap id).key m).1, ((PTable.toTable t).remove c (nd t.heap id).key m).2.1,
         ((PTable.toTable t).remove c (nd t.heap id).key m).2.2.1,
         if ((PTable.toTable t).remove c (nd t.heap id).key m).1 = .ok then { t.toIter it with prev := none } else t.toIter it,
         ((PTable.toTable t).remove c (nd t.heap id).key m).2.2.2) := by
      unfold HashTable.iterRemove
      rw [show (t.toIter it).prev = some (nd t.heap id).key by unfold PTable.toIter; rw [hp]; rfl]
    rw [hr, hl, ← e]
    simp only
    by_cases hst : (t.remove c (nd t.heap id).key m).1 = .ok
    · obtain ⟨hm, idss', id', hu⟩ := hok hst
      have hid : id' = id := by
        refine nodup_map_inj hk ((hs.live id').mp hu.was_live) ((hs.live id).mp hlive) ?_
        exact hu.key_eq
      subst hid
      rw [if_pos hst, if_pos hst]
      have hsame : ∀ n, it.next = some n → (nd (t.remove c (nd t.heap id').key m).2.2.1.heap n).key = (nd t.heap n).key := by
        intro n hn
        have hne : n ≠ id' := by rintro rfl; exact hit.apart n hp hn
        exact congrArg Entry.key (hu.same n hne)
      refine ⟨?_, idss', hu.shape, ⟨fun n hn => ?_, fun n hn => (by cases hn), fun n hn => (by cases hn)⟩,
        fun h => absurd hst h, fun _ => ⟨id', rfl, rfl, hm, hu⟩⟩
      · congr 3
        unfold PTable.toIter
        simp only [Option.map_none]
        congr 1
        cases hn : it.next with
        | none => rfl
        | some n => simp only [Option.map_some]; rw [hsame n hn]
      · simp only at hn ⊢
        have hne : n ≠ id' := by rintro rfl; exact hit.apart n hp hn
        obtain ⟨i, pre, post, hi, hd, rfl⟩ := hu.where_
        have hmem := hit.next_in n hn
        rw [getD_set _ _ _ _ hi]
        split
        · next hib =>
          subst hib
          rw [hd] at hmem
          simp only [List.mem_append, List.mem_cons] at hmem ⊢
          rcases hmem with h1 | h1 | h1
          · exact Or.inl h1
          · exact absurd h1 hne
          · exact Or.inr h1
        · exact hmem
    · obtain ⟨h1, h2⟩ := hno hst
      rw [if_neg hst, if_neg hst]
      refine ⟨?_, idss, by rw [h1]; exact hs, by rw [h1]; exact hit, fun _ => ⟨h1, rfl, h2, rfl⟩, fun h => absurd h hst⟩
      rw [h1]

end CC.PHash
