import CollectionsC.Model.HashTable
/-! Helper lemmas for the hash-table proofs: lists of chains (`flatten` around one slot), the chain
functions, masks vs. `%`, repeated frees, the ideal map under permutation. -/
namespace CC.HT
open CC

/-! ### lists of chains -/
theorem flat_split {α : Type} (bs : List (List α)) (i : Nat) (h : i < bs.length) :
    bs.flatten = (bs.take i).flatten ++ (bs[i] ++ (bs.drop (i + 1)).flatten) := by
  have : bs = bs.take i ++ bs[i] :: bs.drop (i + 1) := by
    rw [List.getElem_cons_drop, List.take_append_drop]
  have h2 : bs.flatten = (bs.take i ++ bs[i] :: bs.drop (i + 1)).flatten := by rw [← this]
  rw [h2, List.flatten_append, List.flatten_cons]

theorem flat_set {α : Type} (bs : List (List α)) (i : Nat) (ch : List α) (h : i < bs.length) :
    (bs.set i ch).flatten = (bs.take i).flatten ++ (ch ++ (bs.drop (i + 1)).flatten) := by
  rw [List.set_eq_take_append_cons_drop, if_pos h]
  simp [List.flatten_append]

theorem getD_set {α : Type} (bs : List (List α)) (i j : Nat) (ch : List α) (h : i < bs.length) :
    (bs.set i ch).getD j [] = if i = j then ch else bs.getD j [] := by
  simp only [List.getD_eq_getElem?_getD, List.getElem?_set]
  by_cases hij : i = j
  · subst hij; simp [h]
  · simp [hij]

theorem getD_eq_getElem {α : Type} (bs : List (List α)) (i : Nat) (h : i < bs.length) :
    bs.getD i [] = bs[i] := by simp [List.getD_eq_getElem?_getD, h]

theorem mem_take_flatten {α : Type} (bs : List (List α)) (i : Nat) (e : α)
    (h : e ∈ (bs.take i).flatten) : ∃ j, j < i ∧ j < bs.length ∧ e ∈ bs.getD j [] := by
  rw [List.mem_flatten] at h
  obtain ⟨l, hl, he⟩ := h
  rw [List.mem_take_iff_getElem] at hl
  obtain ⟨j, hj, rfl⟩ := hl
  have hj2 : j < bs.length := by omega
  exact ⟨j, by omega, hj2, by rw [getD_eq_getElem _ _ hj2]; exact he⟩

theorem mem_drop_flatten {α : Type} (bs : List (List α)) (i : Nat) (e : α)
    (h : e ∈ (bs.drop i).flatten) : ∃ j, i ≤ j ∧ j < bs.length ∧ e ∈ bs.getD j [] := by
  rw [List.mem_flatten] at h
  obtain ⟨l, hl, he⟩ := h
  rw [List.mem_drop_iff_getElem] at hl
  obtain ⟨j, hj, rfl⟩ := hl
  have hj2 : i + j < bs.length := by omega
  exact ⟨i + j, by omega, hj2, by rw [getD_eq_getElem _ _ hj2]; exact he⟩

theorem mem_flatten_getD {α : Type} (bs : List (List α)) (e : α) (h : e ∈ bs.flatten) :
    ∃ j, j < bs.length ∧ e ∈ bs.getD j [] := by
  obtain ⟨j, _, h2, h3⟩ := mem_drop_flatten bs 0 e (by simpa using h)
  exact ⟨j, h2, h3⟩

theorem mem_flatten_of_getD {α : Type} (bs : List (List α)) (e : α) (j : Nat) (h : e ∈ bs.getD j []) :
    e ∈ bs.flatten := by
  by_cases hj : j < bs.length
  · rw [getD_eq_getElem _ _ hj] at h
    exact List.mem_flatten.mpr ⟨bs[j], List.getElem_mem hj, h⟩
  · simp [List.getD_eq_getElem?_getD, List.getElem?_eq_none (Nat.le_of_not_lt hj)] at h


/-- what `chainReplace` does to each entry when keys are distinct -/
def setVal (k : Option Nat) (v : Nat) (e : Entry) : Entry := if e.key = k then { e with value := v } else e

@[simp] theorem setVal_key (k v e) : (setVal k v e).key = e.key := by unfold setVal; split <;> rfl
@[simp] theorem setVal_hash (k v e) : (setVal k v e).hash = e.hash := by unfold setVal; split <;> rfl
theorem setVal_ne (k v e) (h : e.key ≠ k) : setVal k v e = e := by simp [setVal, h]

theorem map_setVal_of_ne (k v) (l : List Entry) (h : ∀ e ∈ l, e.key ≠ k) : l.map (setVal k v) = l := by
  induction l with
  | nil => rfl
  | cons a l ih =>
    simp only [List.map_cons]
    rw [setVal_ne k v a (h a (by simp)), ih (fun e he => h e (by simp [he]))]

theorem filter_of_ne (k : Option Nat) (l : List Entry) (h : ∀ e ∈ l, e.key ≠ k) :
    l.filter (fun e => e.key != k) = l := by
  apply List.filter_eq_self.mpr
  intro e he; simpa using h e he

theorem chainReplace_eq_none (ch : List Entry) (k : Option Nat) (v : Nat) :
    chainReplace ch k v = none ↔ ∀ e ∈ ch, e.key ≠ k := by
  induction ch with
  | nil => simp [chainReplace]
  | cons a l ih =>
    simp only [chainReplace]
    by_cases h : a.key = k
    · simp [h]
    · simp [h, ih]

theorem chainReplace_eq_some (ch : List Entry) (k : Option Nat) (v : Nat) (ch' : List Entry)
    (hnd : (ch.map (·.key)).Nodup) (h : chainReplace ch k v = some ch') :
    ch' = ch.map (setVal k v) ∧ ∃ e ∈ ch, e.key = k := by
  induction ch generalizing ch' with
  | nil => simp [chainReplace] at h
  | cons a l ih =>
    simp only [List.map_cons, List.nodup_cons] at hnd
    simp only [chainReplace] at h
    by_cases hk : a.key = k
    · simp only [hk, if_true, Option.some.injEq] at h
      subst h
      refine ⟨?_, a, by simp, hk⟩
      have : ∀ e ∈ l, e.key ≠ k := by
        intro e he hek
        apply hnd.1
        rw [hk, ← hek]; exact List.mem_map_of_mem he
      simp [setVal, hk, map_setVal_of_ne k v l this]
    · simp only [hk, if_false] at h
      cases hr : chainReplace l k v with
      | none => simp [hr] at h
      | some l' =>
        simp only [hr, Option.map_some, Option.some.injEq] at h
        obtain ⟨h1, e, he, hek⟩ := ih l' hnd.2 hr
        subst h
        refine ⟨by simp [setVal_ne k v a hk, h1], e, by simp [he], hek⟩

theorem chainRemove_eq_none (ch : List Entry) (k : Option Nat) :
    chainRemove ch k = none ↔ ∀ e ∈ ch, e.key ≠ k := by
  induction ch with
  | nil => simp [chainRemove]
  | cons a l ih =>
    simp only [chainRemove]
    by_cases h : a.key = k
    · simp [h]
    · simp [h, ih]

theorem chainRemove_eq_some (ch : List Entry) (k : Option Nat) (v : Nat) (ch' : List Entry)
    (hnd : (ch.map (·.key)).Nodup) (h : chainRemove ch k = some (v, ch')) :
    ch' = ch.filter (fun e => e.key != k) ∧ ∃ e ∈ ch, e.key = k ∧ e.value = v := by
  induction ch generalizing ch' with
  | nil => simp [chainRemove] at h
  | cons a l ih =>
    simp only [List.map_cons, List.nodup_cons] at hnd
    simp only [chainRemove] at h
    by_cases hk : a.key = k
    · simp only [hk, if_true, Option.some.injEq, Prod.mk.injEq] at h
      obtain ⟨h1, h2⟩ := h
      subst h2
      have : ∀ e ∈ l, e.key ≠ k := by
        intro e he hek
        apply hnd.1
        rw [hk, ← hek]; exact List.mem_map_of_mem he
      refine ⟨?_, a, by simp, hk, h1⟩
      simp [hk, filter_of_ne k l this]
    · simp only [hk, if_false] at h
      cases hr : chainRemove l k with
      | none => simp [hr] at h
      | some r =>
        obtain ⟨v', l'⟩ := r
        simp only [hr, Option.map_some, Option.some.injEq, Prod.mk.injEq] at h
        obtain ⟨h1, h2⟩ := h
        subst h1
        obtain ⟨h3, e, he, hek, hev⟩ := ih l' hnd.2 hr
        subst h2
        refine ⟨?_, e, by simp [he], hek, hev⟩
        simp [hk, h3]

theorem find_eq_none_of_ne (k : Option Nat) (l : List Entry) (h : ∀ e ∈ l, e.key ≠ k) :
    l.find? (fun e => e.key == k) = none := by
  rw [List.find?_eq_none]; intro e he; simpa using h e he



/-! ### masks, powers of two -/
theorem mask_eq_mod (h k : Nat) : h &&& (2 ^ k - 1) = h % 2 ^ k := Nat.and_two_pow_sub_one_eq_mod h k

theorem index_eq_mod (t : HashTable) (h : Nat) (hc : ∃ k, k < 32 ∧ t.capacity = 2 ^ k) :
    t.index h = h % t.capacity := by
  obtain ⟨k, _, hk⟩ := hc
  unfold HashTable.index; rw [hk]; exact mask_eq_mod h k

theorem cap_pos (t : HashTable) (hc : ∃ k, k < 32 ∧ t.capacity = 2 ^ k) : 0 < t.capacity := by
  obtain ⟨k, _, hk⟩ := hc; rw [hk]; exact Nat.two_pow_pos k

/-! ### the ledger seen through one allocator triple -/
@[simp] theorem check_liveOf (m : Mem) (b : Bool) (tr : Triple) : liveOf (m.check b) tr = liveOf m tr := by
  cases b <;> cases tr <;> simp [Mem.check, liveOf]
@[simp] theorem check_allocsOf (m : Mem) (b : Bool) (tr : Triple) : allocsOf (m.check b) tr = allocsOf m tr := by
  cases b <;> cases tr <;> simp [Mem.check, allocsOf]

/-- a successful allocation: one more block owned through that triple, nothing else of interest moves -/
theorem allocT_true (m : Mem) (tr : Triple) (h : (m.allocT tr).1 = true) :
    liveOf (m.allocT tr).2 tr = liveOf m tr + 1 ∧ (m.allocT tr).2.fault = m.fault := by
  cases tr with
  | conf => simp only [Mem.allocT_conf] at h ⊢; exact ⟨(Mem.alloc_fst_true m h).1, (Mem.alloc_fst_true m h).2.1⟩
  | libc => exact ⟨rfl, rfl⟩

/-- a refused allocation (only the configured triple can refuse): nothing owned changes -/
theorem allocT_false (m : Mem) (tr : Triple) (h : (m.allocT tr).1 = false) :
    liveOf (m.allocT tr).2 tr = liveOf m tr ∧ (m.allocT tr).2.fault = m.fault := by
  cases tr with
  | conf => simp only [Mem.allocT_conf] at h ⊢; exact ⟨(Mem.alloc_fst_false m h).1, (Mem.alloc_fst_false m h).2.1⟩
  | libc => simp [Mem.allocT] at h

/-- with an empty schedule no allocator refuses -/
theorem allocT_nil (m : Mem) (tr : Triple) (h : m.sched = []) :
    (m.allocT tr).1 = true ∧ (m.allocT tr).2.sched = [] := by
  cases tr with
  | conf => exact Mem.alloc_nil m h
  | libc => exact ⟨rfl, h⟩

theorem freeT_spec (m : Mem) (tr : Triple) (h : 0 < liveOf m tr) :
    liveOf (m.freeT tr) tr = liveOf m tr - 1 ∧ (m.freeT tr).fault = m.fault ∧ (m.freeT tr).sched = m.sched := by
  cases tr with
  | conf =>
    have hl : m.live ≠ 0 := by simp only [liveOf] at h; omega
    simp [Mem.free, hl, liveOf]
  | libc =>
    have hl : m.liveLibc ≠ 0 := by simp only [liveOf] at h; omega
    simp [Mem.freeT, hl, liveOf]

/-! ### repeated frees -/
theorem freeN_spec (m : Mem) (tr : Triple) (n : Nat) (h : n ≤ liveOf m tr) :
    liveOf (freeN m tr n) tr = liveOf m tr - n ∧ (freeN m tr n).fault = m.fault ∧
    (freeN m tr n).sched = m.sched := by
  induction n generalizing m with
  | zero => simp [freeN]
  | succ n ih =>
    obtain ⟨f1, f2, f3⟩ := freeT_spec m tr (by omega)
    have := ih (m.freeT tr) (by omega)
    simp only [freeN]
    rw [f1, f2, f3] at this
    exact ⟨by omega, this.2.1, this.2.2⟩

end CC.HT

namespace CC.Spec.Map
open CC

theorem lookup_nil (k : Key) : lookup [] k = none := rfl

theorem lookup_cons (a : Key) (b : Nat) (m : Map) (k : Key) :
    lookup ((a, b) :: m) k = if a = k then some b else lookup m k := by
  unfold lookup
  by_cases h : a = k
  · simp [h]
  · simp [h]

theorem keys_cons (a : Key × Nat) (m : Map) : keys (a :: m) = a.1 :: keys m := rfl

theorem mem_keys_of_mem {m : Map} {k : Key} {v : Nat} (h : (k, v) ∈ m) : k ∈ keys m :=
  List.mem_map.mpr ⟨(k, v), h, rfl⟩

/-- in a well-formed map `lookup` is membership -/
theorem lookup_eq_some_iff (m : Map) (wf : WF m) (k : Key) (v : Nat) :
    lookup m k = some v ↔ (k, v) ∈ m := by
  induction m with
  | nil => simp [lookup_nil]
  | cons p m ih =>
    obtain ⟨a, b⟩ := p
    have wf' : a ∉ keys m ∧ WF m := by simpa [WF, keys] using wf
    rw [lookup_cons]
    by_cases h : a = k
    · subst h
      simp only [if_true, List.mem_cons, Prod.mk.injEq, true_and]
      constructor
      · intro h; left; exact (Option.some.inj h).symm
      · rintro (h | h)
        · rw [h]
        · exact absurd (mem_keys_of_mem h) wf'.1
    · simp only [h, if_false, List.mem_cons, Prod.mk.injEq]
      rw [ih wf'.2]
      constructor
      · intro h2; right; exact h2
      · rintro (h2 | h2)
        · exact absurd h2.1.symm h
        · exact h2

theorem lookup_eq_none_iff (m : Map) (k : Key) : lookup m k = none ↔ k ∉ keys m := by
  induction m with
  | nil => simp [lookup_nil, keys]
  | cons p m ih =>
    obtain ⟨a, b⟩ := p
    rw [lookup_cons, keys_cons]
    by_cases h : a = k
    · simp [h]
    · simp only [h, if_false, ih, List.mem_cons]
      constructor
      · intro h2 h3; rcases h3 with h3 | h3
        · exact h h3.symm
        · exact h2 h3
      · intro h2 h3; exact h2 (Or.inr h3)

theorem contains_iff (m : Map) (k : Key) : contains m k = true ↔ k ∈ keys m := by
  unfold contains
  cases h : lookup m k with
  | none => simp [(lookup_eq_none_iff m k).mp h]
  | some v =>
    simp only [Option.isSome_some, true_iff]
    apply Classical.byContradiction
    intro hn
    rw [(lookup_eq_none_iff m k).mpr hn] at h
    cases h

theorem WF_perm {m1 m2 : Map} (h : m1.Perm m2) : WF m1 ↔ WF m2 := by
  unfold WF keys; exact (h.map _).nodup_iff

/-- the order of a well-formed association list is not observable -/
theorem lookup_perm {m1 m2 : Map} (h : m1.Perm m2) (wf : WF m1) (k : Key) : lookup m1 k = lookup m2 k := by
  have wf2 := (WF_perm h).mp wf
  apply Option.ext
  intro v
  rw [lookup_eq_some_iff m1 wf, lookup_eq_some_iff m2 wf2]
  exact h.mem_iff

theorem contains_perm {m1 m2 : Map} (h : m1.Perm m2) (wf : WF m1) (k : Key) : contains m1 k = contains m2 k := by
  unfold contains; rw [lookup_perm h wf]

theorem size_perm {m1 m2 : Map} (h : m1.Perm m2) : size m1 = size m2 := h.length_eq

theorem erase_perm {m1 m2 : Map} (h : m1.Perm m2) (k : Key) : (erase m1 k).Perm (erase m2 k) := h.filter _

theorem insert_perm {m1 m2 : Map} (h : m1.Perm m2) (wf : WF m1) (k : Key) (v : Nat) :
    (insert m1 k v).Perm (insert m2 k v) := by
  unfold insert
  rw [← contains_perm h wf]
  split
  · exact h.map _
  · exact h.cons _

/-! the ideal map in its own vocabulary -/
theorem keys_insert_of_contains (m : Map) (k : Key) (v : Nat) (h : contains m k = true) :
    keys (insert m k v) = keys m := by
  unfold insert keys
  rw [if_pos h, List.map_map]
  apply List.map_congr_left
  intro e _
  simp only [Function.comp]
  split <;> simp_all

theorem WF_insert (m : Map) (wf : WF m) (k : Key) (v : Nat) : WF (insert m k v) := by
  by_cases h : contains m k = true
  · unfold WF; rw [keys_insert_of_contains m k v h]; exact wf
  · unfold insert; rw [if_neg h]
    unfold WF; rw [keys_cons]
    exact List.nodup_cons.mpr ⟨by rw [← contains_iff]; exact h, wf⟩

theorem WF_erase (m : Map) (wf : WF m) (k : Key) : WF (erase m k) := by
  unfold WF keys erase
  exact (List.filter_sublist.map _).nodup wf

theorem lookup_replace_ne (m : Map) (k : Key) (v : Nat) (k' : Key) (hk : k ≠ k') :
    lookup (m.map (fun e => if e.1 = k then (k, v) else e)) k' = lookup m k' := by
  induction m with
  | nil => rfl
  | cons p m ih =>
    obtain ⟨a, b⟩ := p
    simp only [List.map_cons]
    by_cases ha : a = k
    · simp only [ha, if_true]
      rw [lookup_cons, lookup_cons, ih]; simp [hk]
    · simp only [ha, if_false]
      rw [lookup_cons, lookup_cons, ih]

theorem lookup_replace_eq (m : Map) (k : Key) (v : Nat) (hk : k ∈ keys m) :
    lookup (m.map (fun e => if e.1 = k then (k, v) else e)) k = some v := by
  induction m with
  | nil => simp [keys] at hk
  | cons p m ih =>
    obtain ⟨a, b⟩ := p
    simp only [List.map_cons]
    by_cases ha : a = k
    · simp only [ha, if_true]
      rw [lookup_cons]; simp
    · simp only [ha, if_false]
      rw [lookup_cons]
      simp only [ha, if_false]
      apply ih
      rw [keys_cons] at hk
      rcases List.mem_cons.mp hk with h | h
      · exact absurd h.symm ha
      · exact h

theorem lookup_insert (m : Map) (k : Key) (v : Nat) (k' : Key) :
    lookup (insert m k v) k' = if k = k' then some v else lookup m k' := by
  by_cases hc : contains m k = true
  · unfold insert; rw [if_pos hc]
    by_cases hk : k = k'
    · subst hk; simp only [if_true]; exact lookup_replace_eq m k v ((contains_iff m k).mp hc)
    · simp only [hk, if_false]; exact lookup_replace_ne m k v k' hk
  · unfold insert; rw [if_neg hc, lookup_cons]

theorem lookup_erase (m : Map) (k k' : Key) :
    lookup (erase m k) k' = if k = k' then none else lookup m k' := by
  unfold erase
  induction m with
  | nil => simp [lookup_nil]
  | cons p m ih =>
    obtain ⟨a, b⟩ := p
    by_cases ha : a = k
    · simp only [List.filter_cons, ha, bne_self_eq_false, Bool.false_eq_true, if_false]
      rw [ih, lookup_cons]
      by_cases hk : k = k' <;> simp [hk]
    · have : (a != k) = true := by simpa using ha
      simp only [List.filter_cons, this, if_true]
      rw [lookup_cons, lookup_cons, ih]
      by_cases hk : k = k'
      · subst hk; simp [ha]
      · simp [hk]

theorem size_insert (m : Map) (k : Key) (v : Nat) :
    size (insert m k v) = if contains m k then size m else size m + 1 := by
  unfold insert size; split <;> simp

theorem size_erase (m : Map) (wf : WF m) (k : Key) :
    size (erase m k) = if contains m k then size m - 1 else size m := by
  induction m with
  | nil => simp [erase, size]
  | cons p m ih =>
    obtain ⟨a, b⟩ := p
    have wf' : a ∉ keys m ∧ WF m := by simpa [WF, keys] using wf
    have ih := ih wf'.2
    unfold erase size at *
    by_cases ha : a = k
    · subst ha
      have hn : contains m a = false := by
        cases h : contains m a with
        | false => rfl
        | true => exact absurd ((contains_iff m a).mp h) wf'.1
      rw [hn] at ih
      simp only [Bool.false_eq_true, if_false] at ih
      have hc : contains ((a, b) :: m) a = true := by rw [contains_iff]; simp [keys]
      simp [hc, ih]
    · have : (a != k) = true := by simpa using ha
      have hc : contains ((a, b) :: m) k = contains m k := by
        unfold contains; rw [lookup_cons]; simp [ha]
      rw [hc]
      simp only [List.filter_cons, this, if_true, List.length_cons, ih]
      split
      · rename_i h
        have : 0 < m.length := by
          have := (contains_iff m k).mp h
          cases m with
          | nil => simp [keys] at this
          | cons _ _ => simp
        omega
      · rfl

end CC.Spec.Map

namespace CC.HT
open CC

/-- `chainRemove` removes the entry `chainFind` finds -/
theorem chainRemove_find (ch : List Entry) (k : Option Nat) :
    (chainRemove ch k).map (·.1) = (ch.find? (fun e => e.key == k)).map (·.value) := by
  induction ch with
  | nil => rfl
  | cons a l ih =>
    simp only [chainRemove, List.find?_cons]
    by_cases h : a.key = k
    · simp [h]
    · have : (a.key == k) = false := by simpa using h
      simp only [h, if_false, this, Option.map_map]
      rw [← ih]; cases chainRemove l k <;> rfl

theorem chainRemove_length (ch : List Entry) (k : Option Nat) (v : Nat) (ch' : List Entry)
    (h : chainRemove ch k = some (v, ch')) : ch.length = ch'.length + 1 := by
  induction ch generalizing ch' with
  | nil => simp [chainRemove] at h
  | cons a l ih =>
    simp only [chainRemove] at h
    by_cases hk : a.key = k
    · simp only [hk, if_true, Option.some.injEq, Prod.mk.injEq] at h
      rw [← h.2]; rfl
    · simp only [hk, if_false] at h
      cases hr : chainRemove l k with
      | none => simp [hr] at h
      | some r =>
        obtain ⟨v', l'⟩ := r
        simp only [hr, Option.map_some, Option.some.injEq, Prod.mk.injEq] at h
        rw [← h.2]; simp [ih l' (by rw [hr, h.1])]

/-- `chainReplace` succeeds exactly when `chainFind` finds the key -/
theorem chainReplace_isSome (ch : List Entry) (k : Option Nat) (v : Nat) :
    (chainReplace ch k v).isSome = (ch.find? (fun e => e.key == k)).isSome := by
  induction ch with
  | nil => rfl
  | cons a l ih =>
    simp only [chainReplace, List.find?_cons]
    by_cases h : a.key = k
    · simp [h]
    · have : (a.key == k) = false := by simpa using h
      simp only [h, if_false, this]
      rw [← ih]; cases chainReplace l k v <;> rfl

end CC.HT

namespace CC.HT
open CC

/-- `g` is `f` smeared over the next `K` positions -/
def Smear (K : Nat) (g f : Nat → Bool) : Prop := ∀ i, g i = true ↔ ∃ d, d < K ∧ f (i + d) = true

theorem smear_step (K : Nat) (g f : Nat → Bool) (h : Smear K g f) :
    Smear (2 * K) (fun i => g i || g (K + i)) f := by
  intro i
  simp only [Bool.or_eq_true]
  constructor
  · rintro (h1 | h1)
    · obtain ⟨d, hd, hf⟩ := (h i).mp h1
      exact ⟨d, by omega, hf⟩
    · obtain ⟨d, hd, hf⟩ := (h (K + i)).mp h1
      exact ⟨K + d, by omega, by rw [← hf]; congr 1; omega⟩
  · rintro ⟨d, hd, hf⟩
    by_cases hk : d < K
    · left; exact (h i).mpr ⟨d, hk, hf⟩
    · right; exact (h (K + i)).mpr ⟨d - K, by omega, by rw [← hf]; congr 1; omega⟩

theorem smear_or_shift (K : Nat) (y x : Nat) (h : Smear K y.testBit x.testBit) :
    Smear (2 * K) (y ||| (y >>> K)).testBit x.testBit := by
  have := smear_step K _ _ h
  intro i
  rw [← this i]
  simp [Nat.testBit_or, Nat.testBit_shiftRight]

/-- the bit-smearing of `round_pow_two` turns `x < 2^31` into `2^(bits of x) - 1` -/
theorem smear_eq (x : Nat) (hx : x < 2 ^ 31) (h0 : x ≠ 0) :
    let n := x ||| (x >>> 1)
    let n := n ||| (n >>> 2)
    let n := n ||| (n >>> 4)
    let n := n ||| (n >>> 8)
    let n := n ||| (n >>> 16)
    n = 2 ^ (x.log2 + 1) - 1 := by
  intro n1 n2 n3 n4 n5
  have s0 : Smear 1 x.testBit x.testBit := by
    intro i; constructor
    · intro h; exact ⟨0, by omega, h⟩
    · rintro ⟨d, hd, hf⟩; have : d = 0 := by omega
      subst this; exact hf
  have s1 : Smear 2 n1.testBit x.testBit := smear_or_shift 1 x x s0
  have s2 : Smear 4 n2.testBit x.testBit := smear_or_shift 2 n1 x s1
  have s3 : Smear 8 n3.testBit x.testBit := smear_or_shift 4 n2 x s2
  have s4 : Smear 16 n4.testBit x.testBit := smear_or_shift 8 n3 x s3
  have s5 : Smear 32 n5.testBit x.testBit := smear_or_shift 16 n4 x s4
  have hL : x.log2 < 31 := (Nat.log2_lt h0).mpr hx
  apply Nat.eq_of_testBit_eq
  intro i
  rw [Nat.testBit_two_pow_sub_one]
  by_cases hi : i < x.log2 + 1
  · simp only [hi, decide_true]
    apply (s5 i).mpr
    refine ⟨x.log2 - i, by omega, ?_⟩
    have : i + (x.log2 - i) = x.log2 := by omega
    rw [this]; exact Nat.testBit_log2 h0
  · simp only [hi, decide_false]
    cases hb : n5.testBit i with
    | false => rfl
    | true =>
      obtain ⟨d, _, hf⟩ := (s5 i).mp hb
      have hlt : x < 2 ^ (i + d) := Nat.lt_of_lt_of_le Nat.lt_log2_self (Nat.pow_le_pow_right (by omega) (by omega))
      rw [Nat.testBit_lt_two_pow hlt] at hf
      cases hf

/-- `round_pow_two` returns a power of two not above `MAX_POW_TWO` -/
theorem roundPowTwo_pow2 (n : Nat) : ∃ k, k < 32 ∧ roundPowTwo n = 2 ^ k := by
  unfold roundPowTwo
  by_cases h1 : n ≥ Gen.MAX_POW_TWO
  · rw [if_pos h1]; exact ⟨31, by omega, by decide⟩
  · rw [if_neg h1]
    by_cases h2 : n = 0
    · rw [if_pos h2]; exact ⟨0, by omega, rfl⟩
    · rw [if_neg h2]
      have hM : Gen.MAX_POW_TWO = 2 ^ 31 := by decide
      by_cases h3 : n - 1 = 0
      · refine ⟨0, by omega, ?_⟩
        simp [h3]
      · have hx : n - 1 < 2 ^ 31 := by rw [hM] at h1; omega
        have := smear_eq (n - 1) hx h3
        simp only at this ⊢
        rw [this]
        have hL : (n - 1).log2 < 31 := (Nat.log2_lt h3).mpr hx
        refine ⟨(n - 1).log2 + 1, by omega, ?_⟩
        have := Nat.two_pow_pos ((n - 1).log2 + 1)
        omega

/-- `round_pow_two n ≥ n` below the maximum, and it is the least such power of two -/
theorem roundPowTwo_ge (n : Nat) (h : n ≤ Gen.MAX_POW_TWO) : n ≤ roundPowTwo n := by
  unfold roundPowTwo
  by_cases h1 : n ≥ Gen.MAX_POW_TWO
  · rw [if_pos h1]; omega
  · rw [if_neg h1]
    by_cases h2 : n = 0
    · rw [if_pos h2]; omega
    · rw [if_neg h2]
      have hM : Gen.MAX_POW_TWO = 2 ^ 31 := by decide
      by_cases h3 : n - 1 = 0
      · simp [h3]; omega
      · have hx : n - 1 < 2 ^ 31 := by rw [hM] at h1; omega
        have := smear_eq (n - 1) hx h3
        simp only at this ⊢
        rw [this]
        have := @Nat.lt_log2_self (n - 1)
        omega

end CC.HT
