import CollectionsC.Proofs.ListAlloc
import CollectionsC.Proofs.ListTraverse
/-! Iterator **programs**: arbitrary sequences of `next` / `remove` / `replace` / `add` / `index` calls on
one iterator (ascending and descending iterator of `cc_list.c`, iterator of `cc_slist.c`) and on the zip
iterators, under an arbitrary refusal schedule.  Every program that respects the documented
contract (`add` only with a current element: one was yielded and not removed since; any number of `add`s
may follow one `next`) behaves exactly like the same program on the ideal cursor, on which the refused
`add`s did not happen. -/
namespace CC
open CC Chain
open CC.Spec

/-- iterator calls -/
inductive IOp where
  | next | remove | replace (x : Nat) | add (x : Nat) | index
  deriving Repr, DecidableEq
/-- zip-iterator calls -/
inductive ZOp where
  | next | remove | replace (x y : Nat) | add (x y : Nat) | index
  deriving Repr, DecidableEq
structure IOut where
  st  : Option Stat := none
  val : Option Nat := none
  deriving Repr, DecidableEq
structure ZOut where
  st  : Option Stat := none
  val : Option (Nat × Nat) := none
  idx : Option Nat := none
  deriving Repr, DecidableEq

/-- run a program on a model -/
def progRun {σ ι ο : Type} (step : σ → ι → ο × σ) : σ → List ι → List ο × σ
  | s, [] => ([], s)
  | s, op :: ops => let r := step s op; let rs := progRun step r.2 ops; (r.1 :: rs.1, rs.2)

/-- run a program on the ideal object: outputs, final state, and whether every call respected the
contract `legal`; `flags` says which calls the allocator refused -/
def specRun {τ ι ο : Type} (step : τ → ι → Bool → ο × τ) (legal : τ → ι → Bool) :
    τ → List ι → List Bool → List ο × τ × Bool
  | s, [], _ => ([], s, true)
  | s, op :: ops, fl =>
    let r := step s op (fl.headD false)
    let rs := specRun step legal r.2 ops fl.tail
    (r.1 :: rs.1, rs.2.1, legal s op && rs.2.2)

/-- step simulation lifts to programs -/
theorem progRun_refines {σ τ ι ο : Type} (ms : σ → ι → ο × σ) (ss : τ → ι → Bool → ο × τ) (legal : τ → ι → Bool)
    (flag : ο → Bool) (R : τ → σ → Prop)
    (hstep : ∀ a s op, R a s → legal a op = true →
      (ms s op).1 = (ss a op (flag (ms s op).1)).1 ∧ R (ss a op (flag (ms s op).1)).2 (ms s op).2) :
    ∀ (ops : List ι) (a : τ) (s : σ), R a s →
      (specRun ss legal a ops ((progRun ms s ops).1.map flag)).2.2 = true →
      (progRun ms s ops).1 = (specRun ss legal a ops ((progRun ms s ops).1.map flag)).1 ∧
      R (specRun ss legal a ops ((progRun ms s ops).1.map flag)).2.1 (progRun ms s ops).2
  | [], a, s, h, _ => ⟨rfl, h⟩
  | op :: ops, a, s, h, hl => by
    simp only [progRun, specRun, List.map_cons, List.headD_cons, List.tail_cons, Bool.and_eq_true] at hl ⊢
    obtain ⟨h1, h2⟩ := hstep a s op h hl.1
    obtain ⟨i1, i2⟩ := progRun_refines ms ss legal flag R hstep ops _ _ h2 hl.2
    exact ⟨by rw [← h1, ← i1], i2⟩

/-! ## programs on the ideal cursor -/
namespace LSeqP
open LSeq (Cursor)

/-- the documented contract of `iter_add` ("only after a call to next"): there is a current element, i.e. the latest
`next` yielded one and it was not removed since.  Any number of `add`s may follow one `next` (since the repair of
defect L6 this includes the ascending iterator of the doubly linked list, whose second `add` links the new node directly
behind the yielded element, in front of the node added before).  The parameters are kept for the callers: the
contract is the same for all five iterators. -/
def legal (_follow _dsc : Bool) (c : Cursor) : IOp → Bool
  | .add _ => c.cur.isSome
  | _ => true

def step (follow dsc : Bool) (s : List Nat × Cursor) (op : IOp) (refused : Bool) : IOut × (List Nat × Cursor) :=
  match op with
  | .next => let r := if dsc then LSeq.ditNext s.1 s.2 else LSeq.itNext s.1 s.2; ({ st := some r.1, val := r.2.1 }, (s.1, r.2.2))
  | .remove => let r := if dsc then LSeq.ditRemove s.1 s.2 else LSeq.itRemove s.1 s.2
               ({ st := some r.1, val := r.2.1 }, (r.2.2.1, r.2.2.2))
  | .replace x => let r := LSeq.itReplace s.1 s.2 x; ({ st := some r.1, val := r.2.1 }, (r.2.2, s.2))
  | .add x => if refused then ({ st := some .errAlloc }, s)
              else ({ st := some .ok }, if dsc then LSeq.ditAdd s.1 s.2 x else LSeq.itAdd follow s.1 s.2 x)
  | .index => ({ val := some (if dsc then LSeq.ditIndex s.2 else LSeq.itIndex s.2) }, s)

def run (follow dsc : Bool) := specRun (step follow dsc) (fun s => legal follow dsc s.2)

def zlegal (_follow : Bool) (c : Cursor) : ZOp → Bool
  | .add _ _ => c.cur.isSome
  | _ => true

def zstep (follow : Bool) (s : List Nat × List Nat × Cursor) (op : ZOp) (refused : Bool) : ZOut × (List Nat × List Nat × Cursor) :=
  match op with
  | .next => let r := LSeq.zitNext s.1 s.2.1 s.2.2; ({ st := some r.1, val := r.2.1 }, (s.1, s.2.1, r.2.2))
  | .remove => let r := LSeq.zitRemove s.1 s.2.1 s.2.2; ({ st := some r.1, val := r.2.1 }, (r.2.2.1, r.2.2.2.1, r.2.2.2.2))
  | .replace x y => let r := LSeq.zitReplace s.1 s.2.1 s.2.2 x y; ({ st := some r.1, val := r.2.1 }, (r.2.2.1, r.2.2.2, s.2.2))
  | .add x y => if refused then ({ st := some .errAlloc }, s) else ({ st := some .ok }, LSeq.zitAdd follow s.1 s.2.1 s.2.2 x y)
  | .index => ({ idx := some (LSeq.itIndex s.2.2) }, s)

def zrun (follow : Bool) := specRun (zstep follow) (fun s => zlegal follow s.2.2)
end LSeqP

/-! ## programs on the models -/
namespace DList
def iterStep (dsc : Bool) (s : Chain × Iter × Mem) (op : IOp) : IOut × (Chain × Iter × Mem) :=
  match op with
  | .next => let r := if dsc then diterNext s.1 s.2.1 s.2.2 else iterNext s.1 s.2.1 s.2.2
             ({ st := some r.1, val := r.2.1 }, (s.1, r.2.2.1, r.2.2.2))
  | .remove => let r := if dsc then diterRemove s.1 s.2.1 s.2.2 else iterRemove s.1 s.2.1 s.2.2
               ({ st := some r.1, val := r.2.1 }, (r.2.2.1, r.2.2.2.1, r.2.2.2.2))
  | .replace x => let r := iterReplace s.1 s.2.1 x s.2.2; ({ st := some r.1, val := r.2.1 }, (r.2.2.1, s.2.1, r.2.2.2))
  | .add x => let r := if dsc then diterAdd s.1 s.2.1 x s.2.2 else iterAdd s.1 s.2.1 x s.2.2
              ({ st := some r.1 }, (r.2.1, r.2.2.1, r.2.2.2))
  | .index => ({ val := some (if dsc then diterIndex s.2.1 else iterIndex s.2.1) }, s)

def iterRun (dsc : Bool) := progRun (iterStep dsc)

def zipStep (s : Chain × Chain × ZipIter × Mem) (op : ZOp) : ZOut × (Chain × Chain × ZipIter × Mem) :=
  match op with
  | .next => let r := zipNext s.1 s.2.1 s.2.2.1 s.2.2.2; ({ st := some r.1, val := r.2.1 }, (s.1, s.2.1, r.2.2.1, r.2.2.2))
  | .remove => let r := zipRemove s.1 s.2.1 s.2.2.1 s.2.2.2
               ({ st := some r.1, val := r.2.1 }, (r.2.2.1, r.2.2.2.1, r.2.2.2.2.1, r.2.2.2.2.2))
  | .replace x y => let r := zipReplace s.1 s.2.1 s.2.2.1 x y s.2.2.2
                    ({ st := some r.1, val := r.2.1 }, (r.2.2.1, r.2.2.2.1, s.2.2.1, r.2.2.2.2))
  | .add x y => let r := zipAdd s.1 s.2.1 s.2.2.1 x y s.2.2.2; ({ st := some r.1 }, (r.2.1, r.2.2.1, r.2.2.2.1, r.2.2.2.2))
  | .index => ({ idx := some (zipIndex s.2.2.1) }, s)

def zipRun := progRun zipStep

end DList

namespace SList
def iterStep (s : Chain × Iter × Mem) (op : IOp) : IOut × (Chain × Iter × Mem) :=
  match op with
  | .next => let r := iterNext s.1 s.2.1 s.2.2; ({ st := some r.1, val := r.2.1 }, (s.1, r.2.2.1, r.2.2.2))
  | .remove => let r := iterRemove s.1 s.2.1 s.2.2; ({ st := some r.1, val := r.2.1 }, (r.2.2.1, r.2.2.2.1, r.2.2.2.2))
  | .replace x => let r := iterReplace s.1 s.2.1 x s.2.2; ({ st := some r.1, val := r.2.1 }, (r.2.2.1, s.2.1, r.2.2.2))
  | .add x => let r := iterAdd s.1 s.2.1 x s.2.2; ({ st := some r.1 }, (r.2.1, r.2.2.1, r.2.2.2))
  | .index => ({ val := some (iterIndex s.2.1) }, s)

def iterRun := progRun iterStep

def zipStep (s : Chain × Chain × ZipIter × Mem) (op : ZOp) : ZOut × (Chain × Chain × ZipIter × Mem) :=
  match op with
  | .next => let r := zipNext s.1 s.2.1 s.2.2.1 s.2.2.2; ({ st := some r.1, val := r.2.1 }, (s.1, s.2.1, r.2.2.1, r.2.2.2))
  | .remove => let r := zipRemove s.1 s.2.1 s.2.2.1 s.2.2.2
               ({ st := some r.1, val := r.2.1 }, (r.2.2.1, r.2.2.2.1, r.2.2.2.2.1, r.2.2.2.2.2))
  | .replace x y => let r := zipReplace s.1 s.2.1 s.2.2.1 x y s.2.2.2
                    ({ st := some r.1, val := r.2.1 }, (r.2.2.1, r.2.2.2.1, s.2.2.1, r.2.2.2.2))
  | .add x y => let r := zipAdd s.1 s.2.1 s.2.2.1 x y s.2.2.2; ({ st := some r.1 }, (r.2.1, r.2.2.1, r.2.2.2.1, r.2.2.2.2))
  | .index => ({ idx := some (zipIndex s.2.2.1) }, s)

def zipRun := progRun zipStep
end SList

/-! ## simulation -/
def stFlag (o : IOut) : Bool := o.st == some .errAlloc
def zFlag (o : ZOut) : Bool := o.st == some .errAlloc
@[simp] theorem stFlag_ok : stFlag { st := some .ok } = false := by decide
@[simp] theorem stFlag_err : stFlag { st := some .errAlloc } = true := by decide
@[simp] theorem zFlag_ok : zFlag { st := some .ok } = false := by decide
@[simp] theorem zFlag_err : zFlag { st := some .errAlloc } = true := by decide

/-- ledger part of the program relations: since the start (`m0`, `n0` node blocks) no fault was
raised, the other allocator was not touched and the live blocks of `t` moved with the length -/
structure LedgerRel (t : Triple) (m0 : Mem) (n0 : Nat) (n : Nat) (m : Mem) : Prop where
  fault : m.fault = m0.fault
  frame : Mem.Frame t m0 m
  live : m.liveT t + n0 = m0.liveT t + n
  enough : n0 ≤ m0.liveT t
  sched : m0.sched = [] → m.sched = []

theorem LedgerRel.eff {t : Triple} {m0 m m' : Mem} {n0 n n' p q r : Nat} (h : LedgerRel t m0 n0 n m)
    (e : Mem.Eff t m m' p q r) (hn : n + p = n' + q) : LedgerRel t m0 n0 n' m' :=
  ⟨by rw [e.fault, h.fault], h.frame.trans e.frame, by have := e.live; have := h.live; omega, h.enough,
   fun hs => e.sched (h.sched hs)⟩


/-! ### two lists on (possibly) different triples -/
theorem Mem.freeT_all (m : Mem) (t : Triple) (h : 0 < m.liveT t) :
    (m.freeT t).fault = m.fault ∧ (m.sched = [] → (m.freeT t).sched = []) ∧
    ∀ t', (m.freeT t).liveT t' + (if t = t' then 1 else 0) = m.liveT t' := by
  have e := Mem.eff_free t m h
  refine ⟨e.fault, e.sched, fun t' => ?_⟩
  by_cases ht : t = t'
  · subst ht; have := e.live; simp only [if_true]; omega
  · have := e.frame.liveT (t' := t') (fun x => ht x.symm); simp only [ht, if_false]; omega
theorem Mem.allocT_all_true (m : Mem) (t : Triple) (h : (m.allocT t).1 = true) :
    (m.allocT t).2.fault = m.fault ∧ (m.sched = [] → (m.allocT t).2.sched = []) ∧
    ∀ t', (m.allocT t).2.liveT t' = m.liveT t' + (if t = t' then 1 else 0) := by
  have e := Mem.eff_alloc_true t m h
  refine ⟨e.fault, e.sched, fun t' => ?_⟩
  by_cases ht : t = t'
  · subst ht; have := e.live; simp only [if_true]; omega
  · have := e.frame.liveT (t' := t') (fun x => ht x.symm); simp only [ht, if_false]; omega
theorem Mem.allocT_all_false (m : Mem) (t : Triple) (h : (m.allocT t).1 = false) :
    (m.allocT t).2.fault = m.fault ∧ (m.sched = [] → (m.allocT t).2.sched = []) ∧
    ∀ t', (m.allocT t).2.liveT t' = m.liveT t' := by
  have e := Mem.eff_alloc_false t m h
  refine ⟨e.fault, e.sched, fun t' => ?_⟩
  by_cases ht : t = t'
  · subst ht; have := e.live; omega
  · exact e.frame.liveT (t' := t') (fun x => ht x.symm)

/-- ledger part of the zip program relations (per triple, as the two lists may share one) -/
structure ZLedgerRel (t t2 : Triple) (m0 : Mem) (xs0 ys0 xs ys : List Nat) (m : Mem) : Prop where
  fault : m.fault = m0.fault
  live : ∀ t', m.liveT t' + ownedBy t t2 xs0 ys0 t' = m0.liveT t' + ownedBy t t2 xs ys t'
  enough : ∀ t', ownedBy t t2 xs0 ys0 t' ≤ m0.liveT t'
  sched : m0.sched = [] → m.sched = []

theorem ZLedgerRel.same {t t2 : Triple} {m0 m : Mem} {xs0 ys0 xs ys xs' ys' : List Nat}
    (h : ZLedgerRel t t2 m0 xs0 ys0 xs ys m) (h1 : xs'.length = xs.length) (h2 : ys'.length = ys.length) :
    ZLedgerRel t t2 m0 xs0 ys0 xs' ys' m :=
  ⟨h.fault, by intro t'; have := h.live t'; simp only [ownedBy, h1, h2] at this ⊢; exact this, h.enough, h.sched⟩

theorem ZLedgerRel.remove {t t2 : Triple} {m0 m : Mem} {xs0 ys0 xs ys xs' ys' : List Nat}
    (h : ZLedgerRel t t2 m0 xs0 ys0 xs ys m) (h1 : xs'.length + 1 = xs.length) (h2 : ys'.length + 1 = ys.length) :
    ZLedgerRel t t2 m0 xs0 ys0 xs' ys' ((m.freeT t).freeT t2) := by
  have l1 : 0 < m.liveT t := by
    have := h.live t; have := h.enough t; simp only [ownedBy, if_true] at *; omega
  obtain ⟨f1, s1, a1⟩ := Mem.freeT_all m t l1
  have l2 : 0 < (m.freeT t).liveT t2 := by
    have := h.live t2; have := h.enough t2; have := a1 t2
    by_cases e : t = t2 <;> simp only [ownedBy, e, if_true, if_false] at * <;> omega
  obtain ⟨f2, s2, a2⟩ := Mem.freeT_all (m.freeT t) t2 l2
  refine ⟨by rw [f2, f1, h.fault], fun t' => ?_, h.enough, fun hs => s2 (s1 (h.sched hs))⟩
  have := h.live t'; have := a1 t'; have := a2 t'
  by_cases e1 : t = t' <;> by_cases e2 : t2 = t' <;> simp only [ownedBy, e1, e2, if_true, if_false] at * <;> omega

theorem ZLedgerRel.add {t t2 : Triple} {m0 m : Mem} {xs0 ys0 xs ys xs' ys' : List Nat}
    (h : ZLedgerRel t t2 m0 xs0 ys0 xs ys m) (h1 : xs'.length = xs.length + 1) (h2 : ys'.length = ys.length + 1) :
    if (m.allocT t).1 then
      (if ((m.allocT t).2.allocT t2).1 then ZLedgerRel t t2 m0 xs0 ys0 xs' ys' ((m.allocT t).2.allocT t2).2
       else ZLedgerRel t t2 m0 xs0 ys0 xs ys (((m.allocT t).2.allocT t2).2.freeT t))
    else ZLedgerRel t t2 m0 xs0 ys0 xs ys (m.allocT t).2 := by
  by_cases ha : (m.allocT t).1 = true
  · obtain ⟨f1, s1, a1⟩ := Mem.allocT_all_true m t ha
    by_cases hb : ((m.allocT t).2.allocT t2).1 = true
    · obtain ⟨f2, s2, a2⟩ := Mem.allocT_all_true _ t2 hb
      simp only [ha, hb, if_true]
      refine ⟨by rw [f2, f1, h.fault], fun t' => ?_, h.enough, fun hs => s2 (s1 (h.sched hs))⟩
      have := h.live t'; have := a1 t'; have := a2 t'
      by_cases e1 : t = t' <;> by_cases e2 : t2 = t' <;> simp only [ownedBy, e1, e2, if_true, if_false] at * <;> omega
    · simp only [Bool.not_eq_true] at hb
      obtain ⟨f2, s2, a2⟩ := Mem.allocT_all_false _ t2 hb
      have l3 : 0 < ((m.allocT t).2.allocT t2).2.liveT t := by rw [a2 t, a1 t]; simp
      obtain ⟨f3, s3, a3⟩ := Mem.freeT_all _ t l3
      simp only [ha, hb, if_true, Bool.false_eq_true, if_false]
      refine ⟨by rw [f3, f2, f1, h.fault], fun t' => ?_, h.enough, fun hs => s3 (s2 (s1 (h.sched hs)))⟩
      have := h.live t'; have := a1 t'; have := a2 t'; have := a3 t'
      by_cases e1 : t = t' <;> simp only [e1, if_true, if_false] at * <;> omega
  · simp only [Bool.not_eq_true] at ha
    obtain ⟨f1, s1, a1⟩ := Mem.allocT_all_false m t ha
    simp only [ha, Bool.false_eq_true, if_false]
    exact ⟨by rw [f1, h.fault], fun t' => by rw [a1 t']; exact h.live t', h.enough, fun hs => s1 (h.sched hs)⟩

local macro "tr" : term => `(by first | trivial | rfl)
namespace DList
/-- the program relation of the ascending iterator -/
abbrev IterSim (t : Triple) (m0 : Mem) (n0 : Nat) (a : List Nat × LSeq.Cursor) (s : Chain × Iter × Mem) : Prop :=
  s.1 = ofList t a.1 ∧ ItRel a.1 a.2 s.2.1 ∧ LedgerRel t m0 n0 a.1.length s.2.2

theorem iterStep_sim (t : Triple) (m0 : Mem) (n0 : Nat) (a : List Nat × LSeq.Cursor) (s : Chain × Iter × Mem) (op : IOp)
    (h : IterSim t m0 n0 a s) (hl : LSeqP.legal false false a.2 op = true) :
    (iterStep false s op).1 = (LSeqP.step false false a op (stFlag (iterStep false s op).1)).1 ∧
    IterSim t m0 n0 (LSeqP.step false false a op (stFlag (iterStep false s op).1)).2 (iterStep false s op).2 := by
  obtain ⟨xs, c⟩ := a
  obtain ⟨l, it, m⟩ := s
  obtain ⟨hl1, hr, hm⟩ := h
  simp only at hl1 hr hm
  subst hl1
  cases op with
  | next =>
    obtain ⟨it', e, hr'⟩ := iterNext_ofList (t := t) xs c it m hr
    simp only [iterStep, LSeqP.step, Bool.false_eq_true, if_false, e]
    exact ⟨tr, tr, hr', hm⟩
  | index =>
    simp only [iterStep, LSeqP.step, Bool.false_eq_true, if_false, iterIndex_rel xs c it hr]
    exact ⟨tr, tr, hr, hm⟩
  | replace x =>
    obtain ⟨e, hr'⟩ := iterReplace_ofList (t := t) xs c it x m hr
    simp only [iterStep, LSeqP.step, e]
    refine ⟨tr, tr, hr', ?_⟩
    have : (LSeq.itReplace xs c x).2.2.length = xs.length := by
      unfold LSeq.itReplace; cases c.cur <;> simp
    simp only [this]; exact hm
  | remove =>
    obtain ⟨it', e, hr'⟩ := iterRemove_ofList (t := t) xs c it m hr
    simp only [iterStep, LSeqP.step, Bool.false_eq_true, if_false, e]
    refine ⟨tr, tr, hr', ?_⟩
    simp only []
    cases hc : c.cur with
    | none => simp only [LSeq.itRemove, hc]; exact hm
    | some k =>
      have hk : k < xs.length := by have := hr.cur k hc; have := hr.le; omega
      have hlive : 0 < m.liveT t := by have := hm.live; have := hm.enough; omega
      simp only [LSeq.itRemove, hc, if_true, List.length_eraseIdx, hk]
      exact hm.eff (Mem.eff_free t m hlive) (by omega)
  | add x =>
    simp only [LSeqP.legal] at hl
    cases hc : c.cur with
    | none => simp [hc] at hl
    | some k =>
      obtain ⟨it', e, hr'⟩ := iterAdd_ofList (t := t) xs c it x k m hr hc
      have hk : k + 1 ≤ xs.length := by have := hr.le; have := hr.cur k hc; omega
      simp only [iterStep, LSeqP.step, Bool.false_eq_true, if_false, e]
      by_cases ha : (m.allocT t).1 = true
      · simp only [ha, if_true, stFlag_ok, Bool.false_eq_true, if_false]
        refine ⟨tr, tr, hr', ?_⟩
        have : (LSeq.itAdd false xs c x).1.length = xs.length + 1 := by
          simp [LSeq.itAdd, hc, List.length_insertIdx, hk]
        simp only [this]
        exact hm.eff (Mem.eff_alloc_true t m ha) (by omega)
      · simp only [Bool.not_eq_true] at ha
        simp only [ha, Bool.false_eq_true, if_false, stFlag_err, if_true]
        exact ⟨tr, tr, hr, hm.eff (Mem.eff_alloc_false t m ha) (by simp only [])⟩

/-- **iterator programs**: any sequence of `iter_next/remove/replace/add/index` calls that
respects the contract, under any refusal schedule, yields call by call what the ideal cursor
yields (refused `add`s did not happen), leaves the list in the canonical state of the ideal
content, the ledger consistent and raises no fault -/
theorem iter_program (t : Triple) (xs : List Nat) (c : LSeq.Cursor) (it : Iter) (m : Mem) (ops : List IOp)
    (h : ItRel xs c it) (hlive : xs.length ≤ m.liveT t)
    (hl : (LSeqP.run false false (xs, c) ops ((iterRun false (ofList t xs, it, m) ops).1.map stFlag)).2.2 = true) :
    (iterRun false (ofList t xs, it, m) ops).1 = (LSeqP.run false false (xs, c) ops ((iterRun false (ofList t xs, it, m) ops).1.map stFlag)).1 ∧
    IterSim t m xs.length (LSeqP.run false false (xs, c) ops ((iterRun false (ofList t xs, it, m) ops).1.map stFlag)).2.1
      (iterRun false (ofList t xs, it, m) ops).2 :=
  progRun_refines (iterStep false) (LSeqP.step false false) (fun s => LSeqP.legal false false s.2) stFlag (IterSim t m xs.length)
    (fun a s op h hl => iterStep_sim t m xs.length a s op h hl) ops (xs, c) (ofList t xs, it, m)
    ⟨rfl, h, rfl, Mem.Frame.rfl' t m, rfl, hlive, id⟩ hl
/-- the program relation of the descending iterator -/
abbrev DiterSim (t : Triple) (m0 : Mem) (n0 : Nat) (a : List Nat × LSeq.Cursor) (s : Chain × Iter × Mem) : Prop :=
  s.1 = ofList t a.1 ∧ DitRel a.1 a.2 s.2.1 ∧ LedgerRel t m0 n0 a.1.length s.2.2

theorem diterStep_sim (t : Triple) (m0 : Mem) (n0 : Nat) (a : List Nat × LSeq.Cursor) (s : Chain × Iter × Mem) (op : IOp)
    (h : DiterSim t m0 n0 a s) (hl : LSeqP.legal false true a.2 op = true) :
    (iterStep true s op).1 = (LSeqP.step false true a op (stFlag (iterStep true s op).1)).1 ∧
    DiterSim t m0 n0 (LSeqP.step false true a op (stFlag (iterStep true s op).1)).2 (iterStep true s op).2 := by
  obtain ⟨xs, c⟩ := a
  obtain ⟨l, it, m⟩ := s
  obtain ⟨hl1, hr, hm⟩ := h
  simp only at hl1 hr hm
  subst hl1
  cases op with
  | next =>
    obtain ⟨it', e, hr'⟩ := diterNext_ofList (t := t) xs c it m hr
    simp only [iterStep, LSeqP.step, if_true, e]
    exact ⟨tr, tr, hr', hm⟩
  | index =>
    simp only [iterStep, LSeqP.step, if_true, diterIndex_rel xs c it hr]
    exact ⟨tr, tr, hr, hm⟩
  | replace x =>
    obtain ⟨e, hr'⟩ := diterReplace_ofList (t := t) xs c it x m hr
    simp only [iterStep, LSeqP.step, e]
    refine ⟨tr, tr, hr', ?_⟩
    have : (LSeq.itReplace xs c x).2.2.length = xs.length := by
      unfold LSeq.itReplace; cases c.cur <;> simp
    simp only [this]; exact hm
  | remove =>
    obtain ⟨it', e, hr'⟩ := diterRemove_ofList (t := t) xs c it m hr
    simp only [iterStep, LSeqP.step, if_true, e]
    refine ⟨tr, tr, hr', ?_⟩
    simp only []
    cases hc : c.cur with
    | none => simp only [LSeq.ditRemove, hc]; exact hm
    | some k =>
      have hk : k < xs.length := (hr.cur k hc).2
      have hlive : 0 < m.liveT t := by have := hm.live; have := hm.enough; omega
      simp only [LSeq.ditRemove, hc, if_true, List.length_eraseIdx, hk]
      exact hm.eff (Mem.eff_free t m hlive) (by omega)
  | add x =>
    simp only [LSeqP.legal] at hl
    cases hc : c.cur with
    | none => simp [hc] at hl
    | some k =>
      obtain ⟨it', e, hr'⟩ := diterAdd_ofList (t := t) xs c it x k m hr hc
      have hk : k ≤ xs.length := by have := (hr.cur k hc).2; omega
      simp only [iterStep, LSeqP.step, if_true, e]
      by_cases ha : (m.allocT t).1 = true
      · simp only [ha, if_true, stFlag_ok, Bool.false_eq_true, if_false]
        refine ⟨tr, tr, hr', ?_⟩
        have : (LSeq.ditAdd xs c x).1.length = xs.length + 1 := by
          simp [LSeq.ditAdd, hc, List.length_insertIdx, hk]
        simp only [this]
        exact hm.eff (Mem.eff_alloc_true t m ha) (by omega)
      · simp only [Bool.not_eq_true] at ha
        simp only [ha, Bool.false_eq_true, if_false, stFlag_err, if_true]
        exact ⟨tr, tr, hr, hm.eff (Mem.eff_alloc_false t m ha) (by simp only [])⟩

/-- **iterator programs**: any sequence of `diter_next/remove/replace/add/index` calls that
respects the contract, under any refusal schedule, yields call by call what the ideal cursor
yields (refused `add`s did not happen), leaves the list in the canonical state of the ideal
content, the ledger consistent and raises no fault -/
theorem diter_program (t : Triple) (xs : List Nat) (c : LSeq.Cursor) (it : Iter) (m : Mem) (ops : List IOp)
    (h : DitRel xs c it) (hlive : xs.length ≤ m.liveT t)
    (hl : (LSeqP.run false true (xs, c) ops ((iterRun true (ofList t xs, it, m) ops).1.map stFlag)).2.2 = true) :
    (iterRun true (ofList t xs, it, m) ops).1 = (LSeqP.run false true (xs, c) ops ((iterRun true (ofList t xs, it, m) ops).1.map stFlag)).1 ∧
    DiterSim t m xs.length (LSeqP.run false true (xs, c) ops ((iterRun true (ofList t xs, it, m) ops).1.map stFlag)).2.1
      (iterRun true (ofList t xs, it, m) ops).2 :=
  progRun_refines (iterStep true) (LSeqP.step false true) (fun s => LSeqP.legal false true s.2) stFlag (DiterSim t m xs.length)
    (fun a s op h hl => diterStep_sim t m xs.length a s op h hl) ops (xs, c) (ofList t xs, it, m)
    ⟨rfl, h, rfl, Mem.Frame.rfl' t m, rfl, hlive, id⟩ hl

/-- the program relation of the zip iterator -/
abbrev ZipSim (t t2 : Triple) (m0 : Mem) (xs0 ys0 : List Nat) (a : List Nat × List Nat × LSeq.Cursor)
    (s : Chain × Chain × ZipIter × Mem) : Prop :=
  s.1 = ofList t a.1 ∧ s.2.1 = ofList t2 a.2.1 ∧ ZipRel a.1 a.2.1 a.2.2 s.2.2.1 ∧
  ZLedgerRel t t2 m0 xs0 ys0 a.1 a.2.1 s.2.2.2

theorem zipStep_sim (t t2 : Triple) (m0 : Mem) (xs0 ys0 : List Nat) (a : List Nat × List Nat × LSeq.Cursor)
    (s : Chain × Chain × ZipIter × Mem) (op : ZOp)
    (h : ZipSim t t2 m0 xs0 ys0 a s) (hl : LSeqP.zlegal false a.2.2 op = true) :
    (zipStep s op).1 = (LSeqP.zstep false a op (zFlag (zipStep s op).1)).1 ∧
    ZipSim t t2 m0 xs0 ys0 (LSeqP.zstep false a op (zFlag (zipStep s op).1)).2 (zipStep s op).2 := by
  obtain ⟨xs, ys, c⟩ := a
  obtain ⟨l1, l2, z, m⟩ := s
  obtain ⟨hl1, hl2, hr, hm⟩ := h
  simp only at hl1 hl2 hr hm
  subst hl1 hl2
  cases op with
  | next =>
    obtain ⟨z', e, hr'⟩ := zipNext_ofList (t := t) (t2 := t2) xs ys c z m hr
    simp only [zipStep, LSeqP.zstep, e]
    exact ⟨tr, tr, tr, hr', hm⟩
  | index =>
    simp only [zipStep, LSeqP.zstep, zipIndex_rel xs ys c z hr]
    exact ⟨tr, tr, tr, hr, hm⟩
  | replace x y =>
    obtain ⟨e, hr'⟩ := zipReplace_ofList (t := t) (t2 := t2) xs ys c z x y m hr
    simp only [zipStep, LSeqP.zstep, e]
    refine ⟨tr, tr, tr, hr', hm.same ?_ ?_⟩ <;>
    · unfold LSeq.zitReplace; cases c.cur <;> simp
  | remove =>
    obtain ⟨z', e, hr'⟩ := zipRemove_ofList (t := t) (t2 := t2) xs ys c z m hr
    simp only [zipStep, LSeqP.zstep, e]
    refine ⟨tr, tr, tr, hr', ?_⟩
    simp only []
    cases hc : c.cur with
    | none => simp only [LSeq.zitRemove, hc]; exact hm
    | some k =>
      have hkp := hr.cur k hc
      have hk1 : k < xs.length := by have := hr.le1; omega
      have hk2 : k < ys.length := by have := hr.le2; omega
      simp only [LSeq.zitRemove, hc, if_true]
      exact hm.remove (by simp only [List.length_eraseIdx, hk1, if_true]; omega)
        (by simp only [List.length_eraseIdx, hk2, if_true]; omega)
  | add x y =>
    simp only [LSeqP.zlegal] at hl
    cases hc : c.cur with
    | none => simp [hc] at hl
    | some k =>
      obtain ⟨z', e, hr'⟩ := zipAdd_ofList (t := t) (t2 := t2) xs ys c z x y k m hr hc
      have hpos := hr.cur k hc
      have hk1 : k + 1 ≤ xs.length := by have := hr.le1; omega
      have hk2 : k + 1 ≤ ys.length := by have := hr.le2; omega
      have hadd := hm.add (xs' := (LSeq.zitAdd false xs ys c x y).1) (ys' := (LSeq.zitAdd false xs ys c x y).2.1)
        (by simp [LSeq.zitAdd, hc, List.length_insertIdx, hk1]) (by simp [LSeq.zitAdd, hc, List.length_insertIdx, hk2])
      simp only [zipStep, LSeqP.zstep, e]
      by_cases ha : (m.allocT t).1 = true
      · by_cases hb : ((m.allocT t).2.allocT t2).1 = true
        · simp only [ha, hb, if_true] at hadd
          simp only [ha, hb, if_true, zFlag_ok, Bool.false_eq_true, if_false]
          exact ⟨tr, tr, tr, hr', hadd⟩
        · simp only [Bool.not_eq_true] at hb
          simp only [ha, hb, if_true, Bool.false_eq_true, if_false] at hadd
          simp only [ha, hb, if_true, Bool.false_eq_true, if_false, zFlag_err]
          exact ⟨tr, tr, tr, hr, hadd⟩
      · simp only [Bool.not_eq_true] at ha
        simp only [ha, Bool.false_eq_true, if_false] at hadd
        simp only [ha, Bool.false_eq_true, if_false, zFlag_err, if_true]
        exact ⟨tr, tr, tr, hr, hadd⟩

/-- **zip iterator programs** over two lists, each on its own allocator triple -/
theorem zip_program (t t2 : Triple) (xs ys : List Nat) (c : LSeq.Cursor) (z : ZipIter) (m : Mem) (ops : List ZOp)
    (h : ZipRel xs ys c z) (hlive : ∀ t', ownedBy t t2 xs ys t' ≤ m.liveT t')
    (hl : (LSeqP.zrun false (xs, ys, c) ops ((zipRun (ofList t xs, ofList t2 ys, z, m) ops).1.map zFlag)).2.2 = true) :
    (zipRun (ofList t xs, ofList t2 ys, z, m) ops).1 =
      (LSeqP.zrun false (xs, ys, c) ops ((zipRun (ofList t xs, ofList t2 ys, z, m) ops).1.map zFlag)).1 ∧
    ZipSim t t2 m xs ys (LSeqP.zrun false (xs, ys, c) ops ((zipRun (ofList t xs, ofList t2 ys, z, m) ops).1.map zFlag)).2.1
      (zipRun (ofList t xs, ofList t2 ys, z, m) ops).2 :=
  progRun_refines zipStep (LSeqP.zstep false) (fun s => LSeqP.zlegal false s.2.2) zFlag (ZipSim t t2 m xs ys)
    (fun a s op h hl => zipStep_sim t t2 m xs ys a s op h hl) ops (xs, ys, c) (ofList t xs, ofList t2 ys, z, m)
    ⟨rfl, rfl, h, rfl, fun _ => rfl, hlive, id⟩ hl
end DList

namespace SList
/-- the program relation of the iterator of `cc_slist.c` -/
abbrev IterSim (t : Triple) (m0 : Mem) (n0 : Nat) (a : List Nat × LSeq.Cursor) (s : Chain × Iter × Mem) : Prop :=
  s.1 = ofList t a.1 ∧ ItRel a.1 a.2 s.2.1 ∧ LedgerRel t m0 n0 a.1.length s.2.2

theorem iterStep_sim (t : Triple) (m0 : Mem) (n0 : Nat) (a : List Nat × LSeq.Cursor) (s : Chain × Iter × Mem) (op : IOp)
    (h : IterSim t m0 n0 a s) (hl : LSeqP.legal true false a.2 op = true) :
    (iterStep s op).1 = (LSeqP.step true false a op (stFlag (iterStep s op).1)).1 ∧
    IterSim t m0 n0 (LSeqP.step true false a op (stFlag (iterStep s op).1)).2 (iterStep s op).2 := by
  obtain ⟨xs, c⟩ := a
  obtain ⟨l, it, m⟩ := s
  obtain ⟨hl1, hr, hm⟩ := h
  simp only at hl1 hr hm
  subst hl1
  cases op with
  | next =>
    obtain ⟨it', e, hr'⟩ := iterNext_ofList (t := t) xs c it m hr
    simp only [iterStep, LSeqP.step, Bool.false_eq_true, if_false, e]
    exact ⟨tr, tr, hr', hm⟩
  | index =>
    simp only [iterStep, LSeqP.step, Bool.false_eq_true, if_false, iterIndex_rel xs c it hr]
    exact ⟨tr, tr, hr, hm⟩
  | replace x =>
    obtain ⟨e, hr'⟩ := iterReplace_ofList (t := t) xs c it x m hr
    simp only [iterStep, LSeqP.step, e]
    refine ⟨tr, tr, hr', ?_⟩
    have : (LSeq.itReplace xs c x).2.2.length = xs.length := by
      unfold LSeq.itReplace; cases c.cur <;> simp
    simp only [this]; exact hm
  | remove =>
    obtain ⟨it', e, hr'⟩ := iterRemove_ofList (t := t) xs c it m hr
    simp only [iterStep, LSeqP.step, Bool.false_eq_true, if_false, e]
    refine ⟨tr, tr, hr', ?_⟩
    simp only []
    cases hc : c.cur with
    | none => simp only [LSeq.itRemove, hc]; exact hm
    | some k =>
      have hk : k < xs.length := by have := hr.pos k hc; have := hr.le; omega
      have hlive : 0 < m.liveT t := by have := hm.live; have := hm.enough; omega
      simp only [LSeq.itRemove, hc, if_true, List.length_eraseIdx, hk]
      exact hm.eff (Mem.eff_free t m hlive) (by omega)
  | add x =>
    simp only [LSeqP.legal] at hl
    cases hc : c.cur with
    | none => simp [hc] at hl
    | some k =>
      obtain ⟨it', e, hr'⟩ := iterAdd_ofList (t := t) xs c it x k m hr hc
      have hk : k + 1 ≤ xs.length := by have := hr.pos k hc; have := hr.le; omega
      simp only [iterStep, LSeqP.step, Bool.false_eq_true, if_false, e]
      by_cases ha : (m.allocT t).1 = true
      · simp only [ha, if_true, stFlag_ok, Bool.false_eq_true, if_false]
        refine ⟨tr, tr, hr', ?_⟩
        have : (LSeq.itAdd true xs c x).1.length = xs.length + 1 := by
          simp [LSeq.itAdd, hc, List.length_insertIdx, hk]
        simp only [this]
        exact hm.eff (Mem.eff_alloc_true t m ha) (by omega)
      · simp only [Bool.not_eq_true] at ha
        simp only [ha, Bool.false_eq_true, if_false, stFlag_err, if_true]
        exact ⟨tr, tr, hr, hm.eff (Mem.eff_alloc_false t m ha) (by simp only [])⟩

/-- **iterator programs**: any sequence of `cc_slist_iter_next/remove/replace/add/index` calls that
respects the contract, under any refusal schedule, yields call by call what the ideal cursor
yields (refused `add`s did not happen), leaves the list in the canonical state of the ideal
content, the ledger consistent and raises no fault -/
theorem iter_program (t : Triple) (xs : List Nat) (c : LSeq.Cursor) (it : Iter) (m : Mem) (ops : List IOp)
    (h : ItRel xs c it) (hlive : xs.length ≤ m.liveT t)
    (hl : (LSeqP.run true false (xs, c) ops ((iterRun (ofList t xs, it, m) ops).1.map stFlag)).2.2 = true) :
    (iterRun (ofList t xs, it, m) ops).1 = (LSeqP.run true false (xs, c) ops ((iterRun (ofList t xs, it, m) ops).1.map stFlag)).1 ∧
    IterSim t m xs.length (LSeqP.run true false (xs, c) ops ((iterRun (ofList t xs, it, m) ops).1.map stFlag)).2.1
      (iterRun (ofList t xs, it, m) ops).2 :=
  progRun_refines (iterStep) (LSeqP.step true false) (fun s => LSeqP.legal true false s.2) stFlag (IterSim t m xs.length)
    (fun a s op h hl => iterStep_sim t m xs.length a s op h hl) ops (xs, c) (ofList t xs, it, m)
    ⟨rfl, h, rfl, Mem.Frame.rfl' t m, rfl, hlive, id⟩ hl

/-- the program relation of the zip iterator -/
abbrev ZipSim (t t2 : Triple) (m0 : Mem) (xs0 ys0 : List Nat) (a : List Nat × List Nat × LSeq.Cursor)
    (s : Chain × Chain × ZipIter × Mem) : Prop :=
  s.1 = ofList t a.1 ∧ s.2.1 = ofList t2 a.2.1 ∧ ZipRel a.1 a.2.1 a.2.2 s.2.2.1 ∧
  ZLedgerRel t t2 m0 xs0 ys0 a.1 a.2.1 s.2.2.2

theorem zipStep_sim (t t2 : Triple) (m0 : Mem) (xs0 ys0 : List Nat) (a : List Nat × List Nat × LSeq.Cursor)
    (s : Chain × Chain × ZipIter × Mem) (op : ZOp)
    (h : ZipSim t t2 m0 xs0 ys0 a s) (hl : LSeqP.zlegal true a.2.2 op = true) :
    (zipStep s op).1 = (LSeqP.zstep true a op (zFlag (zipStep s op).1)).1 ∧
    ZipSim t t2 m0 xs0 ys0 (LSeqP.zstep true a op (zFlag (zipStep s op).1)).2 (zipStep s op).2 := by
  obtain ⟨xs, ys, c⟩ := a
  obtain ⟨l1, l2, z, m⟩ := s
  obtain ⟨hl1, hl2, hr, hm⟩ := h
  simp only at hl1 hl2 hr hm
  subst hl1 hl2
  cases op with
  | next =>
    obtain ⟨z', e, hr'⟩ := zipNext_ofList (t := t) (t2 := t2) xs ys c z m hr
    simp only [zipStep, LSeqP.zstep, e]
    exact ⟨tr, tr, tr, hr', hm⟩
  | index =>
    simp only [zipStep, LSeqP.zstep, zipIndex_rel xs ys c z hr]
    exact ⟨tr, tr, tr, hr, hm⟩
  | replace x y =>
    obtain ⟨e, hr'⟩ := zipReplace_ofList (t := t) (t2 := t2) xs ys c z x y m hr
    simp only [zipStep, LSeqP.zstep, e]
    refine ⟨tr, tr, tr, hr', hm.same ?_ ?_⟩ <;>
    · unfold LSeq.zitReplace; cases c.cur <;> simp
  | remove =>
    obtain ⟨z', e, hr'⟩ := zipRemove_ofList (t := t) (t2 := t2) xs ys c z m hr
    simp only [zipStep, LSeqP.zstep, e]
    refine ⟨tr, tr, tr, hr', ?_⟩
    simp only []
    cases hc : c.cur with
    | none => simp only [LSeq.zitRemove, hc]; exact hm
    | some k =>
      have hkp : k < c.pos := by have := hr.pos k hc; omega
      have hk1 : k < xs.length := by have := hr.le1; omega
      have hk2 : k < ys.length := by have := hr.le2; omega
      simp only [LSeq.zitRemove, hc, if_true]
      exact hm.remove (by simp only [List.length_eraseIdx, hk1, if_true]; omega)
        (by simp only [List.length_eraseIdx, hk2, if_true]; omega)
  | add x y =>
    simp only [LSeqP.zlegal] at hl
    cases hc : c.cur with
    | none => simp [hc] at hl
    | some k =>
      obtain ⟨z', e, hr'⟩ := zipAdd_ofList (t := t) (t2 := t2) xs ys c z x y k m hr hc
      have hpos := hr.pos k hc
      have hk1 : k + 1 ≤ xs.length := by have := hr.le1; omega
      have hk2 : k + 1 ≤ ys.length := by have := hr.le2; omega
      have hadd := hm.add (xs' := (LSeq.zitAdd true xs ys c x y).1) (ys' := (LSeq.zitAdd true xs ys c x y).2.1)
        (by simp [LSeq.zitAdd, hc, List.length_insertIdx, hk1]) (by simp [LSeq.zitAdd, hc, List.length_insertIdx, hk2])
      simp only [zipStep, LSeqP.zstep, e]
      by_cases ha : (m.allocT t).1 = true
      · by_cases hb : ((m.allocT t).2.allocT t2).1 = true
        · simp only [ha, hb, if_true] at hadd
          simp only [ha, hb, if_true, zFlag_ok, Bool.false_eq_true, if_false]
          exact ⟨tr, tr, tr, hr', hadd⟩
        · simp only [Bool.not_eq_true] at hb
          simp only [ha, hb, if_true, Bool.false_eq_true, if_false] at hadd
          simp only [ha, hb, if_true, Bool.false_eq_true, if_false, zFlag_err]
          exact ⟨tr, tr, tr, hr, hadd⟩
      · simp only [Bool.not_eq_true] at ha
        simp only [ha, Bool.false_eq_true, if_false] at hadd
        simp only [ha, Bool.false_eq_true, if_false, zFlag_err, if_true]
        exact ⟨tr, tr, tr, hr, hadd⟩

/-- **zip iterator programs** over two lists, each on its own allocator triple -/
theorem zip_program (t t2 : Triple) (xs ys : List Nat) (c : LSeq.Cursor) (z : ZipIter) (m : Mem) (ops : List ZOp)
    (h : ZipRel xs ys c z) (hlive : ∀ t', ownedBy t t2 xs ys t' ≤ m.liveT t')
    (hl : (LSeqP.zrun true (xs, ys, c) ops ((zipRun (ofList t xs, ofList t2 ys, z, m) ops).1.map zFlag)).2.2 = true) :
    (zipRun (ofList t xs, ofList t2 ys, z, m) ops).1 =
      (LSeqP.zrun true (xs, ys, c) ops ((zipRun (ofList t xs, ofList t2 ys, z, m) ops).1.map zFlag)).1 ∧
    ZipSim t t2 m xs ys (LSeqP.zrun true (xs, ys, c) ops ((zipRun (ofList t xs, ofList t2 ys, z, m) ops).1.map zFlag)).2.1
      (zipRun (ofList t xs, ofList t2 ys, z, m) ops).2 :=
  progRun_refines zipStep (LSeqP.zstep true) (fun s => LSeqP.zlegal true s.2.2) zFlag (ZipSim t t2 m xs ys)
    (fun a s op h hl => zipStep_sim t t2 m xs ys a s op h hl) ops (xs, ys, c) (ofList t xs, ofList t2 ys, z, m)
    ⟨rfl, rfl, h, rfl, fun _ => rfl, hlive, id⟩ hl
end SList

end CC
