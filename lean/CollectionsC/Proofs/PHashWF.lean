import CollectionsC.Proofs.PHashIter
/-! Pointer-level hash table: well-formedness (`WF` = heap shape + the representation invariant of the
table read off the heap), what it means node by node, its preservation by every operation, and
histories / iterator programs run on the heap against the same programs on the bucket-list model. -/
namespace CC.PHash
open CC CC.HT CC.Spec

/-- well-formed heap table: the heap has the shape of some ghost id lists, and the bucket-list table
read off it satisfies the representation invariant of `Model/HashTable.lean` -/
def WF (c : HCfg) (t : PTable) : Prop := (∃ idss, Shape t idss) ∧ (PTable.toTable t).Inv c

theorem WF.geo {c : HCfg} {t : PTable} (h : WF c t) : Geo t := by
  obtain ⟨⟨idss, hs⟩, ⟨k, _, hk⟩, hlen, _⟩ := h
  exact ⟨⟨k, hk⟩, by rw [toTable_len] at hlen; exact hlen⟩

theorem keysDistinct_of_inv {c : HCfg} {t : PTable} {idss : List (List Nat)} (hs : Shape t idss)
    (hi : (PTable.toTable t).Inv c) : KeysDistinct t idss := by
  obtain ⟨_, _, _, _, hnd, _⟩ := hi
  rw [toTable_eq hs] at hnd
  simp only at hnd
  rw [ents_flatten] at hnd
  unfold KeysDistinct
  unfold ents at hnd
  rw [List.map_map] at hnd
  exact hnd

/-- `WF` spelled out node by node -/
theorem WF.means {c : HCfg} {t : PTable} (h : WF c t) : ∃ idss : List (List Nat),
    idss.length = t.buckets.length ∧ t.buckets.length = t.capacity ∧
    (∀ i, IsChain t.heap (t.bucket i) (idss.getD i [])) ∧
    idss.flatten.Nodup ∧
    (∀ id, (t.heap.get id).isSome = true ↔ id ∈ idss.flatten) ∧
    (∀ id, id ∈ idss.flatten → id < t.fresh) ∧
    (∀ i id, id ∈ idss.getD i [] → i < t.capacity ∧ (nd t.heap id).hash &&& (t.capacity - 1) = i ∧
      (nd t.heap id).hash = keyHash c (nd t.heap id).key) ∧
    (∀ a b, (t.heap.get a).isSome = true → (t.heap.get b).isSome = true → (nd t.heap a).key = (nd t.heap b).key → a = b) ∧
    t.size = idss.flatten.length := by
  have hg := h.geo
  obtain ⟨⟨idss, hs⟩, hinv⟩ := h
  have hk := keysDistinct_of_inv hs hinv
  obtain ⟨⟨k, _, hcap⟩, hlen, hsize, hok, _, _⟩ := hinv
  refine ⟨idss, hs.len, hg.len, fun i => hs.chains.get i, hs.nodup, hs.live, hs.bound, ?_, ?_, ?_⟩
  · intro i id hid
    have hi : i < idss.length := by
      by_cases hi : i < idss.length
      · exact hi
      · rw [List.getD_eq_getElem?_getD, List.getElem?_eq_none (by omega)] at hid; cases hid
    have hi2 : i < (PTable.toTable t).buckets.length := by rw [toTable_len, ← hs.len]; exact hi
    have := hok i hi2 (toEntry (nd t.heap id)) (by rw [hs.bucket_eq]; exact List.mem_map.mpr ⟨id, hid, rfl⟩)
    have hcap2 : t.capacity = 2 ^ k := hcap
    refine ⟨by rw [← hg.len, ← hs.len]; exact hi, ?_, this.1⟩
    rw [hcap2, mask_eq_mod, ← hcap2]
    exact this.2
  · intro a b ha hb hab
    exact nodup_map_inj hk ((hs.live a).mp ha) ((hs.live b).mp hb) hab
  · rw [toTable_eq hs] at hsize
    simp only at hsize
    rw [ents_flatten, ents_length] at hsize
    exact hsize

/-! ### the table component of `remove` / `remove_all` of the bucket-list model does not look at the ledger -/
theorem lremove_table (c : HCfg) (t : HashTable) (key : Option Nat) (m m' : Mem) :
    (t.remove c key m).2.2.1 = (t.remove c key m').2.2.1 := by
  unfold HashTable.remove
  simp only
  split <;> rfl

theorem lremove_inv (c : HCfg) (t : HashTable) (key : Option Nat) (m : Mem) (h : t.Inv c) :
    (t.remove c key m).2.2.1.Inv c := by
  rw [lremove_table c t key m { live := 1, liveLibc := 1 }]
  exact (HashTable.remove_spec c t key { live := 1, liveLibc := 1 } h (fun _ => by cases t.triple <;> decide)).1

theorem lremoveAll_inv (c : HCfg) (t : HashTable) (m : Mem) (h : t.Inv c) : (t.removeAll m).1.Inv c := by
  have : (t.removeAll m).1 = (t.removeAll { live := t.size, liveLibc := t.size }).1 := rfl
  rw [this]
  exact (HashTable.removeAll_spec c t { live := t.size, liveLibc := t.size } h
    (by cases t.triple <;> exact Nat.le_refl _)).1

/-! ### every operation preserves `WF` and commutes with the bucket-list model -/

theorem add_wf (c : HCfg) {t : PTable} (h : WF c t) (key : Option Nat) (v : Nat) (m : Mem) :
    WF c (t.add c key v m).2.1 ∧
    ((t.add c key v m).1, PTable.toTable (t.add c key v m).2.1, (t.add c key v m).2.2) = (PTable.toTable t).add c key v m ∧
    (∀ id, id ≠ t.fresh → ((t.add c key v m).2.1.heap.get id).isSome = (t.heap.get id).isSome) ∧
    t.fresh ≤ (t.add c key v m).2.1.fresh ∧ (t.add c key v m).2.1.fresh ≤ t.fresh + 1 := by
  obtain ⟨idss, hs⟩ := h.1
  obtain ⟨e, idss', hs', _, l, f1, f2⟩ := add_spec c hs h.geo key v m
  refine ⟨⟨⟨idss', hs'⟩, ?_⟩, e, l, f1, f2⟩
  have := (HashTable.add_spec c _ key v m h.2).1
  rw [← e] at this
  exact this

theorem remove_wf (c : HCfg) {t : PTable} (h : WF c t) (key : Option Nat) (m : Mem) :
    WF c (t.remove c key m).2.2.1 ∧
    ((t.remove c key m).1, (t.remove c key m).2.1, PTable.toTable (t.remove c key m).2.2.1, (t.remove c key m).2.2.2) =
        (PTable.toTable t).remove c key m := by
  obtain ⟨idss, hs⟩ := h.1
  obtain ⟨e, hno, hok⟩ := remove_spec c hs key m (h.geo.index_lt _)
  refine ⟨⟨?_, ?_⟩, e⟩
  · by_cases hst : (t.remove c key m).1 = .ok
    · obtain ⟨_, idss', id, hu⟩ := hok hst
      exact ⟨idss', hu.shape⟩
    · rw [(hno hst).1]; exact ⟨idss, hs⟩
  · have := lremove_inv c _ key m h.2
    rw [← e] at this
    exact this

theorem removeAll_wf (c : HCfg) {t : PTable} (h : WF c t) (m : Mem) :
    WF c (t.removeAll m).1 ∧ (PTable.toTable (t.removeAll m).1, (t.removeAll m).2) = (PTable.toTable t).removeAll m := by
  obtain ⟨idss, hs⟩ := h.1
  obtain ⟨e, hs', _⟩ := removeAll_spec hs h.geo.len m
  refine ⟨⟨⟨_, hs'⟩, ?_⟩, e⟩
  have := lremoveAll_inv c _ m h.2
  rw [← e] at this
  exact this

theorem new_wf (c : HCfg) (initCap : Nat) (tr : Triple) (m : Mem) :
    ((PTable.new c initCap tr m).1, (PTable.new c initCap tr m).2.1.map PTable.toTable, (PTable.new c initCap tr m).2.2) =
        HashTable.new c initCap tr m ∧
    ∀ t, (PTable.new c initCap tr m).2.1 = some t → WF c t := by
  obtain ⟨e, hn⟩ := new_spec c initCap tr m
  refine ⟨e, fun t ht => ?_⟩
  obtain ⟨hs, _⟩ := hn t ht
  refine ⟨⟨_, hs⟩, ?_⟩
  have h2 := (HashTable.new_spec c initCap tr m).2.2.1
  rw [← e] at h2
  simp only [ht, Option.map_some] at h2
  exact (h2 _ rfl).2.1

theorem get_wf (c : HCfg) {t : PTable} (h : WF c t) (key : Option Nat) (m : Mem) :
    t.get c key m = (PTable.toTable t).get c key m := by
  obtain ⟨idss, hs⟩ := h.1
  exact get_comm c hs key m

theorem containsKey_wf (c : HCfg) {t : PTable} (h : WF c t) (key : Option Nat) (m : Mem) :
    t.containsKey c key m = (PTable.toTable t).containsKey c key m := by
  obtain ⟨idss, hs⟩ := h.1
  exact containsKey_comm c hs key m

theorem destroy_wf (c : HCfg) {t : PTable} (h : WF c t) (m : Mem) : t.destroy m = (PTable.toTable t).destroy m := by
  obtain ⟨idss, hs⟩ := h.1
  exact destroy_comm hs h.geo.len m

/-- `resize(capacity << 1)`, the call `cc_hashtable_add` makes -/
theorem resize_wf (c : HCfg) {t : PTable} (h : WF c t) (m : Mem) :
    WF c (t.resize c (t.capacity <<< 1) m).2.1 ∧
    ((t.resize c (t.capacity <<< 1) m).1, PTable.toTable (t.resize c (t.capacity <<< 1) m).2.1,
      (t.resize c (t.capacity <<< 1) m).2.2) = (PTable.toTable t).resize c ((PTable.toTable t).capacity <<< 1) m ∧
    (∀ y, ((t.resize c (t.capacity <<< 1) m).2.1.heap.get y).isSome = (t.heap.get y).isSome) ∧
    (∀ y, toEntry (nd (t.resize c (t.capacity <<< 1) m).2.1.heap y) = toEntry (nd t.heap y)) ∧
    (t.resize c (t.capacity <<< 1) m).2.1.fresh = t.fresh ∧
    ((t.resize c (t.capacity <<< 1) m).1 = .ok →
      (t.resize c (t.capacity <<< 1) m).2.2 = (m.allocT t.triple).2.freeT t.triple) ∧
    ((t.resize c (t.capacity <<< 1) m).1 ≠ .ok → (t.resize c (t.capacity <<< 1) m).2.1 = t) := by
  obtain ⟨idss, hs⟩ := h.1
  have hg := h.geo
  obtain ⟨k, hk⟩ := hg.pow
  have hsh : t.capacity <<< 1 = 2 ^ (k + 1) := by
    have : t.capacity <<< 1 = t.capacity * 2 := by simp [Nat.shiftLeft_eq]
    rw [this, hk]; exact (Nat.pow_succ ..).symm
  have hmask : ∀ h : Nat, h &&& (t.capacity <<< 1 - 1) < t.capacity <<< 1 := by
    intro h; rw [hsh, mask_eq_mod]; exact Nat.mod_lt _ (Nat.two_pow_pos _)
  obtain ⟨e, idss', hs', _, l, te, f, ok, nok⟩ := resize_spec c hs hg.len (t.capacity <<< 1) hmask m
  refine ⟨⟨⟨idss', hs'⟩, ?_⟩, e, l, te, f, fun h => (ok h).2.2, nok⟩
  by_cases hmax : t.capacity = Gen.MAX_POW_TWO
  · have : (t.resize c (t.capacity <<< 1) m).2.1 = t := by unfold PTable.resize; rw [if_pos hmax]
    rw [this]; exact h.2
  · have hspec := HashTable.resize_spec c (PTable.toTable t) m h.2 hmax
    simp only at hspec
    rw [show (PTable.toTable t).capacity = t.capacity from rfl, ← e] at hspec
    cases ha : (m.allocT t.triple).1 with
    | false =>
      have := hspec.1 ha
      simp only [Prod.mk.injEq] at this
      rw [this.2.1]; exact h.2
    | true => exact (hspec.2 ha).2.1

/-! ### histories -/

theorem step_wf (c : HCfg) {t : PTable} (h : WF c t) (op : Spec.Map.Op) (m : Mem) :
    WF c (t.step c op m).2.1 ∧
    ((t.step c op m).1, PTable.toTable (t.step c op m).2.1, (t.step c op m).2.2) = (PTable.toTable t).step c op m := by
  cases op with
  | add k v =>
    obtain ⟨w, e, _⟩ := add_wf c h k v m
    refine ⟨w, ?_⟩
    unfold PTable.step HashTable.step
    simp only
    rw [← e]
  | get k =>
    refine ⟨h, ?_⟩
    unfold PTable.step HashTable.step
    simp only
    rw [get_wf c h]
  | containsKey k =>
    refine ⟨h, ?_⟩
    unfold PTable.step HashTable.step
    simp only
    rw [containsKey_wf c h]
  | remove k =>
    obtain ⟨w, e⟩ := remove_wf c h k m
    refine ⟨w, ?_⟩
    unfold PTable.step HashTable.step
    simp only
    rw [← e]
  | removeAll =>
    obtain ⟨w, e⟩ := removeAll_wf c h m
    refine ⟨w, ?_⟩
    unfold PTable.step HashTable.step
    simp only
    rw [← e]

theorem run_wf (c : HCfg) (ops : List Spec.Map.Op) : ∀ {t : PTable} (_ : WF c t) (m : Mem),
    WF c (t.run c ops m).2.2.1 ∧
    ((t.run c ops m).1, (t.run c ops m).2.1, PTable.toTable (t.run c ops m).2.2.1, (t.run c ops m).2.2.2) =
        (PTable.toTable t).run c ops m := by
  induction ops with
  | nil => intro t h m; exact ⟨h, rfl⟩
  | cons op ops ih =>
    intro t h m
    obtain ⟨w, e⟩ := step_wf c h op m
    obtain ⟨w2, e2⟩ := ih w (t.step c op m).2.2
    refine ⟨w2, ?_⟩
    have hr : t.run c (op :: ops) m = ((t.step c op m).1 :: ((t.step c op m).2.1.run c ops (t.step c op m).2.2).1,
        HashTable.failedOf op (t.step c op m).1 :: ((t.step c op m).2.1.run c ops (t.step c op m).2.2).2.1,
        ((t.step c op m).2.1.run c ops (t.step c op m).2.2).2.2.1,
        ((t.step c op m).2.1.run c ops (t.step c op m).2.2).2.2.2) := rfl
    have hl : (PTable.toTable t).run c (op :: ops) m =
        (((PTable.toTable t).step c op m).1 :: (((PTable.toTable t).step c op m).2.1.run c ops ((PTable.toTable t).step c op m).2.2).1,
        HashTable.failedOf op ((PTable.toTable t).step c op m).1 :: (((PTable.toTable t).step c op m).2.1.run c ops ((PTable.toTable t).step c op m).2.2).2.1,
        (((PTable.toTable t).step c op m).2.1.run c ops ((PTable.toTable t).step c op m).2.2).2.2.1,
        (((PTable.toTable t).step c op m).2.1.run c ops ((PTable.toTable t).step c op m).2.2).2.2.2) := rfl
    rw [hr, hl, ← e]
    simp only
    rw [← e2]

/-! ### iterator programs -/

/-- one iterator call on the heap (the yielded entry is read through the yielded id) -/
def piterStep (c : HCfg) (t : PTable) (it : PIter) (op : HashTable.IterOp) (m : Mem) :
    HashTable.IterOut × PTable × PIter × Mem :=
  match op with
  | .next => (((t.iterNext it m).1, (t.iterNext it m).2.1.map (fun id => toEntry (nd t.heap id)), none), t,
      (t.iterNext it m).2.2.1, (t.iterNext it m).2.2.2)
  | .remove => (((t.iterRemove c it m).1, none, (t.iterRemove c it m).2.1), (t.iterRemove c it m).2.2.1,
      (t.iterRemove c it m).2.2.2.1, (t.iterRemove c it m).2.2.2.2)

def piterRun (c : HCfg) : List HashTable.IterOp → PTable → PIter → Mem → List HashTable.IterOut × PTable × PIter × Mem
  | [], t, it, m => ([], t, it, m)
  | op :: ops, t, it, m =>
    let s := piterStep c t it op m
    let r := piterRun c ops s.2.1 s.2.2.1 s.2.2.2
    (s.1 :: r.1, r.2)

/-- the saved ids of the iterator are NULL or name live entries -/
def ItLive (t : PTable) (it : PIter) : Prop :=
  (∀ id, it.prev = some id → (t.heap.get id).isSome = true) ∧ (∀ id, it.next = some id → (t.heap.get id).isSome = true)

/-- iterator validity against a well-formed table -/
def ItWF (t : PTable) (it : PIter) : Prop := ∃ idss, Shape t idss ∧ ItOk t idss it

theorem ItWF.live {t : PTable} {it : PIter} (h : ItWF t it) : ItLive t it := by
  obtain ⟨idss, hs, hit⟩ := h
  exact ⟨hit.prev_live, fun id hn => hs.mem_live _ id (hit.next_in id hn)⟩

theorem iterInit_wf (c : HCfg) {t : PTable} (h : WF c t) (m : Mem) :
    ItWF t (t.iterInit m).1 ∧ (t.toIter (t.iterInit m).1, (t.iterInit m).2) = (PTable.toTable t).iterInit m := by
  obtain ⟨idss, hs⟩ := h.1
  obtain ⟨e, hit⟩ := iterInit_spec hs m
  exact ⟨⟨idss, hs, hit⟩, e⟩

theorem piterStep_wf (c : HCfg) {t : PTable} (h : WF c t) (it : PIter) (hit : ItWF t it) (op : HashTable.IterOp) (m : Mem) :
    WF c (piterStep c t it op m).2.1 ∧ ItWF (piterStep c t it op m).2.1 (piterStep c t it op m).2.2.1 ∧
    ((piterStep c t it op m).1, PTable.toTable (piterStep c t it op m).2.1,
      (piterStep c t it op m).2.1.toIter (piterStep c t it op m).2.2.1, (piterStep c t it op m).2.2.2) =
        HashTable.iterStep c (PTable.toTable t) (t.toIter it) op m := by
  obtain ⟨idss, hs, hok⟩ := hit
  have hk := keysDistinct_of_inv hs h.2
  cases op with
  | next =>
    obtain ⟨e, hok', _⟩ := iterNext_spec hs hk it hok m
    refine ⟨h, ⟨idss, hs, hok'⟩, ?_⟩
    unfold piterStep HashTable.iterStep
    simp only
    rw [← e]
  | remove =>
    obtain ⟨e, idss', hs', hok', _⟩ := iterRemove_spec c hs h.geo hk it hok m
    have hinv : (PTable.toTable (t.iterRemove c it m).2.2.1).Inv c := by
      have h1 : (PTable.toTable (t.iterRemove c it m).2.2.1) = ((PTable.toTable t).iterRemove c (t.toIter it) m).2.2.1 := by
        rw [← e]
      rw [h1]
      unfold HashTable.iterRemove
      split
      · exact h.2
      · exact lremove_inv c _ _ m h.2
    refine ⟨⟨⟨idss', hs'⟩, hinv⟩, ⟨idss', hs', hok'⟩, ?_⟩
    unfold piterStep HashTable.iterStep
    simp only
    rw [← e]

theorem piterRun_wf (c : HCfg) (ops : List HashTable.IterOp) : ∀ {t : PTable} (_ : WF c t) (it : PIter) (_ : ItWF t it) (m : Mem),
    WF c (piterRun c ops t it m).2.1 ∧ ItWF (piterRun c ops t it m).2.1 (piterRun c ops t it m).2.2.1 ∧
    ((piterRun c ops t it m).1, PTable.toTable (piterRun c ops t it m).2.1,
      (piterRun c ops t it m).2.1.toIter (piterRun c ops t it m).2.2.1, (piterRun c ops t it m).2.2.2) =
        HashTable.iterRun c ops (PTable.toTable t) (t.toIter it) m := by
  induction ops with
  | nil => intro t h it hit m; exact ⟨h, hit, rfl⟩
  | cons op ops ih =>
    intro t h it hit m
    obtain ⟨w, iw, e⟩ := piterStep_wf c h it hit op m
    obtain ⟨w2, iw2, e2⟩ := ih w (piterStep c t it op m).2.2.1 iw (piterStep c t it op m).2.2.2
    refine ⟨w2, iw2, ?_⟩
    have hr : piterRun c (op :: ops) t it m = ((piterStep c t it op m).1 ::
        (piterRun c ops (piterStep c t it op m).2.1 (piterStep c t it op m).2.2.1 (piterStep c t it op m).2.2.2).1,
        (piterRun c ops (piterStep c t it op m).2.1 (piterStep c t it op m).2.2.1 (piterStep c t it op m).2.2.2).2) := rfl
    have hl : HashTable.iterRun c (op :: ops) (PTable.toTable t) (t.toIter it) m =
        ((HashTable.iterStep c (PTable.toTable t) (t.toIter it) op m).1 ::
          (HashTable.iterRun c ops (HashTable.iterStep c (PTable.toTable t) (t.toIter it) op m).2.1
            (HashTable.iterStep c (PTable.toTable t) (t.toIter it) op m).2.2.1
            (HashTable.iterStep c (PTable.toTable t) (t.toIter it) op m).2.2.2).1,
         (HashTable.iterRun c ops (HashTable.iterStep c (PTable.toTable t) (t.toIter it) op m).2.1
            (HashTable.iterStep c (PTable.toTable t) (t.toIter it) op m).2.2.1
            (HashTable.iterStep c (PTable.toTable t) (t.toIter it) op m).2.2.2).2) := rfl
    rw [hr, hl, ← e]
    simp only
    rw [← e2]

end CC.PHash
