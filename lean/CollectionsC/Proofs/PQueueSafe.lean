import CollectionsC.Proofs.PQueueCross
/-! Memory safety of the heap operations **independent of the comparator**: the index checks of the
sift-up loop, of `heapify` and of push/pop depend only on the shape of the queue
(`size ≤ capacity = buffer length ≤ CC_MAX_ELEMENTS / sizeof(void*)`), not on heap order and not on
the comparator being a total preorder (a broken user comparator can destroy the order, never memory). -/
namespace CC
open Gen (ccParent ccLeft ccRight)
namespace PQueue

/-- the structural part of the invariant -/
def Shape (q : PQueue) : Prop :=
  q.size ≤ q.capacity ∧ q.capacity = q.buf.length ∧ 0 < q.capacity ∧ q.capacity ≤ Gen.CC_MAX_ELEMENTS / ptrSize

theorem inv_shape (cmp : Nat → Nat → Int) (q : PQueue) (h : Inv' cmp q) : Shape q := ⟨h.1.1, h.1.2.1, h.1.2.2.1, h.2⟩

theorem siftUp_safe (cmp : Nat → Nat → Int) : ∀ (i : Nat) (b : Buf Nat) (m : Mem), i < b.length →
    (siftUp cmp b i m).2 = m ∧ (siftUp cmp b i m).1.length = b.length := by
  intro i
  induction i using Nat.strongRecOn with
  | _ i ih =>
    intro b m hi
    by_cases hc : i ≠ 0 ∧ cmp (b.get i) (b.get (ccParent i)) > 0
    · have hck : m.check (decide (i < b.length)) = m := by simp [hi]
      rw [siftUp_pos cmp b i m hc, hck]
      have hp := ccParent_lt i hc.1
      have := ih _ hp (swap b i (ccParent i)) m (by simp; omega)
      exact ⟨this.1, by rw [this.2]; simp⟩
    · rw [siftUp_neg cmp b i m hc]; exact ⟨rfl, rfl⟩

theorem heapify_full (cmp : Nat → Nat → Int) (b : Buf Nat) (n i : Nat) (m : Mem) (hs : ¬ n ≤ 1)
    (hb : pick cmp b n i ≠ i) :
    heapify cmp b n i m = heapify cmp (swap b i (pick cmp b n i)) n (pick cmp b n i)
      (m.check (i < b.length && (!(ccLeft i < n) || ccLeft i < b.length) && (!(ccRight i < n) || ccRight i < b.length))) := by
  rw [heapify, if_neg hs]; dsimp only; rw [dif_pos hb]
theorem heapify_stop (cmp : Nat → Nat → Int) (b : Buf Nat) (n i : Nat) (m : Mem) (hs : ¬ n ≤ 1)
    (hb : ¬ pick cmp b n i ≠ i) :
    heapify cmp b n i m = (b, m.check (i < b.length && (!(ccLeft i < n) || ccLeft i < b.length) &&
      (!(ccRight i < n) || ccRight i < b.length))) := by
  rw [heapify, if_neg hs]; dsimp only; rw [dif_neg hb]

theorem heapify_check (b : Buf Nat) (n i : Nat) (m : Mem) (hi : i < n) (hn : n ≤ b.length) :
    m.check (decide (i < b.length) && (!decide (ccLeft i < n) || decide (ccLeft i < b.length)) &&
      (!decide (ccRight i < n) || decide (ccRight i < b.length))) = m := by
  have a1 : i < b.length := by omega
  have a2 : (!decide (ccLeft i < n) || decide (ccLeft i < b.length)) = true := by
    by_cases h : ccLeft i < n
    · have : ccLeft i < b.length := by omega
      simp [h, this]
    · simp [h]
  have a3 : (!decide (ccRight i < n) || decide (ccRight i < b.length)) = true := by
    by_cases h : ccRight i < n
    · have : ccRight i < b.length := by omega
      simp [h, this]
    · simp [h]
  simp [a1, a2, a3]

theorem heapify_safe (cmp : Nat → Nat → Int) (n : Nat) : ∀ (d i : Nat) (b : Buf Nat) (m : Mem), n - i = d → i < n →
    n ≤ b.length → (heapify cmp b n i m).2 = m ∧ (heapify cmp b n i m).1.length = b.length := by
  intro d
  induction d using Nat.strongRecOn with
  | _ d ih =>
    intro i b m hd hi hn
    by_cases hsmall : n ≤ 1
    · rw [heapify_small cmp b n i m hsmall]; exact ⟨rfl, rfl⟩
    · by_cases hbig : pick cmp b n i ≠ i
      · rw [heapify_full cmp b n i m hsmall hbig, heapify_check b n i m hi hn]
        have hpc := pick_cases cmp b n i
        have hlt : pick cmp b n i < n ∧ i < pick cmp b n i := by
          simp only [ccLeft, ccRight] at hpc; omega
        have := ih (n - pick cmp b n i) (by omega) (pick cmp b n i) (swap b i (pick cmp b n i)) m rfl hlt.1 (by simpa using hn)
        exact ⟨this.1, by rw [this.2]; simp⟩
      · rw [heapify_stop cmp b n i m hsmall hbig, heapify_check b n i m hi hn]; exact ⟨rfl, rfl⟩

/-- `expand_capacity` keeps the shape, the size and the ledger balance, whatever the growth law -/
theorem expand_safe (grow : Nat → Nat) (q : PQueue) (m : Mem) (h : Shape q) (hl : 0 < m.liveT q.triple) :
    Shape (expandCapacity grow q m).2.1 ∧ (expandCapacity grow q m).2.1.size = q.size ∧
    ((expandCapacity grow q m).1 = .ok → q.capacity < (expandCapacity grow q m).2.1.capacity) ∧
    (expandCapacity grow q m).2.2.liveT q.triple = m.liveT q.triple ∧ (expandCapacity grow q m).2.2.fault = m.fault := by
  obtain ⟨h1, h2, h3, h5⟩ := h
  unfold expandCapacity; dsimp only
  by_cases hmax : q.capacity = Gen.CC_MAX_ELEMENTS
  · simp only [hmax, if_true]; exact ⟨⟨h1, h2, h3, h5⟩, (by first | rfl | trivial), (fun e => by simp at e), (by first | rfl | trivial), (by first | rfl | trivial)⟩
  · simp only [hmax, if_false]
    have hnc1 := newCapacity_gt grow q h5
    by_cases hbytes : newCapacity grow q > Gen.CC_MAX_ELEMENTS / ptrSize
    · simp only [hbytes, if_true]; exact ⟨⟨h1, h2, h3, h5⟩, (by first | rfl | trivial), (fun e => by simp at e), (by first | rfl | trivial), (by first | rfl | trivial)⟩
    simp only [hbytes, if_false]
    cases ha : (m.allocT q.triple).1
    · have := Mem.allocT_false m q.triple ha
      simp only [Bool.not_false, if_true]
      exact ⟨⟨h1, h2, h3, h5⟩, (by first | rfl | trivial), (fun e => by simp at e), this.1, this.2.1⟩
    · have ea := Mem.allocT_true m q.triple ha
      have hck : (decide (q.size ≤ q.buf.length) && decide (q.size ≤ newCapacity grow q)) = true := by
        have a1 : q.size ≤ q.buf.length := by omega
        have a2 : q.size ≤ newCapacity grow q := by omega
        simp [a1, a2]
      simp only [Bool.not_true, Bool.false_eq_true, if_false, hck, Mem.check_true]
      have hfree := Mem.freeT_pos (m.allocT q.triple).2 q.triple (by rw [ea.1]; omega)
      refine ⟨⟨by show q.size ≤ newCapacity grow q; omega, by simp, by show 0 < newCapacity grow q; omega,
        by show newCapacity grow q ≤ _; omega⟩, (by first | rfl | trivial), fun _ => hnc1, ?_, ?_⟩
      · rw [hfree.1, ea.1]; omega
      · rw [hfree.2.1, ea.2.1]

theorem storeSift_safe (cmp : Nat → Nat → Int) (q : PQueue) (x : Nat) (m : Mem) (h : Shape q) (hroom : q.size < q.capacity) :
    Shape (storeSift cmp q x m).2.1 ∧ (storeSift cmp q x m).2.2 = m := by
  obtain ⟨h1, h2, h3, h5⟩ := h
  have hlen : q.size < q.buf.length := by omega
  unfold storeSift; dsimp only
  simp only [hlen, decide_true, Mem.check_true]
  by_cases h0 : q.size = 0
  · simp only [h0, if_true]
    exact ⟨⟨by show 0 + 1 ≤ q.capacity; omega, by simpa using h2, h3, h5⟩, (by first | rfl | trivial)⟩
  · simp only [h0, if_false]
    have hs := siftUp_safe cmp q.size (q.buf.put q.size x) m (by simp; omega)
    exact ⟨⟨by show q.size + 1 ≤ q.capacity; omega, by show q.capacity = _; rw [hs.2]; simpa using h2, h3, h5⟩, hs.1⟩

open Spec.PQ (Op) in
/-- **every operation is memory-safe for every comparator**: from the shape alone, a step keeps the
shape, sets no fault flag and keeps the ledger of the queue's triple balanced -/
theorem step_safe (cmp : Nat → Nat → Int) (grow : Nat → Nat) (q : PQueue) (op : Op) (m : Mem) (h : Shape q)
    (hl : 0 < m.liveT q.triple) :
    Shape (step cmp grow q op m).2.1 ∧ (step cmp grow q op m).2.2.fault = m.fault ∧
    (step cmp grow q op m).2.2.liveT q.triple = m.liveT q.triple := by
  cases op with
  | push x =>
    simp only [step]
    rw [push_eq]
    by_cases hfull : q.size ≥ q.capacity
    · simp only [hfull, if_true]
      have he := expand_safe grow q m h hl
      by_cases hok : (expandCapacity grow q m).1 = .ok
      · have : ((expandCapacity grow q m).1 != .ok) = false := by rw [hok]; rfl
        simp only [this, Bool.false_eq_true, if_false]
        have hroom : (expandCapacity grow q m).2.1.size < (expandCapacity grow q m).2.1.capacity := by
          have := he.2.2.1 hok; have := h.1; rw [he.2.1]; omega
        have hs := storeSift_safe cmp _ x (expandCapacity grow q m).2.2 he.1 hroom
        rw [hs.2]; exact ⟨hs.1, he.2.2.2.2, he.2.2.2.1⟩
      · have : ((expandCapacity grow q m).1 != .ok) = true := by
          cases hst : (expandCapacity grow q m).1 <;> first | exact (hok hst).elim | rfl
        simp only [this, if_true]
        exact ⟨he.1, he.2.2.2.2, he.2.2.2.1⟩
    · simp only [hfull, if_false]
      have hs := storeSift_safe cmp q x m h (by omega)
      rw [hs.2]; exact ⟨hs.1, rfl, rfl⟩
  | top =>
    obtain ⟨h1, h2, h3, _⟩ := h
    simp only [step, top]
    split
    · exact ⟨⟨h1, h2, h3, by assumption⟩, (by first | rfl | trivial), (by first | rfl | trivial)⟩
    · have : 0 < q.buf.length := by omega
      simp only [this, decide_true, Mem.check_true]
      exact ⟨⟨h1, h2, h3, by assumption⟩, (by first | rfl | trivial), (by first | rfl | trivial)⟩
  | pop =>
    obtain ⟨h1, h2, h3, h5⟩ := h
    simp only [step, pop, popOut]
    split
    · exact ⟨⟨h1, h2, h3, h5⟩, (by first | rfl | trivial), (by first | rfl | trivial)⟩
    · rename_i h0
      have hlen : q.size - 1 < q.buf.length := by omega
      simp only [hlen, decide_true, Mem.check_true]
      by_cases hs : q.size - 1 ≤ 1
      · rw [heapify_small _ _ _ _ _ hs]
        exact ⟨⟨by show q.size - 1 ≤ q.capacity; omega, by simpa using h2, h3, h5⟩, (by first | rfl | trivial), (by first | rfl | trivial)⟩
      · have := heapify_safe cmp (q.size - 1) (q.size - 1 - 0) 0 (swap q.buf 0 (q.size - 1)) m rfl (by omega) (by simp; omega)
        refine ⟨⟨by show q.size - 1 ≤ q.capacity; omega, ?_, h3, h5⟩, by rw [this.1], by rw [this.1]⟩
        show q.capacity = _
        rw [this.2]; simpa using h2

open Spec.PQ (Op) in
theorem run_safe (cmp : Nat → Nat → Int) (grow : Nat → Nat) (ops : List Op) (q : PQueue) (m : Mem) (h : Shape q)
    (hl : 0 < m.liveT q.triple) :
    Shape (run cmp grow q ops m).2.1 ∧ (run cmp grow q ops m).2.2.fault = m.fault ∧
    (run cmp grow q ops m).2.2.liveT q.triple = m.liveT q.triple := by
  induction ops generalizing q m with
  | nil => exact ⟨h, rfl, rfl⟩
  | cons op ops ih =>
    have h1 := step_safe cmp grow q op m h hl
    have ht := step_triple cmp grow q op m
    have := ih (step cmp grow q op m).2.1 (step cmp grow q op m).2.2 h1.1 (by rw [ht, h1.2.2]; exact hl)
    rw [ht] at this
    simp only [run]
    exact ⟨this.1, by rw [this.2.1, h1.2.1], by rw [this.2.2, h1.2.2]⟩

end PQueue
end CC
