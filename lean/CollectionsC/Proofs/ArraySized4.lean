import CollectionsC.Proofs.ArraySized3
/-! Sized array, part 4: derived containers (`subarray`, `copy`, `filter`) — exact content,
inherited configuration (element size, growth rule), ledger, atomic refusal. -/
namespace CC.ArraySized
open CC CC.Gen

/-! ### subarray -/
theorem subarray_inert (a : ArraySized) (b e : Nat) (m : Mem) (hr : e < b ∨ a.size ≤ e) :
    a.subarray b e m = (.errInvalidRange, none, m) := by
  unfold subarray
  have : (decide (b > e) || decide (e ≥ a.size)) = true := by simp; omega
  rw [this]; rfl

/-- `subarray` on a valid range `[b, e]`: the result holds exactly `abs[b..e]`, is exactly full,
inherits element size and growth rule and satisfies the invariant (so it can grow); a refusal
produces no object and leaves the ledger as it was -/
theorem subarray_spec (a : ArraySized) (b e : Nat) (m : Mem) (h : a.Inv) (hb : b ≤ e) (he : e < a.size) :
    (∃ s, a.subarray b e m = (.ok, some s, (a.subarray b e m).2.2) ∧ s.Inv ∧
      s.abs = (a.abs.drop b).take (e - b + 1) ∧ s.dataLen = a.dataLen ∧ s.cfg = a.cfg ∧
      s.capacity = e - b + 1 ∧ s.size = e - b + 1 ∧
      own (a.subarray b e m).2.2 a.triple = own m a.triple + 2 ∧ (a.subarray b e m).2.2.fault = m.fault ∧
      Other a.triple m (a.subarray b e m).2.2) ∨
    ((a.subarray b e m).1 = .errAlloc ∧ (a.subarray b e m).2.1 = none ∧ MemSame a.triple m (a.subarray b e m).2.2) := by
  obtain ⟨j1, j2, j3, j4, j5⟩ := h
  unfold subarray
  have : (decide (b > e) || decide (e ≥ a.size)) = false := by simp; omega
  rw [this]
  simp only [Bool.false_eq_true, if_false]
  rcases two_allocs m a.triple with ⟨h1, h2, h3, h4, h5⟩ | ⟨h1, h2, _, h3⟩ | ⟨h1, _, h3⟩
  · left
    rw [h1, h2]
    simp only [Bool.not_true, Bool.false_eq_true, if_false]
    have c1 : (e - b + 1) * a.dataLen ≤ (fresh (a.capacity * a.dataLen)).length := by
      simp only [fresh, List.length_replicate]; exact slots_le (by omega)
    have c2 : a.dataLen * b + (e - b + 1) * a.dataLen ≤ a.buf.length := by
      rw [off_add]; exact Nat.le_trans (slots_le (by omega)) j4
    have c : (decide ((e - b + 1) * a.dataLen ≤ (fresh (a.capacity * a.dataLen)).length) &&
        decide (a.dataLen * b + (e - b + 1) * a.dataLen ≤ a.buf.length)) = true := by simp only [c1, c2]; simp
    rw [c]
    refine ⟨_, rfl, ⟨j1, by dsimp only; omega, by dsimp only; omega, ?_, Nat.le_trans (slots_le (by dsimp only; omega)) j5⟩, ?_, rfl, rfl, rfl, rfl, h3, h4, h5⟩
    · simp only [Buf.length_memcpy, fresh, List.length_replicate]; exact slots_le (by omega)
    · rw [abs_eq_elems, abs_eq_elems]
      dsimp only
      apply List.ext_getElem?
      intro k
      rw [elems_getElem?, List.getElem?_take, List.getElem?_drop, elems_getElem?]
      by_cases hk : k < e - b + 1
      · rw [if_pos hk, if_pos hk, if_pos (by omega)]
        rw [chunkAt_memcpy _ _ a.dataLen 0 _ _ 0 b (e - b + 1) k (by simp) rfl rfl
          (by simp only [fresh, List.length_replicate]; exact slot_le (by omega)), if_pos (by omega)]
        congr 2; omega
      · rw [if_neg hk, if_neg hk]
  · right
    rw [h1, h2]
    simp only [Bool.not_true, Bool.false_eq_true, if_false, Bool.not_false, if_true]
    exact ⟨trivial, trivial, h3⟩
  · right
    rw [h1]
    simp only [Bool.not_false, if_true]
    exact ⟨trivial, trivial, h3⟩

/-! ### copy -/
theorem copy_spec (a : ArraySized) (m : Mem) (h : a.Inv) :
    (∃ s, a.copy m = (.ok, some s, (a.copy m).2.2) ∧ s.Inv ∧ s.abs = a.abs ∧ s.dataLen = a.dataLen ∧
      s.cfg = a.cfg ∧ s.capacity = a.capacity ∧ s.size = a.size ∧
      own (a.copy m).2.2 a.triple = own m a.triple + 2 ∧ (a.copy m).2.2.fault = m.fault ∧ Other a.triple m (a.copy m).2.2) ∨
    ((a.copy m).1 = .errAlloc ∧ (a.copy m).2.1 = none ∧ MemSame a.triple m (a.copy m).2.2) := by
  obtain ⟨j1, j2, j3, j4, j5⟩ := h
  unfold copy
  dsimp only
  rcases two_allocs m a.triple with ⟨h1, h2, h3, h4, h5⟩ | ⟨h1, h2, _, h3⟩ | ⟨h1, _, h3⟩
  · left
    rw [h1, h2]
    simp only [Bool.not_true, Bool.false_eq_true, if_false]
    have c1 : a.size * a.dataLen ≤ (Buf.mk (a.capacity * a.dataLen) : Buf Nat).length := by
      simp only [Buf.length_mk]; exact slots_le j3
    have c2 : a.size * a.dataLen ≤ a.buf.length := Nat.le_trans (slots_le j3) j4
    have c : (decide (a.size * a.dataLen ≤ (Buf.mk (a.capacity * a.dataLen) : Buf Nat).length) &&
        decide (a.size * a.dataLen ≤ a.buf.length)) = true := by simp only [c1, c2]; simp
    rw [c]
    refine ⟨_, rfl, ⟨j1, j2, j3, by simp, j5⟩, ?_, rfl, rfl, rfl, rfl, h3, h4, h5⟩
    rw [abs_eq_elems, abs_eq_elems]
    dsimp only
    apply elems_congr
    intro k hk
    rw [chunkAt_memcpy _ _ a.dataLen 0 0 _ 0 0 a.size k (by simp) (by simp) rfl
      (by simp only [Buf.length_mk]; exact slot_le (by omega)), if_pos (by omega)]
    simp
  · right
    rw [h1, h2]
    simp only [Bool.not_true, Bool.false_eq_true, if_false, Bool.not_false, if_true]
    exact ⟨trivial, trivial, h3⟩
  · right
    rw [h1]
    simp only [Bool.not_false, if_true]
    exact ⟨trivial, trivial, h3⟩

/-! ### filter -/
theorem elems_store_one (d s : Buf Nat) (dl i y n cap : Nat) (hn : n ≤ cap) (hcap : cap * dl ≤ d.length) :
    elems dl (d.memcpy (dl * i) s (dl * y) dl) n = (elems dl d n).set i (chunkAt dl s y) := by
  apply List.ext_getElem
  · simp
  · intro k h1 h2
    have hk : k < n := by simpa using h1
    rw [elems_getElem, List.getElem_set, elems_getElem]
    rw [chunkAt_memcpy_one d s dl i y k (Nat.le_trans (slot_le (by omega)) hcap)]
    by_cases hik : i = k
    · subst hik; simp
    · rw [if_neg hik, if_neg (by omega)]

theorem filterLoop_spec (a : ArraySized) (p : List Nat → Bool) (m : Mem) (h : a.Inv) (len : Nat)
    (hlen : a.capacity * a.dataLen ≤ len) :
    ∀ (f i : Nat) (fb : Buf Nat) (fsize : Nat) (log : List (List Nat)), i + f = a.size → fb.length = len →
      fsize ≤ i → elems a.dataLen fb fsize = (elems a.dataLen a.buf i).filter p → log = elems a.dataLen a.buf i →
      (a.filterLoop p f i fb fsize m log).2.2.1 = m ∧ (a.filterLoop p f i fb fsize m log).2.2.2 = a.abs ∧
      (a.filterLoop p f i fb fsize m log).1.length = len ∧ (a.filterLoop p f i fb fsize m log).2.1 ≤ a.size ∧
      elems a.dataLen (a.filterLoop p f i fb fsize m log).1 (a.filterLoop p f i fb fsize m log).2.1 = a.abs.filter p := by
  obtain ⟨j1, j2, j3, j4, j5⟩ := h
  intro f
  induction f with
  | zero =>
    intro i fb fsize log hi hl hfs he hlog
    have : i = a.size := by omega
    subst this
    exact ⟨rfl, hlog, hl, hfs, he⟩
  | succ f ih =>
    intro i fb fsize log hi hl hfs he hlog
    unfold filterLoop
    rw [decide_eq_true (slot_in a ⟨j1, j2, j3, j4, j5⟩ i (by omega))]
    simp only [Mem.check_true]
    by_cases hp : p (a.chunk i) = true
    · rw [if_pos hp]
      have s1 : a.dataLen * fsize + a.dataLen ≤ fb.length := by
        rw [hl]; exact Nat.le_trans (slot_le (by omega)) hlen
      rw [decide_eq_true s1]
      simp only [Mem.check_true]
      apply ih (i + 1) _ _ _ (by omega) (by simpa using hl) (by omega)
      · rw [elems_succ, elems_succ, List.filter_append, ← he]
        rw [elems_store_one fb a.buf a.dataLen fsize i fsize a.capacity (by omega) (by rw [hl]; exact hlen)]
        rw [List.set_eq_of_length_le (by simp)]
        rw [chunkAt_memcpy_one fb a.buf a.dataLen fsize i fsize s1, if_pos rfl]
        have : p (chunkAt a.dataLen a.buf i) = true := hp
        simp [this]
      · rw [elems_succ, hlog]; rfl
    · rw [if_neg hp]
      apply ih (i + 1) _ _ _ (by omega) hl (by omega)
      · rw [elems_succ, List.filter_append, ← he]
        have : p (chunkAt a.dataLen a.buf i) = false := by simpa [chunk] using hp
        simp [this]
      · rw [elems_succ, hlog]; rfl

theorem filter_inert (a : ArraySized) (p : List Nat → Bool) (m : Mem) (h0 : a.size = 0) :
    a.filter p m = (.errOutOfRange, [], none, m) := by
  unfold filter; rw [if_pos h0]

/-- non-mutating `filter` on a non-empty array: the result holds the elements satisfying the
predicate in source order, with the source's capacity, element size and growth rule; the
predicate sees every element once, first to last -/
theorem filter_spec (a : ArraySized) (p : List Nat → Bool) (m : Mem) (h : a.Inv) (h0 : 0 < a.size) :
    (∃ s, a.filter p m = (.ok, a.abs, some s, (a.filter p m).2.2.2) ∧ s.Inv ∧ s.abs = a.abs.filter p ∧
      s.dataLen = a.dataLen ∧ s.cfg = a.cfg ∧ s.capacity = a.capacity ∧
      own (a.filter p m).2.2.2 a.triple = own m a.triple + 2 ∧ (a.filter p m).2.2.2.fault = m.fault ∧
      Other a.triple m (a.filter p m).2.2.2) ∨
    ((a.filter p m).1 = .errAlloc ∧ (a.filter p m).2.2.1 = none ∧ MemSame a.triple m (a.filter p m).2.2.2) := by
  have hh := h
  obtain ⟨j1, j2, j3, j4, j5⟩ := h
  unfold filter
  rw [if_neg (by omega)]
  dsimp only
  rcases two_allocs m a.triple with ⟨h1, h2, h3, h4, h5⟩ | ⟨h1, h2, _, h3⟩ | ⟨h1, _, h3⟩
  · left
    rw [h1, h2]
    simp only [Bool.not_true, Bool.false_eq_true, if_false]
    have hs := filterLoop_spec a p ((m.allocT a.triple).2.allocT a.triple).2 hh (a.capacity * a.dataLen) (Nat.le_refl _) a.size 0
      (Buf.mk (a.capacity * a.dataLen)) 0 [] (by omega) (by simp) (Nat.le_refl _) (by simp [elems]) (by simp [elems])
    generalize a.filterLoop p a.size 0 (Buf.mk (a.capacity * a.dataLen)) 0 ((m.allocT a.triple).2.allocT a.triple).2 [] = r at hs ⊢
    refine ⟨{ a with buf := r.1, size := r.2.1 }, ?_, ⟨j1, j2, by dsimp only; omega, by dsimp only; rw [hs.2.2.1]; exact Nat.le_refl _, j5⟩, hs.2.2.2.2, rfl, rfl, rfl, ?_, ?_, ?_⟩
    · rw [hs.2.1, hs.1]
    · rw [hs.1]; exact h3
    · rw [hs.1]; exact h4
    · rw [hs.1]; exact h5
  · right
    rw [h1, h2]
    simp only [Bool.not_true, Bool.false_eq_true, if_false, Bool.not_false, if_true]
    exact ⟨trivial, trivial, h3⟩
  · right
    rw [h1]
    simp only [Bool.not_false, if_true]
    exact ⟨trivial, trivial, h3⟩

/-! ### a derived array can grow -/
/-- when the allocator grants the request and the array is not at its size limit, `add` succeeds -/
theorem add_ok_of_alloc (a : ArraySized) (e : Buf Nat) (m : Mem) (h : a.Inv)
    (he : e.length = a.dataLen) (hal : (m.allocT a.triple).1 = true) (hc : ¬ a.AtLimit) :
    (a.add e m).1 = .ok ∧ (a.add e m).2.1.abs = a.abs ++ [e] := by
  rcases add_spec a e m h he with ⟨h1, _, h3, _⟩ | ⟨h1, _, _, _, h5, h6, _⟩
  · exact ⟨h1, h3⟩
  · rcases h1 with h1 | h1
    · have := h5 h1; rw [hal] at this; cases this
    · exact absurd (h6 h1) hc
