import CollectionsC.Proofs.Array
/-! Removal and lookup lemmas for the dynamic-array model (`remove_at`, `remove_last`, `remove`
by value, `remove_all(_free)`, `get_at`, `get_last`, `index_of`, `contains`, `contains_value`,
`map`, `reduce`), for every index and value. -/
namespace CC.Arr
open CC

/-! ### closing the gap -/

theorem closeGap_abs (a : Arr) (i : Nat) (hi : i < a.size) (hl : a.size ≤ a.buf.length) :
    (a.closeGap i).abs = a.abs.eraseIdx i := by
  apply abs_eq_iff
  · simp [closeGap, List.length_eraseIdx, hi]
  · intro j hj
    simp only [List.length_eraseIdx, abs_length, hi, if_true] at hj
    rw [List.getElem_eraseIdx]
    simp only [closeGap, abs_getElem]
    by_cases hlast : i = a.size - 1
    · have : (i != a.size - 1) = false := by simp [hlast]
      simp only [this, Bool.false_eq_true, if_false]
      have : j < i := by omega
      simp [this]
    · have : (i != a.size - 1) = true := by simp [hlast]
      simp only [this, if_true]
      rw [Buf.get_memmove _ _ _ _ _ (by omega)]
      by_cases hji : j < i
      · have : ¬ (i ≤ j ∧ j < i + (a.size - 1 - i)) := by omega
        simp [hji, this]
      · have : (i ≤ j ∧ j < i + (a.size - 1 - i)) := by omega
        simp only [hji, dif_neg, this, not_false_eq_true]
        congr 1
        omega

theorem closeGap_kept (a : Arr) (i : Nat) : Kept a (a.closeGap i) ∧ (a.closeGap i).size = a.size - 1 := by
  unfold closeGap Kept
  simp only
  split <;> simp

/-- `cc_array_remove_at` for every index -/
theorem removeAt_spec (a : Arr) (i : Nat) (m : Mem) (hinv : a.Inv) :
    (a.removeAt i m).1 = (Spec.Seq.removeAt a.abs i).1 ∧
    (a.removeAt i m).2.1 = (Spec.Seq.removeAt a.abs i).2.1 ∧
    (a.removeAt i m).2.2.1.abs = (Spec.Seq.removeAt a.abs i).2.2 ∧
    Kept a (a.removeAt i m).2.2.1 ∧ (a.removeAt i m).2.2.1.size ≤ a.size ∧
    (a.removeAt i m).2.2.2 = m ∧
    ((a.removeAt i m).1 ≠ .ok → (a.removeAt i m).2.2.1 = a) ∧
    ((a.removeAt i m).1 = .ok ↔ i < a.size) ∧
    ((a.removeAt i m).1 = .ok → (a.removeAt i m).2.2.1.size + 1 = a.size) := by
  obtain ⟨h1, h2, h3, h4⟩ := hinv
  unfold removeAt Spec.Seq.removeAt
  by_cases hi : i < a.size
  · have h5 : ¬ i ≥ a.size := by omega
    have h6 : (decide (i < a.buf.length) && decide (i + 1 + (a.size - 1 - i) ≤ a.buf.length)) = true := by
      simp; omega
    simp only [h5, if_false, abs_length, hi, if_true, h6, Mem.check_true, abs_getD a i hi]
    have hk := closeGap_kept a i
    refine ⟨by trivial, by trivial, closeGap_abs a i hi (by omega), hk.1, by omega, by trivial, by simp, by simp, ?_⟩
    intro _; omega
  · have h5 : i ≥ a.size := by omega
    simp [h5, hi, Kept.refl]

theorem abs_getLast? (a : Arr) (h : 0 < a.size) : a.abs.getLast? = some (a.buf.get (a.size - 1)) := by
  rw [List.getLast?_eq_getElem?, abs_length, List.getElem?_eq_getElem (by simp; omega), abs_getElem]

theorem abs_eq_nil_iff (a : Arr) : a.abs = [] ↔ a.size = 0 := by
  rw [← List.length_eq_zero_iff, abs_length]

/-- `cc_array_remove_last`, including the empty array (`size - 1` wraps to `SIZE_MAX`) -/
theorem removeLast_spec (a : Arr) (m : Mem) (hinv : a.Inv) :
    (a.removeLast m).1 = (Spec.Seq.removeLast a.abs).1 ∧
    (a.removeLast m).2.1 = (Spec.Seq.removeLast a.abs).2.1 ∧
    (a.removeLast m).2.2.1.abs = (Spec.Seq.removeLast a.abs).2.2 ∧
    Kept a (a.removeLast m).2.2.1 ∧ (a.removeLast m).2.2.1.size ≤ a.size ∧
    (a.removeLast m).2.2.2 = m ∧
    ((a.removeLast m).1 ≠ .ok → (a.removeLast m).2.2.1 = a) ∧
    ((a.removeLast m).1 = .ok ↔ 0 < a.size) ∧
    ((a.removeLast m).1 = .ok → (a.removeLast m).2.2.1.size + 1 = a.size) := by
  have hs := removeAt_spec a (Spec.Seq.wdec a.size) m hinv
  obtain ⟨s1, s2, s3, s4, s5, s6, s7, s8, s9⟩ := hs
  obtain ⟨h1, h2, h3, h4⟩ := hinv
  unfold removeLast
  unfold Spec.Seq.removeAt at s1 s2 s3
  unfold Spec.Seq.removeLast
  by_cases h0 : a.size = 0
  · have hw : ¬ Spec.Seq.wdec a.size < a.abs.length := by simp [Spec.Seq.wdec, h0]
    have hnil : a.abs = [] := (abs_eq_nil_iff a).2 h0
    simp only [hw, if_false] at s1 s2 s3
    have hw2 : ¬ Spec.Seq.wdec a.size < a.size := by simpa using hw
    simp only [hnil, if_true]
    refine ⟨s1, s2, by rw [s3, hnil], s4, s5, s6, s7, ?_, s9⟩
    rw [s8]; simp [h0]
  · have hw : Spec.Seq.wdec a.size = a.size - 1 := by simp [Spec.Seq.wdec, h0]
    have hlt : a.size - 1 < a.abs.length := by simp; omega
    have hnil : ¬ a.abs = [] := by rw [abs_eq_nil_iff]; exact h0
    rw [hw] at s1 s2 s3 s4 s5 s6 s7 s8 s9 ⊢
    simp only [hlt, if_true] at s1 s2 s3
    simp only [hnil, if_false]
    refine ⟨s1, ?_, ?_, s4, s5, s6, s7, ?_, s9⟩
    · rw [s2, abs_getD a _ (by omega), abs_getLast? a (by omega)]
    · rw [s3]; exact List.eraseIdx_eq_dropLast (by simp; omega)
    · rw [s8]; omega

/-! ### index_of / remove by value -/

theorem indexOfFrom_spec (b : Buf Nat) (x : Nat) : ∀ n i,
    match indexOfFrom b x n i with
    | some j => i ≤ j ∧ j < i + n ∧ b.get j = x ∧ ∀ t, i ≤ t → t < j → b.get t ≠ x
    | none => ∀ t, i ≤ t → t < i + n → b.get t ≠ x := by
  intro n
  induction n with
  | zero => intro i; simp only [indexOfFrom]; intro t h1 h2; omega
  | succ n ih =>
    intro i
    simp only [indexOfFrom]
    by_cases h : b.get i = x
    · rw [if_pos h]
      exact ⟨Nat.le_refl _, by omega, h, fun t h1 h2 => by omega⟩
    · rw [if_neg h]
      have := ih (i + 1)
      split at this
      · rename_i j hj
        obtain ⟨a1, a2, a3, a4⟩ := this
        refine ⟨by omega, by omega, a3, ?_⟩
        intro t h1 h2
        by_cases ht : t = i
        · subst ht; exact h
        · exact a4 t (by omega) h2
      · rename_i hj
        intro t h1 h2
        by_cases ht : t = i
        · subst ht; exact h
        · exact this t (by omega) (by omega)

/-- in a list, the first position holding `x` is `idxOf x`, and `erase x` removes exactly it -/
theorem first_occurrence (xs : List Nat) (x j : Nat) (hj : j < xs.length) (hx : xs[j] = x)
    (hfirst : ∀ t (ht : t < j), xs[t]'(by omega) ≠ x) :
    x ∈ xs ∧ xs.idxOf x = j ∧ xs.erase x = xs.eraseIdx j := by
  induction xs generalizing j with
  | nil => simp at hj
  | cons y ys ih =>
    cases j with
    | zero =>
      simp only [List.getElem_cons_zero] at hx
      subst hx
      simp
    | succ j =>
      have hy : y ≠ x := by simpa using hfirst 0 (by omega)
      simp only [List.getElem_cons_succ] at hx
      have := ih j (by simpa using hj) hx (fun t ht => by simpa using hfirst (t + 1) (by omega))
      obtain ⟨m1, m2, m3⟩ := this
      have hb : (y == x) = false := by simp [hy]
      refine ⟨List.mem_cons_of_mem _ m1, ?_, ?_⟩
      · rw [List.idxOf_cons]; simp [hb, m2]
      · rw [List.erase_cons]; simp [hb, m3]

theorem not_mem_of_absent (xs : List Nat) (x : Nat) (h : ∀ t (ht : t < xs.length), xs[t] ≠ x) : x ∉ xs := by
  intro hm
  obtain ⟨i, hi, he⟩ := List.mem_iff_getElem.1 hm
  exact h i hi he

/-- `cc_array_index_of`: first match, `CC_ERR_OUT_OF_RANGE` when absent -/
theorem indexOf_spec (a : Arr) (x : Nat) (m : Mem) (hinv : a.Inv) :
    (a.indexOf x m).1 = (Spec.Seq.indexOf a.abs x).1 ∧
    (a.indexOf x m).2.1 = (Spec.Seq.indexOf a.abs x).2 ∧
    (a.indexOf x m).2.2 = m ∧
    (∀ j, (a.indexOf x m).2.1 = some j → j < a.size ∧ a.abs.erase x = a.abs.eraseIdx j) ∧
    ((a.indexOf x m).1 = .ok ↔ x ∈ a.abs) ∧
    ((a.indexOf x m).1 = .ok ∨ (a.indexOf x m).1 = .errOutOfRange) := by
  obtain ⟨h1, h2, h3, h4⟩ := hinv
  have h6 : decide (a.size ≤ a.buf.length) = true := by simp; omega
  have hs := indexOfFrom_spec a.buf x a.size 0
  unfold indexOf Spec.Seq.indexOf
  simp only [h6, Mem.check_true]
  split at hs
  · rename_i j hj
    obtain ⟨a1, a2, a3, a4⟩ := hs
    have hjl : j < a.abs.length := by simp; omega
    have hf := first_occurrence a.abs x j hjl (by rw [abs_getElem]; exact a3)
      (fun t ht => by rw [abs_getElem]; exact a4 t (by omega) ht)
    simp only [hj, hf.1, if_true, hf.2.1]
    refine ⟨by trivial, by trivial, by trivial, ?_, by simp, by simp⟩
    intro j' hj'
    simp only [Option.some.injEq] at hj'
    subst hj'
    exact ⟨by omega, hf.2.2⟩
  · rename_i hj
    have hn := not_mem_of_absent a.abs x (fun t ht => by
      rw [abs_getElem]; exact hs t (by omega) (by simpa using ht))
    simp [hj, hn]

/-- `cc_array_remove` (by value, pointer equality): the first occurrence goes -/
theorem remove_spec (a : Arr) (x : Nat) (m : Mem) (hinv : a.Inv) :
    (a.remove x m).1 = (Spec.Seq.remove a.abs x).1 ∧
    (a.remove x m).2.1 = (Spec.Seq.remove a.abs x).2.1 ∧
    (a.remove x m).2.2.1.abs = (Spec.Seq.remove a.abs x).2.2 ∧
    Kept a (a.remove x m).2.2.1 ∧ (a.remove x m).2.2.1.size ≤ a.size ∧
    (a.remove x m).2.2.2 = m ∧
    ((a.remove x m).1 ≠ .ok → (a.remove x m).2.2.1 = a) ∧
    ((a.remove x m).1 = .ok ↔ x ∈ a.abs) := by
  obtain ⟨i1, i2, i3, i4, i5, i6⟩ := indexOf_spec a x m hinv
  obtain ⟨h1, h2, h3, h4⟩ := hinv
  unfold remove Spec.Seq.remove
  by_cases hm : x ∈ a.abs
  · have hok : (a.indexOf x m).1 = .ok := i5.2 hm
    have hne : ¬ (a.indexOf x m).1 = .errOutOfRange := by rw [hok]; simp
    simp only [hne, if_false, hm, if_true, i3]
    unfold Spec.Seq.indexOf at i2
    simp only [hm, if_true] at i2
    obtain ⟨j1, j2⟩ := i4 _ i2
    have hk := closeGap_kept a (a.abs.idxOf x)
    rw [i2]
    have h6 : decide (a.abs.idxOf x + 1 + (a.size - 1 - a.abs.idxOf x) ≤ a.buf.length) = true := by
      simp; omega
    simp only [Option.getD_some, h6, Mem.check_true]
    refine ⟨by trivial, by trivial, ?_, hk.1, by omega, by trivial, by simp, by simp⟩
    rw [closeGap_abs a _ j1 (by omega), j2]
  · have hne : (a.indexOf x m).1 = .errOutOfRange := by
      rcases i6 with h | h
      · exact absurd (i5.1 h) hm
      · exact h
    simp [hne, hm, i3, Kept.refl]

/-! ### remove_all, lookups, visitors -/

theorem removeAll_spec (a : Arr) : a.removeAll.abs = Spec.Seq.removeAll a.abs ∧ Kept a a.removeAll ∧ a.removeAll.size = 0 := by
  simp [removeAll, abs, Spec.Seq.removeAll, Kept]

theorem removeAllFree_spec (a : Arr) (m : Mem) (hinv : a.Inv) :
    (a.removeAllFree m).1 = (Spec.Seq.removeAllFree a.abs).1 ∧
    (a.removeAllFree m).2.1.abs = (Spec.Seq.removeAllFree a.abs).2 ∧
    Kept a (a.removeAllFree m).2.1 ∧ (a.removeAllFree m).2.1.size = 0 ∧ (a.removeAllFree m).2.2 = m := by
  have h6 : decide (a.size ≤ a.buf.length) = true := by simp; exact hinv.size_le_len
  simp [removeAllFree, removeAll, abs, Spec.Seq.removeAllFree, Kept, h6]

/-- `cc_array_get_at` for every index -/
theorem getAt_spec (a : Arr) (i : Nat) (m : Mem) (hinv : a.Inv) :
    (a.getAt i m).1 = (Spec.Seq.getAt a.abs i).1 ∧ (a.getAt i m).2.1 = (Spec.Seq.getAt a.abs i).2 ∧
    (a.getAt i m).2.2 = m ∧ ((a.getAt i m).1 = .ok ↔ i < a.size) := by
  obtain ⟨h1, h2, h3, h4⟩ := hinv
  unfold getAt Spec.Seq.getAt
  by_cases hi : i < a.size
  · have h5 : ¬ i ≥ a.size := by omega
    have h6 : decide (i < a.buf.length) = true := by simp; omega
    simp [h5, hi, h6, abs_getElem]
  · have h5 : i ≥ a.size := by omega
    simp [h5, hi]

/-- `cc_array_get_last` -/
theorem getLast_spec (a : Arr) (m : Mem) (hinv : a.Inv) :
    (a.getLast m).1 = (Spec.Seq.getLast a.abs).1 ∧ (a.getLast m).2.1 = (Spec.Seq.getLast a.abs).2 ∧
    (a.getLast m).2.2 = m ∧ ((a.getLast m).1 = .ok ↔ 0 < a.size) := by
  have hg := getAt_spec a (a.size - 1) m hinv
  unfold getLast Spec.Seq.getLast
  by_cases h0 : a.size = 0
  · have hnil : a.abs = [] := (abs_eq_nil_iff a).2 h0
    simp [h0, hnil]
  · have hnil : ¬ a.abs = [] := by rw [abs_eq_nil_iff]; exact h0
    obtain ⟨g1, g2, g3, g4⟩ := hg
    unfold Spec.Seq.getAt at g1 g2
    have hlt : a.size - 1 < a.abs.length := by simp; omega
    simp only [hlt, if_true] at g1 g2
    simp only [h0, if_false, hnil]
    refine ⟨g1, ?_, g3, ?_⟩
    · rw [g2, abs_getD a _ (by omega), abs_getLast? a (by omega)]
    · rw [g4]; omega

theorem foldl_count (f : Nat → Bool) (b : Buf Nat) (n : Nat) :
    (List.range n).foldl (fun o i => if f (b.get i) then o + 1 else o) 0 = ((List.range n).map b.get).countP f := by
  induction n with
  | zero => simp
  | succ n ih =>
    rw [List.range_succ, List.foldl_append, ih, List.map_append, List.countP_append]
    simp only [List.foldl_cons, List.foldl_nil, List.map_cons, List.map_nil, List.countP_cons, List.countP_nil]
    split <;> simp

/-- `cc_array_contains`: the occurrence count -/
theorem contains_spec (a : Arr) (x : Nat) (m : Mem) (hinv : a.Inv) :
    (a.contains x m).1 = Spec.Seq.contains a.abs x ∧ (a.contains x m).2 = m := by
  have h6 : decide (a.size ≤ a.buf.length) = true := by simp; exact hinv.size_le_len
  unfold contains Spec.Seq.contains
  simp only [h6, Mem.check_true, and_true]
  have := foldl_count (fun y => y == x) a.buf a.size
  simp only [beq_iff_eq] at this
  rw [this, List.count_eq_countP, abs]

/-- `cc_array_contains_value`: the number of elements the comparator calls equal -/
theorem containsValue_spec (cmp : Nat → Nat → Int) (a : Arr) (x : Nat) (m : Mem) (hinv : a.Inv) :
    (a.containsValue cmp x m).1 = Spec.Seq.containsValue cmp a.abs x ∧ (a.containsValue cmp x m).2 = m := by
  have h6 : decide (a.size ≤ a.buf.length) = true := by simp; exact hinv.size_le_len
  unfold containsValue Spec.Seq.containsValue
  simp only [h6, Mem.check_true, and_true]
  exact foldl_count (fun y => cmp x y == 0) a.buf a.size

/-- `cc_array_map` visits exactly the content, in index order -/
theorem map_spec (a : Arr) (m : Mem) (hinv : a.Inv) :
    (a.map m).1 = Spec.Seq.mapVisit a.abs ∧ (a.map m).2 = m := by
  have h6 : decide (a.size ≤ a.buf.length) = true := by simp; exact hinv.size_le_len
  simp [map, Spec.Seq.mapVisit, abs, h6]

theorem destroyCb_log (a : Arr) (m : Mem) : (a.destroyCb m).1 = a.abs := rfl

end CC.Arr
