import CollectionsC.Proofs.ArraySized4
/-! Sized array, iterators (C07 part): every iterator function refines the ideal cursor
(`Spec.SSeq.Cursor`: elements before the cursor / elements not yet visited); zip iterators refine
the lock-step cursor. -/
namespace CC.ArraySized
open CC CC.Gen

/-! ### list facts at the cursor position -/
theorem eraseIdx_mid {α : Type} (ys : List α) (y : α) (t : List α) : (ys ++ y :: t).eraseIdx ys.length = ys ++ t := by
  induction ys <;> simp_all
theorem set_mid {α : Type} (ys : List α) (y x : α) (t : List α) : (ys ++ y :: t).set ys.length x = ys ++ x :: t := by
  induction ys <;> simp_all
theorem insertIdx_mid {α : Type} (ys : List α) (e : α) (t : List α) : (ys ++ t).insertIdx ys.length e = ys ++ e :: t := by
  induction ys <;> simp_all
theorem getElem?_mid {α : Type} (ys : List α) (y : α) (t : List α) : (ys ++ y :: t)[ys.length]? = some y := by
  simp
theorem sizeMax_eq : sizeMax = 2 ^ 64 - 1 := by decide

/-- the model iterator `(it, a)` represents the ideal cursor `c` -/
def IterRel (it : Iter) (a : ArraySized) (c : Spec.SSeq.Cursor Elem) : Prop :=
  a.abs = c.content ∧ it.index = c.done.length ∧ it.lastRemoved = c.removed

theorem iterInit_rel (a : ArraySized) : IterRel {} a (Spec.SSeq.Cursor.start a.abs) := ⟨rfl, rfl, rfl⟩

theorem rel_size {it : Iter} {a : ArraySized} {c : Spec.SSeq.Cursor Elem} (hrel : IterRel it a c) :
    a.size = c.done.length + c.todo.length := by
  have := abs_length a
  rw [hrel.1] at this
  simp [Spec.SSeq.Cursor.content] at this
  omega

theorem iterNext_refines (it : Iter) (a : ArraySized) (c : Spec.SSeq.Cursor Elem) (m : Mem) (h : a.Inv)
    (hrel : IterRel it a c) :
    (a.iterNext it m).1 = c.next.1 ∧ (a.iterNext it m).2.1 = c.next.2.1 ∧
    IterRel (a.iterNext it m).2.2.1 a c.next.2.2 ∧ (a.iterNext it m).2.2.2 = m := by
  have hsz := rel_size hrel
  obtain ⟨h1, h2, h3⟩ := hrel
  cases ht : c.todo with
  | nil =>
    rw [ht] at hsz
    have e1 : a.iterNext it m = (.iterEnd, none, it, m) := by
      unfold iterNext; rw [if_pos (by simp at hsz; omega)]
    have e2 : c.next = (.iterEnd, none, c) := by unfold Spec.SSeq.Cursor.next; rw [ht]
    rw [e1, e2]
    exact ⟨rfl, rfl, ⟨h1, h2, h3⟩, rfl⟩
  | cons x t =>
    rw [ht] at hsz
    have hlt : it.index < a.size := by simp at hsz; omega
    have hx : a.chunk it.index = x := by
      have q1 := abs_getElem? a it.index
      rw [if_pos hlt] at q1
      have q2 : a.abs[it.index]? = some x := by rw [h1, Spec.SSeq.Cursor.content, ht, h2, getElem?_mid]
      rw [q2] at q1; exact (Option.some.inj q1).symm
    have e1 : a.iterNext it m = (.ok, some x, { index := it.index + 1, lastRemoved := false }, m) := by
      unfold iterNext
      rw [if_neg (by omega), decide_eq_true (slot_in a h it.index (by have := h.2.2.1; omega)), hx]; rfl
    have e2 : c.next = (.ok, some x, { done := c.done ++ [x], todo := t, removed := false }) := by
      unfold Spec.SSeq.Cursor.next; rw [ht]
    rw [e1, e2]
    refine ⟨rfl, rfl, ⟨?_, ?_, rfl⟩, rfl⟩
    · rw [h1]; simp [Spec.SSeq.Cursor.content, ht]
    · simp [h2]

theorem iterRemove_refines (it : Iter) (a : ArraySized) (c : Spec.SSeq.Cursor Elem) (m : Mem) (h : a.Inv)
    (hrel : IterRel it a c) :
    (a.iterRemove it m).1 = c.remove.1 ∧ (a.iterRemove it m).2.1 = c.remove.2.1 ∧
    IterRel (a.iterRemove it m).2.2.1 (a.iterRemove it m).2.2.2.1 c.remove.2.2 ∧
    (a.iterRemove it m).2.2.2.1.Inv ∧ (a.iterRemove it m).2.2.2.2 = m ∧
    (a.iterRemove it m).2.2.2.1.dataLen = a.dataLen ∧ (a.iterRemove it m).2.2.2.1.grow = a.grow ∧
    ((a.iterRemove it m).1 ≠ .ok → (a.iterRemove it m).2.2.2.1 = a ∧ (a.iterRemove it m).2.2.1 = it) := by
  have hsz := rel_size hrel
  obtain ⟨h1, h2, h3⟩ := hrel
  by_cases hr : c.removed = true
  · have e1 : a.iterRemove it m = (.errValueNotFound, none, it, a, m) := by
      unfold iterRemove; rw [h3, hr]; rfl
    have e2 : c.remove = (.errValueNotFound, none, c) := by
      unfold Spec.SSeq.Cursor.remove; rw [if_pos hr]
    rw [e1, e2]
    exact ⟨rfl, rfl, ⟨h1, h2, h3⟩, h, rfl, rfl, rfl, fun _ => ⟨rfl, rfl⟩⟩
  · have hr' : c.removed = false := by simpa using hr
    rcases List.eq_nil_or_concat c.done with hd | ⟨ys, y, hd⟩
    · have h0 : it.index = 0 := by rw [h2, hd]; rfl
      have := sizeMax_gt a h
      have e1 : a.iterRemove it m = (.errOutOfRange, none, it, a, m) := by
        unfold iterRemove
        rw [h3, hr', removeAt_inert a (wdec it.index) m (by unfold wdec; rw [if_pos h0]; omega)]; rfl
      have e2 : c.remove = (.errOutOfRange, none, c) := by
        unfold Spec.SSeq.Cursor.remove; rw [if_neg hr, if_pos hd]
      rw [e1, e2]
      exact ⟨rfl, rfl, ⟨h1, h2, h3⟩, h, rfl, rfl, rfl, fun _ => ⟨rfl, rfl⟩⟩
    · have hidx : it.index = ys.length + 1 := by rw [h2, hd]; simp
      have hw : wdec it.index = ys.length := by rw [wdec_pos _ (by omega)]; omega
      have hlt : ys.length < a.size := by rw [hd] at hsz; simp at hsz; omega
      obtain ⟨s1, s2, s3, s4, s5, s6, s7, s8, s9⟩ := removeAt_spec a ys.length m h hlt
      have habs : a.abs = ys ++ y :: c.todo := by rw [h1, Spec.SSeq.Cursor.content, hd]; simp
      have hne : c.done ≠ [] := by rw [hd]; simp
      have e1 : a.iterRemove it m =
          (.ok, some y, { index := ys.length, lastRemoved := true }, (a.removeAt ys.length m).2.2.1, m) := by
        unfold iterRemove
        rw [h3, hr', hw]
        simp only [Bool.not_false, if_true, s1]
        rw [s2, s3, habs, getElem?_mid]
      have e2 : c.remove = (.ok, some y, { c with done := ys, removed := true }) := by
        unfold Spec.SSeq.Cursor.remove; rw [if_neg hr, if_neg hne, hd]; simp
      rw [e1, e2]
      refine ⟨rfl, rfl, ⟨?_, rfl, rfl⟩, s4, rfl, s6, s7, fun hh => absurd rfl hh⟩
      rw [s5, habs, eraseIdx_mid]; rfl

theorem iterAdd_refines (it : Iter) (a : ArraySized) (c : Spec.SSeq.Cursor Elem) (e : Buf Nat) (m : Mem) (h : a.Inv)
    (hg : a.GrowOk) (he : e.length = a.dataLen) (hrel : IterRel it a c) :
    ((a.iterAdd it e m).1 = .ok ∧ IterRel (a.iterAdd it e m).2.1 (a.iterAdd it e m).2.2.1 (c.add e) ∧
      (a.iterAdd it e m).2.2.1.Inv ∧ (a.iterAdd it e m).2.2.1.dataLen = a.dataLen ∧
      (a.iterAdd it e m).2.2.1.grow = a.grow ∧ MemSame m (a.iterAdd it e m).2.2.2) ∨
    (((a.iterAdd it e m).1 = .errAlloc ∨ (a.iterAdd it e m).1 = .errMaxCapacity) ∧
      (a.iterAdd it e m).2.1 = it ∧ (a.iterAdd it e m).2.2.1 = a ∧ MemSame m (a.iterAdd it e m).2.2.2) := by
  have hsz := rel_size hrel
  obtain ⟨h1, h2, h3⟩ := hrel
  rcases addAt_spec a e it.index m h hg he (by omega) with ⟨s1, s2, s3, s4, s5, s6, s7⟩ | ⟨s1, s2, s3, _⟩
  · left
    have e1 : a.iterAdd it e m = (.ok, { it with index := it.index + 1 }, (a.addAt e it.index m).2.1, (a.addAt e it.index m).2.2) := by
      unfold iterAdd; rw [if_pos s1, s1]
    rw [e1]
    refine ⟨rfl, ⟨?_, ?_, h3⟩, s2, s4, s5, s7⟩
    · show (a.addAt e it.index m).2.1.abs = _
      rw [s3, h1, Spec.SSeq.Cursor.content, h2, insertIdx_mid]; simp [Spec.SSeq.Cursor.add, Spec.SSeq.Cursor.content]
    · simp [Spec.SSeq.Cursor.add, h2]
  · right
    have hne : (a.addAt e it.index m).1 ≠ .ok := by rcases s1 with s1 | s1 <;> rw [s1] <;> simp
    have e1 : a.iterAdd it e m = ((a.addAt e it.index m).1, it, (a.addAt e it.index m).2.1, (a.addAt e it.index m).2.2) := by
      unfold iterAdd; rw [if_neg hne]
    rw [e1]
    exact ⟨s1, rfl, s2, s3⟩

theorem iterReplace_refines (it : Iter) (a : ArraySized) (c : Spec.SSeq.Cursor Elem) (e : Buf Nat) (m : Mem) (h : a.Inv)
    (he : e.length = a.dataLen) (hrel : IterRel it a c) :
    (a.iterReplace it e m).1 = (c.replace e).1 ∧ (a.iterReplace it e m).2.1 = (c.replace e).2.1 ∧
    IterRel it (a.iterReplace it e m).2.2.1 (c.replace e).2.2 ∧ (a.iterReplace it e m).2.2.1.Inv ∧
    (a.iterReplace it e m).2.2.2 = m ∧ (a.iterReplace it e m).2.2.1.dataLen = a.dataLen ∧
    (a.iterReplace it e m).2.2.1.grow = a.grow := by
  have hsz := rel_size hrel
  obtain ⟨h1, h2, h3⟩ := hrel
  rcases List.eq_nil_or_concat c.done with hd | ⟨ys, y, hd⟩
  · have h0 : it.index = 0 := by rw [h2, hd]; rfl
    have := sizeMax_gt a h
    have e1 : a.iterReplace it e m = (.errOutOfRange, none, a, m) := by
      unfold iterReplace
      rw [replaceAt_inert a e (wdec it.index) m (by unfold wdec; rw [if_pos h0]; omega)]
    have e2 : c.replace e = (.errOutOfRange, none, c) := by
      unfold Spec.SSeq.Cursor.replace; rw [if_pos hd]
    rw [e1, e2]
    exact ⟨rfl, rfl, ⟨h1, h2, h3⟩, h, rfl, rfl, rfl⟩
  · have hidx : it.index = ys.length + 1 := by rw [h2, hd]; simp
    have hw : wdec it.index = ys.length := by rw [wdec_pos _ (by omega)]; omega
    have hlt : ys.length < a.size := by rw [hd] at hsz; simp at hsz; omega
    obtain ⟨s1, s2, s3⟩ := replaceAt_spec a e ys.length m h he hlt
    have habs : a.abs = ys ++ y :: c.todo := by rw [h1, Spec.SSeq.Cursor.content, hd]; simp
    have hne : c.done ≠ [] := by rw [hd]; simp
    have e1 : a.iterReplace it e m =
        (.ok, some y, { a with buf := a.buf.memcpy (a.dataLen * ys.length) e 0 a.dataLen }, m) := by
      unfold iterReplace; rw [hw, s1, habs, getElem?_mid]
    have e2 : c.replace e = (.ok, some y, { c with done := ys ++ [e] }) := by
      unfold Spec.SSeq.Cursor.replace; rw [if_neg hne, hd]; simp
    rw [s1] at s2 s3
    rw [e1, e2]
    refine ⟨rfl, rfl, ⟨?_, ?_, h3⟩, s2, rfl, rfl, rfl⟩
    · show ArraySized.abs _ = _
      rw [s3, habs, set_mid]; simp [Spec.SSeq.Cursor.content]
    · rw [h2, hd]; simp

theorem iterIndex_refines (it : Iter) (a : ArraySized) (c : Spec.SSeq.Cursor Elem) (hrel : IterRel it a c) :
    iterIndex it = c.index := by
  unfold iterIndex Spec.SSeq.Cursor.index wdec Spec.SSeq.wdec
  rw [hrel.2.1, sizeMax_eq]

/-! ### traversal -/
/-- a fresh iterator driven `k ≤ size` times has yielded exactly the first `k` elements, in
order, and stands at position `k`; driven further it reports the end -/
theorem iterNext_at (a : ArraySized) (k : Nat) (lr : Bool) (m : Mem) (h : a.Inv) :
    a.iterNext { index := k, lastRemoved := lr } m =
      (if k < a.size then (.ok, a.abs[k]?, { index := k + 1, lastRemoved := false }, m)
       else (.iterEnd, none, { index := k, lastRemoved := lr }, m)) := by
  unfold iterNext
  by_cases hk : k < a.size
  · rw [if_neg (by dsimp only; omega), if_pos hk,
      decide_eq_true (slot_in a h k (by have := h.2.2.1; omega)), abs_getElem?, if_pos hk]
    rfl
  · rw [if_pos (by dsimp only; omega), if_neg hk]

end CC.ArraySized
