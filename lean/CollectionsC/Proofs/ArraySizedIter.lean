import CollectionsC.Proofs.ArraySized4
/-! Sized array, iterators (C07 part): every iterator function refines the ideal cursor
(`Spec.SSeq.Cursor`: elements before the cursor / elements not yet visited); zip iterators refine
the lock-step cursor. -/
namespace CC.ArraySized
open CC CC.Gen

/-! ### list facts at the cursor position -/
theorem eraseIdx_mid {α : Type} (ys : List α) (y : α) (t : List α) : (ys ++ y :: t).eraseIdx ys.length = ys ++ t := by
  induction ys <;> simp_all
theorem set_mid {α : Type} (ys : List α) (y x : α) (t : List α) : (ys ++ y :: t).set ys.length x = ys ++ x :: t := by
  induction ys <;> simp_all
theorem insertIdx_mid {α : Type} (ys : List α) (e : α) (t : List α) : (ys ++ t).insertIdx ys.length e = ys ++ e :: t := by
  induction ys <;> simp_all
theorem getElem?_mid {α : Type} (ys : List α) (y : α) (t : List α) : (ys ++ y :: t)[ys.length]? = some y := by
  simp
theorem sizeMax_eq : sizeMax = 2 ^ 64 - 1 := by decide
theorem eq_nil_or_snoc {α : Type} (l : List α) : l = [] ∨ ∃ ys y, l = ys ++ [y] := by
  rcases List.eq_nil_or_concat l with h | ⟨ys, y, h⟩
  · exact Or.inl h
  · exact Or.inr ⟨ys, y, by rw [h]; simp⟩

/-- the model iterator `(it, a)` represents the ideal cursor `c` -/
def IterRel (it : Iter) (a : ArraySized) (c : Spec.SSeq.Cursor Elem) : Prop :=
  a.abs = c.content ∧ it.index = c.done.length ∧ it.lastRemoved = c.removed

theorem iterInit_rel (a : ArraySized) : IterRel {} a (Spec.SSeq.Cursor.start a.abs) := ⟨rfl, rfl, rfl⟩

theorem rel_size {it : Iter} {a : ArraySized} {c : Spec.SSeq.Cursor Elem} (hrel : IterRel it a c) :
    a.size = c.done.length + c.todo.length := by
  have := abs_length a
  rw [hrel.1] at this
  simp [Spec.SSeq.Cursor.content] at this
  omega

theorem iterNext_refines (it : Iter) (a : ArraySized) (c : Spec.SSeq.Cursor Elem) (m : Mem) (h : a.Inv)
    (hrel : IterRel it a c) :
    (a.iterNext it m).1 = c.next.1 ∧ (a.iterNext it m).2.1 = c.next.2.1 ∧
    IterRel (a.iterNext it m).2.2.1 a c.next.2.2 ∧ (a.iterNext it m).2.2.2 = m := by
  have hsz := rel_size hrel
  obtain ⟨h1, h2, h3⟩ := hrel
  cases ht : c.todo with
  | nil =>
    rw [ht] at hsz
    have e1 : a.iterNext it m = (.iterEnd, none, it, m) := by
      unfold iterNext; rw [if_pos (by simp at hsz; omega)]
    have e2 : c.next = (.iterEnd, none, c) := by unfold Spec.SSeq.Cursor.next; rw [ht]
    rw [e1, e2]
    exact ⟨rfl, rfl, ⟨h1, h2, h3⟩, rfl⟩
  | cons x t =>
    rw [ht] at hsz
    have hlt : it.index < a.size := by simp at hsz; omega
    have hx : a.chunk it.index = x := by
      have q1 := abs_getElem? a it.index
      rw [if_pos hlt] at q1
      have q2 : a.abs[it.index]? = some x := by rw [h1, Spec.SSeq.Cursor.content, ht, h2, getElem?_mid]
      rw [q2] at q1; exact (Option.some.inj q1).symm
    have e1 : a.iterNext it m = (.ok, some x, { index := it.index + 1, lastRemoved := false }, m) := by
      unfold iterNext
      rw [if_neg (by omega), decide_eq_true (slot_in a h it.index (by have := h.2.2.1; omega)), hx]; rfl
    have e2 : c.next = (.ok, some x, { done := c.done ++ [x], todo := t, removed := false }) := by
      unfold Spec.SSeq.Cursor.next; rw [ht]
    rw [e1, e2]
    refine ⟨rfl, rfl, ⟨?_, ?_, rfl⟩, rfl⟩
    · rw [h1]; simp [Spec.SSeq.Cursor.content, ht]
    · simp [h2]

theorem iterRemove_refines (it : Iter) (a : ArraySized) (c : Spec.SSeq.Cursor Elem) (m : Mem) (h : a.Inv)
    (hrel : IterRel it a c) :
    (a.iterRemove it m).1 = c.remove.1 ∧ (a.iterRemove it m).2.1 = c.remove.2.1 ∧
    IterRel (a.iterRemove it m).2.2.1 (a.iterRemove it m).2.2.2.1 c.remove.2.2 ∧
    (a.iterRemove it m).2.2.2.1.Inv ∧ (a.iterRemove it m).2.2.2.2 = m ∧
    (a.iterRemove it m).2.2.2.1.dataLen = a.dataLen ∧ (a.iterRemove it m).2.2.2.1.cfg = a.cfg ∧
    ((a.iterRemove it m).1 ≠ .ok → (a.iterRemove it m).2.2.2.1 = a ∧ (a.iterRemove it m).2.2.1 = it) := by
  have hsz := rel_size hrel
  obtain ⟨h1, h2, h3⟩ := hrel
  by_cases hr : c.removed = true
  · have e1 : a.iterRemove it m = (.errValueNotFound, none, it, a, m) := by
      unfold iterRemove; rw [h3, hr]; rfl
    have e2 : c.remove = (.errValueNotFound, none, c) := by
      unfold Spec.SSeq.Cursor.remove; rw [if_pos hr]
    rw [e1, e2]
    exact ⟨rfl, rfl, ⟨h1, h2, h3⟩, h, rfl, rfl, rfl, fun _ => ⟨rfl, rfl⟩⟩
  · have hr' : c.removed = false := by simpa using hr
    rcases eq_nil_or_snoc c.done with hd | ⟨ys, y, hd⟩
    · have h0 : it.index = 0 := by rw [h2, hd]; rfl
      have := sizeMax_gt a h
      have e1 : a.iterRemove it m = (.errOutOfRange, none, it, a, m) := by
        unfold iterRemove
        rw [h3, hr', removeAt_inert a (wdec it.index) m (by unfold wdec; rw [if_pos h0]; omega)]; rfl
      have e2 : c.remove = (.errOutOfRange, none, c) := by
        unfold Spec.SSeq.Cursor.remove; rw [if_neg hr, if_pos hd]
      rw [e1, e2]
      exact ⟨rfl, rfl, ⟨h1, h2, h3⟩, h, rfl, rfl, rfl, fun _ => ⟨rfl, rfl⟩⟩
    · have hidx : it.index = ys.length + 1 := by rw [h2, hd]; simp
      have hw : wdec it.index = ys.length := by rw [wdec_pos _ (by omega)]; omega
      have hlt : ys.length < a.size := by rw [hd] at hsz; simp at hsz; omega
      obtain ⟨s1, s2, s3, s4, s5, s6, s7, s8, s9⟩ := removeAt_spec a ys.length m h hlt
      have habs : a.abs = ys ++ y :: c.todo := by rw [h1, Spec.SSeq.Cursor.content, hd]; simp
      have hne : c.done ≠ [] := by rw [hd]; simp
      have e1 : a.iterRemove it m =
          (.ok, some y, { index := ys.length, lastRemoved := true }, (a.removeAt ys.length m).2.2.1, m) := by
        unfold iterRemove
        rw [h3, hr', hw]
        simp only [Bool.not_false, if_true, s1]
        rw [s2, s3, habs, getElem?_mid]
      have e2 : c.remove = (.ok, some y, { c with done := ys, removed := true }) := by
        unfold Spec.SSeq.Cursor.remove; rw [if_neg hr, if_neg hne, hd]; simp
      rw [e1, e2]
      refine ⟨rfl, rfl, ⟨?_, rfl, rfl⟩, s4, rfl, s6, s7, fun hh => absurd rfl hh⟩
      rw [s5, habs, eraseIdx_mid]; rfl

theorem iterAdd_refines (it : Iter) (a : ArraySized) (c : Spec.SSeq.Cursor Elem) (e : Buf Nat) (m : Mem) (h : a.Inv) (he : e.length = a.dataLen) (hrel : IterRel it a c) :
    ((a.iterAdd it e m).1 = .ok ∧ IterRel (a.iterAdd it e m).2.1 (a.iterAdd it e m).2.2.1 (c.add e) ∧
      (a.iterAdd it e m).2.2.1.Inv ∧ (a.iterAdd it e m).2.2.1.dataLen = a.dataLen ∧
      (a.iterAdd it e m).2.2.1.cfg = a.cfg ∧ MemSame a.triple m (a.iterAdd it e m).2.2.2) ∨
    (((a.iterAdd it e m).1 = .errAlloc ∨ (a.iterAdd it e m).1 = .errMaxCapacity) ∧
      (a.iterAdd it e m).2.1 = it ∧ (a.iterAdd it e m).2.2.1 = a ∧ MemSame a.triple m (a.iterAdd it e m).2.2.2) := by
  have hsz := rel_size hrel
  obtain ⟨h1, h2, h3⟩ := hrel
  rcases addAt_spec a e it.index m h he (by omega) with ⟨s1, s2, s3, s4, s5, s6, s7, _⟩ | ⟨s1, s2, s3, _⟩
  · left
    have e1 : a.iterAdd it e m = (.ok, { it with index := it.index + 1 }, (a.addAt e it.index m).2.1, (a.addAt e it.index m).2.2) := by
      unfold iterAdd; rw [if_pos s1, s1]
    rw [e1]
    refine ⟨rfl, ⟨?_, ?_, h3⟩, s2, s4, s5, s7⟩
    · show (a.addAt e it.index m).2.1.abs = _
      rw [s3, h1, Spec.SSeq.Cursor.content, h2, insertIdx_mid]; simp [Spec.SSeq.Cursor.add, Spec.SSeq.Cursor.content]
    · simp [Spec.SSeq.Cursor.add, h2]
  · right
    have hne : (a.addAt e it.index m).1 ≠ .ok := by rcases s1 with s1 | s1 <;> rw [s1] <;> simp
    have e1 : a.iterAdd it e m = ((a.addAt e it.index m).1, it, (a.addAt e it.index m).2.1, (a.addAt e it.index m).2.2) := by
      unfold iterAdd; rw [if_neg hne]
    rw [e1]
    exact ⟨s1, rfl, s2, s3⟩

theorem iterReplace_refines (it : Iter) (a : ArraySized) (c : Spec.SSeq.Cursor Elem) (e : Buf Nat) (m : Mem) (h : a.Inv)
    (he : e.length = a.dataLen) (hrel : IterRel it a c) :
    (a.iterReplace it e m).1 = (c.replace e).1 ∧ (a.iterReplace it e m).2.1 = (c.replace e).2.1 ∧
    IterRel it (a.iterReplace it e m).2.2.1 (c.replace e).2.2 ∧ (a.iterReplace it e m).2.2.1.Inv ∧
    (a.iterReplace it e m).2.2.2 = m ∧ (a.iterReplace it e m).2.2.1.dataLen = a.dataLen ∧
    (a.iterReplace it e m).2.2.1.cfg = a.cfg := by
  have hsz := rel_size hrel
  obtain ⟨h1, h2, h3⟩ := hrel
  rcases eq_nil_or_snoc c.done with hd | ⟨ys, y, hd⟩
  · have h0 : it.index = 0 := by rw [h2, hd]; rfl
    have := sizeMax_gt a h
    have e1 : a.iterReplace it e m = (.errOutOfRange, none, a, m) := by
      unfold iterReplace
      rw [replaceAt_inert a e (wdec it.index) m (by unfold wdec; rw [if_pos h0]; omega)]
    have e2 : c.replace e = (.errOutOfRange, none, c) := by
      unfold Spec.SSeq.Cursor.replace; rw [if_pos hd]
    rw [e1, e2]
    exact ⟨rfl, rfl, ⟨h1, h2, h3⟩, h, rfl, rfl, rfl⟩
  · have hidx : it.index = ys.length + 1 := by rw [h2, hd]; simp
    have hw : wdec it.index = ys.length := by rw [wdec_pos _ (by omega)]; omega
    have hlt : ys.length < a.size := by rw [hd] at hsz; simp at hsz; omega
    obtain ⟨s1, s2, s3⟩ := replaceAt_spec a e ys.length m h he hlt
    have habs : a.abs = ys ++ y :: c.todo := by rw [h1, Spec.SSeq.Cursor.content, hd]; simp
    have hne : c.done ≠ [] := by rw [hd]; simp
    have e1 : a.iterReplace it e m =
        (.ok, some y, { a with buf := a.buf.memcpy (a.dataLen * ys.length) e 0 a.dataLen }, m) := by
      unfold iterReplace; rw [hw, s1, habs, getElem?_mid]
    have e2 : c.replace e = (.ok, some y, { c with done := ys ++ [e] }) := by
      unfold Spec.SSeq.Cursor.replace; rw [if_neg hne, hd]; simp
    rw [s1] at s2 s3
    rw [e1, e2]
    refine ⟨rfl, rfl, ⟨?_, ?_, h3⟩, s2, rfl, rfl, rfl⟩
    · show ArraySized.abs _ = _
      rw [s3, habs, set_mid]; simp [Spec.SSeq.Cursor.content]
    · rw [h2, hd]; simp

theorem iterIndex_refines (it : Iter) (a : ArraySized) (c : Spec.SSeq.Cursor Elem) (hrel : IterRel it a c) :
    iterIndex it = c.index := by
  unfold iterIndex Spec.SSeq.Cursor.index wdec Spec.SSeq.wdec
  rw [hrel.2.1, sizeMax_eq]

/-! ### traversal -/
/-- a fresh iterator driven `k ≤ size` times has yielded exactly the first `k` elements, in
order, and stands at position `k`; driven further it reports the end -/
theorem iterNext_at (a : ArraySized) (k : Nat) (lr : Bool) (m : Mem) (h : a.Inv) :
    a.iterNext { index := k, lastRemoved := lr } m =
      (if k < a.size then (.ok, a.abs[k]?, { index := k + 1, lastRemoved := false }, m)
       else (.iterEnd, none, { index := k, lastRemoved := lr }, m)) := by
  unfold iterNext
  by_cases hk : k < a.size
  · rw [if_neg (by dsimp only; omega), if_pos hk,
      decide_eq_true (slot_in a h k (by have := h.2.2.1; omega)), abs_getElem?, if_pos hk]
    rfl
  · rw [if_pos (by dsimp only; omega), if_neg hk]

/-! ### zip iterators -/
/-- the model zip iterator over `(a1, a2)` represents the lock-step cursor `c` -/
def ZipRel (it : Iter) (a1 a2 : ArraySized) (c : Spec.SSeq.ZipCursor Elem) : Prop :=
  a1.abs = c.content1 ∧ a2.abs = c.content2 ∧ it.index = c.done1.length ∧ c.done2.length = c.done1.length ∧
  it.lastRemoved = c.removed

theorem zipInit_rel (a1 a2 : ArraySized) : ZipRel {} a1 a2 (Spec.SSeq.ZipCursor.start a1.abs a2.abs) :=
  ⟨rfl, rfl, rfl, rfl, rfl⟩

theorem zrel_size {it : Iter} {a1 a2 : ArraySized} {c : Spec.SSeq.ZipCursor Elem} (hrel : ZipRel it a1 a2 c) :
    a1.size = c.done1.length + c.todo1.length ∧ a2.size = c.done1.length + c.todo2.length := by
  have q1 := abs_length a1
  have q2 := abs_length a2
  rw [hrel.1] at q1
  rw [hrel.2.1] at q2
  simp [Spec.SSeq.ZipCursor.content1, Spec.SSeq.ZipCursor.content2] at q1 q2
  have := hrel.2.2.2.1
  omega

theorem chunk_of_abs (a : ArraySized) (k : Nat) (x : List Nat) (h : a.abs[k]? = some x) : a.chunk k = x := by
  have q1 := abs_getElem? a k
  rw [h] at q1
  split at q1
  · exact (Option.some.inj q1).symm
  · cases q1

theorem zipNext_refines (it : Iter) (a1 a2 : ArraySized) (c : Spec.SSeq.ZipCursor Elem) (m : Mem)
    (i1 : a1.Inv) (i2 : a2.Inv) (hrel : ZipRel it a1 a2 c) :
    (zipNext it a1 a2 m).1 = c.next.1 ∧ (zipNext it a1 a2 m).2.1 = c.next.2.1 ∧
    ZipRel (zipNext it a1 a2 m).2.2.1 a1 a2 c.next.2.2 ∧ (zipNext it a1 a2 m).2.2.2 = m := by
  have hsz := zrel_size hrel
  obtain ⟨h1, h2, h3, h4, h5⟩ := hrel
  cases ht1 : c.todo1 with
  | nil =>
    rw [ht1] at hsz
    have e1 : zipNext it a1 a2 m = (.iterEnd, none, it, m) := by
      unfold zipNext
      have : (decide (it.index ≥ a1.size) || decide (it.index ≥ a2.size)) = true := by
        simp at hsz ⊢; omega
      rw [this]; rfl
    have e2 : c.next = (.iterEnd, none, c) := by unfold Spec.SSeq.ZipCursor.next; rw [ht1]
    rw [e1, e2]
    exact ⟨rfl, rfl, ⟨h1, h2, h3, h4, h5⟩, rfl⟩
  | cons x t1 =>
    cases ht2 : c.todo2 with
    | nil =>
      rw [ht2] at hsz
      have e1 : zipNext it a1 a2 m = (.iterEnd, none, it, m) := by
        unfold zipNext
        have : (decide (it.index ≥ a1.size) || decide (it.index ≥ a2.size)) = true := by
          simp at hsz ⊢; omega
        rw [this]; rfl
      have e2 : c.next = (.iterEnd, none, c) := by unfold Spec.SSeq.ZipCursor.next; rw [ht1, ht2]
      rw [e1, e2]
      exact ⟨rfl, rfl, ⟨h1, h2, h3, h4, h5⟩, rfl⟩
    | cons y t2 =>
      rw [ht1, ht2] at hsz
      have hl1 : it.index < a1.size := by simp at hsz; omega
      have hl2 : it.index < a2.size := by simp at hsz; omega
      have hx : a1.chunk it.index = x := chunk_of_abs a1 _ x (by
        rw [h1, Spec.SSeq.ZipCursor.content1, ht1, h3, getElem?_mid])
      have hy : a2.chunk it.index = y := chunk_of_abs a2 _ y (by
        rw [h2, Spec.SSeq.ZipCursor.content2, ht2, h3, ← h4, getElem?_mid])
      have e1 : zipNext it a1 a2 m = (.ok, some (x, y), { index := it.index + 1, lastRemoved := false }, m) := by
        unfold zipNext
        have : (decide (it.index ≥ a1.size) || decide (it.index ≥ a2.size)) = false := by simp; omega
        rw [this]
        have s1 := slot_in a1 i1 it.index (by have := i1.2.2.1; omega)
        have s2 := slot_in a2 i2 it.index (by have := i2.2.2.1; omega)
        have : (decide (a1.dataLen * it.index + a1.dataLen ≤ a1.buf.length) &&
            decide (a2.dataLen * it.index + a2.dataLen ≤ a2.buf.length)) = true := by simp only [s1, s2]; simp
        rw [this, hx, hy]; rfl
      have e2 : c.next = (.ok, some (x, y),
          { done1 := c.done1 ++ [x], todo1 := t1, done2 := c.done2 ++ [y], todo2 := t2, removed := false }) := by
        unfold Spec.SSeq.ZipCursor.next; rw [ht1, ht2]
      rw [e1, e2]
      refine ⟨rfl, rfl, ⟨?_, ?_, ?_, ?_, rfl⟩, rfl⟩
      · rw [h1]; simp [Spec.SSeq.ZipCursor.content1, ht1]
      · rw [h2]; simp [Spec.SSeq.ZipCursor.content2, ht2]
      · simp [h3]
      · simp [h4]

theorem zipRemove_refines (it : Iter) (a1 a2 : ArraySized) (c : Spec.SSeq.ZipCursor Elem) (m : Mem)
    (i1 : a1.Inv) (i2 : a2.Inv) (hrel : ZipRel it a1 a2 c) :
    (zipRemove it a1 a2 m).1 = c.remove.1 ∧ (zipRemove it a1 a2 m).2.1 = c.remove.2.1 ∧
    ZipRel (zipRemove it a1 a2 m).2.2.1 (zipRemove it a1 a2 m).2.2.2.1 (zipRemove it a1 a2 m).2.2.2.2.1 c.remove.2.2 ∧
    (zipRemove it a1 a2 m).2.2.2.1.Inv ∧ (zipRemove it a1 a2 m).2.2.2.2.1.Inv ∧
    (zipRemove it a1 a2 m).2.2.2.2.2 = m ∧
    ((zipRemove it a1 a2 m).1 ≠ .ok → (zipRemove it a1 a2 m).2.2.2.1 = a1 ∧ (zipRemove it a1 a2 m).2.2.2.2.1 = a2 ∧
      (zipRemove it a1 a2 m).2.2.1 = it) := by
  have hsz := zrel_size hrel
  obtain ⟨h1, h2, h3, h4, h5⟩ := hrel
  rcases eq_nil_or_snoc c.done1 with hd | ⟨ys, y, hd⟩
  · have h0 : it.index = 0 := by rw [h3, hd]; rfl
    have := sizeMax_gt a1 i1
    have e1 : zipRemove it a1 a2 m = (.errOutOfRange, none, it, a1, a2, m) := by
      unfold zipRemove
      have : (decide (wdec it.index ≥ a1.size) || decide (wdec it.index ≥ a2.size)) = true := by
        unfold wdec; rw [if_pos h0]; simp; omega
      rw [this]; rfl
    have e2 : c.remove = (.errOutOfRange, none, c) := by
      unfold Spec.SSeq.ZipCursor.remove; rw [hd]; rfl
    rw [e1, e2]
    exact ⟨rfl, rfl, ⟨h1, h2, h3, h4, h5⟩, i1, i2, rfl, fun _ => ⟨rfl, rfl, rfl⟩⟩
  · have hd2 : ∃ zs z, c.done2 = zs ++ [z] ∧ zs.length = ys.length := by
      rcases eq_nil_or_snoc c.done2 with hd2 | ⟨zs, z, hd2⟩
      · rw [hd2, hd] at h4; simp at h4
      · exact ⟨zs, z, hd2, by rw [hd2, hd] at h4; simpa using h4⟩
    obtain ⟨zs, z, hd2, hzl⟩ := hd2
    have hidx : it.index = ys.length + 1 := by rw [h3, hd]; simp
    have hw : wdec it.index = ys.length := by rw [wdec_pos _ (by omega)]; omega
    have hl1 : ys.length < a1.size := by rw [hd] at hsz; simp at hsz; omega
    have hl2 : ys.length < a2.size := by rw [hd] at hsz; simp at hsz; omega
    have habs1 : a1.abs = ys ++ y :: c.todo1 := by rw [h1, Spec.SSeq.ZipCursor.content1, hd]; simp
    have habs2 : a2.abs = zs ++ z :: c.todo2 := by rw [h2, Spec.SSeq.ZipCursor.content2, hd2]; simp
    have hrange : (decide (wdec it.index ≥ a1.size) || decide (wdec it.index ≥ a2.size)) = false := by
      rw [hw]; simp; omega
    have g1 : c.done1.getLast? = some y := by rw [hd]; simp
    have g2 : c.done2.getLast? = some z := by rw [hd2]; simp
    by_cases hr : c.removed = true
    · have e1 : zipRemove it a1 a2 m = (.errValueNotFound, none, it, a1, a2, m) := by
        unfold zipRemove; rw [hrange, h5, hr]; rfl
      have e2 : c.remove = (.errValueNotFound, none, c) := by
        unfold Spec.SSeq.ZipCursor.remove; rw [g1, g2]; dsimp only; rw [if_pos hr]
      rw [e1, e2]
      exact ⟨rfl, rfl, ⟨h1, h2, h3, h4, h5⟩, i1, i2, rfl, fun _ => ⟨rfl, rfl, rfl⟩⟩
    · have hr' : c.removed = false := by simpa using hr
      obtain ⟨s1, s2, s3, s4, s5, _⟩ := removeAt_spec a1 ys.length m i1 hl1
      obtain ⟨t1, t2, t3, t4, t5, _⟩ := removeAt_spec a2 ys.length m i2 hl2
      have e1 : zipRemove it a1 a2 m = (.ok, some (y, z), { index := ys.length, lastRemoved := true },
          (a1.removeAt ys.length m).2.2.1, (a2.removeAt ys.length m).2.2.1, m) := by
        unfold zipRemove
        rw [hrange, h5, hr', hw]
        simp only [Bool.false_eq_true, if_false, Bool.not_false, if_true]
        rw [s3, s2, t2, t3, habs1, getElem?_mid, habs2, ← hzl, getElem?_mid]; rfl
      have e2 : c.remove = (.ok, some (y, z), { c with done1 := ys, done2 := zs, removed := true }) := by
        unfold Spec.SSeq.ZipCursor.remove; rw [g1, g2]; dsimp only; rw [if_neg hr, hd, hd2]; simp
      rw [e1, e2]
      refine ⟨rfl, rfl, ⟨?_, ?_, rfl, hzl, rfl⟩, s4, t4, rfl, fun hh => absurd rfl hh⟩
      · show (a1.removeAt ys.length m).2.2.1.abs = _
        rw [s5, habs1, eraseIdx_mid]; rfl
      · show (a2.removeAt ys.length m).2.2.1.abs = _
        rw [t5, habs2, ← hzl, eraseIdx_mid]; rfl

theorem zipReplace_refines (it : Iter) (a1 a2 : ArraySized) (c : Spec.SSeq.ZipCursor Elem) (e1 e2 : Buf Nat) (m : Mem)
    (i1 : a1.Inv) (i2 : a2.Inv) (he1 : e1.length = a1.dataLen) (he2 : e2.length = a2.dataLen)
    (hrel : ZipRel it a1 a2 c) :
    (zipReplace it a1 a2 e1 e2 m).1 = (c.replace e1 e2).1 ∧ (zipReplace it a1 a2 e1 e2 m).2.1 = (c.replace e1 e2).2.1 ∧
    ZipRel it (zipReplace it a1 a2 e1 e2 m).2.2.1 (zipReplace it a1 a2 e1 e2 m).2.2.2.1 (c.replace e1 e2).2.2 ∧
    (zipReplace it a1 a2 e1 e2 m).2.2.1.Inv ∧ (zipReplace it a1 a2 e1 e2 m).2.2.2.1.Inv ∧
    (zipReplace it a1 a2 e1 e2 m).2.2.2.2 = m := by
  have hsz := zrel_size hrel
  obtain ⟨h1, h2, h3, h4, h5⟩ := hrel
  rcases eq_nil_or_snoc c.done1 with hd | ⟨ys, y, hd⟩
  · have h0 : it.index = 0 := by rw [h3, hd]; rfl
    have := sizeMax_gt a1 i1
    have q1 : zipReplace it a1 a2 e1 e2 m = (.errOutOfRange, none, a1, a2, m) := by
      unfold zipReplace
      have : (decide (wdec it.index ≥ a1.size) || decide (wdec it.index ≥ a2.size)) = true := by
        unfold wdec; rw [if_pos h0]; simp; omega
      rw [this]; rfl
    have q2 : c.replace e1 e2 = (.errOutOfRange, none, c) := by
      unfold Spec.SSeq.ZipCursor.replace; rw [hd]; rfl
    rw [q1, q2]
    exact ⟨rfl, rfl, ⟨h1, h2, h3, h4, h5⟩, i1, i2, rfl⟩
  · have hd2 : ∃ zs z, c.done2 = zs ++ [z] ∧ zs.length = ys.length := by
      rcases eq_nil_or_snoc c.done2 with hd2 | ⟨zs, z, hd2⟩
      · rw [hd2, hd] at h4; simp at h4
      · exact ⟨zs, z, hd2, by rw [hd2, hd] at h4; simpa using h4⟩
    obtain ⟨zs, z, hd2, hzl⟩ := hd2
    have hidx : it.index = ys.length + 1 := by rw [h3, hd]; simp
    have hw : wdec it.index = ys.length := by rw [wdec_pos _ (by omega)]; omega
    have hl1 : ys.length < a1.size := by rw [hd] at hsz; simp at hsz; omega
    have hl2 : ys.length < a2.size := by rw [hd] at hsz; simp at hsz; omega
    have habs1 : a1.abs = ys ++ y :: c.todo1 := by rw [h1, Spec.SSeq.ZipCursor.content1, hd]; simp
    have habs2 : a2.abs = zs ++ z :: c.todo2 := by rw [h2, Spec.SSeq.ZipCursor.content2, hd2]; simp
    have hrange : (decide (wdec it.index ≥ a1.size) || decide (wdec it.index ≥ a2.size)) = false := by
      rw [hw]; simp; omega
    have g1 : c.done1.getLast? = some y := by rw [hd]; simp
    have g2 : c.done2.getLast? = some z := by rw [hd2]; simp
    obtain ⟨s1, s2, s3⟩ := replaceAt_spec a1 e1 ys.length m i1 he1 hl1
    obtain ⟨t1, t2, t3⟩ := replaceAt_spec a2 e2 ys.length m i2 he2 hl2
    rw [s1] at s2 s3
    rw [t1] at t2 t3
    have q1 : zipReplace it a1 a2 e1 e2 m = (.ok, some (y, z),
        { a1 with buf := a1.buf.memcpy (a1.dataLen * ys.length) e1 0 a1.dataLen },
        { a2 with buf := a2.buf.memcpy (a2.dataLen * ys.length) e2 0 a2.dataLen }, m) := by
      unfold zipReplace
      rw [hrange, hw, s1]
      simp only [Bool.false_eq_true, if_false]
      rw [t1, habs1, getElem?_mid, habs2, ← hzl, getElem?_mid]; rfl
    have q2 : c.replace e1 e2 = (.ok, some (y, z), { c with done1 := ys ++ [e1], done2 := zs ++ [e2] }) := by
      unfold Spec.SSeq.ZipCursor.replace; rw [g1, g2]; dsimp only; rw [hd, hd2]; simp
    rw [q1, q2]
    refine ⟨rfl, rfl, ⟨?_, ?_, ?_, ?_, h5⟩, s2, t2, rfl⟩
    · show ArraySized.abs _ = _
      rw [s3, habs1, set_mid]; simp [Spec.SSeq.ZipCursor.content1]
    · show ArraySized.abs _ = _
      rw [t3, habs2, ← hzl, set_mid]; simp [Spec.SSeq.ZipCursor.content2]
    · rw [h3, hd]; simp
    · simp [hzl]

theorem zipIndex_refines (it : Iter) (a1 a2 : ArraySized) (c : Spec.SSeq.ZipCursor Elem) (hrel : ZipRel it a1 a2 c) :
    iterIndex it = c.index := by
  unfold iterIndex Spec.SSeq.ZipCursor.index wdec Spec.SSeq.wdec
  rw [hrel.2.2.1, sizeMax_eq]

/-- with a free slot `add_at` cannot be refused -/
theorem addAt_room (a : ArraySized) (e : Buf Nat) (index : Nat) (m : Mem) (h : a.Inv)
    (he : e.length = a.dataLen) (hi : index ≤ a.size) (hroom : a.size < a.capacity) :
    (a.addAt e index m).1 = .ok ∧ (a.addAt e index m).2.1.Inv ∧
    (a.addAt e index m).2.1.abs = a.abs.insertIdx index e ∧ MemSame a.triple m (a.addAt e index m).2.2 := by
  rcases addAt_spec a e index m h he hi with ⟨s1, s2, s3, _, _, _, s7, _⟩ | ⟨_, _, _, s4, _⟩
  · exact ⟨s1, s2, s3, s7⟩
  · omega

theorem zipRoom_eq (a : ArraySized) (m : Mem) (h : a.Inv) :
    (if a.size = a.capacity then expandCapacity a m else (.ok, a, m)) = a.ensureRoom m := by
  have := h.2.2.1
  unfold ensureRoom
  by_cases hc : a.size = a.capacity
  · rw [if_pos hc, if_pos (by omega)]
  · rw [if_neg hc, if_neg (by omega)]

/-- `zip_iter_add`: either both elements are inserted directly after the pair yielded last and
the cursor steps over them, or a growth was refused: then the status is `CC_ERR_ALLOC`, both
contents are unchanged, the ledger is balanced and the cursor has not moved (repair A8) -/
theorem zipAdd_spec (it : Iter) (a1 a2 : ArraySized) (c : Spec.SSeq.ZipCursor Elem) (e1 e2 : Buf Nat) (m : Mem)
    (i1 : a1.Inv) (i2 : a2.Inv)
    (he1 : e1.length = a1.dataLen) (he2 : e2.length = a2.dataLen) (hrel : ZipRel it a1 a2 c) :
    ((zipAdd it a1 a2 e1 e2 m).1 = .ok ∧
      ZipRel (zipAdd it a1 a2 e1 e2 m).2.1 (zipAdd it a1 a2 e1 e2 m).2.2.1 (zipAdd it a1 a2 e1 e2 m).2.2.2.1 (c.add e1 e2) ∧
      (zipAdd it a1 a2 e1 e2 m).2.2.1.Inv ∧ (zipAdd it a1 a2 e1 e2 m).2.2.2.1.Inv ∧
      Bal m (zipAdd it a1 a2 e1 e2 m).2.2.2.2) ∨
    ((zipAdd it a1 a2 e1 e2 m).1 = .errAlloc ∧
      (zipAdd it a1 a2 e1 e2 m).2.2.1.abs = a1.abs ∧ (zipAdd it a1 a2 e1 e2 m).2.2.2.1.abs = a2.abs ∧
      (zipAdd it a1 a2 e1 e2 m).2.2.1.Inv ∧ (zipAdd it a1 a2 e1 e2 m).2.2.2.1.Inv ∧
      Bal m (zipAdd it a1 a2 e1 e2 m).2.2.2.2 ∧
      (zipAdd it a1 a2 e1 e2 m).2.1 = it ∧
      ZipRel (zipAdd it a1 a2 e1 e2 m).2.1 (zipAdd it a1 a2 e1 e2 m).2.2.1 (zipAdd it a1 a2 e1 e2 m).2.2.2.1 c) := by
  have hsz := zrel_size hrel
  obtain ⟨h1, h2, h3, h4, h5⟩ := hrel
  unfold zipAdd
  dsimp only
  rw [zipRoom_eq a1 m i1]
  rcases ensureRoom_spec a1 m i1 with ⟨p1, p2, p3, p4, p5, p6, p7, p8, p9, _⟩ | ⟨p1, p2, p3, _⟩
  · generalize a1.ensureRoom m = r1 at *
    obtain ⟨st1, b1, m1⟩ := r1
    dsimp only at *
    subst p1
    simp only [ne_eq, not_true_eq_false, if_false]
    rw [zipRoom_eq a2 m1 i2]
    rcases ensureRoom_spec a2 m1 i2 with ⟨q1, q2, q3, q4, q5, q6, q7, q8, q9, _⟩ | ⟨q1, q2, q3, _⟩
    · generalize a2.ensureRoom m1 = r2 at *
      obtain ⟨st2, b2, m2⟩ := r2
      dsimp only at *
      subst q1
      simp only [not_true_eq_false, if_false]
      left
      have hi1 : it.index ≤ b1.size := by rw [p4]; omega
      have hi2 : it.index ≤ b2.size := by rw [q4]; omega
      obtain ⟨u1, u2, u3, u4⟩ := addAt_room b1 e1 it.index m2 p2 (by rw [p5]; exact he1) hi1 (by rw [p4]; exact p8)
      obtain ⟨v1, v2, v3, v4⟩ := addAt_room b2 e2 it.index (b1.addAt e1 it.index m2).2.2 q2
        (by rw [q5]; exact he2) hi2 (by rw [q4]; exact q8)
      rw [if_neg (by rw [u1]; simp), if_neg (by rw [v1]; simp)]
      refine ⟨rfl, ⟨?_, ?_, ?_, ?_, h5⟩, u2, v2, Bal.trans p9.bal (Bal.trans q9.bal (Bal.trans u4.bal v4.bal))⟩
      · rw [u3, p3, h1, Spec.SSeq.ZipCursor.content1, h3, insertIdx_mid]
        simp [Spec.SSeq.ZipCursor.add, Spec.SSeq.ZipCursor.content1]
      · rw [v3, q3, h2, Spec.SSeq.ZipCursor.content2, h3, ← h4, insertIdx_mid]
        simp [Spec.SSeq.ZipCursor.add, Spec.SSeq.ZipCursor.content2]
      · simp [Spec.SSeq.ZipCursor.add, h3]
      · simp [Spec.SSeq.ZipCursor.add, h4]
    · right
      have hne : (a2.ensureRoom m1).1 ≠ .ok := by rcases q1 with q1 | q1 <;> rw [q1] <;> simp
      rw [if_pos hne]
      exact ⟨rfl, p3, by rw [q2], p2, by rw [q2]; exact i2, Bal.trans p9.bal q3.bal, rfl,
        ⟨p3.trans h1, by rw [q2]; exact h2, h3, h4, h5⟩⟩
  · right
    have hne : (a1.ensureRoom m).1 ≠ .ok := by rcases p1 with p1 | p1 <;> rw [p1] <;> simp
    rw [if_pos hne]
    exact ⟨rfl, by rw [p2], rfl, by rw [p2]; exact i1, i2, p3.bal, rfl, ⟨by rw [p2]; exact h1, h2, h3, h4, h5⟩⟩

/-! ### CC_ARRAY_SIZED_FOREACH -/
theorem foreachGo_spec (a : ArraySized) (m : Mem) (h : a.Inv) :
    ∀ (f k : Nat) (lr : Bool) (acc : List (List Nat)), k ≤ a.size → a.size < k + f →
      a.foreachGo f { index := k, lastRemoved := lr } m acc = (acc ++ a.abs.drop k, m) := by
  intro f
  induction f with
  | zero => intro k lr acc h1 h2; omega
  | succ f ih =>
    intro k lr acc h1 h2
    unfold foreachGo
    rw [iterNext_at a k lr m h]
    by_cases hk : k < a.size
    · rw [if_pos hk]
      dsimp only
      rw [abs_getElem?, if_pos hk]
      dsimp only
      rw [ih (k + 1) false _ (by omega) (by omega)]
      have : a.abs.drop k = a.chunk k :: a.abs.drop (k + 1) := by
        rw [List.drop_eq_getElem_cons (by rw [abs_length]; exact hk)]
        congr 1
        simp [abs]
      rw [this]; simp
    · rw [if_neg hk]
      dsimp only
      rw [List.drop_of_length_le (by rw [abs_length]; omega)]; simp

/-- the FOREACH macro visits every element exactly once, in index order, then stops -/
theorem foreach_spec (a : ArraySized) (m : Mem) (h : a.Inv) : a.foreach m = (a.abs, m) := by
  unfold foreach
  rw [foreachGo_spec a m h (a.size + 1) 0 false [] (by omega) (by omega)]
  simp

end CC.ArraySized
