import CollectionsC.Model.PQueue
import CollectionsC.Proofs.MemT
/-! Helper lemmas for the binary heap: index macros, swaps as permutations, the sift-up loop and
the recursive sift-down (`heapify`) restore heap order, the root is maximal. -/
namespace CC
open Gen (ccParent ccLeft ccRight)
open Spec (TotalPreorder)

namespace PQueue

/-! ## the generated index macros -/
theorem parent_left (i : Nat) : ccParent (ccLeft i) = i := by
  unfold ccParent ccLeft; simp
theorem parent_right (i : Nat) : ccParent (ccRight i) = i := by
  unfold ccParent ccRight; simp; omega
theorem child_of (i j : Nat) (hj : 0 < j) (h : ccParent j = i) : j = ccLeft i ∨ j = ccRight i := by
  unfold ccParent at h; unfold ccLeft ccRight
  simp only [gt_iff_lt, hj, if_true] at h
  omega
theorem parent_lt (j : Nat) (hj : 0 < j) : ccParent j < j := ccParent_lt j (by omega)
theorem left_gt (i : Nat) : i < ccLeft i := by unfold ccLeft; omega
theorem right_gt (i : Nat) : i < ccRight i := by unfold ccRight; omega
theorem left_ne_right (i : Nat) : ccLeft i ≠ ccRight i := by unfold ccLeft ccRight; omega

/-! ## comparator facts -/
theorem cmp_refl {cmp : Nat → Nat → Int} (tp : TotalPreorder cmp) (a : Nat) : 0 ≤ cmp a a := by
  by_cases h : cmp a a ≤ 0
  · exact tp.flip a a h
  · omega

/-! ## swaps -/
@[simp] theorem length_swap (b : Buf Nat) (i j : Nat) : (swap b i j).length = b.length := by
  simp [swap]

theorem get_swap (b : Buf Nat) (i j k : Nat) (hi : i < b.length) (hj : j < b.length) :
    (swap b i j).get k = if k = j then b.get i else if k = i then b.get j else b.get k := by
  unfold swap
  rw [Buf.get_put, Buf.get_put]
  by_cases h1 : k = j
  · subst h1; simp [hj]
  · by_cases h2 : k = i
    · subst h2
      have h1' : ¬ j = k := fun e => h1 e.symm
      simp [hi, h1, h1']
    · simp [h1, h2, Ne.symm h1, Ne.symm h2]

/-- the transposition of `i` and `j` -/
def tr (i j k : Nat) : Nat := if k = j then i else if k = i then j else k

theorem tr_invol (i j k : Nat) : tr i j (tr i j k) = k := by
  unfold tr
  by_cases h1 : k = j
  · subst h1
    by_cases h2 : i = k
    · simp [h2]
    · simp [h2]
  · by_cases h2 : k = i
    · subst h2; simp [h1]
    · simp [h1, h2]

theorem tr_lt (i j k n : Nat) (hi : i < n) (hj : j < n) (hk : k < n) : tr i j k < n := by
  unfold tr; split
  · exact hi
  · split
    · exact hj
    · exact hk

theorem perm_tr (i j n : Nat) (hi : i < n) (hj : j < n) : ((List.range n).map (tr i j)).Perm (List.range n) := by
  rw [List.perm_ext_iff_of_nodup]
  · intro a
    simp only [List.mem_map, List.mem_range]
    constructor
    · rintro ⟨k, hk, rfl⟩; exact tr_lt i j k n hi hj hk
    · intro ha; exact ⟨tr i j a, tr_lt i j a n hi hj ha, tr_invol i j a⟩
  · unfold List.Nodup
    rw [List.pairwise_map]
    refine List.Pairwise.imp ?_ (List.nodup_range (n := n))
    intro a b hab e
    apply hab
    rw [← tr_invol i j a, ← tr_invol i j b, e]
  · exact List.nodup_range

/-- swapping two of the first `n` slots permutes the first `n` slots -/
theorem firstN_swap (b : Buf Nat) (i j n : Nat) (hi : i < n) (hj : j < n) (hn : n ≤ b.length) :
    ((swap b i j).firstN n).Perm (b.firstN n) := by
  have h1 : (swap b i j).firstN n = ((List.range n).map (tr i j)).map b.get := by
    unfold Buf.firstN
    rw [List.map_map, List.map_inj_left]
    intro k _
    rw [get_swap b i j k (by omega) (by omega)]
    simp only [Function.comp, tr]
    split
    · rfl
    · split <;> rfl
  rw [h1]
  exact (perm_tr i j n hi hj).map b.get

theorem firstN_succ (b : Buf Nat) (n : Nat) : b.firstN (n + 1) = b.firstN n ++ [b.get n] := by
  simp [Buf.firstN, List.range_succ]

theorem firstN_congr (b b' : Buf Nat) (n : Nat) (h : ∀ j, j < n → b.get j = b'.get j) :
    b.firstN n = b'.firstN n := by
  unfold Buf.firstN
  rw [List.map_inj_left]
  intro j hj
  exact h j (List.mem_range.1 hj)

theorem mem_firstN (b : Buf Nat) (n : Nat) (y : Nat) : y ∈ b.firstN n ↔ ∃ j, j < n ∧ b.get j = y := by
  simp [Buf.firstN]

/-! ## the root of a heap is maximal -/
theorem root_max {cmp : Nat → Nat → Int} (tp : TotalPreorder cmp) (b : Buf Nat) (n : Nat)
    (h : HeapOrd cmp b n) : ∀ j, j < n → 0 ≤ cmp (b.get 0) (b.get j) := by
  intro j
  induction j using Nat.strongRecOn with
  | _ j ih =>
    intro hj
    by_cases h0 : j = 0
    · subst h0; exact cmp_refl tp _
    · have hp := parent_lt j (by omega)
      exact tp.trans _ _ _ (ih _ hp (by omega)) (h j hj (by omega))


/-! ## sift-up -/

/-- heap order everywhere except between `i` and its parent; the children of `i` do not beat the
parent of `i` -/
def HeapUp (cmp : Nat → Nat → Int) (b : Buf Nat) (n i : Nat) : Prop :=
  (∀ j, j < n → 0 < j → j ≠ i → 0 ≤ cmp (b.get (ccParent j)) (b.get j)) ∧
  (0 < i → ∀ c, c < n → 0 < c → ccParent c = i → 0 ≤ cmp (b.get (ccParent i)) (b.get c))

theorem siftUp_spec {cmp : Nat → Nat → Int} (tp : TotalPreorder cmp) (n : Nat) :
    ∀ (i : Nat) (b : Buf Nat) (m : Mem), i < n → n ≤ b.length → HeapUp cmp b n i →
      HeapOrd cmp (siftUp cmp b i m).1 n ∧ (siftUp cmp b i m).1.length = b.length ∧
      ((siftUp cmp b i m).1.firstN n).Perm (b.firstN n) ∧ (siftUp cmp b i m).2 = m := by
  intro i
  induction i using Nat.strongRecOn with
  | _ i ih =>
    intro b m hi hn hu
    rw [siftUp]
    by_cases hc : i ≠ 0 ∧ cmp (b.get i) (b.get (ccParent i)) > 0
    · rw [dif_pos hc]
      have hi0 : 0 < i := by omega
      have hp := parent_lt i hi0
      have hgs : ∀ k, (swap b i (ccParent i)).get k =
          if k = ccParent i then b.get i else if k = i then b.get (ccParent i) else b.get k :=
        fun k => get_swap b i (ccParent i) k (by omega) (by omega)
      have hcheck : (m.check (decide (i < b.length))) = m := by
        have : i < b.length := by omega
        simp [this]
      rw [hcheck]
      have hup : HeapUp cmp (swap b i (ccParent i)) n (ccParent i) := by
        constructor
        · intro j hj hj0 hjp
          rw [hgs (ccParent j), hgs j]
          by_cases hji : j = i
          · subst hji
            have : ¬ j = ccParent j := by omega
            simp only [if_true, this, if_false]
            omega
          · simp only [hjp, hji, if_false]
            by_cases h1 : ccParent j = ccParent i
            · simp only [h1, if_true]
              have e1 := hu.1 j hj hj0 hji
              rw [h1] at e1
              exact tp.trans _ _ _ (by omega) e1
            · simp only [h1, if_false]
              by_cases h2 : ccParent j = i
              · simp only [h2, if_true]
                exact hu.2 hi0 j hj hj0 h2
              · simp only [h2, if_false]
                exact hu.1 j hj hj0 hji
        · intro hp0 c hcn hc0 hcp
          have hpp := parent_lt (ccParent i) hp0
          rw [hgs (ccParent (ccParent i)), hgs c]
          have a1 : ¬ ccParent (ccParent i) = ccParent i := by omega
          have a2 : ¬ ccParent (ccParent i) = i := by omega
          simp only [a1, a2, if_false]
          have hpc := parent_lt c hc0
          have a3 : ¬ c = ccParent i := by omega
          simp only [a3, if_false]
          have e2 := hu.1 (ccParent i) (by omega) hp0 (by omega)
          by_cases hci : c = i
          · simp only [hci, if_true]; exact e2
          · simp only [hci, if_false]
            have e1 := hu.1 c hcn hc0 hci
            rw [hcp] at e1
            exact tp.trans _ _ _ e2 e1
      have := ih (ccParent i) hp (swap b i (ccParent i)) m (by omega) (by simpa using hn) hup
      refine ⟨this.1, by rw [this.2.1]; simp, ?_, this.2.2.2⟩
      exact this.2.2.1.trans (firstN_swap b i (ccParent i) n hi (by omega) hn)
    · rw [dif_neg hc]
      refine ⟨?_, rfl, List.Perm.refl _, rfl⟩
      intro j hj hj0
      show 0 ≤ cmp (b.get (ccParent j)) (b.get j)
      by_cases hji : j = i
      · subst hji
        have : ¬ cmp (b.get j) (b.get (ccParent j)) > 0 := by
          intro h; exact hc ⟨by omega, h⟩
        exact tp.flip _ _ (by omega)
      · exact hu.1 j hj hj0 hji

/-! ## sift-down -/

/-- heap order everywhere except between `i` and its children; the children of `i` do not beat the
parent of `i` -/
def HeapDown (cmp : Nat → Nat → Int) (b : Buf Nat) (n i : Nat) : Prop :=
  (∀ j, j < n → 0 < j → ccParent j ≠ i → 0 ≤ cmp (b.get (ccParent j)) (b.get j)) ∧
  (0 < i → ∀ c, c < n → 0 < c → ccParent c = i → 0 ≤ cmp (b.get (ccParent i)) (b.get c))

/-- `pick` returns the position of a maximal element among `index` and its children inside the heap -/
theorem pick_max {cmp : Nat → Nat → Int} (tp : TotalPreorder cmp) (b : Buf Nat) (n i : Nat) :
    0 ≤ cmp (b.get (pick cmp b n i)) (b.get i) ∧
    (ccLeft i < n → 0 ≤ cmp (b.get (pick cmp b n i)) (b.get (ccLeft i))) ∧
    (ccRight i < n → 0 ≤ cmp (b.get (pick cmp b n i)) (b.get (ccRight i))) := by
  unfold pick; dsimp only
  by_cases h1 : ccLeft i < n ∧ cmp (b.get i) (b.get (ccLeft i)) < 0
  · have hLi : 0 ≤ cmp (b.get (ccLeft i)) (b.get i) := tp.flip _ _ (by omega)
    by_cases h2 : ccRight i < n ∧ cmp (b.get (ccLeft i)) (b.get (ccRight i)) < 0
    · have hRL : 0 ≤ cmp (b.get (ccRight i)) (b.get (ccLeft i)) := tp.flip _ _ (by omega)
      simp only [h1, h2, and_self, if_true]
      exact ⟨tp.trans _ _ _ hRL hLi, fun _ => hRL, fun _ => cmp_refl tp _⟩
    · simp only [h1, h2, and_self, if_true, if_false]
      refine ⟨hLi, fun _ => cmp_refl tp _, fun hr => ?_⟩
      have : ¬ cmp (b.get (ccLeft i)) (b.get (ccRight i)) < 0 := fun h => h2 ⟨hr, h⟩
      omega
  · by_cases h2 : ccRight i < n ∧ cmp (b.get i) (b.get (ccRight i)) < 0
    · have hRi : 0 ≤ cmp (b.get (ccRight i)) (b.get i) := tp.flip _ _ (by omega)
      simp only [h1, h2, and_self, if_true, if_false]
      refine ⟨hRi, fun hl => ?_, fun _ => cmp_refl tp _⟩
      have : ¬ cmp (b.get i) (b.get (ccLeft i)) < 0 := fun h => h1 ⟨hl, h⟩
      exact tp.trans _ _ _ hRi (by omega)
    · simp only [h1, h2, if_false]
      refine ⟨cmp_refl tp _, fun hl => ?_, fun hr => ?_⟩
      · have : ¬ cmp (b.get i) (b.get (ccLeft i)) < 0 := fun h => h1 ⟨hl, h⟩
        omega
      · have : ¬ cmp (b.get i) (b.get (ccRight i)) < 0 := fun h => h2 ⟨hr, h⟩
        omega

theorem heapify_small (cmp : Nat → Nat → Int) (b : Buf Nat) (n i : Nat) (m : Mem) (h : n ≤ 1) :
    heapify cmp b n i m = (b, m) := by
  rw [heapify]; simp [h]

theorem heapify_spec {cmp : Nat → Nat → Int} (tp : TotalPreorder cmp) (n : Nat) :
    ∀ (d i : Nat) (b : Buf Nat) (m : Mem), n - i = d → i < n → n ≤ b.length → HeapDown cmp b n i →
      HeapOrd cmp (heapify cmp b n i m).1 n ∧ (heapify cmp b n i m).1.length = b.length ∧
      ((heapify cmp b n i m).1.firstN n).Perm (b.firstN n) ∧ (heapify cmp b n i m).2 = m := by
  intro d
  induction d using Nat.strongRecOn with
  | _ d ih =>
    intro i b m hd hi hn hdn
    by_cases hsmall : n ≤ 1
    · rw [heapify_small cmp b n i m hsmall]
      refine ⟨?_, rfl, List.Perm.refl _, rfl⟩
      intro j hj hj0; omega
    · rw [heapify, if_neg hsmall]
      dsimp only
      have hcheck : ∀ m : Mem, m.check (decide (i < b.length) && (!decide (ccLeft i < n) || decide (ccLeft i < b.length)) &&
          (!decide (ccRight i < n) || decide (ccRight i < b.length))) = m := by
        intro m
        have a1 : i < b.length := by omega
        have a2 : (!decide (ccLeft i < n) || decide (ccLeft i < b.length)) = true := by
          by_cases h : ccLeft i < n
          · have : ccLeft i < b.length := by omega
            simp [h, this]
          · simp [h]
        have a3 : (!decide (ccRight i < n) || decide (ccRight i < b.length)) = true := by
          by_cases h : ccRight i < n
          · have : ccRight i < b.length := by omega
            simp [h, this]
          · simp [h]
        simp [a1, a2, a3]
      rw [hcheck]
      have hpm := pick_max tp b n i
      have hpc := pick_cases cmp b n i
      by_cases hbig : pick cmp b n i ≠ i
      · rw [dif_pos hbig]
        -- the chosen child
        have hchild : (pick cmp b n i = ccLeft i ∨ pick cmp b n i = ccRight i) ∧ pick cmp b n i < n := by
          rcases hpc with h | ⟨h, hl⟩ | ⟨h, hr⟩
          · exact (hbig h).elim
          · exact ⟨Or.inl h, by omega⟩
          · exact ⟨Or.inr h, by omega⟩
        generalize hgen : pick cmp b n i = big at *
        have hpar : ccParent big = i := by
          rcases hchild.1 with h | h
          · rw [h]; exact parent_left i
          · rw [h]; exact parent_right i
        have hbi : i < big := by
          rcases hchild.1 with h | h
          · rw [h]; exact left_gt i
          · rw [h]; exact right_gt i
        have hgs : ∀ k, (swap b i big).get k = if k = big then b.get i else if k = i then b.get big else b.get k :=
          fun k => get_swap b i big k (by omega) (by omega)
        have hdown : HeapDown cmp (swap b i big) n big := by
          constructor
          · intro j hj hj0 hjp
            rw [hgs (ccParent j), hgs j]
            simp only [hjp, if_false]
            by_cases hjb : j = big
            · subst hjb
              have : ¬ j = i := by omega
              simp only [hpar, if_true]
              exact hpm.1
            · simp only [hjb, if_false]
              by_cases hji : j = i
              · subst hji
                have hpj := parent_lt j hj0
                have a1 : ¬ ccParent j = j := by omega
                simp only [a1, if_false, if_true]
                exact hdn.2 hj0 big hchild.2 (by omega) hpar
              · simp only [hji, if_false]
                by_cases hpj : ccParent j = i
                · simp only [hpj, if_true]
                  rcases child_of i j hj0 hpj with h | h
                  · rw [h]; exact hpm.2.1 (by omega)
                  · rw [h]; exact hpm.2.2 (by omega)
                · simp only [hpj, if_false]
                  exact hdn.1 j hj hj0 hpj
          · intro hb0 c hcn hc0 hcp
            rw [hgs (ccParent big), hgs c]
            have hcb := parent_lt c hc0
            have a1 : ¬ i = big := by omega
            have a2 : ¬ c = big := by omega
            have a3 : ¬ c = i := by omega
            simp only [a1, hpar, a2, a3, if_false, if_true]
            have := hdn.1 c hcn hc0 (by omega)
            rw [hcp] at this
            exact this
        have := ih (n - big) (by omega) big (swap b i big) m rfl hchild.2 (by simpa using hn) hdown
        refine ⟨this.1, by rw [this.2.1]; simp, ?_, this.2.2.2⟩
        exact this.2.2.1.trans (firstN_swap b i big n hi hchild.2 hn)
      · rw [dif_neg hbig]
        simp only [ne_eq, Decidable.not_not] at hbig
        rw [hbig] at hpm
        refine ⟨?_, rfl, List.Perm.refl _, rfl⟩
        intro j hj hj0
        by_cases hpj : ccParent j = i
        · rw [hpj]
          rcases child_of i j hj0 hpj with h | h
          · rw [h]; exact hpm.2.1 (by omega)
          · rw [h]; exact hpm.2.2 (by omega)
        · exact hdn.1 j hj hj0 hpj


/-! ## the operations -/

theorem free_live' (m : Mem) (h : 0 < m.live) : m.free.live = m.live - 1 ∧ m.free.fault = m.fault := by
  unfold Mem.free
  have : ¬ m.live = 0 := by omega
  simp [this]

theorem heapOrd_congr (cmp : Nat → Nat → Int) (b b' : Buf Nat) (n : Nat) (h : ∀ j, j < n → b.get j = b'.get j)
    (ho : HeapOrd cmp b n) : HeapOrd cmp b' n := by
  intro j hj hj0
  have := ho j hj hj0
  rw [h j hj, h (ccParent j) (by have := parent_lt j hj0; omega)] at this
  exact this

/-- representation invariant including the bound the library keeps on the capacity: the byte size
`capacity * sizeof(void*)` is representable (constructor guard A9, growth guard A10) -/
def Inv' (cmp : Nat → Nat → Int) (q : PQueue) : Prop := q.Inv cmp ∧ q.capacity ≤ Gen.CC_MAX_ELEMENTS / ptrSize

/-- whatever the growth law answers (the float product may be anything), the capacity
`expand_capacity` asks for is strictly larger than the current one -/
theorem newCapacity_gt (grow : Nat → Nat) (q : PQueue) (hc : q.capacity ≤ Gen.CC_MAX_ELEMENTS / ptrSize) :
    q.capacity < newCapacity grow q := by
  unfold newCapacity; dsimp only
  simp only [Gen.CC_MAX_ELEMENTS, ptrSize] at *
  split
  · have : q.capacity < 18446744073709551614 / 2 := by omega
    simp only [this, if_true]; omega
  · omega

/-- `expand_capacity`: either OK with a strictly larger buffer holding the same first `size` slots
(one block allocated, one freed), or an error with the queue unchanged -/
theorem expand_spec (cmp : Nat → Nat → Int) (grow : Nat → Nat) (q : PQueue) (m : Mem)
    (h : Inv' cmp q) (hl : 0 < m.liveT q.triple) :
    ((expandCapacity grow q m).1 = .ok ∧ Inv' cmp (expandCapacity grow q m).2.1 ∧
      (expandCapacity grow q m).2.1.size = q.size ∧ q.capacity < (expandCapacity grow q m).2.1.capacity ∧
      (∀ j, j < q.size → (expandCapacity grow q m).2.1.buf.get j = q.buf.get j) ∧
      (expandCapacity grow q m).2.2.liveT q.triple = m.liveT q.triple ∧ (expandCapacity grow q m).2.2.fault = m.fault ∧
      (m.allocT q.triple).1 = true) ∨
    (((expandCapacity grow q m).1 = .errAlloc ∧ (m.allocT q.triple).1 = false) ∨ (expandCapacity grow q m).1 = .errMaxCapacity) ∧
      (expandCapacity grow q m).2.1 = q ∧ (expandCapacity grow q m).2.2.liveT q.triple = m.liveT q.triple ∧
      (expandCapacity grow q m).2.2.fault = m.fault := by
  obtain ⟨⟨h1, h2, h3, h4⟩, h5⟩ := h
  unfold expandCapacity; dsimp only
  by_cases hmax : q.capacity = Gen.CC_MAX_ELEMENTS
  · right; simp [hmax]
  · simp only [hmax, if_false]
    have hnc1 := newCapacity_gt grow q h5
    by_cases hbytes : newCapacity grow q > Gen.CC_MAX_ELEMENTS / ptrSize
    · right; simp [hbytes]
    have hnc : q.capacity < newCapacity grow q ∧ newCapacity grow q ≤ Gen.CC_MAX_ELEMENTS / ptrSize := ⟨hnc1, by omega⟩
    simp only [hbytes, if_false]
    cases ha : (m.allocT q.triple).1
    · right
      have := Mem.allocT_false m q.triple ha
      simp only [Bool.not_false, if_true]
      exact ⟨Or.inl ⟨by first | rfl | trivial, by first | rfl | trivial⟩, by first | rfl | trivial, this.1, this.2.1⟩
    · left
      have ea := Mem.allocT_true m q.triple ha
      have hck : (decide (q.size ≤ q.buf.length) && decide (q.size ≤ newCapacity grow q)) = true := by
        have a1 : q.size ≤ q.buf.length := by omega
        have a2 : q.size ≤ newCapacity grow q := by omega
        simp [a1, a2]
      simp only [Bool.not_true, Bool.false_eq_true, if_false, hck, Mem.check_true]
      have hget : ∀ j, j < q.size →
          ((Buf.mk (newCapacity grow q) : Buf Nat).memcpy 0 q.buf 0 q.size).get j = q.buf.get j := by
        intro j hj
        rw [Buf.get_memcpy _ _ _ _ _ _ (by simp; omega)]
        simp [hj]
      have hfree := Mem.freeT_pos (m.allocT q.triple).2 q.triple (by rw [ea.1]; omega)
      refine ⟨trivial, ⟨⟨by dsimp only; omega, by simp, by dsimp only; omega, ?_⟩, hnc.2⟩, trivial, hnc.1, hget, ?_, ?_, trivial⟩
      · exact heapOrd_congr cmp q.buf _ q.size (fun j hj => (hget j hj).symm) h4
      · rw [hfree.1, ea.1]; omega
      · rw [hfree.2.1, ea.2.1]


theorem expand_spec_get (cmp : Nat → Nat → Int) (grow : Nat → Nat) (q : PQueue) (m : Mem)
    (h : Inv' cmp q) (hl : 0 < m.liveT q.triple) (hok : (expandCapacity grow q m).1 = .ok) :
    Inv' cmp (expandCapacity grow q m).2.1 ∧
      (expandCapacity grow q m).2.1.size = q.size ∧ q.capacity < (expandCapacity grow q m).2.1.capacity ∧ True ∧
      (∀ j, j < q.size → (expandCapacity grow q m).2.1.buf.get j = q.buf.get j) ∧
      (expandCapacity grow q m).2.2.liveT q.triple = m.liveT q.triple ∧ (expandCapacity grow q m).2.2.fault = m.fault := by
  rcases expand_spec cmp grow q m h hl with ⟨_, e2, e3, e4, e5, e6, e7, _⟩ | ⟨e1, _⟩
  · exact ⟨e2, e3, e4, trivial, e5, e6, e7⟩
  · rcases e1 with ⟨e1, _⟩ | e1 <;> rw [e1] at hok <;> cases hok

theorem expand_size (grow : Nat → Nat) (q : PQueue) (m : Mem) : (expandCapacity grow q m).2.1.size = q.size := by
  unfold expandCapacity; dsimp only
  split
  · rfl
  · split
    · rfl
    · split <;> rfl

/-- a successful growth yields a capacity whose byte size `capacity * sizeof(void*)` does not wrap -/
theorem expand_ok_bytes (grow : Nat → Nat) (q : PQueue) (m : Mem) (h : (expandCapacity grow q m).1 = .ok) :
    (expandCapacity grow q m).2.1.capacity * ptrSize < 2 ^ 64 := by
  unfold expandCapacity at h ⊢; dsimp only at h ⊢
  by_cases h1 : q.capacity = Gen.CC_MAX_ELEMENTS
  · simp [h1] at h
  · by_cases h2 : newCapacity grow q > Gen.CC_MAX_ELEMENTS / ptrSize
    · simp [h1, h2] at h
    · cases ha : (m.allocT q.triple).1
      · simp [h1, h2, ha] at h
      · simp only [h1, h2, ha, if_false, Bool.not_true, Bool.false_eq_true]
        simp only [Gen.CC_MAX_ELEMENTS, ptrSize] at h2 ⊢
        omega

/-- the part of `cc_pqueue_push` after the capacity test: store at `size`, sift up -/
def storeSift (cmp : Nat → Nat → Int) (q : PQueue) (x : Nat) (m : Mem) : Stat × PQueue × Mem :=
  let i := q.size
  let m := m.check (i < q.buf.length)
  let buf := q.buf.put i x
  if i = 0 then (.ok, { q with buf := buf, size := q.size + 1 }, m) else
  let r := siftUp cmp buf i m
  (.ok, { q with buf := r.1, size := q.size + 1 }, r.2)

theorem push_eq (cmp : Nat → Nat → Int) (grow : Nat → Nat) (q : PQueue) (x : Nat) (m : Mem) :
    push cmp grow q x m =
      if q.size ≥ q.capacity then
        (if (expandCapacity grow q m).1 != .ok then expandCapacity grow q m
         else storeSift cmp (expandCapacity grow q m).2.1 x (expandCapacity grow q m).2.2)
      else storeSift cmp q x m := by
  unfold push storeSift; dsimp only
  by_cases hfull : q.size ≥ q.capacity
  · simp only [hfull, if_true, expand_size]
  · simp only [hfull, if_false]
    rfl

theorem storeSift_spec {cmp : Nat → Nat → Int} (tp : TotalPreorder cmp) (q : PQueue) (x : Nat) (m : Mem)
    (h : Inv' cmp q) (hroom : q.size < q.capacity) :
    (storeSift cmp q x m).1 = .ok ∧ Inv' cmp (storeSift cmp q x m).2.1 ∧
    ((storeSift cmp q x m).2.1.abs).Perm (x :: q.abs) ∧ (storeSift cmp q x m).2.1.size = q.size + 1 ∧
    (storeSift cmp q x m).2.1.capacity = q.capacity ∧ (storeSift cmp q x m).2.2 = m := by
  obtain ⟨⟨h1, h2, h3, h4⟩, h5⟩ := h
  have hlen : q.size < q.buf.length := by omega
  have hget : ∀ j, j < q.size → (q.buf.put q.size x).get j = q.buf.get j := by
    intro j hj; rw [Buf.get_put_ne _ _ _ _ (by omega)]
  have hgx : (q.buf.put q.size x).get q.size = x := Buf.get_put_eq _ _ _ hlen
  have hperm0 : ((q.buf.put q.size x).firstN (q.size + 1)).Perm (x :: q.abs) := by
    rw [firstN_succ, hgx, firstN_congr _ q.buf q.size hget]
    exact List.perm_append_comm
  unfold storeSift; dsimp only
  simp only [hlen, decide_true, Mem.check_true]
  by_cases h0 : q.size = 0
  · simp only [h0, if_true]
    refine ⟨trivial, ⟨⟨by dsimp only; omega, by simpa using h2, h3, ?_⟩, h5⟩, ?_, trivial, trivial, trivial⟩
    · intro j hj hj0; dsimp only at hj; omega
    · simpa [abs, h0] using hperm0
  · simp only [h0, if_false]
    have hup : HeapUp cmp (q.buf.put q.size x) (q.size + 1) q.size := by
      constructor
      · intro j hj hj0 hjn
        have hpj := parent_lt j hj0
        rw [hget j (by omega), hget (ccParent j) (by omega)]
        exact h4 j (by omega) hj0
      · intro _ c hc hc0 hcp
        have := parent_lt c hc0
        omega
    have hs := siftUp_spec tp (q.size + 1) q.size (q.buf.put q.size x) m (by omega) (by simp; omega) hup
    refine ⟨trivial, ⟨⟨by dsimp only; omega, ?_, h3, hs.1⟩, h5⟩, ?_, trivial, trivial, hs.2.2.2⟩
    · dsimp only; rw [hs.2.1]; simpa using h2
    · exact hs.2.2.1.trans hperm0

/-- `cc_pqueue_push`: OK, heap order restored, the element joined the multiset; or a refused/
impossible growth with the whole queue unchanged.  The ledger is balanced either way. -/
theorem push_spec {cmp : Nat → Nat → Int} (tp : TotalPreorder cmp) (grow : Nat → Nat)
    (q : PQueue) (x : Nat) (m : Mem) (h : Inv' cmp q) (hl : 0 < m.liveT q.triple) :
    ((push cmp grow q x m).1 = .ok ∧ Inv' cmp (push cmp grow q x m).2.1 ∧
      ((push cmp grow q x m).2.1.abs).Perm (x :: q.abs) ∧ (push cmp grow q x m).2.1.size = q.size + 1) ∨
    ((((push cmp grow q x m).1 = .errAlloc ∧ (m.allocT q.triple).1 = false) ∨ (push cmp grow q x m).1 = .errMaxCapacity) ∧
      (push cmp grow q x m).2.1 = q) := by
  rw [push_eq]
  by_cases hfull : q.size ≥ q.capacity
  · simp only [hfull, if_true]
    rcases expand_spec cmp grow q m h hl with ⟨e1, e2, e3, e4, _, _, _, _⟩ | ⟨e1, e2, _, _⟩
    · have : ((expandCapacity grow q m).1 != .ok) = false := by rw [e1]; rfl
      simp only [this, Bool.false_eq_true, if_false]
      have hroom : (expandCapacity grow q m).2.1.size < (expandCapacity grow q m).2.1.capacity := by
        have := h.1.1; omega
      have hs := storeSift_spec tp _ x (expandCapacity grow q m).2.2 e2 hroom
      left
      refine ⟨hs.1, hs.2.1, ?_, by rw [hs.2.2.2.1, e3]⟩
      have : (expandCapacity grow q m).2.1.abs = q.abs := by
        unfold abs; rw [e3]
        exact firstN_congr _ _ _ (by obtain ⟨_, _, _, _, e5, _⟩ := expand_spec_get cmp grow q m h hl e1; exact e5)
      rw [← this]; exact hs.2.2.1
    · have : ((expandCapacity grow q m).1 != .ok) = true := by
        rcases e1 with ⟨e1, _⟩ | e1 <;> rw [e1] <;> rfl
      simp only [this, if_true]
      right; exact ⟨e1, e2⟩
  · simp only [hfull, if_false]
    have hs := storeSift_spec tp q x m h (by omega)
    left; exact ⟨hs.1, hs.2.1, hs.2.2.1, hs.2.2.2.1⟩


/-- `cc_pqueue_push` keeps the ledger balanced (growth allocates one block and frees one) and never
touches a slot outside the buffer -/
theorem push_mem {cmp : Nat → Nat → Int} (tp : TotalPreorder cmp) (grow : Nat → Nat)
    (q : PQueue) (x : Nat) (m : Mem) (h : Inv' cmp q) (hl : 0 < m.liveT q.triple) :
    (push cmp grow q x m).2.2.liveT q.triple = m.liveT q.triple ∧ (push cmp grow q x m).2.2.fault = m.fault := by
  rw [push_eq]
  by_cases hfull : q.size ≥ q.capacity
  · simp only [hfull, if_true]
    rcases expand_spec cmp grow q m h hl with ⟨e1, e2, e3, e4, _, e6, e7, _⟩ | ⟨e1, _, e3, e4⟩
    · have : ((expandCapacity grow q m).1 != .ok) = false := by rw [e1]; rfl
      simp only [this, Bool.false_eq_true, if_false]
      have hroom : (expandCapacity grow q m).2.1.size < (expandCapacity grow q m).2.1.capacity := by
        have := h.1.1; omega
      have hs := storeSift_spec tp _ x (expandCapacity grow q m).2.2 e2 hroom
      rw [hs.2.2.2.2.2]; exact ⟨e6, e7⟩
    · have : ((expandCapacity grow q m).1 != .ok) = true := by
        rcases e1 with ⟨e1, _⟩ | e1 <;> rw [e1] <;> rfl
      simp only [this, if_true]
      exact ⟨e3, e4⟩
  · simp only [hfull, if_false]
    have hs := storeSift_spec tp q x m h (by omega)
    rw [hs.2.2.2.2.2]; exact ⟨rfl, rfl⟩

/-- `cc_pqueue_top` -/
theorem top_spec {cmp : Nat → Nat → Int} (tp : TotalPreorder cmp) (q : PQueue) (m : Mem) (h : Inv' cmp q) :
    ((q.abs = [] ∧ q.top m = (.errOutOfRange, none, m)) ∨
     (∃ x, q.top m = (.ok, some x, m) ∧ Spec.PQ.IsMax cmp q.abs x)) := by
  obtain ⟨⟨h1, h2, h3, h4⟩, _⟩ := h
  unfold top
  by_cases h0 : q.size = 0
  · left; simp [h0, abs, Buf.firstN]
  · right
    have : 0 < q.buf.length := by omega
    refine ⟨q.buf.get 0, by simp [h0, this], ?_, ?_⟩
    · exact (mem_firstN _ _ _).2 ⟨0, by omega, rfl⟩
    · intro y hy
      obtain ⟨j, hj, rfl⟩ := (mem_firstN _ _ _).1 hy
      exact root_max tp q.buf q.size h4 j hj

/-- `cc_pqueue_pop` -/
theorem pop_spec {cmp : Nat → Nat → Int} (tp : TotalPreorder cmp) (q : PQueue) (m : Mem) (h : Inv' cmp q) :
    ((q.abs = [] ∧ pop cmp q m = (.errOutOfRange, none, q, m)) ∨
     (∃ x, (pop cmp q m).1 = .ok ∧ (pop cmp q m).2.1 = some x ∧ Spec.PQ.IsMax cmp q.abs x ∧
        q.abs.Perm (x :: (pop cmp q m).2.2.1.abs) ∧ Inv' cmp (pop cmp q m).2.2.1 ∧
        (pop cmp q m).2.2.1.size + 1 = q.size ∧ (pop cmp q m).2.2.2 = m)) := by
  obtain ⟨⟨h1, h2, h3, h4⟩, h5⟩ := h
  unfold pop popOut
  by_cases h0 : q.size = 0
  · left; simp [h0, abs, Buf.firstN]
  · right
    have hlen : q.size - 1 < q.buf.length := by omega
    simp only [h0, if_false, hlen, decide_true, Mem.check_true]
    have hgs : ∀ k, (swap q.buf 0 (q.size - 1)).get k =
        if k = q.size - 1 then q.buf.get 0 else if k = 0 then q.buf.get (q.size - 1) else q.buf.get k :=
      fun k => get_swap q.buf 0 (q.size - 1) k (by omega) hlen
    have hout : (swap q.buf 0 (q.size - 1)).get (q.size - 1) = q.buf.get 0 := by rw [hgs]; simp
    have hperm1 : q.abs.Perm (q.buf.get 0 :: (swap q.buf 0 (q.size - 1)).firstN (q.size - 1)) := by
      have e1 := (firstN_swap q.buf 0 (q.size - 1) q.size (by omega) (by omega) (by omega)).symm
      have e2 : (swap q.buf 0 (q.size - 1)).firstN q.size =
          (swap q.buf 0 (q.size - 1)).firstN (q.size - 1) ++ [q.buf.get 0] := by
        have : q.size = (q.size - 1) + 1 := by omega
        rw [this, firstN_succ, Nat.add_sub_cancel, hout]
      rw [e2] at e1
      exact e1.trans List.perm_append_comm
    -- the sift-down
    have hheap : HeapOrd cmp (heapify cmp (swap q.buf 0 (q.size - 1)) (q.size - 1) 0 m).1 (q.size - 1) ∧
        (heapify cmp (swap q.buf 0 (q.size - 1)) (q.size - 1) 0 m).1.length = q.buf.length ∧
        ((heapify cmp (swap q.buf 0 (q.size - 1)) (q.size - 1) 0 m).1.firstN (q.size - 1)).Perm
          ((swap q.buf 0 (q.size - 1)).firstN (q.size - 1)) ∧
        (heapify cmp (swap q.buf 0 (q.size - 1)) (q.size - 1) 0 m).2 = m := by
      by_cases hs : q.size - 1 ≤ 1
      · rw [heapify_small _ _ _ _ _ hs]
        refine ⟨?_, by simp, List.Perm.refl _, rfl⟩
        intro j hj hj0; omega
      · have hdown : HeapDown cmp (swap q.buf 0 (q.size - 1)) (q.size - 1) 0 := by
          constructor
          · intro j hj hj0 hpj
            have hp := parent_lt j hj0
            rw [hgs j, hgs (ccParent j)]
            have a1 : ¬ j = q.size - 1 := by omega
            have a2 : ¬ j = 0 := by omega
            have a3 : ¬ ccParent j = q.size - 1 := by omega
            simp only [a1, a2, a3, hpj, if_false]
            exact h4 j (by omega) hj0
          · intro h; omega
        have := heapify_spec tp (q.size - 1) (q.size - 1 - 0) 0 (swap q.buf 0 (q.size - 1)) m rfl (by omega)
          (by simp; omega) hdown
        exact ⟨this.1, by rw [this.2.1]; simp, this.2.2.1, this.2.2.2⟩
    refine ⟨q.buf.get 0, trivial, by rw [hout]; simp, ⟨?_, ?_⟩, ?_, ⟨⟨by show q.size - 1 ≤ q.capacity; omega, ?_, h3, hheap.1⟩, h5⟩,
      by show q.size - 1 + 1 = q.size; omega, hheap.2.2.2⟩
    · exact (mem_firstN _ _ _).2 ⟨0, by omega, rfl⟩
    · intro y hy
      obtain ⟨j, hj, rfl⟩ := (mem_firstN _ _ _).1 hy
      exact root_max tp q.buf q.size h4 j hj
    · exact hperm1.trans (List.Perm.cons _ hheap.2.2.1.symm)
    · dsimp only; rw [hheap.2.1]; exact h2

/-- `cc_pqueue_new_conf` on triple `t` (`.conf`: the caller's allocators, `.libc`: `cc_pqueue_new`) -/
theorem new_spec (cmp : Nat → Nat → Int) (cap : Nat) (exGe : Nat → Bool) (t : Triple) (m : Mem) :
    ((new cap exGe t m).1 = .errInvalidCapacity ∧ (new cap exGe t m).2.1 = none ∧ (new cap exGe t m).2.2 = m) ∨
    ((new cap exGe t m).1 = .errAlloc ∧ (new cap exGe t m).2.1 = none ∧ (new cap exGe t m).2.2.liveT t = m.liveT t ∧
      (new cap exGe t m).2.2.fault = m.fault ∧ (new cap exGe t m).2.2.liveO t = m.liveO t ∧ 0 < cap ∧ t = .conf) ∨
    (∃ q, (new cap exGe t m).1 = .ok ∧ (new cap exGe t m).2.1 = some q ∧ Inv' cmp q ∧ q.abs = [] ∧ q.capacity = cap ∧
      q.triple = t ∧ (new cap exGe t m).2.2.liveT t = m.liveT t + 2 ∧ (new cap exGe t m).2.2.fault = m.fault ∧
      (new cap exGe t m).2.2.liveO t = m.liveO t) := by
  unfold new
  by_cases hbad : (cap = 0 || exGe (Gen.CC_MAX_ELEMENTS / cap)) = true
  · left; simp [hbad]
  · by_cases hbytes : cap > Gen.CC_MAX_ELEMENTS / ptrSize
    · left; simp [hbad, hbytes]
    right
    simp only [hbad, hbytes, if_false]
    simp only [Bool.or_eq_true, decide_eq_true_eq, not_or, Bool.not_eq_true] at hbad
    have hcap : cap ≤ Gen.CC_MAX_ELEMENTS / ptrSize := by omega
    have hpos : 0 < cap := by omega
    cases h1 : (m.allocT t).1
    · left
      have := Mem.allocT_false m t h1
      simp only [Bool.not_false, if_true]
      exact ⟨(by first | rfl | trivial | simp), (by first | rfl | trivial | simp), this.1, this.2.1, this.2.2.1, hpos, this.2.2.2.1⟩
    · have e1 := Mem.allocT_true m t h1
      simp only [Bool.not_true, Bool.false_eq_true, if_false]
      cases h2 : ((m.allocT t).2.allocT t).1
      · left
        have e2 := Mem.allocT_false (m.allocT t).2 t h2
        have e3 := Mem.freeT_pos ((m.allocT t).2.allocT t).2 t (by rw [e2.1, e1.1]; omega)
        simp only [Bool.not_false, if_true]
        exact ⟨(by first | rfl | trivial | simp), (by first | rfl | trivial | simp), by rw [e3.1, e2.1, e1.1]; omega, by rw [e3.2.1, e2.2.1, e1.2.1],
          by rw [e3.2.2.1, e2.2.2.1, e1.2.2], hpos, e2.2.2.2.1⟩
      · right
        have e2 := Mem.allocT_true (m.allocT t).2 t h2
        simp only [Bool.not_true, Bool.false_eq_true, if_false]
        refine ⟨{ triple := t, size := 0, capacity := cap, buf := Buf.mk cap }, (by first | rfl | trivial | simp), (by first | rfl | trivial | simp),
          ⟨⟨Nat.zero_le _, by simp, by show 0 < cap; omega, ?_⟩, hcap⟩, by simp [abs, Buf.firstN], rfl, rfl, ?_, ?_, ?_⟩
        · intro j hj; exact absurd hj (Nat.not_lt_zero _)
        · rw [e2.1, e1.1]
        · rw [e2.2.1, e1.2.1]
        · rw [e2.2.2, e1.2.2]

/-- an accepted capacity has a representable byte size: `capacity * sizeof(void*)` does not wrap -/
theorem new_ok_bytes (cap : Nat) (exGe : Nat → Bool) (t : Triple) (m : Mem) (h : (new cap exGe t m).1 = .ok) :
    0 < cap ∧ cap * ptrSize < 2 ^ 64 := by
  unfold new at h
  by_cases hbad : (cap = 0 || exGe (Gen.CC_MAX_ELEMENTS / cap)) = true
  · simp [hbad] at h
  · by_cases hbytes : cap > Gen.CC_MAX_ELEMENTS / ptrSize
    · simp [hbad, hbytes] at h
    · simp only [Bool.or_eq_true, decide_eq_true_eq, not_or] at hbad
      simp only [Gen.CC_MAX_ELEMENTS, ptrSize] at hbytes ⊢
      omega

/-! ### the triple never changes -/
theorem expand_triple (grow : Nat → Nat) (q : PQueue) (m : Mem) : (expandCapacity grow q m).2.1.triple = q.triple := by
  unfold expandCapacity; dsimp only
  split
  · rfl
  · split
    · rfl
    · split <;> rfl

theorem storeSift_triple (cmp : Nat → Nat → Int) (q : PQueue) (x : Nat) (m : Mem) :
    (storeSift cmp q x m).2.1.triple = q.triple := by
  unfold storeSift; dsimp only; split <;> rfl

theorem push_triple (cmp : Nat → Nat → Int) (grow : Nat → Nat) (q : PQueue) (x : Nat) (m : Mem) :
    (push cmp grow q x m).2.1.triple = q.triple := by
  rw [push_eq]
  split
  · split
    · exact expand_triple grow q m
    · rw [storeSift_triple]; exact expand_triple grow q m
  · exact storeSift_triple cmp q x m

theorem popOut_triple (cmp : Nat → Nat → Int) (q : PQueue) (w : Bool) (m : Mem) :
    (popOut cmp q w m).2.2.1.triple = q.triple := by
  unfold popOut; split <;> rfl

open Spec.PQ (Op) in
theorem step_triple (cmp : Nat → Nat → Int) (grow : Nat → Nat) (q : PQueue) (op : Op) (m : Mem) :
    (step cmp grow q op m).2.1.triple = q.triple := by
  cases op with
  | push x => exact push_triple cmp grow q x m
  | top => rfl
  | pop => exact popOut_triple cmp q true m

/-- `cc_pqueue_pop(pq, NULL)` is the same function as `cc_pqueue_pop(pq, &out)` except that the
element is not reported: same status, same resulting queue, same ledger -/
theorem popOut_false (cmp : Nat → Nat → Int) (q : PQueue) (m : Mem) :
    (popOut cmp q false m).1 = (pop cmp q m).1 ∧ (popOut cmp q false m).2.1 = none ∧
    (popOut cmp q false m).2.2 = (pop cmp q m).2.2 := by
  unfold pop popOut; split <;> exact ⟨rfl, rfl, rfl⟩

/-- **when push succeeds**: exactly when there is room, or the queue can still grow (capacity below
the limits) and the allocator grants the new buffer; `CC_ERR_MAX_CAPACITY` exactly in the
complementary limit case; `CC_ERR_ALLOC` exactly when the allocator refuses -/
theorem push_status_iff {cmp : Nat → Nat → Int} (tp : TotalPreorder cmp) (grow : Nat → Nat)
    (q : PQueue) (x : Nat) (m : Mem) (h : Inv' cmp q) (hl : 0 < m.liveT q.triple) :
    ((push cmp grow q x m).1 = .ok ↔
      (q.size < q.capacity ∨ (newCapacity grow q ≤ Gen.CC_MAX_ELEMENTS / ptrSize ∧ (m.allocT q.triple).1 = true))) ∧
    ((push cmp grow q x m).1 = .errMaxCapacity ↔
      (q.size = q.capacity ∧ newCapacity grow q > Gen.CC_MAX_ELEMENTS / ptrSize)) ∧
    ((push cmp grow q x m).1 = .errAlloc ↔
      (q.size = q.capacity ∧ newCapacity grow q ≤ Gen.CC_MAX_ELEMENTS / ptrSize ∧ (m.allocT q.triple).1 = false)) := by
  have hsc := h.1.1
  have hcap := h.2
  have hne : q.capacity ≠ Gen.CC_MAX_ELEMENTS := by
    simp only [Gen.CC_MAX_ELEMENTS, ptrSize] at *; omega
  rw [push_eq]
  by_cases hfull : q.size ≥ q.capacity
  · have hroom : ¬ q.size < q.capacity := by omega
    have heq : q.size = q.capacity := by omega
    simp only [hfull, if_true]
    -- status of expand_capacity
    have hex : (expandCapacity grow q m).1 =
        if newCapacity grow q > Gen.CC_MAX_ELEMENTS / ptrSize then .errMaxCapacity
        else if (m.allocT q.triple).1 then .ok else .errAlloc := by
      unfold expandCapacity; dsimp only
      simp only [hne, if_false]
      split
      · rfl
      · cases (m.allocT q.triple).1 <;> rfl
    by_cases hb : newCapacity grow q > Gen.CC_MAX_ELEMENTS / ptrSize
    · rw [if_pos hb] at hex
      have : ((expandCapacity grow q m).1 != .ok) = true := by rw [hex]; rfl
      simp only [this, if_true]
      have hb' : ¬ newCapacity grow q ≤ Gen.CC_MAX_ELEMENTS / ptrSize := by omega
      simp [hroom, hb, hb', heq, hex]
    · rw [if_neg hb] at hex
      have hb' : newCapacity grow q ≤ Gen.CC_MAX_ELEMENTS / ptrSize := by omega
      cases ha : (m.allocT q.triple).1
      · rw [ha] at hex
        simp only [Bool.false_eq_true, if_false] at hex
        have : ((expandCapacity grow q m).1 != .ok) = true := by rw [hex]; rfl
        simp only [this, if_true]
        simp [hroom, hb, hb', heq, hex]
      · rw [ha] at hex
        simp only [if_true] at hex
        have : ((expandCapacity grow q m).1 != .ok) = false := by rw [hex]; rfl
        simp only [this, Bool.false_eq_true, if_false]
        rcases expand_spec cmp grow q m h hl with ⟨_, e2, e3, e4, _⟩ | ⟨e1, _⟩
        · have hr : (expandCapacity grow q m).2.1.size < (expandCapacity grow q m).2.1.capacity := by omega
          rw [(storeSift_spec tp _ x (expandCapacity grow q m).2.2 e2 hr).1]
          simp [hb, hb']
        · rcases e1 with ⟨e1, _⟩ | e1 <;> rw [hex] at e1 <;> cases e1
  · simp only [hfull, if_false]
    rw [(storeSift_spec tp q x m h (by omega)).1]
    have : q.size < q.capacity := by omega
    have hne' : ¬ q.size = q.capacity := by omega
    simp [this, hne']

/-- popping until empty yields every held element exactly once, in non-increasing priority order -/
theorem drain_spec {cmp : Nat → Nat → Int} (tp : TotalPreorder cmp) :
    ∀ (fuel : Nat) (q : PQueue), Inv' cmp q → q.size ≤ fuel →
      (drain cmp fuel q).Perm q.abs ∧ (drain cmp fuel q).Pairwise (fun a b => 0 ≤ cmp a b) := by
  intro fuel
  induction fuel with
  | zero =>
    intro q _ hs
    have : q.size = 0 := by omega
    simp [drain, abs, this, Buf.firstN]
  | succ fuel ih =>
    intro q h hs
    rcases pop_spec tp q {} h with ⟨e1, e2⟩ | ⟨x, e1, e2, e3, e4, e5, e6, _⟩
    · simp [drain, e2, e1]
    · have hd : drain cmp (fuel + 1) q = x :: drain cmp fuel (pop cmp q {}).2.2.1 := by
        simp only [drain]
        rcases hp : pop cmp q {} with ⟨st, o, q', m'⟩
        rw [hp] at e2
        simp only at e2
        subst e2
        rfl
      rw [hd]
      have := ih (pop cmp q {}).2.2.1 e5 (by omega)
      refine ⟨(List.Perm.cons x this.1).trans e4.symm, List.Pairwise.cons ?_ this.2⟩
      intro y hy
      have hy' : y ∈ (pop cmp q {}).2.2.1.abs := this.1.mem_iff.1 hy
      exact e3.2 y (e4.mem_iff.2 (List.mem_cons_of_mem _ hy'))

end PQueue
end CC

/-! ## facts about the multiset spec (`Spec.PQ`) used by `Properties/C10.lean` -/
namespace CC.Spec.PQFacts
open CC CC.Spec
open CC.Spec.PQ (Op Out IsMax Step Run pushed popped)

theorem conservation {cmp : Nat → Nat → Int} (ops : List Op) (items : List Nat) (outs : List Out)
    (items' : List Nat) (h : Run cmp items ops outs items') :
    (items' ++ popped ops outs).Perm (items ++ pushed ops outs) := by
  induction ops generalizing items outs with
  | nil =>
    obtain ⟨h1, h2⟩ := h
    subst h1; subst h2; simp [popped, pushed]
  | cons op ops ih =>
    obtain ⟨o, os, mid, ho, hstep, hrun⟩ := h
    subst ho
    have ih' := ih mid os hrun
    cases op with
    | push x =>
      simp only [popped, pushed]
      rcases hstep with ⟨e1, e2⟩ | ⟨e1, e2⟩
      · subst e1
        simp only [if_true]
        refine ih'.trans ((List.Perm.append_right _ e2).trans ?_)
        simpa using (List.perm_middle (a := x) (l₁ := items) (l₂ := pushed ops os)).symm
      · have : ¬ o.st = .ok := by rcases e1 with e1 | e1 <;> rw [e1] <;> simp
        simp only [this, if_false]
        exact ih'.trans (List.Perm.append_right _ e2)
    | top =>
      simp only [popped, pushed]
      exact ih'.trans (List.Perm.append_right _ hstep.1)
    | pop =>
      simp only [popped, pushed]
      rcases hstep with ⟨e1, e2, e3⟩ | ⟨x, e1, _, e3⟩
      · subst e1; subst e2; subst e3
        simpa using ih'
      · subst e1
        simp only
        refine (List.perm_middle (a := x) (l₁ := items') (l₂ := popped ops os)).trans ?_
        refine (List.Perm.cons x ih').trans ?_
        exact List.Perm.append_right _ e3.symm

theorem pop_all_sorted {cmp : Nat → Nat → Int} (n : Nat) (items : List Nat) (hn : items.length = n)
    (outs : List Out) (items' : List Nat) (h : Run cmp items (List.replicate n .pop) outs items') :
    items' = [] ∧ (outs.all fun o => o.st == .ok) = true ∧
    (outs.filterMap (·.val)).Perm items ∧ (outs.filterMap (·.val)).Pairwise (fun a b => 0 ≤ cmp a b) := by
  induction n generalizing items outs with
  | zero =>
    obtain ⟨h1, h2⟩ := h
    have : items = [] := List.eq_nil_of_length_eq_zero hn
    subst h1; subst h2; subst this
    simp
  | succ n ih =>
    obtain ⟨o, os, mid, ho, hstep, hrun⟩ := h
    subst ho
    rcases hstep with ⟨e1, _, _⟩ | ⟨x, e1, e2, e3⟩
    · subst e1; simp at hn
    · subst e1
      have hlen : mid.length = n := by
        have := e3.length_eq; simp only [List.length_cons] at this; omega
      have ih' := ih mid hlen os hrun
      refine ⟨ih'.1, by simp [ih'.2.1], ?_, ?_⟩
      · simp only [List.filterMap_cons]
        exact (List.Perm.cons x ih'.2.2.1).trans e3.symm
      · simp only [List.filterMap_cons]
        refine List.Pairwise.cons ?_ ih'.2.2.2
        intro y hy
        have : y ∈ mid := ih'.2.2.1.mem_iff.1 hy
        exact e2.2 y (e3.mem_iff.2 (List.mem_cons_of_mem _ this))

theorem maxOf_isMax {cmp : Nat → Nat → Int} (tp : TotalPreorder cmp) (items : List Nat) :
    (items = [] ∧ PQ.maxOf cmp items = none) ∨ (∃ x, PQ.maxOf cmp items = some x ∧ IsMax cmp items x) := by
  induction items with
  | nil => left; exact ⟨rfl, rfl⟩
  | cons a as ih =>
    right
    rcases ih with ⟨e1, e2⟩ | ⟨y, e1, e2⟩
    · subst e1
      refine ⟨a, by simp [PQ.maxOf], List.mem_cons_self .., ?_⟩
      intro z hz
      simp only [List.mem_singleton] at hz
      subst hz
      by_cases h : cmp z z ≤ 0
      · exact tp.flip _ _ h
      · omega
    · simp only [PQ.maxOf, e1]
      by_cases hc : 0 ≤ cmp a y
      · refine ⟨a, by simp [hc], List.mem_cons_self .., ?_⟩
        intro z hz
        cases hz with
        | head => by_cases h : cmp a a ≤ 0
                  · exact tp.flip _ _ h
                  · omega
        | tail _ hz' => exact tp.trans _ _ _ hc (e2.2 z hz')
      · refine ⟨y, by simp [hc], List.mem_cons_of_mem _ e2.1, ?_⟩
        intro z hz
        cases hz with
        | head => exact tp.flip _ _ (by omega)
        | tail _ hz' => exact e2.2 z hz'

end CC.Spec.PQFacts
