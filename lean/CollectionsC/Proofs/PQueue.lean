import CollectionsC.Model.PQueue
/-! Helper lemmas for the binary heap: index macros, swaps as permutations, the sift-up loop and
the recursive sift-down (`heapify`) restore heap order, the root is maximal. -/
namespace CC
open Gen (ccParent ccLeft ccRight)
open Spec (TotalPreorder)

namespace PQueue

/-! ## the generated index macros -/
theorem parent_left (i : Nat) : ccParent (ccLeft i) = i := by
  unfold ccParent ccLeft; simp
theorem parent_right (i : Nat) : ccParent (ccRight i) = i := by
  unfold ccParent ccRight; simp; omega
theorem child_of (i j : Nat) (hj : 0 < j) (h : ccParent j = i) : j = ccLeft i ∨ j = ccRight i := by
  unfold ccParent at h; unfold ccLeft ccRight
  simp only [gt_iff_lt, hj, if_true] at h
  omega
theorem parent_lt (j : Nat) (hj : 0 < j) : ccParent j < j := ccParent_lt j (by omega)
theorem left_gt (i : Nat) : i < ccLeft i := by unfold ccLeft; omega
theorem right_gt (i : Nat) : i < ccRight i := by unfold ccRight; omega
theorem left_ne_right (i : Nat) : ccLeft i ≠ ccRight i := by unfold ccLeft ccRight; omega

/-! ## comparator facts -/
theorem cmp_refl {cmp : Nat → Nat → Int} (tp : TotalPreorder cmp) (a : Nat) : 0 ≤ cmp a a := by
  by_cases h : cmp a a ≤ 0
  · exact tp.flip a a h
  · omega

/-! ## swaps -/
@[simp] theorem length_swap (b : Buf Nat) (i j : Nat) : (swap b i j).length = b.length := by
  simp [swap]

theorem get_swap (b : Buf Nat) (i j k : Nat) (hi : i < b.length) (hj : j < b.length) :
    (swap b i j).get k = if k = j then b.get i else if k = i then b.get j else b.get k := by
  unfold swap
  rw [Buf.get_put, Buf.get_put]
  by_cases h1 : k = j
  · subst h1; simp [hj]
  · by_cases h2 : k = i
    · subst h2
      have h1' : ¬ j = k := fun e => h1 e.symm
      simp [hi, h1, h1']
    · simp [h1, h2, Ne.symm h1, Ne.symm h2]

/-- the transposition of `i` and `j` -/
def tr (i j k : Nat) : Nat := if k = j then i else if k = i then j else k

theorem tr_invol (i j k : Nat) : tr i j (tr i j k) = k := by
  unfold tr
  by_cases h1 : k = j
  · subst h1
    by_cases h2 : i = k
    · simp [h2]
    · simp [h2]
  · by_cases h2 : k = i
    · subst h2; simp [h1]
    · simp [h1, h2]

theorem tr_lt (i j k n : Nat) (hi : i < n) (hj : j < n) (hk : k < n) : tr i j k < n := by
  unfold tr; split
  · exact hi
  · split
    · exact hj
    · exact hk

theorem perm_tr (i j n : Nat) (hi : i < n) (hj : j < n) : ((List.range n).map (tr i j)).Perm (List.range n) := by
  rw [List.perm_ext_iff_of_nodup]
  · intro a
    simp only [List.mem_map, List.mem_range]
    constructor
    · rintro ⟨k, hk, rfl⟩; exact tr_lt i j k n hi hj hk
    · intro ha; exact ⟨tr i j a, tr_lt i j a n hi hj ha, tr_invol i j a⟩
  · unfold List.Nodup
    rw [List.pairwise_map]
    refine List.Pairwise.imp ?_ (List.nodup_range (n := n))
    intro a b hab e
    apply hab
    rw [← tr_invol i j a, ← tr_invol i j b, e]
  · exact List.nodup_range

/-- swapping two of the first `n` slots permutes the first `n` slots -/
theorem firstN_swap (b : Buf Nat) (i j n : Nat) (hi : i < n) (hj : j < n) (hn : n ≤ b.length) :
    ((swap b i j).firstN n).Perm (b.firstN n) := by
  have h1 : (swap b i j).firstN n = ((List.range n).map (tr i j)).map b.get := by
    unfold Buf.firstN
    rw [List.map_map, List.map_inj_left]
    intro k _
    rw [get_swap b i j k (by omega) (by omega)]
    simp only [Function.comp, tr]
    split
    · rfl
    · split <;> rfl
  rw [h1]
  exact (perm_tr i j n hi hj).map b.get

theorem firstN_succ (b : Buf Nat) (n : Nat) : b.firstN (n + 1) = b.firstN n ++ [b.get n] := by
  simp [Buf.firstN, List.range_succ]

theorem firstN_congr (b b' : Buf Nat) (n : Nat) (h : ∀ j, j < n → b.get j = b'.get j) :
    b.firstN n = b'.firstN n := by
  unfold Buf.firstN
  rw [List.map_inj_left]
  intro j hj
  exact h j (List.mem_range.1 hj)

theorem mem_firstN (b : Buf Nat) (n : Nat) (y : Nat) : y ∈ b.firstN n ↔ ∃ j, j < n ∧ b.get j = y := by
  simp [Buf.firstN]

/-! ## the root of a heap is maximal -/
theorem root_max {cmp : Nat → Nat → Int} (tp : TotalPreorder cmp) (b : Buf Nat) (n : Nat)
    (h : HeapOrd cmp b n) : ∀ j, j < n → 0 ≤ cmp (b.get 0) (b.get j) := by
  intro j
  induction j using Nat.strongRecOn with
  | _ j ih =>
    intro hj
    by_cases h0 : j = 0
    · subst h0; exact cmp_refl tp _
    · have hp := parent_lt j (by omega)
      exact tp.trans _ _ _ (ih _ hp (by omega)) (h j hj (by omega))

end PQueue
end CC
