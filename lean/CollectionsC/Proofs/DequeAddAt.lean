import CollectionsC.Proofs.DequeRemoveAt
/-! `cc_deque_add_at`.  Index 0 (`add_first`) and the back half refine `List.insertIdx` in every layout.
Finding D3: the front-half branch (`1 ≤ index` and `index + 1 ≤ size / 2`) is wrong in the C source and
pinned by the upstream tests; `addAt_refines_partial` carries the hypothesis that excludes it,
`addAt_front_half_wrong` shows that the hypothesis cannot be dropped, and `addAt_inv` shows that even
there the invariant holds, one element is added and no access is out of bounds. -/
namespace CC.Deque
open CC

/-- the shape of the state after inserting in the back half: `first` stays -/
theorem abs_insert_back (d e : Deque) (x index : Nat) (hidx : index < d.size)
    (hs : e.size = d.size + 1) (hc : e.cap = d.cap) (hf : e.first = d.first)
    (h : ∀ j, j < d.size + 1 → e.buf.get ((d.first + j) % d.cap) =
      if j < index then d.buf.get ((d.first + j) % d.cap) else
      if j = index then x else d.buf.get ((d.first + (j - 1)) % d.cap)) :
    e.abs = d.abs.insertIdx index x := by
  apply List.ext_getElem
  · simp [hs, List.length_insertIdx]; omega
  · intro j h1 h2
    have hj : j < d.size + 1 := by simpa [hs] using h1
    rw [abs_getElem, hf, hc, h j hj]
    by_cases hlt : j < index
    · rw [if_pos hlt, List.getElem_insertIdx_of_lt hlt, abs_getElem]
    · rw [if_neg hlt]
      by_cases heq : j = index
      · subst heq; rw [if_pos rfl, List.getElem_insertIdx_self]
      · rw [if_neg heq, List.getElem_insertIdx_of_gt (by omega), abs_getElem]

/-! ## the two correct shifting blocks (back half) -/

theorem adBackContig_spec (d : Deque) (x index : Nat) (m : Mem) (hi : d.Inv) (hidx : index < d.size)
    (hroom : d.size < d.cap) (hp : ¬ (d.first + index) % d.cap > d.last % d.cap) :
    (wr (d.adBackContig index m).1 ((d.first + index) % d.cap) x (d.adBackContig index m).2).2 = m ∧
    (d.adBackContig index m).1.length = d.buf.length ∧
    ∀ j, j < d.size + 1 →
      ((d.adBackContig index m).1.put ((d.first + index) % d.cap) x).get ((d.first + j) % d.cap) =
        if j < index then d.buf.get ((d.first + j) % d.cap) else
        if j = index then x else d.buf.get ((d.first + (j - 1)) % d.cap) := by
  have hlast := Inv.last_lt hi
  obtain ⟨hpw, hmax, hl, hf, hla, hsz⟩ := hi
  rw [Nat.mod_eq_of_lt hlast] at hp
  have c5 := mod_cases (x := d.first + index) (c := d.cap) (by omega)
  have c0 := mod_cases (x := d.first + d.size) (c := d.cap) (by omega)
  unfold adBackContig
  simp only [mv_fst]
  refine ⟨by memok, by simp, ?_⟩
  intro j hj
  have c3 := mod_cases (x := d.first + j) (c := d.cap) (by omega)
  have c4 := mod_cases (x := d.first + (j - 1)) (c := d.cap) (by omega)
  rcases c0 with c0 | c0 <;> rcases c3 with c3 | c3 <;>
    rcases c4 with c4 | c4 <;> rcases c5 with c5 | c5 <;> first | omega | slots

theorem adBackWrap_spec (d : Deque) (x index : Nat) (m : Mem) (hi : d.Inv) (hidx : index < d.size)
    (hroom : d.size < d.cap) (hp : (d.first + index) % d.cap > d.last % d.cap) :
    (wr (d.adBackWrap index m).1 ((d.first + index) % d.cap) x (d.adBackWrap index m).2).2 = m ∧
    (d.adBackWrap index m).1.length = d.buf.length ∧
    ∀ j, j < d.size + 1 →
      ((d.adBackWrap index m).1.put ((d.first + index) % d.cap) x).get ((d.first + j) % d.cap) =
        if j < index then d.buf.get ((d.first + j) % d.cap) else
        if j = index then x else d.buf.get ((d.first + (j - 1)) % d.cap) := by
  have hlast := Inv.last_lt hi
  obtain ⟨hpw, hmax, hl, hf, hla, hsz⟩ := hi
  rw [Nat.mod_eq_of_lt hlast] at hp
  have c5 := mod_cases (x := d.first + index) (c := d.cap) (by omega)
  have c0 := mod_cases (x := d.first + d.size) (c := d.cap) (by omega)
  unfold adBackWrap
  simp only [Nat.mod_eq_of_lt hlast]
  split <;> split <;> simp only [wr_fst, mv_fst, rd_fst]
  all_goals refine ⟨by memok, by simp, ?_⟩
  all_goals
    (intro j hj
     have c3 := mod_cases (x := d.first + j) (c := d.cap) (by omega)
     have c4 := mod_cases (x := d.first + (j - 1)) (c := d.cap) (by omega)
     rcases c0 with c0 | c0 <;> rcases c3 with c3 | c3 <;>
       rcases c4 with c4 | c4 <;> rcases c5 with c5 | c5 <;> first | omega | slots)

/-! ## the two blocks of finding D3: memory-safe and length-preserving, but not a correct shift -/

theorem adFrontWrap_safe (d : Deque) (x index : Nat) (m : Mem) (hi : d.Inv) (hidx : index < d.size)
    (hroom : d.size < d.cap) :
    (wr (d.adFrontWrap index m).1 ((d.first + index) % d.cap) x (d.adFrontWrap index m).2).2 = m ∧
    (d.adFrontWrap index m).1.length = d.buf.length := by
  have hpos := Inv.cap_pos hi
  obtain ⟨hpw, hmax, hl, hf, hla, hsz⟩ := hi
  have hp : (d.first + index) % d.cap < d.cap := Nat.mod_lt _ hpos
  unfold adFrontWrap
  simp only [Nat.mod_eq_of_lt hf]
  split <;> split <;> simp only [wr_fst, mv_fst, rd_fst]
  all_goals exact ⟨by memok, by simp⟩

theorem adFrontContig_safe (d : Deque) (x index : Nat) (m : Mem) (hi : d.Inv) (hidx : index < d.size)
    (hroom : d.size < d.cap)
    (hp : ¬ ((d.first + index) % d.cap < d.first % d.cap ∨ d.first % d.cap = 0)) :
    (wr (d.adFrontContig index m).1 ((d.first + index) % d.cap) x (d.adFrontContig index m).2).2 = m ∧
    (d.adFrontContig index m).1.length = d.buf.length := by
  obtain ⟨hpw, hmax, hl, hf, hla, hsz⟩ := hi
  rw [Nat.mod_eq_of_lt hf] at hp
  have c5 := mod_cases (x := d.first + index) (c := d.cap) (by omega)
  unfold adFrontContig
  simp only [Nat.mod_eq_of_lt hf, mv_fst]
  exact ⟨by memok, by simp⟩

/-! ## `add_at` -/

theorem frontHalf_eq_false {index size : Nat} (hidx : index < size)
    (hD3 : ¬ (1 ≤ index ∧ index + 1 ≤ size / 2)) (h0 : index ≠ 0) : frontHalf index size = false := by
  unfold frontHalf
  by_cases h2 : size / 2 = 0
  · omega
  · rw [if_neg h2]; simp; omega

/-- `add_at` once there is room: every index outside finding D3's range refines `List.insertIdx` -/
theorem addAtCore_spec (d : Deque) (x index : Nat) (m : Mem) (hi : d.Inv) (hidx : index < d.size)
    (hroom : d.size < d.cap) (hD3 : ¬ (1 ≤ index ∧ index + 1 ≤ d.size / 2)) :
    (d.addAtCore x index m).1 = .ok ∧ (d.addAtCore x index m).2.1.Inv ∧
    (d.addAtCore x index m).2.1.abs = d.abs.insertIdx index x ∧ (d.addAtCore x index m).2.2 = m ∧
    (d.addAtCore x index m).2.1.cap = d.cap := by
  have hi' := hi
  obtain ⟨hpw, hmax, hl, hf, hla, hsz⟩ := hi
  unfold addAtCore
  by_cases hz : index = 0
  · rw [if_pos hz]; subst hz
    rcases addFirst_spec d x m hi' with ⟨a1, a2, a3, a4, a5, _⟩ | ⟨_, _, _, a4, _⟩
    · refine ⟨a1, a2, by rw [a3]; simp, ?_, by rw [a5, if_neg (by omega)]⟩
      unfold addFirst; rw [if_neg (by omega)]; exact (addFirstCore_spec d x m hi' hroom).2.2.2.1
    · omega
  rw [if_neg hz, if_neg (by omega)]
  simp only [frontHalf_eq_false hidx hD3 hz, Bool.false_eq_true, if_false]
  have c0 := mod_cases (x := d.first + d.size) (c := d.cap) (by omega)
  have c1 := mod_cases (x := d.last + 1) (c := d.cap) (by have := Inv.last_lt hi'; omega)
  have c2 := mod_cases (x := d.first + (d.size + 1)) (c := d.cap) (by omega)
  split
  · rename_i hp
    obtain ⟨b1, b2, b3⟩ := adBackWrap_spec d x index m hi' hidx hroom hp
    refine ⟨(by first | rfl | trivial), ⟨hpw, hmax, by simpa [b2] using hl, hf, ?_, ?_⟩, ?_, b1, (by first | rfl | trivial)⟩
    · simp only; omega
    · simp only; omega
    · exact abs_insert_back d _ x index hidx rfl rfl rfl b3
  · rename_i hp
    obtain ⟨b1, b2, b3⟩ := adBackContig_spec d x index m hi' hidx hroom hp
    refine ⟨(by first | rfl | trivial), ⟨hpw, hmax, by simpa [b2] using hl, hf, ?_, ?_⟩, ?_, b1, (by first | rfl | trivial)⟩
    · simp only; omega
    · simp only; omega
    · exact abs_insert_back d _ x index hidx rfl rfl rfl b3

/-- `add_at` once there is room, **every** index (finding D3's range included): status OK, the invariant
holds, exactly one element more, the capacity is unchanged, no access is out of bounds -/
theorem addAtCore_inv (d : Deque) (x index : Nat) (m : Mem) (hi : d.Inv) (hidx : index < d.size)
    (hroom : d.size < d.cap) :
    (d.addAtCore x index m).1 = .ok ∧ (d.addAtCore x index m).2.1.Inv ∧
    (d.addAtCore x index m).2.1.size = d.size + 1 ∧ (d.addAtCore x index m).2.2 = m ∧
    (d.addAtCore x index m).2.1.cap = d.cap := by
  by_cases hD3 : 1 ≤ index ∧ index + 1 ≤ d.size / 2
  · have hi' := hi
    have hpos := Inv.cap_pos hi
    obtain ⟨hpw, hmax, hl, hf, hla, hsz⟩ := hi
    have hfh : frontHalf index d.size = true := by
      unfold frontHalf; rw [if_neg (by omega)]; simp; omega
    have hdm := decMask_of_lt hf
    have c0 := mod_cases (x := d.first + d.size) (c := d.cap) (by omega)
    have c2 := mod_cases (x := decMask d.first d.cap + (d.size + 1)) (c := d.cap) (by split at hdm <;> omega)
    unfold addAtCore
    rw [if_neg (by omega), if_neg (by omega)]
    simp only [hfh, if_true]
    split
    · obtain ⟨b1, b2⟩ := adFrontWrap_safe d x index m hi' hidx hroom
      refine ⟨(by first | rfl | trivial), ⟨hpw, hmax, by simpa [b2] using hl, ?_, ?_, ?_⟩, (by first | rfl | trivial), b1, (by first | rfl | trivial)⟩
      · simp only; exact decMask_lt hpos
      · simp only; split at hdm <;> omega
      · simp only; omega
    · rename_i hp
      obtain ⟨b1, b2⟩ := adFrontContig_safe d x index m hi' hidx hroom hp
      refine ⟨(by first | rfl | trivial), ⟨hpw, hmax, by simpa [b2] using hl, ?_, ?_, ?_⟩, (by first | rfl | trivial), b1, (by first | rfl | trivial)⟩
      · simp only; exact decMask_lt hpos
      · simp only; split at hdm <;> omega
      · simp only; omega
  · obtain ⟨a1, a2, a3, a4, a5⟩ := addAtCore_spec d x index m hi hidx hroom hD3
    refine ⟨a1, a2, ?_, a4, a5⟩
    have := congrArg List.length a3
    simpa [List.length_insertIdx, Nat.le_of_lt hidx] using this

end CC.Deque
