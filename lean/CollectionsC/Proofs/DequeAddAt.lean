import CollectionsC.Proofs.DequeRemoveAt
/-! `cc_deque_add_at`.  Index 0 (`add_first`) and the back half refine `List.insertIdx` in every layout.
Finding D3: the front-half branch (`1 ≤ index` and `index + 1 ≤ size / 2`) is wrong in the C source and
pinned by the upstream tests; `addAt_refines_partial` carries the hypothesis that excludes it,
`addAt_front_half_wrong` shows that the hypothesis cannot be dropped, and `addAt_inv` shows that even
there the invariant holds, one element is added and no access is out of bounds. -/
namespace CC.Deque
open CC

/-- the shape of the state after inserting in the back half: `first` stays -/
theorem abs_insert_back (d e : Deque) (x index : Nat) (hidx : index < d.size)
    (hs : e.size = d.size + 1) (hc : e.cap = d.cap) (hf : e.first = d.first)
    (h : ∀ j, j < d.size + 1 → e.buf.get ((d.first + j) % d.cap) =
      if j < index then d.buf.get ((d.first + j) % d.cap) else
      if j = index then x else d.buf.get ((d.first + (j - 1)) % d.cap)) :
    e.abs = d.abs.insertIdx index x := by
  apply List.ext_getElem
  · simp [hs, List.length_insertIdx]; omega
  · intro j h1 h2
    have hj : j < d.size + 1 := by simpa [hs] using h1
    rw [abs_getElem, hf, hc, h j hj]
    by_cases hlt : j < index
    · rw [if_pos hlt, List.getElem_insertIdx_of_lt hlt, abs_getElem]
    · rw [if_neg hlt]
      by_cases heq : j = index
      · subst heq; rw [if_pos rfl, List.getElem_insertIdx_self]
      · rw [if_neg heq, List.getElem_insertIdx_of_gt (by omega), abs_getElem]

/-! ## the two correct shifting blocks (back half) -/

theorem adBackContig_spec (d : Deque) (x index : Nat) (m : Mem) (hi : d.Inv) (hidx : index < d.size)
    (hroom : d.size < d.cap) (hp : ¬ (d.first + index) % d.cap > d.last % d.cap) :
    (wr (d.adBackContig index m).1 ((d.first + index) % d.cap) x (d.adBackContig index m).2).2 = m ∧
    (d.adBackContig index m).1.length = d.buf.length ∧
    ∀ j, j < d.size + 1 →
      ((d.adBackContig index m).1.put ((d.first + index) % d.cap) x).get ((d.first + j) % d.cap) =
        if j < index then d.buf.get ((d.first + j) % d.cap) else
        if j = index then x else d.buf.get ((d.first + (j - 1)) % d.cap) := by
  have hlast := Inv.last_lt hi
  obtain ⟨hpw, hmax, hl, hf, hla, hsz⟩ := hi
  rw [Nat.mod_eq_of_lt hlast] at hp
  have c5 := mod_cases (x := d.first + index) (c := d.cap) (by omega)
  have c0 := mod_cases (x := d.first + d.size) (c := d.cap) (by omega)
  unfold adBackContig
  simp only [mv_fst]
  refine ⟨by memok, by simp, ?_⟩
  intro j hj
  have c3 := mod_cases (x := d.first + j) (c := d.cap) (by omega)
  have c4 := mod_cases (x := d.first + (j - 1)) (c := d.cap) (by omega)
  rcases c0 with c0 | c0 <;> rcases c3 with c3 | c3 <;>
    rcases c4 with c4 | c4 <;> rcases c5 with c5 | c5 <;> first | omega | slots

set_option maxHeartbeats 1000000 in -- many (layout × branch) leaves, each closed by omega
theorem adBackWrap_spec (d : Deque) (x index : Nat) (m : Mem) (hi : d.Inv) (hidx : index < d.size)
    (hroom : d.size < d.cap) (hp : (d.first + index) % d.cap > d.last % d.cap) :
    (wr (d.adBackWrap index m).1 ((d.first + index) % d.cap) x (d.adBackWrap index m).2).2 = m ∧
    (d.adBackWrap index m).1.length = d.buf.length ∧
    ∀ j, j < d.size + 1 →
      ((d.adBackWrap index m).1.put ((d.first + index) % d.cap) x).get ((d.first + j) % d.cap) =
        if j < index then d.buf.get ((d.first + j) % d.cap) else
        if j = index then x else d.buf.get ((d.first + (j - 1)) % d.cap) := by
  have hlast := Inv.last_lt hi
  obtain ⟨hpw, hmax, hl, hf, hla, hsz⟩ := hi
  rw [Nat.mod_eq_of_lt hlast] at hp
  have c5 := mod_cases (x := d.first + index) (c := d.cap) (by omega)
  have c0 := mod_cases (x := d.first + d.size) (c := d.cap) (by omega)
  unfold adBackWrap
  simp only [Nat.mod_eq_of_lt hlast]
  split <;> split <;> simp only [wr_fst, mv_fst, rd_fst]
  all_goals refine ⟨by memok, by simp, ?_⟩
  all_goals
    (intro j hj
     have c3 := mod_cases (x := d.first + j) (c := d.cap) (by omega)
     have c4 := mod_cases (x := d.first + (j - 1)) (c := d.cap) (by omega)
     rcases c0 with c0 | c0 <;> rcases c3 with c3 | c3 <;>
       rcases c4 with c4 | c4 <;> rcases c5 with c5 | c5 <;> first | omega | slots)

/-! ## the two blocks of finding D3: memory-safe and length-preserving, but not a correct shift -/

theorem adFrontWrap_safe (d : Deque) (x index : Nat) (m : Mem) (hi : d.Inv) (hidx : index < d.size)
    (hroom : d.size < d.cap) :
    (wr (d.adFrontWrap index m).1 ((d.first + index) % d.cap) x (d.adFrontWrap index m).2).2 = m ∧
    (d.adFrontWrap index m).1.length = d.buf.length := by
  have hpos := Inv.cap_pos hi
  obtain ⟨hpw, hmax, hl, hf, hla, hsz⟩ := hi
  have hp : (d.first + index) % d.cap < d.cap := Nat.mod_lt _ hpos
  unfold adFrontWrap
  simp only [Nat.mod_eq_of_lt hf]
  split <;> split <;> simp only [wr_fst, mv_fst, rd_fst]
  all_goals exact ⟨by memok, by simp⟩

theorem adFrontContig_safe (d : Deque) (x index : Nat) (m : Mem) (hi : d.Inv) (hidx : index < d.size)
    (hroom : d.size < d.cap)
    (hp : ¬ ((d.first + index) % d.cap < d.first % d.cap ∨ d.first % d.cap = 0)) :
    (wr (d.adFrontContig index m).1 ((d.first + index) % d.cap) x (d.adFrontContig index m).2).2 = m ∧
    (d.adFrontContig index m).1.length = d.buf.length := by
  obtain ⟨hpw, hmax, hl, hf, hla, hsz⟩ := hi
  rw [Nat.mod_eq_of_lt hf] at hp
  have c5 := mod_cases (x := d.first + index) (c := d.cap) (by omega)
  unfold adFrontContig
  simp only [Nat.mod_eq_of_lt hf, mv_fst]
  exact ⟨by memok, by simp⟩

/-! ## `add_at` -/

theorem frontHalf_eq_false {index size : Nat} (hidx : index < size)
    (hD3 : ¬ (1 ≤ index ∧ index + 1 ≤ size / 2)) (h0 : index ≠ 0) : frontHalf index size = false := by
  unfold frontHalf
  by_cases h2 : size / 2 = 0
  · omega
  · rw [if_neg h2]; simp; omega

/-- `add_at` once there is room: every index outside finding D3's range refines `List.insertIdx` -/
theorem addAtCore_spec (d : Deque) (x index : Nat) (m : Mem) (hi : d.Inv) (hidx : index < d.size)
    (hroom : d.size < d.cap) (hD3 : ¬ (1 ≤ index ∧ index + 1 ≤ d.size / 2)) :
    (d.addAtCore x index m).1 = .ok ∧ (d.addAtCore x index m).2.1.Inv ∧
    (d.addAtCore x index m).2.1.abs = d.abs.insertIdx index x ∧ (d.addAtCore x index m).2.2 = m ∧
    (d.addAtCore x index m).2.1.cap = d.cap := by
  have hi' := hi
  obtain ⟨hpw, hmax, hl, hf, hla, hsz⟩ := hi
  unfold addAtCore
  by_cases hz : index = 0
  · rw [if_pos hz]; subst hz
    rcases addFirst_spec d x m hi' with ⟨a1, a2, a3, a4, a5, _⟩ | ⟨_, _, _, a4, _⟩
    · refine ⟨a1, a2, by rw [a3]; simp, ?_, by rw [a5, if_neg (by omega)]⟩
      unfold addFirst; rw [if_neg (by omega)]; exact (addFirstCore_spec d x m hi' hroom).2.2.2.1
    · omega
  rw [if_neg hz, if_neg (by omega)]
  simp only [frontHalf_eq_false hidx hD3 hz, Bool.false_eq_true, if_false]
  have c0 := mod_cases (x := d.first + d.size) (c := d.cap) (by omega)
  have c1 := mod_cases (x := d.last + 1) (c := d.cap) (by have := Inv.last_lt hi'; omega)
  have c2 := mod_cases (x := d.first + (d.size + 1)) (c := d.cap) (by omega)
  split
  · rename_i hp
    obtain ⟨b1, b2, b3⟩ := adBackWrap_spec d x index m hi' hidx hroom hp
    refine ⟨(by first | rfl | trivial), ⟨hpw, hmax, by simpa [b2] using hl, hf, ?_, ?_⟩, ?_, b1, (by first | rfl | trivial)⟩
    · simp only; omega
    · simp only; omega
    · exact abs_insert_back d _ x index hidx rfl rfl rfl b3
  · rename_i hp
    obtain ⟨b1, b2, b3⟩ := adBackContig_spec d x index m hi' hidx hroom hp
    refine ⟨(by first | rfl | trivial), ⟨hpw, hmax, by simpa [b2] using hl, hf, ?_, ?_⟩, ?_, b1, (by first | rfl | trivial)⟩
    · simp only; omega
    · simp only; omega
    · exact abs_insert_back d _ x index hidx rfl rfl rfl b3

/-- `add_at` once there is room, **every** index (finding D3's range included): status OK, the invariant
holds, exactly one element more, the capacity is unchanged, no access is out of bounds -/
theorem addAtCore_inv (d : Deque) (x index : Nat) (m : Mem) (hi : d.Inv) (hidx : index < d.size)
    (hroom : d.size < d.cap) :
    (d.addAtCore x index m).1 = .ok ∧ (d.addAtCore x index m).2.1.Inv ∧
    (d.addAtCore x index m).2.1.size = d.size + 1 ∧ (d.addAtCore x index m).2.2 = m ∧
    (d.addAtCore x index m).2.1.cap = d.cap := by
  by_cases hD3 : 1 ≤ index ∧ index + 1 ≤ d.size / 2
  · have hi' := hi
    have hpos := Inv.cap_pos hi
    obtain ⟨hpw, hmax, hl, hf, hla, hsz⟩ := hi
    have hfh : frontHalf index d.size = true := by
      unfold frontHalf; rw [if_neg (by omega)]; simp; omega
    have hdm := decMask_of_lt hf
    have c0 := mod_cases (x := d.first + d.size) (c := d.cap) (by omega)
    have c2 := mod_cases (x := decMask d.first d.cap + (d.size + 1)) (c := d.cap) (by split at hdm <;> omega)
    unfold addAtCore
    rw [if_neg (by omega), if_neg (by omega)]
    simp only [hfh, if_true]
    split
    · obtain ⟨b1, b2⟩ := adFrontWrap_safe d x index m hi' hidx hroom
      refine ⟨(by first | rfl | trivial), ⟨hpw, hmax, by simpa [b2] using hl, ?_, ?_, ?_⟩, (by first | rfl | trivial), b1, (by first | rfl | trivial)⟩
      · simp only; exact decMask_lt hpos
      · simp only; split at hdm <;> omega
      · simp only; omega
    · rename_i hp
      obtain ⟨b1, b2⟩ := adFrontContig_safe d x index m hi' hidx hroom hp
      refine ⟨(by first | rfl | trivial), ⟨hpw, hmax, by simpa [b2] using hl, ?_, ?_, ?_⟩, (by first | rfl | trivial), b1, (by first | rfl | trivial)⟩
      · simp only; exact decMask_lt hpos
      · simp only; split at hdm <;> omega
      · simp only; omega
  · obtain ⟨a1, a2, a3, a4, a5⟩ := addAtCore_spec d x index m hi hidx hroom hD3
    refine ⟨a1, a2, ?_, a4, a5⟩
    have := congrArg List.length a3
    simpa [List.length_insertIdx, Nat.le_of_lt hidx] using this

/-- an index outside `[0, size)` is rejected and nothing at all changes -/
theorem addAt_inert (d : Deque) (x index : Nat) (m : Mem) (h : index ≥ d.size) :
    d.addAt x index m = (.errOutOfRange, d, m) := by unfold addAt; rw [if_pos h]

open CC.Spec in
/-- **`cc_deque_add_at`, partial (finding D3).**  For every layout and every index outside the front-half
range `1 ≤ index ∧ index + 1 ≤ size / 2`: either the call behaves exactly like `List.insertIdx` on the
ideal list (same status — `CC_ERR_OUT_OF_RANGE` with nothing changed for `index ≥ size` —, the
abstraction commutes, invariant kept, ledger balanced, capacity kept or doubled), or it reports
`CC_ERR_ALLOC` with the whole state unchanged because the deque was full and growth was refused.

The unrestricted statement (without `hD3`) is false: `addAt_front_half_wrong`. -/
theorem addAt_refines_partial (d : Deque) (x index : Nat) (m : Mem) (hi : d.Inv)
    (hD3 : ¬ (1 ≤ index ∧ index + 1 ≤ d.size / 2)) :
    ((d.addAt x index m).1 = (DequeSpec.addAt d.abs x index).1 ∧
      (d.addAt x index m).2.1.abs = (DequeSpec.addAt d.abs x index).2 ∧
      (d.addAt x index m).2.1.Inv ∧ memSame d.triple (d.addAt x index m).2.2 m ∧
      (d.addAt x index m).2.1.cap = (if index < d.size ∧ d.size = d.cap then 2 * d.cap else d.cap)) ∨
    ((d.addAt x index m).1 = .errAlloc ∧ (d.addAt x index m).2.1 = d ∧ memSame d.triple (d.addAt x index m).2.2 m ∧
      index < d.size ∧ d.size = d.cap ∧ ((m.allocT d.triple).1 = false ∨ d.cap = Gen.MAX_POW_TWO)) := by
  have hsz := hi.2.2.2.2.2
  have hpos := Inv.cap_pos hi
  by_cases h0 : index ≥ d.size
  · left
    rw [addAt_inert d x index m h0]
    unfold DequeSpec.addAt
    rw [if_neg (by simp; omega)]
    exact ⟨rfl, rfl, hi, memSame_refl _ m, by rw [if_neg (by omega)]⟩
  have hidx : index < d.size := by omega
  have hspec : DequeSpec.addAt d.abs x index = (.ok, d.abs.insertIdx index x) := by
    unfold DequeSpec.addAt; rw [if_pos (by simpa using hidx)]
  unfold addAt
  rw [if_neg h0, hspec]
  by_cases hfull : d.cap = d.size
  · rw [if_pos hfull]
    by_cases he : (d.expandCapacity m).1 = .ok
    · obtain ⟨e1, e2, e3, e4, e5, e6, e7⟩ := expandCapacity_ok d m hi he
      have hne : ((d.expandCapacity m).1 != Stat.ok) = false := by simp [he]
      simp only [hne, Bool.false_eq_true, if_false]
      obtain ⟨a1, a2, a3, a4, a5⟩ := addAtCore_spec (d.expandCapacity m).2.1 x index (d.expandCapacity m).2.2 e1
        (by rw [e3]; exact hidx) (by rw [e3, e4]; omega) (by rw [e3]; exact hD3)
      left
      exact ⟨a1, by rw [a3, e2], a2, by rw [a4]; exact e5, by rw [a5, e4, if_pos ⟨hidx, hfull.symm⟩]⟩
    · obtain ⟨f1, f2, f3, f4⟩ := expandCapacity_fail d m he
      have hne : ((d.expandCapacity m).1 != Stat.ok) = true := by simp [he]
      simp only [hne, if_true]
      right
      refine ⟨(by first | rfl | trivial), f1, f2, hidx, hfull.symm, ?_⟩
      rcases f3 with f3 | f3
      · exact Or.inl (f4 f3)
      · right
        by_cases hc : d.cap = Gen.MAX_POW_TWO
        · exact hc
        · cases ha : (m.allocT d.triple).1
          · rw [expandCapacity_refused d m hc ha] at f3; simp at f3
          · rw [expandCapacity_grow d m hc ha] at f3; simp at f3
  · rw [if_neg hfull]
    obtain ⟨a1, a2, a3, a4, a5⟩ := addAtCore_spec d x index m hi hidx (by omega) hD3
    left
    exact ⟨a1, a3, a2, by rw [a4]; exact memSame_refl _ m, by rw [a5, if_neg (by omega)]⟩

/-- `cc_deque_add_at` for **every** index, finding D3's range included: the invariant is preserved, the
ledger stays balanced, no access is out of bounds; on `CC_OK` there is exactly one element more and the
capacity is kept or doubled; on any error the whole state is unchanged -/
theorem addAt_inv (d : Deque) (x index : Nat) (m : Mem) (hi : d.Inv) :
    (d.addAt x index m).2.1.Inv ∧ memSame d.triple (d.addAt x index m).2.2 m ∧
    ((d.addAt x index m).1 = .ok → (d.addAt x index m).2.1.size = d.size + 1 ∧ index < d.size ∧
      (d.addAt x index m).2.1.cap = (if d.size = d.cap then 2 * d.cap else d.cap)) ∧
    ((d.addAt x index m).1 ≠ .ok → (d.addAt x index m).2.1 = d ∧
      ((d.addAt x index m).1 = .errOutOfRange ∧ index ≥ d.size ∨
       (d.addAt x index m).1 = .errAlloc ∧ index < d.size ∧ d.size = d.cap)) := by
  have hsz := hi.2.2.2.2.2
  have hpos := Inv.cap_pos hi
  by_cases h0 : index ≥ d.size
  · rw [addAt_inert d x index m h0]
    exact ⟨hi, memSame_refl _ m, fun h => by simp at h, fun _ => ⟨rfl, Or.inl ⟨rfl, h0⟩⟩⟩
  have hidx : index < d.size := by omega
  unfold addAt
  rw [if_neg h0]
  by_cases hfull : d.cap = d.size
  · rw [if_pos hfull]
    by_cases he : (d.expandCapacity m).1 = .ok
    · obtain ⟨e1, e2, e3, e4, e5, e6, e7⟩ := expandCapacity_ok d m hi he
      have hne : ((d.expandCapacity m).1 != Stat.ok) = false := by simp [he]
      simp only [hne, Bool.false_eq_true, if_false]
      obtain ⟨a1, a2, a3, a4, a5⟩ := addAtCore_inv (d.expandCapacity m).2.1 x index (d.expandCapacity m).2.2 e1
        (by rw [e3]; exact hidx) (by rw [e3, e4]; omega)
      refine ⟨a2, by rw [a4]; exact e5, fun _ => ⟨by rw [a3, e3], hidx, by rw [a5, e4, if_pos hfull.symm]⟩, ?_⟩
      intro h; exact absurd a1 h
    · obtain ⟨f1, f2, f3, f4⟩ := expandCapacity_fail d m he
      have hne : ((d.expandCapacity m).1 != Stat.ok) = true := by simp [he]
      simp only [hne, if_true]
      refine ⟨by rw [f1]; exact hi, f2, fun h => by simp at h, fun _ => ⟨f1, Or.inr ⟨(by first | rfl | trivial), hidx, hfull.symm⟩⟩⟩
  · rw [if_neg hfull]
    obtain ⟨a1, a2, a3, a4, a5⟩ := addAtCore_inv d x index m hi hidx (by omega)
    refine ⟨a2, by rw [a4]; exact memSame_refl _ m, fun _ => ⟨a3, hidx, by rw [a5, if_neg (by omega)]⟩, ?_⟩
    intro h; exact absurd a1 h

theorem addAtCore_triple (d : Deque) (x i : Nat) (m : Mem) : (d.addAtCore x i m).2.1.triple = d.triple := by
  unfold addAtCore
  dsimp only
  split; · exact addFirst_triple d x m
  split; · exact addLast_triple d x m
  split <;> rfl

theorem addAt_triple (d : Deque) (x i : Nat) (m : Mem) : (d.addAt x i m).2.1.triple = d.triple := by
  unfold addAt
  split; · rfl
  split
  · dsimp only
    split
    · exact expandCapacity_triple d m
    · rw [addAtCore_triple]; exact expandCapacity_triple d m
  · exact addAtCore_triple d x i m

/-! ## finding D3: the hypothesis of `addAt_refines_partial` cannot be dropped -/

/-- a contiguous deque starting at slot 0 (`f == 0` sends it down the "wrapped" block): capacity 8,
elements `[1,2,3,4]`, insert 9 at index 1 -/
def d3Wrapped : Deque := { size := 4, cap := 8, first := 0, last := 4, buf := [1, 2, 3, 4, 0, 0, 0, 0] }
/-- a contiguous deque starting at slot 2: capacity 8, elements `[1,2,3,4]`, insert 9 at index 1 -/
def d3Unwrapped : Deque := { size := 4, cap := 8, first := 2, last := 6, buf := [0, 0, 1, 2, 3, 4, 0, 0] }

/-- **Negation theorem for finding D3.**  Two states that satisfy the invariant, index 1 of 4 elements
(so `1 ≤ index ∧ index + 1 ≤ size / 2`): the model — which is the C code, statement by statement —
returns `CC_OK` but its content is not `List.insertIdx`: in the first layout the new element lands
after position 1 (`[1,2,9,3,4]`), in the second the element at position 1 is overwritten and its
predecessor duplicated (`[1,1,9,3,4]`, the 2 is lost). -/
theorem addAt_front_half_wrong :
    d3Wrapped.Inv ∧ d3Unwrapped.Inv ∧
    (d3Wrapped.addAt 9 1 {}).1 = .ok ∧ (d3Unwrapped.addAt 9 1 {}).1 = .ok ∧
    (d3Wrapped.addAt 9 1 {}).2.1.abs = [1, 2, 9, 3, 4] ∧
    (d3Unwrapped.addAt 9 1 {}).2.1.abs = [1, 1, 9, 3, 4] ∧
    d3Wrapped.abs.insertIdx 1 9 = [1, 9, 2, 3, 4] ∧ d3Unwrapped.abs.insertIdx 1 9 = [1, 9, 2, 3, 4] ∧
    (d3Wrapped.addAt 9 1 {}).2.1.abs ≠ d3Wrapped.abs.insertIdx 1 9 ∧
    (d3Unwrapped.addAt 9 1 {}).2.1.abs ≠ d3Unwrapped.abs.insertIdx 1 9 := by decide

end CC.Deque
