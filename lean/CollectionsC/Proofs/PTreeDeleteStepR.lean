import CollectionsC.Proofs.PTreeDeleteStep
set_option linter.unusedSimpArgs false
set_option linter.unusedVariables false
namespace CC.PTree
open CC
open CC.Tree (Path Dir)

/-! The mirror image of `Proofs/PTreeDeleteStep.lean`: `x` a right child. -/

def delCase1R (st : PT) (x : Nat) : PT × Nat :=
  let h := st.heap
  let xp := (h.get x).parent
  let w := (h.get xp).left
  if (h.get w).color = .red then
    let h := setColor h w .black
    let h := setColor h xp .red
    let st := rotateRight { st with heap := h } xp
    (st, (st.heap.get (st.heap.get x).parent).left)
  else (st, w)

def delCase3R (st : PT) (x w : Nat) : PT × Nat :=
  let h := st.heap
  if (h.get (h.get w).left).color = .black then
    let h := setColor h (h.get w).right .black
    let h := setColor h w .red
    let st := rotateLeft { st with heap := h } w
    (st, (st.heap.get (st.heap.get x).parent).left)
  else (st, w)

def delCase4R (st : PT) (x w : Nat) : PT :=
  let h := st.heap
  let h := setColor h w (h.get (h.get x).parent).color
  let h := setColor h (h.get x).parent .black
  let h := setColor h (h.get w).left .black
  rotateRight { st with heap := h } (h.get x).parent

/-- one iteration of the loop for a black non-root `x` that is not a left child -/
theorem rebalDeleteLoop_right (f : Nat) (st : PT) (x : Nat) (h1 : x ≠ st.root) (h2 : (st.heap.get x).color = .black)
    (h3 : x ≠ (st.heap.get (st.heap.get x).parent).left) :
    rebalDeleteLoop (f + 1) st x =
      (let r1 := delCase1R st x
       if (r1.1.heap.get (r1.1.heap.get r1.2).right).color = .black ∧
          (r1.1.heap.get (r1.1.heap.get r1.2).left).color = .black then
         rebalDeleteLoop f { r1.1 with heap := setColor r1.1.heap r1.2 .red }
           ((setColor r1.1.heap r1.2 .red).get x).parent
       else
         let r3 := delCase3R r1.1 x r1.2
         let st4 := delCase4R r3.1 x r3.2
         (st4, st4.root)) := by
  rw [rebalDeleteLoop]
  simp only [h1, h2, ne_eq, not_true_eq_false, or_self, if_false, h3]
  rfl
end CC.PTree

namespace CC.PTree
open CC
open CC.Tree (Path Dir)

/-- `x->parent` for the (possibly empty) right subtree `X` of the node at the top of `G`: a real node has it
by representation, the sentinel keeps the scratch value as long as nobody writes it -/
theorem At.right_parent {st : PT} {T : ITree} {g : Path} {p : Nat} {c : Colour} {X : ITree} {k v : Nat} {R : ITree}
    (h : At st T g (.node p c R k v X)) (hX : X ≠ .nil) : (st.heap.get X.rid).parent = p := by
  cases X with
  | nil => exact absurd rfl hX
  | node xi xc xa xk xv xb =>
    have := (h.get [.R] rfl).1
    simp [this]

/-- **case 1** (`w` red), `x` a right child: `w` black, parent red, rotate right at the parent; the new sibling
is `w`'s former right child, `x->parent` is unchanged -/
theorem delete_step_R_case1 {st : PT} {T : ITree} {g : Path} {xp : Nat} {cp : Colour} {X : ITree} {kp vp w : Nat}
    {wl : ITree} {kw vw : Nat} {wr : ITree}
    (h : At st T g (.node xp cp (.node w .red wr kw vw wl) kp vp X))
    {x : Nat} (hx : x = X.rid) (hxp : (st.heap.get x).parent = xp) :
    ∃ st', delCase1R st x = (st', wl.rid) ∧
      At st' T g (.node w .black wr kw vw (.node xp .red wl kp vp X)) ∧
      (st'.heap.get x).parent = xp := by
  obtain ⟨rp, p0⟩ := h.get [] rfl
  obtain ⟨rw, w0⟩ := h.get [.L] rfl
  have h1 := h.setColor [.L] rfl .black
  have h2 := h1.setColor [] rfl .red
  simp only [ITree.replace, ITree.replace_root] at h1 h2
  have h3 := h2.rotR [] rfl
  simp only [ITree.replace_root] at h3
  have hxp' : ((rotateRight { st with heap := setColor (setColor st.heap w .black) xp .red } xp).heap.get x).parent = xp := by
    by_cases hX : X = .nil
    · subst hX; subst hx
      rw [ITree.rid_nil, h2.rotR_get0 [] rfl]
      show ((setColor (setColor st.heap w .black) xp .red).get 0).parent = xp
      rw [setColor_get0 _ _ _ p0, setColor_get0 _ _ _ w0]; exact hxp
    · subst hx
      have := (h3.get [.R] rfl).1
      -- `X` is the right child of `xp`, which is the right child of `w`
      have hA : At (rotateRight { st with heap := setColor (setColor st.heap w .black) xp .red } xp) T g
          (.node w .black wr kw vw (.node xp .red wl kp vp X)) := h3
      cases X with
      | nil => exact absurd rfl hX
      | node xi xc xa xk xv xb =>
        have := (hA.get [.R, .R] rfl).1
        simp [this]
  refine ⟨_, ?_, h3, hxp'⟩
  unfold delCase1R
  simp only [hxp, rp, ITree.rid_node, rw, if_true]
  rw [hxp', (h3.get [.R] rfl).1]
end CC.PTree

namespace CC.PTree
open CC
open CC.Tree (Path Dir)

/-- `w` black: case 1 does nothing -/
theorem delete_step_R_case1_skip {st : PT} {T : ITree} {g : Path} {xp : Nat} {cp : Colour} {X : ITree} {kp vp w : Nat}
    {wl : ITree} {kw vw : Nat} {wr : ITree}
    (h : At st T g (.node xp cp (.node w .black wr kw vw wl) kp vp X))
    {x : Nat} (hxp : (st.heap.get x).parent = xp) : delCase1R st x = (st, w) := by
  obtain ⟨rp, p0⟩ := h.get [] rfl
  obtain ⟨rw, w0⟩ := h.get [.L] rfl
  unfold delCase1R
  simp [hxp, rp, rw]

/-- **case 2** (`w` black with two black children), `x` a right child: the test of the C code succeeds, `w`
becomes red, the loop continues at the parent -/
theorem delete_step_R_case2 {st : PT} {T : ITree} {g : Path} {xp : Nat} {cp : Colour} {X : ITree} {kp vp w : Nat}
    {cw : Colour} {wl : ITree} {kw vw : Nat} {wr : ITree}
    (h : At st T g (.node xp cp (.node w cw wr kw vw wl) kp vp X)) (hwl : wl.col = .black) (hwr : wr.col = .black)
    {x : Nat} (hxp : (st.heap.get x).parent = xp) :
    ((st.heap.get (st.heap.get w).right).color = .black ∧ (st.heap.get (st.heap.get w).left).color = .black) ∧
    At { st with heap := setColor st.heap w .red } T g (.node xp cp (.node w .red wr kw vw wl) kp vp X) ∧
    ((setColor st.heap w .red).get x).parent = xp := by
  obtain ⟨rw, w0⟩ := h.get [.L] rfl
  have cl := h.col_read [.L, .R]
  have cr := h.col_read [.L, .L]
  simp only [ITree.subtree_L, ITree.subtree_R, ITree.subtree_root] at cl cr
  refine ⟨⟨by rw [rw]; simpa [hwl] using cl, by rw [rw]; simpa [hwr] using cr⟩, ?_, by rw [setColor_parent]; exact hxp⟩
  have := h.setColor [.L] rfl .red
  simpa only [ITree.replace, ITree.replace_root] using this

/-- `w`'s far child red: case 3 does nothing -/
theorem delete_step_R_case3_skip {st : PT} {T : ITree} {g : Path} {xp : Nat} {cp : Colour} {X : ITree} {kp vp w : Nat}
    {cw : Colour} {wl : ITree} {kw vw : Nat} {wr : ITree}
    (h : At st T g (.node xp cp (.node w cw wr kw vw wl) kp vp X)) (hwr : wr.col = .red) (x : Nat) :
    delCase3R st x w = (st, w) := by
  obtain ⟨rw, w0⟩ := h.get [.L] rfl
  have cr := h.col_read [.L, .L]
  simp only [ITree.subtree_L, ITree.subtree_root] at cr
  unfold delCase3R
  simp [rw, cr, hwr]

/-- **case 3** (`w` black, its far child black, its near child `l` a node — red in a red-black tree), `x` a right
child: `l` black, `w` red, rotate left at `w`; the new sibling is `l`, `x->parent` is unchanged -/
theorem delete_step_R_case3 {st : PT} {T : ITree} {g : Path} {xp : Nat} {cp : Colour} {X : ITree} {kp vp w : Nat}
    {cw : Colour} {l : Nat} {cl : Colour} {la : ITree} {kl vl : Nat} {lb : ITree} {kw vw : Nat} {wr : ITree}
    (h : At st T g (.node xp cp (.node w cw wr kw vw (.node l cl lb kl vl la)) kp vp X)) (hwr : wr.col = .black)
    {x : Nat} (hx : x = X.rid) (hxp : (st.heap.get x).parent = xp) :
    ∃ st', delCase3R st x w = (st', l) ∧
      At st' T g (.node xp cp (.node l .black (.node w .red wr kw vw lb) kl vl la) kp vp X) ∧
      (st'.heap.get x).parent = xp := by
  obtain ⟨rw, w0⟩ := h.get [.L] rfl
  obtain ⟨rl, l0⟩ := h.get [.L, .R] rfl
  obtain ⟨rp, p0⟩ := h.get [] rfl
  have cr := h.col_read [.L, .L]
  simp only [ITree.subtree_L, ITree.subtree_root] at cr
  have h1 := h.setColor [.L, .R] rfl .black
  have h2 := h1.setColor [.L] rfl .red
  simp only [ITree.replace, ITree.replace_root] at h1 h2
  have h3 := h2.rotL [.L] rfl
  simp only [ITree.replace, ITree.replace_root] at h3
  have hxp' : ((rotateLeft { st with heap := setColor (setColor st.heap l .black) w .red } w).heap.get x).parent = xp := by
    by_cases hX : X = .nil
    · subst hX; subst hx
      rw [ITree.rid_nil, h2.rotL_get0 [.L] rfl]
      show ((setColor (setColor st.heap l .black) w .red).get 0).parent = xp
      rw [setColor_parent, setColor_parent]; exact hxp
    · subst hx; exact h3.right_parent hX
  refine ⟨_, ?_, h3, hxp'⟩
  unfold delCase3R
  simp only [rw, ITree.rid_node, cr, hwr, if_true]
  rw [hxp', (h3.get [] rfl).1]
  rfl
end CC.PTree

namespace CC.PTree
open CC
open CC.Tree (Path Dir)

/-- **case 4** (`w`'s far child `r` a node — red in a red-black tree), `x` a right child: `w` takes the parent's
colour, parent and `r` black, rotate right at the parent (then `x = root` ends the loop) -/
theorem delete_step_R_case4 {st : PT} {T : ITree} {g : Path} {xp : Nat} {cp : Colour} {X : ITree} {kp vp w : Nat}
    {cw : Colour} {wl : ITree} {kw vw r : Nat} {cr : Colour} {ra : ITree} {kr vr : Nat} {rb : ITree}
    (h : At st T g (.node xp cp (.node w cw (.node r cr rb kr vr ra) kw vw wl) kp vp X))
    {x : Nat} (hxp : (st.heap.get x).parent = xp) :
    ∃ st', delCase4R st x w = st' ∧
      At st' T g (.node w cp (.node r .black rb kr vr ra) kw vw (.node xp .black wl kp vp X)) := by
  obtain ⟨rw, w0⟩ := h.get [.L] rfl
  obtain ⟨rp, p0⟩ := h.get [] rfl
  have h1 := h.setColor [.L] rfl cp
  have h2 := h1.setColor [] rfl .black
  simp only [ITree.replace, ITree.replace_root] at h1 h2
  have h3 := h2.setColor [.L, .L] rfl .black
  simp only [ITree.replace, ITree.replace_root] at h3
  have h4 := h3.rotR [] rfl
  simp only [ITree.replace_root] at h4
  refine ⟨_, ?_, h4⟩
  unfold delCase4R
  simp only [setColor_parent, setColor_left, hxp, rp, rw, ITree.rid_node]
end CC.PTree
