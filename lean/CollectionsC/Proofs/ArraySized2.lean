import CollectionsC.Proofs.ArraySized
/-! Sized array, part 2: `trim_capacity`, `reverse`, `filter_mut`, `map`, `reduce`, `sort`. -/
namespace CC.ArraySized
open CC CC.Gen

theorem off_add (dl x y : Nat) : dl * x + y * dl = (x + y) * dl := by
  rw [Nat.mul_comm dl x, Nat.add_mul]

/-! ### trim_capacity -/
/-- `trim_capacity`: capacity becomes `max size 1` and the content is untouched, or the allocator
refused and the array is exactly as before -/
theorem trimCapacity_spec (a : ArraySized) (m : Mem) (h : a.Inv) :
    ((a.trimCapacity m).1 = .ok ∧ (a.trimCapacity m).2.1.Inv ∧ (a.trimCapacity m).2.1.abs = a.abs ∧
      (a.trimCapacity m).2.1.capacity = max a.size 1 ∧ (a.trimCapacity m).2.1.size = a.size ∧
      (a.trimCapacity m).2.1.dataLen = a.dataLen ∧ (a.trimCapacity m).2.1.cfg = a.cfg ∧
      MemSame a.triple m (a.trimCapacity m).2.2) ∨
    ((a.trimCapacity m).1 = .errAlloc ∧ (a.trimCapacity m).2.1 = a ∧ MemSame a.triple m (a.trimCapacity m).2.2 ∧
      (m.allocT a.triple).1 = false) := by
  obtain ⟨j1, j2, j3, j4, j5⟩ := h
  unfold trimCapacity
  by_cases h1 : a.size = a.capacity
  · rw [if_pos h1]
    left
    exact ⟨rfl, ⟨j1, j2, j3, j4, j5⟩, rfl, by dsimp only; omega, rfl, rfl, rfl, MemSame.refl _ m⟩
  · rw [if_neg h1]
    dsimp only
    by_cases h2 : (if a.size < 1 then 1 else a.size) = a.capacity
    · rw [if_pos h2]
      left
      exact ⟨rfl, ⟨j1, j2, j3, j4, j5⟩, rfl, by dsimp only; split at h2 <;> omega, rfl, rfl, rfl, MemSame.refl _ m⟩
    · rw [if_neg h2]
      rcases Bool.eq_false_or_eq_true (m.allocT a.triple).1 with hal | hal
      · left
        rw [hal]
        simp only [Bool.not_true, Bool.false_eq_true, if_false]
        generalize hns : (if a.size < 1 then 1 else a.size) = ns at *
        have hns1 : ns = max a.size 1 ∧ a.size ≤ ns ∧ 0 < ns ∧ ns ≤ a.capacity := by
          subst hns; split <;> omega
        have hsl : a.size * a.dataLen ≤ ns * a.dataLen := slots_le hns1.2.1
        have hsl2 : a.size * a.dataLen ≤ a.buf.length := Nat.le_trans (slots_le j3) j4
        have hchk : (decide (a.size * a.dataLen ≤ (Buf.mk (ns * a.dataLen) : Buf Nat).length) &&
            decide (a.size * a.dataLen ≤ a.buf.length)) = true := by
          simp [hsl, hsl2]
        rw [hchk]
        refine ⟨trivial, ?_, ?_, hns1.1, trivial, trivial, rfl, ?_⟩
        · unfold Inv; dsimp only
          exact ⟨j1, hns1.2.2.1, hns1.2.1, by simp, Nat.le_trans (slots_le hns1.2.2.2) j5⟩
        · rw [abs_eq_elems, abs_eq_elems]
          dsimp only
          apply elems_congr
          intro k hk
          rw [chunkAt_memcpy _ _ a.dataLen 0 0 (a.size * a.dataLen) 0 0 a.size k (by simp) (by simp) rfl
            (by simp only [Buf.length_mk]; exact slot_le (by omega))]
          rw [if_pos (by omega)]
          simp
        · simpa using memSame_alloc_free m a.triple hal
      · right
        have e := allocT_false m a.triple hal
        simp only [hal, Bool.not_false, if_true]
        exact ⟨trivial, trivial, e.2, trivial⟩

/-! ### reverse -/
theorem reverseLoop_spec (dl n cap : Nat) (b0 : Buf Nat) (m : Mem) (hn : n ≤ cap) (hcap : cap * dl ≤ b0.length) :
    ∀ (f t j : Nat) (b : Buf Nat), t + f = n / 2 → j = n - 1 - t → b.length = b0.length →
      (∀ k, k < n → chunkAt dl b k = if k < t ∨ n - t ≤ k then chunkAt dl b0 (n - 1 - k) else chunkAt dl b0 k) →
      (reverseLoop dl f t j b m).2 = m ∧ (reverseLoop dl f t j b m).1.length = b0.length ∧
      (∀ k, k < n → chunkAt dl (reverseLoop dl f t j b m).1 k = chunkAt dl b0 (n - 1 - k)) := by
  intro f
  induction f with
  | zero =>
    intro t j b ht _ hl hinv
    refine ⟨rfl, hl, ?_⟩
    intro k hk
    show chunkAt dl b k = _
    rw [hinv k hk]
    split
    · rfl
    · rename_i hc
      have : n - 1 - k = k := by omega
      rw [this]
  | succ f ih =>
    intro t j b ht hj hl hinv
    have s1 : dl * t + dl ≤ b.length := by rw [hl]; exact Nat.le_trans (slot_le (by omega)) hcap
    have s2 : dl * j + dl ≤ b.length := by rw [hl]; exact Nat.le_trans (slot_le (by omega)) hcap
    unfold reverseLoop
    have c : (decide (dl * t + dl ≤ b.length) && decide (dl * j + dl ≤ b.length)) = true := by simp [s1, s2]
    rw [c]
    simp only [Mem.check_true]
    apply ih (t + 1) (j - 1) _ (by omega) (by omega) (by simpa using hl)
    intro k hk
    have sk : dl * k + dl ≤ b.length := by rw [hl]; exact Nat.le_trans (slot_le (by omega)) hcap
    rw [chunkAt_memcpy_elem _ _ dl j k (by simp) (by simpa using sk), chunkAt_memcpy_one _ _ dl t j k sk]
    by_cases ekj : k = j
    · rw [if_pos ekj, hinv t (by omega), if_neg (by omega), if_pos (by omega)]
      congr 1; omega
    · rw [if_neg ekj]
      by_cases ekt : k = t
      · rw [if_pos ekt, hinv j (by omega), if_neg (by omega), if_pos (by omega)]
        congr 1; omega
      · rw [if_neg ekt, hinv k hk]
        by_cases hc : k < t ∨ n - t ≤ k
        · rw [if_pos hc, if_pos (by omega)]
        · rw [if_neg hc, if_neg (by omega)]

theorem reverse_spec (a : ArraySized) (m : Mem) (h : a.Inv) :
    (a.reverse m).2 = m ∧ (a.reverse m).1.Inv ∧ (a.reverse m).1.abs = a.abs.reverse ∧
    (a.reverse m).1.dataLen = a.dataLen ∧ (a.reverse m).1.cfg = a.cfg ∧
    (a.reverse m).1.capacity = a.capacity ∧ (a.reverse m).1.size = a.size := by
  obtain ⟨j1, j2, j3, j4, j5⟩ := h
  unfold reverse
  by_cases h0 : a.size = 0
  · rw [if_pos h0]
    refine ⟨rfl, ⟨j1, j2, j3, j4, j5⟩, ?_, rfl, rfl, rfl, rfl⟩
    simp [abs, h0]
  · rw [if_neg h0]
    have hs := reverseLoop_spec a.dataLen a.size a.capacity a.buf m j3 j4 (a.size / 2) 0 (a.size - 1) a.buf
      (by omega) (by omega) rfl (by intro k hk; rw [if_neg (by omega)])
    refine ⟨hs.1, ⟨j1, j2, j3, by dsimp only; rw [hs.2.1]; exact j4, j5⟩, ?_, rfl, rfl, rfl, rfl⟩
    rw [abs_eq_elems, abs_eq_elems]
    dsimp only
    apply List.ext_getElem
    · simp
    · intro k hk1 hk2
      have hk : k < a.size := by simpa using hk1
      rw [elems_getElem, List.getElem_reverse, elems_getElem, hs.2.2 k hk]
      simp

/-! ### filter_mut -/
/-- loop invariant of the descending compaction loop: indices `≥ i` are processed; the first
`i + rm` elements are untouched (the last `rm` of them fail the predicate and await removal), the
next `keep` elements are the survivors of the processed part, in order -/
structure FMInv (p : List Nat → Bool) (dl n : Nat) (b0 : Buf Nat) (m : Mem) (i : Nat) (s : FM) : Prop where
  size_eq : s.size = i + s.rm + s.keep
  size_le : s.size ≤ n
  len : s.buf.length = b0.length
  pre : ∀ k, k < i + s.rm → chunkAt dl s.buf k = chunkAt dl b0 k
  pend : ∀ k, i ≤ k → k < i + s.rm → p (chunkAt dl b0 k) = false
  keepLen : s.keep = (((elems dl b0 n).drop i).filter p).length
  kept : ∀ t, t < s.keep → some (chunkAt dl s.buf (i + s.rm + t)) = (((elems dl b0 n).drop i).filter p)[t]?
  mem : s.mem = m
  log : s.log = ((elems dl b0 n).drop i).reverse

theorem filterMutLoop_spec (p : List Nat → Bool) (dl n cap : Nat) (b0 : Buf Nat) (m : Mem)
    (hn : n ≤ cap) (hcap : cap * dl ≤ b0.length) :
    ∀ (i : Nat) (s : FM), i ≤ n → FMInv p dl n b0 m i s → FMInv p dl n b0 m 0 (filterMutLoop p dl i s) := by
  intro i
  induction i with
  | zero => intro s _ hs; exact hs
  | succ i ih =>
    intro s hi hs
    have hL : (elems dl b0 n).drop i = chunkAt dl b0 i :: (elems dl b0 n).drop (i + 1) := by
      rw [List.drop_eq_getElem_cons (by simp; omega), elems_getElem]
    have hc : chunkAt dl s.buf i = chunkAt dl b0 i := hs.pre i (by omega)
    have slot : ∀ k, k < n → dl * k + dl ≤ s.buf.length := by
      intro k hk; rw [hs.len]; exact Nat.le_trans (slot_le (by omega)) hcap
    unfold filterMutLoop
    dsimp only
    rw [decide_eq_true (slot i (by omega)), hs.mem, hc]
    simp only [Mem.check_true]
    by_cases hp : p (chunkAt dl b0 i) = true
    · have hnp : (!p (chunkAt dl b0 i)) = false := by simp [hp]
      rw [hnp]
      simp only [Bool.false_eq_true, if_false]
      have hF : ((elems dl b0 n).drop i).filter p = chunkAt dl b0 i :: ((elems dl b0 n).drop (i + 1)).filter p := by
        rw [hL, List.filter_cons_of_pos hp]
      by_cases hrm : s.rm > 0
      · rw [if_pos hrm]
        by_cases hkp : s.keep > 0
        · rw [if_pos hkp]
          have hsz := hs.size_eq
          have hle := hs.size_le
          have c1 : dl * (i + 1) + s.keep * dl ≤ s.buf.length := by
            rw [off_add, hs.len]; exact Nat.le_trans (slots_le (by omega)) hcap
          have c2 : dl * (i + 1 + s.rm) + s.keep * dl ≤ s.buf.length := by
            rw [off_add, hs.len]; exact Nat.le_trans (slots_le (by omega)) hcap
          have c : (decide (dl * (i + 1) + s.keep * dl ≤ s.buf.length) &&
              decide (dl * (i + 1 + s.rm) + s.keep * dl ≤ s.buf.length)) = true := by simp [c1, c2]
          rw [c]
          apply ih _ (by omega)
          have mv : ∀ k, k < n → chunkAt dl (s.buf.memmove (dl * (i + 1)) (dl * (i + 1 + s.rm)) (s.keep * dl)) k =
              if i + 1 ≤ k ∧ k < i + 1 + s.keep then chunkAt dl s.buf (k - (i + 1) + (i + 1 + s.rm)) else chunkAt dl s.buf k :=
            fun k hk => chunkAt_memmove s.buf dl _ _ _ (i + 1) (i + 1 + s.rm) s.keep k rfl rfl rfl (slot k hk)
          constructor
          · dsimp only; omega
          · dsimp only; omega
          · simpa using hs.len
          · intro k hk
            dsimp only at hk ⊢
            rw [mv k (by omega), if_neg (by omega)]
            exact hs.pre k (by omega)
          · intro k h1 h2; dsimp only at h2; omega
          · dsimp only; rw [hF, List.length_cons, ← hs.keepLen]
          · intro t ht
            dsimp only at ht ⊢
            rw [hF, mv _ (by omega)]
            cases t with
            | zero => rw [if_neg (by omega)]; simp [hc]
            | succ t =>
              rw [if_pos (by omega), List.getElem?_cons_succ, ← hs.kept t (by omega)]
              congr 2; omega
          · rfl
          · dsimp only; rw [hs.log, hL, List.reverse_cons]
        · rw [if_neg hkp]
          have hk0 : s.keep = 0 := by omega
          apply ih _ (by omega)
          have hsz := hs.size_eq
          have hle := hs.size_le
          constructor
          · dsimp only; omega
          · dsimp only; omega
          · exact hs.len
          · intro k hk
            dsimp only at hk ⊢
            exact hs.pre k (by omega)
          · intro k h1 h2; dsimp only at h2; omega
          · dsimp only; rw [hF, List.length_cons, ← hs.keepLen]
          · intro t ht
            dsimp only at ht ⊢
            have : t = 0 := by omega
            subst this
            rw [hF]; simp [hc]
          · rfl
          · dsimp only; rw [hs.log, hL, List.reverse_cons]
      · rw [if_neg hrm]
        have hr0 : s.rm = 0 := by omega
        apply ih _ (by omega)
        have hsz := hs.size_eq
        have hle := hs.size_le
        constructor
        · dsimp only; omega
        · exact hle
        · exact hs.len
        · intro k hk
          dsimp only at hk ⊢
          exact hs.pre k (by omega)
        · intro k h1 h2; dsimp only at h2; omega
        · dsimp only; rw [hF, List.length_cons, ← hs.keepLen]
        · intro t ht
          dsimp only at ht ⊢
          rw [hF]
          cases t with
          | zero => simp [hr0, hc]
          | succ t =>
            rw [List.getElem?_cons_succ, ← hs.kept t (by omega)]
            congr 2; omega
        · rfl
        · dsimp only; rw [hs.log, hL, List.reverse_cons]
    · have hpf : p (chunkAt dl b0 i) = false := by simpa using hp
      have hnp : (!p (chunkAt dl b0 i)) = true := by simp [hpf]
      rw [hnp]
      simp only [if_true]
      have hF : ((elems dl b0 n).drop i).filter p = ((elems dl b0 n).drop (i + 1)).filter p := by
        rw [hL, List.filter_cons_of_neg (by simp [hpf])]
      apply ih _ (by omega)
      have hsz := hs.size_eq
      constructor
      · dsimp only; omega
      · exact hs.size_le
      · exact hs.len
      · intro k hk
        dsimp only at hk ⊢
        exact hs.pre k (by omega)
      · intro k h1 h2
        dsimp only at h2
        by_cases ek : k = i
        · subst ek; exact hpf
        · exact hs.pend k (by omega) (by omega)
      · dsimp only; rw [hF, ← hs.keepLen]
      · intro t ht
        dsimp only at ht ⊢
        rw [hF, ← hs.kept t ht]
        congr 2; omega
      · rfl
      · dsimp only; rw [hs.log, hL, List.reverse_cons]

/-- `filter_mut` on a non-empty array keeps exactly the elements satisfying the predicate, in
order; the predicate is shown every element once, last to first -/
theorem filterMut_spec (a : ArraySized) (p : List Nat → Bool) (m : Mem) (h : a.Inv) (h0 : 0 < a.size) :
    (a.filterMut p m).1 = .ok ∧ (a.filterMut p m).2.1 = a.abs.reverse ∧ (a.filterMut p m).2.2.2 = m ∧
    (a.filterMut p m).2.2.1.Inv ∧ (a.filterMut p m).2.2.1.abs = a.abs.filter p ∧
    (a.filterMut p m).2.2.1.dataLen = a.dataLen ∧ (a.filterMut p m).2.2.1.cfg = a.cfg ∧
    (a.filterMut p m).2.2.1.capacity = a.capacity := by
  obtain ⟨j1, j2, j3, j4, j5⟩ := h
  have hs := filterMutLoop_spec p a.dataLen a.size a.capacity a.buf m j3 j4 a.size
    { rm := 0, keep := 0, size := a.size, buf := a.buf, mem := m, log := [] } (Nat.le_refl _)
    { size_eq := by dsimp only; omega, size_le := Nat.le_refl _, len := rfl, pre := fun _ _ => rfl,
      pend := by intro k h1 h2; dsimp only at h2; omega,
      keepLen := by rw [List.drop_of_length_le (by simp)]; rfl,
      kept := by intro t ht; dsimp only at ht; omega, mem := rfl,
      log := by rw [List.drop_of_length_le (by simp)]; rfl }
  unfold filterMut
  rw [if_neg (by omega)]
  dsimp only
  generalize filterMutLoop p a.dataLen a.size
    { rm := 0, keep := 0, size := a.size, buf := a.buf, mem := m, log := [] } = s at *
  have hsz := hs.size_eq
  have hle := hs.size_le
  have hlog : s.log = a.abs.reverse := by rw [hs.log, abs_eq_elems]; simp
  have hK : ∀ t, t < s.keep → some (chunkAt a.dataLen s.buf (s.rm + t)) = (a.abs.filter p)[t]? := by
    intro t ht
    have := hs.kept t ht
    simpa [abs_eq_elems] using this
  have hKl : s.keep = (a.abs.filter p).length := by
    have := hs.keepLen; simpa [abs_eq_elems] using this
  by_cases hrm : s.rm > 0
  · rw [if_pos hrm]
    have c1 : a.dataLen * 0 + s.keep * a.dataLen ≤ s.buf.length := by
      rw [off_add, hs.len]; exact Nat.le_trans (slots_le (by omega)) j4
    have c2 : a.dataLen * s.rm + s.keep * a.dataLen ≤ s.buf.length := by
      rw [off_add, hs.len]; exact Nat.le_trans (slots_le (by omega)) j4
    have c : (decide (a.dataLen * 0 + s.keep * a.dataLen ≤ s.buf.length) &&
        decide (a.dataLen * s.rm + s.keep * a.dataLen ≤ s.buf.length)) = true := by simp only [c1, c2]; simp
    rw [c, hs.mem]
    refine ⟨rfl, hlog, rfl, ⟨j1, j2, by dsimp only; omega, by simpa [hs.len] using j4, j5⟩, ?_, rfl, rfl, rfl⟩
    rw [abs_eq_elems]
    dsimp only
    apply List.ext_getElem?
    intro t
    rw [elems_getElem?]
    by_cases ht : t < s.size - s.rm
    · rw [if_pos ht, ← hK t (by omega)]
      rw [chunkAt_memmove s.buf a.dataLen _ _ _ 0 s.rm s.keep t rfl rfl rfl
        (by rw [hs.len]; exact Nat.le_trans (slot_le (by omega)) j4), if_pos (by omega)]
      congr 2; omega
    · rw [if_neg ht, List.getElem?_eq_none (by omega)]
  · rw [if_neg hrm, hs.mem]
    refine ⟨rfl, hlog, rfl, ⟨j1, j2, by dsimp only; omega, by simpa [hs.len] using j4, j5⟩, ?_, rfl, rfl, rfl⟩
    rw [abs_eq_elems]
    dsimp only
    apply List.ext_getElem?
    intro t
    rw [elems_getElem?]
    by_cases ht : t < s.size
    · rw [if_pos ht, ← hK t (by omega)]
      congr 2; omega
    · rw [if_neg ht, List.getElem?_eq_none (by omega)]

theorem filterMut_inert (a : ArraySized) (p : List Nat → Bool) (m : Mem) (h0 : a.size = 0) :
    a.filterMut p m = (.errOutOfRange, [], a, m) := by
  unfold filterMut; rw [if_pos h0]

/-! ### map -/
theorem mapLoop_spec (fn : List Nat → List Nat) (dl n cap : Nat) (b0 : Buf Nat) (m : Mem)
    (hf : ∀ c : List Nat, c.length = dl → (fn c).length = dl) (hn : n ≤ cap) (hcap : cap * dl ≤ b0.length) :
    ∀ (f i : Nat) (b : Buf Nat) (log : List (List Nat)), i + f = n → b.length = b0.length →
      (∀ k, k < n → chunkAt dl b k = if k < i then fn (chunkAt dl b0 k) else chunkAt dl b0 k) →
      log = elems dl b0 i →
      (mapLoop fn dl f i b m log).2.1 = m ∧ (mapLoop fn dl f i b m log).2.2 = elems dl b0 n ∧
      (mapLoop fn dl f i b m log).1.length = b0.length ∧
      (∀ k, k < n → chunkAt dl (mapLoop fn dl f i b m log).1 k = fn (chunkAt dl b0 k)) := by
  intro f
  induction f with
  | zero =>
    intro i b log hi hl hinv hlog
    have : i = n := by omega
    subst this
    refine ⟨rfl, hlog, hl, ?_⟩
    intro k hk
    show chunkAt dl b k = _
    rw [hinv k hk, if_pos hk]
  | succ f ih =>
    intro i b log hi hl hinv hlog
    have s1 : ∀ k, k < n → dl * k + dl ≤ b.length := by
      intro k hk; rw [hl]; exact Nat.le_trans (slot_le (by omega)) hcap
    unfold mapLoop
    rw [decide_eq_true (s1 i (by omega))]
    simp only [Mem.check_true]
    have hci : chunkAt dl b i = chunkAt dl b0 i := by rw [hinv i (by omega), if_neg (by omega)]
    apply ih (i + 1) _ _ (by omega) (by simpa using hl)
    · intro k hk
      rw [chunkAt_memcpy_elem _ _ dl i k (hf _ (by simp)) (s1 k hk)]
      by_cases ek : k = i
      · subst ek; rw [if_pos rfl, if_pos (by omega), hci]
      · rw [if_neg ek, hinv k hk]
        by_cases hki : k < i
        · rw [if_pos hki, if_pos (by omega)]
        · rw [if_neg hki, if_neg (by omega)]
    · rw [elems_succ, hlog, hci]

/-- `map`: `fn` is applied to every element in place, in index order (`fn` must leave the element
size alone — it only gets a pointer to `data_length` bytes) -/
theorem map_spec (a : ArraySized) (fn : List Nat → List Nat) (m : Mem) (h : a.Inv)
    (hf : ∀ c : List Nat, c.length = a.dataLen → (fn c).length = a.dataLen) :
    (a.map fn m).1 = a.abs ∧ (a.map fn m).2.2 = m ∧ (a.map fn m).2.1.Inv ∧
    (a.map fn m).2.1.abs = a.abs.map fn ∧
    (a.map fn m).2.1.dataLen = a.dataLen ∧ (a.map fn m).2.1.cfg = a.cfg ∧
    (a.map fn m).2.1.capacity = a.capacity := by
  obtain ⟨j1, j2, j3, j4, j5⟩ := h
  have hs := mapLoop_spec fn a.dataLen a.size a.capacity a.buf m hf j3 j4 a.size 0 a.buf [] (by omega) rfl
    (by intro k _; rw [if_neg (by omega)]) (by simp [elems])
  unfold map
  refine ⟨hs.2.1, hs.1, ⟨j1, j2, j3, by dsimp only; rw [hs.2.2.1]; exact j4, j5⟩, ?_, rfl, rfl, rfl⟩
  rw [abs_eq_elems, abs_eq_elems]
  dsimp only
  apply List.ext_getElem
  · simp
  · intro k hk1 hk2
    have hk : k < a.size := by simpa using hk1
    rw [elems_getElem, List.getElem_map, elems_getElem, hs.2.2.2 k hk]

/-! ### reduce -/
theorem reduceLoop_spec (a : ArraySized) (fn : List Nat → Option (List Nat) → List Nat → List Nat) (m : Mem)
    (h : a.Inv) :
    ∀ (f i : Nat) (r : List Nat) (log : List (List Nat × Option (List Nat))), i + f ≤ a.capacity →
      a.reduceLoop fn f i r m log =
        (((a.elemsFrom i f).foldl (fun s x => (s.1 ++ [(s.2, some x)], fn s.2 (some x) s.2)) (log, r)).2, m,
         ((a.elemsFrom i f).foldl (fun s x => (s.1 ++ [(s.2, some x)], fn s.2 (some x) s.2)) (log, r)).1) := by
  intro f
  induction f with
  | zero => intro i r log _; simp [reduceLoop, elemsFrom]
  | succ f ih =>
    intro i r log hi
    unfold reduceLoop
    rw [decide_eq_true (slot_in a h i (by omega))]
    simp only [Mem.check_true]
    rw [ih (i + 1) _ _ (by omega)]
    simp [elemsFrom, List.range'_succ]

theorem reduce_spec (a : ArraySized) (fn : List Nat → Option (List Nat) → List Nat → List Nat)
    (r0 : List Nat) (m : Mem) (h : a.Inv) :
    a.reduce fn r0 m = ((Spec.SSeq.reduce fn a.abs r0).2, (Spec.SSeq.reduce fn a.abs r0).1, m) := by
  have hsz := h.2.2.1
  unfold reduce
  by_cases h1 : a.size = 1
  · rw [if_pos h1, decide_eq_true (slot_in a h 0 (by omega))]
    have : a.abs = [a.chunk 0] := by simp [abs, h1, List.range_succ]
    rw [this]; rfl
  · rw [if_neg h1]
    by_cases h2 : a.size > 1
    · rw [if_pos h2, decide_eq_true (slot_in a h 1 (by omega))]
      dsimp only
      simp only [Mem.check_true]
      rw [reduceLoop_spec a fn m h _ _ _ _ (by omega)]
      have : a.abs = a.chunk 0 :: a.chunk 1 :: a.elemsFrom 2 (a.size - 2) := by
        rw [abs_eq_elemsFrom]
        obtain ⟨n, hn⟩ : ∃ n, a.size = n + 2 := ⟨a.size - 2, by omega⟩
        rw [hn]; simp [elemsFrom, List.range'_succ]
      rw [this]; rfl
    · rw [if_neg h2]
      have h0 : a.size = 0 := by omega
      have : a.abs = [] := by simp [abs, h0]
      rw [this, h0]; rfl

/-! ### sort -/
theorem writeAll_spec (dl cap : Nat) :
    ∀ (L : List (List Nat)) (i : Nat) (b : Buf Nat), (∀ c ∈ L, c.length = dl) → i + L.length ≤ cap →
      cap * dl ≤ b.length →
      (writeAll dl L i b).length = b.length ∧
      (∀ k, k < cap → chunkAt dl (writeAll dl L i b) k =
        if i ≤ k ∧ k < i + L.length then L.getD (k - i) [] else chunkAt dl b k) := by
  intro L
  induction L with
  | nil => intro i b _ _ _; refine ⟨rfl, ?_⟩; intro k _; rw [if_neg (by simp)]; rfl
  | cons c cs ih =>
    intro i b hl hi hcap
    unfold writeAll
    have := ih (i + 1) (b.memcpy (dl * i) c 0 dl) (fun x hx => hl x (List.mem_cons_of_mem _ hx))
      (by simp at hi; omega) (by simpa using hcap)
    refine ⟨by rw [this.1]; simp, ?_⟩
    intro k hk
    rw [this.2 k hk]
    have sk : dl * k + dl ≤ b.length := Nat.le_trans (slot_le hk) hcap
    by_cases h1 : i + 1 ≤ k ∧ k < i + 1 + cs.length
    · rw [if_pos h1, if_pos (by simp; omega)]
      have : k - i = (k - (i + 1)) + 1 := by omega
      rw [this]; simp
    · rw [if_neg h1, chunkAt_memcpy_elem _ _ dl i k (hl c (List.mem_cons_self ..)) sk]
      by_cases ek : k = i
      · subst ek; rw [if_pos rfl, if_pos (by simp)]; simp
      · rw [if_neg ek, if_neg (by simp; omega)]

/-- `sort`: the content becomes `sortFn abs`, for every `sortFn` that returns a rearrangement of
its input (the part of the `qsort` contract needed for the array to stay well-formed); only the first
`size` records are written — every byte at or above `size * data_length` (dead slots) is untouched —
and the checked access stays inside the buffer -/
theorem sort_spec (a : ArraySized) (sortFn : List (List Nat) → List (List Nat)) (m : Mem) (h : a.Inv)
    (hperm : (sortFn a.abs).Perm a.abs) :
    (a.sort sortFn m).1.Inv ∧ (a.sort sortFn m).1.abs = sortFn a.abs ∧
    (a.sort sortFn m).1.dataLen = a.dataLen ∧ (a.sort sortFn m).1.cfg = a.cfg ∧
    (a.sort sortFn m).1.capacity = a.capacity ∧ (a.sort sortFn m).1.size = a.size ∧ (a.sort sortFn m).2 = m ∧
    (∀ k, a.size ≤ k → k < a.capacity → (a.sort sortFn m).1.chunk k = a.chunk k) := by
  obtain ⟨j1, j2, j3, j4, j5⟩ := h
  have hlen : (sortFn a.abs).length = a.size := by rw [hperm.length_eq, abs_length]
  have hall : ∀ c ∈ sortFn a.abs, c.length = a.dataLen := by
    intro c hc
    exact elems_all_length a.dataLen a.buf a.size c ((hperm.mem_iff).1 hc)
  have hs := writeAll_spec a.dataLen a.capacity (sortFn a.abs) 0 a.buf hall (by omega) j4
  have hchk : decide (a.size * a.dataLen ≤ a.buf.length) = true :=
    decide_eq_true (Nat.le_trans (slots_le j3) j4)
  unfold sort
  rw [hchk]
  refine ⟨⟨j1, j2, j3, by dsimp only; rw [hs.1]; exact j4, j5⟩, ?_, rfl, rfl, rfl, rfl, rfl, ?_⟩
  · rw [abs_eq_elems]
    dsimp only
    apply List.ext_getElem
    · simp [hlen]
    · intro k hk1 hk2
      have hk : k < a.size := by simpa using hk1
      rw [elems_getElem, hs.2 k (by omega), if_pos (by omega)]
      simp [List.getD_eq_getElem?_getD, hk2]
  · intro k hk1 hk2
    show chunkAt a.dataLen _ k = chunkAt a.dataLen a.buf k
    rw [hs.2 k hk2, if_neg (by omega)]
