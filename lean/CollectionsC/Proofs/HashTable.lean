import CollectionsC.Proofs.HashTableBase
/-! Theorems about the hash-table model (`Model/HashTable.lean`): lookup, removal, resizing and
insertion, for every hash function, threshold function and key. -/
set_option maxHeartbeats 800000
namespace CC.HashTable
open CC CC.HT CC.Spec

/-- key/value pair of an entry -/
def pair (e : Entry) : Key × Nat := (e.key, e.value)

theorem abs_eq (t : HashTable) : t.abs = t.buckets.flatten.map pair := rfl

theorem lookup_map_pair (l : List Entry) (k : Key) :
    Map.lookup (l.map pair) k = (l.find? (fun e => e.key == k)).map (·.value) := by
  unfold Map.lookup
  rw [List.find?_map]
  simp only [Option.map_map]
  rfl

theorem keys_map_pair (l : List Entry) : Map.keys (l.map pair) = l.map (·.key) := by
  unfold Map.keys; rw [List.map_map]; rfl

/-- bucket index of a key in a table whose capacity is a power of two -/
theorem index_lt (t : HashTable) (h : Nat) (hc : ∃ k, k < 32 ∧ t.capacity = 2 ^ k) : t.index h < t.capacity := by
  rw [index_eq_mod t h hc]; exact Nat.mod_lt _ (cap_pos t hc)

/-- entries with the key `key` live only in bucket `hash key % capacity` -/
theorem loc (c : HCfg) (t : HashTable)
    (hok : ∀ j, j < t.buckets.length → chainOk c t.capacity j (t.bucket j)) (key : Key) (i : Nat)
    (hi : i = keyHash c key % t.capacity) :
    (∀ e ∈ (t.buckets.take i).flatten, e.key ≠ key) ∧ (∀ e ∈ (t.buckets.drop (i + 1)).flatten, e.key ≠ key) := by
  constructor
  · intro e he hk
    obtain ⟨j, hj1, hj2, hj3⟩ := mem_take_flatten _ _ _ he
    obtain ⟨h1, h2⟩ := hok j hj2 e hj3
    rw [hk] at h1; rw [h1] at h2; omega
  · intro e he hk
    obtain ⟨j, hj1, hj2, hj3⟩ := mem_drop_flatten _ _ _ he
    obtain ⟨h1, h2⟩ := hok j hj2 e hj3
    rw [hk] at h1; rw [h1] at h2; omega

theorem find_flat (c : HCfg) (t : HashTable) (hcap : ∃ k, k < 32 ∧ t.capacity = 2 ^ k)
    (hlen : t.buckets.length = t.capacity)
    (hok : ∀ j, j < t.buckets.length → chainOk c t.capacity j (t.bucket j)) (key : Key) :
    t.buckets.flatten.find? (fun e => e.key == key) =
      (t.bucket (t.index (keyHash c key))).find? (fun e => e.key == key) := by
  have hi := index_lt t (keyHash c key) hcap
  have him := index_eq_mod t (keyHash c key) hcap
  obtain ⟨hA, hB⟩ := loc c t hok key _ him
  rw [flat_split t.buckets _ (by omega : t.index (keyHash c key) < t.buckets.length)]
  rw [List.find?_append, find_eq_none_of_ne key _ hA, List.find?_append, find_eq_none_of_ne key _ hB]
  unfold bucket; rw [getD_eq_getElem _ _ (by omega)]
  simp

/-- `cc_hashtable_get` is the ideal lookup; it changes neither the table nor the ledger -/
theorem get_refines (c : HCfg) (t : HashTable) (key : Key) (m : Mem) (h : t.Inv c) :
    (t.get c key m).2.1 = Map.lookup t.abs key ∧
    (t.get c key m).1 = (if (Map.lookup t.abs key).isSome then .ok else .errKeyNotFound) ∧
    (t.get c key m).2.2 = m := by
  obtain ⟨hcap, hlen, hsize, hok, hnd, hthr⟩ := h
  have hi := index_lt t (keyHash c key) hcap
  have hchk : decide (t.index (keyHash c key) < t.buckets.length) = true := by simp; omega
  rw [abs_eq, lookup_map_pair, find_flat c t hcap hlen hok key]
  unfold get chainFind
  simp only [hchk, Mem.check_true]
  cases (t.bucket (t.index (keyHash c key))).find? (fun e => e.key == key) <;> simp

theorem erase_map_pair (l : List Entry) (k : Key) :
    Map.erase (l.map pair) k = (l.filter (fun e => e.key != k)).map pair := by
  unfold Map.erase; rw [List.filter_map]; rfl

theorem decWrap_pos (n : Nat) (h : 0 < n) : decWrap n = n - 1 := by
  unfold decWrap; rw [if_neg (by omega)]

/-- the chain of one bucket has pairwise distinct keys when the whole table has -/
theorem nodup_bucket (bs : List (List Entry)) (i : Nat) (hi : i < bs.length)
    (hnd : (bs.flatten.map (·.key)).Nodup) : (bs[i].map (·.key)).Nodup := by
  rw [flat_split bs i hi] at hnd
  simp only [List.map_append] at hnd
  exact (List.nodup_append.mp (List.nodup_append.mp hnd).2.1).1

/-- `cc_hashtable_remove`: refinement, invariant, inertness when the key is absent, ledger -/
theorem remove_spec (c : HCfg) (t : HashTable) (key : Key) (m : Mem) (h : t.Inv c)
    (hl : (Map.lookup t.abs key).isSome = true → 0 < liveOf m t.triple) :
    (t.remove c key m).2.2.1.Inv c ∧
    (t.remove c key m).2.2.1.abs = Map.erase t.abs key ∧
    (t.remove c key m).2.1 = Map.lookup t.abs key ∧
    (t.remove c key m).1 = (if (Map.lookup t.abs key).isSome then .ok else .errKeyNotFound) ∧
    ((t.remove c key m).1 ≠ .ok → (t.remove c key m).2.2.1 = t ∧ (t.remove c key m).2.2.2 = m) ∧
    ((t.remove c key m).1 = .ok → liveOf (t.remove c key m).2.2.2 t.triple = liveOf m t.triple - 1 ∧
        (t.remove c key m).2.2.1.size + 1 = t.size) ∧
    (t.remove c key m).2.2.2.fault = m.fault ∧
    (t.remove c key m).2.2.1.capacity = t.capacity ∧ (t.remove c key m).2.2.1.threshold = t.threshold ∧
    (t.remove c key m).2.2.1.triple = t.triple := by
  have hinv := h
  obtain ⟨hcap, hlen, hsize, hok, hnd, hthr⟩ := h
  have hi := index_lt t (keyHash c key) hcap
  have hi' : t.index (keyHash c key) < t.buckets.length := by omega
  have him := index_eq_mod t (keyHash c key) hcap
  obtain ⟨hA, hB⟩ := loc c t hok key _ him
  have hchk : decide (t.index (keyHash c key) < t.buckets.length) = true := by simp; omega
  have hlk : Map.lookup t.abs key = (chainRemove (t.bucket (t.index (keyHash c key))) key).map (·.1) := by
    rw [abs_eq, lookup_map_pair, find_flat c t hcap hlen hok key, chainRemove_find]
  have hbk : t.bucket (t.index (keyHash c key)) = t.buckets[t.index (keyHash c key)] := getD_eq_getElem _ _ hi'
  unfold remove
  simp only [hchk, Mem.check_true]
  rw [hlk]
  cases hr : chainRemove (t.bucket (t.index (keyHash c key))) key with
  | none =>
    have hX := (chainRemove_eq_none _ _).mp hr
    have hall : ∀ e ∈ t.buckets.flatten, e.key ≠ key := by
      intro e he
      rw [flat_split t.buckets _ hi'] at he
      rcases List.mem_append.mp he with h1 | h1
      · exact hA e h1
      · rcases List.mem_append.mp h1 with h2 | h2
        · exact hX e (by rw [hbk]; exact h2)
        · exact hB e h2
    refine ⟨hinv, ?_, by simp, by simp, by simp, by simp, rfl, rfl, rfl, rfl⟩
    rw [abs_eq, erase_map_pair, filter_of_ne key _ hall]
  | some r =>
    obtain ⟨v, ch'⟩ := r
    have hndX := nodup_bucket t.buckets _ hi' hnd
    rw [← hbk] at hndX
    obtain ⟨hch, e, heX, hek, hev⟩ := chainRemove_eq_some _ key v ch' hndX hr
    have hlenX := chainRemove_length _ key v ch' hr
    have hflat' : (t.buckets.set (t.index (keyHash c key)) ch').flatten = t.buckets.flatten.filter (fun e => e.key != key) := by
      rw [flat_set _ _ _ hi']
      conv => rhs; rw [flat_split t.buckets _ hi']
      rw [List.filter_append, List.filter_append, filter_of_ne key _ hA, filter_of_ne key _ hB, hch, hbk]
    have hlen' : t.buckets.flatten.length = (t.buckets.set (t.index (keyHash c key)) ch').flatten.length + 1 := by
      rw [flat_set _ _ _ hi', flat_split t.buckets _ hi']
      simp only [List.length_append]
      rw [← hbk]; omega
    have hfr := freeT_spec m t.triple (hl (by rw [hlk, hr]; rfl))
    simp only
    refine ⟨⟨hcap, by simpa using hlen, ?_, ?_, ?_, hthr⟩, ?_, by simp, by simp, by simp, ?_, hfr.2.1, trivial, trivial, trivial⟩
    · simp only; rw [decWrap_pos _ (by omega)]; omega
    · intro j hj
      simp only [List.length_set] at hj
      unfold bucket; simp only
      rw [getD_set _ _ _ _ hi']
      split
      · rename_i hij
        intro x hx
        rw [hch] at hx
        have := hok _ hi' x (List.mem_filter.mp hx).1
        rw [← hij]; exact this
      · exact hok j hj
    · simp only; rw [hflat']
      exact (List.filter_sublist.map _).nodup hnd
    · unfold abs; simp only; rw [hflat']; exact (erase_map_pair _ _).symm
    · intro _
      refine ⟨hfr.1, ?_⟩
      rw [decWrap_pos _ (by omega)]; omega



theorem perm_cons_set (d : List (List Entry)) (i : Nat) (e : Entry) (hi : i < d.length) :
    (d.set i (e :: d.getD i [])).flatten.Perm (e :: d.flatten) := by
  rw [flat_set _ _ _ hi, getD_eq_getElem _ _ hi]
  conv => rhs; rw [flat_split d i hi]
  simp only [List.cons_append]
  exact List.perm_middle

theorem moveEntries_spec (es : List Entry) (d : List (List Entry)) (n : Nat)
    (hd : d.length = n) (hmask : ∀ h : Nat, h &&& (n - 1) < n) :
    (moveEntries es d n).length = n ∧ (moveEntries es d n).flatten.Perm (es ++ d.flatten) ∧
    ∀ j x, x ∈ (moveEntries es d n).getD j [] → (x ∈ d.getD j [] ∨ (x ∈ es ∧ x.hash &&& (n - 1) = j)) := by
  induction es generalizing d with
  | nil => exact ⟨hd, by simp [moveEntries], fun j x hx => Or.inl hx⟩
  | cons e es ih =>
    have hi : e.hash &&& (n - 1) < d.length := by rw [hd]; exact hmask _
    have hstep : moveEntries (e :: es) d n = moveEntries es (d.set (e.hash &&& (n - 1)) (e :: d.getD (e.hash &&& (n - 1)) [])) n := by
      simp [moveEntries]
    obtain ⟨h1, h2, h3⟩ := ih (d.set (e.hash &&& (n - 1)) (e :: d.getD (e.hash &&& (n - 1)) [])) (by simpa using hd)
    rw [hstep]
    refine ⟨h1, ?_, ?_⟩
    · refine h2.trans ?_
      refine ((perm_cons_set d _ e hi).append_left es).trans ?_
      simp only [List.cons_append]
      exact List.perm_middle
    · intro j x hx
      rcases h3 j x hx with h | h
      · rw [getD_set _ _ _ _ hi] at h
        split at h
        · rename_i hij
          rcases List.mem_cons.mp h with h | h
          · right; exact ⟨by simp [h], by rw [h]; exact hij⟩
          · left; rw [← hij]; exact h
        · left; exact h
      · right; exact ⟨by simp [h.1], h.2⟩

theorem walk_eq (t : HashTable) (hlen : t.buckets.length = t.capacity) : t.walk = t.buckets.flatten := by
  unfold walk; rw [List.take_of_length_le (by omega)]

/-- every entry of a table satisfying the invariant carries the hash of its key -/
theorem hash_of_mem (c : HCfg) (t : HashTable)
    (hok : ∀ j, j < t.buckets.length → chainOk c t.capacity j (t.bucket j)) (e : Entry) (he : e ∈ t.buckets.flatten) :
    e.hash = keyHash c e.key := by
  obtain ⟨j, hj, hm⟩ := mem_flatten_getD _ _ he
  exact (hok j hj e hm).1

/-- `resize` to twice the capacity: either refused (nothing changes) or the same map in a table
that again satisfies the invariant -/
theorem resize_spec (c : HCfg) (t : HashTable) (m : Mem) (h : t.Inv c) (hmax : t.capacity ≠ Gen.MAX_POW_TWO) :
    let r := t.resize c (t.capacity <<< 1) m
    ((m.allocT t.triple).1 = false → r = (.errAlloc, t, (m.allocT t.triple).2)) ∧
    ((m.allocT t.triple).1 = true → r.1 = .ok ∧ r.2.1.Inv c ∧ r.2.1.abs.Perm t.abs ∧ r.2.1.size = t.size ∧
       r.2.1.capacity = 2 * t.capacity ∧ liveOf r.2.2 t.triple = liveOf m t.triple ∧ r.2.2.fault = m.fault ∧
       r.2.2.sched = (m.allocT t.triple).2.sched ∧ r.2.1.triple = t.triple) := by
  obtain ⟨hcap, hlen, hsize, hok, hnd, hthr⟩ := h
  obtain ⟨k, hk, hck⟩ := hcap
  have hsh : t.capacity <<< 1 = 2 ^ (k + 1) := by
    have : t.capacity <<< 1 = t.capacity * 2 := by simp [Nat.shiftLeft_eq]
    rw [this, hck]; exact (Nat.pow_succ ..).symm
  have hk31 : k ≠ 31 := by
    intro h31; apply hmax; rw [hck, h31]; rfl
  have hmask : ∀ h : Nat, h &&& (2 ^ (k + 1) - 1) < 2 ^ (k + 1) := by
    intro h; rw [mask_eq_mod]; exact Nat.mod_lt _ (Nat.two_pow_pos _)
  intro r
  constructor
  · intro ha
    simp only [r, resize, hmax, if_false, ha]; rfl
  · intro ha
    have hal := allocT_true m t.triple ha
    obtain ⟨m1, m2, m3⟩ := moveEntries_spec t.buckets.flatten (List.replicate (2 ^ (k + 1)) []) (2 ^ (k + 1)) (by simp) hmask
    have hall : (t.walk.all fun e => decide (e.hash &&& (t.capacity <<< 1 - 1) < t.capacity <<< 1)) = true := by
      rw [List.all_eq_true]; intro e _; rw [hsh]; simpa using hmask e.hash
    have hchk : (decide (t.capacity ≤ t.buckets.length) && t.walk.all fun e => decide (e.hash &&& (t.capacity <<< 1 - 1) < t.capacity <<< 1)) = true := by
      rw [hall]; simp; omega
    have hfr := freeT_spec (m.allocT t.triple).2 t.triple (by omega)
    have hfl : (List.replicate (2 ^ (k + 1)) ([] : List Entry)).flatten = [] := by simp
    rw [hfl, List.append_nil] at m2
    simp only [r, resize, hmax, if_false, ha, Bool.not_true, Bool.false_eq_true, hchk, Mem.check_true]
    rw [walk_eq t hlen, hsh]
    refine ⟨trivial, ⟨⟨k + 1, by omega, rfl⟩, m1, ?_, ?_, ?_, rfl⟩, ?_, trivial, ?_, ?_, ?_, ?_, trivial⟩
    · simp only; rw [hsize]; exact m2.length_eq.symm
    · intro j hj x hx
      simp only at hx hj ⊢
      unfold bucket at hx; simp only at hx
      rcases m3 j x hx with h | h
      · simp [List.getD_eq_getElem?_getD, List.getElem?_replicate] at h
        split at h <;> simp at h
      · refine ⟨hash_of_mem c t hok x h.1, ?_⟩
        rw [← mask_eq_mod]; exact h.2
    · simp only; exact ((m2.map _).nodup_iff).mpr hnd
    · unfold abs; simp only; exact m2.map _
    · rw [hck, Nat.pow_succ]; omega
    · rw [hfr.1]; omega
    · rw [hfr.2.1]; exact hal.2
    · exact hfr.2.2



/-- what the resize loop of `cc_hashtable_add` guarantees -/
structure GrowPost (c : HCfg) (t : HashTable) (m : Mem) (fuel : Nat) (r : Stat × HashTable × Mem) : Prop where
  inv : r.2.1.Inv c
  perm : r.2.1.abs.Perm t.abs
  size : r.2.1.size = t.size
  live : liveOf r.2.2 t.triple = liveOf m t.triple
  triple : r.2.1.triple = t.triple
  cap : ∃ j, r.2.1.capacity = t.capacity * 2 ^ j
  st : r.1 = .ok ∨ r.1 = .errAlloc ∨ r.1 = .errMaxCapacity
  nofault : ∀ k, t.capacity = 2 ^ k → 32 ≤ fuel + k →
    r.2.2.fault = m.fault ∧ (r.1 = .ok → r.2.1.size < r.2.1.threshold)
  sched : m.sched = [] → r.1 ≠ .errAlloc ∧ r.2.2.sched = []
  unchanged : r.1 ≠ .ok → r.1 = .errMaxCapacity → r.2.1.capacity = Gen.MAX_POW_TWO

theorem growLoop_spec (c : HCfg) (fuel : Nat) (t : HashTable) (m : Mem) (h : t.Inv c) :
    GrowPost c t m fuel (growLoop c fuel t m) := by
  induction fuel generalizing t m with
  | zero =>
    unfold growLoop
    refine ⟨h, List.Perm.refl _, rfl, by simp, rfl, ⟨0, by simp⟩, Or.inl rfl, ?_, fun hs => ⟨by simp, by simpa using hs⟩, fun h => absurd rfl h⟩
    intro k hk h32
    obtain ⟨k', hk', hc'⟩ := h.1
    rw [hk] at hc'
    have := (Nat.pow_right_inj (by omega : 1 < 2)).mp hc'
    omega
  | succ fuel ih =>
    unfold growLoop
    by_cases hge : t.size ≥ t.threshold
    · simp only [hge, if_true]
      by_cases hmax : t.capacity = Gen.MAX_POW_TWO
      · have hr : t.resize c (t.capacity <<< 1) m = (.errMaxCapacity, t, m) := by simp [resize, hmax]
        rw [hr]
        simp only [ne_eq, reduceCtorEq, not_false_eq_true, if_true]
        exact ⟨h, List.Perm.refl _, rfl, rfl, rfl, ⟨0, by simp⟩, Or.inr (Or.inr rfl), fun _ _ _ => ⟨rfl, fun h => by cases h⟩,
          fun hs => ⟨by simp, hs⟩, fun _ _ => hmax⟩
      · obtain ⟨hf, hs⟩ := resize_spec c t m h hmax
        cases ha : (m.allocT t.triple).1 with
        | false =>
          rw [hf ha]
          have hal := allocT_false m t.triple ha
          simp only [ne_eq, reduceCtorEq, not_false_eq_true, if_true]
          refine ⟨h, List.Perm.refl _, rfl, hal.1, rfl, ⟨0, by simp⟩, Or.inr (Or.inl rfl), fun _ _ _ => ⟨hal.2, fun h => by cases h⟩, ?_, fun _ h => by cases h⟩
          intro hs
          have := (allocT_nil m t.triple hs).1
          rw [ha] at this; cases this
        | true =>
          obtain ⟨s1, s2, s3, s4, s5, s6, s7, s8, s9⟩ := hs ha
          simp only [s1, ne_eq, not_true_eq_false, if_false]
          have p := ih (t.resize c (t.capacity <<< 1) m).2.1 (t.resize c (t.capacity <<< 1) m).2.2 s2
          obtain ⟨j, hj⟩ := p.cap
          refine ⟨p.inv, p.perm.trans s3, by rw [p.size, s4], by have := p.live; rw [s9] at this; rw [this, s6], by rw [p.triple, s9], ⟨j + 1, ?_⟩, p.st, ?_, ?_, p.unchanged⟩
          · rw [hj, s5, Nat.pow_succ]; simp only [Nat.mul_comm, Nat.mul_assoc]
          · intro k hk h32
            have := p.nofault (k + 1) (by rw [s5, hk, Nat.pow_succ]; omega) (by omega)
            rw [s7] at this; exact this
          · intro hs
            have := (allocT_nil m t.triple hs).2
            exact p.sched (by rw [s8]; exact this)
    · simp only [hge, if_false]
      exact ⟨h, List.Perm.refl _, rfl, rfl, rfl, ⟨0, by simp⟩, Or.inl rfl, fun _ _ _ => ⟨rfl, fun _ => by simp only; omega⟩,
        fun hs => ⟨by simp, hs⟩, fun h => absurd rfl h⟩



theorem pair_setVal (k : Key) (v : Nat) (e : Entry) :
    pair (setVal k v e) = if (pair e).1 = k then (k, v) else pair e := by
  unfold setVal pair; split <;> simp_all

theorem contains_abs_iff (t : HashTable) (key : Key) :
    Map.contains t.abs key = true ↔ ∃ e ∈ t.buckets.flatten, e.key = key := by
  rw [Map.contains_iff, abs_eq, keys_map_pair, List.mem_map]

/-- `cc_hashtable_add`: invariant, add-or-replace on the ideal map, the load bound after a
successful insertion, atomicity of a refused insertion (on `abs`, size and the ledger), no fault,
growth by doubling only -/
theorem add_spec (c : HCfg) (t : HashTable) (key : Key) (v : Nat) (m : Mem) (h : t.Inv c) :
    (t.add c key v m).2.1.Inv c ∧
    ((t.add c key v m).1 = .ok →
        (t.add c key v m).2.1.abs.Perm (Map.insert t.abs key v) ∧
        (t.add c key v m).2.1.size ≤ (t.add c key v m).2.1.threshold ∧
        liveOf (t.add c key v m).2.2 t.triple + t.size = liveOf m t.triple + (t.add c key v m).2.1.size) ∧
    ((t.add c key v m).1 ≠ .ok →
        ((t.add c key v m).1 = .errAlloc ∨ (t.add c key v m).1 = .errMaxCapacity) ∧
        (t.add c key v m).2.1.abs.Perm t.abs ∧ (t.add c key v m).2.1.size = t.size ∧
        liveOf (t.add c key v m).2.2 t.triple = liveOf m t.triple) ∧
    (t.add c key v m).2.2.fault = m.fault ∧
    (∃ j, (t.add c key v m).2.1.capacity = t.capacity * 2 ^ j) ∧
    (m.sched = [] → (t.add c key v m).1 ≠ .errAlloc) ∧
    (t.add c key v m).2.1.triple = t.triple := by
  have p := growLoop_spec c 64 t m h
  obtain ⟨k0, hk0, hc0⟩ := h.1
  obtain ⟨pf, plt⟩ := p.nofault k0 hc0 (by omega)
  have hwf : Map.WF t.abs := by
    unfold Map.WF; rw [abs_eq, keys_map_pair]; exact h.2.2.2.2.1
  unfold add
  by_cases hg : (growLoop c 64 t m).1 = .ok
  · simp only [hg, ne_eq, not_true_eq_false, if_false]
    generalize growLoop c 64 t m = g at p pf plt hg
    obtain ⟨st, t1, m1⟩ := g
    simp only at p pf plt hg ⊢
    have plt := plt hg
    have hinv1 := p.inv
    obtain ⟨hcap, hlen, hsize, hok, hnd, hthr⟩ := p.inv
    simp only at hcap hlen hsize hok hnd hthr hinv1
    have hwf1 : Map.WF t1.abs := by
      unfold Map.WF; rw [abs_eq, keys_map_pair]; exact hnd
    have hi := index_lt t1 (keyHash c key) hcap
    have hi' : t1.index (keyHash c key) < t1.buckets.length := by omega
    have him := index_eq_mod t1 (keyHash c key) hcap
    obtain ⟨hA, hB⟩ := loc c t1 hok key _ him
    have hchk : decide (t1.index (keyHash c key) < t1.buckets.length) = true := by simp; omega
    have hbk : t1.bucket (t1.index (keyHash c key)) = t1.buckets[t1.index (keyHash c key)] := getD_eq_getElem _ _ hi'
    have hperm : t1.abs.Perm t.abs := p.perm
    have hsz : t1.size = t.size := p.size
    have hlive : liveOf m1 t.triple = liveOf m t.triple := p.live
    have hT : t1.triple = t.triple := p.triple
    obtain ⟨j, hj⟩ := p.cap
    simp only at hj
    simp only [hchk, Mem.check_true]
    cases hr : chainReplace (t1.bucket (t1.index (keyHash c key))) key v with
    | some ch =>
      have hndX := nodup_bucket t1.buckets _ hi' hnd
      rw [← hbk] at hndX
      obtain ⟨hch, e, heX, hek⟩ := chainReplace_eq_some _ key v ch hndX hr
      have hflat' : (t1.buckets.set (t1.index (keyHash c key)) ch).flatten = t1.buckets.flatten.map (setVal key v) := by
        rw [flat_set _ _ _ hi']
        conv => rhs; rw [flat_split t1.buckets _ hi']
        rw [List.map_append, List.map_append, map_setVal_of_ne key v _ hA, map_setVal_of_ne key v _ hB, hch, hbk]
      have hcont : Map.contains t1.abs key = true := by
        rw [contains_abs_iff]
        exact ⟨e, mem_flatten_of_getD _ _ _ heX, hek⟩
      simp only
      refine ⟨⟨hcap, by simpa using hlen, ?_, ?_, ?_, hthr⟩, ?_, by simp, pf, ⟨j, hj⟩, fun _ => by simp, hT⟩
      · simp only; rw [hflat', List.length_map]; exact hsize
      · intro j hj
        simp only [List.length_set] at hj
        unfold bucket; simp only
        rw [getD_set _ _ _ _ hi']
        split
        · rename_i hij
          intro x hx
          rw [hch] at hx
          obtain ⟨y, hy, rfl⟩ := List.mem_map.mp hx
          have := hok _ hi' y hy
          simp only [setVal_key, setVal_hash]
          rw [← hij]; exact this
        · exact hok j hj
      · simp only; rw [hflat', List.map_map]
        have : ((fun x : Entry => x.key) ∘ setVal key v) = (fun x => x.key) := by
          funext x; simp
        rw [this]; exact hnd
      · intro _
        refine ⟨?_, by omega, by omega⟩
        have : ({ t1 with buckets := t1.buckets.set (t1.index (keyHash c key)) ch } : HashTable).abs = Map.insert t1.abs key v := by
          unfold abs Map.insert
          simp only
          rw [hflat']
          have hc' := hcont
          unfold abs at hc'
          rw [if_pos hc', List.map_map, List.map_map]
          apply List.map_congr_left
          intro x _
          exact pair_setVal key v x
        rw [this]
        exact Map.insert_perm hperm hwf1 key v
    | none =>
      have hX := (chainReplace_eq_none _ _ _).mp hr
      have hall : ∀ e ∈ t1.buckets.flatten, e.key ≠ key := by
        intro e he
        rw [flat_split t1.buckets _ hi'] at he
        rcases List.mem_append.mp he with h1 | h1
        · exact hA e h1
        · rcases List.mem_append.mp h1 with h2 | h2
          · exact hX e (by rw [hbk]; exact h2)
          · exact hB e h2
      have hcont : ¬ Map.contains t1.abs key = true := by
        rw [contains_abs_iff]; rintro ⟨e, he, hek⟩; exact hall e he hek
      simp only
      cases ha : (m1.allocT t1.triple).1 with
      | false =>
        have hal := allocT_false m1 t1.triple ha
        have hal1 : liveOf (m1.allocT t1.triple).2 t.triple = liveOf m1 t.triple := by
          have e := hal.1
          generalize (m1.allocT t1.triple).2 = mm at e ⊢
          rw [hT] at e; exact e
        simp only [Bool.not_false, if_true]
        refine ⟨hinv1, by simp, fun _ => ⟨by simp, hperm, hsz, by rw [hal1, hlive]⟩, by rw [hal.2, pf], ⟨j, hj⟩, ?_, hT⟩
        intro hs
        have := (allocT_nil m1 t1.triple ((p.sched hs).2)).1
        rw [ha] at this; cases this
      | true =>
        have hal := allocT_true m1 t1.triple ha
        have hal1 : liveOf (m1.allocT t1.triple).2 t.triple = liveOf m1 t.triple + 1 := by
          have e := hal.1
          generalize (m1.allocT t1.triple).2 = mm at e ⊢
          rw [hT] at e; exact e
        simp only [Bool.not_true, Bool.false_eq_true, if_false]
        have hpc := perm_cons_set t1.buckets _ ⟨key, v, keyHash c key⟩ hi'
        refine ⟨⟨hcap, by simpa using hlen, ?_, ?_, ?_, hthr⟩, ?_, by simp, by rw [hal.2, pf], ⟨j, hj⟩, fun _ => by simp, hT⟩
        · simp only; unfold bucket; rw [hpc.length_eq, List.length_cons]; omega
        · intro j hj
          simp only [List.length_set] at hj
          unfold bucket; simp only
          rw [getD_set _ _ _ _ hi']
          split
          · rename_i hij
            intro x hx
            rcases List.mem_cons.mp hx with hx | hx
            · subst hx; simp only; exact ⟨trivial, by rw [← hij, him]⟩
            · rw [← hij]; exact hok _ hi' x hx
          · exact hok j hj
        · simp only; unfold bucket
          have := (hpc.map (·.key)).nodup_iff
          rw [this]
          simp only [List.map_cons]
          refine List.nodup_cons.mpr ⟨?_, hnd⟩
          intro hmem
          obtain ⟨e, he, hek⟩ := List.mem_map.mp hmem
          exact hall e he hek
        · intro _
          refine ⟨?_, by omega, by omega⟩
          have h1 : ({ t1 with buckets := t1.buckets.set (t1.index (keyHash c key)) (⟨key, v, keyHash c key⟩ :: t1.bucket (t1.index (keyHash c key))), size := t1.size + 1 } : HashTable).abs.Perm ((key, v) :: t1.abs) := by
            unfold abs bucket; simp only
            exact hpc.map _
          have h2 : Map.insert t1.abs key v = (key, v) :: t1.abs := by
            unfold Map.insert; rw [if_neg hcont]
          refine h1.trans ?_
          rw [← h2]
          exact Map.insert_perm hperm hwf1 key v
  · simp only [hg, ne_eq, not_false_eq_true, if_true]
    refine ⟨p.inv, ?_, fun _ => ⟨?_, p.perm, p.size, p.live⟩, pf, p.cap, fun hs => (p.sched hs).1, p.triple⟩
    · intro h; exact h.elim
    rcases p.st with h | h | h
    · exact absurd h hg
    · exact Or.inl h
    · exact Or.inr h



theorem flatten_replicate_nil (n : Nat) : (List.replicate n ([] : List Entry)).flatten = [] := by simp

theorem bucket_replicate (n j : Nat) :
    (List.replicate n ([] : List Entry)).getD j [] = [] := by
  simp only [List.getD_eq_getElem?_getD, List.getElem?_replicate]; split <;> rfl

/-- an empty table of capacity `2^k` satisfies the invariant -/
theorem inv_empty (c : HCfg) (cap : Nat) (tr : Triple) (hc : ∃ k, k < 32 ∧ cap = 2 ^ k) :
    ({ capacity := cap, size := 0, threshold := c.thr cap, buckets := List.replicate cap [], triple := tr } : HashTable).Inv c := by
  refine ⟨hc, by simp, by simp, ?_, by simp, rfl⟩
  intro j _ e he
  unfold bucket at he; simp only at he
  rw [bucket_replicate] at he; cases he

/-- `cc_hashtable_new_conf`: either refused with nothing allocated, or an empty table satisfying the
invariant with capacity `round_pow_two(initial_capacity)` that owns two blocks of the given triple -/
theorem new_spec (c : HCfg) (cap : Nat) (tr : Triple) (m : Mem) :
    ((HashTable.new c cap tr m).1 = .ok ∨ (HashTable.new c cap tr m).1 = .errAlloc) ∧
    ((HashTable.new c cap tr m).1 ≠ .ok → (HashTable.new c cap tr m).2.1 = none ∧
        liveOf (HashTable.new c cap tr m).2.2 tr = liveOf m tr) ∧
    (∀ t, (HashTable.new c cap tr m).2.1 = some t → (HashTable.new c cap tr m).1 = .ok ∧ t.Inv c ∧ t.abs = [] ∧ t.size = 0 ∧
        t.capacity = roundPowTwo cap ∧ liveOf (HashTable.new c cap tr m).2.2 tr = liveOf m tr + 2 ∧ t.triple = tr) ∧
    (HashTable.new c cap tr m).2.2.fault = m.fault ∧
    (m.sched = [] → (HashTable.new c cap tr m).1 = .ok) := by
  unfold HashTable.new
  simp only
  cases h1 : (m.allocT tr).1 with
  | false =>
    have e1 := allocT_false m tr h1
    simp only [Bool.not_false, if_true]
    refine ⟨by simp, fun _ => ⟨by simp, e1.1⟩, by simp, e1.2, ?_⟩
    intro hs; have := (allocT_nil m tr hs).1; rw [h1] at this; cases this
  | true =>
    have e1 := allocT_true m tr h1
    simp only [Bool.not_true, Bool.false_eq_true, if_false]
    cases h2 : ((m.allocT tr).2.allocT tr).1 with
    | false =>
      have e2 := allocT_false (m.allocT tr).2 tr h2
      have hfr := freeT_spec ((m.allocT tr).2.allocT tr).2 tr (by omega)
      simp only [Bool.not_false, if_true]
      refine ⟨by simp, fun _ => ⟨by simp, by rw [hfr.1]; omega⟩, by simp, by rw [hfr.2.1, e2.2, e1.2], ?_⟩
      intro hs
      have := (allocT_nil (m.allocT tr).2 tr (allocT_nil m tr hs).2).1; rw [h2] at this; cases this
    | true =>
      have e2 := allocT_true (m.allocT tr).2 tr h2
      simp only [Bool.not_true, Bool.false_eq_true, if_false]
      refine ⟨by simp, by simp, ?_, by rw [e2.2, e1.2], by simp⟩
      intro t ht
      simp only [Option.some.injEq] at ht
      subst ht
      refine ⟨trivial, inv_empty c _ tr (roundPowTwo_pow2 cap), by simp [abs], rfl, rfl, by omega, rfl⟩

theorem decWrapN_le (s n : Nat) (h : n ≤ s) : decWrapN s n = s - n := by
  induction n generalizing s with
  | zero => rfl
  | succ n ih =>
    unfold decWrapN
    rw [decWrap_pos s (by omega), ih (s - 1) (by omega)]; omega

theorem removeAll_capacity (t : HashTable) (m : Mem) : (t.removeAll m).1.capacity = t.capacity := by
  simp [removeAll]
theorem removeAll_threshold (t : HashTable) (m : Mem) : (t.removeAll m).1.threshold = t.threshold := by
  simp [removeAll]
theorem removeAll_buckets (t : HashTable) (m : Mem) :
    (t.removeAll m).1.buckets = (t.buckets.take t.capacity).map (fun _ => []) ++ t.buckets.drop t.capacity := by
  simp [removeAll]
theorem removeAll_size (t : HashTable) (m : Mem) :
    (t.removeAll m).1.size = decWrapN t.size t.walk.length := by
  simp [removeAll]
theorem removeAll_mem (t : HashTable) (m : Mem) :
    (t.removeAll m).2 = freeN (m.check (t.capacity ≤ t.buckets.length)) t.triple t.walk.length := by
  simp [removeAll]
theorem removeAll_triple (t : HashTable) (m : Mem) : (t.removeAll m).1.triple = t.triple := by
  simp [removeAll]

/-- `cc_hashtable_remove_all`: empty map, same capacity, every entry block released -/
theorem removeAll_spec (c : HCfg) (t : HashTable) (m : Mem) (h : t.Inv c) (hl : t.size ≤ liveOf m t.triple) :
    (t.removeAll m).1.Inv c ∧ (t.removeAll m).1.abs = [] ∧ (t.removeAll m).1.size = 0 ∧
    (t.removeAll m).1.capacity = t.capacity ∧ (t.removeAll m).1.threshold = t.threshold ∧
    liveOf (t.removeAll m).2 t.triple = liveOf m t.triple - t.size ∧ (t.removeAll m).2.fault = m.fault ∧
    (t.removeAll m).1.triple = t.triple := by
  obtain ⟨hcap, hlen, hsize, hok, hnd, hthr⟩ := h
  have hw := walk_eq t hlen
  have hchk : decide (t.capacity ≤ t.buckets.length) = true := by simp; omega
  have hbk : (t.buckets.take t.capacity).map (fun _ => ([] : List Entry)) ++ t.buckets.drop t.capacity = List.replicate t.capacity [] := by
    rw [List.take_of_length_le (by omega), List.drop_of_length_le (by omega), List.append_nil]
    rw [← hlen]; exact List.map_const' ..
  have hsz : decWrapN t.size t.walk.length = 0 := by
    rw [hw, ← hsize, decWrapN_le _ _ (Nat.le_refl _)]; omega
  have hfr := freeN_spec m t.triple t.walk.length (by rw [hw, ← hsize]; exact hl)
  have e0 := removeAll_triple t m
  have e1 := removeAll_capacity t m
  have e2 := removeAll_threshold t m
  have e3 := removeAll_buckets t m
  have e4 := removeAll_size t m
  have e5 := removeAll_mem t m
  rw [hbk] at e3; rw [hsz] at e4
  rw [hchk, Mem.check_true] at e5
  rw [e5]
  generalize (t.removeAll m).1 = t' at e0 e1 e2 e3 e4
  obtain ⟨a, b, c', d, tr'⟩ := t'
  simp only at e0 e1 e2 e3 e4
  subst e0 e1 e2 e3 e4
  have hinv := inv_empty c t.capacity t.triple hcap
  rw [← hthr] at hinv
  refine ⟨hinv, by simp [abs], rfl, rfl, rfl, ?_, hfr.2.1, rfl⟩
  rw [hfr.1, hw, ← hsize]

/-- `cc_hashtable_destroy` releases exactly the blocks the table owns: one per entry, the bucket
array and the header -/
theorem destroy_spec (c : HCfg) (t : HashTable) (m : Mem) (h : t.Inv c) (hl : t.size + 2 ≤ liveOf m t.triple) :
    liveOf (t.destroy m) t.triple = liveOf m t.triple - (t.size + 2) ∧ (t.destroy m).fault = m.fault := by
  obtain ⟨hcap, hlen, hsize, hok, hnd, hthr⟩ := h
  have hw := walk_eq t hlen
  have hchk : decide (t.capacity ≤ t.buckets.length) = true := by simp; omega
  have hfr := freeN_spec m t.triple t.walk.length (by rw [hw, ← hsize]; omega)
  rw [hw, ← hsize] at hfr
  have f1 := freeT_spec (freeN m t.triple t.size) t.triple (by omega)
  have f2 := freeT_spec ((freeN m t.triple t.size).freeT t.triple) t.triple (by omega)
  unfold destroy
  simp only [hchk, Mem.check_true, hw, ← hsize]
  refine ⟨by omega, by rw [f2.2.1, f1.2.1, hfr.2.1]⟩

/-- `cc_hashtable_contains_key` -/
theorem containsKey_refines (c : HCfg) (t : HashTable) (key : Key) (m : Mem) (h : t.Inv c) :
    (t.containsKey c key m).1 = Map.contains t.abs key ∧ (t.containsKey c key m).2 = m := by
  obtain ⟨h1, h2, h3⟩ := get_refines c t key m h
  unfold containsKey Map.contains
  simp only [h2, h3]
  cases Map.lookup t.abs key <;> simp

/-- `cc_hashtable_foreach_key/value` visit exactly the entries of the map, each once, in walk order -/
theorem foreach_refines (c : HCfg) (t : HashTable) (m : Mem) (h : t.Inv c) :
    (t.foreachKey m).1 = Map.keys t.abs ∧ (t.foreachKey m).2 = m ∧
    (t.foreachValue m).1 = Map.vals t.abs ∧ (t.foreachValue m).2 = m := by
  obtain ⟨hcap, hlen, hsize, hok, hnd, hthr⟩ := h
  have hw := walk_eq t hlen
  have hchk : decide (t.capacity ≤ t.buckets.length) = true := by simp; omega
  unfold foreachKey foreachValue Map.keys Map.vals abs
  simp only [hchk, Mem.check_true, hw, List.map_map]
  exact ⟨rfl, trivial, rfl, trivial⟩



/-- `CC_ERR_MAX_CAPACITY` is reported only by a table that has grown to `MAX_POW_TWO` buckets -/
theorem add_maxcap (c : HCfg) (t : HashTable) (key : Key) (v : Nat) (m : Mem) (h : t.Inv c)
    (hst : (t.add c key v m).1 = .errMaxCapacity) : (t.add c key v m).2.1.capacity = Gen.MAX_POW_TWO := by
  have p := growLoop_spec c 64 t m h
  unfold add at hst ⊢
  by_cases hg : (growLoop c 64 t m).1 = .ok
  · simp only [hg, ne_eq, not_true_eq_false, if_false] at hst ⊢
    split at hst
    · cases hst
    · split at hst <;> cases hst
  · simp only [hg, ne_eq, not_false_eq_true, if_true] at hst ⊢
    exact p.unchanged hg hst

/-- with an allocator that does not refuse, an insertion fails only at the maximal capacity -/
theorem add_ok_of_no_refusal (c : HCfg) (t : HashTable) (key : Key) (v : Nat) (m : Mem) (h : t.Inv c)
    (hs : m.sched = []) :
    (t.add c key v m).1 = .ok ∨
    ((t.add c key v m).1 = .errMaxCapacity ∧ (t.add c key v m).2.1.capacity = Gen.MAX_POW_TWO) := by
  obtain ⟨a1, a2, a3, a4, a5, a6⟩ := add_spec c t key v m h
  by_cases hok : (t.add c key v m).1 = .ok
  · exact Or.inl hok
  · rcases (a3 hok).1 with h1 | h1
    · exact absurd h1 (a6.1 hs)
    · exact Or.inr ⟨h1, add_maxcap c t key v m h h1⟩


end CC.HashTable
