import CollectionsC.Proofs.PListIter
/-! Pointer-level model of `cc_list.c`, part 12: whole programs of the **descending** iterator (`cc_list_diter_*`) on the raw
links.  The step function uses the model functions `diterAddAt`, `unlinkn`, `setData` (the ones the driver executes). -/
namespace CC.PList
open CC

/-- `cc_list_diter_init` -/
def pditerInit (l : Hdr) : PIter := { index := l.size, next := l.tail }

/-- one call of a descending-iterator program (`cc_list_diter_add` without a current element is outside the contract and not
executed): `next` follows `prev`, `add` links the new node in front of `last` (`head` when `index == 0`) and makes it `last` -/
def pditerStep (s : St) (l : Hdr) (it : PIter) (op : PIOp) (m : Mem) : St × Hdr × PIter × Mem :=
  match op with
  | .next =>
    match it.next with
    | none => (s, l, it, m)
    | some n => (s, l, { index := it.index - 1, last := some n, next := (nd s.heap n).prev }, m)
  | .add x =>
    match it.last with
    | none => (s, l, it, m)
    | some n =>
      let r := diterAddAt s l n it.index x m
      (r.2.1, r.2.2.1, (if r.1 = .ok then { it with last := some s.fresh } else it), r.2.2.2)
  | .remove =>
    match it.last with
    | none => (s, l, it, m)
    | some n => let u := unlinkn s l n m; (u.2.1, u.2.2.1, { it with last := none }, u.2.2.2)
  | .replace x =>
    match it.last with
    | none => (s, l, it, m)
    | some n => ({ s with heap := setData s.heap n x }, l, it, m)

def pditerRun (s : St) (l : Hdr) (it : PIter) (ops : List PIOp) (m : Mem) : St × Hdr × PIter × Mem :=
  match ops with
  | [] => (s, l, it, m)
  | op :: ops => let r := pditerStep s l it op m; pditerRun r.1 r.2.1 r.2.2.1 ops r.2.2.2

/-- where the fields of the descending iterator point: `next` at the last node not yet passed, `index` its position + 1,
`last` (if any) at the first node behind it -/
structure DProgInv (s : St) (l : Hdr) (it : PIter) (cs : List Cell) : Prop where
  repr : Repr s.heap l cs
  bound : ∀ y, y ∈ idsOf cs → y < s.fresh
  rel : ∃ pre rest, cs = pre ++ rest ∧ it.next = lastOr pre none ∧ it.index = pre.length ∧
        (it.last = none ∨ ∃ c rest', rest = c :: rest' ∧ it.last = some c.1)

theorem pditerInit_inv {s : St} {l : Hdr} {cs : List Cell} (r : Repr s.heap l cs) (hb : ∀ y, y ∈ idsOf cs → y < s.fresh) :
    DProgInv s l (pditerInit l) cs :=
  ⟨r, hb, cs, [], by simp, r.tail, r.size, Or.inl rfl⟩

theorem pditerStep_inv (s : St) (l : Hdr) (it : PIter) (op : PIOp) (m : Mem) (cs : List Cell) (I : DProgInv s l it cs) :
    ∃ cs', DProgInv (pditerStep s l it op m).1 (pditerStep s l it op m).2.1 (pditerStep s l it op m).2.2.1 cs' := by
  obtain ⟨pre, rest, e, hn, hi, hl⟩ := I.rel
  subst e
  cases op with
  | next =>
    simp only [pditerStep]
    rcases eq_nil_or_snoc pre with e | ⟨pre', b, e⟩
    · subst e; rw [hn]; exact ⟨[] ++ rest, I⟩
    · subst e
      have ecs : (pre' ++ [b]) ++ rest = pre' ++ b :: rest := by simp
      have r' : Repr s.heap l (pre' ++ b :: rest) := ecs ▸ I.repr
      obtain ⟨_, hb, _⟩ := Seg_split r'.seg
      rw [hn]
      simp only [lastOr_concat, nd_of hb]
      exact ⟨(pre' ++ [b]) ++ rest, I.repr, I.bound, pre', b :: rest, by simp, rfl, by simp [hi], Or.inr ⟨b, rest, rfl, rfl⟩⟩
  | add x =>
    simp only [pditerStep]
    rcases hl with h0 | ⟨c, rest', e, hc⟩
    · simp only [h0]; exact ⟨pre ++ rest, I⟩
    · subst e
      simp only [hc, hi]
      obtain ⟨ar, ag⟩ := diterAddAt_spec s l pre rest' c x m I.repr I.bound
      by_cases ha : (m.allocT l.triple).1 = true
      · obtain ⟨g1, _, gk⟩ := ag ha
        simp only [g1, if_true]
        exact ⟨_, gk.repr, gk.bound, pre, (s.fresh, x) :: c :: rest', rfl, hn, rfl, Or.inr ⟨(s.fresh, x), c :: rest', rfl, rfl⟩⟩
      · have ha' : (m.allocT l.triple).1 = false := by simpa using ha
        simp only [ar ha', reduceCtorEq, if_false]
        exact ⟨pre ++ c :: rest', I.repr, I.bound, pre, c :: rest', rfl, hn, hi, Or.inr ⟨c, rest', rfl, hc⟩⟩
  | remove =>
    simp only [pditerStep]
    rcases hl with h0 | ⟨c, rest', e, hc⟩
    · simp only [h0]; exact ⟨pre ++ rest, I⟩
    · subst e
      simp only [hc]
      obtain ⟨_, _, uk⟩ := unlinkn_spec s l pre rest' c m I.repr I.bound
      exact ⟨pre ++ rest', uk.repr, uk.bound, pre, rest', rfl, hn, hi, Or.inl rfl⟩
  | replace x =>
    simp only [pditerStep]
    rcases hl with h0 | ⟨c, rest', e, hc⟩
    · simp only [h0]; exact ⟨pre ++ rest, I⟩
    · subst e
      simp only [hc]
      exact ⟨pre ++ (c.1, x) :: rest', repr_setData x I.repr, fun y hy => I.bound y (by simpa [idsOf] using hy),
        pre, (c.1, x) :: rest', rfl, hn, hi, Or.inr ⟨(c.1, x), rest', rfl, hc⟩⟩

theorem pditerRun_inv : ∀ (ops : List PIOp) (s : St) (l : Hdr) (it : PIter) (m : Mem) (cs : List Cell), DProgInv s l it cs →
    ∃ cs', DProgInv (pditerRun s l it ops m).1 (pditerRun s l it ops m).2.1 (pditerRun s l it ops m).2.2.1 cs'
  | [], s, l, it, m, cs, I => ⟨cs, I⟩
  | op :: ops, s, l, it, m, cs, I => by
    obtain ⟨cs1, I1⟩ := pditerStep_inv s l it op m cs I
    exact pditerRun_inv ops _ _ _ _ cs1 I1

theorem DProgInv.no_dangling {s : St} {l : Hdr} {it : PIter} {cs : List Cell} (I : DProgInv s l it cs) :
    (∀ n, it.last = some n → n ∈ idsOf cs ∧ (s.heap n).isSome) ∧ (∀ n, it.next = some n → n ∈ idsOf cs ∧ (s.heap n).isSome) := by
  obtain ⟨pre, rest, e, hn, _, hl⟩ := I.rel
  subst e
  refine ⟨fun n h => ?_, fun n h => ?_⟩
  · rcases hl with h0 | ⟨c, rest', e, hc⟩
    · rw [h0] at h; cases h
    · rw [hc] at h; cases h
      have hm : c.1 ∈ idsOf (pre ++ rest) := by rw [e]; simp
      exact ⟨hm, Seg_live I.repr.seg _ hm⟩
  · rw [hn] at h
    have hm : n ∈ idsOf (pre ++ rest) := by simp [lastOr_mem h]
    exact ⟨hm, Seg_live I.repr.seg _ hm⟩

end CC.PList
