import CollectionsC.Proofs.PSListOps
/-! Pointer-level model of `cc_slist.c`, part 3: two lists on one heap — `splice(_at)`, `link_all_externally`,
`add_all(_at)`. -/
namespace CC.PSList
open CC
open CC.PList (Heap St Hdr PNode Cell nd setNext setData optSetNext upd idsOf dataOf nxt lastOr)
open CC.PList

structure SRepr2 (h : Heap) (l1 l2 : Hdr) (cs1 cs2 : List Cell) : Prop where
  r1 : SRepr h l1 cs1
  r2 : SRepr h l2 cs2
  disj : ∀ x, x ∈ idsOf cs1 → x ∉ idsOf cs2

theorem optSetNext_frame {ids : List Nat} (h : Heap) (o v : Option Nat) (hn : ∀ x, o = some x → x ∉ ids) :
    ∀ b, b ∈ ids → (optSetNext h o v) b = h b :=
  fun b hb => optSetNext_ne' h o v b (fun x hx e => hn x hx (by rw [← e]; exact hb))

/-- a chain is appended behind `pre` by re-pointing the `next` of its last node -/
theorem join_end {h : Heap} {pre mid : List Cell} {n0 : Option Nat} (sp : SSeg h pre n0) (sm : SSeg h mid none)
    (np : (idsOf pre).Nodup) (d : ∀ x, x ∈ idsOf pre → x ∉ idsOf mid) :
    SSeg (optSetNext h (lastOr pre none) (nxt mid none)) (pre ++ mid) none := by
  rw [SSeg_append]
  refine ⟨SSeg_ends (SSeg_optSetNext (nxt mid none) sp np) (by by_cases e : pre = [] <;> simp [e]), ?_⟩
  exact SSeg_frame (optSetNext_frame h _ _ (fun x hx hm => d x (lastOr_mem hx) hm)) sm

/-- a non-empty chain `mid` is linked in between `pre` and `post` -/
theorem join_mid {h : Heap} {pre mid post : List Cell} {n0 n1 : Option Nat} (hm : mid ≠ [])
    (sp : SSeg h pre n0) (sm : SSeg h mid n1) (sq : SSeg h post none)
    (np : (idsOf pre).Nodup) (nm : (idsOf mid).Nodup)
    (dpm : ∀ x, x ∈ idsOf pre → x ∉ idsOf mid) (dpq : ∀ x, x ∈ idsOf pre → x ∉ idsOf post) (dmq : ∀ x, x ∈ idsOf mid → x ∉ idsOf post) :
    SSeg (optSetNext (optSetNext h (lastOr pre none) (nxt mid none)) (lastOr mid none) (nxt post none)) (pre ++ mid ++ post) none := by
  rw [SSeg_append, SSeg_append]
  refine ⟨⟨?_, ?_⟩, ?_⟩
  · rw [nxt_of_ne hm (nxt post none)]
    have a1 := SSeg_ends (n' := nxt mid none) (SSeg_optSetNext (nxt mid none) sp np) (by by_cases e : pre = [] <;> simp [e])
    exact SSeg_frame (optSetNext_frame _ _ _ (fun x hx hmm => dpm x hmm (lastOr_mem hx))) a1
  · have b0 : SSeg (optSetNext h (lastOr pre none) (nxt mid none)) mid n1 :=
      SSeg_frame (optSetNext_frame h _ _ (fun x hx hmm => dpm x (lastOr_mem hx) hmm)) sm
    have b1 := SSeg_optSetNext (nxt post none) b0 nm
    simp only [hm, if_false] at b1
    exact b1
  · refine SSeg_frame (fun b hb => ?_) sq
    rw [optSetNext_ne' _ _ _ _ (fun x hx e => dmq x (lastOr_mem hx) (by rw [← e]; exact hb)),
      optSetNext_ne' _ _ _ _ (fun x hx e => dpq x (lastOr_mem hx) (by rw [← e]; exact hb))]

theorem join_frame (h : Heap) (pre mid : List Cell) (v w : Option Nat) (b : Nat) (hp : b ∉ idsOf pre) (hm : b ∉ idsOf mid) :
    (optSetNext (optSetNext h (lastOr pre none) v) (lastOr mid none) w) b = h b := by
  rw [optSetNext_ne' _ _ _ _ (fun x hx e => hm (by rw [e]; exact lastOr_mem hx)),
    optSetNext_ne' _ _ _ _ (fun x hx e => hp (by rw [e]; exact lastOr_mem hx))]

theorem nodup3 {pre mid post : List Cell} (hn : (idsOf (pre ++ post)).Nodup) (nm : (idsOf mid).Nodup)
    (d : ∀ x, x ∈ idsOf (pre ++ post) → x ∉ idsOf mid) : (idsOf (pre ++ mid ++ post)).Nodup := by
  simp only [idsOf_append] at hn d ⊢
  rw [List.nodup_append] at hn
  rw [List.nodup_append, List.nodup_append]
  refine ⟨⟨hn.1, nm, fun x hx y hy e => d x (List.mem_append_left _ hx) (e ▸ hy)⟩, hn.2.1, ?_⟩
  intro x hx y hy e
  rcases List.mem_append.1 hx with hx | hx
  · exact hn.2.2 x hx y hy e
  · exact d y (List.mem_append_right _ hy) (e ▸ hx)

/-- **`cc_slist_splice`** -/
theorem splice_spec (s : St) (l1 l2 : Hdr) (cs1 cs2 : List Cell) (m : Mem) (R : SRepr2 s.heap l1 l2 cs1 cs2) :
    (cs2 = [] → splice s l1 l2 m = (.ok, s, l1, l2, m)) ∧
    (cs2 ≠ [] →
      ∃ h' l1' l2', splice s l1 l2 m = (.ok, { s with heap := h' }, l1', l2', m) ∧
        SRepr2 h' l1' l2' (cs1 ++ cs2) [] ∧ l1'.triple = l1.triple ∧ l2'.triple = l2.triple ∧
        (∀ b, b ∉ idsOf cs1 → b ∉ idsOf cs2 → h' b = s.heap b)) := by
  have hz2 : l2.size = 0 ↔ cs2 = [] := by rw [R.r2.size]; exact List.length_eq_zero_iff
  unfold splice
  refine ⟨fun e => by simp [hz2.2 e], fun hne => ?_⟩
  have h2 : ¬ l2.size = 0 := fun e => hne (hz2.1 e)
  simp only [h2, if_false]
  have empty2 : SRepr s.heap { l2 with head := none, tail := none, size := 0 } [] := ⟨by simp [idsOf], trivial, rfl, rfl, rfl⟩
  by_cases hc1 : cs1 = []
  · subst hc1
    have hs1 : l1.size = 0 := R.r1.size
    simp only [hs1, if_true, List.nil_append, Nat.zero_add]
    exact ⟨s.heap, _, _, rfl, ⟨⟨R.r2.nodup, R.r2.seg, R.r2.size, R.r2.head, R.r2.tail⟩, empty2, fun _ _ hm => by cases hm⟩, rfl, rfl, fun _ _ _ => rfl⟩
  · have hs1 : ¬ l1.size = 0 := by rw [R.r1.size]; exact fun e => hc1 (List.eq_nil_of_length_eq_zero e)
    simp only [hs1, if_false]
    rw [R.r1.tail, R.r2.head]
    simp only [tail_live R.r1.seg hc1, Mem.check_true]
    refine ⟨_, _, _, rfl, ⟨⟨?_, join_end R.r1.seg R.r2.seg R.r1.nodup R.disj, ?_, ?_, ?_⟩, ?_, fun _ _ hm => by cases hm⟩, rfl, rfl, ?_⟩
    · simp only [idsOf_append]; rw [List.nodup_append]
      exact ⟨R.r1.nodup, R.r2.nodup, fun x hx y hy e => R.disj x hx (e ▸ hy)⟩
    · simp [R.r1.size, R.r2.size]
    · simp only []; rw [R.r1.head, nxt_append, nxt_of_ne hc1 (nxt cs2 none)]
    · simp only []; rw [R.r2.tail, lastOr_append, lastOr_of_ne hne (lastOr cs1 none)]
    · exact ⟨by simp [idsOf], trivial, rfl, rfl, rfl⟩
    · intro b hb1 _
      exact optSetNext_ne' _ _ _ _ (fun x hx e => hb1 (by rw [e]; exact lastOr_mem hx))

/-- **`cc_slist_splice_at`** (range `[0, size)`) -/
theorem spliceAt_spec (s : St) (l1 l2 : Hdr) (cs1 cs2 : List Cell) (i : Nat) (m : Mem) (R : SRepr2 s.heap l1 l2 cs1 cs2) :
    (cs2 = [] → spliceAt s l1 l2 i m = (.ok, s, l1, l2, m)) ∧
    (cs2 ≠ [] → ¬ i < cs1.length → spliceAt s l1 l2 i m = (.errOutOfRange, s, l1, l2, m)) ∧
    (cs2 ≠ [] → i < cs1.length →
      ∃ h' l1' l2', spliceAt s l1 l2 i m = (.ok, { s with heap := h' }, l1', l2', m) ∧
        SRepr2 h' l1' l2' (cs1.take i ++ cs2 ++ cs1.drop i) [] ∧ l1'.triple = l1.triple ∧ l2'.triple = l2.triple ∧
        (∀ b, b ∉ idsOf cs1 → b ∉ idsOf cs2 → h' b = s.heap b)) := by
  have hz2 : l2.size = 0 ↔ cs2 = [] := by rw [R.r2.size]; exact List.length_eq_zero_iff
  obtain ⟨ge, gs⟩ := getNodeAt_srepr R.r1 i
  unfold spliceAt
  refine ⟨fun e => by simp [hz2.2 e], fun hne hi => ?_, fun hne hi => ?_⟩
  · have : ¬ l2.size = 0 := fun e => hne (hz2.1 e)
    simp only [this, if_false, R.r1.size]
    rw [if_pos (by omega)]
  have h2 : ¬ l2.size = 0 := fun e => hne (hz2.1 e)
  obtain ⟨pre, a, post, e, hl, _, _⟩ := split_at cs1 i hi
  rw [R.r1.size]
  simp only [h2, if_false]
  rw [if_neg (by omega), gs pre a post e hl]
  simp only [ok_bne, Bool.false_eq_true, if_false]
  have htk : cs1.take i = pre := by rw [e, ← hl]; simp
  have hdr : cs1.drop i = a :: post := by rw [e, ← hl]; simp
  rw [htk, hdr]
  have hnd := R.r1.nodup
  rw [e] at hnd
  obtain ⟨np, nq, _, _, _, _⟩ := nodup_append_cons hnd
  have hnd2 : (idsOf (pre ++ (a :: post))).Nodup := hnd
  have hnq' : (idsOf (a :: post)).Nodup := by
    simp only [idsOf_append] at hnd2; rw [List.nodup_append] at hnd2; exact hnd2.2.1
  have hdpq : ∀ x, x ∈ idsOf pre → x ∉ idsOf (a :: post) := by
    simp only [idsOf_append] at hnd2; rw [List.nodup_append] at hnd2
    exact fun x hx hy => hnd2.2.2 x hx x hy rfl
  have hseg := R.r1.seg
  rw [e] at hseg
  obtain ⟨sp, sq⟩ := SSeg_append.1 hseg
  have dp2 : ∀ x, x ∈ idsOf pre → x ∉ idsOf cs2 := fun x hx => R.disj x (by rw [e]; simp [hx])
  have dq2 : ∀ x, x ∈ idsOf cs2 → x ∉ idsOf (a :: post) := fun x hx hy => R.disj x (by rw [e]; simpa [idsOf] using Or.inr hy) hx
  have J := join_mid hne sp R.r2.seg sq np R.r2.nodup dp2 hdpq dq2
  have ndall : (idsOf (pre ++ cs2 ++ a :: post)).Nodup :=
    nodup3 hnd2 R.r2.nodup (fun x hx => R.disj x (by rw [e]; exact hx))
  have hsz : (pre ++ cs2 ++ a :: post).length = l1.size + l2.size := by rw [R.r1.size, R.r2.size, e]; simp; omega
  have empty2 : ∀ hh, SRepr hh { l2 with head := none, tail := none, size := 0 } [] := fun _ => ⟨by simp [idsOf], trivial, rfl, rfl, rfl⟩
  have T : lastOr (pre ++ cs2 ++ a :: post) none = l1.tail := by
    rw [R.r1.tail, e, lastOr_append, lastOr_append pre, lastOr_append pre]
    rw [lastOr_of_ne (by simp : a :: post ≠ []) (lastOr cs2 (lastOr pre none)), lastOr_of_ne (by simp : a :: post ≠ []) (lastOr pre none)]
  unfold spliceBetween
  rw [R.r2.head, R.r2.tail, R.r1.head, R.r1.tail]
  rcases eq_nil_or_snoc pre with ep | ⟨ys, b, ep⟩
  · subst ep
    simp only [lastOr_nil, if_true, List.nil_append] at J ⊢
    have hn1 : nxt cs1 none = nxt (a :: post) none := by rw [e]; rfl
    rw [hn1]
    refine ⟨_, _, _, rfl, ⟨⟨by simpa using ndall, J, by simp only []; rw [← hsz]; simp, ?_, ?_⟩, empty2 _, fun _ _ hm => by cases hm⟩, rfl, rfl, ?_⟩
    · simp only []; rw [nxt_append]; exact (nxt_of_ne hne _).symm
    · simp only []; have := T; simp only [List.nil_append] at this; rw [this, R.r1.tail]
    · intro c _ hc2
      exact optSetNext_ne' _ _ _ _ (fun x hx ee => hc2 (by rw [ee]; exact lastOr_mem hx))
  · subst ep
    have hq : lastOr (ys ++ [b]) none = some b.1 := by simp
    simp only [hq, reduceCtorEq, if_false, nxt_cons] at J ⊢
    refine ⟨_, _, _, rfl, ⟨⟨ndall, J, by simp only []; rw [hsz], ?_, ?_⟩, empty2 _, fun _ _ hm => by cases hm⟩, rfl, rfl, ?_⟩
    · simp only []
      have n1 : nxt (ys ++ [b] ++ cs2 ++ a :: post) none = nxt (ys ++ [b]) none := by
        rw [List.append_assoc, nxt_append]; exact nxt_of_ne (by simp) _
      have n2 : nxt (ys ++ [b] ++ a :: post) none = nxt (ys ++ [b]) none := by
        rw [nxt_append]; exact nxt_of_ne (by simp) _
      rw [R.r1.head, e, n1, n2]
    · simp only []; rw [T]
    · intro c hc1 hc2
      rw [optSetNext_ne' _ _ _ _ (fun x hx ee => hc2 (by rw [ee]; exact lastOr_mem hx)), optSetNext]
      exact upd_ne _ _ _ _ (fun ee => hc1 (by rw [e, ee]; simp))


/-! ### `link_all_externally` -/
theorem linkAllLoop_spec (t : Triple) : ∀ (rest : List Cell) (s : St) (bc : List Cell) (m : Mem),
    SSeg s.heap rest none → SSeg s.heap bc none → (idsOf bc).Nodup →
    (∀ x, x ∈ idsOf bc → x < s.fresh) → (∀ x, x ∈ idsOf rest → x < s.fresh) → (∀ x, x ∈ idsOf rest → x ∉ idsOf bc) →
    (linkAllLoop t rest.length bc.length s (nxt rest none) (nxt bc none) (lastOr bc none) m).1 = (Mem.allocChain t rest.length bc.length m).1 ∧
    (linkAllLoop t rest.length bc.length s (nxt rest none) (nxt bc none) (lastOr bc none) m).2.2.2.2 = (Mem.allocChain t rest.length bc.length m).2 ∧
    s.fresh ≤ (linkAllLoop t rest.length bc.length s (nxt rest none) (nxt bc none) (lastOr bc none) m).2.1.fresh ∧
    (∀ b, b < s.fresh → b ∉ idsOf bc →
      (linkAllLoop t rest.length bc.length s (nxt rest none) (nxt bc none) (lastOr bc none) m).2.1.heap b = s.heap b) ∧
    ((linkAllLoop t rest.length bc.length s (nxt rest none) (nxt bc none) (lastOr bc none) m).1 = true →
      ∃ nc, dataOf nc = dataOf rest ∧ nc.length = rest.length ∧
        (∀ x, x ∈ idsOf nc → s.fresh ≤ x) ∧
        (∀ x, x ∈ idsOf (bc ++ nc) → x < (linkAllLoop t rest.length bc.length s (nxt rest none) (nxt bc none) (lastOr bc none) m).2.1.fresh) ∧
        (idsOf (bc ++ nc)).Nodup ∧
        SSeg (linkAllLoop t rest.length bc.length s (nxt rest none) (nxt bc none) (lastOr bc none) m).2.1.heap (bc ++ nc) none ∧
        (linkAllLoop t rest.length bc.length s (nxt rest none) (nxt bc none) (lastOr bc none) m).2.2.1 = nxt (bc ++ nc) none ∧
        (linkAllLoop t rest.length bc.length s (nxt rest none) (nxt bc none) (lastOr bc none) m).2.2.2.1 = lastOr (bc ++ nc) none)
  | [], s, bc, m, _, hbs, hnd, hbb, _, _ => by
    simp only [List.length_nil, linkAllLoop, Mem.allocChain, nxt_nil]
    exact ⟨trivial, trivial, Nat.le_refl _, fun _ _ _ => trivial, fun _ => ⟨[], rfl, rfl, by simp [idsOf], by simpa using hbb, by simpa using hnd, by simpa using hbs, by simp, by simp⟩⟩
  | c :: rest, s, bc, m, hrs, hbs, hnd, hbb, hrb, hdj => by
    rw [SSeg_cons] at hrs
    have hcf : c.1 ≠ s.fresh := Nat.ne_of_lt (hrb c.1 (by simp))
    have hcb : c.1 ∉ idsOf bc := hdj c.1 (by simp)
    have hfb : s.fresh ∉ idsOf bc := fun hm => Nat.lt_irrefl _ (hbb _ hm)
    simp only [List.length_cons, nxt_cons, linkAllLoop, Mem.allocChain]
    by_cases ha : (m.allocT t).1 = true
    case neg =>
      have ha' : (m.allocT t).1 = false := by simpa using ha
      simp only [ha', Bool.not_false, if_true]
      rw [idsNext_sseg bc.length hbs (Nat.le_refl _)]
      refine ⟨trivial, trivial, ?_, ?_, fun hc => by cases hc⟩
      · rw [foldl_free_fresh]; exact Nat.le_refl _
      · intro b _ hb; exact foldl_free_heap _ s b hb
    case pos =>
    simp only [ha, Bool.not_true, Bool.false_eq_true, if_false, show s.alloc.1 = s.fresh from rfl]
    have hdat : (nd (s.alloc).2.heap c.1).data = c.2 := by
      unfold nd; rw [alloc_ne s c.1 hcf, hrs.1]; rfl
    rw [hdat]
    have hlast : ∀ x, lastOr bc none = some x → x ∈ idsOf bc := fun x hx => lastOr_mem hx
    have hnx : (nd (optSetNext (setData s.alloc.2.heap s.fresh c.2) (lastOr bc none) (some s.fresh)) c.1).next = nxt rest none := by
      unfold nd
      rw [optSetNext_ne' _ _ _ _ (fun x hx e => hcb (by rw [e]; exact hlast x hx)), setData_alloc_ne s c.2 c.1 hcf, hrs.1]; rfl
    rw [hnx]
    have hseg' : SSeg (optSetNext (setData s.alloc.2.heap s.fresh c.2) (lastOr bc none) (some s.fresh)) (bc ++ [(s.fresh, c.2)]) none := by
      have hb1 : SSeg (setData s.alloc.2.heap s.fresh c.2) bc none :=
        SSeg_frame (fun x hx => setData_alloc_ne s c.2 x (fun e => hfb (by rw [← e]; exact hx))) hbs
      have hm1 : SSeg (setData s.alloc.2.heap s.fresh c.2) [(s.fresh, c.2)] none := by
        rw [SSeg_cons]; exact ⟨setData_alloc s c.2, trivial⟩
      have := join_end hb1 hm1 hnd (fun x hx hm => by simp [idsOf] at hm; exact hfb (hm ▸ hx))
      simpa using this
    have hnd' : (idsOf (bc ++ [(s.fresh, c.2)])).Nodup := by
      simp only [idsOf_append, idsOf_cons, idsOf_nil]
      rw [List.nodup_append]
      refine ⟨hnd, by simp, ?_⟩
      intro x hx y hy e
      simp only [List.mem_singleton] at hy
      subst hy; subst e
      exact hfb hx
    have hhd : (if nxt bc none = none then some s.fresh else nxt bc none) = nxt (bc ++ [(s.fresh, c.2)]) none := by
      cases bc <;> rfl
    rw [hhd]
    have ih := linkAllLoop_spec t rest { s.alloc.2 with heap := optSetNext (setData s.alloc.2.heap s.fresh c.2) (lastOr bc none) (some s.fresh) }
      (bc ++ [(s.fresh, c.2)]) (m.allocT t).2
      (SSeg_frame (fun x hx => by
        have hxf : x ≠ s.fresh := Nat.ne_of_lt (hrb x (by simp [hx]))
        rw [optSetNext_ne' _ _ _ _ (fun y hy e => hdj x (by simp [hx]) (by rw [e]; exact hlast y hy))]
        exact setData_alloc_ne s c.2 x hxf) hrs.2)
      hseg' hnd'
      (by
        intro x hx
        simp only [idsOf_append, idsOf_cons, idsOf_nil, List.mem_append, List.mem_singleton] at hx
        rcases hx with hx | hx
        · exact Nat.lt_succ_of_lt (hbb x hx)
        · subst hx; exact Nat.lt_succ_self _)
      (fun x hx => Nat.lt_succ_of_lt (hrb x (by simp [hx])))
      (by
        intro x hx hm
        simp only [idsOf_append, idsOf_cons, idsOf_nil, List.mem_append, List.mem_singleton] at hm
        rcases hm with hm | hm
        · exact hdj x (by simp [hx]) hm
        · subst hm; exact Nat.lt_irrefl _ (hrb _ (by simp [hx])))
    simp only [lastOr_concat, List.length_append, List.length_cons, List.length_nil] at ih
    obtain ⟨i1, i2, i3, i4, i5⟩ := ih
    refine ⟨i1, i2, Nat.le_trans (Nat.le_succ _) i3, ?_, ?_⟩
    · intro x hx hxb
      rw [i4 x (Nat.lt_succ_of_lt hx) (by
        simp only [idsOf_append, idsOf_cons, idsOf_nil, List.mem_append, List.mem_singleton, not_or]
        exact ⟨hxb, Nat.ne_of_lt hx⟩)]
      show (optSetNext _ _ _) x = _
      rw [optSetNext_ne' _ _ _ _ (fun y hy e => hxb (by rw [e]; exact hlast y hy))]
      exact setData_alloc_ne s c.2 x (Nat.ne_of_lt hx)
    · intro hok
      obtain ⟨nc, d1, d2, d3, d4, d5, d6, d7, d8⟩ := i5 hok
      refine ⟨(s.fresh, c.2) :: nc, by simp [d1], by simp [d2], ?_, ?_, ?_, ?_, ?_, ?_⟩
      · intro x hx
        simp only [idsOf_cons, List.mem_cons] at hx
        rcases hx with e | e
        · subst e; exact Nat.le_refl _
        · exact Nat.le_trans (Nat.le_succ _) (d3 x e)
      · simpa [List.append_assoc] using d4
      · simpa [List.append_assoc] using d5
      · simpa [List.append_assoc] using d6
      · simpa [List.append_assoc] using d7
      · simpa [List.append_assoc] using d8

theorem linkAll_start (s : St) (l1 l2 : Hdr) (cs2 : List Cell) (m : Mem) (r2 : SRepr s.heap l2 cs2)
    (hb2 : ∀ x, x ∈ idsOf cs2 → x < s.fresh) :
    (linkAllExternally s l1 l2 m).1 = (Mem.allocChain l1.triple cs2.length 0 m).1 ∧
    (linkAllExternally s l1 l2 m).2.2.2.2 = (Mem.allocChain l1.triple cs2.length 0 m).2 ∧
    s.fresh ≤ (linkAllExternally s l1 l2 m).2.1.fresh ∧
    (∀ b, b < s.fresh → (linkAllExternally s l1 l2 m).2.1.heap b = s.heap b) ∧
    ((linkAllExternally s l1 l2 m).1 = true →
      ∃ nc, dataOf nc = dataOf cs2 ∧ nc.length = cs2.length ∧ (∀ x, x ∈ idsOf nc → s.fresh ≤ x) ∧
        (∀ x, x ∈ idsOf nc → x < (linkAllExternally s l1 l2 m).2.1.fresh) ∧ (idsOf nc).Nodup ∧
        SSeg (linkAllExternally s l1 l2 m).2.1.heap nc none ∧
        (linkAllExternally s l1 l2 m).2.2.1 = nxt nc none ∧ (linkAllExternally s l1 l2 m).2.2.2.1 = lastOr nc none) := by
  have := linkAllLoop_spec l1.triple cs2 s [] m r2.seg trivial (by simp [idsOf]) (by simp [idsOf]) hb2 (by simp [idsOf])
  unfold linkAllExternally
  rw [r2.size, r2.head]
  simp only [List.length_nil, nxt_nil, lastOr_nil, List.nil_append] at this
  obtain ⟨a1, a2, a3, a4, a5⟩ := this
  exact ⟨a1, a2, a3, fun b hb => a4 b hb (by simp [idsOf]), a5⟩


/-- what a bulk copy guarantees: common part of `add_all` and `add_all_at` -/
structure Copied (s s' : St) (l1 l1' l2 : Hdr) (cs1 cs2 res : List Cell) (nc : List Cell) : Prop where
  data : dataOf nc = dataOf cs2
  fresh : ∀ x, x ∈ idsOf nc → s.fresh ≤ x ∧ x < s'.fresh
  rep : SRepr2 s'.heap l1' l2 res cs2
  triple : l1'.triple = l1.triple
  frame : ∀ b, b < s.fresh → b ∉ idsOf cs1 → s'.heap b = s.heap b

/-- **`cc_slist_add_all`** -/
theorem addAll_spec (s : St) (l1 l2 : Hdr) (cs1 cs2 : List Cell) (m : Mem) (R : SRepr2 s.heap l1 l2 cs1 cs2)
    (hb1 : ∀ x, x ∈ idsOf cs1 → x < s.fresh) (hb2 : ∀ x, x ∈ idsOf cs2 → x < s.fresh) :
    (cs2 = [] → addAll s l1 l2 m = (.ok, s, l1, m)) ∧
    (cs2 ≠ [] →
      (addAll s l1 l2 m).2.2.2 = (Mem.allocChain l1.triple cs2.length 0 m).2 ∧ s.fresh ≤ (addAll s l1 l2 m).2.1.fresh ∧
      ((Mem.allocChain l1.triple cs2.length 0 m).1 = false →
        (addAll s l1 l2 m).1 = .errAlloc ∧ (addAll s l1 l2 m).2.2.1 = l1 ∧ (∀ b, b < s.fresh → (addAll s l1 l2 m).2.1.heap b = s.heap b)) ∧
      ((Mem.allocChain l1.triple cs2.length 0 m).1 = true →
        (addAll s l1 l2 m).1 = .ok ∧
        ∃ nc, Copied s (addAll s l1 l2 m).2.1 l1 (addAll s l1 l2 m).2.2.1 l2 cs1 cs2 (cs1 ++ nc) nc)) := by
  have hz2 : l2.size = 0 ↔ cs2 = [] := by rw [R.r2.size]; exact List.length_eq_zero_iff
  obtain ⟨k1, k2, k3, k4, k5⟩ := linkAll_start s l1 l2 cs2 m R.r2 hb2
  unfold addAll
  refine ⟨fun e => by simp [hz2.2 e], fun hne => ?_⟩
  have h2 : ¬ l2.size = 0 := fun e => hne (hz2.1 e)
  simp only [h2, if_false]
  have hR1' : SRepr (linkAllExternally s l1 l2 m).2.1.heap l1 cs1 :=
    ⟨R.r1.nodup, SSeg_frame (fun b hb => k4 b (hb1 b hb)) R.r1.seg, R.r1.size, R.r1.head, R.r1.tail⟩
  have hR2' : SRepr (linkAllExternally s l1 l2 m).2.1.heap l2 cs2 :=
    ⟨R.r2.nodup, SSeg_frame (fun b hb => k4 b (hb2 b hb)) R.r2.seg, R.r2.size, R.r2.head, R.r2.tail⟩
  by_cases hok : (linkAllExternally s l1 l2 m).1 = true
  case neg =>
    have hok' : (linkAllExternally s l1 l2 m).1 = false := by simpa using hok
    simp only [hok', Bool.not_false, if_true]
    refine ⟨k2, k3, fun _ => ⟨by first | trivial | rfl, by first | trivial | rfl, k4⟩, ?_⟩
    intro ht; rw [← k1, hok'] at ht; cases ht
  case pos =>
  obtain ⟨nc, d1, d2, d3, d4, d5, d6, d7, d8⟩ := k5 hok
  simp only [hok, Bool.not_true, Bool.false_eq_true, if_false]
  have dnc : ∀ x, x ∈ idsOf cs1 → x ∉ idsOf nc := fun x hx hn => Nat.lt_irrefl _ (Nat.lt_of_lt_of_le (hb1 x hx) (d3 x hn))
  have d2nc : ∀ x, x ∈ idsOf cs2 → x ∉ idsOf nc := fun x hx hn => Nat.lt_irrefl _ (Nat.lt_of_lt_of_le (hb2 x hx) (d3 x hn))
  by_cases hc1 : cs1 = []
  · subst hc1
    have hs1 : l1.size = 0 := R.r1.size
    simp only [hs1, if_true, Nat.zero_add, List.nil_append]
    refine ⟨k2, k3, ?_, fun _ => ⟨by first | trivial | rfl, nc, d1, fun x hx => ⟨d3 x hx, d4 x hx⟩, ⟨⟨d5, d6, ?_, d7, d8⟩, hR2', fun x hx hx2 => d2nc x hx2 hx⟩, rfl, fun b hb _ => k4 b hb⟩⟩
    · intro hf; rw [← k1, hok] at hf; cases hf
    · simp only []; rw [R.r2.size, d2]
  · have hs1 : ¬ l1.size = 0 := by rw [R.r1.size]; exact fun e => hc1 (List.eq_nil_of_length_eq_zero e)
    simp only [hs1, if_false]
    rw [R.r1.tail, d7]
    simp only [tail_live R.r1.seg hc1, Mem.check_true]
    refine ⟨k2, k3, ?_, fun _ => ⟨by first | trivial | rfl, nc, d1, fun x hx => ⟨d3 x hx, d4 x hx⟩, ⟨⟨?_, join_end hR1'.seg d6 R.r1.nodup dnc, ?_, ?_, ?_⟩, ?_, ?_⟩, rfl, ?_⟩⟩
    · intro hf; rw [← k1, hok] at hf; cases hf
    · simp only [idsOf_append]; rw [List.nodup_append]
      exact ⟨R.r1.nodup, d5, fun x hx y hy e => dnc x hx (e ▸ hy)⟩
    · simp only []; rw [R.r1.size, R.r2.size, ← d2]; simp
    · simp only []; rw [R.r1.head, nxt_append, nxt_of_ne hc1 (nxt nc none)]
    · have hncne : nc ≠ [] := fun e => hne (List.eq_nil_of_length_eq_zero (by rw [← d2, e]; rfl))
      simp only []; rw [d8, lastOr_append, lastOr_of_ne hncne (lastOr cs1 none)]
    · refine ⟨R.r2.nodup, SSeg_frame (fun b hb => ?_) hR2'.seg, R.r2.size, R.r2.head, R.r2.tail⟩
      exact optSetNext_ne' _ _ _ _ (fun x hx e => R.disj x (lastOr_mem hx) (by rw [← e]; exact hb))
    · intro x hx hx2
      simp only [idsOf_append, List.mem_append] at hx
      rcases hx with hx | hx
      · exact R.disj x hx hx2
      · exact d2nc x hx2 hx
    · intro b hb hb1'
      show (optSetNext _ _ _) b = _
      rw [optSetNext_ne' _ _ _ _ (fun x hx e => hb1' (by rw [e]; exact lastOr_mem hx))]
      exact k4 b hb

/-- **`cc_slist_add_all_at`** (range `[0, size)`) -/
theorem addAllAt_spec (s : St) (l1 l2 : Hdr) (cs1 cs2 : List Cell) (i : Nat) (m : Mem) (R : SRepr2 s.heap l1 l2 cs1 cs2)
    (hb1 : ∀ x, x ∈ idsOf cs1 → x < s.fresh) (hb2 : ∀ x, x ∈ idsOf cs2 → x < s.fresh) :
    (cs2 = [] → addAllAt s l1 l2 i m = (.ok, s, l1, m)) ∧
    (cs2 ≠ [] → ¬ i < cs1.length → addAllAt s l1 l2 i m = (.errOutOfRange, s, l1, m)) ∧
    (cs2 ≠ [] → i < cs1.length →
      (addAllAt s l1 l2 i m).2.2.2 = (Mem.allocChain l1.triple cs2.length 0 m).2 ∧ s.fresh ≤ (addAllAt s l1 l2 i m).2.1.fresh ∧
      ((Mem.allocChain l1.triple cs2.length 0 m).1 = false →
        (addAllAt s l1 l2 i m).1 = .errAlloc ∧ (addAllAt s l1 l2 i m).2.2.1 = l1 ∧
        (∀ b, b < s.fresh → (addAllAt s l1 l2 i m).2.1.heap b = s.heap b)) ∧
      ((Mem.allocChain l1.triple cs2.length 0 m).1 = true →
        (addAllAt s l1 l2 i m).1 = .ok ∧
        ∃ nc, Copied s (addAllAt s l1 l2 i m).2.1 l1 (addAllAt s l1 l2 i m).2.2.1 l2 cs1 cs2 (cs1.take i ++ nc ++ cs1.drop i) nc)) := by
  have hz2 : l2.size = 0 ↔ cs2 = [] := by rw [R.r2.size]; exact List.length_eq_zero_iff
  obtain ⟨ge, gs⟩ := getNodeAt_srepr R.r1 i
  obtain ⟨k1, k2, k3, k4, k5⟩ := linkAll_start s l1 l2 cs2 m R.r2 hb2
  unfold addAllAt
  refine ⟨fun e => by simp [hz2.2 e], fun hne hi => ?_, fun hne hi => ?_⟩
  · have : ¬ l2.size = 0 := fun e => hne (hz2.1 e)
    simp only [this, if_false]; rw [ge hi]; simp [oor_bne]
  have h2 : ¬ l2.size = 0 := fun e => hne (hz2.1 e)
  obtain ⟨pre, a, post, e, hl, _, _⟩ := split_at cs1 i hi
  simp only [h2, if_false]
  rw [gs pre a post e hl]
  simp only [ok_bne, Bool.false_eq_true, if_false]
  have htk : cs1.take i = pre := by rw [e, ← hl]; simp
  have hdr : cs1.drop i = a :: post := by rw [e, ← hl]; simp
  rw [htk, hdr]
  have hR1' : SRepr (linkAllExternally s l1 l2 m).2.1.heap l1 cs1 :=
    ⟨R.r1.nodup, SSeg_frame (fun b hb => k4 b (hb1 b hb)) R.r1.seg, R.r1.size, R.r1.head, R.r1.tail⟩
  have hR2' : SRepr (linkAllExternally s l1 l2 m).2.1.heap l2 cs2 :=
    ⟨R.r2.nodup, SSeg_frame (fun b hb => k4 b (hb2 b hb)) R.r2.seg, R.r2.size, R.r2.head, R.r2.tail⟩
  by_cases hok : (linkAllExternally s l1 l2 m).1 = true
  case neg =>
    have hok' : (linkAllExternally s l1 l2 m).1 = false := by simpa using hok
    simp only [hok', Bool.not_false, if_true]
    refine ⟨k2, k3, fun _ => ⟨by first | trivial | rfl, by first | trivial | rfl, k4⟩, ?_⟩
    intro ht; rw [← k1, hok'] at ht; cases ht
  case pos =>
  obtain ⟨nc, d1, d2, d3, d4, d5, d6, d7, d8⟩ := k5 hok
  have hncne : nc ≠ [] := fun en => hne (List.eq_nil_of_length_eq_zero (by rw [← d2, en]; rfl))
  simp only [hok, Bool.not_true, Bool.false_eq_true, if_false, d7, d8]
  have dnc : ∀ x, x ∈ idsOf cs1 → x ∉ idsOf nc := fun x hx hn => Nat.lt_irrefl _ (Nat.lt_of_lt_of_le (hb1 x hx) (d3 x hn))
  have d2nc : ∀ x, x ∈ idsOf cs2 → x ∉ idsOf nc := fun x hx hn => Nat.lt_irrefl _ (Nat.lt_of_lt_of_le (hb2 x hx) (d3 x hn))
  have hnd := R.r1.nodup
  rw [e] at hnd
  obtain ⟨np, _, _, _, _, _⟩ := nodup_append_cons hnd
  have hnd2 : (idsOf (pre ++ (a :: post))).Nodup := hnd
  have hdpq : ∀ x, x ∈ idsOf pre → x ∉ idsOf (a :: post) := by
    simp only [idsOf_append] at hnd2; rw [List.nodup_append] at hnd2
    exact fun x hx hy => hnd2.2.2 x hx x hy rfl
  have hseg := hR1'.seg
  rw [e] at hseg
  obtain ⟨sp, sq⟩ := SSeg_append.1 hseg
  have dpn : ∀ x, x ∈ idsOf pre → x ∉ idsOf nc := fun x hx => dnc x (by rw [e]; simp [hx])
  have dnq : ∀ x, x ∈ idsOf nc → x ∉ idsOf (a :: post) := fun x hx hy => dnc x (by rw [e]; simpa [idsOf] using Or.inr hy) hx
  have J := join_mid hncne sp d6 sq np d5 dpn hdpq dnq
  have ndall : (idsOf (pre ++ nc ++ a :: post)).Nodup := nodup3 hnd2 d5 (fun x hx => dnc x (by rw [e]; exact hx))
  have hsz : (pre ++ nc ++ a :: post).length = l1.size + l2.size := by rw [R.r1.size, R.r2.size, e, ← d2]; simp; omega
  have T : lastOr (pre ++ nc ++ a :: post) none = l1.tail := by
    rw [R.r1.tail, e, lastOr_append, lastOr_append pre, lastOr_append pre]
    rw [lastOr_of_ne (by simp : a :: post ≠ []) (lastOr nc (lastOr pre none)), lastOr_of_ne (by simp : a :: post ≠ []) (lastOr pre none)]
  have r2' : ∀ hh : Heap, (∀ b, b ∈ idsOf cs2 → hh b = (linkAllExternally s l1 l2 m).2.1.heap b) → SRepr hh l2 cs2 :=
    fun hh hf => ⟨R.r2.nodup, SSeg_frame hf hR2'.seg, R.r2.size, R.r2.head, R.r2.tail⟩
  have disj' : ∀ x, x ∈ idsOf (pre ++ nc ++ a :: post) → x ∉ idsOf cs2 := by
    intro x hx hx2
    simp only [idsOf_append, List.mem_append] at hx
    rcases hx with (hx | hx) | hx
    · exact R.disj x (by rw [e, idsOf_append]; exact List.mem_append_left _ hx) hx2
    · exact d2nc x hx2 hx
    · exact R.disj x (by rw [e, idsOf_append]; exact List.mem_append_right _ hx) hx2
  have hfail : (Mem.allocChain l1.triple cs2.length 0 m).1 = false → False := by
    intro hf; rw [← k1, hok] at hf; cases hf
  rcases eq_nil_or_snoc pre with ep | ⟨ys, b, ep⟩
  · subst ep
    simp only [lastOr_nil, if_true, List.nil_append] at J ⊢
    refine ⟨k2, k3, fun hf => (hfail hf).elim, fun _ => ⟨by first | trivial | rfl, nc, ?_⟩⟩
    refine ⟨d1, fun x hx => ⟨d3 x hx, d4 x hx⟩, ⟨⟨by simpa using ndall, J, by simp only []; rw [← hsz]; simp, ?_, ?_⟩, r2' _ ?_, by simpa using disj'⟩, rfl, ?_⟩
    · simp only []; rw [nxt_append]; exact (nxt_of_ne hncne _).symm
    · simp only []; have := T; simp only [List.nil_append] at this; rw [this]
    · intro c hc
      exact optSetNext_ne' _ _ _ _ (fun x hx ee => d2nc c hc (by rw [ee]; exact lastOr_mem hx))
    · intro c hc _
      show (optSetNext _ _ _) c = _
      rw [optSetNext_ne' _ _ _ _ (fun x hx ee => Nat.lt_irrefl _ (Nat.lt_of_lt_of_le hc (d3 c (by rw [ee]; exact lastOr_mem hx))))]
      exact k4 c hc
  · subst ep
    have hq : lastOr (ys ++ [b]) none = some b.1 := by simp
    simp only [hq, reduceCtorEq, if_false] at J ⊢
    refine ⟨k2, k3, fun hf => (hfail hf).elim, fun _ => ⟨by first | trivial | rfl, nc, ?_⟩⟩
    refine ⟨d1, fun x hx => ⟨d3 x hx, d4 x hx⟩, ⟨⟨ndall, J, by simp only []; rw [hsz], ?_, ?_⟩, r2' _ ?_, disj'⟩, rfl, ?_⟩
    · simp only []
      have n1 : nxt (ys ++ [b] ++ nc ++ a :: post) none = nxt (ys ++ [b]) none := by
        rw [List.append_assoc, nxt_append]; exact nxt_of_ne (by simp) _
      have n2 : nxt (ys ++ [b] ++ a :: post) none = nxt (ys ++ [b]) none := by
        rw [nxt_append]; exact nxt_of_ne (by simp) _
      rw [R.r1.head, e, n1, n2]
    · simp only []; rw [T]
    · intro c hc
      rw [optSetNext_ne' _ _ _ _ (fun x hx ee => d2nc c hc (by rw [ee]; exact lastOr_mem hx)), optSetNext]
      exact upd_ne _ _ _ _ (fun ee => R.disj b.1 (by rw [e]; simp) (by rw [← ee]; exact hc))
    · intro c hc hc1
      show (optSetNext (optSetNext _ _ _) _ _) c = _
      rw [optSetNext_ne' _ _ _ _ (fun x hx ee => Nat.lt_irrefl _ (Nat.lt_of_lt_of_le hc (d3 c (by rw [ee]; exact lastOr_mem hx)))), optSetNext,
        setNext, upd_ne _ _ _ _ (fun ee => hc1 (by rw [e, ee]; simp))]
      exact k4 c hc

end CC.PSList
