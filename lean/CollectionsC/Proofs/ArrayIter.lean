import CollectionsC.Proofs.ArrayBulk
/-! Iterators of the dynamic-array model as a simulation of the ideal cursor `(done, todo)` of
`Spec/SeqSpec.lean`: `iter_next/remove/add/replace/index` and the zip variants.  The relation `Sim`
says that the ideal cursor splits the array content at the concrete index. -/
namespace CC.Arr
open CC
open CC.Spec.Seq (Cursor ZipCursor wdec)

/-! ### list facts about a split `d ++ t` -/

theorem getD_append_length (d t : List Nat) (x : Nat) : (d ++ x :: t).getD d.length 0 = x := by
  rw [List.getD_eq_getElem?_getD, List.getElem?_append_right (Nat.le_refl _)]
  simp

theorem insertIdx_append_length (d t : List Nat) (x : Nat) : (d ++ t).insertIdx d.length x = (d ++ [x]) ++ t := by
  induction d with
  | nil => simp
  | cons y ys ih => simp only [List.cons_append, List.length_cons, List.insertIdx_succ_cons, ih]

theorem last_split (d : List Nat) (h : d ≠ []) : ∃ d' y, d = d' ++ [y] := by
  rcases List.eq_nil_or_concat d with h0 | ⟨d', y, hd⟩
  · exact absurd h0 h
  · exact ⟨d', y, by simpa using hd⟩

theorem eraseIdx_last_of_split (d' t : List Nat) (y : Nat) :
    ((d' ++ [y]) ++ t).eraseIdx d'.length = d' ++ t := by
  rw [List.eraseIdx_append_of_lt_length (by simp)]
  rw [List.eraseIdx_eq_dropLast (by simp)]
  simp

theorem getD_last_of_split (d' t : List Nat) (y : Nat) : ((d' ++ [y]) ++ t).getD d'.length 0 = y := by
  rw [List.append_assoc]
  exact getD_append_length d' t y

theorem set_last_of_split (d' t : List Nat) (y x : Nat) :
    ((d' ++ [y]) ++ t).set d'.length x = (d' ++ [x]) ++ t := by
  rw [List.set_append_left _ _ (by simp), List.set_append_right _ _ (Nat.le_refl _)]
  simp

/-! ### plain iterator -/

/-- the ideal cursor splits the content at the concrete index and agrees on the removed flag -/
def Sim (a : Arr) (it : ArrIter) (c : Cursor) : Prop :=
  c.done ++ c.todo = a.abs ∧ c.done.length = it.index ∧ c.removed = it.lastRemoved

theorem Sim.index_le {a : Arr} {it : ArrIter} {c : Cursor} (h : Sim a it c) : it.index ≤ a.size := by
  have := congrArg List.length h.1
  simp only [List.length_append, abs_length] at this
  have := h.2.1
  omega

/-- a fresh iterator (`cc_array_iter_init`) corresponds to the cursor with everything to do -/
theorem sim_init (a : Arr) : Sim a {} { done := [], todo := a.abs, removed := false } := ⟨rfl, rfl, rfl⟩

/-- `cc_array_iter_next`: yields the next unvisited element, `CC_ITER_END` exactly when none is left -/
theorem iterNext_sim (a : Arr) (it : ArrIter) (c : Cursor) (m : Mem) (hinv : a.Inv) (hs : Sim a it c) :
    (a.iterNext it m).1 = c.next.1 ∧ (a.iterNext it m).2.1 = c.next.2.1 ∧
    Sim a (a.iterNext it m).2.2.1 c.next.2.2 ∧ (a.iterNext it m).2.2.2 = m := by
  have hle := hs.index_le
  obtain ⟨s1, s2, s3⟩ := hs
  obtain ⟨h1, h2, h3, h4⟩ := hinv
  unfold iterNext Cursor.next
  cases htodo : c.todo with
  | nil =>
    have : it.index = a.size := by
      have := congrArg List.length s1
      simp only [htodo, List.append_nil, abs_length] at this
      omega
    have hge : it.index ≥ a.size := by omega
    simp only [hge, if_true]
    exact ⟨by triv, by triv, ⟨s1, s2, s3⟩, by triv⟩
  | cons x t =>
    have hlen : it.index < a.size := by
      have := congrArg List.length s1
      simp only [htodo, List.length_append, List.length_cons, abs_length] at this
      omega
    have hge : ¬ it.index ≥ a.size := by omega
    have h6 : decide (it.index < a.buf.length) = true := by simp; omega
    have hx : a.buf.get it.index = x := by
      rw [← abs_getD a _ hlen, ← s1, htodo, ← s2]
      exact getD_append_length c.done t x
    simp only [hge, if_false, h6, Mem.check_true, hx]
    refine ⟨by triv, by triv, ⟨?_, by simp [s2], by triv⟩, by triv⟩
    simp only [List.append_assoc, List.singleton_append]
    rw [← htodo]; exact s1

/-- `cc_array_iter_remove`: removes exactly the element yielded last; a second call, or a call
before the first yield, is rejected and changes neither the array nor the cursor -/
theorem iterRemove_sim (a : Arr) (it : ArrIter) (c : Cursor) (m : Mem) (hinv : a.Inv) (hs : Sim a it c) :
    (a.iterRemove it m).1 = c.remove.1 ∧ (a.iterRemove it m).2.1 = c.remove.2.1 ∧
    Sim (a.iterRemove it m).2.2.1 (a.iterRemove it m).2.2.2.1 c.remove.2.2 ∧
    Kept a (a.iterRemove it m).2.2.1 ∧ (a.iterRemove it m).2.2.1.size ≤ a.size ∧
    (a.iterRemove it m).2.2.2.2 = m ∧
    ((a.iterRemove it m).1 ≠ .ok → (a.iterRemove it m).2.2.1 = a ∧ (a.iterRemove it m).2.2.2.1 = it) := by
  have hle := hs.index_le
  obtain ⟨s1, s2, s3⟩ := hs
  have hinv' := hinv
  obtain ⟨h1, h2, h3, h4⟩ := hinv
  unfold iterRemove Cursor.remove
  by_cases hr : it.lastRemoved = true
  · have hc : c.removed = true := by rw [s3]; exact hr
    simp only [hr, Bool.not_true, Bool.false_eq_true, if_false, hc, if_true]
    exact ⟨by triv, by triv, ⟨s1, s2, s3⟩, Kept.refl a, Nat.le_refl _, by triv, fun _ => ⟨by triv, by triv⟩⟩
  · have hrf : it.lastRemoved = false := by simpa using hr
    have hc : c.removed = false := by rw [s3]; exact hrf
    simp only [hrf, Bool.not_false, if_true, hc, Bool.false_eq_true, if_false]
    obtain ⟨r1, r2, r3, r4, r5, r6, r7, r8, r9⟩ := removeAt_spec a (wdec it.index) m hinv'
    by_cases hd : c.done = []
    · have hi0 : it.index = 0 := by rw [← s2, hd]; rfl
      have hw : ¬ wdec it.index < a.size := by
        simp only [wdec, hi0, if_true]
        have : Gen.CC_MAX_ELEMENTS = 2 ^ 64 - 2 := by decide
        omega
      have hnok : (a.removeAt (wdec it.index) m).1 ≠ .ok := fun h => hw (r8.1 h)
      have hst : (a.removeAt (wdec it.index) m).1 = .errOutOfRange := by
        rw [r1]; unfold Spec.Seq.removeAt; simp [hw]
      have hout : (a.removeAt (wdec it.index) m).2.1 = none := by
        rw [r2]; unfold Spec.Seq.removeAt; simp [hw]
      simp only [hd, if_true, hst, hout, r7 hnok, r6]
      exact ⟨by triv, by triv, ⟨s1, s2, s3⟩, Kept.refl a, Nat.le_refl _, by triv, fun _ => ⟨by triv, by triv⟩⟩
    · obtain ⟨d', y, hdy⟩ := last_split c.done hd
      have hidx : it.index = d'.length + 1 := by rw [← s2, hdy]; simp
      have hw : wdec it.index = d'.length := by simp [wdec, hidx]
      have hlt : d'.length < a.size := by omega
      have hok : (a.removeAt (wdec it.index) m).1 = .ok := r8.2 (by rw [hw]; exact hlt)
      rw [hw] at r1 r2 r3 r4 r5 r6 r7 r8 r9 hok ⊢
      unfold Spec.Seq.removeAt at r2 r3
      have hlt' : d'.length < a.abs.length := by simpa using hlt
      simp only [hlt', if_true] at r2 r3
      simp only [hok, if_true, hd, if_false]
      have habs : a.abs = (d' ++ [y]) ++ c.todo := by rw [← s1, hdy]
      refine ⟨by triv, ?_, ⟨?_, ?_, by triv⟩, r4, r5, r6, fun h => absurd rfl h⟩
      · rw [r2, habs, getD_last_of_split, hdy, List.getLast?_concat]
      · simp only
        rw [r3, habs, eraseIdx_last_of_split, hdy, List.dropLast_concat]
      · simp only
        rw [hdy, List.dropLast_concat, hidx]; rfl

/-- `cc_array_iter_add`: inserts directly after the element yielded last and steps over the new
element; when the insertion is blocked the array *and the cursor* are unchanged (A5) -/
theorem iterAdd_sim (a : Arr) (it : ArrIter) (c : Cursor) (x : Nat) (m : Mem) (hinv : a.Inv)
    (hs : Sim a it c) :
    (((a.iterAdd it x m).1 = .ok ∧ Sim (a.iterAdd it x m).2.1 (a.iterAdd it x m).2.2.1 (c.add x).2 ∧
        GrowFrame a (a.iterAdd it x m).2.1 m) ∨
     (Blocked (a.iterAdd it x m).1 a m ∧ (a.iterAdd it x m).2.1 = a ∧ (a.iterAdd it x m).2.2.1 = it)) ∧
    (a.iterAdd it x m).2.2.2.live = m.live ∧ (a.iterAdd it x m).2.2.2.fault = m.fault := by
  have hle := hs.index_le
  obtain ⟨s1, s2, s3⟩ := hs
  obtain ⟨sp, sl, sf⟩ := addAt_spec a x it.index m hinv
  unfold iterAdd Cursor.add
  rcases sp with ⟨_, sp⟩ | ⟨hgt, _⟩
  · rcases sp with ⟨ok, habs, hg⟩ | ⟨hb, hsame⟩
    · simp only [ok, if_true]
      refine ⟨Or.inl ⟨by triv, ⟨?_, by simp [s2], s3⟩, hg⟩, sl, sf⟩
      simp only
      rw [habs, ← s1, ← s2, insertIdx_append_length]
    · have hne : ¬ (a.addAt x it.index m).1 = .ok := by
        rcases hb.1 with ⟨h, _⟩ | ⟨h, _⟩ <;> rw [h] <;> simp
      simp only [hne, if_false]
      exact ⟨Or.inr ⟨hb, hsame, by triv⟩, sl, sf⟩
  · omega

/-- `cc_array_iter_replace`: replaces exactly the element yielded last -/
theorem iterReplace_sim (a : Arr) (it : ArrIter) (c : Cursor) (x : Nat) (m : Mem) (hinv : a.Inv) (hs : Sim a it c) :
    (a.iterReplace it x m).1 = (c.replace x).1 ∧ (a.iterReplace it x m).2.1 = (c.replace x).2.1 ∧
    Sim (a.iterReplace it x m).2.2.1 it (c.replace x).2.2 ∧
    Kept a (a.iterReplace it x m).2.2.1 ∧ (a.iterReplace it x m).2.2.1.size = a.size ∧
    (a.iterReplace it x m).2.2.2 = m ∧
    ((a.iterReplace it x m).1 ≠ .ok → (a.iterReplace it x m).2.2.1 = a) := by
  have hle := hs.index_le
  obtain ⟨s1, s2, s3⟩ := hs
  obtain ⟨r1, r2, r3, r4, r5, r6, r7, r8⟩ := replaceAt_spec a x (wdec it.index) m hinv
  obtain ⟨h1, h2, h3, h4⟩ := hinv
  unfold iterReplace Cursor.replace
  unfold Spec.Seq.replaceAt at r1 r2 r3
  by_cases hd : c.done = []
  · have hi0 : it.index = 0 := by rw [← s2, hd]; rfl
    have hw : ¬ wdec it.index < a.abs.length := by
      simp only [wdec, hi0, if_true, abs_length]
      have : Gen.CC_MAX_ELEMENTS = 2 ^ 64 - 2 := by decide
      omega
    simp only [hw, if_false] at r1 r2 r3
    simp only [hd, if_true]
    have hnok : (a.replaceAt x (wdec it.index) m).1 ≠ .ok := by rw [r1]; simp
    refine ⟨r1, r2, ⟨?_, s2, s3⟩, r5, r4, r6, r7⟩
    rw [r7 hnok]; exact s1
  · obtain ⟨d', y, hdy⟩ := last_split c.done hd
    have hidx : it.index = d'.length + 1 := by rw [← s2, hdy]; simp
    have hw : wdec it.index = d'.length := by simp [wdec, hidx]
    have hlt : d'.length < a.abs.length := by simp; omega
    rw [hw] at r1 r2 r3 r4 r5 r6 r7 ⊢
    simp only [hlt, if_true] at r1 r2 r3
    simp only [hd, if_false]
    have habs : a.abs = (d' ++ [y]) ++ c.todo := by rw [← s1, hdy]
    refine ⟨r1, ?_, ⟨?_, ?_, s3⟩, r5, r4, r6, r7⟩
    · rw [r2, habs, getD_last_of_split, hdy, List.getLast?_concat]
    · simp only
      rw [r3, habs, set_last_of_split, hdy, List.dropLast_concat]
    · simp only
      rw [hdy, List.dropLast_concat, hidx]; simp

/-- `cc_array_iter_index`: the current position of the element yielded last -/
theorem iterIndex_sim (a : Arr) (it : ArrIter) (c : Cursor) (hs : Sim a it c) :
    iterIndex it = c.index := by
  unfold iterIndex Cursor.index
  rw [hs.2.1]

/-! ### zip iterator (two distinct arrays advanced in lock-step) -/

theorem removeAt_split (a : Arr) (d' t : List Nat) (y : Nat) (m : Mem) (hinv : a.Inv)
    (habs : a.abs = (d' ++ [y]) ++ t) :
    (a.removeAt d'.length m).1 = .ok ∧ (a.removeAt d'.length m).2.1 = some y ∧
    (a.removeAt d'.length m).2.2.1.abs = d' ++ t ∧ Kept a (a.removeAt d'.length m).2.2.1 ∧
    (a.removeAt d'.length m).2.2.1.size ≤ a.size ∧ (a.removeAt d'.length m).2.2.2 = m := by
  obtain ⟨r1, r2, r3, r4, r5, r6, r7, r8, r9⟩ := removeAt_spec a d'.length m hinv
  have hlt : d'.length < a.abs.length := by rw [habs]; simp <;> omega
  unfold Spec.Seq.removeAt at r2 r3
  simp only [hlt, if_true] at r2 r3
  refine ⟨r8.2 (by simpa using hlt), ?_, ?_, r4, r5, r6⟩
  · rw [r2, habs, getD_last_of_split]
  · rw [r3, habs, eraseIdx_last_of_split]

theorem replaceAt_split (a : Arr) (d' t : List Nat) (y x : Nat) (m : Mem) (hinv : a.Inv)
    (habs : a.abs = (d' ++ [y]) ++ t) :
    (a.replaceAt x d'.length m).1 = .ok ∧ (a.replaceAt x d'.length m).2.1 = some y ∧
    (a.replaceAt x d'.length m).2.2.1.abs = (d' ++ [x]) ++ t ∧ Kept a (a.replaceAt x d'.length m).2.2.1 ∧
    (a.replaceAt x d'.length m).2.2.1.size = a.size ∧ (a.replaceAt x d'.length m).2.2.2 = m := by
  obtain ⟨r1, r2, r3, r4, r5, r6, r7, r8⟩ := replaceAt_spec a x d'.length m hinv
  have hlt : d'.length < a.abs.length := by rw [habs]; simp <;> omega
  unfold Spec.Seq.replaceAt at r2 r3
  simp only [hlt, if_true] at r2 r3
  refine ⟨r8.2 (by simpa using hlt), ?_, ?_, r5, r4, r6⟩
  · rw [r2, habs, getD_last_of_split]
  · rw [r3, habs, set_last_of_split]

/-- both ideal cursors split their array at the same concrete index -/
def ZSim (a1 a2 : Arr) (it : ArrIter) (z : ZipCursor) : Prop :=
  z.done1 ++ z.todo1 = a1.abs ∧ z.done2 ++ z.todo2 = a2.abs ∧
  z.done1.length = it.index ∧ z.done2.length = it.index ∧ z.removed = it.lastRemoved

theorem zsim_init (a1 a2 : Arr) :
    ZSim a1 a2 {} { done1 := [], todo1 := a1.abs, done2 := [], todo2 := a2.abs, removed := false } :=
  ⟨rfl, rfl, rfl, rfl, rfl⟩

theorem ZSim.index_le {a1 a2 : Arr} {it : ArrIter} {z : ZipCursor} (h : ZSim a1 a2 it z) :
    it.index ≤ a1.size ∧ it.index ≤ a2.size := by
  have e1 := congrArg List.length h.1
  have e2 := congrArg List.length h.2.1
  simp only [List.length_append, abs_length] at e1 e2
  have := h.2.2.1
  have := h.2.2.2.1
  omega

/-- `cc_array_zip_iter_next`: yields the pair at the common position, stops at the shorter array -/
theorem zipNext_sim (a1 a2 : Arr) (it : ArrIter) (z : ZipCursor) (m : Mem) (hi1 : a1.Inv) (hi2 : a2.Inv)
    (hs : ZSim a1 a2 it z) :
    (zipNext a1 a2 it m).1 = z.next.1 ∧ (zipNext a1 a2 it m).2.1 = z.next.2.1 ∧
    ZSim a1 a2 (zipNext a1 a2 it m).2.2.1 z.next.2.2 ∧ (zipNext a1 a2 it m).2.2.2 = m := by
  obtain ⟨l1, l2⟩ := hs.index_le
  obtain ⟨s1, s2, s3, s4, s5⟩ := hs
  have b1 := hi1.size_le_len
  have b2 := hi2.size_le_len
  have e1 := congrArg List.length s1
  have e2 := congrArg List.length s2
  simp only [List.length_append, abs_length] at e1 e2
  unfold zipNext ZipCursor.next
  cases ht1 : z.todo1 with
  | nil =>
    have : (decide (it.index ≥ a1.size) || decide (it.index ≥ a2.size)) = true := by
      simp [ht1] at e1; simp <;> omega
    simp only [this, if_true]
    exact ⟨by triv, by triv, ⟨s1, s2, s3, s4, s5⟩, by triv⟩
  | cons x t1 =>
    cases ht2 : z.todo2 with
    | nil =>
      have : (decide (it.index ≥ a1.size) || decide (it.index ≥ a2.size)) = true := by
        simp [ht2] at e2; simp <;> omega
      simp only [this, if_true]
      exact ⟨by triv, by triv, ⟨s1, s2, s3, s4, s5⟩, by triv⟩
    | cons y t2 =>
      simp only [ht1, ht2, List.length_cons] at e1 e2
      have : (decide (it.index ≥ a1.size) || decide (it.index ≥ a2.size)) = false := by simp; omega
      have h6 : (decide (it.index < a1.buf.length) && decide (it.index < a2.buf.length)) = true := by simp; omega
      have hx : a1.buf.get it.index = x := by
        rw [← abs_getD a1 _ (by omega), ← s1, ht1, ← s3]; exact getD_append_length z.done1 t1 x
      have hy : a2.buf.get it.index = y := by
        rw [← abs_getD a2 _ (by omega), ← s2, ht2, ← s4]; exact getD_append_length z.done2 t2 y
      simp only [this, Bool.false_eq_true, if_false, h6, Mem.check_true, hx, hy]
      refine ⟨by triv, by triv, ⟨?_, ?_, by simp [s3], by simp [s4], by triv⟩, by triv⟩
      · simp only [List.append_assoc, List.singleton_append]; rw [← ht1]; exact s1
      · simp only [List.append_assoc, List.singleton_append]; rw [← ht2]; exact s2

theorem wdec_big (n : Nat) (h : n ≤ Gen.CC_MAX_ELEMENTS) : ¬ wdec 0 < n := by
  have : Gen.CC_MAX_ELEMENTS = 2 ^ 64 - 2 := by decide
  simp only [wdec, if_true]
  omega

/-- `cc_array_zip_iter_remove`: removes the pair yielded last from both arrays -/
theorem zipRemove_sim (a1 a2 : Arr) (it : ArrIter) (z : ZipCursor) (m : Mem) (hi1 : a1.Inv) (hi2 : a2.Inv)
    (hs : ZSim a1 a2 it z) :
    (zipRemove a1 a2 it m).1 = z.remove.1 ∧ (zipRemove a1 a2 it m).2.1 = z.remove.2.1 ∧
    ZSim (zipRemove a1 a2 it m).2.2.1 (zipRemove a1 a2 it m).2.2.2.1 (zipRemove a1 a2 it m).2.2.2.2.1 z.remove.2.2 ∧
    Kept a1 (zipRemove a1 a2 it m).2.2.1 ∧ Kept a2 (zipRemove a1 a2 it m).2.2.2.1 ∧
    (zipRemove a1 a2 it m).2.2.1.size ≤ a1.size ∧ (zipRemove a1 a2 it m).2.2.2.1.size ≤ a2.size ∧
    (zipRemove a1 a2 it m).2.2.2.2.2 = m ∧
    ((zipRemove a1 a2 it m).1 ≠ .ok → (zipRemove a1 a2 it m).2.2.1 = a1 ∧ (zipRemove a1 a2 it m).2.2.2.1 = a2 ∧
      (zipRemove a1 a2 it m).2.2.2.2.1 = it) := by
  obtain ⟨l1, l2⟩ := hs.index_le
  obtain ⟨s1, s2, s3, s4, s5⟩ := hs
  unfold zipRemove ZipCursor.remove
  by_cases hd : z.done1 = []
  · have hi0 : it.index = 0 := by rw [← s3, hd]; rfl
    have w1 := wdec_big a1.size (Nat.le_trans hi1.1 (Nat.le_trans hi1.2.2.2 (Nat.div_le_self _ _)))
    have : (decide (wdec it.index ≥ a1.size) || decide (wdec it.index ≥ a2.size)) = true := by
      rw [hi0]; simp; left; omega
    simp only [this, if_true, hd, true_or]
    exact ⟨by triv, by triv, ⟨s1, s2, s3, s4, s5⟩, Kept.refl _, Kept.refl _, Nat.le_refl _, Nat.le_refl _, by triv,
      fun _ => ⟨by triv, by triv, by triv⟩⟩
  · obtain ⟨d1, y1, hd1⟩ := last_split z.done1 hd
    have hidx : it.index = d1.length + 1 := by rw [← s3, hd1]; simp
    have hd2ne : z.done2 ≠ [] := by
      intro h; rw [h] at s4; simp at s4; omega
    obtain ⟨d2, y2, hd2⟩ := last_split z.done2 hd2ne
    have hlen2 : d2.length = d1.length := by
      have : z.done2.length = d1.length + 1 := by rw [s4, hidx]
      rw [hd2] at this; simpa using this
    have hw : wdec it.index = d1.length := by simp [wdec, hidx]
    have : (decide (wdec it.index ≥ a1.size) || decide (wdec it.index ≥ a2.size)) = false := by
      rw [hw]; simp; omega
    have hor : ¬ (z.done1 = [] ∨ z.done2 = []) := by simp [hd, hd2ne]
    simp only [this, Bool.false_eq_true, if_false, hor]
    by_cases hr : it.lastRemoved = true
    · have hc : z.removed = true := by rw [s5]; exact hr
      simp only [hr, Bool.not_true, Bool.false_eq_true, if_false, hc, if_true]
      exact ⟨by triv, by triv, ⟨s1, s2, s3, s4, s5⟩, Kept.refl _, Kept.refl _, Nat.le_refl _, Nat.le_refl _, by triv,
        fun _ => ⟨by triv, by triv, by triv⟩⟩
    · have hrf : it.lastRemoved = false := by simpa using hr
      have hc : z.removed = false := by rw [s5]; exact hrf
      simp only [hrf, Bool.not_false, if_true, hc, Bool.false_eq_true, if_false, hw]
      have habs1 : a1.abs = (d1 ++ [y1]) ++ z.todo1 := by rw [← s1, hd1]
      have habs2 : a2.abs = (d2 ++ [y2]) ++ z.todo2 := by rw [← s2, hd2]
      obtain ⟨p1, p2, p3, p4, p5, p6⟩ := removeAt_split a1 d1 z.todo1 y1 m hi1 habs1
      rw [← hlen2]
      have q := removeAt_split a2 d2 z.todo2 y2 (a1.removeAt d1.length m).2.2.2 hi2 habs2
      rw [hlen2] at q ⊢
      obtain ⟨q1, q2, q3, q4, q5, q6⟩ := q
      refine ⟨by triv, ?_, ⟨?_, ?_, ?_, ?_, by triv⟩, p4, q4, p5, q5, by rw [q6, p6], fun h => absurd rfl h⟩
      · rw [p2, q2, hd1, hd2]; simp
      · simp only; rw [p3, hd1, List.dropLast_concat]
      · simp only; rw [q3, hd2, List.dropLast_concat]
      · simp only; rw [hd1, List.dropLast_concat, hidx]; rfl
      · simp only; rw [hd2, List.dropLast_concat, hidx, hlen2]; rfl

/-- `cc_array_zip_iter_replace`: replaces the pair yielded last -/
theorem zipReplace_sim (a1 a2 : Arr) (it : ArrIter) (z : ZipCursor) (x y : Nat) (m : Mem)
    (hi1 : a1.Inv) (hi2 : a2.Inv) (hs : ZSim a1 a2 it z) :
    (zipReplace a1 a2 it x y m).1 = (z.replace x y).1 ∧ (zipReplace a1 a2 it x y m).2.1 = (z.replace x y).2.1 ∧
    ZSim (zipReplace a1 a2 it x y m).2.2.1 (zipReplace a1 a2 it x y m).2.2.2.1 it (z.replace x y).2.2 ∧
    Kept a1 (zipReplace a1 a2 it x y m).2.2.1 ∧ Kept a2 (zipReplace a1 a2 it x y m).2.2.2.1 ∧
    (zipReplace a1 a2 it x y m).2.2.1.size = a1.size ∧ (zipReplace a1 a2 it x y m).2.2.2.1.size = a2.size ∧
    (zipReplace a1 a2 it x y m).2.2.2.2 = m ∧
    ((zipReplace a1 a2 it x y m).1 ≠ .ok → (zipReplace a1 a2 it x y m).2.2.1 = a1 ∧
      (zipReplace a1 a2 it x y m).2.2.2.1 = a2) := by
  obtain ⟨l1, l2⟩ := hs.index_le
  obtain ⟨s1, s2, s3, s4, s5⟩ := hs
  unfold zipReplace ZipCursor.replace
  by_cases hd : z.done1 = []
  · have hi0 : it.index = 0 := by rw [← s3, hd]; rfl
    have w1 := wdec_big a1.size (Nat.le_trans hi1.1 (Nat.le_trans hi1.2.2.2 (Nat.div_le_self _ _)))
    have : (decide (wdec it.index ≥ a1.size) || decide (wdec it.index ≥ a2.size)) = true := by
      rw [hi0]; simp; left; omega
    simp only [this, if_true, hd, true_or]
    exact ⟨by triv, by triv, ⟨s1, s2, s3, s4, s5⟩, Kept.refl _, Kept.refl _, by triv, by triv, by triv,
      fun _ => ⟨by triv, by triv⟩⟩
  · obtain ⟨d1, y1, hd1⟩ := last_split z.done1 hd
    have hidx : it.index = d1.length + 1 := by rw [← s3, hd1]; simp
    have hd2ne : z.done2 ≠ [] := by
      intro h; rw [h] at s4; simp at s4; omega
    obtain ⟨d2, y2, hd2⟩ := last_split z.done2 hd2ne
    have hlen2 : d2.length = d1.length := by
      have : z.done2.length = d1.length + 1 := by rw [s4, hidx]
      rw [hd2] at this; simpa using this
    have hw : wdec it.index = d1.length := by simp [wdec, hidx]
    have : (decide (wdec it.index ≥ a1.size) || decide (wdec it.index ≥ a2.size)) = false := by
      rw [hw]; simp; omega
    have hor : ¬ (z.done1 = [] ∨ z.done2 = []) := by simp [hd, hd2ne]
    simp only [this, Bool.false_eq_true, if_false, hor]
    simp only [hw]
    have habs1 : a1.abs = (d1 ++ [y1]) ++ z.todo1 := by rw [← s1, hd1]
    have habs2 : a2.abs = (d2 ++ [y2]) ++ z.todo2 := by rw [← s2, hd2]
    obtain ⟨p1, p2, p3, p4, p5, p6⟩ := replaceAt_split a1 d1 z.todo1 y1 x m hi1 habs1
    rw [← hlen2]
    have q := replaceAt_split a2 d2 z.todo2 y2 y (a1.replaceAt x d1.length m).2.2.2 hi2 habs2
    rw [hlen2] at q ⊢
    obtain ⟨q1, q2, q3, q4, q5, q6⟩ := q
    refine ⟨by triv, ?_, ⟨?_, ?_, ?_, ?_, s5⟩, p4, q4, p5, q5, by rw [q6, p6], fun h => absurd rfl h⟩
    · rw [p2, q2, hd1, hd2]; simp
    · simp only; rw [p3, hd1, List.dropLast_concat]
    · simp only; rw [q3, hd2, List.dropLast_concat]
    · simp only; rw [hd1, List.dropLast_concat, hidx]; simp
    · simp only; rw [hd2, List.dropLast_concat, hidx]; simp [hlen2]

theorem zipIndex_sim (a1 a2 : Arr) (it : ArrIter) (z : ZipCursor) (hs : ZSim a1 a2 it z) :
    iterIndex it = z.index := by
  unfold iterIndex ZipCursor.index
  rw [hs.2.2.1]

/-! ### zip_iter_add -/

/-- physical frame of a successful insertion without the allocator conjunct of `GrowFrame` -/
def Grew (a a' : Arr) : Prop :=
  a'.size = a.size + 1 ∧ a'.size ≤ a'.capacity ∧ a'.capacity ≤ a'.buf.length ∧
  (a'.capacity = a.capacity ∨ (a.size = a.capacity ∧ a'.capacity = a.newCapacity ∧ a.capacity < a.newCapacity ∧
    a.newCapacity ≤ Gen.CC_MAX_ELEMENTS / 8)) ∧
  a'.grow = a.grow

theorem GrowFrame.grew {a a' : Arr} {m : Mem} (g : GrowFrame a a' m) : Grew a a' := by
  obtain ⟨g1, g2, g3, g4, g5⟩ := g
  refine ⟨g1, g2, g3, ?_, g5⟩
  rcases g4 with g4 | ⟨k1, k2, k3, _, k5⟩
  · exact Or.inl g4
  · exact Or.inr ⟨k1, k2, k3, k5⟩

theorem Grew.inv {a a' : Arr} (h : a.Inv) (g : Grew a a') : a'.Inv := by
  obtain ⟨h1, h2, h3, h4⟩ := h
  obtain ⟨g1, g2, g3, g4, g5⟩ := g
  refine ⟨g2, g3, ?_, ?_⟩ <;> rcases g4 with g4 | ⟨_, g4, g6, g7⟩ <;> omega

/-- `add_at` into an array that has room needs no allocation and cannot fail for `i ≤ size` -/
theorem addAt_room (a : Arr) (x i : Nat) (m : Mem) (h1 : a.size < a.capacity) (h2 : a.capacity ≤ a.buf.length)
    (hi : i ≤ a.size) :
    (a.addAt x i m).1 = .ok ∧ (a.addAt x i m).2.1.abs = a.abs.insertIdx i x ∧
    (a.addAt x i m).2.1.size = a.size + 1 ∧ Kept a (a.addAt x i m).2.1 ∧ (a.addAt x i m).2.2 = m := by
  by_cases heq : i = a.size
  · subst heq
    have hl : a.size < a.buf.length := by omega
    rw [addAt_end, add_room a x m h1]
    have e : a.abs.insertIdx a.size x = a.abs ++ [x] := by
      have := @List.insertIdx_length_self _ a.abs x
      rwa [abs_length] at this
    refine ⟨by rw [store_eq a x m hl], by rw [store_abs a x m hl, e], ?_⟩
    rw [store_eq a x m hl]
    exact ⟨rfl, ⟨rfl, by simp, rfl⟩, rfl⟩
  · have hlt : i < a.size := by omega
    have hnf : ¬ a.size ≥ a.capacity := by omega
    have hl : a.size + 1 ≤ a.buf.length := by omega
    rw [addAt_mid a x i m hlt]
    simp only [hnf, if_false]
    refine ⟨by rw [insertShift_eq a x i m hl hi], insertShift_abs a x i m hl hi, ?_⟩
    rw [insertShift_eq a x i m hl hi]
    exact ⟨rfl, ⟨rfl, by simp, rfl⟩, rfl⟩

/-- the room-making step of `cc_array_zip_iter_add` -/
def ensureRoom (a : Arr) (m : Mem) : Stat × Arr × Mem :=
  if a.size = a.capacity then a.expandCapacity m else (.ok, a, m)

theorem ensureRoom_spec (a : Arr) (m : Mem) (hinv : a.Inv) :
    (((ensureRoom a m).1 = .ok ∧ (ensureRoom a m).2.1.abs = a.abs ∧ (ensureRoom a m).2.1.size = a.size ∧
        (ensureRoom a m).2.1.size < (ensureRoom a m).2.1.capacity ∧
        (ensureRoom a m).2.1.capacity ≤ (ensureRoom a m).2.1.buf.length ∧
        (ensureRoom a m).2.1.grow = a.grow ∧
        ((ensureRoom a m).2.1.capacity = a.capacity ∨
          (a.size = a.capacity ∧ (ensureRoom a m).2.1.capacity = a.newCapacity ∧ a.capacity < a.newCapacity ∧
            a.newCapacity ≤ Gen.CC_MAX_ELEMENTS / 8))) ∨
     ((ensureRoom a m).1 ≠ .ok ∧ (ensureRoom a m).2.1 = a)) ∧
    (ensureRoom a m).2.2.live = m.live ∧ (ensureRoom a m).2.2.fault = m.fault := by
  have hinv' := hinv
  obtain ⟨h1, h2, h3, h4⟩ := hinv
  by_cases hf : a.size = a.capacity
  · have he : ensureRoom a m = a.expandCapacity m := by unfold ensureRoom; rw [if_pos hf]
    rw [he]
    by_cases hok : (a.expandCapacity m).1 = .ok
    · obtain ⟨e1, e2, e3, e4, e5, e6, e7, e8, e9, e10⟩ := expandCapacity_ok a m hinv' hok
      exact ⟨Or.inl ⟨hok, e1, by rw [e2, hf], by omega, by omega, e3, Or.inr ⟨hf, e4, e6, e7⟩⟩, e9, e10⟩
    · obtain ⟨e1, e2, e3, e4⟩ := expandCapacity_err a m hok
      exact ⟨Or.inr ⟨hok, e1⟩, e3, e4⟩
  · have he : ensureRoom a m = (.ok, a, m) := by unfold ensureRoom; rw [if_neg hf]
    rw [he]
    have hlt : a.size < a.capacity := by omega
    exact ⟨Or.inl ⟨rfl, rfl, rfl, hlt, h2, rfl, Or.inl rfl⟩, rfl, rfl⟩

theorem ensureRoom_inv (a : Arr) (m : Mem) (hinv : a.Inv) : (ensureRoom a m).2.1.Inv := by
  rcases (ensureRoom_spec a m hinv).1 with ⟨_, _, h2, h3, h4, _, h6⟩ | ⟨_, hsame⟩
  · obtain ⟨i1, i2, i3, i4⟩ := hinv
    refine ⟨by omega, h4, ?_, ?_⟩ <;> rcases h6 with h6 | ⟨_, h6, h7, h8⟩ <;> omega
  · rw [hsame]; exact hinv

/-- the two insertions of `cc_array_zip_iter_add` once both arrays have room — both or none (A11):
the status of each inner `add_at` is returned, and when the second fails the first element is taken
out again -/
def zipAddCore (b1 b2 : Arr) (it : ArrIter) (x y : Nat) (m : Mem) : Stat × Arr × Arr × ArrIter × Mem :=
  let r1 := b1.addAt x it.index m
  if r1.1 != .ok then (r1.1, r1.2.1, b2, it, r1.2.2) else
  let r2 := b2.addAt y it.index r1.2.2
  if r2.1 != .ok then
    let u := r1.2.1.removeAt it.index r2.2.2
    (r2.1, u.2.2.1, r2.2.1, it, u.2.2.2) else
  (.ok, r1.2.1, r2.2.1, { it with index := it.index + 1 }, r2.2.2)

theorem zipAdd_unfold (a1 a2 : Arr) (it : ArrIter) (x y : Nat) (m : Mem) :
    zipAdd a1 a2 it x y m =
      if (ensureRoom a1 m).1 != .ok then (.errAlloc, (ensureRoom a1 m).2.1, a2, it, (ensureRoom a1 m).2.2) else
      if (ensureRoom a2 (ensureRoom a1 m).2.2).1 != .ok then
        (.errAlloc, (ensureRoom a1 m).2.1, (ensureRoom a2 (ensureRoom a1 m).2.2).2.1, it,
          (ensureRoom a2 (ensureRoom a1 m).2.2).2.2) else
      zipAddCore (ensureRoom a1 m).2.1 (ensureRoom a2 (ensureRoom a1 m).2.2).2.1 it x y
        (ensureRoom a2 (ensureRoom a1 m).2.2).2.2 := by
  unfold zipAdd zipAddCore ensureRoom
  rfl

/-- with room in both arrays the two insertions touch no memory; for a cursor inside both arrays both
succeed, for any other cursor value the call reports `CC_ERR_OUT_OF_RANGE` with both contents, the
second array and the cursor as they were (the first array physically: an insertion undone) -/
theorem zipAddCore_room (b1 b2 : Arr) (it : ArrIter) (x y : Nat) (m : Mem) (h1 : b1.Inv) (h2 : b2.Inv)
    (r1 : b1.size < b1.capacity) (r2 : b2.size < b2.capacity) :
    (zipAddCore b1 b2 it x y m).2.2.2.2 = m ∧
    ((it.index ≤ b1.size ∧ it.index ≤ b2.size ∧
        zipAddCore b1 b2 it x y m = (.ok, (b1.addAt x it.index m).2.1, (b2.addAt y it.index m).2.1,
          { it with index := it.index + 1 }, m)) ∨
     (¬ (it.index ≤ b1.size ∧ it.index ≤ b2.size) ∧ (zipAddCore b1 b2 it x y m).1 = .errOutOfRange ∧
        (zipAddCore b1 b2 it x y m).2.1.abs = b1.abs ∧ (zipAddCore b1 b2 it x y m).2.1.size = b1.size ∧
        Kept b1 (zipAddCore b1 b2 it x y m).2.1 ∧ (zipAddCore b1 b2 it x y m).2.2.1 = b2 ∧
        (zipAddCore b1 b2 it x y m).2.2.2.1 = it)) := by
  by_cases hi1 : it.index ≤ b1.size
  · obtain ⟨p1, p2, p3, p4, p5⟩ := addAt_room b1 x it.index m r1 h1.2.1 hi1
    by_cases hi2 : it.index ≤ b2.size
    · obtain ⟨q1, q2, q3, q4, q5⟩ := addAt_room b2 y it.index m r2 h2.2.1 hi2
      have e : zipAddCore b1 b2 it x y m = (.ok, (b1.addAt x it.index m).2.1, (b2.addAt y it.index m).2.1,
          { it with index := it.index + 1 }, m) := by
        unfold zipAddCore
        simp only [p1, p5, q1, q5, bne_self_eq_false, Bool.false_eq_true, if_false]
      exact ⟨by rw [e], Or.inl ⟨hi1, hi2, e⟩⟩
    · have q := addAt_range b2 y it.index m (by omega)
      obtain ⟨k1, k2, k3⟩ := p4
      have hinv' : (b1.addAt x it.index m).2.1.Inv := by
        obtain ⟨i1, i2, i3, i4⟩ := h1
        exact ⟨by omega, by omega, by omega, by omega⟩
      obtain ⟨u1, u2, u3, u4, u5, u6, _, _, _⟩ := removeAt_spec (b1.addAt x it.index m).2.1 it.index m hinv'
      have hsp : Spec.Seq.removeAt (b1.abs.insertIdx it.index x) it.index = (.ok, some x, b1.abs) := by
        have hl : it.index < (b1.abs.insertIdx it.index x).length := by
          rw [List.length_insertIdx]; simp only [abs_length]; split <;> omega
        unfold Spec.Seq.removeAt
        simp only [hl, if_true, List.eraseIdx_insertIdx_self]
        congr 2
        rw [List.getD_eq_getElem?_getD, List.getElem?_insertIdx_self, if_pos (by simp only [abs_length]; exact hi1)]
        rfl
      rw [p2, hsp] at u1 u3
      have e : zipAddCore b1 b2 it x y m = (.errOutOfRange, ((b1.addAt x it.index m).2.1.removeAt it.index m).2.2.1, b2, it,
          ((b1.addAt x it.index m).2.1.removeAt it.index m).2.2.2) := by
        unfold zipAddCore
        simp only [p1, p5, q, bne_self_eq_false, Bool.false_eq_true, if_false]
        rfl
      rw [e]
      refine ⟨u6, Or.inr ⟨fun h => hi2 h.2, rfl, u3, ?_, ⟨by rw [u4.1, k1], by rw [u4.2.1, k2], by rw [u4.2.2, k3]⟩, rfl, rfl⟩⟩
      have := (removeAt_spec (b1.addAt x it.index m).2.1 it.index m hinv').2.2.2.2.2.2.2.2 u1
      show ((b1.addAt x it.index m).2.1.removeAt it.index m).2.2.1.size = b1.size
      omega
  · have q := addAt_range b1 x it.index m (by omega)
    have e : zipAddCore b1 b2 it x y m = (.errOutOfRange, b1, b2, it, m) := by
      unfold zipAddCore
      simp only [q]
      rfl
    rw [e]
    exact ⟨rfl, Or.inr ⟨fun h => hi1 h.1, rfl, rfl, rfl, Kept.refl b1, rfl, rfl⟩⟩

/-- for a cursor inside both arrays (every cursor a zip iterator over two arrays can reach)
`cc_array_zip_iter_add` is: room in the first, room in the second, then the two insertions -/
theorem zipAdd_eq (a1 a2 : Arr) (it : ArrIter) (x y : Nat) (m : Mem) (h1 : a1.Inv) (h2 : a2.Inv)
    (hi1 : it.index ≤ a1.size) (hi2 : it.index ≤ a2.size) :
    zipAdd a1 a2 it x y m =
      if (ensureRoom a1 m).1 != .ok then (.errAlloc, (ensureRoom a1 m).2.1, a2, it, (ensureRoom a1 m).2.2) else
      if (ensureRoom a2 (ensureRoom a1 m).2.2).1 != .ok then
        (.errAlloc, (ensureRoom a1 m).2.1, (ensureRoom a2 (ensureRoom a1 m).2.2).2.1, it,
          (ensureRoom a2 (ensureRoom a1 m).2.2).2.2) else
      (.ok, ((ensureRoom a1 m).2.1.addAt x it.index (ensureRoom a2 (ensureRoom a1 m).2.2).2.2).2.1,
        ((ensureRoom a2 (ensureRoom a1 m).2.2).2.1.addAt y it.index
          ((ensureRoom a1 m).2.1.addAt x it.index (ensureRoom a2 (ensureRoom a1 m).2.2).2.2).2.2).2.1,
        { it with index := it.index + 1 },
        ((ensureRoom a2 (ensureRoom a1 m).2.2).2.1.addAt y it.index
          ((ensureRoom a1 m).2.1.addAt x it.index (ensureRoom a2 (ensureRoom a1 m).2.2).2.2).2.2).2.2) := by
  rw [zipAdd_unfold]
  split
  · rfl
  · split
    · rfl
    · rename_i n1 n2
      have o1 : (ensureRoom a1 m).1 = .ok := by simpa using n1
      have o2 : (ensureRoom a2 (ensureRoom a1 m).2.2).1 = .ok := by simpa using n2
      rcases (ensureRoom_spec a1 m h1).1 with ⟨_, _, c1, d1, e1, _⟩ | ⟨n, _⟩
      · rcases (ensureRoom_spec a2 (ensureRoom a1 m).2.2 h2).1 with ⟨_, _, c2, d2, e2, _⟩ | ⟨n', _⟩
        · obtain ⟨hm, hc⟩ := zipAddCore_room (ensureRoom a1 m).2.1 (ensureRoom a2 (ensureRoom a1 m).2.2).2.1 it x y
            (ensureRoom a2 (ensureRoom a1 m).2.2).2.2 (ensureRoom_inv a1 m h1) (ensureRoom_inv a2 _ h2) d1 d2
          rcases hc with ⟨_, _, e⟩ | ⟨hn, _⟩
          · have p5 := (addAt_room (ensureRoom a1 m).2.1 x it.index (ensureRoom a2 (ensureRoom a1 m).2.2).2.2 d1 e1
              (by omega)).2.2.2.2
            have q5 := (addAt_room (ensureRoom a2 (ensureRoom a1 m).2.2).2.1 y it.index
              (ensureRoom a2 (ensureRoom a1 m).2.2).2.2 d2 e2 (by omega)).2.2.2.2
            rw [e, p5, q5]
          · exact absurd ⟨by omega, by omega⟩ hn
        · exact absurd o2 n'
      · exact absurd o1 n

/-- `cc_array_zip_iter_add`: on success a pair is inserted after the pair yielded last and the cursor
steps over it; when either array cannot make room the call reports `CC_ERR_ALLOC`, both contents
and the cursor are unchanged (A8; the first array may have been re-allocated, which changes neither
its content nor its size), and the ledger is balanced -/
theorem zipAdd_sim (a1 a2 : Arr) (it : ArrIter) (z : ZipCursor) (x y : Nat) (m : Mem)
    (hi1 : a1.Inv) (hi2 : a2.Inv) (hs : ZSim a1 a2 it z) :
    (((zipAdd a1 a2 it x y m).1 = .ok ∧
        ZSim (zipAdd a1 a2 it x y m).2.1 (zipAdd a1 a2 it x y m).2.2.1 (zipAdd a1 a2 it x y m).2.2.2.1 (z.add x y).2 ∧
        Grew a1 (zipAdd a1 a2 it x y m).2.1 ∧ Grew a2 (zipAdd a1 a2 it x y m).2.2.1) ∨
     ((zipAdd a1 a2 it x y m).1 = .errAlloc ∧
        (zipAdd a1 a2 it x y m).2.1.abs = a1.abs ∧ (zipAdd a1 a2 it x y m).2.1.size = a1.size ∧
        (zipAdd a1 a2 it x y m).2.1.size ≤ (zipAdd a1 a2 it x y m).2.1.capacity ∧
        (zipAdd a1 a2 it x y m).2.1.capacity ≤ (zipAdd a1 a2 it x y m).2.1.buf.length ∧
        (zipAdd a1 a2 it x y m).2.1.grow = a1.grow ∧
        ((zipAdd a1 a2 it x y m).2.1.capacity = a1.capacity ∨ (zipAdd a1 a2 it x y m).2.1.capacity = a1.newCapacity) ∧
        (zipAdd a1 a2 it x y m).2.2.1 = a2 ∧ (zipAdd a1 a2 it x y m).2.2.2.1 = it ∧
        (a1.size = a1.capacity ∨ a2.size = a2.capacity))) ∧
    (zipAdd a1 a2 it x y m).2.2.2.2.live = m.live ∧ (zipAdd a1 a2 it x y m).2.2.2.2.fault = m.fault := by
  obtain ⟨l1, l2⟩ := hs.index_le
  obtain ⟨s1, s2, s3, s4, s5⟩ := hs
  rw [zipAdd_eq a1 a2 it x y m hi1 hi2 l1 l2]
  obtain ⟨r1, rl1, rf1⟩ := ensureRoom_spec a1 m hi1
  obtain ⟨r2, rl2, rf2⟩ := ensureRoom_spec a2 (ensureRoom a1 m).2.2 hi2
  rcases r1 with ⟨o1, b1, c1, d1, e1, f1, g1⟩ | ⟨n1, same1⟩
  · simp only [o1, bne_self_eq_false, Bool.false_eq_true, if_false]
    rcases r2 with ⟨o2, b2, c2, d2, e2, f2, g2⟩ | ⟨n2, same2⟩
    · simp only [o2, bne_self_eq_false, Bool.false_eq_true, if_false]
      obtain ⟨p1, p2, p3, p4, p5⟩ := addAt_room (ensureRoom a1 m).2.1 x it.index
        (ensureRoom a2 (ensureRoom a1 m).2.2).2.2 d1 e1 (by omega)
      rw [p5]
      obtain ⟨q1, q2, q3, q4, q5⟩ := addAt_room (ensureRoom a2 (ensureRoom a1 m).2.2).2.1 y it.index
        (ensureRoom a2 (ensureRoom a1 m).2.2).2.2 d2 e2 (by omega)
      obtain ⟨pk1, pk2, pk3⟩ := p4
      obtain ⟨qk1, qk2, qk3⟩ := q4
      refine ⟨Or.inl ⟨by triv, ⟨?_, ?_, by simp [ZipCursor.add, s3], by simp [ZipCursor.add, s4], s5⟩, ?_, ?_⟩, ?_, ?_⟩
      · simp only [ZipCursor.add]
        rw [p2, b1, ← s1, ← s3, insertIdx_append_length]
      · simp only [ZipCursor.add]
        rw [q2, b2, ← s2, ← s4, insertIdx_append_length]
      · refine ⟨by rw [p3, c1], by omega, by omega, ?_, by rw [pk3, f1]⟩
        rw [pk1]; exact g1
      · refine ⟨by rw [q3, c2], by omega, by omega, ?_, by rw [qk3, f2]⟩
        rw [qk1]; exact g2
      · rw [q5, rl2, rl1]
      · rw [q5, rf2, rf1]
    · have hne : ((ensureRoom a2 (ensureRoom a1 m).2.2).1 != .ok) = true := by simpa using n2
      simp only [hne, if_true]
      have hfull2 : a2.size = a2.capacity := by
        apply Decidable.byContradiction
        intro hnf
        apply n2
        unfold ensureRoom; simp [hnf]
      refine ⟨Or.inr ⟨by triv, b1, c1, by omega, e1, f1, ?_, same2, by triv, Or.inr hfull2⟩, by rw [rl2, rl1], by rw [rf2, rf1]⟩
      rcases g1 with g1 | ⟨_, g1, _⟩
      · exact Or.inl g1
      · exact Or.inr g1
  · have hne : ((ensureRoom a1 m).1 != .ok) = true := by simpa using n1
    simp only [hne, if_true]
    have hfull1 : a1.size = a1.capacity := by
      apply Decidable.byContradiction
      intro hnf
      apply n1
      unfold ensureRoom; simp [hnf]
    rw [same1]
    exact ⟨Or.inr ⟨by triv, rfl, rfl, hi1.1, hi1.2.1, rfl, Or.inl rfl, by triv, by triv, Or.inl hfull1⟩, rl1, rf1⟩

end CC.Arr
