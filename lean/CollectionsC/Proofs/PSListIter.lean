import CollectionsC.Proofs.PSListBulk
/-! Pointer-level model of `cc_slist.c`, part 7: the iterator (`CC_SListIter`) on the raw links.  The iterator fields are node
ids; `SItRel` says where they point: `next` at the first node not yet passed, `current` at the last node passed (or NULL
after a removal), `prev` at the predecessor `unlinkn` needs. -/
namespace CC.PSList
open CC
open CC.PList (Heap St Hdr PNode Cell nd setNext setData optSetNext upd idsOf dataOf nxt lastOr)
open CC.PList

/-- the iterator stands between `pre` (passed) and `rest` (ahead) -/
structure SItRel (cs pre rest : List Cell) (it : PIter) : Prop where
  split : cs = pre ++ rest
  nxt : it.next = nxt rest none
  idx : it.index = pre.length
  cur : (it.current = none ∧ it.prev = lastOr pre none) ∨
        ∃ pre' c, pre = pre' ++ [c] ∧ it.current = some c.1 ∧ it.prev = lastOr pre' none

theorem piterInit_rel {h : Heap} {l : Hdr} {cs : List Cell} (r : SRepr h l cs) : SItRel cs [] cs (piterInit l) :=
  ⟨rfl, r.head, rfl, Or.inl ⟨rfl, rfl⟩⟩

/-- **`cc_slist_iter_next`** -/
theorem piterNext_links {h : Heap} {l : Hdr} {cs pre rest : List Cell} {it : PIter} (r : SRepr h l cs) (k : SItRel cs pre rest it) :
    (rest = [] → piterNext h it = (.iterEnd, none, it)) ∧
    (∀ a rest', rest = a :: rest' → (piterNext h it).1 = .ok ∧ (piterNext h it).2.1 = some a.2 ∧
      SItRel cs (pre ++ [a]) rest' (piterNext h it).2.2) := by
  unfold piterNext
  refine ⟨fun e => by subst e; rw [k.nxt]; rfl, fun a rest' e => ?_⟩
  subst e
  have hs : SSeg h (pre ++ a :: rest') none := by rw [← k.split]; exact r.seg
  obtain ⟨_, ha, _⟩ := SSeg_split hs
  rw [k.nxt]
  simp only [nxt_cons, nd_of ha]
  refine ⟨trivial, trivial, by rw [k.split]; simp, rfl, by simp [k.idx], Or.inr ⟨pre, a, rfl, rfl, ?_⟩⟩
  rcases k.cur with ⟨c0, p0⟩ | ⟨pre', c, e1, e2, _⟩
  · simp only [c0, if_true, p0]
  · simp only [e2, reduceCtorEq, if_false, e1, lastOr_concat]

/-- **`cc_slist_iter_replace`** -/
theorem piterReplace_links {s : St} {l : Hdr} {cs pre' rest : List Cell} {c : Cell} {it : PIter} (x : Nat)
    (r : SRepr s.heap l cs) (k : SItRel cs (pre' ++ [c]) rest it) (hc : it.current = some c.1) :
    (piterReplace s it x).1 = .ok ∧ (piterReplace s it x).2.1 = some c.2 ∧
    SRepr (piterReplace s it x).2.2.heap l (pre' ++ (c.1, x) :: rest) ∧
    SItRel (pre' ++ (c.1, x) :: rest) (pre' ++ [(c.1, x)]) rest it ∧
    (piterReplace s it x).2.2.fresh = s.fresh ∧ (∀ b, b ≠ c.1 → (piterReplace s it x).2.2.heap b = s.heap b) := by
  have e : cs = pre' ++ c :: rest := by rw [k.split]; simp
  subst e
  obtain ⟨n1, n2, na1, na2, _, _⟩ := nodup_append_cons r.nodup
  obtain ⟨s1, ha, s2⟩ := SSeg_split r.seg
  unfold piterReplace
  simp only [hc, nd_of ha]
  refine ⟨trivial, trivial, ⟨by simpa [idsOf] using r.nodup, ?_, by simpa using r.size, ?_, ?_⟩, ⟨by simp, k.nxt, by simpa using k.idx, ?_⟩, by first | trivial | rfl,
    fun b hb => upd_ne _ _ _ _ hb⟩
  · rw [SSeg_append, SSeg_cons]
    refine ⟨SSeg_upd_notin _ _ na1 s1, ?_, SSeg_upd_notin _ _ na2 s2⟩
    rw [setData, upd_eq, ha]; rfl
  · have := r.head; rw [nxt_append] at this ⊢; exact this
  · have := r.tail; rw [lastOr_append] at this ⊢; exact this
  · rcases k.cur with ⟨c0, _⟩ | ⟨p2, c2, e1, e2, e3⟩
    · rw [c0] at hc; cases hc
    · obtain ⟨ep, ec⟩ := List.append_inj' e1 rfl
      cases List.cons.inj ec |>.1
      subst ep
      exact Or.inr ⟨pre', (c.1, x), rfl, e2, e3⟩

/-- **`cc_slist_iter_remove`** with a current element: exactly the node `current` leaves the chain (unlinked behind `prev`, its
true predecessor), one block released, `current` becomes NULL, `prev`/`next` keep pointing into the list -/
theorem piterRemove_links {s : St} {l : Hdr} {cs pre' rest : List Cell} {c : Cell} {it : PIter} (m : Mem)
    (r : SRepr s.heap l cs) (hb : ∀ y, y ∈ idsOf cs → y < s.fresh) (k : SItRel cs (pre' ++ [c]) rest it) (hc : it.current = some c.1) :
    (piterRemove s l it m).1 = .ok ∧ (piterRemove s l it m).2.1 = some c.2 ∧
    (piterRemove s l it m).2.2.2.2.2 = m.freeT l.triple ∧
    SKeeps s (piterRemove s l it m).2.2.1 l (piterRemove s l it m).2.2.2.1 cs (pre' ++ rest) ∧
    SItRel (pre' ++ rest) pre' rest (piterRemove s l it m).2.2.2.2.1 := by
  have e : cs = pre' ++ c :: rest := by rw [k.split]; simp
  subst e
  have hp : it.prev = lastOr pre' none := by
    rcases k.cur with ⟨c0, _⟩ | ⟨p2, c2, e1, _, e3⟩
    · rw [c0] at hc; cases hc
    · obtain ⟨ep, _⟩ := List.append_inj' e1 rfl
      subst ep; exact e3
  obtain ⟨u1, u2, uk⟩ := unlinkn_spec s l pre' rest c m r hb
  unfold piterRemove
  simp only [hc, hp]
  exact ⟨trivial, by rw [u1], u2, uk, rfl, k.nxt, by simp [k.idx], Or.inl ⟨rfl, rfl⟩⟩

theorem piterRemove_none {s : St} {l : Hdr} {it : PIter} (m : Mem) (hc : it.current = none) :
    piterRemove s l it m = (.errValueNotFound, none, s, l, it, m) := by unfold piterRemove; simp only [hc]

/-- **`cc_slist_iter_add`** with a current element: refused — nothing happened; granted — exactly one fresh node, linked
directly behind `current` (`new->next = iter->next`), `tail` moves exactly at the end of the list; the new node becomes
`current`, the old `current` becomes `prev`, `next` is unchanged -/
theorem piterAdd_links {s : St} {l : Hdr} {cs pre' rest : List Cell} {c : Cell} {it : PIter} (x : Nat) (m : Mem)
    (r : SRepr s.heap l cs) (hb : ∀ y, y ∈ idsOf cs → y < s.fresh) (k : SItRel cs (pre' ++ [c]) rest it) (hc : it.current = some c.1) :
    ((m.allocT l.triple).1 = false → piterAdd s l it x m = (.errAlloc, s, l, it, (m.allocT l.triple).2)) ∧
    ((m.allocT l.triple).1 = true →
      (piterAdd s l it x m).1 = .ok ∧ (piterAdd s l it x m).2.2.2.2 = (m.allocT l.triple).2 ∧
      SKeeps s (piterAdd s l it x m).2.1 l (piterAdd s l it x m).2.2.1 cs (pre' ++ c :: (s.fresh, x) :: rest) ∧
      SItRel (pre' ++ c :: (s.fresh, x) :: rest) (pre' ++ [c] ++ [(s.fresh, x)]) rest (piterAdd s l it x m).2.2.2.1) := by
  have e : cs = pre' ++ c :: rest := by rw [k.split]; simp
  subst e
  unfold piterAdd
  refine ⟨fun ha => by simp [ha], fun ha => ?_⟩
  have hf := fresh_notin hb
  obtain ⟨n1, n2, na1, na2, nd12, _⟩ := nodup_append_cons r.nodup
  obtain ⟨s1, hcn, s2⟩ := SSeg_split r.seg
  have hcf : c.1 ≠ s.fresh := fun e => hf (by simp [e])
  have hlive : (s.heap c.1).isSome = true := SSeg_live r.seg c.1 (by simp)
  simp only [ha, Bool.not_true, Bool.false_eq_true, if_false, show s.alloc.1 = s.fresh from rfl, hc, optSetNext, k.nxt, k.idx,
    live_some, hlive, Mem.check_true]
  -- the heap after the three writes
  have hnew : (setNext (setNext (setData s.alloc.2.heap s.fresh x) s.fresh (nxt rest none)) c.1 (some s.fresh)) s.fresh =
      some ⟨x, nxt rest none, none⟩ := by
    rw [setNext, upd_ne _ _ _ _ (Ne.symm hcf), setNext, upd_eq, setData_alloc]; rfl
  have hold : ∀ b, b ≠ c.1 → b ≠ s.fresh →
      (setNext (setNext (setData s.alloc.2.heap s.fresh x) s.fresh (nxt rest none)) c.1 (some s.fresh)) b = s.heap b := by
    intro b h1 h2
    rw [setNext, upd_ne _ _ _ _ h1, setNext, upd_ne _ _ _ _ h2]
    exact setData_alloc_ne s x b h2
  have hseg : SSeg (setNext (setNext (setData s.alloc.2.heap s.fresh x) s.fresh (nxt rest none)) c.1 (some s.fresh))
      (pre' ++ c :: (s.fresh, x) :: rest) none := by
    have e2 : pre' ++ c :: (s.fresh, x) :: rest = (pre' ++ [c]) ++ (s.fresh, x) :: rest := by simp
    rw [e2, SSeg_append]
    constructor
    · simp only [nxt_cons]
      have s1c : SSeg s.heap (pre' ++ [c]) (nxt rest none) := by
        rw [SSeg_append]; exact ⟨s1, by simp only [SSeg_cons, nxt_nil, SSeg_nil, and_true]; exact hcn⟩
      refine SSeg_setNext_last (some s.fresh) (n := nxt rest none) ?_ na1
      refine SSeg_frame (fun b hbm => ?_) s1c
      have hbf : b ≠ s.fresh := fun e => hf (by
        rw [← e]; simp only [idsOf_append, idsOf_cons, idsOf_nil, List.mem_append, List.mem_cons, List.mem_singleton] at hbm ⊢
        rcases hbm with h | h | h
        · exact Or.inl h
        · exact Or.inr (Or.inl h)
        · cases h)
      rw [setNext, upd_ne _ _ _ _ hbf]; exact setData_alloc_ne s x b hbf
    · rw [SSeg_cons]
      refine ⟨hnew, SSeg_frame (fun b hbm => hold b (fun e => na2 (e ▸ hbm)) (fun e => hf (by rw [← e]; simp [hbm]))) s2⟩
  have hsz := r.size
  refine ⟨by first | trivial | rfl, by first | trivial | rfl, ⟨⟨?_, hseg, ?_, ?_, ?_⟩, by split <;> rfl, Nat.le_succ _, ?_, ?_, (by intro a' ha' hna'; exact absurd (by simp only [idsOf_append, idsOf_cons, List.mem_append, List.mem_cons] at ha' ⊢; rcases ha' with h | h | h <;> simp [h]) hna')⟩,
    ⟨by simp, rfl, by simp, Or.inr ⟨pre' ++ [c], (s.fresh, x), rfl, rfl, by simp⟩⟩⟩
  · have hp : (pre' ++ c :: (s.fresh, x) :: rest).Perm ((s.fresh, x) :: (pre' ++ c :: rest)) := by
      have : pre' ++ c :: (s.fresh, x) :: rest = (pre' ++ [c]) ++ (s.fresh, x) :: rest := by simp
      rw [this]
      refine List.perm_middle.trans ?_
      simp
    show ((pre' ++ c :: (s.fresh, x) :: rest).map (fun c : Cell => c.1)).Nodup
    rw [(hp.map (fun c : Cell => c.1)).nodup_iff]
    simp only [List.map_cons, List.nodup_cons]
    exact ⟨hf, r.nodup⟩
  · split <;> simp [hsz] <;> omega
  · have := r.head
    rw [nxt_append] at this
    split <;> (simp only []; rw [this, nxt_append]; cases pre' <;> rfl)
  · have ht := r.tail
    by_cases hr : rest = []
    · subst hr
      simp only [hsz, List.length_append, List.length_cons, List.length_nil, if_true]
      rw [lastOr_append]; rfl
    · have hne : ¬ (pre' ++ [c]).length = l.size := by
        rw [hsz]; simp only [List.length_append, List.length_cons, List.length_nil]
        have : 0 < rest.length := List.length_pos_iff.2 hr
        omega
      simp only [hne, if_false]
      rw [ht, lastOr_append, lastOr_append]
      simp only [lastOr_cons]
      rw [lastOr_of_ne' hr (some c.1), lastOr_of_ne' hr (some s.fresh)]
  · intro u hu
    simp only [idsOf_append, idsOf_cons, List.mem_append, List.mem_cons] at hu
    rcases hu with hu | hu | hu | hu
    · exact Nat.lt_succ_of_lt (hb _ (by simp [hu]))
    · subst hu; exact Nat.lt_succ_of_lt (hb _ (by simp))
    · subst hu; exact Nat.lt_succ_self _
    · exact Nat.lt_succ_of_lt (hb _ (by simp [hu]))
  · intro u hu hlt
    exact hold u (fun e => hu (by simp [e])) (Nat.ne_of_lt hlt)

/-! ### the zip iterator -/

def PZip.it1 (z : PZip) : PIter := { index := z.index, current := z.cur1, prev := z.prev1, next := z.next1 }
def PZip.it2 (z : PZip) : PIter := { index := z.index, current := z.cur2, prev := z.prev2, next := z.next2 }

/-- a fresh node `new` linked in behind `c`, described pointwise: `c->next = new`, `new->next` the old successor, every other
node of the list as before -/
theorem sseg_insert {h h' : Heap} {pre' rest : List Cell} {c : Cell} (new x : Nat)
    (hs : SSeg h (pre' ++ c :: rest) none) (hn : (idsOf (pre' ++ c :: rest)).Nodup)
    (hc' : h' c.1 = some ⟨c.2, some new, none⟩) (hn' : h' new = some ⟨x, nxt rest none, none⟩)
    (hfr : ∀ b, b ∈ idsOf pre' ∨ b ∈ idsOf rest → h' b = h b) :
    SSeg h' (pre' ++ c :: (new, x) :: rest) none := by
  obtain ⟨s1, _, s2⟩ := SSeg_split hs
  rw [SSeg_append, SSeg_cons, SSeg_cons]
  exact ⟨SSeg_frame (fun b hb => hfr b (Or.inl hb)) s1, hc', hn', SSeg_frame (fun b hb => hfr b (Or.inr hb)) s2⟩

/-- the header after the insertion (`tail` moves exactly when the iterator stood at the end) -/
theorem srepr_after_insert {h h' : Heap} {l : Hdr} {pre' rest : List Cell} {c : Cell} (new x idx : Nat)
    (r : SRepr h l (pre' ++ c :: rest)) (hf : new ∉ idsOf (pre' ++ c :: rest)) (hidx : idx = (pre' ++ [c]).length)
    (hseg : SSeg h' (pre' ++ c :: (new, x) :: rest) none) :
    SRepr h' { (if idx = l.size then { l with tail := some new } else l) with
               size := (if idx = l.size then { l with tail := some new } else l).size + 1 } (pre' ++ c :: (new, x) :: rest) := by
  subst hidx
  have hsz := r.size
  refine ⟨?_, hseg, ?_, ?_, ?_⟩
  · have hp : (pre' ++ c :: (new, x) :: rest).Perm ((new, x) :: (pre' ++ c :: rest)) := by
      have : pre' ++ c :: (new, x) :: rest = (pre' ++ [c]) ++ (new, x) :: rest := by simp
      rw [this]
      refine List.perm_middle.trans ?_
      simp
    show ((pre' ++ c :: (new, x) :: rest).map (fun c : Cell => c.1)).Nodup
    rw [(hp.map (fun c : Cell => c.1)).nodup_iff]
    simp only [List.map_cons, List.nodup_cons]
    exact ⟨hf, r.nodup⟩
  · split <;> simp [hsz] <;> omega
  · have := r.head
    rw [nxt_append] at this
    split <;> (simp only []; rw [this, nxt_append]; cases pre' <;> rfl)
  · have ht := r.tail
    by_cases hr : rest = []
    · subst hr
      simp only [hsz, List.length_append, List.length_cons, List.length_nil, if_true]
      rw [lastOr_append]; rfl
    · have hne : ¬ (pre' ++ [c]).length = l.size := by
        rw [hsz]; simp only [List.length_append, List.length_cons, List.length_nil]
        have : 0 < rest.length := List.length_pos_iff.2 hr
        omega
      simp only [hne, if_false]
      rw [ht, lastOr_append, lastOr_append]
      simp only [lastOr_cons]
      rw [lastOr_of_ne' hr (some c.1), lastOr_of_ne' hr (some new)]

/-- **`cc_slist_zip_iter_next`** -/
theorem pzipNext_links {h : Heap} {l1 l2 : Hdr} {cs1 cs2 pre1 rest1 pre2 rest2 : List Cell} {z : PZip}
    (r1 : SRepr h l1 cs1) (r2 : SRepr h l2 cs2) (k1 : SItRel cs1 pre1 rest1 z.it1) (k2 : SItRel cs2 pre2 rest2 z.it2) :
    (rest1 = [] ∨ rest2 = [] → pzipNext h z = (.iterEnd, none, z)) ∧
    (∀ a1 t1 a2 t2, rest1 = a1 :: t1 → rest2 = a2 :: t2 →
      (pzipNext h z).1 = .ok ∧ (pzipNext h z).2.1 = some (a1.2, a2.2) ∧
      SItRel cs1 (pre1 ++ [a1]) t1 (pzipNext h z).2.2.it1 ∧ SItRel cs2 (pre2 ++ [a2]) t2 (pzipNext h z).2.2.it2) := by
  have n1 : z.next1 = nxt rest1 none := k1.nxt
  have n2 : z.next2 = nxt rest2 none := k2.nxt
  unfold pzipNext
  refine ⟨fun e => ?_, fun a1 t1 a2 t2 e1 e2 => ?_⟩
  · rcases e with e | e
    · subst e; rw [n1]; cases z.next2 <;> rfl
    · subst e; rw [n2]; cases z.next1 <;> rfl
  · subst e1; subst e2
    have hs1 : SSeg h (pre1 ++ a1 :: t1) none := by rw [← k1.split]; exact r1.seg
    have hs2 : SSeg h (pre2 ++ a2 :: t2) none := by rw [← k2.split]; exact r2.seg
    obtain ⟨_, ha1, _⟩ := SSeg_split hs1
    obtain ⟨_, ha2, _⟩ := SSeg_split hs2
    rw [n1, n2]
    simp only [nxt_cons, nd_of ha1, nd_of ha2]
    refine ⟨trivial, trivial, ⟨by rw [k1.split]; simp, rfl, by simp [PZip.it1, show z.index = pre1.length from k1.idx], Or.inr ⟨pre1, a1, rfl, rfl, ?_⟩⟩,
      ⟨by rw [k2.split]; simp, rfl, by simp [PZip.it2, show z.index = pre2.length from k2.idx], Or.inr ⟨pre2, a2, rfl, rfl, ?_⟩⟩⟩
    · rcases k1.cur with ⟨c0, p0⟩ | ⟨pre', c, e1, e2, _⟩
      · have c0' : z.cur1 = none := c0
        have p0' : z.prev1 = lastOr pre1 none := p0
        simp only [PZip.it1, c0', if_true, p0']
      · have e2' : z.cur1 = some c.1 := e2
        simp only [PZip.it1, e2', reduceCtorEq, if_false, e1, lastOr_concat]
    · rcases k2.cur with ⟨c0, p0⟩ | ⟨pre', c, e1, e2, _⟩
      · have c0' : z.cur2 = none := c0
        have p0' : z.prev2 = lastOr pre2 none := p0
        simp only [PZip.it2, c0', if_true, p0']
      · have e2' : z.cur2 = some c.1 := e2
        simp only [PZip.it2, e2', reduceCtorEq, if_false, e1, lastOr_concat]

theorem cur_of_rel {cs pre' rest : List Cell} {c : Cell} {it : PIter} (k : SItRel cs (pre' ++ [c]) rest it) (hc : it.current ≠ none) :
    it.current = some c.1 ∧ it.prev = lastOr pre' none := by
  rcases k.cur with ⟨c0, _⟩ | ⟨p2, c2, e1, e2, e3⟩
  · exact absurd c0 hc
  · obtain ⟨ep, ec⟩ := List.append_inj' e1 rfl
    cases (List.cons.inj ec).1
    subst ep; exact ⟨e2, e3⟩

theorem mem_drop_mid {pre' rest : List Cell} {c : Cell} {b : Nat} (hb : b ∈ idsOf (pre' ++ rest)) : b ∈ idsOf (pre' ++ c :: rest) := by
  simp only [idsOf_append, idsOf_cons, List.mem_append, List.mem_cons] at hb ⊢
  rcases hb with h | h
  · exact Or.inl h
  · exact Or.inr (Or.inr h)

/-- **`cc_slist_zip_iter_remove`** with current elements: exactly the two nodes `l1_current`, `l2_current` leave their chains (each
behind its own `prev`, each block through its own list's triple); both lists stay represented and disjoint -/
theorem pzipRemove_links {s : St} {l1 l2 : Hdr} {cs1 cs2 p1 t1 p2 t2 : List Cell} {c1 c2 : Cell} {z : PZip} (m : Mem)
    (r : SRepr2 s.heap l1 l2 cs1 cs2) (hb1 : ∀ y, y ∈ idsOf cs1 → y < s.fresh) (hb2 : ∀ y, y ∈ idsOf cs2 → y < s.fresh)
    (k1 : SItRel cs1 (p1 ++ [c1]) t1 z.it1) (k2 : SItRel cs2 (p2 ++ [c2]) t2 z.it2) (h1 : z.cur1 = some c1.1) (h2 : z.cur2 = some c2.1) :
    (pzipRemove s l1 l2 z m).1 = .ok ∧ (pzipRemove s l1 l2 z m).2.1 = some (c1.2, c2.2) ∧
    (pzipRemove s l1 l2 z m).2.2.2.2.2.2 = (m.freeT l1.triple).freeT l2.triple ∧
    SRepr2 (pzipRemove s l1 l2 z m).2.2.1.heap (pzipRemove s l1 l2 z m).2.2.2.1 (pzipRemove s l1 l2 z m).2.2.2.2.1 (p1 ++ t1) (p2 ++ t2) ∧
    (pzipRemove s l1 l2 z m).2.2.1.fresh = s.fresh ∧
    SItRel (p1 ++ t1) p1 t1 (pzipRemove s l1 l2 z m).2.2.2.2.2.1.it1 ∧ SItRel (p2 ++ t2) p2 t2 (pzipRemove s l1 l2 z m).2.2.2.2.2.1.it2 := by
  have e1 : cs1 = p1 ++ c1 :: t1 := by rw [k1.split]; simp
  have e2 : cs2 = p2 ++ c2 :: t2 := by rw [k2.split]; simp
  subst e1; subst e2
  have hp1 : z.prev1 = lastOr p1 none := (cur_of_rel k1 (by show z.cur1 ≠ none; rw [h1]; simp)).2
  have hp2 : z.prev2 = lastOr p2 none := (cur_of_rel k2 (by show z.cur2 ≠ none; rw [h2]; simp)).2
  obtain ⟨u1, u2, uk⟩ := unlinkn_spec s l1 p1 t1 c1 m r.r1 hb1
  have r2' : SRepr (unlinkn s l1 c1.1 (lastOr p1 none) m).2.1.heap l2 (p2 ++ c2 :: t2) :=
    ⟨r.r2.nodup, SSeg_frame (fun b hb => uk.frame b (fun hm => r.disj b hm hb) (hb2 b hb)) r.r2.seg, r.r2.size, r.r2.head, r.r2.tail⟩
  obtain ⟨v1, v2, vk⟩ := unlinkn_spec (unlinkn s l1 c1.1 (lastOr p1 none) m).2.1 l2 p2 t2 c2 (unlinkn s l1 c1.1 (lastOr p1 none) m).2.2.2 r2'
    (fun y hy => Nat.lt_of_lt_of_le (hb2 y hy) uk.mono)
  unfold pzipRemove
  simp only [h1, h2, hp1, hp2]
  refine ⟨trivial, by rw [u1, v1], by rw [v2, u2], ⟨?_, vk.repr, fun b hb hm => r.disj b (mem_drop_mid hb) (mem_drop_mid hm)⟩, ?_,
    ⟨rfl, k1.nxt, by simp [PZip.it1, show z.index = (p1 ++ [c1]).length from k1.idx], Or.inl ⟨rfl, rfl⟩⟩,
    ⟨rfl, k2.nxt, by simp [PZip.it2, show z.index = (p2 ++ [c2]).length from k2.idx], Or.inl ⟨rfl, rfl⟩⟩⟩
  · exact ⟨uk.repr.nodup, SSeg_frame (fun b hb => vk.frame b (fun hm => r.disj b (mem_drop_mid hb) hm) (uk.bound b hb)) uk.repr.seg,
      uk.repr.size, uk.repr.head, uk.repr.tail⟩
  · have a1 : (unlinkn s l1 c1.1 (lastOr p1 none) m).2.1.fresh = s.fresh := rfl
    have a2 : (unlinkn (unlinkn s l1 c1.1 (lastOr p1 none) m).2.1 l2 c2.1 (lastOr p2 none) (unlinkn s l1 c1.1 (lastOr p1 none) m).2.2.2).2.1.fresh =
        (unlinkn s l1 c1.1 (lastOr p1 none) m).2.1.fresh := rfl
    rw [a2, a1]

/-- **`cc_slist_zip_iter_replace`** with current elements: only the `data` fields of the two current nodes are written -/
theorem pzipReplace_links {s : St} {l1 l2 : Hdr} {cs1 cs2 p1 t1 p2 t2 : List Cell} {c1 c2 : Cell} {z : PZip} (x1 x2 : Nat)
    (r : SRepr2 s.heap l1 l2 cs1 cs2)
    (k1 : SItRel cs1 (p1 ++ [c1]) t1 z.it1) (k2 : SItRel cs2 (p2 ++ [c2]) t2 z.it2) (h1 : z.cur1 = some c1.1) (h2 : z.cur2 = some c2.1) :
    (pzipReplace s z x1 x2).1 = .ok ∧ (pzipReplace s z x1 x2).2.1 = some (c1.2, c2.2) ∧
    SRepr2 (pzipReplace s z x1 x2).2.2.heap l1 l2 (p1 ++ (c1.1, x1) :: t1) (p2 ++ (c2.1, x2) :: t2) ∧
    (pzipReplace s z x1 x2).2.2.fresh = s.fresh := by
  have e1 : cs1 = p1 ++ c1 :: t1 := by rw [k1.split]; simp
  have e2 : cs2 = p2 ++ c2 :: t2 := by rw [k2.split]; simp
  subst e1; subst e2
  obtain ⟨_, _, na1, na2, _, _⟩ := nodup_append_cons r.r1.nodup
  obtain ⟨_, _, nb1, nb2, _, _⟩ := nodup_append_cons r.r2.nodup
  obtain ⟨s1, ha, s2⟩ := SSeg_split r.r1.seg
  obtain ⟨q1, hbb, q2⟩ := SSeg_split r.r2.seg
  have h12 : c1.1 ≠ c2.1 := fun e => r.disj c1.1 (by simp) (by rw [e]; simp)
  have d1 : ∀ b, b ∈ idsOf p1 ∨ b ∈ idsOf t1 → b ≠ c2.1 := fun b hb e => r.disj b (by
    rcases hb with h | h <;> simp [h]) (by rw [e]; simp)
  have d2 : ∀ b, b ∈ idsOf p2 ∨ b ∈ idsOf t2 → b ≠ c1.1 := fun b hb e => r.disj c1.1 (by simp) (by
    rw [← e]; rcases hb with h | h <;> simp [h])
  unfold pzipReplace
  simp only [h1, h2, nd_of ha, nd_of hbb]
  refine ⟨trivial, trivial, ⟨⟨by simpa [idsOf] using r.r1.nodup, ?_, by simpa using r.r1.size, ?_, ?_⟩,
    ⟨by simpa [idsOf] using r.r2.nodup, ?_, by simpa using r.r2.size, ?_, ?_⟩, ?_⟩, by first | trivial | rfl⟩
  · rw [SSeg_append, SSeg_cons]
    refine ⟨SSeg_frame (fun b hb => ?_) s1, ?_, SSeg_frame (fun b hb => ?_) s2⟩
    · rw [setData, upd_ne _ _ _ _ (d1 b (Or.inl hb)), setData, upd_ne _ _ _ _ (fun e => na1 (by rw [← e]; exact hb))]
    · rw [setData, upd_ne _ _ _ _ h12, setData, upd_eq, ha]; rfl
    · rw [setData, upd_ne _ _ _ _ (d1 b (Or.inr hb)), setData, upd_ne _ _ _ _ (fun e => na2 (by rw [← e]; exact hb))]
  · have := r.r1.head; rw [nxt_append] at this ⊢; exact this
  · have := r.r1.tail; rw [lastOr_append] at this ⊢; exact this
  · rw [SSeg_append, SSeg_cons]
    refine ⟨SSeg_frame (fun b hb => ?_) q1, ?_, SSeg_frame (fun b hb => ?_) q2⟩
    · rw [setData, upd_ne _ _ _ _ (fun e => nb1 (by rw [← e]; exact hb)), setData, upd_ne _ _ _ _ (d2 b (Or.inl hb))]
    · rw [setData, upd_eq, setData, upd_ne _ _ _ _ (Ne.symm h12), hbb]; rfl
    · rw [setData, upd_ne _ _ _ _ (fun e => nb2 (by rw [← e]; exact hb)), setData, upd_ne _ _ _ _ (d2 b (Or.inr hb))]
  · have := r.r2.head; rw [nxt_append] at this ⊢; exact this
  · have := r.r2.tail; rw [lastOr_append] at this ⊢; exact this
  · intro b hb hm
    refine r.disj b ?_ ?_
    · simpa [idsOf] using hb
    · simpa [idsOf] using hm

/-- **`cc_slist_zip_iter_add`** with current elements: refused at the first node — nothing happened; refused at the second — only
the first block went back through the first list's triple; granted — each list gets exactly one fresh node directly behind its
`current` (`new->next = next`), `tail` moves exactly at the end; the new nodes become `current`, the old ones `prev` -/
theorem pzipAdd_links {s : St} {l1 l2 : Hdr} {cs1 cs2 p1 t1 p2 t2 : List Cell} {c1 c2 : Cell} {z : PZip} (x1 x2 : Nat) (m : Mem)
    (r : SRepr2 s.heap l1 l2 cs1 cs2) (hb1 : ∀ y, y ∈ idsOf cs1 → y < s.fresh) (hb2 : ∀ y, y ∈ idsOf cs2 → y < s.fresh)
    (k1 : SItRel cs1 (p1 ++ [c1]) t1 z.it1) (k2 : SItRel cs2 (p2 ++ [c2]) t2 z.it2) (h1 : z.cur1 = some c1.1) (h2 : z.cur2 = some c2.1) :
    ((m.allocT l1.triple).1 = false → pzipAdd s l1 l2 z x1 x2 m = (.errAlloc, s, l1, l2, z, (m.allocT l1.triple).2)) ∧
    ((m.allocT l1.triple).1 = true → ((m.allocT l1.triple).2.allocT l2.triple).1 = false →
      pzipAdd s l1 l2 z x1 x2 m = (.errAlloc, s, l1, l2, z, ((m.allocT l1.triple).2.allocT l2.triple).2.freeT l1.triple)) ∧
    ((m.allocT l1.triple).1 = true → ((m.allocT l1.triple).2.allocT l2.triple).1 = true →
      (pzipAdd s l1 l2 z x1 x2 m).1 = .ok ∧ (pzipAdd s l1 l2 z x1 x2 m).2.2.2.2.2 = ((m.allocT l1.triple).2.allocT l2.triple).2 ∧
      SRepr2 (pzipAdd s l1 l2 z x1 x2 m).2.1.heap (pzipAdd s l1 l2 z x1 x2 m).2.2.1 (pzipAdd s l1 l2 z x1 x2 m).2.2.2.1
        (p1 ++ c1 :: (s.fresh, x1) :: t1) (p2 ++ c2 :: (s.fresh + 1, x2) :: t2) ∧
      (pzipAdd s l1 l2 z x1 x2 m).2.2.1.triple = l1.triple ∧ (pzipAdd s l1 l2 z x1 x2 m).2.2.2.1.triple = l2.triple ∧
      (pzipAdd s l1 l2 z x1 x2 m).2.1.fresh = s.fresh + 2 ∧
      (∀ b, b ∉ idsOf cs1 → b ∉ idsOf cs2 → b < s.fresh → (pzipAdd s l1 l2 z x1 x2 m).2.1.heap b = s.heap b) ∧
      SItRel (p1 ++ c1 :: (s.fresh, x1) :: t1) (p1 ++ [c1] ++ [(s.fresh, x1)]) t1 (pzipAdd s l1 l2 z x1 x2 m).2.2.2.2.1.it1 ∧
      SItRel (p2 ++ c2 :: (s.fresh + 1, x2) :: t2) (p2 ++ [c2] ++ [(s.fresh + 1, x2)]) t2 (pzipAdd s l1 l2 z x1 x2 m).2.2.2.2.1.it2) := by
  have e1 : cs1 = p1 ++ c1 :: t1 := by rw [k1.split]; simp
  have e2 : cs2 = p2 ++ c2 :: t2 := by rw [k2.split]; simp
  subst e1; subst e2
  have n1 : z.next1 = nxt t1 none := k1.nxt
  have n2 : z.next2 = nxt t2 none := k2.nxt
  have i1 : z.index = (p1 ++ [c1]).length := k1.idx
  have i2 : z.index = (p2 ++ [c2]).length := k2.idx
  unfold pzipAdd
  refine ⟨fun a1 => by simp [a1], fun a1 a2 => by simp [a1, a2], fun a1 a2 => ?_⟩
  have hl1 : (s.heap c1.1).isSome = true := SSeg_live r.r1.seg c1.1 (by simp)
  have hl2 : (s.heap c2.1).isSome = true := SSeg_live r.r2.seg c2.1 (by simp)
  simp only [a1, a2, Bool.not_true, Bool.false_eq_true, if_false, show s.alloc.1 = s.fresh from rfl,
    show s.alloc.2.alloc.1 = s.fresh + 1 from rfl, h1, h2, optSetNext, n1, n2, live_some, hl1, hl2, Bool.and_self, Mem.check_true]
  obtain ⟨_, _, na1, na2, _, _⟩ := nodup_append_cons r.r1.nodup
  obtain ⟨_, _, nb1, nb2, _, _⟩ := nodup_append_cons r.r2.nodup
  obtain ⟨_, hc1, _⟩ := SSeg_split r.r1.seg
  obtain ⟨_, hc2, _⟩ := SSeg_split r.r2.seg
  have hf1 : s.fresh ∉ idsOf (p1 ++ c1 :: t1) := fresh_notin hb1
  have hf12 : s.fresh ∉ idsOf (p2 ++ c2 :: t2) := fresh_notin hb2
  have hf21 : s.fresh + 1 ∉ idsOf (p1 ++ c1 :: t1) := fun hm => by have := hb1 _ hm; omega
  have hf2 : s.fresh + 1 ∉ idsOf (p2 ++ c2 :: t2) := fun hm => by have := hb2 _ hm; omega
  have hne : s.fresh ≠ s.fresh + 1 := by omega
  have c1f : c1.1 ≠ s.fresh := fun e => hf1 (by simp [← e])
  have c1g : c1.1 ≠ s.fresh + 1 := fun e => hf21 (by simp [← e])
  have c2f : c2.1 ≠ s.fresh := fun e => hf12 (by simp [← e])
  have c2g : c2.1 ≠ s.fresh + 1 := fun e => hf2 (by simp [← e])
  have c12 : c1.1 ≠ c2.1 := fun e => r.disj c1.1 (by simp) (by rw [e]; simp)
  -- the heap after the allocations: pointwise
  have b0 : ∀ b, b ≠ s.fresh → b ≠ s.fresh + 1 → s.alloc.2.alloc.2.heap b = s.heap b := by
    intro b g1 g2
    show (if b = s.fresh + 1 then some ({} : PNode) else (if b = s.fresh then some ({} : PNode) else s.heap b)) = _
    rw [if_neg g2, if_neg g1]
  have bA : s.alloc.2.alloc.2.heap s.fresh = some {} := by
    show (if s.fresh = s.fresh + 1 then some ({} : PNode) else (if s.fresh = s.fresh then some ({} : PNode) else s.heap s.fresh)) = _
    rw [if_neg hne, if_pos rfl]
  have bB : s.alloc.2.alloc.2.heap (s.fresh + 1) = some {} := by
    show (if s.fresh + 1 = s.fresh + 1 then some ({} : PNode) else _) = _
    rw [if_pos rfl]
  -- the final heap, pointwise
  have Hn1 : (setNext (setNext (setNext (setNext (setData (setData s.alloc.2.alloc.2.heap s.fresh x1) (s.fresh + 1) x2) s.fresh (nxt t1 none))
      (s.fresh + 1) (nxt t2 none)) c1.1 (some s.fresh)) c2.1 (some (s.fresh + 1))) s.fresh = some ⟨x1, nxt t1 none, none⟩ := by
    rw [setNext, upd_ne _ _ _ _ (Ne.symm c2f), setNext, upd_ne _ _ _ _ (Ne.symm c1f), setNext, upd_ne _ _ _ _ hne, setNext, upd_eq,
      setData, upd_ne _ _ _ _ hne, setData, upd_eq, bA]; rfl
  have Hn2 : (setNext (setNext (setNext (setNext (setData (setData s.alloc.2.alloc.2.heap s.fresh x1) (s.fresh + 1) x2) s.fresh (nxt t1 none))
      (s.fresh + 1) (nxt t2 none)) c1.1 (some s.fresh)) c2.1 (some (s.fresh + 1))) (s.fresh + 1) = some ⟨x2, nxt t2 none, none⟩ := by
    rw [setNext, upd_ne _ _ _ _ (Ne.symm c2g), setNext, upd_ne _ _ _ _ (Ne.symm c1g), setNext, upd_eq, setNext, upd_ne _ _ _ _ (Ne.symm hne),
      setData, upd_eq, setData, upd_ne _ _ _ _ (Ne.symm hne), bB]; rfl
  have Hc1 : (setNext (setNext (setNext (setNext (setData (setData s.alloc.2.alloc.2.heap s.fresh x1) (s.fresh + 1) x2) s.fresh (nxt t1 none))
      (s.fresh + 1) (nxt t2 none)) c1.1 (some s.fresh)) c2.1 (some (s.fresh + 1))) c1.1 = some ⟨c1.2, some s.fresh, none⟩ := by
    rw [setNext, upd_ne _ _ _ _ c12, setNext, upd_eq, setNext, upd_ne _ _ _ _ c1g, setNext, upd_ne _ _ _ _ c1f,
      setData, upd_ne _ _ _ _ c1g, setData, upd_ne _ _ _ _ c1f, b0 _ c1f c1g, hc1]; rfl
  have Hc2 : (setNext (setNext (setNext (setNext (setData (setData s.alloc.2.alloc.2.heap s.fresh x1) (s.fresh + 1) x2) s.fresh (nxt t1 none))
      (s.fresh + 1) (nxt t2 none)) c1.1 (some s.fresh)) c2.1 (some (s.fresh + 1))) c2.1 = some ⟨c2.2, some (s.fresh + 1), none⟩ := by
    rw [setNext, upd_eq, setNext, upd_ne _ _ _ _ (Ne.symm c12), setNext, upd_ne _ _ _ _ c2g, setNext, upd_ne _ _ _ _ c2f,
      setData, upd_ne _ _ _ _ c2g, setData, upd_ne _ _ _ _ c2f, b0 _ c2f c2g, hc2]; rfl
  have Hb : ∀ b, b ≠ c1.1 → b ≠ c2.1 → b < s.fresh →
      (setNext (setNext (setNext (setNext (setData (setData s.alloc.2.alloc.2.heap s.fresh x1) (s.fresh + 1) x2) s.fresh (nxt t1 none))
      (s.fresh + 1) (nxt t2 none)) c1.1 (some s.fresh)) c2.1 (some (s.fresh + 1))) b = s.heap b := by
    intro b g1 g2 g3
    have f1 : b ≠ s.fresh := by omega
    have f2 : b ≠ s.fresh + 1 := by omega
    rw [setNext, upd_ne _ _ _ _ g2, setNext, upd_ne _ _ _ _ g1, setNext, upd_ne _ _ _ _ f2, setNext, upd_ne _ _ _ _ f1,
      setData, upd_ne _ _ _ _ f2, setData, upd_ne _ _ _ _ f1, b0 _ f1 f2]
  have seg1 := sseg_insert s.fresh x1 r.r1.seg r.r1.nodup Hc1 Hn1 (fun b hb => Hb b
    (fun e => by rcases hb with h | h; exact na1 (e ▸ h); exact na2 (e ▸ h))
    (fun e => r.disj b (by rcases hb with h | h <;> simp [h]) (by rw [e]; simp))
    (hb1 b (by rcases hb with h | h <;> simp [h])))
  have seg2 := sseg_insert (s.fresh + 1) x2 r.r2.seg r.r2.nodup Hc2 Hn2 (fun b hb => Hb b
    (fun e => r.disj c1.1 (by simp) (by rw [← e]; rcases hb with h | h <;> simp [h]))
    (fun e => by rcases hb with h | h; exact nb1 (e ▸ h); exact nb2 (e ▸ h))
    (hb2 b (by rcases hb with h | h <;> simp [h])))
  have hl12 : (p1 ++ [c1]).length = (p2 ++ [c2]).length := i1.symm.trans i2
  simp only [i1]
  have R1 := srepr_after_insert (l := l1) s.fresh x1 (p1 ++ [c1]).length r.r1 hf1 rfl seg1
  have R2 := srepr_after_insert (l := l2) (s.fresh + 1) x2 (p1 ++ [c1]).length r.r2 hf2 hl12 seg2
  refine ⟨by first | trivial | rfl, by first | trivial | rfl, ⟨R1, R2, fun b hb hm => ?_⟩, by split <;> rfl, by split <;> rfl, rfl,
    fun b g1 g2 g3 => Hb b (fun e => g1 (by simp [e])) (fun e => g2 (by simp [e])) g3,
    ⟨by simp, rfl, by simp [PZip.it1], Or.inr ⟨p1 ++ [c1], (s.fresh, x1), rfl, rfl, by simp [PZip.it1]⟩⟩,
    ⟨by simp, rfl, by (have := hl12; simp [PZip.it2] at this ⊢; omega), Or.inr ⟨p2 ++ [c2], (s.fresh + 1, x2), rfl, rfl, by simp [PZip.it2]⟩⟩⟩
  have m1 : b ∈ idsOf (p1 ++ c1 :: t1) ∨ b = s.fresh := by
    simp only [idsOf_append, idsOf_cons, List.mem_append, List.mem_cons] at hb ⊢
    rcases hb with h | h | h | h
    · exact Or.inl (Or.inl h)
    · exact Or.inl (Or.inr (Or.inl h))
    · exact Or.inr h
    · exact Or.inl (Or.inr (Or.inr h))
  have m2 : b ∈ idsOf (p2 ++ c2 :: t2) ∨ b = s.fresh + 1 := by
    simp only [idsOf_append, idsOf_cons, List.mem_append, List.mem_cons] at hm ⊢
    rcases hm with h | h | h | h
    · exact Or.inl (Or.inl h)
    · exact Or.inl (Or.inr (Or.inl h))
    · exact Or.inr h
    · exact Or.inl (Or.inr (Or.inr h))
  rcases m1 with h | h <;> rcases m2 with h' | h'
  · exact r.disj b h h'
  · exact hf21 (h' ▸ h)
  · exact hf12 (h ▸ h')
  · omega

end CC.PSList
