import CollectionsC.Proofs.PTreeInsertRB
import CollectionsC.Proofs.TreeTableInfra
set_option linter.unusedSimpArgs false
set_option linter.unusedVariables false
namespace CC.PTree
open CC
open CC.Tree (Path Dir)

/-- **the descent loop of `cc_treetable_add`** follows `Tree.leafPath`: it stops at the node with an equal
key (returned twice) or falls off at an empty position, returning the node above it (the initial `y` when
the tree is empty) and the sentinel -/
theorem addDescent_rep (cmp : Nat → Nat → Int) (k : Nat) {h : Heap} {T : ITree} {p : Nat} (hr : Rep h T p)
    (y0 f : Nat) (hf : T.height ≤ f) :
    addDescent cmp h k f y0 T.rid =
      match T.subtree (Tree.leafPath cmp k T.erase) with
      | .node x _ _ _ _ _ => (x, x)
      | .nil => (parentAt T y0 (Tree.leafPath cmp k T.erase), 0) := by
  induction T generalizing p y0 f with
  | nil => cases f <;> simp [addDescent, Tree.leafPath, ITree.erase, parentAt, S]
  | node id c l key val r ihl ihr =>
    obtain ⟨h1, h2, h3, h4⟩ := hr
    cases f with
    | zero => simp [ITree.height] at hf
    | succ f =>
      simp only [ITree.height] at hf
      simp only [ITree.rid_node, addDescent, S, h1, if_false, h2, ITree.erase, Tree.leafPath]
      by_cases hlt : cmp k key < 0
      · simp only [hlt, if_true, ITree.subtree_L]
        rw [ihl h3 id f (by omega)]
        cases hq : Tree.leafPath cmp k l.erase with
        | nil => simp [parentAt]
        | cons e q' => rw [parentAt_L]
      · by_cases hgt : 0 < cmp k key
        · simp only [hlt, hgt, if_true, if_false, ITree.subtree_R]
          rw [ihr h4 id f (by omega)]
          cases hq : Tree.leafPath cmp k r.erase with
          | nil => simp [parentAt]
          | cons e q' => rw [parentAt_R]
        · simp [hlt, hgt]

namespace ITree
/-- putting a subtree at an empty, reachable position adds exactly its nodes -/
theorem ids_replace_new (t : ITree) (q : Path) (s : ITree) (hv : q = [] ∨ t.subtree q.dropLast ≠ nil)
    (hn : t.subtree q = nil) : (t.replace q s).ids.Perm (s.ids ++ t.ids) := by
  induction q generalizing t with
  | nil => simp at hn; subst hn; simp
  | cons d q ih =>
    cases t with
    | nil => simp at hv
    | node id c l k v r =>
      have hv' : ∀ u : ITree, (node id c l k v r).subtree (d :: q).dropLast ≠ nil →
          (match d with | .L => l | .R => r) = u → q = [] ∨ u.subtree q.dropLast ≠ nil := by
        intro u h e
        cases q with
        | nil => left; rfl
        | cons e' q' => right; subst e; cases d <;> simpa [List.dropLast] using h
      have hvv := hv.resolve_left (by simp)
      cases d with
      | L =>
        have := ih l (hv' l hvv rfl) (by simpa using hn)
        simp only [replace, ids_node]
        rw [List.perm_iff_count] at this ⊢
        intro a; have := this a
        simp only [List.count_cons, List.count_append] at this ⊢; omega
      | R =>
        have := ih r (hv' r hvv rfl) (by simpa using hn)
        simp only [replace, ids_node]
        rw [List.perm_iff_count] at this ⊢
        intro a; have := this a
        simp only [List.count_cons, List.count_append] at this ⊢; omega

/-- the position found by the descent is the root, or hangs below a node on the side chosen by the
comparator -/
theorem leafPath_parent (cmp : Nat → Nat → Int) (k : Nat) (T : ITree) :
    Tree.leafPath cmp k T.erase = [] ∨
    ∃ q0 d y c a ky vy b, Tree.leafPath cmp k T.erase = q0 ++ [d] ∧ T.subtree q0 = node y c a ky vy b ∧
      (cmp k ky < 0 ↔ d = .L) := by
  induction T with
  | nil => left; rfl
  | node id c l key val r ihl ihr =>
    simp only [erase, Tree.leafPath]
    by_cases hlt : cmp k key < 0
    · simp only [hlt, if_true]
      right
      rcases ihl with e | ⟨q0, d, y, c', a, ky, vy, b, e, hs, hd⟩
      · exact ⟨[], .L, id, c, l, key, val, r, by simp [e], by simp, by simp [hlt]⟩
      · exact ⟨.L :: q0, d, y, c', a, ky, vy, b, by simp [e], by simpa using hs, hd⟩
    · by_cases hgt : 0 < cmp k key
      · simp only [hlt, hgt, if_true, if_false]
        right
        rcases ihr with e | ⟨q0, d, y, c', a, ky, vy, b, e, hs, hd⟩
        · exact ⟨[], .R, id, c, l, key, val, r, by simp [e], by simp, by simp [hlt]⟩
        · exact ⟨.R :: q0, d, y, c', a, ky, vy, b, by simp [e], by simpa using hs, hd⟩
      · simp [hlt, hgt]
end ITree

/-- **overwriting the value** of the node at a position (`x->value = val`) -/
theorem setValue_rep {st : PT} {t : ITree} (hr : Rep st.heap t 0) (hnd : t.ids.Nodup) (q : Path)
    {x c a k v b} (hs : t.subtree q = .node x c a k v b) (v' : Nat) :
    Rep (setValue st.heap x v') (t.replace q (.node x c a k v' b)) 0 ∧
    (∀ i, i ≠ x → (setValue st.heap x v').get i = st.heap.get i) := by
  have hsub := hr.sub q
  rw [hs] at hsub
  obtain ⟨hx0, hxr, ha, hb⟩ := hsub
  have hndS := ITree.ids_subtree_nodup t q hnd
  rw [hs] at hndS
  simp only [ITree.ids_node, List.nodup_cons, List.mem_append, not_or] at hndS
  have hget : ∀ i, i ≠ x → (setValue st.heap x v').get i = st.heap.get i := by
    intro i hi; simp [setValue, Heap.get_set, hi]
  refine ⟨?_, hget⟩
  refine hr.replace_same_root hnd q hs _ rfl ?_ ?_
  · intro i _ hi
    rw [hs] at hi
    exact hget i (fun e => hi (by simp [e]))
  · refine ⟨hx0, by simp [setValue, Heap.get_set, hxr], ?_, ?_⟩
    · exact ha.frame (fun i hi => hget i (fun e => hndS.1.1 (e ▸ hi)))
    · exact hb.frame (fun i hi => hget i (fun e => hndS.1.2 (e ▸ hi)))

theorem setValue_represents {st : PT} {t : ITree} (h : Represents st t) (q : Path)
    {x c a k v b} (hs : t.subtree q = .node x c a k v b) (v' : Nat) :
    Represents { st with heap := setValue st.heap x v' } (t.replace q (.node x c a k v' b)) := by
  obtain ⟨r1, r2⟩ := setValue_rep h.rep h.nodup q hs v'
  have hx0 := (h.get_at q hs).2
  refine h.of_rep _ r1 ?_ ?_ (r2 0 (Ne.symm hx0)) rfl rfl
  · show st.root = _
    rw [h.root]
    cases q with
    | nil => simp at hs ⊢; rw [hs]; rfl
    | cons d q' => exact (ITree.rid_replace_cons t d q' _).symm
  · refine ITree.ids_replace_perm t q _ ?_
    rw [hs]; exact List.Perm.refl _
/-- the state after `cc_treetable_add` has written and linked the fresh red leaf, before the fix-up -/
def linkLeaf (cmp : Nat → Nat → Int) (st : PT) (k v y : Nat) : PT :=
  let h1 := st.heap.set st.fresh { key := k, value := v, parent := y, left := S, right := S, color := .red }
  { st with
    heap := if cmp k (h1.get y).key < 0 then setLeft h1 y st.fresh else setRight h1 y st.fresh
    size := st.size + 1, fresh := st.fresh + 1 }

/-- **linking the fresh red leaf** at the position found by the descent (tree not empty): the new node has
the sentinel as both children and the node above as parent, that node points to it on the side chosen by
the comparator, nothing else changes -/
theorem linkLeaf_represents (cmp : Nat → Nat → Int) {st : PT} {T : ITree} (h : Represents st T) (k v : Nat)
    (hne : T ≠ .nil) (hn : T.subtree (Tree.leafPath cmp k T.erase) = .nil) :
    Represents (linkLeaf cmp st k v (parentAt T 0 (Tree.leafPath cmp k T.erase)))
      (T.replace (Tree.leafPath cmp k T.erase) (.node st.fresh .red .nil k v .nil)) := by
  rcases ITree.leafPath_parent cmp k T with e | ⟨q0, d, y, c, a, ky, vy, b, e, hs, hd⟩
  · rw [e] at hn; simp at hn; exact absurd hn hne
  rw [e] at hn ⊢
  have hpa : parentAt T 0 (q0 ++ [d]) = y := by simp [parentAt, hs]
  rw [hpa]
  obtain ⟨hgy, hy0⟩ := h.get_at q0 hs
  have hyT : y ∈ T.ids := by
    have := ITree.rid_subtree_mem T q0
    rw [hs] at this; simpa [hy0] using this
  have hyn : y ≠ st.fresh := Nat.ne_of_lt (h.fresh y hyT)
  have hn0 : st.fresh ≠ 0 := Nat.ne_of_gt h.fresh_pos
  have hnT : st.fresh ∉ T.ids := fun hm => Nat.lt_irrefl _ (h.fresh _ hm)
  -- the heap after the two writes
  have hheap : ∀ i, (linkLeaf cmp st k v y).heap.get i =
      if i = y then withChild (st.heap.get y) d st.fresh
      else if i = st.fresh then { key := k, value := v, parent := y, left := 0, right := 0, color := .red }
      else st.heap.get i := by
    intro i
    simp only [linkLeaf, Heap.get_set, hyn, if_false, hgy, S]
    cases d with
    | L =>
      have : cmp k ky < 0 := hd.2 rfl
      simp only [this, if_true, setLeft, Heap.get_set, hyn, if_false, hgy, withChild]
    | R =>
      have : ¬ cmp k ky < 0 := fun hc => by have := hd.1 hc; cases this
      simp only [this, if_false, setRight, Heap.get_set, hyn, hgy, withChild]
  have hvalid : q0 ++ [d] = [] ∨ T.subtree (q0 ++ [d]).dropLast ≠ .nil := by
    right; simp [hs]
  have hperm := ITree.ids_replace_new T (q0 ++ [d]) (.node st.fresh .red .nil k v .nil) hvalid hn
  simp only [ITree.ids_node, ITree.ids_nil, List.append_nil, List.cons_append, List.nil_append] at hperm
  refine ⟨?_, ?_, ?_, ?_, ?_, ?_, ?_, ?_⟩
  · show st.root = _
    rw [h.root]
    cases q0 with
    | nil => exact (ITree.rid_replace_cons T d [] _).symm
    | cons d' q' => exact (ITree.rid_replace_cons T d' (q' ++ [d]) _).symm
  · refine h.rep.replace h.nodup (q0 ++ [d]) _ ?_ ?_ ?_
    · intro i hi _ hip
      rw [hpa] at hip
      rw [hheap]; simp [hip, show i ≠ st.fresh from fun e => hnT (e ▸ hi)]
    · rw [hpa]
      refine ⟨hn0, ?_, trivial, trivial⟩
      rw [hheap]; simp [Ne.symm hyn]
    · intro q0' d' hq
      obtain ⟨_, hdd⟩ := List.append_inj' hq rfl
      simp only [List.cons.injEq, and_true] at hdd
      subst hdd
      rw [hpa, hheap]; simp
  · exact (List.Perm.nodup_iff hperm).2 (List.nodup_cons.2 ⟨hnT, h.nodup⟩)
  · rw [hheap]; simp [Ne.symm hy0, Ne.symm hn0]; exact h.black
  · rw [hheap]; simp [Ne.symm hy0, Ne.symm hn0]; exact h.sent
  · show st.size + 1 = _
    rw [hperm.length_eq, h.size]; rfl
  · intro i hi
    have := hperm.subset hi
    simp only [List.mem_cons] at this
    show i < st.fresh + 1
    rcases this with e | hm
    · omega
    · have := h.fresh i hm; omega
  · show 0 < st.fresh + 1
    omega
theorem add_descent_eq (cmp : Nat → Nat → Int) {st : PT} {T : ITree} (h : Represents st T) (k : Nat) :
    addDescent cmp st.heap k (st.size + 1) S st.root =
      match T.subtree (Tree.leafPath cmp k T.erase) with
      | .node x _ _ _ _ _ => (x, x)
      | .nil => (parentAt T 0 (Tree.leafPath cmp k T.erase), 0) := by
  rw [h.root]
  exact addDescent_rep cmp k h.rep 0 _ (by have := ITree.height_le_ids T; rw [h.size]; omega)

/-- **existing key**: the descent stops at its node and `add` only overwrites the value there -/
theorem add_found (cmp : Nat → Nat → Int) {st : PT} {T : ITree} (h : Represents st T) (k v : Nat) (ok : Bool)
    {x c a k0 v0 b} (hs : T.subtree (Tree.leafPath cmp k T.erase) = .node x c a k0 v0 b) :
    add cmp st k v ok = { st with heap := setValue st.heap x v } := by
  have hx0 : x ≠ 0 := (h.get_at _ hs).2
  unfold add
  simp only [add_descent_eq cmp h k, hs, S, ne_eq, hx0, not_false_eq_true, if_true]

/-- **refusal**: for an absent key whose node allocation is refused, `add` returns the state unchanged -/
theorem add_refused (cmp : Nat → Nat → Int) {st : PT} {T : ITree} (h : Represents st T) (k v : Nat)
    (hn : T.subtree (Tree.leafPath cmp k T.erase) = .nil) :
    add cmp st k v false = st := by
  unfold add
  simp only [add_descent_eq cmp h k, hn, S, ne_eq, not_true_eq_false, if_false, Bool.not_false, if_true]

/-- **first key**: the fresh node becomes the black root -/
theorem add_empty (cmp : Nat → Nat → Int) {st : PT} (h : Represents st .nil) (k v : Nat) :
    Represents (add cmp st k v true) (.node st.fresh .black .nil k v .nil) := by
  have hn0 : st.fresh ≠ 0 := Nat.ne_of_gt h.fresh_pos
  have hsz : st.size = 0 := by simpa using h.size
  unfold add
  simp only [add_descent_eq cmp h k, ITree.erase, Tree.leafPath, ITree.subtree_root, parentAt, S, ne_eq,
    not_true_eq_false, if_false, Bool.not_true, if_true]
  refine ⟨rfl, ⟨hn0, ?_, trivial, trivial⟩, by simp, ?_, ?_, by simp [hsz], by simp, by simp⟩
  · simp [setColor, Heap.get_set]
  · simp [setColor, Heap.get_set, Ne.symm hn0]; exact h.black
  · simp [setColor, Heap.get_set, Ne.symm hn0]; exact h.sent

/-- **new key in a non-empty tree**: `add` links the fresh red leaf and runs the fix-up from it -/
theorem add_link (cmp : Nat → Nat → Int) {st : PT} {T : ITree} (h : Represents st T) (k v : Nat)
    (hne : T ≠ .nil) (hn : T.subtree (Tree.leafPath cmp k T.erase) = .nil) :
    add cmp st k v true =
      rebalanceAfterInsert (linkLeaf cmp st k v (parentAt T 0 (Tree.leafPath cmp k T.erase))) st.fresh := by
  have hy0 : parentAt T 0 (Tree.leafPath cmp k T.erase) ≠ 0 := by
    rcases ITree.leafPath_parent cmp k T with e | ⟨q0, d, y, c, a, ky, vy, b, e, hs, hd⟩
    · rw [e] at hn; simp at hn; exact absurd hn hne
    · rw [e]; simp [parentAt, hs]; exact (h.get_at q0 hs).2
  unfold add
  simp only [add_descent_eq cmp h k, hn, S, ne_eq, not_true_eq_false, if_false, Bool.not_true, hy0]
  rfl
end CC.PTree

namespace CC.Tree
open Colour Dir Spec Spec.OrdMap
/-- replacing a subtree by one with the same colour and black height that satisfies the rules -/
theorem RBok_replaceAt_same (t : Tree) (q : Path) (s : Tree) (h : RBok t) (hs : RBok s)
    (hbh : bh s = bh (subtree t q)) (hc : s.col = (subtree t q).col) :
    RBok (replaceAt t q s) ∧ bh (replaceAt t q s) = bh t ∧ (replaceAt t q s).col = t.col := by
  induction q generalizing t with
  | nil =>
    have e : subtree t [] = t := by cases t <;> rfl
    rw [e] at hbh hc
    exact ⟨by simpa [replaceAt] using hs, by simpa [replaceAt] using hbh, by simpa [replaceAt] using hc⟩
  | cons d q ih =>
    cases t with
    | nil => exact ⟨h, rfl, rfl⟩
    | node c l k v r =>
      obtain ⟨hl, hr, hb, hcc⟩ := h
      cases d with
      | L =>
        obtain ⟨i1, i2, i3⟩ := ih l hl (by simpa [subtree] using hbh) (by simpa [subtree] using hc)
        simp only [replaceAt]
        refine ⟨⟨i1, hr, by rw [i2]; exact hb, fun e => by rw [i3]; exact hcc e⟩, ?_, rfl⟩
        simp only [bh, i2]
      | R =>
        obtain ⟨i1, i2, i3⟩ := ih r hr (by simpa [subtree] using hbh) (by simpa [subtree] using hc)
        simp only [replaceAt]
        refine ⟨⟨hl, i1, by rw [i2]; exact hb, fun e => by rw [i3]; exact hcc e⟩, ?_, rfl⟩
        simp only [bh]
theorem RBok_subtree (t : Tree) (q : Path) (h : RBok t) : RBok (subtree t q) := by
  induction q generalizing t with
  | nil => cases t <;> exact h
  | cons d q ih =>
    cases t with
    | nil => exact h
    | node c l k v r => cases d <;> simp only [subtree] <;> first | exact ih l h.1 | exact ih r h.2.1
end CC.Tree

namespace CC.PTree
open CC
open CC.Tree (Path Dir)
namespace ITree
theorem subtree_replace_valid (t : ITree) (q : Path) (s : ITree) (hv : q = [] ∨ t.subtree q.dropLast ≠ nil) :
    (t.replace q s).subtree q = s := by
  induction q generalizing t with
  | nil => simp
  | cons d q ih =>
    cases t with
    | nil => simp at hv
    | node id c l k v r =>
      have hvv := hv.resolve_left (by simp)
      cases q with
      | nil => cases d <;> simp [replace]
      | cons e q' =>
        cases d with
        | L => simp only [replace, subtree_L]; exact ih l (Or.inr (by simpa [List.dropLast] using hvv))
        | R => simp only [replace, subtree_R]; exact ih r (Or.inr (by simpa [List.dropLast] using hvv))

theorem col_replace_cons (t : ITree) (d : Dir) (q : Path) (s : ITree) : (t.replace (d :: q) s).col = t.col := by
  cases t with
  | nil => rfl
  | node id c l k v r => cases d <;> rfl

theorem leafPath_length (cmp : Nat → Nat → Int) (k : Nat) (T : ITree) :
    (Tree.leafPath cmp k T.erase).length ≤ T.height := by
  induction T with
  | nil => simp [erase, Tree.leafPath]
  | node id c l key val r ihl ihr =>
    simp only [erase, Tree.leafPath, height]
    split
    · simp only [List.length_cons]; omega
    · split
      · simp only [List.length_cons]; omega
      · simp
end ITree
end CC.PTree

namespace CC.PTree
open CC
open CC.Tree (Path Dir)
open Spec Spec.OrdMap

/-- **existing key, end to end**: only the value field of its node changes; content = ordered-map insert,
rules and order kept; the allocator is not asked (`ok` is irrelevant) -/
theorem add_existing_wf (cmp : Nat → Nat → Int) (hto : TotalOrder cmp) {st : PT} {T : ITree}
    (h : Represents st T) (hb : Tree.BST cmp T.erase) (hrb : Tree.RB T.erase) (k v : Nat) (ok : Bool)
    {x c a k0 v0 b} (hs : T.subtree (Tree.leafPath cmp k T.erase) = .node x c a k0 v0 b) :
    add cmp st k v ok = { st with heap := setValue st.heap x v } ∧
    k0 = k ∧
    Represents (add cmp st k v ok) (T.replace (Tree.leafPath cmp k T.erase) (.node x c a k v b)) ∧
    (T.replace (Tree.leafPath cmp k T.erase) (.node x c a k v b)).erase.toList =
      OrdMap.insert cmp T.erase.toList k v ∧
    Tree.RB (T.replace (Tree.leafPath cmp k T.erase) (.node x c a k v b)).erase ∧
    Tree.BST cmp (T.replace (Tree.leafPath cmp k T.erase) (.node x c a k v b)).erase := by
  have hse : Tree.subtree T.erase (Tree.leafPath cmp k T.erase) = .node c a.erase k0 v0 b.erase := by
    rw [← ITree.erase_subtree, hs]; rfl
  have hk : k0 = k := by
    rcases Tree.leafPath_spec hto k T.erase with e | ⟨c', a', v', b', e⟩
    · rw [e] at hse; cases hse
    · rw [e] at hse; cases hse; rfl
  subst hk
  have e1 := add_found cmp h k0 v ok hs
  have hl : (T.replace (Tree.leafPath cmp k0 T.erase) (.node x c a k0 v b)).erase.toList =
      OrdMap.insert cmp T.erase.toList k0 v := by
    rw [ITree.erase_replace]
    exact Tree.toList_set_value hto k0 v T.erase hb hse
  refine ⟨e1, rfl, by rw [e1]; exact setValue_represents h _ hs v, hl, ?_, ?_⟩
  · rw [ITree.erase_replace]
    obtain ⟨r1, _, r3⟩ := Tree.RBok_replaceAt_same T.erase (Tree.leafPath cmp k0 T.erase)
      (ITree.node x c a k0 v b).erase hrb.1
      (by have := Tree.RBok_subtree T.erase (Tree.leafPath cmp k0 T.erase) hrb.1
          rw [hse] at this; exact this)
      (by rw [hse]; rfl) (by rw [hse]; rfl)
    exact ⟨r1, by rw [r3]; exact hrb.2⟩
  · show Sorted cmp _
    rw [hl]; exact sorted_insert hto hb k0 v

/-- **new key, allocation granted, end to end**: descent to an empty position, fresh red leaf linked there,
fix-up; the result represents a tree with one more node (the fresh id), in-order content = ordered-map
insert, red-black rules with black root, search order -/
theorem add_new_wf (cmp : Nat → Nat → Int) (hto : TotalOrder cmp) {st : PT} {T : ITree}
    (h : Represents st T) (hb : Tree.BST cmp T.erase) (hrb : Tree.RB T.erase) (k v : Nat)
    (hn : T.subtree (Tree.leafPath cmp k T.erase) = .nil) :
    ∃ T', Represents (add cmp st k v true) T' ∧ T'.ids.Perm (st.fresh :: T.ids) ∧
      T'.erase.toList = OrdMap.insert cmp T.erase.toList k v ∧ Tree.RB T'.erase ∧ Tree.BST cmp T'.erase := by
  have hne' : Tree.subtree T.erase (Tree.leafPath cmp k T.erase) = .nil := by
    rw [← ITree.erase_subtree, hn]; rfl
  have bst_of : ∀ T' : ITree, T'.erase.toList = OrdMap.insert cmp T.erase.toList k v → Tree.BST cmp T'.erase := by
    intro T' e; show Sorted cmp _; rw [e]; exact sorted_insert hto hb k v
  by_cases hT : T = .nil
  · subst hT
    refine ⟨_, add_empty cmp h k v, List.Perm.refl _, ?_, ?_, bst_of _ ?_⟩
    · simp [ITree.erase, Tree.toList, OrdMap.insert, below, above]
    · simp [ITree.erase, Tree.RB, Tree.RBok, Tree.bh]
    · simp [ITree.erase, Tree.toList, OrdMap.insert, below, above]
  · rw [add_link cmp h k v hT hn]
    have hR := linkLeaf_represents cmp h k v hT hn
    have hlp : Tree.leafPath cmp k T.erase ≠ [] := by
      intro e; rw [e] at hn; simp at hn; exact hT hn
    have hvalid : Tree.leafPath cmp k T.erase = [] ∨ T.subtree (Tree.leafPath cmp k T.erase).dropLast ≠ .nil := by
      rcases ITree.leafPath_parent cmp k T with e | ⟨q0, d, y, c, a, ky, vy, b, e, hs, hd⟩
      · exact Or.inl e
      · right; rw [e]; simp [hs]
    have hTe : T.erase ≠ .nil := by cases T with
                                    | nil => exact absurd rfl hT
                                    | node _ _ _ _ _ _ => simp [ITree.erase]
    obtain ⟨i1, i2, i3, i4⟩ := Tree.Infra_link (cmp := cmp) k v T.erase hrb.1 hTe hne'
    have hsz : (linkLeaf cmp st k v (parentAt T 0 (Tree.leafPath cmp k T.erase))).size = st.size + 1 := rfl
    obtain ⟨T', r1, r2, r3, r4⟩ := rebalanceAfterInsert_rb _ _ (Tree.leafPath cmp k T.erase) st.fresh .nil k v .nil hR
      (ITree.subtree_replace_valid T _ _ hvalid)
      (Or.inr (by
        cases hq : Tree.leafPath cmp k T.erase with
        | nil => exact absurd hq hlp
        | cons d q' => rw [ITree.col_replace_cons, ← ITree.erase_col]; exact hrb.2))
      (by rw [ITree.erase_replace]; exact i1)
      (by rw [hsz]
          have := ITree.leafPath_length cmp k T
          have := ITree.height_le_ids T
          rw [h.size]; omega)
    have hperm := ITree.ids_replace_new T _ (.node st.fresh .red .nil k v .nil) hvalid hn
    have hl : T'.erase.toList = OrdMap.insert cmp T.erase.toList k v := by
      rw [r2, ITree.erase_replace]
      exact Tree.toList_link_leaf hto k v .red T.erase hb hne'
    exact ⟨T', r1, r3.trans (by simpa using hperm), hl, r4, bst_of _ hl⟩

/-- **`cc_treetable_add` with a granted allocation, end to end** -/
theorem add_wf (cmp : Nat → Nat → Int) (hto : TotalOrder cmp) {st : PT} {T : ITree}
    (h : Represents st T) (hb : Tree.BST cmp T.erase) (hrb : Tree.RB T.erase) (k v : Nat) :
    ∃ T', Represents (add cmp st k v true) T' ∧
      T'.erase.toList = OrdMap.insert cmp T.erase.toList k v ∧ Tree.RB T'.erase ∧ Tree.BST cmp T'.erase := by
  cases hs : T.subtree (Tree.leafPath cmp k T.erase) with
  | nil =>
    obtain ⟨T', r1, _, r3, r4, r5⟩ := add_new_wf cmp hto h hb hrb k v hs
    exact ⟨T', r1, r3, r4, r5⟩
  | node x c a k0 v0 b =>
    obtain ⟨_, _, r1, r3, r4, r5⟩ := add_existing_wf cmp hto h hb hrb k v true hs
    exact ⟨_, r1, r3, r4, r5⟩

/-- the fuel of `rebalance_after_insert` is enough for every position of a represented tree -/
theorem Represents.fuel_ok {st : PT} {T : ITree} (h : Represents st T) (q : Path) (hne : T.subtree q ≠ .nil) :
    q.length ≤ st.size + 2 := by
  have h1 := ITree.length_lt_height T q hne
  have h2 := ITree.height_le_ids T
  rw [h.size]; omega

/-- **well-formedness is an invariant of `cc_treetable_add`** (no assumption on order or balance, any
allocator answer): from a heap that represents a tree with a black (or no) root, `add` yields one -/
theorem add_represents (cmp : Nat → Nat → Int) {st : PT} {T : ITree} (h : Represents st T)
    (hroot : T.col = .black) (k v : Nat) (ok : Bool) :
    ∃ T', Represents (add cmp st k v ok) T' ∧ T'.col = .black := by
  cases hs : T.subtree (Tree.leafPath cmp k T.erase) with
  | node x c a k0 v0 b =>
    rw [add_found cmp h k v ok hs]
    refine ⟨_, setValue_represents h _ hs v, ?_⟩
    cases hq : Tree.leafPath cmp k T.erase with
    | nil => rw [hq] at hs; simp at hs; subst hs; simpa using hroot
    | cons d q' => rw [ITree.col_replace_cons]; exact hroot
  | nil =>
    cases ok with
    | false => rw [add_refused cmp h k v hs]; exact ⟨T, h, hroot⟩
    | true =>
      by_cases hT : T = .nil
      · subst hT; exact ⟨_, add_empty cmp h k v, rfl⟩
      · rw [add_link cmp h k v hT hs]
        have hR := linkLeaf_represents cmp h k v hT hs
        have hlp : Tree.leafPath cmp k T.erase ≠ [] := by
          intro e; rw [e] at hs; simp at hs; exact hT hs
        have hvalid : Tree.leafPath cmp k T.erase = [] ∨
            T.subtree (Tree.leafPath cmp k T.erase).dropLast ≠ .nil := by
          rcases ITree.leafPath_parent cmp k T with e | ⟨q0, d, y, c, a, ky, vy, b, e, hs', hd⟩
          · exact Or.inl e
          · right; rw [e]; simp [hs']
        have hsub := ITree.subtree_replace_valid T _ (.node st.fresh .red .nil k v .nil) hvalid
        obtain ⟨T', r1, _, _, r4⟩ := rebalanceAfterInsert_wf _ _ (Tree.leafPath cmp k T.erase) st.fresh .nil k v .nil hR
          hsub
          (Or.inr (by
            cases hq : Tree.leafPath cmp k T.erase with
            | nil => exact absurd hq hlp
            | cons d q' => rw [ITree.col_replace_cons]; exact hroot))
          (hR.fuel_ok _ (by rw [hsub]; simp))
        exact ⟨T', r1, r4⟩

/-- every state reached from the constructor by `add`s (granted or refused) is well-formed -/
theorem adds_wf (cmp : Nat → Nat → Int) (ops : List (Nat × Nat × Bool)) :
    WF (ops.foldl (fun st o => add cmp st o.1 o.2.1 o.2.2) PTree.new) := by
  suffices H : ∀ (ops : List (Nat × Nat × Bool)) (st : PT) (T : ITree), Represents st T → T.col = .black →
      ∃ T', Represents (ops.foldl (fun st o => add cmp st o.1 o.2.1 o.2.2) st) T' ∧ T'.col = .black by
    obtain ⟨T', r, _⟩ := H ops _ _ new_represents rfl
    exact ⟨T', r⟩
  intro ops
  induction ops with
  | nil => intro st T h hc; exact ⟨T, h, hc⟩
  | cons o ops ih =>
    intro st T h hc
    obtain ⟨T1, r1, c1⟩ := add_represents cmp h hc o.1 o.2.1 o.2.2
    exact ih _ _ r1 c1
end CC.PTree
