import CollectionsC.Proofs.TSTIter
/-! Helper lemmas for the cross-cutting properties of the TST table (C06, C07, C08, C14, C16):
libc invariance, independence of the ledger (only the refusal schedule matters), structural
step lemma for every key (the empty one included), run over appended histories. -/
set_option linter.unusedSimpArgs false
set_option linter.unusedVariables false
namespace CC.TST
open CC
open CC.Spec.StrMap (Op Out IOp IOut)

variable {cmp : Cmp}

/-- closes goals that `simp only` may or may not have reduced to `True` already -/
local macro "triv" : tactic => `(tactic| first | rfl | trivial | simp)

/-! ### libc counter: every event goes through the configured triple -/

theorem alloc_libc (m : Mem) : m.alloc.2.libc = m.libc := by unfold Mem.alloc; split <;> rfl
theorem free_libc (m : Mem) : m.free.libc = m.libc := by unfold Mem.free; split <;> rfl

theorem ins_libc (key : Key) (v : Nat) (t : Node) (ks : Key) (mem : Mem) :
    (t.ins cmp key v ks mem).mem.libc = mem.libc := (ins_spec key v t ks mem).2.2.2

theorem rebuild_libc (c : Nat) (d : Option Entry) (l m r : Node) (q : RemRes) :
    (rebuild c d l m r q).mem.libc = q.mem.libc := by
  unfold rebuild; split
  · exact free_libc _
  · rfl

theorem remAt_libc (t : Node) (p : Path) (mem : Mem) : (t.remAt p mem).mem.libc = mem.libc := by
  induction t generalizing p with
  | nil => simp [Node.remAt]
  | node c d l m r ihl ihm ihr =>
    cases p with
    | nil =>
      simp only [Node.remAt]
      cases d with
      | none => rfl
      | some e => simp only []; split <;> simp [free_libc]
    | cons dir p =>
      cases dir <;> simp only [Node.remAt, rebuild_libc]
      · exact ihl p
      · exact ihm p
      · exact ihr p

theorem freeAll_libc (t : Node) (s : Nat) (mem : Mem) : (t.freeAll s mem).2.libc = mem.libc := by
  induction t generalizing s mem with
  | nil => rfl
  | node c d l m r ihl ihm ihr =>
    simp only [Node.freeAll]
    cases d <;> simp only [free_libc, ihr, ihm, ihl]

theorem iterLoop_libc (root : Node) (it : Iter) (fuel : Nat) (node prev : Option Path) (mem : Mem) :
    (iterLoop root it fuel node prev mem).mem.libc = mem.libc := by
  induction fuel generalizing node prev with
  | zero => cases node <;> simp [iterLoop]
  | succ n ih =>
    cases node with
    | none => simp [iterLoop]
    | some p =>
      simp only [iterLoop]
      split
      · simp
      · split
        · rfl
        · split
          · rfl
          · exact ih _ _

theorem iterNext_libc (t : Table) (it : Iter) (mem : Mem) : (iterNext t it mem).mem.libc = mem.libc := by
  unfold iterNext
  split
  · split
    · split <;> simp
    · rfl
  · exact iterLoop_libc _ _ _ _ _ _

theorem iterRemove_libc (t : Table) (it : Iter) (w : Bool) (mem : Mem) :
    (iterRemove t it w mem).2.2.2.2.libc = mem.libc := by
  unfold iterRemove
  split
  · rfl
  · simp only [remAt_libc, iterNext_libc]
    split <;> simp

theorem Table.new_libc (mem : Mem) : (Table.new mem).2.2.libc = mem.libc := by
  unfold Table.new; simp only []; split <;> exact alloc_libc mem

theorem Table.step_libc (t : Table) (op : Op) (mem : Mem) : (t.step cmp op mem).2.2.libc = mem.libc := by
  cases op with
  | add k v sched => simp only [Table.step, Table.add, ins_libc]; rfl
  | get k => rfl
  | contains k => rfl
  | remove k =>
    simp only [Table.step, Table.remove]
    split
    · rfl
    · split
      · rfl
      · exact remAt_libc _ _ _
  | removeAll => exact freeAll_libc _ _ _
  | size => rfl
  | enumerate => simp [Table.step, iterAll_eq]

theorem Table.run_libc (t : Table) (ops : List Op) (mem : Mem) : (t.run cmp ops mem).2.2.libc = mem.libc := by
  induction ops generalizing t mem with
  | nil => rfl
  | cons op ops ih => simp only [Table.run]; rw [ih, Table.step_libc]

theorem Table.destroy_libc (t : Table) (mem : Mem) : (t.destroy mem).libc = mem.libc := by
  simp only [Table.destroy, Table.removeAll, free_libc, freeAll_libc]

theorem Table.iterOp_libc (t : Table) (it : Iter) (op : IOp) (mem : Mem) :
    (t.iterOp it op mem).2.2.2.libc = mem.libc := by
  cases op with
  | next => exact iterNext_libc t it mem
  | remove w => exact iterRemove_libc t it w mem

theorem Table.iterRun_libc (t : Table) (it : Iter) (ops : List IOp) (mem : Mem) :
    (t.iterRun it ops mem).2.2.2.libc = mem.libc := by
  induction ops generalizing t it mem with
  | nil => rfl
  | cons op ops ih => simp only [Table.iterRun]; rw [ih, Table.iterOp_libc]

/-! ### the ledger matters only through its refusal schedule -/

theorem alloc_sched (m m' : Mem) (h : m.sched = m'.sched) :
    m.alloc.1 = m'.alloc.1 ∧ m.alloc.2.sched = m'.alloc.2.sched := by
  unfold Mem.alloc
  rw [h]
  cases hs : m'.sched with
  | nil => exact ⟨rfl, rfl⟩
  | cons b rest => cases b <;> exact ⟨rfl, rfl⟩

theorem free_sched (m : Mem) : m.free.sched = m.sched := by unfold Mem.free; split <;> rfl

theorem freeN_sched (n : Nat) (m : Mem) : (freeN n m).sched = m.sched := by
  induction n generalizing m with
  | zero => rfl
  | succ n ih => simp only [freeN]; rw [ih, free_sched]

theorem allocChain_sched (todo made : Nat) (m m' : Mem) (h : m.sched = m'.sched) :
    (allocChain todo made m).1 = (allocChain todo made m').1 ∧
    (allocChain todo made m).2.sched = (allocChain todo made m').2.sched := by
  induction todo generalizing made m m' with
  | zero => exact ⟨rfl, h⟩
  | succ n ih =>
    have a := alloc_sched m m' h
    simp only [allocChain]
    rw [a.1]
    cases m'.alloc.1
    · simp only [Bool.not_false, if_true, freeN_sched]; exact ⟨by triv, a.2⟩
    · simp only [Bool.not_true, Bool.false_eq_true, if_false]; exact ih _ _ _ a.2

/-- status, tree and size increment of an insertion, without the ledger -/
def InsRes.pure (q : InsRes) : Stat × Node × Bool := (q.st, q.node, q.inc)

theorem setData_sched (key : Key) (v c : Nat) (d : Option Entry) (l m r : Node) (mem mem' : Mem)
    (h : mem.sched = mem'.sched) :
    (setData key v c d l m r mem).pure = (setData key v c d l m r mem').pure := by
  cases d with
  | some e => rfl
  | none =>
    have a := alloc_sched mem mem' h
    simp only [setData, a.1]
    cases mem'.alloc.1 <;> rfl

theorem ins_sched (key : Key) (v : Nat) (t : Node) (ks : Key) (mem mem' : Mem) (h : mem.sched = mem'.sched) :
    (t.ins cmp key v ks mem).pure = (t.ins cmp key v ks mem').pure := by
  induction t generalizing ks with
  | nil =>
    have a := allocChain_sched (chainLen ks) 0 mem mem' h
    have b := alloc_sched _ _ a.2
    simp only [Node.ins, a.1, b.1]
    cases (allocChain (chainLen ks) 0 mem').1
    · rfl
    · simp only [Bool.not_true, Bool.false_eq_true, if_false]
      cases (allocChain (chainLen ks) 0 mem').2.alloc.1 <;> rfl
  | node c d l m r ihl ihm ihr =>
    cases ks with
    | nil => simp only [Node.ins]; exact setData_sched key v c d l m r mem mem' h
    | cons x xs =>
      simp only [Node.ins]
      cases cmp x c <;> simp only []
      · have := ihl (x :: xs); simp only [InsRes.pure, Prod.mk.injEq] at this ⊢
        exact ⟨this.1, by rw [this.2.1], this.2.2⟩
      · cases xs with
        | nil => exact setData_sched key v c d l m r mem mem' h
        | cons y ys =>
          have := ihm (y :: ys); simp only [InsRes.pure, Prod.mk.injEq] at this ⊢
          exact ⟨this.1, by rw [this.2.1], this.2.2⟩
      · have := ihr (x :: xs); simp only [InsRes.pure, Prod.mk.injEq] at this ⊢
        exact ⟨this.1, by rw [this.2.1], this.2.2⟩

/-- `add`: status and resulting table depend on the ledger only through the schedule -/
theorem Table.add_sched (t : Table) (key : Key) (v : Nat) (mem mem' : Mem) (h : mem.sched = mem'.sched) :
    (t.add cmp key v mem).1 = (t.add cmp key v mem').1 ∧ (t.add cmp key v mem).2.1 = (t.add cmp key v mem').2.1 := by
  have := ins_sched (cmp := cmp) key v t.root key mem mem' h
  simp only [InsRes.pure, Prod.mk.injEq] at this
  simp only [Table.add]
  exact ⟨this.1, by rw [this.2.1, this.2.2]⟩

/-- what `remove_eow_node` does to the tree does not depend on the ledger -/
def RemRes.pure (q : RemRes) : Bool × Node × Bool := (q.hit, q.node, q.pruned)

theorem rebuild_pure (c : Nat) (d : Option Entry) (l m r : Node) (q q' : RemRes)
    (h : q.hit = q'.hit ∧ q.pruned = q'.pruned) :
    (rebuild c d l m r q).pure = (rebuild c d l m r q').pure := by
  unfold rebuild
  rw [h.2]
  split <;> simp [RemRes.pure, h.1]

theorem remAt_indep (t : Node) (p : Path) (mem mem' : Mem) : (t.remAt p mem).pure = (t.remAt p mem').pure := by
  induction t generalizing p with
  | nil => rfl
  | node c d l m r ihl ihm ihr =>
    cases p with
    | nil =>
      simp only [Node.remAt]
      cases d with
      | none => rfl
      | some e => simp only []; split <;> rfl
    | cons dir p =>
      cases dir <;> simp only [Node.remAt]
      · have := ihl p; simp only [RemRes.pure, Prod.mk.injEq] at this
        rw [this.2.1]; exact rebuild_pure _ _ _ _ _ _ _ ⟨this.1, this.2.2⟩
      · have := ihm p; simp only [RemRes.pure, Prod.mk.injEq] at this
        rw [this.2.1]; exact rebuild_pure _ _ _ _ _ _ _ ⟨this.1, this.2.2⟩
      · have := ihr p; simp only [RemRes.pure, Prod.mk.injEq] at this
        rw [this.2.1]; exact rebuild_pure _ _ _ _ _ _ _ ⟨this.1, this.2.2⟩

theorem remAt_node_indep (t : Node) (p : Path) (mem mem' : Mem) : (t.remAt p mem).node = (t.remAt p mem').node := by
  have := remAt_indep t p mem mem'
  simp only [RemRes.pure, Prod.mk.injEq] at this
  exact this.2.1

/-- `size` after `remove_all`, as a function of the tree alone -/
def Node.freeAllSize : Node → Nat → Nat
  | .nil, s => s
  | .node _ d l m r, s =>
    match d with
    | some _ => decSize (r.freeAllSize (m.freeAllSize (l.freeAllSize s)))
    | none => r.freeAllSize (m.freeAllSize (l.freeAllSize s))

theorem freeAll_fst (t : Node) (s : Nat) (mem : Mem) : (t.freeAll s mem).1 = t.freeAllSize s := by
  induction t generalizing s mem with
  | nil => rfl
  | node c d l m r ihl ihm ihr =>
    simp only [Node.freeAll, Node.freeAllSize]
    cases d <;> simp only [ihl, ihm, ihr]

theorem freeAll_indep (t : Node) (s : Nat) (mem mem' : Mem) : (t.freeAll s mem).1 = (t.freeAll s mem').1 := by
  rw [freeAll_fst, freeAll_fst]

/-- **one operation**: output and resulting table do not depend on the ledger (an `add` carries its own
schedule) -/
theorem Table.step_indep (t : Table) (op : Op) (mem mem' : Mem) :
    (t.step cmp op mem).1 = (t.step cmp op mem').1 ∧ (t.step cmp op mem).2.1 = (t.step cmp op mem').2.1 := by
  cases op with
  | add k v sched =>
    have := Table.add_sched (cmp := cmp) t k v (mem.begin sched) (mem'.begin sched) rfl
    simp only [Table.step]
    exact ⟨by rw [this.1], this.2⟩
  | get k => exact ⟨rfl, rfl⟩
  | contains k => exact ⟨rfl, rfl⟩
  | remove k =>
    simp only [Table.step, Table.remove]
    split
    · exact ⟨rfl, rfl⟩
    · split
      · exact ⟨rfl, rfl⟩
      · exact ⟨by triv, by simp only; rw [remAt_node_indep _ _ mem mem']⟩
  | removeAll =>
    simp only [Table.step, Table.removeAll]
    exact ⟨by triv, by rw [freeAll_indep _ _ mem mem']⟩
  | size => exact ⟨rfl, rfl⟩
  | enumerate => simp [Table.step, iterAll_eq]

theorem Table.run_indep (t : Table) (ops : List Op) (mem mem' : Mem) :
    (t.run cmp ops mem).1 = (t.run cmp ops mem').1 ∧ (t.run cmp ops mem).2.1 = (t.run cmp ops mem').2.1 := by
  induction ops generalizing t mem mem' with
  | nil => exact ⟨rfl, rfl⟩
  | cons op ops ih =>
    have s := Table.step_indep (cmp := cmp) t op mem mem'
    simp only [Table.run]
    rw [s.1, s.2]
    have := ih (t.step cmp op mem').2.1 (t.step cmp op mem).2.2 (t.step cmp op mem').2.2
    exact ⟨by rw [this.1], this.2⟩

theorem Table.run_append (t : Table) (xs ys : List Op) (mem : Mem) :
    t.run cmp (xs ++ ys) mem =
      ((t.run cmp xs mem).1 ++ ((t.run cmp xs mem).2.1.run cmp ys (t.run cmp xs mem).2.2).1,
       ((t.run cmp xs mem).2.1.run cmp ys (t.run cmp xs mem).2.2).2) := by
  induction xs generalizing t mem with
  | nil => rfl
  | cons x xs ih => simp only [List.cons_append, Table.run, ih]

/-! ### `add` under refusal, for every key and every state -/

theorem Table.add_status (t : Table) (key : Key) (v : Nat) (mem : Mem) :
    (t.add cmp key v mem).1 = .ok ∨ (t.add cmp key v mem).1 = .errAlloc := by
  have q := ins_spec (cmp := cmp) key v t.root key mem
  by_cases h : (t.root.ins cmp key v key mem).st = .ok
  · exact Or.inl h
  · exact Or.inr (q.2.1 h).1

/-- a failed `add` gives back the very same table and a ledger with the same number of live blocks -/
theorem Table.add_atomic_any (t : Table) (key : Key) (v : Nat) (mem : Mem) (h : (t.add cmp key v mem).1 ≠ .ok) :
    (t.add cmp key v mem).1 = .errAlloc ∧ (t.add cmp key v mem).2.1 = t ∧
    (t.add cmp key v mem).2.2.live = mem.live ∧ (t.add cmp key v mem).2.2.fault = mem.fault := by
  have q := ins_spec (cmp := cmp) key v t.root key mem
  obtain ⟨q1, q2, q3, q4⟩ := q.2.1 h
  refine ⟨q1, ?_, q4, q.2.2.1⟩
  simp only [Table.add, q2, q3]; rfl

/-! ### the structural step: every operation, every key -/

/-- **every operation keeps the structural invariant, the ledger and never faults** — also with the
empty key (X5 does not reach memory safety) -/
theorem Table.step_struct (t : Table) (op : Op) (mem : Mem) (hi : t.Inv cmp) (hl : t.Owns mem) :
    (t.step cmp op mem).2.1.Inv cmp ∧ (t.step cmp op mem).2.2.fault = mem.fault ∧
    (t.step cmp op mem).2.2.live + t.root.owned = mem.live + (t.step cmp op mem).2.1.root.owned := by
  cases op with
  | add k v sched =>
    have := Table.add_inv_any_key (cmp := cmp) t k v (mem.begin sched) hi
    exact ⟨this.1, this.2.1, this.2.2⟩
  | get k => exact ⟨hi, rfl, rfl⟩
  | contains k => exact ⟨hi, rfl, rfl⟩
  | remove k => exact Table.remove_inv_any_key t k mem hi hl
  | removeAll =>
    have h := Table.removeAll_spec t mem hi.1 hl
    simp only [Table.step]
    rw [h.1]
    refine ⟨⟨rfl, trivial, trivial⟩, h.2.2.1, ?_⟩
    rw [h.2.1]; unfold Table.Owns at hl; simp; omega
  | size => exact ⟨hi, rfl, rfl⟩
  | enumerate => simp only [Table.step, iterAll_eq]; exact ⟨hi, by triv, by triv⟩

theorem Table.step_owns (t : Table) (op : Op) (mem : Mem) (hi : t.Inv cmp) (hl : t.Owns mem) :
    (t.step cmp op mem).2.1.Owns (t.step cmp op mem).2.2 := by
  have := (Table.step_struct (cmp := cmp) t op mem hi hl).2.2
  unfold Table.Owns at hl ⊢; omega

theorem Table.run_struct (t : Table) (ops : List Op) (mem : Mem) (hi : t.Inv cmp) (hl : t.Owns mem) :
    (t.run cmp ops mem).2.1.Inv cmp ∧ (t.run cmp ops mem).2.2.fault = mem.fault ∧
    (t.run cmp ops mem).2.2.live + t.root.owned = mem.live + (t.run cmp ops mem).2.1.root.owned := by
  induction ops generalizing t mem with
  | nil => exact ⟨hi, rfl, rfl⟩
  | cons op ops ih =>
    have s := Table.step_struct (cmp := cmp) t op mem hi hl
    have so := Table.step_owns (cmp := cmp) t op mem hi hl
    have := ih _ _ s.1 so
    simp only [Table.run]
    exact ⟨this.1, by rw [this.2.1, s.2.1], by omega⟩

/-! ### a complete traversal -/

/-- `n + 1` calls of `iter_next` from a position with `n` entries to come: the entries in order, then END -/
theorem iterRun_nexts (t : Table) (mem : Mem) : ∀ (todo : List (Path × Entry)) (it : Iter), IterOk t.root it todo →
    (t.iterRun it (List.replicate (todo.length + 1) .next) mem).1 =
      todo.map (fun x => ({ st := .ok, key := some x.2.1, val := some x.2.2 } : IOut)) ++ [{ st := .iterEnd }] ∧
    (t.iterRun it (List.replicate (todo.length + 1) .next) mem).2.1 = t ∧
    (t.iterRun it (List.replicate (todo.length + 1) .next) mem).2.2.2 = mem := by
  intro todo
  induction todo with
  | nil =>
    intro it h
    obtain ⟨n1, _, n3, n4, _, _⟩ := iterNext_ok t it mem [] h
    simp only [List.length_nil, List.replicate, Table.iterRun, Table.iterOp, n3, n4, n1]
    exact ⟨by triv, by triv, by triv⟩
  | cons x tl ih =>
    intro it h
    obtain ⟨n1, _, n3, n4, n5, _⟩ := iterNext_ok t it mem (x :: tl) h
    have := ih _ n5
    simp only [List.length_cons, List.replicate, Table.iterRun, Table.iterOp, n3, n4, n1] at this ⊢
    exact ⟨by rw [this.1]; rfl, this.2.1, this.2.2⟩

end CC.TST
