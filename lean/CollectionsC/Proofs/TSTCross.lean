import CollectionsC.Proofs.TSTIter
/-! Helper lemmas for the cross-cutting properties of the TST table (C06, C07, C08, C14, C16):
which allocator triple is used, independence of the ledger (only the refusal schedule matters),
structural step lemma for every key (the empty one included) and every iterator session,
run over appended histories. -/
set_option linter.unusedSimpArgs false
set_option linter.unusedVariables false
namespace CC.TST
open CC
open CC.Spec.StrMap (Op Out IOp IOut)

variable {cmp : Cmp} {tr : Triple}

/-- closes goals that `simp only` may or may not have reduced to `True` already -/
local macro "triv" : tactic => `(tactic| first | rfl | trivial | simp)

/-! ### only the table's own allocator triple is used -/

/-- everything that belongs to the *other* allocator triple is untouched: for a table built with the
configured triple the C-library counters (events, live blocks, per-call events), for a table built on the
C library the configured ledger (live blocks, per-call events, refusals, the schedule itself) -/
def SameOther (tr : Triple) (m m' : Mem) : Prop :=
  match tr with
  | .conf => m'.libc = m.libc ∧ m'.liveLibc = m.liveLibc ∧ m'.lalloc = m.lalloc ∧ m'.lfree = m.lfree
  | .libc => m'.live = m.live ∧ m'.nalloc = m.nalloc ∧ m'.nfree = m.nfree ∧ m'.nrefused = m.nrefused ∧
      m'.sched = m.sched

theorem SameOther.refl (tr : Triple) (m : Mem) : SameOther tr m m := by
  cases tr <;> simp [SameOther]

theorem SameOther.trans {tr : Triple} {a b c : Mem} (h1 : SameOther tr a b) (h2 : SameOther tr b c) :
    SameOther tr a c := by
  cases tr <;> simp only [SameOther] at * <;> simp [h1, h2]

theorem sameOther_allocT (m : Mem) (tr : Triple) : SameOther tr m (m.allocT tr).2 := by
  cases tr
  · simp only [SameOther, Mem.allocT_conf]; unfold Mem.alloc; split <;> simp
  · simp [SameOther, Mem.allocT]

theorem sameOther_freeT (m : Mem) (tr : Triple) : SameOther tr m (m.freeT tr) := by
  cases tr
  · simp only [SameOther, Mem.freeT_conf]; unfold Mem.free; split <;> simp
  · simp only [SameOther, Mem.freeT]; split <;> simp

theorem sameOther_check (m : Mem) (tr : Triple) (b : Bool) : SameOther tr m (m.check b) := by
  cases b
  · cases tr <;> simp [SameOther, Mem.check]
  · exact SameOther.refl tr m

theorem sameOther_freeN (n : Nat) (m : Mem) : SameOther tr m (freeN tr n m) := by
  induction n generalizing m with
  | zero => exact SameOther.refl _ _
  | succ n ih => simp only [freeN]; exact (sameOther_freeT m tr).trans (ih _)

theorem sameOther_allocChain (todo made : Nat) (m : Mem) : SameOther tr m (allocChain tr todo made m).2 := by
  induction todo generalizing made m with
  | zero => exact SameOther.refl _ _
  | succ n ih =>
    simp only [allocChain]
    split
    · exact (sameOther_allocT m tr).trans (sameOther_freeN _ _)
    · exact (sameOther_allocT m tr).trans (ih _ _)

theorem sameOther_setData (key : Key) (v c : Nat) (d : Option Entry) (l m r : Node) (mem : Mem) :
    SameOther tr mem (setData tr key v c d l m r mem).mem := by
  cases d with
  | some e => exact SameOther.refl _ _
  | none => simp only [setData]; split <;> exact sameOther_allocT mem tr

theorem sameOther_ins (key : Key) (v : Nat) (t : Node) (ks : Key) (mem : Mem) :
    SameOther tr mem (t.ins tr cmp key v ks mem).mem := by
  induction t generalizing ks with
  | nil =>
    simp only [Node.ins]
    split
    · exact sameOther_allocChain _ _ _
    · split
      · exact ((sameOther_allocChain _ _ _).trans (sameOther_allocT _ tr)).trans (sameOther_freeN _ _)
      · exact (sameOther_allocChain _ _ _).trans (sameOther_allocT _ tr)
  | node c d l m r ihl ihm ihr =>
    cases ks with
    | nil => simp only [Node.ins]; exact sameOther_setData _ _ _ _ _ _ _ _
    | cons x xs =>
      simp only [Node.ins]
      cases cmp x c <;> simp only []
      · exact ihl _
      · cases xs with
        | nil => exact sameOther_setData _ _ _ _ _ _ _ _
        | cons y ys => exact ihm _
      · exact ihr _

theorem sameOther_rebuild (c : Nat) (d : Option Entry) (l m r : Node) (q : RemRes) :
    SameOther tr q.mem (rebuild tr c d l m r q).mem := by
  unfold rebuild; split
  · exact sameOther_freeT _ _
  · exact SameOther.refl _ _

theorem sameOther_remAt (t : Node) (p : Path) (mem : Mem) : SameOther tr mem (t.remAt tr p mem).mem := by
  induction t generalizing p with
  | nil => simp only [Node.remAt]; exact sameOther_check _ _ _
  | node c d l m r ihl ihm ihr =>
    cases p with
    | nil =>
      simp only [Node.remAt]
      cases d with
      | none => exact SameOther.refl _ _
      | some e =>
        simp only []; split
        · exact (sameOther_freeT _ _).trans (sameOther_freeT _ _)
        · exact sameOther_freeT _ _
    | cons dir p =>
      cases dir <;> simp only [Node.remAt]
      · exact (ihl p).trans (sameOther_rebuild _ _ _ _ _ _)
      · exact (ihm p).trans (sameOther_rebuild _ _ _ _ _ _)
      · exact (ihr p).trans (sameOther_rebuild _ _ _ _ _ _)

theorem sameOther_freeAll (t : Node) (s : Nat) (mem : Mem) : SameOther tr mem (t.freeAll tr s mem).2 := by
  induction t generalizing s mem with
  | nil => exact SameOther.refl _ _
  | node c d l m r ihl ihm ihr =>
    simp only [Node.freeAll]
    have h : SameOther tr mem (r.freeAll tr (m.freeAll tr (l.freeAll tr s mem).1 (l.freeAll tr s mem).2).1
        (m.freeAll tr (l.freeAll tr s mem).1 (l.freeAll tr s mem).2).2).2 :=
      ((ihl s mem).trans (ihm (l.freeAll tr s mem).1 (l.freeAll tr s mem).2)).trans (ihr _ _)
    cases d <;> simp only []
    · exact h.trans (sameOther_freeT _ _)
    · exact (h.trans (sameOther_freeT _ _)).trans (sameOther_freeT _ _)

theorem sameOther_iterLoop (root : Node) (it : Iter) (fuel : Nat) (node prev : Option Path) (mem : Mem) :
    SameOther tr mem (iterLoop root it fuel node prev mem).mem := by
  induction fuel generalizing node prev with
  | zero => cases node <;> simp only [iterLoop] <;> first | exact SameOther.refl _ _ | exact sameOther_check _ _ _
  | succ n ih =>
    cases node with
    | none => simp only [iterLoop]; exact SameOther.refl _ _
    | some p =>
      simp only [iterLoop]
      split
      · exact sameOther_check _ _ _
      · split
        · exact SameOther.refl _ _
        · split
          · exact SameOther.refl _ _
          · exact ih _ _

theorem sameOther_iterNext (t : Table) (it : Iter) (mem : Mem) : SameOther tr mem (iterNext t it mem).mem := by
  unfold iterNext
  split
  · split
    · split
      · exact sameOther_check _ _ _
      · exact sameOther_check _ _ _
    · exact SameOther.refl _ _
  · exact sameOther_iterLoop _ _ _ _ _ _

theorem sameOther_iterRemove (t : Table) (it : Iter) (w : Bool) (mem : Mem) :
    SameOther t.triple mem (iterRemove t it w mem).2.2.2.2 := by
  unfold iterRemove
  split
  · exact SameOther.refl _ _
  · split
    · exact SameOther.refl _ _
    · simp only []
      refine SameOther.trans ?_ ((sameOther_iterNext t it _).trans (sameOther_remAt _ _ _))
      split
      · exact sameOther_check _ _ _
      · exact SameOther.refl _ _

theorem sameOther_iterAll (t : Table) (mem : Mem) : SameOther tr mem (iterAll t mem).2 := by
  rw [iterAll_eq]; exact SameOther.refl _ _

theorem Table.new_sameOther (tr : Triple) (mem : Mem) : SameOther tr mem (Table.new tr mem).2.2 := by
  unfold Table.new; simp only []; split <;> exact sameOther_allocT mem tr

theorem Table.add_sameOther (t : Table) (k : Key) (v : Nat) (mem : Mem) :
    SameOther t.triple mem (t.add cmp k v mem).2.2 := sameOther_ins _ _ _ _ _

theorem Table.remove_sameOther (t : Table) (k : Key) (mem : Mem) :
    SameOther t.triple mem (t.remove cmp k mem).2.2.2 := by
  simp only [Table.remove]
  split
  · exact SameOther.refl _ _
  · split
    · exact SameOther.refl _ _
    · exact sameOther_remAt _ _ _

theorem Table.removeAll_sameOther (t : Table) (mem : Mem) : SameOther t.triple mem (t.removeAll mem).2 :=
  sameOther_freeAll _ _ _

theorem Table.destroy_sameOther (t : Table) (mem : Mem) : SameOther t.triple mem (t.destroy mem) :=
  (sameOther_freeAll _ _ _).trans (sameOther_freeT _ _)

theorem Table.iterOp_triple (t : Table) (it : Iter) (op : IOp) (mem : Mem) :
    (t.iterOp cmp it op mem).2.1.triple = t.triple := by
  cases op with
  | remove w =>
    simp only [Table.iterOp, iterRemove]
    split
    · rfl
    · split <;> rfl
  | _ => rfl

theorem Table.iterOp_sameOther (t : Table) (it : Iter) (op : IOp) (mem : Mem) :
    SameOther t.triple mem (t.iterOp cmp it op mem).2.2.2 := by
  cases op with
  | next => exact sameOther_iterNext t it mem
  | remove w => exact sameOther_iterRemove t it w mem
  | get k => exact SameOther.refl _ _
  | contains k => exact SameOther.refl _ _
  | size => exact SameOther.refl _ _

theorem Table.iterRun_triple (t : Table) (it : Iter) (ops : List IOp) (mem : Mem) :
    (t.iterRun cmp it ops mem).2.1.triple = t.triple := by
  induction ops generalizing t it mem with
  | nil => rfl
  | cons op ops ih => simp only [Table.iterRun]; rw [ih, Table.iterOp_triple]

theorem Table.iterRun_sameOther (t : Table) (it : Iter) (ops : List IOp) (mem : Mem) :
    SameOther t.triple mem (t.iterRun cmp it ops mem).2.2.2 := by
  induction ops generalizing t it mem with
  | nil => exact SameOther.refl _ _
  | cons op ops ih =>
    simp only [Table.iterRun]
    have := ih (t.iterOp cmp it op mem).2.1 (t.iterOp cmp it op mem).2.2.1 (t.iterOp cmp it op mem).2.2.2
    rw [Table.iterOp_triple] at this
    exact (Table.iterOp_sameOther t it op mem).trans this

theorem Table.step_triple (t : Table) (op : Op) (mem : Mem) : (t.step cmp op mem).2.1.triple = t.triple := by
  cases op with
  | remove k => exact Table.remove_triple t k mem
  | iterate prog => exact Table.iterRun_triple t _ prog mem
  | _ => rfl

/-- the cumulative part of `SameOther` (what survives `Mem.begin`, which clears the per-call counters
and installs the schedule of the call) -/
def SameOtherC (tr : Triple) (m m' : Mem) : Prop :=
  match tr with
  | .conf => m'.libc = m.libc ∧ m'.liveLibc = m.liveLibc
  | .libc => m'.live = m.live

theorem SameOther.toC {tr : Triple} {m m' : Mem} (h : SameOther tr m m') : SameOtherC tr m m' := by
  cases tr <;> simp only [SameOther, SameOtherC] at * <;> simp [h]

theorem SameOtherC.refl (tr : Triple) (m : Mem) : SameOtherC tr m m := by cases tr <;> simp [SameOtherC]

theorem SameOtherC.trans {tr : Triple} {a b c : Mem} (h1 : SameOtherC tr a b) (h2 : SameOtherC tr b c) :
    SameOtherC tr a c := by
  cases tr <;> simp only [SameOtherC] at * <;> simp [h1, h2]

theorem sameOtherC_begin (tr : Triple) (m : Mem) (sched : List Bool) : SameOtherC tr m (m.begin sched) := by
  cases tr <;> simp [SameOtherC, Mem.begin]

theorem Table.step_sameOtherC (t : Table) (op : Op) (mem : Mem) :
    SameOtherC t.triple mem (t.step cmp op mem).2.2 := by
  cases op with
  | add k v sched => exact (sameOtherC_begin _ _ _).trans (Table.add_sameOther t k v _).toC
  | get k => exact SameOtherC.refl _ _
  | contains k => exact SameOtherC.refl _ _
  | remove k => exact (Table.remove_sameOther t k mem).toC
  | removeAll => exact (Table.removeAll_sameOther t mem).toC
  | size => exact SameOtherC.refl _ _
  | enumerate => exact (sameOther_iterAll t mem).toC
  | iterate prog => exact (Table.iterRun_sameOther t _ prog mem).toC

theorem Table.run_triple (t : Table) (ops : List Op) (mem : Mem) : (t.run cmp ops mem).2.1.triple = t.triple := by
  induction ops generalizing t mem with
  | nil => rfl
  | cons op ops ih => simp only [Table.run]; rw [ih, Table.step_triple]

theorem Table.run_sameOtherC (t : Table) (ops : List Op) (mem : Mem) :
    SameOtherC t.triple mem (t.run cmp ops mem).2.2 := by
  induction ops generalizing t mem with
  | nil => exact SameOtherC.refl _ _
  | cons op ops ih =>
    simp only [Table.run]
    have := ih (t.step cmp op mem).2.1 (t.step cmp op mem).2.2
    rw [Table.step_triple] at this
    exact (Table.step_sameOtherC t op mem).trans this

/-! ### the ledger matters only through its refusal schedule -/

theorem alloc_sched (m m' : Mem) (tr : Triple) (h : m.sched = m'.sched) :
    (m.allocT tr).1 = (m'.allocT tr).1 ∧ (m.allocT tr).2.sched = (m'.allocT tr).2.sched := by
  cases tr
  · simp only [Mem.allocT_conf]
    unfold Mem.alloc
    rw [h]
    cases hs : m'.sched with
    | nil => exact ⟨rfl, rfl⟩
    | cons b rest => cases b <;> exact ⟨rfl, rfl⟩
  · exact ⟨rfl, h⟩

theorem free_sched (m : Mem) (tr : Triple) : (m.freeT tr).sched = m.sched := by
  cases tr
  · simp only [Mem.freeT_conf]; unfold Mem.free; split <;> rfl
  · simp only [Mem.freeT]; split <;> rfl

theorem freeN_sched (n : Nat) (m : Mem) : (freeN tr n m).sched = m.sched := by
  induction n generalizing m with
  | zero => rfl
  | succ n ih => simp only [freeN]; rw [ih, free_sched]

theorem allocChain_sched (todo made : Nat) (m m' : Mem) (h : m.sched = m'.sched) :
    (allocChain tr todo made m).1 = (allocChain tr todo made m').1 ∧
    (allocChain tr todo made m).2.sched = (allocChain tr todo made m').2.sched := by
  induction todo generalizing made m m' with
  | zero => exact ⟨rfl, h⟩
  | succ n ih =>
    have a := alloc_sched m m' tr h
    simp only [allocChain]
    rw [a.1]
    cases (m'.allocT tr).1
    · simp only [Bool.not_false, if_true, freeN_sched]; exact ⟨by triv, a.2⟩
    · simp only [Bool.not_true, Bool.false_eq_true, if_false]; exact ih _ _ _ a.2

/-- status, tree and size increment of an insertion, without the ledger -/
def InsRes.pure (q : InsRes) : Stat × Node × Bool := (q.st, q.node, q.inc)

theorem setData_sched (key : Key) (v c : Nat) (d : Option Entry) (l m r : Node) (mem mem' : Mem)
    (h : mem.sched = mem'.sched) :
    (setData tr key v c d l m r mem).pure = (setData tr key v c d l m r mem').pure := by
  cases d with
  | some e => rfl
  | none =>
    have a := alloc_sched mem mem' tr h
    simp only [setData, a.1]
    cases (mem'.allocT tr).1 <;> rfl

theorem ins_sched (key : Key) (v : Nat) (t : Node) (ks : Key) (mem mem' : Mem) (h : mem.sched = mem'.sched) :
    (t.ins tr cmp key v ks mem).pure = (t.ins tr cmp key v ks mem').pure := by
  induction t generalizing ks with
  | nil =>
    have a := allocChain_sched (tr := tr) (chainLen ks) 0 mem mem' h
    have b := alloc_sched _ _ tr a.2
    simp only [Node.ins, a.1, b.1]
    cases (allocChain tr (chainLen ks) 0 mem').1
    · rfl
    · simp only [Bool.not_true, Bool.false_eq_true, if_false]
      cases ((allocChain tr (chainLen ks) 0 mem').2.allocT tr).1 <;> rfl
  | node c d l m r ihl ihm ihr =>
    cases ks with
    | nil => simp only [Node.ins]; exact setData_sched key v c d l m r mem mem' h
    | cons x xs =>
      simp only [Node.ins]
      cases cmp x c <;> simp only []
      · have := ihl (x :: xs); simp only [InsRes.pure, Prod.mk.injEq] at this ⊢
        exact ⟨this.1, by rw [this.2.1], this.2.2⟩
      · cases xs with
        | nil => exact setData_sched key v c d l m r mem mem' h
        | cons y ys =>
          have := ihm (y :: ys); simp only [InsRes.pure, Prod.mk.injEq] at this ⊢
          exact ⟨this.1, by rw [this.2.1], this.2.2⟩
      · have := ihr (x :: xs); simp only [InsRes.pure, Prod.mk.injEq] at this ⊢
        exact ⟨this.1, by rw [this.2.1], this.2.2⟩

/-- `add`: status and resulting table depend on the ledger only through the schedule -/
theorem Table.add_sched (t : Table) (key : Key) (v : Nat) (mem mem' : Mem) (h : mem.sched = mem'.sched) :
    (t.add cmp key v mem).1 = (t.add cmp key v mem').1 ∧ (t.add cmp key v mem).2.1 = (t.add cmp key v mem').2.1 := by
  have := ins_sched (tr := t.triple) (cmp := cmp) key v t.root key mem mem' h
  simp only [InsRes.pure, Prod.mk.injEq] at this
  simp only [Table.add]
  exact ⟨this.1, by rw [this.2.1, this.2.2]⟩

/-- what `remove_eow_node` does to the tree does not depend on the ledger -/
def RemRes.pure (q : RemRes) : Bool × Node × Bool := (q.hit, q.node, q.pruned)

theorem rebuild_pure (c : Nat) (d : Option Entry) (l m r : Node) (q q' : RemRes)
    (h : q.hit = q'.hit ∧ q.pruned = q'.pruned) :
    (rebuild tr c d l m r q).pure = (rebuild tr c d l m r q').pure := by
  unfold rebuild
  rw [h.2]
  split <;> simp [RemRes.pure, h.1]

theorem remAt_indep (t : Node) (p : Path) (mem mem' : Mem) :
    (t.remAt tr p mem).pure = (t.remAt tr p mem').pure := by
  induction t generalizing p with
  | nil => rfl
  | node c d l m r ihl ihm ihr =>
    cases p with
    | nil =>
      simp only [Node.remAt]
      cases d with
      | none => rfl
      | some e => simp only []; split <;> rfl
    | cons dir p =>
      cases dir <;> simp only [Node.remAt]
      · have := ihl p; simp only [RemRes.pure, Prod.mk.injEq] at this
        rw [this.2.1]; exact rebuild_pure _ _ _ _ _ _ _ ⟨this.1, this.2.2⟩
      · have := ihm p; simp only [RemRes.pure, Prod.mk.injEq] at this
        rw [this.2.1]; exact rebuild_pure _ _ _ _ _ _ _ ⟨this.1, this.2.2⟩
      · have := ihr p; simp only [RemRes.pure, Prod.mk.injEq] at this
        rw [this.2.1]; exact rebuild_pure _ _ _ _ _ _ _ ⟨this.1, this.2.2⟩

theorem remAt_node_indep (t : Node) (p : Path) (mem mem' : Mem) :
    (t.remAt tr p mem).node = (t.remAt tr p mem').node := by
  have := remAt_indep (tr := tr) t p mem mem'
  simp only [RemRes.pure, Prod.mk.injEq] at this
  exact this.2.1

/-- `size` after `remove_all`, as a function of the tree alone -/
def Node.freeAllSize : Node → Nat → Nat
  | .nil, s => s
  | .node _ d l m r, s =>
    match d with
    | some _ => decSize (r.freeAllSize (m.freeAllSize (l.freeAllSize s)))
    | none => r.freeAllSize (m.freeAllSize (l.freeAllSize s))

theorem freeAll_fst (t : Node) (s : Nat) (mem : Mem) : (t.freeAll tr s mem).1 = t.freeAllSize s := by
  induction t generalizing s mem with
  | nil => rfl
  | node c d l m r ihl ihm ihr =>
    simp only [Node.freeAll, Node.freeAllSize]
    cases d <;> simp only [ihl, ihm, ihr]

theorem freeAll_indep (t : Node) (s : Nat) (mem mem' : Mem) :
    (t.freeAll tr s mem).1 = (t.freeAll tr s mem').1 := by
  rw [freeAll_fst, freeAll_fst]

/-- result of `iter_next` without the ledger -/
def NextRes.pure (r : NextRes) : Stat × Option Entry × Iter := (r.st, r.out, r.it)

theorem iterLoop_indep (root : Node) (it : Iter) (fuel : Nat) (node prev : Option Path) (mem mem' : Mem) :
    (iterLoop root it fuel node prev mem).pure = (iterLoop root it fuel node prev mem').pure := by
  induction fuel generalizing node prev with
  | zero => cases node <;> rfl
  | succ n ih =>
    cases node with
    | none => rfl
    | some p =>
      simp only [iterLoop]
      split
      · rfl
      · split
        · rfl
        · split
          · rfl
          · exact ih _ _

theorem iterNext_indep (t : Table) (it : Iter) (mem mem' : Mem) :
    (iterNext t it mem).pure = (iterNext t it mem').pure := by
  unfold iterNext
  split
  · split
    · split <;> rfl
    · rfl
  · exact iterLoop_indep _ _ _ _ _ _ _

theorem iterRemove_indep (t : Table) (it : Iter) (w : Bool) (mem mem' : Mem) :
    (iterRemove t it w mem).1 = (iterRemove t it w mem').1 ∧
    (iterRemove t it w mem).2.1 = (iterRemove t it w mem').2.1 ∧
    (iterRemove t it w mem).2.2.1 = (iterRemove t it w mem').2.2.1 ∧
    (iterRemove t it w mem).2.2.2.1 = (iterRemove t it w mem').2.2.2.1 := by
  unfold iterRemove
  split
  · exact ⟨by triv, by triv, by triv, by triv⟩
  · split
    · exact ⟨by triv, by triv, by triv, by triv⟩
    · rename_i p _ _
      simp only []
      have hn := iterNext_indep t it (if w = true then mem.check ((t.root.sub p).data?).isSome else mem)
        (if w = true then mem'.check ((t.root.sub p).data?).isSome else mem')
      simp only [NextRes.pure, Prod.mk.injEq] at hn
      refine ⟨by triv, by triv, ?_, ?_⟩
      · rw [remAt_node_indep _ _ _ (iterNext t it (if w = true then mem'.check ((t.root.sub p).data?).isSome else mem')).mem]
      · rw [hn.1, hn.2.2]

theorem Table.iterOp_indep (t : Table) (it : Iter) (op : IOp) (mem mem' : Mem) :
    (t.iterOp cmp it op mem).1 = (t.iterOp cmp it op mem').1 ∧
    (t.iterOp cmp it op mem).2.1 = (t.iterOp cmp it op mem').2.1 ∧
    (t.iterOp cmp it op mem).2.2.1 = (t.iterOp cmp it op mem').2.2.1 := by
  cases op with
  | next =>
    have := iterNext_indep t it mem mem'
    simp only [NextRes.pure, Prod.mk.injEq] at this
    simp only [Table.iterOp]
    exact ⟨by rw [this.1, this.2.1], by triv, this.2.2⟩
  | remove w =>
    have := iterRemove_indep t it w mem mem'
    simp only [Table.iterOp]
    exact ⟨by rw [this.1, this.2.1], this.2.2.1, this.2.2.2⟩
  | get k => exact ⟨rfl, rfl, rfl⟩
  | contains k => exact ⟨rfl, rfl, rfl⟩
  | size => exact ⟨rfl, rfl, rfl⟩

theorem Table.iterRun_indep (t : Table) (it : Iter) (ops : List IOp) (mem mem' : Mem) :
    (t.iterRun cmp it ops mem).1 = (t.iterRun cmp it ops mem').1 ∧
    (t.iterRun cmp it ops mem).2.1 = (t.iterRun cmp it ops mem').2.1 := by
  induction ops generalizing t it mem mem' with
  | nil => exact ⟨rfl, rfl⟩
  | cons op ops ih =>
    have s := Table.iterOp_indep (cmp := cmp) t it op mem mem'
    simp only [Table.iterRun]
    rw [s.1, s.2.1, s.2.2]
    have := ih (t.iterOp cmp it op mem').2.1 (t.iterOp cmp it op mem').2.2.1 (t.iterOp cmp it op mem).2.2.2
      (t.iterOp cmp it op mem').2.2.2
    exact ⟨by rw [this.1], this.2⟩

/-- **one operation**: output and resulting table do not depend on the ledger (an `add` installs its
own schedule with `Mem.begin`, so even the incoming schedule is irrelevant) -/
theorem Table.step_indep (t : Table) (op : Op) (mem mem' : Mem) :
    (t.step cmp op mem).1 = (t.step cmp op mem').1 ∧ (t.step cmp op mem).2.1 = (t.step cmp op mem').2.1 := by
  cases op with
  | add k v sched =>
    have := Table.add_sched (cmp := cmp) t k v (mem.begin sched) (mem'.begin sched) rfl
    simp only [Table.step]
    exact ⟨by rw [this.1], this.2⟩
  | get k => exact ⟨rfl, rfl⟩
  | contains k => exact ⟨rfl, rfl⟩
  | remove k =>
    simp only [Table.step, Table.remove]
    split
    · exact ⟨rfl, rfl⟩
    · split
      · exact ⟨rfl, rfl⟩
      · exact ⟨by triv, by simp only; rw [remAt_node_indep _ _ mem mem']⟩
  | removeAll =>
    simp only [Table.step, Table.removeAll]
    exact ⟨by triv, by rw [freeAll_indep _ _ mem mem']⟩
  | size => exact ⟨rfl, rfl⟩
  | enumerate => simp [Table.step, iterAll_eq]
  | iterate prog =>
    have := Table.iterRun_indep (cmp := cmp) t (iterInit t) prog mem mem'
    simp only [Table.step]
    exact ⟨by rw [this.1], this.2⟩

theorem Table.run_indep (t : Table) (ops : List Op) (mem mem' : Mem) :
    (t.run cmp ops mem).1 = (t.run cmp ops mem').1 ∧ (t.run cmp ops mem).2.1 = (t.run cmp ops mem').2.1 := by
  induction ops generalizing t mem mem' with
  | nil => exact ⟨rfl, rfl⟩
  | cons op ops ih =>
    have s := Table.step_indep (cmp := cmp) t op mem mem'
    simp only [Table.run]
    rw [s.1, s.2]
    have := ih (t.step cmp op mem').2.1 (t.step cmp op mem).2.2 (t.step cmp op mem').2.2
    exact ⟨by rw [this.1], this.2⟩

theorem Table.run_append (t : Table) (xs ys : List Op) (mem : Mem) :
    t.run cmp (xs ++ ys) mem =
      ((t.run cmp xs mem).1 ++ ((t.run cmp xs mem).2.1.run cmp ys (t.run cmp xs mem).2.2).1,
       ((t.run cmp xs mem).2.1.run cmp ys (t.run cmp xs mem).2.2).2) := by
  induction xs generalizing t mem with
  | nil => rfl
  | cons x xs ih => simp only [List.cons_append, Table.run, ih]

/-! ### `add` under refusal, for every key and every state -/

theorem Table.add_status (t : Table) (key : Key) (v : Nat) (mem : Mem) :
    (t.add cmp key v mem).1 = .ok ∨ (t.add cmp key v mem).1 = .errAlloc := by
  have q := ins_spec (tr := t.triple) (cmp := cmp) key v t.root key mem
  by_cases h : (t.root.ins t.triple cmp key v key mem).st = .ok
  · exact Or.inl h
  · exact Or.inr (q.2.1 h).1

/-- a failed `add` gives back the very same table and a ledger with the same number of live blocks -/
theorem Table.add_atomic_any (t : Table) (key : Key) (v : Nat) (mem : Mem) (h : (t.add cmp key v mem).1 ≠ .ok) :
    (t.add cmp key v mem).1 = .errAlloc ∧ (t.add cmp key v mem).2.1 = t ∧
    (t.add cmp key v mem).2.2.liveT t.triple = mem.liveT t.triple ∧ (t.add cmp key v mem).2.2.fault = mem.fault := by
  have q := ins_spec (tr := t.triple) (cmp := cmp) key v t.root key mem
  obtain ⟨q1, q2, q3, q4⟩ := q.2.1 h
  refine ⟨q1, ?_, q4, q.2.2⟩
  simp only [Table.add, q2, q3]; rfl

/-! ### the structural step: every operation, every key, every iterator session -/

/-- structural facts about a state transition `(t, mem) → (t', mem')`: invariant, no new fault, and the
**exact** ledger equation — the change of the live-block counter of the table's triple is the change of
the number of blocks the table owns -/
def StructOK (cmp : Cmp) (t : Table) (mem : Mem) (t' : Table) (mem' : Mem) : Prop :=
  t'.Inv cmp ∧ mem'.fault = mem.fault ∧ t'.triple = t.triple ∧
  mem'.liveT t.triple + t.root.owned = mem.liveT t.triple + t'.root.owned

theorem StructOK.refl (t : Table) (mem : Mem) (hi : t.Inv cmp) : StructOK cmp t mem t mem :=
  ⟨hi, rfl, rfl, rfl⟩

theorem StructOK.owns {t t' : Table} {mem mem' : Mem} (h : StructOK cmp t mem t' mem') (hl : t.Owns mem) :
    t'.Owns mem' := by
  obtain ⟨_, _, h3, h4⟩ := h
  unfold Table.Owns at hl ⊢; rw [h3]; omega

theorem StructOK.trans {t t' t'' : Table} {mem mem' mem'' : Mem} (h1 : StructOK cmp t mem t' mem')
    (h2 : StructOK cmp t' mem' t'' mem'') : StructOK cmp t mem t'' mem'' := by
  obtain ⟨a1, a2, a3, a4⟩ := h1
  obtain ⟨b1, b2, b3, b4⟩ := h2
  rw [a3] at b4
  exact ⟨b1, by rw [b2, a2], by rw [b3, a3], by omega⟩

/-- one call of an iterator session, for any key set: the table keeps its structural invariant, the
ledger equation is exact, nothing faults, and the iterator stays at a position of the enumeration -/
theorem Table.iterOp_struct (t : Table) (it : Iter) (op : IOp) (mem : Mem) (todo : List (Path × Entry))
    (hi : t.Inv cmp) (hl : t.Owns mem) (hok : IterOk t.root it todo) (hcm : it.curMarked t.root) :
    StructOK cmp t mem (t.iterOp cmp it op mem).2.1 (t.iterOp cmp it op mem).2.2.2 ∧
    ∃ todo', IterOk (t.iterOp cmp it op mem).2.1.root (t.iterOp cmp it op mem).2.2.1 todo' ∧
      (t.iterOp cmp it op mem).2.2.1.curMarked (t.iterOp cmp it op mem).2.1.root := by
  cases op with
  | next =>
    obtain ⟨n1, n2, n3⟩ := iterNext_ok t it mem todo hok
    simp only [Table.iterOp]
    rw [n1]
    refine ⟨StructOK.refl t mem hi, ?_⟩
    cases todo with
    | nil =>
      refine ⟨[], n3.2.2.1, ?_⟩
      intro p hp; rw [n3.2.2.2] at hp; cases hp
    | cons x tl =>
      refine ⟨tl, n3.2.2.1, ?_⟩
      intro p hp; rw [n3.2.2.2] at hp; simp at hp; subst hp
      exact ⟨x.2, hok.head_data mem⟩
  | remove w =>
    simp only [Table.iterOp]
    by_cases hin : it.cur = none ∨ it.adv = true
    · rw [iterRemove_inert t it w mem hin]
      exact ⟨StructOK.refl t mem hi, todo, hok, hcm⟩
    · have hadv : it.adv = false := by
        cases h : it.adv with
        | false => rfl
        | true => exact absurd (Or.inr h) hin
      cases hcur : it.cur with
      | none => exact absurd (Or.inl hcur) hin
      | some p =>
        obtain ⟨e, hd⟩ := hcm p hcur
        have hat : IterAt t.root it todo := by
          rcases hok with ⟨_, h⟩ | ⟨h, _⟩
          · exact h
          · rw [hadv] at h; cases h
        obtain ⟨h1, h2, h3, h4, h5, h6⟩ := iterRemove_ok t it w mem todo p e hat hadv hcur hd
        obtain ⟨q1, q2, q3, q4, q6⟩ := remAt_spec t.triple t.root p mem e hd (by unfold Table.Owns at hl; omega)
        obtain ⟨hs, hp, ho⟩ := hi
        rw [h3, h4]
        refine ⟨⟨⟨?_, pruned_remAt _ _ _ hp, ordered_remAt _ _ _ ho⟩, q4, rfl, q3⟩, todo, h6, ?_⟩
        · simp only [decSize]; rw [hs]; split <;> omega
        · intro q hq
          rcases h6 with ⟨h, _⟩ | ⟨_, h⟩
          · have : (iterRemove t it w mem).2.2.2.1.adv = true := by simp [iterRemove, hcur, hadv]
            rw [this] at h; cases h
          · cases todo with
            | nil => rw [h.2.1] at hq; cases hq
            | cons x tl => rw [h.2.2.1] at hq; simp at hq; subst hq; exact ⟨x.2, h.2.1⟩
  | get k => exact ⟨StructOK.refl t mem hi, todo, hok, hcm⟩
  | contains k => exact ⟨StructOK.refl t mem hi, todo, hok, hcm⟩
  | size => exact ⟨StructOK.refl t mem hi, todo, hok, hcm⟩

theorem Table.iterRun_struct (t : Table) (it : Iter) (ops : List IOp) (mem : Mem) (todo : List (Path × Entry))
    (hi : t.Inv cmp) (hl : t.Owns mem) (hok : IterOk t.root it todo) (hcm : it.curMarked t.root) :
    StructOK cmp t mem (t.iterRun cmp it ops mem).2.1 (t.iterRun cmp it ops mem).2.2.2 := by
  induction ops generalizing t it mem todo with
  | nil => exact StructOK.refl t mem hi
  | cons op ops ih =>
    obtain ⟨s, todo', h1, h2⟩ := Table.iterOp_struct (cmp := cmp) t it op mem todo hi hl hok hcm
    simp only [Table.iterRun]
    exact s.trans (ih _ _ _ todo' s.1 (s.owns hl) h1 h2)

theorem iterInit_curMarked (t : Table) : (iterInit t).curMarked t.root := by
  intro p hp; simp [iterInit] at hp

/-- **every operation of a history keeps the structural invariant, the exact ledger and never faults** —
also with the empty key (X5 does not reach memory safety) and through whole iterator sessions -/
theorem Table.step_struct (t : Table) (op : Op) (mem : Mem) (hi : t.Inv cmp) (hl : t.Owns mem) :
    StructOK cmp t mem (t.step cmp op mem).2.1 (t.step cmp op mem).2.2 := by
  cases op with
  | add k v sched =>
    have := Table.add_inv_any_key (cmp := cmp) t k v (mem.begin sched) hi
    rw [begin_liveT] at this
    exact ⟨this.1, this.2.1, rfl, this.2.2⟩
  | get k => exact StructOK.refl t mem hi
  | contains k => exact StructOK.refl t mem hi
  | remove k =>
    have := Table.remove_inv_any_key (cmp := cmp) t k mem hi hl
    exact ⟨this.1, this.2.1, Table.remove_triple t k mem, this.2.2⟩
  | removeAll =>
    have h := Table.removeAll_spec t mem hi.1 hl
    simp only [Table.step]
    rw [h.1]
    refine ⟨⟨rfl, trivial, trivial⟩, h.2.2, rfl, ?_⟩
    rw [h.2.1]; unfold Table.Owns at hl; simp only [owned_nil]; omega
  | size => exact StructOK.refl t mem hi
  | enumerate => simp only [Table.step, iterAll_eq]; exact StructOK.refl t mem hi
  | iterate prog =>
    exact Table.iterRun_struct t (iterInit t) prog mem t.root.entriesP hi hl
      (Or.inl ⟨rfl, iterInit_at t⟩) (iterInit_curMarked t)

theorem Table.run_struct (t : Table) (ops : List Op) (mem : Mem) (hi : t.Inv cmp) (hl : t.Owns mem) :
    StructOK cmp t mem (t.run cmp ops mem).2.1 (t.run cmp ops mem).2.2 := by
  induction ops generalizing t mem with
  | nil => exact StructOK.refl t mem hi
  | cons op ops ih =>
    have s := Table.step_struct (cmp := cmp) t op mem hi hl
    simp only [Table.run]
    exact s.trans (ih _ _ s.1 (s.owns hl))

/-! ### a complete traversal -/

/-- `n + 1` calls of `iter_next` from a position with `n` entries to come: the entries in order, then END -/
theorem iterRun_nexts (t : Table) (mem : Mem) : ∀ (todo : List (Path × Entry)) (it : Iter), IterOk t.root it todo →
    (t.iterRun cmp it (List.replicate (todo.length + 1) .next) mem).1 =
      todo.map (fun x => ({ st := .ok, key := some x.2.1, val := some x.2.2 } : IOut)) ++ [{ st := .iterEnd }] ∧
    (t.iterRun cmp it (List.replicate (todo.length + 1) .next) mem).2.1 = t ∧
    (t.iterRun cmp it (List.replicate (todo.length + 1) .next) mem).2.2.2 = mem := by
  intro todo
  induction todo with
  | nil =>
    intro it h
    obtain ⟨n1, _, n3, n4, _, _⟩ := iterNext_ok t it mem [] h
    simp only [List.length_nil, List.replicate, Table.iterRun, Table.iterOp, n3, n4, n1]
    exact ⟨by triv, by triv, by triv⟩
  | cons x tl ih =>
    intro it h
    obtain ⟨n1, _, n3, n4, n5, _⟩ := iterNext_ok t it mem (x :: tl) h
    have := ih _ n5
    simp only [List.length_cons, List.replicate, Table.iterRun, Table.iterOp, n3, n4, n1] at this ⊢
    exact ⟨by rw [this.1]; rfl, this.2.1, this.2.2⟩

/-! ### the ideal cursor -/
namespace SpecLemmas
open CC.Spec

theorem cursorNext_end (s : StrMap) (cu : StrMap.Cursor) (ch : Option SKey) (h : cu.todo = []) :
    StrMap.cursorNext s cu ch = (.iterEnd, none, true, { todo := [], last := none }) := by
  unfold StrMap.cursorNext; rw [h]

theorem cursorNext_yield (s : StrMap) (cu : StrMap.Cursor) (k : SKey) (v : Nat) (hk : k ∈ cu.todo)
    (hget : s.get k = some v) :
    StrMap.cursorNext s cu (some k) =
      (.ok, some (k, v), true, { todo := cu.todo.filter (· != k), last := some k }) := by
  unfold StrMap.cursorNext
  have hc : cu.todo.contains k = true := by simpa using hk
  cases hcu : cu.todo with
  | nil => rw [hcu] at hk; cases hk
  | cons a as => rw [hcu] at hc; simp only [hc, if_true, hget]

end SpecLemmas

end CC.TST
