import CollectionsC.Model.PTree
import CollectionsC.Proofs.TreeTableWalk
/-! The pointer-level tree (`Model/PTree.lean`) and the inductive tree: the representation predicate `Rep`
(every node of an id-annotated tree `ITree` sits in the heap with exactly its key, value, colour, child
pointers and parent pointer), its frame rule, and the surgery lemma `Rep.replace` on which the rotation
and transplant proofs rest. -/
namespace CC.PTree
open CC
open CC.Tree (Path Dir)

/-- the tree the links span, annotated with the node ids -/
inductive ITree where
  | nil
  | node (id : Nat) (c : Colour) (l : ITree) (k v : Nat) (r : ITree)
  deriving Repr, DecidableEq, Inhabited

namespace ITree
/-- the pointer that refers to this subtree (`S` for the empty one) -/
def rid : ITree → Nat
  | nil => S
  | node id _ _ _ _ _ => id
/-- forget the ids: the inductive tree of `Model/TreeTable.lean` -/
def erase : ITree → Tree
  | nil => .nil
  | node _ c l k v r => .node c (erase l) k v (erase r)
def ids : ITree → List Nat
  | nil => []
  | node id _ l _ _ r => id :: (ids l ++ ids r)
def height : ITree → Nat
  | nil => 0
  | node _ _ l _ _ r => max (height l) (height r) + 1
def subtree : ITree → Path → ITree
  | t, [] => t
  | nil, _ :: _ => nil
  | node _ _ l _ _ _, .L :: p => subtree l p
  | node _ _ _ _ _ r, .R :: p => subtree r p
/-- the tree with the subtree at a position replaced -/
def replace : ITree → Path → ITree → ITree
  | _, [], s => s
  | nil, _ :: _, _ => nil
  | node id c l k v r, .L :: p, s => node id c (replace l p s) k v r
  | node id c l k v r, .R :: p, s => node id c l k v (replace r p s)

@[simp] theorem rid_nil : rid nil = 0 := rfl
@[simp] theorem rid_node (id c l k v r) : rid (node id c l k v r) = id := rfl
@[simp] theorem subtree_root (t : ITree) : t.subtree [] = t := by cases t <;> rfl
@[simp] theorem subtree_nil (q : Path) : nil.subtree q = nil := by cases q <;> rfl
@[simp] theorem subtree_L (id c l k v r q) : (node id c l k v r).subtree (.L :: q) = l.subtree q := rfl
@[simp] theorem subtree_R (id c l k v r q) : (node id c l k v r).subtree (.R :: q) = r.subtree q := rfl
@[simp] theorem replace_root (t s : ITree) : t.replace [] s = s := by cases t <;> rfl
@[simp] theorem ids_nil : ids nil = [] := rfl
@[simp] theorem ids_node (id c l k v r) : ids (node id c l k v r) = id :: (ids l ++ ids r) := rfl

theorem ids_subtree_subset (t : ITree) (q : Path) : ∀ i ∈ (t.subtree q).ids, i ∈ t.ids := by
  induction q generalizing t with
  | nil => intro i hi; simpa using hi
  | cons d q ih =>
    cases t with
    | nil => intro i hi; simp at hi
    | node id c l k v r =>
      intro i hi
      cases d with
      | L => simp only [subtree_L] at hi; simp [ih l i hi]
      | R => simp only [subtree_R] at hi; simp [ih r i hi]

theorem rid_subtree_mem (t : ITree) (q : Path) : (t.subtree q).rid = 0 ∨ (t.subtree q).rid ∈ t.ids := by
  cases hs : t.subtree q with
  | nil => left; rfl
  | node i c l k v r => right; exact ids_subtree_subset t q i (by rw [hs]; simp)

/-- the root of a tree is not replaced by a replacement below it -/
theorem rid_replace_cons (t : ITree) (d : Dir) (q : Path) (s : ITree) : (t.replace (d :: q) s).rid = t.rid := by
  cases t with
  | nil => rfl
  | node => cases d <;> rfl
end ITree

/-- **representation**: the heap holds the annotated tree `t` below a node whose `parent` field is `p` —
every node has the key, value, colour of `t`, its `left`/`right` point to the children of `t` (the
sentinel for empty ones) and its `parent` to the node above -/
def Rep (h : Heap) : ITree → Nat → Prop
  | .nil, _ => True
  | .node id c l k v r, p =>
    id ≠ 0 ∧ h.get id = { key := k, value := v, color := c, left := l.rid, right := r.rid, parent := p } ∧
    Rep h l id ∧ Rep h r id

/-- nodes outside the tree do not matter -/
theorem Rep.frame {h h' : Heap} {t : ITree} {p : Nat} (hr : Rep h t p) (hf : ∀ i ∈ t.ids, h'.get i = h.get i) :
    Rep h' t p := by
  induction t generalizing p with
  | nil => trivial
  | node id c l k v r ihl ihr =>
    obtain ⟨h1, h2, h3, h4⟩ := hr
    refine ⟨h1, by rw [hf id (by simp), h2], ihl h3 (fun i hi => hf i (by simp [hi])),
      ihr h4 (fun i hi => hf i (by simp [hi]))⟩

theorem Rep.ids_ne {h : Heap} {t : ITree} {p : Nat} (hr : Rep h t p) : ∀ i ∈ t.ids, i ≠ 0 := by
  induction t generalizing p with
  | nil => intro i hi; simp at hi
  | node id c l k v r ihl ihr =>
    obtain ⟨h1, _, h3, h4⟩ := hr
    intro i hi
    simp only [ITree.ids_node, List.mem_cons, List.mem_append] at hi
    rcases hi with rfl | hi | hi
    · exact h1
    · exact ihl h3 i hi
    · exact ihr h4 i hi

/-- a represented subtree with another parent pointer at its root -/
theorem Rep.reparent {h : Heap} {t : ITree} {p p' : Nat} (hr : Rep h t p) (hroot : t = .nil ∨ (h.get t.rid).parent = p') :
    Rep h t p' := by
  cases t with
  | nil => trivial
  | node id c l k v r =>
    obtain ⟨h1, h2, h3, h4⟩ := hr
    rcases hroot with hn | hp
    · cases hn
    · simp only [ITree.rid_node, h2] at hp
      exact ⟨h1, by rw [h2, hp], h3, h4⟩

/-- `toTree` reads the represented tree back -/
theorem toTreeF_rep {h : Heap} {t : ITree} {p : Nat} (hr : Rep h t p) (f : Nat) (hf : t.height < f) :
    toTreeF h f t.rid = t.erase := by
  induction t generalizing p f with
  | nil => cases f <;> simp [toTreeF, ITree.erase]
  | node id c l k v r ihl ihr =>
    obtain ⟨h1, h2, h3, h4⟩ := hr
    cases f with
    | zero => simp at hf
    | succ f =>
      simp only [ITree.height] at hf
      have e1 := ihl h3 f (by omega)
      have e2 := ihr h4 f (by omega)
      simp only [toTreeF, ITree.rid_node, h1, if_false, h2, ITree.erase, e1, e2]

/-- the parent pointer of the node at a position -/
def parentAt (t : ITree) (p0 : Nat) (q : Path) : Nat :=
  if q = [] then p0 else (t.subtree q.dropLast).rid

theorem parentAt_L (id c l k v r p0) (d : Dir) (q : Path) :
    parentAt (.node id c l k v r) p0 (.L :: d :: q) = parentAt l id (d :: q) := by
  simp [parentAt, List.dropLast]
theorem parentAt_R (id c l k v r p0) (d : Dir) (q : Path) :
    parentAt (.node id c l k v r) p0 (.R :: d :: q) = parentAt r id (d :: q) := by
  simp [parentAt, List.dropLast]
theorem parentAt_single (id c l k v r p0) (d : Dir) : parentAt (.node id c l k v r) p0 [d] = id := by
  simp [parentAt]

theorem Rep.sub {h : Heap} {t : ITree} {p0 : Nat} (hr : Rep h t p0) (q : Path) :
    Rep h (t.subtree q) (parentAt t p0 q) := by
  induction q generalizing t p0 with
  | nil => simpa [parentAt] using hr
  | cons d q ih =>
    cases t with
    | nil => simp [Rep]
    | node id c l k v r =>
      obtain ⟨_, _, h3, h4⟩ := hr
      cases d with
      | L =>
        have := ih h3
        cases q with
        | nil => simpa [parentAt] using this
        | cons e q' => rw [parentAt_L]; exact this
      | R =>
        have := ih h4
        cases q with
        | nil => simpa [parentAt] using this
        | cons e q' => rw [parentAt_R]; exact this

/-- `x->left = v` / `x->right = v` on a record -/
def withChild (n : PNode) (d : Dir) (v : Nat) : PNode :=
  match d with | .L => { n with left := v } | .R => { n with right := v }

/-- **surgery below a position**: if the heap changes only inside the subtree at `q` and at the node above
it, the new subtree `s'` is represented there, and the node above now points to `s'`, then the whole tree
with `s'` in place of the old subtree is represented -/
theorem Rep.replace {h h' : Heap} {t : ITree} {p0 : Nat} (hr : Rep h t p0) (hnd : t.ids.Nodup) (q : Path)
    (s' : ITree)
    (hout : ∀ i ∈ t.ids, i ∉ (t.subtree q).ids → i ≠ parentAt t p0 q → h'.get i = h.get i)
    (hsub : Rep h' s' (parentAt t p0 q))
    (hpar : ∀ q0 d, q = q0 ++ [d] → h'.get (parentAt t p0 q) = withChild (h.get (parentAt t p0 q)) d s'.rid) :
    Rep h' (t.replace q s') p0 := by
  induction q generalizing t p0 with
  | nil => simpa [parentAt] using hsub
  | cons d q ih =>
    cases t with
    | nil => simp [ITree.replace, Rep]
    | node id c l k v r =>
      obtain ⟨h1, h2, h3, h4⟩ := hr
      simp only [ITree.ids_node, List.nodup_cons, List.mem_append, not_or] at hnd
      obtain ⟨⟨hidl, hidr⟩, hnd'⟩ := hnd
      obtain ⟨hndl, hndr, hdisj⟩ := List.nodup_append.1 hnd'
      cases q with
      | nil =>
        -- the node above is `id` itself
        have hp := hpar [] d rfl
        rw [parentAt_single] at hp hsub hout
        cases d with
        | L =>
          simp only [ITree.replace, ITree.replace_root]
          refine ⟨h1, by rw [hp, h2]; rfl, hsub, h4.frame (fun i hi => hout i (by simp [hi]) ?_ ?_)⟩
          · simp only [ITree.subtree_L, ITree.subtree_root]; intro hx; exact hdisj i hx i hi rfl
          · intro e; exact hidr (e ▸ hi)
        | R =>
          simp only [ITree.replace, ITree.replace_root]
          refine ⟨h1, by rw [hp, h2]; rfl, h3.frame (fun i hi => hout i (by simp [hi]) ?_ ?_), hsub⟩
          · simp only [ITree.subtree_R, ITree.subtree_root]; intro hx; exact hdisj i hi i hx rfl
          · intro e; exact hidl (e ▸ hi)
      | cons e q' =>
        cases d with
        | L =>
          rw [parentAt_L] at hout hsub hpar
          simp only [ITree.subtree_L] at hout
          have hpn : parentAt l id (e :: q') ≠ id ∧ (∀ i ∈ r.ids, i ≠ parentAt l id (e :: q')) := by
            have := ITree.rid_subtree_mem l (e :: q').dropLast
            simp only [parentAt, reduceCtorEq, if_false]
            rcases this with hz | hm
            · rw [hz]; exact ⟨fun x => h1 x.symm, fun i hi => h4.ids_ne i hi⟩
            · exact ⟨fun x => hidl (x ▸ hm), fun i hi x => hdisj _ hm i hi x.symm⟩
          simp only [ITree.replace]
          refine ⟨h1, ?_, ?_, ?_⟩
          · rw [ITree.rid_replace_cons, hout id (by simp) (fun hx => hidl (ITree.ids_subtree_subset l _ id hx)) hpn.1.symm, h2]
          · exact ih h3 hndl (fun i hi => hout i (by simp [hi])) hsub (fun q0 d2 hq => hpar (.L :: q0) d2 (by simp [hq]))
          · exact h4.frame (fun i hi => hout i (by simp [hi]) (fun hx => hdisj i (ITree.ids_subtree_subset l _ i hx) i hi rfl) (hpn.2 i hi))
        | R =>
          rw [parentAt_R] at hout hsub hpar
          simp only [ITree.subtree_R] at hout
          have hpn : parentAt r id (e :: q') ≠ id ∧ (∀ i ∈ l.ids, i ≠ parentAt r id (e :: q')) := by
            have := ITree.rid_subtree_mem r (e :: q').dropLast
            simp only [parentAt, reduceCtorEq, if_false]
            rcases this with hz | hm
            · rw [hz]; exact ⟨fun x => h1 x.symm, fun i hi => h3.ids_ne i hi⟩
            · exact ⟨fun x => hidr (x ▸ hm), fun i hi x => hdisj i hi _ hm x⟩
          simp only [ITree.replace]
          refine ⟨h1, ?_, ?_, ?_⟩
          · rw [ITree.rid_replace_cons, hout id (by simp) (fun hx => hidr (ITree.ids_subtree_subset r _ id hx)) hpn.1.symm, h2]
          · exact h3.frame (fun i hi => hout i (by simp [hi]) (fun hx => hdisj i hi i (ITree.ids_subtree_subset r _ i hx) rfl) (hpn.2 i hi))
          · exact ih h4 hndr (fun i hi => hout i (by simp [hi])) hsub (fun q0 d2 hq => hpar (.R :: q0) d2 (by simp [hq]))
end CC.PTree
