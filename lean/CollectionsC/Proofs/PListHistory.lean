import CollectionsC.Proofs.PListReverse
import CollectionsC.Proofs.DListStep
/-! Pointer-level model of `cc_list.c`, part 5: one step and whole histories of the pointer-level pair of lists
refine the sequence-level model (`DList.step` on the canonical chains of the contents), keep both lists
well-formed and disjoint. -/
namespace CC.PList
open CC CC.Chain
open CC.Spec
open CC.Spec.LSeq (Op Out Params)

/-- the operations that are modelled at the level of raw links -/
inductive POp where
  | addFirst (x : Nat) | addLast (x : Nat) | addAt (x i : Nat)
  | addAll | addAllAt (i : Nat) | splice | spliceAt (i : Nat)
  | remove (x : Nat) | removeAt (i : Nat) | removeFirst | removeLast | removeAll
  | replaceAt (x i : Nat) | reverse | filterMut | swapRoles
  deriving DecidableEq

def POp.toOp : POp → Op
  | .addFirst x => .addFirst x | .addLast x => .addLast x | .addAt x i => .addAt x i
  | .addAll => .addAll | .addAllAt i => .addAllAt i | .splice => .splice | .spliceAt i => .spliceAt i
  | .remove x => .remove x | .removeAt i => .removeAt i | .removeFirst => .removeFirst | .removeLast => .removeLast
  | .removeAll => .removeAll | .replaceAt x i => .replaceAt x i | .reverse => .reverse | .filterMut => .filterMut | .swapRoles => .swapRoles

/-- the shared heap and the two list headers -/
structure PS where
  st : St := {}
  l1 : Hdr := {}
  l2 : Hdr := {}

/-- one history step on the pair (destination, source) at the level of raw links -/
def pstep (P : Params) (p : PS) (op : POp) (m : Mem) : Out × PS × Mem :=
  match op with
  | .addFirst x => let r := addFirst p.st p.l1 x m; ({ st := some r.1 }, { p with st := r.2.1, l1 := r.2.2.1 }, r.2.2.2)
  | .addLast x => let r := addLast p.st p.l1 x m; ({ st := some r.1 }, { p with st := r.2.1, l1 := r.2.2.1 }, r.2.2.2)
  | .addAt x i => let r := addAt p.st p.l1 x i m; ({ st := some r.1 }, { p with st := r.2.1, l1 := r.2.2.1 }, r.2.2.2)
  | .addAll => let r := addAll p.st p.l1 p.l2 m; ({ st := some r.1 }, { p with st := r.2.1, l1 := r.2.2.1 }, r.2.2.2)
  | .addAllAt i => let r := addAllAt p.st p.l1 p.l2 i m; ({ st := some r.1 }, { p with st := r.2.1, l1 := r.2.2.1 }, r.2.2.2)
  | .splice => let r := splice p.st p.l1 p.l2 m; ({ st := some r.1 }, { st := r.2.1, l1 := r.2.2.1, l2 := r.2.2.2.1 }, r.2.2.2.2)
  | .spliceAt i => let r := spliceAt p.st p.l1 p.l2 i m; ({ st := some r.1 }, { st := r.2.1, l1 := r.2.2.1, l2 := r.2.2.2.1 }, r.2.2.2.2)
  | .remove x => let r := remove p.st p.l1 x m; ({ st := some r.1, val := r.2.1 }, { p with st := r.2.2.1, l1 := r.2.2.2.1 }, r.2.2.2.2)
  | .removeAt i => let r := removeAt p.st p.l1 i m; ({ st := some r.1, val := r.2.1 }, { p with st := r.2.2.1, l1 := r.2.2.2.1 }, r.2.2.2.2)
  | .removeFirst => let r := removeFirst p.st p.l1 m; ({ st := some r.1, val := r.2.1 }, { p with st := r.2.2.1, l1 := r.2.2.2.1 }, r.2.2.2.2)
  | .removeLast => let r := removeLast p.st p.l1 m; ({ st := some r.1, val := r.2.1 }, { p with st := r.2.2.1, l1 := r.2.2.2.1 }, r.2.2.2.2)
  | .removeAll => let r := removeAll p.st p.l1 m; ({ st := some r.1, vals := r.2.1 }, { p with st := r.2.2.1, l1 := r.2.2.2.1 }, r.2.2.2.2)
  | .replaceAt x i => let r := replaceAt p.st p.l1 x i m; ({ st := some r.1, val := r.2.1 }, { p with st := r.2.2.1, l1 := r.2.2.2.1 }, r.2.2.2.2)
  | .reverse => let r := reverseC p.st p.l1 m; ({}, { p with st := r.1, l1 := r.2.1 }, r.2.2)
  | .filterMut => let r := filterMut P.pred p.st p.l1 m; ({ st := some r.1 }, { p with st := r.2.1, l1 := r.2.2.1 }, r.2.2.2)
  | .swapRoles => ({}, { p with l1 := p.l2, l2 := p.l1 }, m)

def prun (P : Params) (p : PS) (ops : List POp) (m : Mem) : List Out × PS × Mem :=
  match ops with
  | [] => ([], p, m)
  | op :: ops => let r := pstep P p op m; let rs := prun P r.2.1 ops r.2.2; (r.1 :: rs.1, rs.2.1, rs.2.2)

/-- both lists are represented on the shared heap by disjoint sets of nodes, all older than the next serial -/
structure Inv2 (p : PS) (c1 c2 : List Cell) : Prop where
  rep : Repr2 p.st.heap p.l1 p.l2 c1 c2
  b1 : ∀ x, x ∈ idsOf c1 → x < p.st.fresh
  b2 : ∀ x, x ∈ idsOf c2 → x < p.st.fresh

/-- the sequence-level pair of states a pointer-level pair stands for -/
def absPair (p : PS) (c1 c2 : List Cell) : Chain × Chain := (ofList p.l1.triple (dataOf c1), ofList p.l2.triple (dataOf c2))

/-- a single-list operation on the destination keeps the pair invariant -/
theorem Inv2.of_keeps {p : PS} {c1 c2 c1' : List Cell} {s' : St} {l1' : Hdr} (I : Inv2 p c1 c2)
    (k : Keeps p.st s' p.l1 l1' c1 c1') (hnew : ∀ x, x ∈ idsOf c1' → x ∈ idsOf c1 ∨ p.st.fresh ≤ x) :
    Inv2 { p with st := s', l1 := l1' } c1' c2 := by
  refine ⟨⟨k.repr, ?_, ?_⟩, k.bound, fun x hx => Nat.lt_of_lt_of_le (I.b2 x hx) k.mono⟩
  · refine ⟨I.rep.r2.nodup, Seg_frame (fun b hb => ?_) I.rep.r2.seg, I.rep.r2.size, I.rep.r2.head, I.rep.r2.tail⟩
    exact k.frame b (fun hm => I.rep.disj b hm hb) (I.b2 b hb)
  · intro x hx hx2
    rcases hnew x hx with h | h
    · exact I.rep.disj x h hx2
    · exact Nat.lt_irrefl _ (Nat.lt_of_lt_of_le (I.b2 x hx2) h)


/-! list facts at a position given by a prefix -/
theorem insertIdx_mid (pre post : List Nat) (x : Nat) : (pre ++ post).insertIdx pre.length x = pre ++ x :: post := by
  induction pre with
  | nil => simp
  | cons a r ih => simp [List.insertIdx_succ_cons, ih]
theorem eraseIdx_mid (pre post : List Nat) (a : Nat) : (pre ++ a :: post).eraseIdx pre.length = pre ++ post := by
  induction pre with
  | nil => simp
  | cons b r ih => simp [ih]
theorem set_mid (pre post : List Nat) (a x : Nat) : (pre ++ a :: post).set pre.length x = pre ++ x :: post := by
  induction pre with
  | nil => simp
  | cons b r ih => simp [ih]
theorem getD_mid (pre post : List Nat) (a d : Nat) : (pre ++ a :: post).getD pre.length d = a := by
  induction pre with
  | nil => simp
  | cons b r ih => simpa using ih
theorem erase_mid (pre post : List Nat) (x : Nat) (h : x ∉ pre) : (pre ++ x :: post).erase x = pre ++ post := by
  induction pre with
  | nil => simp
  | cons b r ih =>
    have hb : b ≠ x := fun e => h (by simp [e])
    have hr : x ∉ r := fun hm => h (by simp [hm])
    simp [List.erase_cons, hb, ih hr]

theorem pstep_addFirst (P : Params) (p : PS) (c1 c2 : List Cell) (x : Nat) (m : Mem) (I : Inv2 p c1 c2) :
    ∃ c1' c2', Inv2 (pstep P p (.addFirst x) m).2.1 c1' c2' ∧
      DList.step P (absPair p c1 c2) (.addFirst x) m =
        ((pstep P p (.addFirst x) m).1, absPair (pstep P p (.addFirst x) m).2.1 c1' c2', (pstep P p (.addFirst x) m).2.2) := by
  obtain ⟨sf, st⟩ := addFirst_spec p.st p.l1 c1 x m I.rep.r1 I.b1
  simp only [pstep, DList.step, absPair, DList.addFirst_ofList]
  by_cases ha : (m.allocT p.l1.triple).1 = true
  · obtain ⟨h1, h2, k⟩ := st ha
    refine ⟨(p.st.fresh, x) :: c1, c2, Inv2.of_keeps I k ?_, ?_⟩
    · intro y hy; simp only [idsOf_cons, List.mem_cons] at hy
      rcases hy with e | e
      · exact Or.inr (by rw [e]; exact Nat.le_refl _)
      · exact Or.inl e
    · simp only [ha, if_true, h1, h2, k.triple, dataOf_cons, LSeq.addFirst]
  · have ha' : (m.allocT p.l1.triple).1 = false := by simpa using ha
    rw [sf ha']
    exact ⟨c1, c2, I, by simp [ha']⟩


theorem pstep_addLast (P : Params) (p : PS) (c1 c2 : List Cell) (x : Nat) (m : Mem) (I : Inv2 p c1 c2) :
    ∃ c1' c2', Inv2 (pstep P p (.addLast x) m).2.1 c1' c2' ∧
      DList.step P (absPair p c1 c2) (.addLast x) m =
        ((pstep P p (.addLast x) m).1, absPair (pstep P p (.addLast x) m).2.1 c1' c2', (pstep P p (.addLast x) m).2.2) := by
  obtain ⟨sf, st⟩ := addLast_spec p.st p.l1 c1 x m I.rep.r1 I.b1
  simp only [pstep, DList.step, absPair, DList.addLast_ofList]
  by_cases ha : (m.allocT p.l1.triple).1 = true
  · obtain ⟨h1, h2, k⟩ := st ha
    refine ⟨c1 ++ [(p.st.fresh, x)], c2, Inv2.of_keeps I k ?_, ?_⟩
    · intro y hy; simp only [idsOf_append, idsOf_cons, idsOf_nil, List.mem_append, List.mem_singleton] at hy
      rcases hy with e | e
      · exact Or.inl e
      · exact Or.inr (by rw [e]; exact Nat.le_refl _)
    · simp only [ha, if_true, h1, h2, k.triple, dataOf_append, dataOf_cons, dataOf_nil, LSeq.addLast]
  · have ha' : (m.allocT p.l1.triple).1 = false := by simpa using ha
    rw [sf ha']
    exact ⟨c1, c2, I, by simp [ha']⟩

theorem pstep_addAt (P : Params) (p : PS) (c1 c2 : List Cell) (x i : Nat) (m : Mem) (I : Inv2 p c1 c2) :
    ∃ c1' c2', Inv2 (pstep P p (.addAt x i) m).2.1 c1' c2' ∧
      DList.step P (absPair p c1 c2) (.addAt x i) m =
        ((pstep P p (.addAt x i) m).1, absPair (pstep P p (.addAt x i) m).2.1 c1' c2', (pstep P p (.addAt x i) m).2.2) := by
  obtain ⟨se, sf, st⟩ := addAt_spec p.st p.l1 c1 x i m I.rep.r1 I.b1
  simp only [pstep, DList.step, absPair, DList.addAt_ofList, LSeq.addAt, dataOf_length]
  by_cases hi : i < c1.length
  · by_cases ha : (m.allocT p.l1.triple).1 = true
    · obtain ⟨pre, a, post, e, hl, _, _⟩ := split_at c1 i hi
      obtain ⟨h1, h2, k⟩ := st pre a post e hl ha
      refine ⟨pre ++ (p.st.fresh, x) :: a :: post, c2, Inv2.of_keeps I k ?_, ?_⟩
      · intro y hy
        simp only [idsOf_append, idsOf_cons, List.mem_append, List.mem_cons] at hy
        rcases hy with hy | hy | hy | hy
        · exact Or.inl (by rw [e]; simp [hy])
        · exact Or.inr (by rw [hy]; exact Nat.le_refl _)
        · exact Or.inl (by rw [e]; simp [hy])
        · exact Or.inl (by rw [e]; simp [hy])
      · have hd : (dataOf c1).insertIdx i x = dataOf (pre ++ (p.st.fresh, x) :: a :: post) := by
          rw [e, ← hl]
          simp only [dataOf_append, dataOf_cons]
          rw [← dataOf_length pre]
          exact insertIdx_mid _ _ _
        simp only [hi, if_true, ha, h1, h2, k.triple, hd]
    · have ha' : (m.allocT p.l1.triple).1 = false := by simpa using ha
      rw [sf hi ha']
      exact ⟨c1, c2, I, by simp [hi, ha']⟩
  · rw [se hi]
    exact ⟨c1, c2, I, by simp [hi]⟩

theorem pstep_removeAt (P : Params) (p : PS) (c1 c2 : List Cell) (i : Nat) (m : Mem) (I : Inv2 p c1 c2) :
    ∃ c1' c2', Inv2 (pstep P p (.removeAt i) m).2.1 c1' c2' ∧
      DList.step P (absPair p c1 c2) (.removeAt i) m =
        ((pstep P p (.removeAt i) m).1, absPair (pstep P p (.removeAt i) m).2.1 c1' c2', (pstep P p (.removeAt i) m).2.2) := by
  obtain ⟨se, st⟩ := removeAt_spec p.st p.l1 c1 i m I.rep.r1 I.b1
  simp only [pstep, DList.step, absPair, DList.removeAt_ofList, LSeq.removeAt, dataOf_length]
  by_cases hi : i < c1.length
  · obtain ⟨pre, a, post, e, hl, _, hg⟩ := split_at c1 i hi
    obtain ⟨h1, h2, h3, k⟩ := st pre a post e hl
    refine ⟨pre ++ post, c2, Inv2.of_keeps I k ?_, ?_⟩
    · intro y hy
      simp only [idsOf_append, List.mem_append] at hy
      rcases hy with hy | hy
      · exact Or.inl (by rw [e]; simp [hy])
      · exact Or.inl (by rw [e]; simp [hy])
    · have hd : (dataOf c1).eraseIdx i = dataOf (pre ++ post) := by
        rw [e, ← hl]
        simp only [dataOf_append, dataOf_cons]
        rw [← dataOf_length pre]
        exact eraseIdx_mid _ _ _
      simp only [hi, if_true, h1, h2, h3, k.triple, hd, hg]
  · rw [se hi]
    exact ⟨c1, c2, I, by simp [hi]⟩

theorem pstep_removeFirst (P : Params) (p : PS) (c1 c2 : List Cell) (m : Mem) (I : Inv2 p c1 c2) :
    ∃ c1' c2', Inv2 (pstep P p .removeFirst m).2.1 c1' c2' ∧
      DList.step P (absPair p c1 c2) .removeFirst m =
        ((pstep P p .removeFirst m).1, absPair (pstep P p .removeFirst m).2.1 c1' c2', (pstep P p .removeFirst m).2.2) := by
  obtain ⟨se, st⟩ := removeFirst_spec p.st p.l1 c1 m I.rep.r1 I.b1
  simp only [pstep, DList.step, absPair, DList.removeFirst_ofList]
  cases hc : c1 with
  | nil =>
    rw [hc] at se
    rw [se rfl]
    exact ⟨[], c2, hc ▸ I, by simp [LSeq.removeFirst]⟩
  | cons a post =>
    obtain ⟨h1, h2, h3, k⟩ := st a post hc
    rw [hc] at k
    refine ⟨post, c2, Inv2.of_keeps (hc ▸ I) k (fun y hy => Or.inl (by simp [hy])), ?_⟩
    simp only [dataOf_cons, LSeq.removeFirst, if_true, h1, h2, h3, k.triple]

theorem pstep_removeLast (P : Params) (p : PS) (c1 c2 : List Cell) (m : Mem) (I : Inv2 p c1 c2) :
    ∃ c1' c2', Inv2 (pstep P p .removeLast m).2.1 c1' c2' ∧
      DList.step P (absPair p c1 c2) .removeLast m =
        ((pstep P p .removeLast m).1, absPair (pstep P p .removeLast m).2.1 c1' c2', (pstep P p .removeLast m).2.2) := by
  obtain ⟨se, st⟩ := removeLast_spec p.st p.l1 c1 m I.rep.r1 I.b1
  simp only [pstep, DList.step, absPair, DList.removeLast_ofList, LSeq.removeLast]
  rcases eq_nil_or_snoc c1 with hc | ⟨pre, a, hc⟩
  · rw [se hc]
    subst hc
    exact ⟨[], c2, I, by simp⟩
  · obtain ⟨h1, h2, h3, k⟩ := st pre a hc
    subst hc
    refine ⟨pre, c2, Inv2.of_keeps I k (fun y hy => Or.inl (by simp [hy])), ?_⟩
    have hne : dataOf (pre ++ [a]) ≠ [] := by simp
    simp only [hne, if_false, if_true, h1, h2, h3, k.triple]
    simp

theorem pstep_remove (P : Params) (p : PS) (c1 c2 : List Cell) (x : Nat) (m : Mem) (I : Inv2 p c1 c2) :
    ∃ c1' c2', Inv2 (pstep P p (.remove x) m).2.1 c1' c2' ∧
      DList.step P (absPair p c1 c2) (.remove x) m =
        ((pstep P p (.remove x) m).1, absPair (pstep P p (.remove x) m).2.1 c1' c2', (pstep P p (.remove x) m).2.2) := by
  obtain ⟨se, st⟩ := remove_spec p.st p.l1 c1 x m I.rep.r1 I.b1
  simp only [pstep, DList.step, absPair, DList.remove_ofList, LSeq.remove]
  by_cases hx : x ∈ dataOf c1
  · obtain ⟨pre, a, post, e, ea, hpre, _⟩ := find_split c1 x hx
    obtain ⟨h1, h2, h3, k⟩ := st pre a post e ea hpre
    refine ⟨pre ++ post, c2, Inv2.of_keeps I k ?_, ?_⟩
    · intro y hy
      simp only [idsOf_append, List.mem_append] at hy
      rcases hy with hy | hy
      · exact Or.inl (by rw [e]; simp [hy])
      · exact Or.inl (by rw [e]; simp [hy])
    · have hd : (dataOf c1).erase x = dataOf (pre ++ post) := by
        rw [e]; simp only [dataOf_append, dataOf_cons, ea]; exact erase_mid _ _ _ hpre
      simp only [hx, if_true, h1, h2, h3, k.triple, hd]
  · rw [se hx]
    exact ⟨c1, c2, I, by simp [hx]⟩

theorem pstep_removeAll (P : Params) (p : PS) (c1 c2 : List Cell) (m : Mem) (I : Inv2 p c1 c2) :
    ∃ c1' c2', Inv2 (pstep P p .removeAll m).2.1 c1' c2' ∧
      DList.step P (absPair p c1 c2) .removeAll m =
        ((pstep P p .removeAll m).1, absPair (pstep P p .removeAll m).2.1 c1' c2', (pstep P p .removeAll m).2.2) := by
  obtain ⟨se, st⟩ := removeAll_spec p.st p.l1 c1 m I.rep.r1 I.b1
  simp only [pstep, DList.step, absPair, DList.removeAll_ofList, LSeq.removeAll]
  by_cases hc : c1 = []
  · rw [se hc]; subst hc
    exact ⟨[], c2, I, by simp [Mem.freeN]⟩
  · obtain ⟨h1, h2, h3, k⟩ := st hc
    refine ⟨[], c2, Inv2.of_keeps I k (fun y hy => by simp [idsOf] at hy), ?_⟩
    have hne : dataOf c1 ≠ [] := fun e => hc (List.eq_nil_of_length_eq_zero (by rw [← dataOf_length, e]; rfl))
    simp only [hne, if_false, h1, h2, h3, k.triple, dataOf_nil, dataOf_length]

theorem pstep_replaceAt (P : Params) (p : PS) (c1 c2 : List Cell) (x i : Nat) (m : Mem) (I : Inv2 p c1 c2) :
    ∃ c1' c2', Inv2 (pstep P p (.replaceAt x i) m).2.1 c1' c2' ∧
      DList.step P (absPair p c1 c2) (.replaceAt x i) m =
        ((pstep P p (.replaceAt x i) m).1, absPair (pstep P p (.replaceAt x i) m).2.1 c1' c2', (pstep P p (.replaceAt x i) m).2.2) := by
  obtain ⟨se, st⟩ := replaceAt_spec p.st p.l1 c1 x i m I.rep.r1
  simp only [pstep, DList.step, absPair, DList.replaceAt_ofList, LSeq.replaceAt, dataOf_length]
  by_cases hi : i < c1.length
  · obtain ⟨pre, a, post, e, hl, _, hg⟩ := split_at c1 i hi
    obtain ⟨h1, r', fr⟩ := st pre a post e hl
    rw [h1]
    refine ⟨pre ++ (a.1, x) :: post, c2, ⟨⟨r', ?_, ?_⟩, ?_, I.b2⟩, ?_⟩
    · refine ⟨I.rep.r2.nodup, Seg_frame (fun b hb => fr b (fun hm => I.rep.disj b hm hb)) I.rep.r2.seg, I.rep.r2.size, I.rep.r2.head, I.rep.r2.tail⟩
    · intro y hy hy2
      refine I.rep.disj y ?_ hy2
      rw [e]; simpa [idsOf] using hy
    · intro y hy; exact I.b1 y (by rw [e]; simpa [idsOf] using hy)
    · have hd : (dataOf c1).set i x = dataOf (pre ++ (a.1, x) :: post) := by
        rw [e, ← hl]
        simp only [dataOf_append, dataOf_cons]
        rw [← dataOf_length pre]
        exact set_mid _ _ _ _
      simp only [hi, if_true, hd, hg]
  · rw [se hi]
    exact ⟨c1, c2, I, by simp [hi]⟩

theorem pstep_reverse (P : Params) (p : PS) (c1 c2 : List Cell) (m : Mem) (I : Inv2 p c1 c2) :
    ∃ c1' c2', Inv2 (pstep P p .reverse m).2.1 c1' c2' ∧
      DList.step P (absPair p c1 c2) .reverse m =
        ((pstep P p .reverse m).1, absPair (pstep P p .reverse m).2.1 c1' c2', (pstep P p .reverse m).2.2) := by
  obtain ⟨r', t, f, fr⟩ := reverse_spec p.st p.l1 c1 I.rep.r1
  simp only [pstep, DList.step, absPair, DList.reverse_ofList, reverseC_spec p.st p.l1 c1 m I.rep.r1]
  refine ⟨c1.reverse, c2, ⟨⟨r', ?_, ?_⟩, ?_, ?_⟩, ?_⟩
  · exact ⟨I.rep.r2.nodup, Seg_frame (fun b hb => fr b (fun hm => I.rep.disj b hm hb)) I.rep.r2.seg, I.rep.r2.size, I.rep.r2.head, I.rep.r2.tail⟩
  · intro y hy hy2; exact I.rep.disj y (by simpa [idsOf] using hy) hy2
  · intro y hy; rw [f]; exact I.b1 y (by simpa [idsOf] using hy)
  · intro y hy; rw [f]; exact I.b2 y hy
  · simp only [t]; simp [dataOf]


theorem dataOf_take (cs : List Cell) (i : Nat) : dataOf (cs.take i) = (dataOf cs).take i := by simp [dataOf, List.map_take]
theorem dataOf_drop (cs : List Cell) (i : Nat) : dataOf (cs.drop i) = (dataOf cs).drop i := by simp [dataOf, List.map_drop]
theorem dataOf_eq_nil (cs : List Cell) : dataOf cs = [] ↔ cs = [] := by simp [dataOf]

theorem pstep_spliceAt (P : Params) (p : PS) (c1 c2 : List Cell) (i : Nat) (m : Mem) (I : Inv2 p c1 c2) :
    ∃ c1' c2', Inv2 (pstep P p (.spliceAt i) m).2.1 c1' c2' ∧
      DList.step P (absPair p c1 c2) (.spliceAt i) m =
        ((pstep P p (.spliceAt i) m).1, absPair (pstep P p (.spliceAt i) m).2.1 c1' c2', (pstep P p (.spliceAt i) m).2.2) := by
  obtain ⟨se, so, st⟩ := spliceAt_spec p.st p.l1 p.l2 c1 c2 i m I.rep
  simp only [pstep, DList.step, absPair, DList.spliceAt_ofList, LSeq.spliceAt, dataOf_length, dataOf_eq_nil, if_true]
  by_cases h2 : c2 = []
  · rw [se h2]; subst h2
    exact ⟨c1, [], I, by simp⟩
  · by_cases hi : i ≤ c1.length
    · obtain ⟨h', l1', l2', e, r2, t1, t2, fr⟩ := st h2 hi
      rw [e]
      refine ⟨c1.take i ++ c2 ++ c1.drop i, [], ⟨r2, ?_, by simp [idsOf]⟩, ?_⟩
      · intro y hy
        simp only [idsOf_append, List.mem_append] at hy
        rcases hy with (hy | hy) | hy
        · exact I.b1 y (by have := List.take_subset i c1; simp only [idsOf, List.mem_map] at hy ⊢; obtain ⟨c, hc, rfl⟩ := hy; exact ⟨c, this hc, rfl⟩)
        · exact I.b2 y hy
        · exact I.b1 y (by have := List.drop_subset i c1; simp only [idsOf, List.mem_map] at hy ⊢; obtain ⟨c, hc, rfl⟩ := hy; exact ⟨c, this hc, rfl⟩)
      · simp only [h2, if_false, hi, if_true, t1, t2, dataOf_append, dataOf_take, dataOf_drop, dataOf_nil]
    · rw [so h2 (by omega)]
      exact ⟨c1, c2, I, by simp [h2, hi]⟩

theorem pstep_splice (P : Params) (p : PS) (c1 c2 : List Cell) (m : Mem) (I : Inv2 p c1 c2) :
    ∃ c1' c2', Inv2 (pstep P p .splice m).2.1 c1' c2' ∧
      DList.step P (absPair p c1 c2) .splice m =
        ((pstep P p .splice m).1, absPair (pstep P p .splice m).2.1 c1' c2', (pstep P p .splice m).2.2) := by
  obtain ⟨se, st⟩ := splice_spec p.st p.l1 p.l2 c1 c2 m I.rep
  simp only [pstep, DList.step, absPair, DList.splice_ofList, LSeq.splice, dataOf_eq_nil]
  by_cases h2 : c2 = []
  · rw [se h2]; subst h2
    exact ⟨c1, [], I, by simp⟩
  · obtain ⟨h', l1', l2', e, r2, t1, t2, fr⟩ := st h2
    rw [e]
    refine ⟨c1 ++ c2, [], ⟨r2, ?_, by simp [idsOf]⟩, ?_⟩
    · intro y hy
      simp only [idsOf_append, List.mem_append] at hy
      rcases hy with hy | hy
      · exact I.b1 y hy
      · exact I.b2 y hy
    · simp only [h2, if_false, t1, t2, dataOf_append, dataOf_nil]

theorem pstep_addAllAt (P : Params) (p : PS) (c1 c2 : List Cell) (i : Nat) (m : Mem) (I : Inv2 p c1 c2) :
    ∃ c1' c2', Inv2 (pstep P p (.addAllAt i) m).2.1 c1' c2' ∧
      DList.step P (absPair p c1 c2) (.addAllAt i) m =
        ((pstep P p (.addAllAt i) m).1, absPair (pstep P p (.addAllAt i) m).2.1 c1' c2', (pstep P p (.addAllAt i) m).2.2) := by
  obtain ⟨se, so, st⟩ := addAllAt_spec p.st p.l1 p.l2 c1 c2 i m I.rep I.b1 I.b2
  simp only [pstep, DList.step, absPair, DList.addAllAt_ofList, LSeq.addAllAt, dataOf_length, dataOf_eq_nil, if_true]
  by_cases h2 : c2 = []
  · rw [se h2]; subst h2
    exact ⟨c1, [], I, by simp⟩
  · by_cases hi : i ≤ c1.length
    · obtain ⟨hm, hfr, hfail, hok⟩ := st h2 hi
      by_cases ha : (Mem.allocChain p.l1.triple c2.length 0 m).1 = true
      · obtain ⟨nc, d1, d2, h1, r2, t1, fr⟩ := hok ha
        refine ⟨c1.take i ++ nc ++ c1.drop i, c2, ⟨r2, ?_, fun y hy => Nat.lt_of_lt_of_le (I.b2 y hy) hfr⟩, ?_⟩
        · intro y hy
          simp only [idsOf_append, List.mem_append] at hy
          rcases hy with (hy | hy) | hy
          · exact Nat.lt_of_lt_of_le (I.b1 y (by have := List.take_subset i c1; simp only [idsOf, List.mem_map] at hy ⊢; obtain ⟨c, hc, rfl⟩ := hy; exact ⟨c, this hc, rfl⟩)) hfr
          · exact (d2 y hy).2
          · exact Nat.lt_of_lt_of_le (I.b1 y (by have := List.drop_subset i c1; simp only [idsOf, List.mem_map] at hy ⊢; obtain ⟨c, hc, rfl⟩ := hy; exact ⟨c, this hc, rfl⟩)) hfr
        · have hd2 : dataOf c2 ≠ [] := fun e => h2 ((dataOf_eq_nil c2).1 e)
          simp only [h2, if_false, hi, if_true, ha, h1, hm, t1, dataOf_append, dataOf_take, dataOf_drop, d1, not_false_eq_true, and_self]
          simp [hd2]
      · have ha' : (Mem.allocChain p.l1.triple c2.length 0 m).1 = false := by simpa using ha
        obtain ⟨h1, hl, fr⟩ := hfail ha'
        refine ⟨c1, c2, ⟨⟨?_, ?_, I.rep.disj⟩, fun y hy => Nat.lt_of_lt_of_le (I.b1 y hy) hfr, fun y hy => Nat.lt_of_lt_of_le (I.b2 y hy) hfr⟩, ?_⟩
        · rw [hl]
          exact ⟨I.rep.r1.nodup, Seg_frame (fun b hb => fr b (I.b1 b hb)) I.rep.r1.seg, I.rep.r1.size, I.rep.r1.head, I.rep.r1.tail⟩
        · exact ⟨I.rep.r2.nodup, Seg_frame (fun b hb => fr b (I.b2 b hb)) I.rep.r2.seg, I.rep.r2.size, I.rep.r2.head, I.rep.r2.tail⟩
        · have hd2 : dataOf c2 ≠ [] := fun e => h2 ((dataOf_eq_nil c2).1 e)
          simp only [h2, if_false, hi, if_true, ha', h1, hm, hl, not_false_eq_true, and_self, Bool.false_eq_true]
          simp [hd2]
    · rw [so h2 (by omega)]
      exact ⟨c1, c2, I, by simp [h2, hi]⟩

theorem addAll_eq (s : St) (l1 l2 : Hdr) (m : Mem) : addAll s l1 l2 m = addAllAt s l1 l2 l1.size m := by
  unfold addAll addAllAt
  by_cases h1 : l1.size = 0
  · simp only [h1, if_true, Nat.lt_irrefl, gt_iff_lt, if_false]
    unfold addAllToEmpty
    by_cases h2 : l2.size = 0 <;> simp [h2]
  · simp [h1]

theorem pstep_addAll (P : Params) (p : PS) (c1 c2 : List Cell) (m : Mem) (I : Inv2 p c1 c2) :
    ∃ c1' c2', Inv2 (pstep P p .addAll m).2.1 c1' c2' ∧
      DList.step P (absPair p c1 c2) .addAll m =
        ((pstep P p .addAll m).1, absPair (pstep P p .addAll m).2.1 c1' c2', (pstep P p .addAll m).2.2) := by
  have h := pstep_addAllAt P p c1 c2 c1.length m I
  have e1 : pstep P p .addAll m = pstep P p (.addAllAt c1.length) m := by
    simp only [pstep, addAll_eq, I.rep.r1.size]
  have e2 : DList.step P (absPair p c1 c2) .addAll m = DList.step P (absPair p c1 c2) (.addAllAt c1.length) m := by
    simp only [DList.step, absPair, DList.addAll_ofList, DList.addAllAt_ofList, LSeq.addAll, LSeq.addAllAt, dataOf_length,
      Nat.le_refl, if_true, dataOf_eq_nil]
    have htk : List.take c1.length (dataOf c1) = dataOf c1 := by rw [← dataOf_length c1]; exact List.take_length
    have hdr : List.drop c1.length (dataOf c1) = [] := by rw [← dataOf_length c1]; exact List.drop_length
    by_cases h2 : c2 = []
    · simp [h2]
    · have hd2 : dataOf c2 ≠ [] := fun e => h2 ((dataOf_eq_nil c2).1 e)
      simp [h2, hd2, htk, hdr]
  rw [e1, e2]; exact h

theorem dataOf_filter (pr : Nat → Bool) (cs : List Cell) : dataOf (cs.filter (fun c => pr c.2)) = (dataOf cs).filter pr := by
  induction cs with
  | nil => rfl
  | cons c r ih => simp only [List.filter_cons, dataOf_cons]; split <;> simp [ih]

theorem idsOf_filter_subset (pr : Nat → Bool) (cs : List Cell) (y : Nat) (hy : y ∈ idsOf (cs.filter (fun c => pr c.2))) : y ∈ idsOf cs := by
  simp only [idsOf, List.mem_map] at hy ⊢
  obtain ⟨c, hc, e⟩ := hy
  exact ⟨c, (List.mem_filter.1 hc).1, e⟩

theorem pstep_filterMut (P : Params) (p : PS) (c1 c2 : List Cell) (m : Mem) (I : Inv2 p c1 c2) :
    ∃ c1' c2', Inv2 (pstep P p .filterMut m).2.1 c1' c2' ∧
      DList.step P (absPair p c1 c2) .filterMut m =
        ((pstep P p .filterMut m).1, absPair (pstep P p .filterMut m).2.1 c1' c2', (pstep P p .filterMut m).2.2) := by
  obtain ⟨se, st⟩ := filterMut_spec P.pred p.st p.l1 c1 m I.rep.r1 I.b1
  simp only [pstep, DList.step, absPair, DList.filterMut_ofList, LSeq.filterMut]
  by_cases hc : c1 = []
  · rw [se hc]; subst hc
    exact ⟨[], c2, I, by simp [Mem.freeN]⟩
  · obtain ⟨h1, h2, k⟩ := st hc
    refine ⟨c1.filter (fun c => P.pred c.2), c2, Inv2.of_keeps I k (fun y hy => Or.inl (idsOf_filter_subset _ _ y hy)), ?_⟩
    have hne : dataOf c1 ≠ [] := fun e => hc (List.eq_nil_of_length_eq_zero (by rw [← dataOf_length, e]; rfl))
    have hl : ((dataOf c1).filter P.pred).length = (c1.filter (fun c => P.pred c.2)).length := by
      rw [← dataOf_filter, dataOf_length]
    simp only [hne, if_false, h1, h2, k.triple, dataOf_filter, dataOf_length, hl]

theorem pstep_swapRoles (P : Params) (p : PS) (c1 c2 : List Cell) (m : Mem) (I : Inv2 p c1 c2) :
    ∃ c1' c2', Inv2 (pstep P p .swapRoles m).2.1 c1' c2' ∧
      DList.step P (absPair p c1 c2) .swapRoles m =
        ((pstep P p .swapRoles m).1, absPair (pstep P p .swapRoles m).2.1 c1' c2', (pstep P p .swapRoles m).2.2) :=
  ⟨c2, c1, ⟨⟨I.rep.r2, I.rep.r1, fun x hx hx1 => I.rep.disj x hx1 hx⟩, I.b2, I.b1⟩, rfl⟩

/-- **one pointer-level step refines the sequence-level step** and keeps the pair well-formed -/
theorem pstep_refines (P : Params) (p : PS) (c1 c2 : List Cell) (op : POp) (m : Mem) (I : Inv2 p c1 c2) :
    ∃ c1' c2', Inv2 (pstep P p op m).2.1 c1' c2' ∧
      DList.step P (absPair p c1 c2) op.toOp m = ((pstep P p op m).1, absPair (pstep P p op m).2.1 c1' c2', (pstep P p op m).2.2) := by
  cases op with
  | addFirst x => exact pstep_addFirst P p c1 c2 x m I
  | addLast x => exact pstep_addLast P p c1 c2 x m I
  | addAt x i => exact pstep_addAt P p c1 c2 x i m I
  | addAll => exact pstep_addAll P p c1 c2 m I
  | addAllAt i => exact pstep_addAllAt P p c1 c2 i m I
  | splice => exact pstep_splice P p c1 c2 m I
  | spliceAt i => exact pstep_spliceAt P p c1 c2 i m I
  | remove x => exact pstep_remove P p c1 c2 x m I
  | removeAt i => exact pstep_removeAt P p c1 c2 i m I
  | removeFirst => exact pstep_removeFirst P p c1 c2 m I
  | removeLast => exact pstep_removeLast P p c1 c2 m I
  | removeAll => exact pstep_removeAll P p c1 c2 m I
  | replaceAt x i => exact pstep_replaceAt P p c1 c2 x i m I
  | reverse => exact pstep_reverse P p c1 c2 m I
  | filterMut => exact pstep_filterMut P p c1 c2 m I
  | swapRoles => exact pstep_swapRoles P p c1 c2 m I

/-- **whole histories**: the pointer-level run produces the outputs and the ledger of the sequence-level run on the
canonical chains, and ends in a pair that is again represented (hence well-formed, both lists) -/
theorem prun_refines (P : Params) : ∀ (ops : List POp) (p : PS) (c1 c2 : List Cell) (m : Mem), Inv2 p c1 c2 →
    ∃ c1' c2', Inv2 (prun P p ops m).2.1 c1' c2' ∧
      DList.run P (absPair p c1 c2) (ops.map POp.toOp) m = ((prun P p ops m).1, absPair (prun P p ops m).2.1 c1' c2', (prun P p ops m).2.2)
  | [], p, c1, c2, m, I => ⟨c1, c2, I, rfl⟩
  | op :: ops, p, c1, c2, m, I => by
    obtain ⟨d1, d2, I', e⟩ := pstep_refines P p c1 c2 op m I
    obtain ⟨f1, f2, I'', e'⟩ := prun_refines P ops (pstep P p op m).2.1 d1 d2 (pstep P p op m).2.2 I'
    refine ⟨f1, f2, I'', ?_⟩
    simp only [List.map_cons, DList.run, prun, e, e']

end CC.PList
