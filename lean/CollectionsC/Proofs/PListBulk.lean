import CollectionsC.Proofs.PListOps
/-! Pointer-level model of `cc_list.c`, part 3: the operations on two lists that share the heap —
`splice_between`, `cc_list_splice(_at)`, `link_all_externally`, `cc_list_add_all(_at)`. -/
namespace CC.PList
open CC

/-- re-point the `next` of the last node of a non-empty segment -/
theorem Seg_setNext_of_last {h : Heap} {xs : List Cell} {p n : Option Nat} {q : Nat} (v : Option Nat)
    (hq : lastOr xs none = some q) (hs : Seg h p xs n) (hn : (idsOf xs).Nodup) : Seg (setNext h q v) p xs v := by
  rcases eq_nil_or_snoc xs with e | ⟨ys, b, e⟩
  · subst e; cases hq
  · subst e
    rw [lastOr_concat] at hq; cases hq
    simp only [idsOf_append, idsOf_cons, idsOf_nil] at hn
    rw [List.nodup_append] at hn
    exact Seg_setNext_last v hs (fun hm => hn.2.2 _ hm _ List.mem_cons_self rfl)

/-- re-point the `prev` of the first node of a non-empty segment -/
theorem Seg_setPrev_of_first {h : Heap} {xs : List Cell} {p n : Option Nat} {x : Nat} (v : Option Nat)
    (hx : nxt xs none = some x) (hs : Seg h p xs n) (hn : (idsOf xs).Nodup) : Seg (setPrev h x v) v xs n := by
  cases xs with
  | nil => cases hx
  | cons c r =>
    rw [nxt_cons] at hx; cases hx
    simp only [idsOf_cons, List.nodup_cons] at hn
    exact Seg_setPrev_first v hs hn.1

theorem nxt_some_of_ne {xs : List Cell} (h : xs ≠ []) (n : Option Nat) : ∃ x, nxt xs n = some x ∧ nxt xs none = some x ∧ x ∈ idsOf xs := by
  cases xs with
  | nil => exact absurd rfl h
  | cons c r => exact ⟨c.1, rfl, rfl, by simp⟩
theorem lastOr_some_of_ne {xs : List Cell} (h : xs ≠ []) (p : Option Nat) : ∃ q, lastOr xs p = some q ∧ lastOr xs none = some q ∧ q ∈ idsOf xs := by
  rcases eq_nil_or_snoc xs with e | ⟨ys, b, e⟩
  · exact absurd e h
  · subst e; exact ⟨b.1, by simp, by simp, by simp⟩

/-- two represented lists on one heap with no node in common -/
structure Repr2 (h : Heap) (l1 l2 : Hdr) (cs1 cs2 : List Cell) : Prop where
  r1 : Repr h l1 cs1
  r2 : Repr h l2 cs2
  disj : ∀ x, x ∈ idsOf cs1 → x ∉ idsOf cs2

/-- **`splice_between`**: the chain of the second list is linked in between `pre` and `post` -/
theorem spliceBetween_spec (h : Heap) (l1 l2 : Hdr) (pre post cs2 : List Cell) (m : Mem)
    (R : Repr2 h l1 l2 (pre ++ post) cs2) (h1ne : pre ++ post ≠ []) (h2ne : cs2 ≠ []) :
    let r := spliceBetween h l1 l2 (lastOr pre none) (nxt post none) m
    Repr2 r.1 r.2.1 r.2.2.1 (pre ++ cs2 ++ post) [] ∧ r.2.2.2 = m ∧ r.2.1.triple = l1.triple ∧ r.2.2.1.triple = l2.triple ∧
    (∀ b, b ∉ idsOf (pre ++ post) → b ∉ idsOf cs2 → r.1 b = h b) := by
  intro r
  obtain ⟨R1, R2, D⟩ := R
  obtain ⟨hd1, hh1, _, hm1⟩ := nxt_some_of_ne h1ne none
  obtain ⟨tl1, ht1, _, tm1⟩ := lastOr_some_of_ne h1ne none
  obtain ⟨hd2, hh2, _, hm2⟩ := nxt_some_of_ne h2ne none
  obtain ⟨tl2, ht2, _, tm2⟩ := lastOr_some_of_ne h2ne none
  have e1 : l1.head = some hd1 := R1.head.trans hh1
  have e2 : l1.tail = some tl1 := R1.tail.trans ht1
  have e3 : l2.head = some hd2 := R2.head.trans hh2
  have e4 : l2.tail = some tl2 := R2.tail.trans ht2
  have hnd := R1.nodup
  simp only [idsOf_append] at hnd
  rw [List.nodup_append] at hnd
  obtain ⟨np, nq, dpq⟩ := hnd
  obtain ⟨sp, sq⟩ := Seg_append.1 R1.seg
  have dp2 : ∀ x, x ∈ idsOf pre → x ∉ idsOf cs2 := fun x hx => D x (by simp [hx])
  have dq2 : ∀ x, x ∈ idsOf post → x ∉ idsOf cs2 := fun x hx => D x (by simp [hx])
  have d2p : ∀ x, x ∈ idsOf cs2 → x ∉ idsOf pre := fun x hx hp => dp2 x hp hx
  have d2q : ∀ x, x ∈ idsOf cs2 → x ∉ idsOf post := fun x hx hp => dq2 x hp hx
  have dqp : ∀ x, x ∈ idsOf post → x ∉ idsOf pre := fun x hx hp => dpq x hp x hx rfl
  have dpq' : ∀ x, x ∈ idsOf pre → x ∉ idsOf post := fun x hx hp => dpq x hx x hp rfl
  have ndall : (idsOf (pre ++ cs2 ++ post)).Nodup := by
    simp only [idsOf_append]
    rw [List.nodup_append, List.nodup_append]
    refine ⟨⟨np, R2.nodup, fun x hx y hy e => dp2 x hx (e ▸ hy)⟩, nq, ?_⟩
    intro x hx y hy e
    rcases List.mem_append.1 hx with hx | hx
    · exact dpq x hx y hy e
    · exact d2q x hx (e ▸ hy)
  have hsz : (pre ++ cs2 ++ post).length = l1.size + l2.size := by rw [R1.size, R2.size]; simp; omega
  show (let r := spliceBetween h l1 l2 (lastOr pre none) (nxt post none) m; _)
  unfold spliceBetween
  simp only [e1, e2, e3, e4]
  rcases eq_nil_or_snoc pre with ep | ⟨ys, b, ep⟩
  · -- left = NULL: the second chain goes in front
    subst ep
    have hpne : post ≠ [] := by simpa using h1ne
    simp only [lastOr_nil, List.nil_append] at *
    obtain ⟨x, hx, hx0, xm⟩ := nxt_some_of_ne hpne none
    have ehd : hd1 = x := by rw [hx] at hh1; exact (Option.some.inj hh1).symm
    subst ehd
    refine ⟨⟨⟨ndall, ?_, by simp only []; rw [hsz], ?_, ?_⟩, ⟨by simp [idsOf], trivial, rfl, rfl, rfl⟩, fun _ _ hm => by cases hm⟩, rfl, rfl, rfl, ?_⟩
    · rw [Seg_append]
      constructor
      · rw [hx0]
        exact Seg_setNext_of_last (some hd1) ht2 (Seg_upd_notin _ _ (dq2 hd1 xm) R2.seg) R2.nodup
      · rw [ht2]
        exact Seg_upd_notin _ _ (d2q tl2 tm2) (Seg_setPrev_of_first (some tl2) hx0 sq nq)
    · simp only [nxt_append]; rw [hh2]; cases cs2 <;> simp_all
    · simp only [lastOr_append]
      rw [e2, ht1]
      have := lastOr_some_of_ne hpne (lastOr cs2 none)
      obtain ⟨q, hq1, hq2, _⟩ := this
      have := lastOr_some_of_ne hpne none
      rcases eq_nil_or_snoc post with e | ⟨zs, c, e⟩
      · exact absurd e hpne
      · subst e; simp at ht1 ⊢; exact ht1
    · intro c hc1 hc2
      rw [setNext, upd_ne _ _ _ _ (fun e => hc2 (e ▸ tm2)), setPrev, upd_ne _ _ _ _ (fun e => hc1 (e ▸ xm))]
  · subst ep
    have hq : lastOr (ys ++ [b]) none = some b.1 := by simp
    simp only [hq]
    cases post with
    | nil =>
      -- right = NULL: the second chain goes behind
      simp only [nxt_nil, List.append_nil] at *
      have etl : tl1 = b.1 := by rw [lastOr_concat] at ht1; exact (Option.some.inj ht1).symm
      subst etl
      have bm : b.1 ∈ idsOf (ys ++ [b]) := by simp
      refine ⟨⟨⟨by simpa using ndall, ?_, by simp only []; rw [← hsz]; simp, ?_, ?_⟩, ⟨by simp [idsOf], trivial, rfl, rfl, rfl⟩, fun _ _ hm => by cases hm⟩, rfl, rfl, rfl, ?_⟩
      · rw [Seg_append]
        constructor
        · rw [hh2]
          exact Seg_upd_notin _ _ (d2p hd2 hm2) (Seg_setNext_of_last (some hd2) hq sp np)
        · rw [hq]
          exact Seg_setPrev_of_first (some b.1) hh2 (Seg_upd_notin _ _ (dp2 b.1 bm) R2.seg) R2.nodup
      · rw [nxt_append, nxt_append]; simp only []; rw [e1, hh1]; rfl
      · rw [lastOr_append]; simp only []; exact (lastOr_some_of_ne h2ne _).choose_spec.1.trans (by
          have := (lastOr_some_of_ne h2ne (lastOr (ys ++ [b]) none)).choose_spec
          rw [this.1] at *
          exact (Option.some.inj (this.2.1.symm.trans ht2)) ▸ rfl) |>.symm
      · intro c hc1 hc2
        rw [setPrev, upd_ne _ _ _ _ (fun e => hc2 (e ▸ hm2)), setNext, upd_ne _ _ _ _ (fun e => hc1 (e ▸ bm))]
    | cons a post' =>
      simp only [nxt_cons]
      have bm : b.1 ∈ idsOf (ys ++ [b]) := by simp
      have am : a.1 ∈ idsOf (a :: post') := by simp
      have hxa : nxt (a :: post') none = some a.1 := rfl
      refine ⟨⟨⟨ndall, ?_, by simp only []; rw [hsz], ?_, ?_⟩, ⟨by simp [idsOf], trivial, rfl, rfl, rfl⟩, fun _ _ hm => by cases hm⟩, rfl, rfl, rfl, ?_⟩
      · rw [Seg_append, Seg_append]
        refine ⟨⟨?_, ?_⟩, ?_⟩
        · -- prefix: `left->next = l2->head`
          rw [nxt_append, hh2]
          have := Seg_setNext_of_last (some hd2) hq sp np
          exact Seg_upd_notin _ _ (d2p tl2 tm2) (Seg_upd_notin _ _ (dqp a.1 am) (Seg_upd_notin _ _ (d2p hd2 hm2) this))
        · -- the moved chain: `l2->head->prev = left`, `l2->tail->next = right`
          rw [hq, nxt_cons]
          have s0 := Seg_upd_notin (f := fun x => { x with next := some hd2 }) b.1 (dp2 b.1 bm) R2.seg
          have s1 := Seg_setPrev_of_first (some b.1) hh2 s0 R2.nodup
          have s2 := Seg_upd_notin (f := fun x => { x with prev := some tl2 }) a.1 (dq2 a.1 am) s1
          exact Seg_setNext_of_last (some a.1) ht2 s2 R2.nodup
        · -- suffix: `right->prev = l2->tail`
          rw [lastOr_append, ht2] 
          have s0 := Seg_upd_notin (f := fun x => { x with next := some hd2 }) b.1 (dpq' b.1 bm) sq
          have s1 := Seg_upd_notin (f := fun x => { x with prev := some b.1 }) hd2 (d2q hd2 hm2) s0
          have s2 := Seg_setPrev_of_first (some tl2) hxa s1 nq
          exact Seg_upd_notin _ _ (d2q tl2 tm2) s2
      · rw [nxt_append, nxt_append]; simp only []; rw [e1, hh1]; rfl
      · simp only [lastOr_append]; simp only []; rw [e2, ht1]; rfl
      · intro c hc1 hc2
        rw [setNext, upd_ne _ _ _ _ (fun e => hc2 (e ▸ tm2)), setPrev, upd_ne _ _ _ _ (fun e => hc1 (by rw [e]; simp)),
          setPrev, upd_ne _ _ _ _ (fun e => hc2 (e ▸ hm2)), setNext, upd_ne _ _ _ _ (fun e => hc1 (by rw [e]; simp))]

end CC.PList
