import CollectionsC.Proofs.PListOps
/-! Pointer-level model of `cc_list.c`, part 3: the operations on two lists that share the heap —
`splice_between`, `cc_list_splice(_at)`, `link_all_externally`, `cc_list_add_all(_at)`. -/
namespace CC.PList
open CC

/-- re-point the `next` of the last node of a non-empty segment -/
theorem Seg_setNext_of_last {h : Heap} {xs : List Cell} {p n : Option Nat} {q : Nat} (v : Option Nat)
    (hq : lastOr xs none = some q) (hs : Seg h p xs n) (hn : (idsOf xs).Nodup) : Seg (setNext h q v) p xs v := by
  rcases eq_nil_or_snoc xs with e | ⟨ys, b, e⟩
  · subst e; cases hq
  · subst e
    rw [lastOr_concat] at hq; cases hq
    simp only [idsOf_append, idsOf_cons, idsOf_nil] at hn
    rw [List.nodup_append] at hn
    exact Seg_setNext_last v hs (fun hm => hn.2.2 _ hm _ List.mem_cons_self rfl)

/-- re-point the `prev` of the first node of a non-empty segment -/
theorem Seg_setPrev_of_first {h : Heap} {xs : List Cell} {p n : Option Nat} {x : Nat} (v : Option Nat)
    (hx : nxt xs none = some x) (hs : Seg h p xs n) (hn : (idsOf xs).Nodup) : Seg (setPrev h x v) v xs n := by
  cases xs with
  | nil => cases hx
  | cons c r =>
    rw [nxt_cons] at hx; cases hx
    simp only [idsOf_cons, List.nodup_cons] at hn
    exact Seg_setPrev_first v hs hn.1

theorem nxt_some_of_ne {xs : List Cell} (h : xs ≠ []) (n : Option Nat) : ∃ x, nxt xs n = some x ∧ nxt xs none = some x ∧ x ∈ idsOf xs := by
  cases xs with
  | nil => exact absurd rfl h
  | cons c r => exact ⟨c.1, rfl, rfl, by simp⟩
theorem lastOr_some_of_ne {xs : List Cell} (h : xs ≠ []) (p : Option Nat) : ∃ q, lastOr xs p = some q ∧ lastOr xs none = some q ∧ q ∈ idsOf xs := by
  rcases eq_nil_or_snoc xs with e | ⟨ys, b, e⟩
  · exact absurd e h
  · subst e; exact ⟨b.1, by simp, by simp, by simp⟩

theorem nxt_of_ne {xs : List Cell} (h : xs ≠ []) (n : Option Nat) : nxt xs n = nxt xs none := by
  cases xs with
  | nil => exact absurd rfl h
  | cons c r => rfl
theorem lastOr_of_ne {xs : List Cell} (h : xs ≠ []) (p : Option Nat) : lastOr xs p = lastOr xs none := by
  rcases eq_nil_or_snoc xs with e | ⟨ys, b, e⟩
  · exact absurd e h
  · subst e; simp

/-- two represented lists on one heap with no node in common -/
structure Repr2 (h : Heap) (l1 l2 : Hdr) (cs1 cs2 : List Cell) : Prop where
  r1 : Repr h l1 cs1
  r2 : Repr h l2 cs2
  disj : ∀ x, x ∈ idsOf cs1 → x ∉ idsOf cs2

/-- **`splice_between`**: the chain of the second list is linked in between `pre` and `post` -/
theorem spliceBetween_spec (h : Heap) (l1 l2 : Hdr) (pre post cs2 : List Cell) (m : Mem)
    (R : Repr2 h l1 l2 (pre ++ post) cs2) (h1ne : pre ++ post ≠ []) (h2ne : cs2 ≠ []) :
    ∃ h' l1' l2', spliceBetween h l1 l2 (lastOr pre none) (nxt post none) m = (h', l1', l2', m) ∧
    Repr2 h' l1' l2' (pre ++ cs2 ++ post) [] ∧ l1'.triple = l1.triple ∧ l2'.triple = l2.triple ∧
    (∀ b, b ∉ idsOf (pre ++ post) → b ∉ idsOf cs2 → h' b = h b) := by
  obtain ⟨R1, R2, D⟩ := R
  obtain ⟨hd1, hh1, _, hm1⟩ := nxt_some_of_ne h1ne none
  obtain ⟨tl1, ht1, _, tm1⟩ := lastOr_some_of_ne h1ne none
  obtain ⟨hd2, hh2, _, hm2⟩ := nxt_some_of_ne h2ne none
  obtain ⟨tl2, ht2, _, tm2⟩ := lastOr_some_of_ne h2ne none
  have e1 : l1.head = some hd1 := R1.head.trans hh1
  have e2 : l1.tail = some tl1 := R1.tail.trans ht1
  have e3 : l2.head = some hd2 := R2.head.trans hh2
  have e4 : l2.tail = some tl2 := R2.tail.trans ht2
  have hnd := R1.nodup
  simp only [idsOf_append] at hnd
  rw [List.nodup_append] at hnd
  obtain ⟨np, nq, dpq⟩ := hnd
  obtain ⟨sp, sq⟩ := Seg_append.1 R1.seg
  have dp2 : ∀ x, x ∈ idsOf pre → x ∉ idsOf cs2 := fun x hx => D x (by simp [hx])
  have dq2 : ∀ x, x ∈ idsOf post → x ∉ idsOf cs2 := fun x hx => D x (by simp [hx])
  have d2p : ∀ x, x ∈ idsOf cs2 → x ∉ idsOf pre := fun x hx hp => dp2 x hp hx
  have d2q : ∀ x, x ∈ idsOf cs2 → x ∉ idsOf post := fun x hx hp => dq2 x hp hx
  have dqp : ∀ x, x ∈ idsOf post → x ∉ idsOf pre := fun x hx hp => dpq x hp x hx rfl
  have dpq' : ∀ x, x ∈ idsOf pre → x ∉ idsOf post := fun x hx hp => dpq x hx x hp rfl
  have ndall : (idsOf (pre ++ cs2 ++ post)).Nodup := by
    simp only [idsOf_append]
    rw [List.nodup_append, List.nodup_append]
    refine ⟨⟨np, R2.nodup, fun x hx y hy e => dp2 x hx (e ▸ hy)⟩, nq, ?_⟩
    intro x hx y hy e
    rcases List.mem_append.1 hx with hx | hx
    · exact dpq x hx y hy e
    · exact d2q x hx (e ▸ hy)
  have hsz : (pre ++ cs2 ++ post).length = l1.size + l2.size := by rw [R1.size, R2.size]; simp; omega
  unfold spliceBetween
  simp only [e1, e2, e3, e4]
  rcases eq_nil_or_snoc pre with ep | ⟨ys, b, ep⟩
  · -- left = NULL: the second chain goes in front
    subst ep
    have hpne : post ≠ [] := by simpa using h1ne
    simp only [lastOr_nil, List.nil_append] at *
    obtain ⟨x, hx, hx0, xm⟩ := nxt_some_of_ne hpne none
    have ehd : hd1 = x := by rw [hx] at hh1; exact (Option.some.inj hh1).symm
    subst ehd
    have H : nxt (cs2 ++ post) none = some hd2 := by rw [nxt_append, nxt_of_ne h2ne, hh2]
    have T : lastOr (cs2 ++ post) none = some tl1 := by rw [lastOr_append, lastOr_of_ne hpne, ht1]
    refine ⟨_, _, _, rfl, ⟨⟨ndall, ?_, hsz.symm, H.symm, T.symm⟩, ⟨by simp [idsOf], trivial, rfl, rfl, rfl⟩, fun _ _ hm => by cases hm⟩, rfl, rfl, ?_⟩
    · rw [Seg_append]
      constructor
      · rw [hx0]
        exact Seg_setNext_of_last (some hd1) ht2 (Seg_upd_notin _ _ (dq2 hd1 xm) R2.seg) R2.nodup
      · rw [ht2]
        exact Seg_upd_notin _ _ (d2q tl2 tm2) (Seg_setPrev_of_first (some tl2) hx0 sq nq)
    · intro c hc1 hc2
      rw [setNext, upd_ne _ _ _ _ (fun e => hc2 (by rw [e]; exact tm2)), setPrev, upd_ne _ _ _ _ (fun e => hc1 (by rw [e]; exact xm))]
  · subst ep
    have hq : lastOr (ys ++ [b]) none = some b.1 := by simp
    simp only [hq]
    cases post with
    | nil =>
      -- right = NULL: the second chain goes behind
      simp only [nxt_nil, List.append_nil] at *
      have etl : tl1 = b.1 := by rw [lastOr_concat] at ht1; exact (Option.some.inj ht1).symm
      subst etl
      have bm : b.1 ∈ idsOf (ys ++ [b]) := by simp
      have H : nxt (ys ++ [b] ++ cs2) none = some hd1 := by rw [nxt_append, nxt_of_ne (by simp), hh1]
      have T : lastOr (ys ++ [b] ++ cs2) none = some tl2 := by rw [lastOr_append, lastOr_of_ne h2ne, ht2]
      refine ⟨_, _, _, rfl, ⟨⟨ndall, ?_, hsz.symm, H.symm, T.symm⟩, ⟨by simp [idsOf], trivial, rfl, rfl, rfl⟩, fun _ _ hm => by cases hm⟩, rfl, rfl, ?_⟩
      · rw [Seg_append]
        constructor
        · rw [hh2]
          exact Seg_upd_notin _ _ (d2p hd2 hm2) (Seg_setNext_of_last (some hd2) hq sp np)
        · rw [hq]
          exact Seg_setPrev_of_first (some b.1) hh2 (Seg_upd_notin _ _ (dp2 b.1 bm) R2.seg) R2.nodup
      · intro c hc1 hc2
        rw [setPrev, upd_ne _ _ _ _ (fun e => hc2 (by rw [e]; exact hm2)), setNext, upd_ne _ _ _ _ (fun e => hc1 (by rw [e]; exact bm))]
    | cons a post' =>
      simp only [nxt_cons]
      have bm : b.1 ∈ idsOf (ys ++ [b]) := by simp
      have am : a.1 ∈ idsOf (a :: post') := by simp
      have hxa : nxt (a :: post') none = some a.1 := rfl
      have H : nxt (ys ++ [b] ++ cs2 ++ a :: post') none = some hd1 := by
        rw [nxt_append, nxt_of_ne (by simp)] at hh1
        rw [List.append_assoc, nxt_append, nxt_of_ne (by simp), hh1]
      have T : lastOr (ys ++ [b] ++ cs2 ++ a :: post') none = some tl1 := by
        rw [lastOr_append, lastOr_of_ne (by simp)] at ht1
        rw [lastOr_append, lastOr_of_ne (by simp), ht1]
      refine ⟨_, _, _, rfl, ⟨⟨ndall, ?_, hsz.symm, e1.trans H.symm, e2.trans T.symm⟩, ⟨by simp [idsOf], trivial, rfl, rfl, rfl⟩, fun _ _ hm => by cases hm⟩, rfl, rfl, ?_⟩
      · rw [Seg_append, Seg_append]
        refine ⟨⟨?_, ?_⟩, ?_⟩
        · -- prefix: `left->next = l2->head`
          rw [nxt_of_ne h2ne, hh2]
          have := Seg_setNext_of_last (some hd2) hq sp np
          exact Seg_upd_notin _ _ (d2p tl2 tm2) (Seg_upd_notin _ _ (dqp a.1 am) (Seg_upd_notin _ _ (d2p hd2 hm2) this))
        · -- the moved chain: `l2->head->prev = left`, `l2->tail->next = right`
          rw [hq, nxt_cons]
          have s0 := Seg_upd_notin (f := fun x => { x with next := some hd2 }) b.1 (dp2 b.1 bm) R2.seg
          have s1 := Seg_setPrev_of_first (some b.1) hh2 s0 R2.nodup
          have s2 := Seg_upd_notin (f := fun x => { x with prev := some tl2 }) a.1 (dq2 a.1 am) s1
          exact Seg_setNext_of_last (some a.1) ht2 s2 R2.nodup
        · -- suffix: `right->prev = l2->tail`
          rw [lastOr_append, lastOr_of_ne h2ne, ht2]
          have s0 := Seg_upd_notin (f := fun x => { x with next := some hd2 }) b.1 (dpq' b.1 bm) sq
          have s1 := Seg_upd_notin (f := fun x => { x with prev := some b.1 }) hd2 (d2q hd2 hm2) s0
          have s2 := Seg_setPrev_of_first (some tl2) hxa s1 nq
          exact Seg_upd_notin _ _ (d2q tl2 tm2) s2
      · intro c hc1 hc2
        rw [setNext, upd_ne _ _ _ _ (fun e => hc2 (by rw [e]; exact tm2)), setPrev, upd_ne _ _ _ _ (fun e => hc1 (by rw [e]; simp)),
          setPrev, upd_ne _ _ _ _ (fun e => hc2 (by rw [e]; exact hm2)), setNext, upd_ne _ _ _ _ (fun e => hc1 (by rw [e]; simp))]


theorem getElem?_eq_nxt_drop (cs : List Cell) (i : Nat) : (idsOf cs)[i]? = nxt (cs.drop i) none := by
  induction cs generalizing i with
  | nil => simp
  | cons c r ih =>
    cases i with
    | zero => rfl
    | succ i => simp only [idsOf_cons, List.getElem?_cons_succ, List.drop_succ_cons]; exact ih i

theorem getLast_eq_lastOr (cs : List Cell) (hne : cs ≠ []) : (idsOf cs)[cs.length - 1]? = lastOr cs none := by
  rcases eq_nil_or_snoc cs with e | ⟨ys, b, e⟩
  · exact absurd e hne
  · subst e; simp [idsOf]

/-- the two cursors `end` and `base` of `cc_list_splice_at` / `cc_list_add_all_at` -/
theorem cursors {h : Heap} {l : Hdr} {cs : List Cell} (r : Repr h l cs) (hne : cs ≠ []) (i : Nat) (hi : i ≤ cs.length) :
    (getNodeAt h l i).2 = nxt (cs.drop i) none ∧ baseOf h l (getNodeAt h l i).2 i = lastOr (cs.take i) none := by
  have hsplit : cs.take i ++ cs.drop i = cs := List.take_append_drop i cs
  have he : (getNodeAt h l i).2 = nxt (cs.drop i) none := by
    rw [getNodeAt_repr r]
    by_cases hlt : i < cs.length
    · simp only [hlt, if_true]; exact getElem?_eq_nxt_drop cs i
    · have : cs.drop i = [] := List.drop_eq_nil_of_le (by omega)
      simp [hlt, this]
  refine ⟨he, ?_⟩
  unfold baseOf
  rw [he]
  cases hd : cs.drop i with
  | nil =>
    have hlen : i = cs.length := by
      have := congrArg List.length hd; simp at this; omega
    simp only [nxt_nil]
    rw [getNodeAt_repr r]
    have : i - 1 < cs.length := by
      have : cs.length ≠ 0 := fun e => hne (List.eq_nil_of_length_eq_zero e)
      omega
    simp only [this, if_true]
    rw [hlen, List.take_length, getLast_eq_lastOr cs hne]
  | cons a post' =>
    simp only [nxt_cons]
    have hseg := r.seg
    rw [← hsplit, hd] at hseg
    obtain ⟨_, ha, _⟩ := Seg_split hseg
    rw [nd_of ha]

/-- **`cc_list_splice_at`** -/
theorem spliceAt_spec (s : St) (l1 l2 : Hdr) (cs1 cs2 : List Cell) (i : Nat) (m : Mem) (R : Repr2 s.heap l1 l2 cs1 cs2) :
    (cs2 = [] → spliceAt s l1 l2 i m = (.ok, s, l1, l2, m)) ∧
    (cs2 ≠ [] → cs1.length < i → spliceAt s l1 l2 i m = (.errOutOfRange, s, l1, l2, m)) ∧
    (cs2 ≠ [] → i ≤ cs1.length →
      ∃ h' l1' l2', spliceAt s l1 l2 i m = (.ok, { s with heap := h' }, l1', l2', m) ∧
        Repr2 h' l1' l2' (cs1.take i ++ cs2 ++ cs1.drop i) [] ∧ l1'.triple = l1.triple ∧ l2'.triple = l2.triple ∧
        (∀ b, b ∉ idsOf cs1 → b ∉ idsOf cs2 → h' b = s.heap b)) := by
  have hz2 : l2.size = 0 ↔ cs2 = [] := by rw [R.r2.size]; exact List.length_eq_zero_iff
  unfold spliceAt
  refine ⟨fun e => by simp [hz2.2 e], fun hne hi => ?_, fun hne hi => ?_⟩
  · have : ¬ l2.size = 0 := fun e => hne (hz2.1 e)
    simp [this, R.r1.size, hi]
  · have h2 : ¬ l2.size = 0 := fun e => hne (hz2.1 e)
    have h1 : ¬ i > l1.size := by rw [R.r1.size]; omega
    simp only [h2, if_false, h1]
    by_cases hc1 : cs1 = []
    · subst hc1
      have hs1 : l1.size = 0 := R.r1.size
      have hi0 : i = 0 := by simpa using hi
      subst hi0
      simp only [hs1, if_true, List.take_nil, List.drop_nil, List.nil_append, List.append_nil]
      refine ⟨s.heap, _, _, rfl, ⟨⟨R.r2.nodup, R.r2.seg, R.r2.size, R.r2.head, R.r2.tail⟩,
        ⟨by simp [idsOf], trivial, rfl, rfl, rfl⟩, fun _ _ hm => by cases hm⟩, rfl, rfl, fun _ _ _ => rfl⟩
    · have hs1 : ¬ l1.size = 0 := by rw [R.r1.size]; exact fun e => hc1 (List.eq_nil_of_length_eq_zero e)
      simp only [hs1, if_false]
      have hsplit : cs1.take i ++ cs1.drop i = cs1 := List.take_append_drop i cs1
      obtain ⟨he, hbase⟩ := cursors R.r1 hc1 i hi
      rw [hbase, he]
      have R' : Repr2 s.heap l1 l2 (cs1.take i ++ cs1.drop i) cs2 := by rw [hsplit]; exact R
      obtain ⟨h', l1', l2', e, r2, t1, t2, fr⟩ := spliceBetween_spec s.heap l1 l2 (cs1.take i) (cs1.drop i) cs2 m R' (by rw [hsplit]; exact hc1) hne
      rw [e]
      exact ⟨h', l1', l2', rfl, r2, t1, t2, by rw [hsplit] at fr; exact fr⟩

/-- **`cc_list_splice`** -/
theorem splice_spec (s : St) (l1 l2 : Hdr) (cs1 cs2 : List Cell) (m : Mem) (R : Repr2 s.heap l1 l2 cs1 cs2) :
    (cs2 = [] → splice s l1 l2 m = (.ok, s, l1, l2, m)) ∧
    (cs2 ≠ [] →
      ∃ h' l1' l2', splice s l1 l2 m = (.ok, { s with heap := h' }, l1', l2', m) ∧
        Repr2 h' l1' l2' (cs1 ++ cs2) [] ∧ l1'.triple = l1.triple ∧ l2'.triple = l2.triple ∧
        (∀ b, b ∉ idsOf cs1 → b ∉ idsOf cs2 → h' b = s.heap b)) := by
  unfold splice
  rw [R.r1.size]
  obtain ⟨a, _, c⟩ := spliceAt_spec s l1 l2 cs1 cs2 cs1.length m R
  refine ⟨a, fun hne => ?_⟩
  obtain ⟨h', l1', l2', e, r2, t1, t2, fr⟩ := c hne (Nat.le_refl _)
  rw [List.take_length, List.drop_length, List.append_nil] at r2
  exact ⟨h', l1', l2', e, r2, t1, t2, fr⟩


/-! ### `link_all_externally` -/
theorem foldl_free_heap (ids : List Nat) : ∀ (s : St) (b : Nat), b ∉ ids → (ids.foldl (fun s id => s.free id) s).heap b = s.heap b := by
  induction ids with
  | nil => intro s b _; rfl
  | cons a r ih =>
    intro s b hb
    simp only [List.foldl_cons]
    rw [ih (s.free a) b (fun hm => hb (List.mem_cons_of_mem _ hm))]
    exact free_ne s a b (fun e => hb (by simp [e]))
theorem foldl_free_fresh (ids : List Nat) : ∀ (s : St), (ids.foldl (fun s id => s.free id) s).fresh = s.fresh := by
  induction ids with
  | nil => intro s; rfl
  | cons a r ih => intro s; simp only [List.foldl_cons]; rw [ih]; rfl

/-- what the loop of `link_all_externally` does from the point where `bc` has been built and `rest` is still to copy -/
theorem linkAllLoop_spec (t : Triple) : ∀ (rest : List Cell) (s : St) (bc : List Cell) (pS : Option Nat) (m : Mem),
    Seg s.heap pS rest none → Seg s.heap none bc none → (idsOf bc).Nodup →
    (∀ x, x ∈ idsOf bc → x < s.fresh) → (∀ x, x ∈ idsOf rest → x < s.fresh) → (∀ x, x ∈ idsOf rest → x ∉ idsOf bc) →
    (linkAllLoop t rest.length bc.length s (nxt rest none) (nxt bc none) (lastOr bc none) m).1 = (Mem.allocChain t rest.length bc.length m).1 ∧
    (linkAllLoop t rest.length bc.length s (nxt rest none) (nxt bc none) (lastOr bc none) m).2.2.2.2 = (Mem.allocChain t rest.length bc.length m).2 ∧
    s.fresh ≤ (linkAllLoop t rest.length bc.length s (nxt rest none) (nxt bc none) (lastOr bc none) m).2.1.fresh ∧
    (∀ b, b < s.fresh → b ∉ idsOf bc →
      (linkAllLoop t rest.length bc.length s (nxt rest none) (nxt bc none) (lastOr bc none) m).2.1.heap b = s.heap b) ∧
    ((linkAllLoop t rest.length bc.length s (nxt rest none) (nxt bc none) (lastOr bc none) m).1 = true →
      ∃ nc, dataOf nc = dataOf rest ∧ nc.length = rest.length ∧
        (∀ x, x ∈ idsOf nc → s.fresh ≤ x) ∧
        (∀ x, x ∈ idsOf (bc ++ nc) → x < (linkAllLoop t rest.length bc.length s (nxt rest none) (nxt bc none) (lastOr bc none) m).2.1.fresh) ∧
        (idsOf (bc ++ nc)).Nodup ∧
        Seg (linkAllLoop t rest.length bc.length s (nxt rest none) (nxt bc none) (lastOr bc none) m).2.1.heap none (bc ++ nc) none ∧
        (linkAllLoop t rest.length bc.length s (nxt rest none) (nxt bc none) (lastOr bc none) m).2.2.1 = nxt (bc ++ nc) none ∧
        (linkAllLoop t rest.length bc.length s (nxt rest none) (nxt bc none) (lastOr bc none) m).2.2.2.1 = lastOr (bc ++ nc) none)
  | [], s, bc, pS, m, _, hbs, hnd, hbb, _, _ => by
    simp only [List.length_nil, linkAllLoop, Mem.allocChain, nxt_nil]
    exact ⟨trivial, trivial, Nat.le_refl _, fun _ _ _ => trivial, fun _ => ⟨[], rfl, rfl, by simp [idsOf], by simpa using hbb, by simpa using hnd, by simpa using hbs, by simp, by simp⟩⟩
  | c :: rest, s, bc, pS, m, hrs, hbs, hnd, hbb, hrb, hdj => by
    rw [Seg_cons] at hrs
    have hcf : c.1 ≠ s.fresh := Nat.ne_of_lt (hrb c.1 (by simp))
    have hcb : c.1 ∉ idsOf bc := hdj c.1 (by simp)
    have hfb : s.fresh ∉ idsOf bc := fun hm => Nat.lt_irrefl _ (hbb _ hm)
    simp only [List.length_cons, nxt_cons, linkAllLoop, Mem.allocChain]
    by_cases ha : (m.allocT t).1 = true
    case neg =>
      have ha' : (m.allocT t).1 = false := by simpa using ha
      simp only [ha', Bool.not_false, if_true]
      rw [idsNext_seg bc.length hbs (Nat.le_refl _)]
      refine ⟨trivial, trivial, ?_, ?_, fun hc => by cases hc⟩
      · rw [foldl_free_fresh]; exact Nat.le_refl _
      · intro b _ hb; exact foldl_free_heap _ s b hb
    case pos =>
    simp only [ha, Bool.not_true, Bool.false_eq_true, if_false, show s.alloc.1 = s.fresh from rfl]
    have hdat : (nd (s.alloc).2.heap c.1).data = c.2 := by
      unfold nd; rw [alloc_ne s c.1 hcf, hrs.1]; rfl
    rw [hdat]
    -- the new external chain and the heap after linking the new node behind its tail
    rcases eq_nil_or_snoc bc with eb | ⟨ys, b, eb⟩
    · subst eb
      simp only [nxt_nil, lastOr_nil, List.length_nil, List.nil_append] at *
      have hnx : (nd (setData s.alloc.2.heap s.fresh c.2) c.1).next = nxt rest none := by
        unfold nd; rw [setData_alloc_ne s c.2 c.1 hcf, hrs.1]; rfl
      rw [hnx]
      have ih := linkAllLoop_spec t rest { s.alloc.2 with heap := setData s.alloc.2.heap s.fresh c.2 } [(s.fresh, c.2)] (some c.1) (m.allocT t).2
        (Seg_frame (fun b hb => setData_alloc_ne s c.2 b (Nat.ne_of_lt (hrb b (by simp [hb])))) hrs.2)
        (by rw [Seg_cons]; exact ⟨setData_alloc s c.2, trivial⟩) (by simp [idsOf])
        (by intro x hx; simp [idsOf] at hx; subst hx; exact Nat.lt_succ_self _)
        (fun x hx => Nat.lt_succ_of_lt (hrb x (by simp [hx])))
        (by intro x hx hm; simp [idsOf] at hm; subst hm; exact Nat.lt_irrefl _ (hrb _ (by simp [hx])))
      simp only [nxt_cons, lastOr_cons, lastOr_nil, List.length_cons, List.length_nil, Nat.zero_add] at ih
      obtain ⟨i1, i2, i3, i4, i5⟩ := ih
      refine ⟨i1, i2, Nat.le_trans (Nat.le_succ _) i3, ?_, ?_⟩
      · intro b hb _
        rw [i4 b (Nat.lt_succ_of_lt hb) (by simp [idsOf]; exact Nat.ne_of_lt hb)]
        exact setData_alloc_ne s c.2 b (Nat.ne_of_lt hb)
      · intro hok
        obtain ⟨nc, d1, d2, d3, d4, d5, d6, d7, d8⟩ := i5 hok
        refine ⟨(s.fresh, c.2) :: nc, by simp [d1], by simp [d2], ?_, d4, d5, d6, d7, d8⟩
        intro x hx
        simp only [idsOf_cons, List.mem_cons] at hx
        rcases hx with e | e
        · subst e; exact Nat.le_refl _
        · exact Nat.le_trans (Nat.le_succ _) (d3 x e)
    · subst eb
      have hhd : ∃ q, nxt (ys ++ [b]) none = some q := ⟨_, (nxt_some_of_ne (by simp) none).choose_spec.1⟩
      obtain ⟨q, hq⟩ := hhd
      have hbf : b.1 ≠ s.fresh := fun e => hfb (by simp [← e])
      have hbc : b.1 ≠ c.1 := fun e => hcb (by simp [← e])
      simp only [hq, lastOr_concat]
      have hnx : (nd (setPrev (setNext (setData s.alloc.2.heap s.fresh c.2) b.1 (some s.fresh)) s.fresh (some b.1)) c.1).next = nxt rest none := by
        unfold nd
        rw [setPrev, upd_ne _ _ _ _ hcf, setNext, upd_ne _ _ _ _ (Ne.symm hbc), setData_alloc_ne s c.2 c.1 hcf, hrs.1]; rfl
      rw [hnx]
      have hndb : b.1 ∉ idsOf ys := by
        simp only [idsOf_append, idsOf_cons, idsOf_nil] at hnd
        rw [List.nodup_append] at hnd
        exact fun hm => hnd.2.2 _ hm _ List.mem_cons_self rfl
      have hseg' : Seg (setPrev (setNext (setData s.alloc.2.heap s.fresh c.2) b.1 (some s.fresh)) s.fresh (some b.1)) none
          (ys ++ [b] ++ [(s.fresh, c.2)]) none := by
        rw [Seg_append]
        constructor
        · simp only [nxt_cons]
          refine Seg_upd_notin _ _ hfb ?_
          refine Seg_setNext_last (some s.fresh) (n := none) ?_ hndb
          exact Seg_frame (fun x hx => setData_alloc_ne s c.2 x (fun e => hfb (by rw [← e]; exact hx))) hbs
        · simp only [lastOr_concat, Seg_cons, nxt_nil, Seg_nil, and_true]
          rw [setPrev, upd_eq, setNext, upd_ne _ _ _ _ (Ne.symm hbf), setData_alloc]; rfl
      have hnd' : (idsOf (ys ++ [b] ++ [(s.fresh, c.2)])).Nodup := by
        simp only [idsOf_append, idsOf_cons, idsOf_nil] at hnd hfb ⊢
        rw [List.nodup_append]
        refine ⟨hnd, by simp, ?_⟩
        intro x hx y hy e
        simp only [List.mem_singleton] at hy
        subst hy; subst e
        exact hfb hx
      have ih := linkAllLoop_spec t rest
        { s.alloc.2 with heap := setPrev (setNext (setData s.alloc.2.heap s.fresh c.2) b.1 (some s.fresh)) s.fresh (some b.1) }
        (ys ++ [b] ++ [(s.fresh, c.2)]) (some c.1) (m.allocT t).2
        (Seg_frame (fun x hx => by
          have hxf : x ≠ s.fresh := Nat.ne_of_lt (hrb x (by simp [hx]))
          have hxb : x ≠ b.1 := fun e => hdj x (by simp [hx]) (by simp [e])
          rw [setPrev, upd_ne _ _ _ _ hxf, setNext, upd_ne _ _ _ _ hxb]
          exact setData_alloc_ne s c.2 x hxf) hrs.2)
        hseg' hnd'
        (by
          intro x hx
          simp only [idsOf_append, idsOf_cons, idsOf_nil, List.mem_append, List.mem_singleton] at hx
          rcases hx with hx | hx
          · exact Nat.lt_succ_of_lt (hbb x (by simpa [idsOf] using hx))
          · subst hx; exact Nat.lt_succ_self _)
        (fun x hx => Nat.lt_succ_of_lt (hrb x (by simp [hx])))
        (by
          intro x hx hm
          simp only [idsOf_append, idsOf_cons, idsOf_nil, List.mem_append, List.mem_singleton] at hm
          rcases hm with hm | hm
          · exact hdj x (by simp [hx]) (by simpa [idsOf] using hm)
          · subst hm; exact Nat.lt_irrefl _ (hrb _ (by simp [hx])))
      have hq' : nxt (ys ++ [b] ++ [(s.fresh, c.2)]) none = some q := by rw [nxt_append, nxt_of_ne (by simp), hq]
      simp only [hq', lastOr_concat, List.length_append, List.length_cons, List.length_nil] at ih
      obtain ⟨i1, i2, i3, i4, i5⟩ := ih
      simp only [List.length_append, List.length_cons, List.length_nil]
      refine ⟨i1, i2, Nat.le_trans (Nat.le_succ _) i3, ?_, ?_⟩
      · intro x hx hxb
        have hxb' : x ≠ b.1 := fun e => hxb (by simp [e])
        rw [i4 x (Nat.lt_succ_of_lt hx) (by
          simp only [idsOf_append, idsOf_cons, idsOf_nil, List.mem_append, List.mem_singleton, not_or]
          exact ⟨by simpa [idsOf] using hxb, Nat.ne_of_lt hx⟩)]
        rw [setPrev, upd_ne _ _ _ _ (Nat.ne_of_lt hx), setNext, upd_ne _ _ _ _ hxb']
        exact setData_alloc_ne s c.2 x (Nat.ne_of_lt hx)
      · intro hok
        obtain ⟨nc, d1, d2, d3, d4, d5, d6, d7, d8⟩ := i5 hok
        refine ⟨(s.fresh, c.2) :: nc, by simp [d1], by simp [d2], ?_, ?_, ?_, ?_, ?_, ?_⟩
        · intro x hx
          simp only [idsOf_cons, List.mem_cons] at hx
          rcases hx with e | e
          · subst e; exact Nat.le_refl _
          · exact Nat.le_trans (Nat.le_succ _) (d3 x e)
        · simpa [List.append_assoc] using d4
        · simpa [List.append_assoc] using d5
        · simpa [List.append_assoc] using d6
        · simpa [List.append_assoc] using d7
        · simpa [List.append_assoc] using d8


/-! ### `cc_list_add_all(_at)` -/
theorem Heap.ext' {h1 h2 : Heap} (e : ∀ j, h1 j = h2 j) : h1 = h2 := by
  cases h1; cases h2; congr; funext j; exact e j

/-- writes to different fields commute -/
theorem setPrev_setNext_comm (h : Heap) (a b : Nat) (v w : Option Nat) :
    setPrev (setNext h a v) b w = setNext (setPrev h b w) a v := by
  apply Heap.ext'
  intro j
  show (upd (upd h a _) b _) j = (upd (upd h b _) a _) j
  by_cases ja : j = a <;> by_cases jb : j = b
  · subst ja; subst jb; rw [upd_eq, upd_eq, upd_eq, upd_eq]; cases h.get j <;> rfl
  · subst ja; rw [upd_ne _ _ _ _ jb, upd_eq, upd_eq, upd_ne _ _ _ _ jb]
  · subst jb; rw [upd_eq, upd_ne _ _ _ _ ja, upd_ne _ _ _ _ ja, upd_eq]
  · rw [upd_ne _ _ _ _ jb, upd_ne _ _ _ _ ja, upd_ne _ _ _ _ ja, upd_ne _ _ _ _ jb]

/-- the attachment step of `cc_list_add_all_at` is `splice_between` applied to the externally built chain -/
theorem attach_eq (s : St) (l1 : Hdr) (n2 hd tl h1 t1 : Nat) (t2 : Triple) (e base : Option Nat) (m : Mem)
    (eh : l1.head = some h1) (et : l1.tail = some t1) (hnn : e = none → base ≠ none) :
    attach s l1 n2 hd tl h1 t1 e base m =
    (.ok, { s with heap := (spliceBetween s.heap l1 { size := n2, head := some hd, tail := some tl, triple := t2 } base e m).1 },
      (spliceBetween s.heap l1 { size := n2, head := some hd, tail := some tl, triple := t2 } base e m).2.1, m) := by
  unfold spliceBetween attach
  simp only [eh, et]
  cases e with
  | none =>
    cases base with
    | none => exact absurd rfl (hnn rfl)
    | some b => rfl
  | some en =>
    cases base with
    | none => rfl
    | some b =>
      simp only []
      rw [setPrev_setNext_comm s.heap b hd (some hd) (some b)]
      rw [← setPrev_setNext_comm _ tl en (some en) (some tl)]
      simp [eh, et]

/-- the loop started by `link_all_externally` -/
theorem linkAll_start (s : St) (l1 l2 : Hdr) (cs2 : List Cell) (m : Mem) (r2 : Repr s.heap l2 cs2)
    (hb2 : ∀ x, x ∈ idsOf cs2 → x < s.fresh) :
    (linkAllExternally s l1 l2 m).1 = (Mem.allocChain l1.triple cs2.length 0 m).1 ∧
    (linkAllExternally s l1 l2 m).2.2.2.2 = (Mem.allocChain l1.triple cs2.length 0 m).2 ∧
    s.fresh ≤ (linkAllExternally s l1 l2 m).2.1.fresh ∧
    (∀ b, b < s.fresh → (linkAllExternally s l1 l2 m).2.1.heap b = s.heap b) ∧
    ((linkAllExternally s l1 l2 m).1 = true →
      ∃ nc, dataOf nc = dataOf cs2 ∧ nc.length = cs2.length ∧ (∀ x, x ∈ idsOf nc → s.fresh ≤ x) ∧
        (∀ x, x ∈ idsOf nc → x < (linkAllExternally s l1 l2 m).2.1.fresh) ∧ (idsOf nc).Nodup ∧
        Seg (linkAllExternally s l1 l2 m).2.1.heap none nc none ∧
        (linkAllExternally s l1 l2 m).2.2.1 = nxt nc none ∧ (linkAllExternally s l1 l2 m).2.2.2.1 = lastOr nc none) := by
  have := linkAllLoop_spec l1.triple cs2 s [] none m r2.seg trivial (by simp [idsOf]) (by simp [idsOf]) hb2 (by simp [idsOf])
  unfold linkAllExternally
  rw [r2.size, r2.head]
  simp only [List.length_nil, nxt_nil, lastOr_nil, List.nil_append] at this
  obtain ⟨a1, a2, a3, a4, a5⟩ := this
  exact ⟨a1, a2, a3, fun b hb => a4 b hb (by simp [idsOf]), a5⟩

/-- **`cc_list_add_all_at`** -/
theorem addAllAt_spec (s : St) (l1 l2 : Hdr) (cs1 cs2 : List Cell) (i : Nat) (m : Mem) (R : Repr2 s.heap l1 l2 cs1 cs2)
    (hb1 : ∀ x, x ∈ idsOf cs1 → x < s.fresh) (hb2 : ∀ x, x ∈ idsOf cs2 → x < s.fresh) :
    (cs2 = [] → addAllAt s l1 l2 i m = (.ok, s, l1, m)) ∧
    (cs2 ≠ [] → cs1.length < i → addAllAt s l1 l2 i m = (.errOutOfRange, s, l1, m)) ∧
    (cs2 ≠ [] → i ≤ cs1.length →
      (addAllAt s l1 l2 i m).2.2.2 = (Mem.allocChain l1.triple cs2.length 0 m).2 ∧
      s.fresh ≤ (addAllAt s l1 l2 i m).2.1.fresh ∧
      ((Mem.allocChain l1.triple cs2.length 0 m).1 = false →
        (addAllAt s l1 l2 i m).1 = .errAlloc ∧ (addAllAt s l1 l2 i m).2.2.1 = l1 ∧
        (∀ b, b < s.fresh → (addAllAt s l1 l2 i m).2.1.heap b = s.heap b)) ∧
      ((Mem.allocChain l1.triple cs2.length 0 m).1 = true →
        ∃ nc, dataOf nc = dataOf cs2 ∧ (∀ x, x ∈ idsOf nc → s.fresh ≤ x ∧ x < (addAllAt s l1 l2 i m).2.1.fresh) ∧
          (addAllAt s l1 l2 i m).1 = .ok ∧
          Repr2 (addAllAt s l1 l2 i m).2.1.heap (addAllAt s l1 l2 i m).2.2.1 l2 (cs1.take i ++ nc ++ cs1.drop i) cs2 ∧
          (addAllAt s l1 l2 i m).2.2.1.triple = l1.triple ∧
          (∀ b, b < s.fresh → b ∉ idsOf cs1 → (addAllAt s l1 l2 i m).2.1.heap b = s.heap b))) := by
  have hz2 : l2.size = 0 ↔ cs2 = [] := by rw [R.r2.size]; exact List.length_eq_zero_iff
  obtain ⟨k1, k2, k3, k4, k5⟩ := linkAll_start s l1 l2 cs2 m R.r2 hb2
  unfold addAllAt
  refine ⟨fun e => by simp [hz2.2 e], fun hne hi => ?_, fun hne hi => ?_⟩
  · have : ¬ l2.size = 0 := fun e => hne (hz2.1 e)
    simp [this, R.r1.size, hi]
  have h2 : ¬ l2.size = 0 := fun e => hne (hz2.1 e)
  have h1 : ¬ i > l1.size := by rw [R.r1.size]; omega
  simp only [h2, if_false, h1]
  -- the list states as seen from the heap after the loop
  have hR1' : Repr (linkAllExternally s l1 l2 m).2.1.heap l1 cs1 :=
    ⟨R.r1.nodup, Seg_frame (fun b hb => k4 b (hb1 b hb)) R.r1.seg, R.r1.size, R.r1.head, R.r1.tail⟩
  have hR2' : Repr (linkAllExternally s l1 l2 m).2.1.heap l2 cs2 :=
    ⟨R.r2.nodup, Seg_frame (fun b hb => k4 b (hb2 b hb)) R.r2.seg, R.r2.size, R.r2.head, R.r2.tail⟩
  by_cases hc1 : cs1 = []
  · subst hc1
    have hs1 : l1.size = 0 := R.r1.size
    have hi0 : i = 0 := by simpa using hi
    subst hi0
    simp only [hs1, if_true, addAllToEmpty, h2, if_false, List.take_nil, List.drop_nil, List.nil_append, List.append_nil]
    by_cases hok : (linkAllExternally s l1 l2 m).1 = true
    · obtain ⟨nc, d1, d2, d3, d4, d5, d6, d7, d8⟩ := k5 hok
      simp only [hok, Bool.not_true, Bool.false_eq_true, if_false]
      refine ⟨k2, k3, ?_, ?_⟩
      · intro hf; rw [← k1, hok] at hf; cases hf
      · intro _
        refine ⟨nc, d1, fun x hx => ⟨d3 x hx, d4 x hx⟩, by first | trivial | rfl, ?_, by first | trivial | rfl, fun b hb _ => k4 b hb⟩
        refine ⟨⟨d5, d6, by simp only []; rw [R.r2.size, d2], d7, d8⟩, hR2', ?_⟩
        intro x hx hx2
        exact Nat.lt_irrefl _ (Nat.lt_of_lt_of_le (hb2 x hx2) (d3 x hx))
    · have hok' : (linkAllExternally s l1 l2 m).1 = false := by simpa using hok
      simp only [hok', Bool.not_false, if_true]
      refine ⟨k2, k3, fun _ => ⟨by first | trivial | rfl, by first | trivial | rfl, k4⟩, ?_⟩
      intro ht; rw [← k1, hok'] at ht; cases ht
  · have hs1 : ¬ l1.size = 0 := by rw [R.r1.size]; exact fun e => hc1 (List.eq_nil_of_length_eq_zero e)
    simp only [hs1, if_false]
    by_cases hok : (linkAllExternally s l1 l2 m).1 = true
    case neg =>
      have hok' : (linkAllExternally s l1 l2 m).1 = false := by simpa using hok
      simp only [hok', Bool.not_false, if_true]
      refine ⟨k2, k3, fun _ => ⟨by first | trivial | rfl, by first | trivial | rfl, k4⟩, ?_⟩
      intro ht; rw [← k1, hok'] at ht; cases ht
    case pos =>
    obtain ⟨nc, d1, d2, d3, d4, d5, d6, d7, d8⟩ := k5 hok
    have hncne : nc ≠ [] := fun e => hne (List.eq_nil_of_length_eq_zero (by rw [← d2, e]; rfl))
    obtain ⟨hd, hhd, _, _⟩ := nxt_some_of_ne hncne none
    obtain ⟨tl, htl, _, _⟩ := lastOr_some_of_ne hncne none
    obtain ⟨h1', hh1, _, _⟩ := nxt_some_of_ne hc1 none
    obtain ⟨t1', ht1, _, _⟩ := lastOr_some_of_ne hc1 none
    have e1 : l1.head = some h1' := R.r1.head.trans hh1
    have e2 : l1.tail = some t1' := R.r1.tail.trans ht1
    simp only [hok, Bool.not_true, Bool.false_eq_true, if_false, d7, d8, hhd, htl, e1, e2]
    obtain ⟨he, hbase⟩ := cursors hR1' hc1 i hi
    have hnn : (getNodeAt (linkAllExternally s l1 l2 m).2.1.heap l1 i).2 = none →
        baseOf (linkAllExternally s l1 l2 m).2.1.heap l1 (getNodeAt (linkAllExternally s l1 l2 m).2.1.heap l1 i).2 i ≠ none := by
      intro hen
      rw [hbase]
      rw [he] at hen
      have hdrop : cs1.drop i = [] := (nxt_none_iff _).1 hen
      have : cs1.take i = cs1 := by
        have := List.take_append_drop i cs1; rw [hdrop, List.append_nil] at this; exact this
      rw [this]
      intro hcontra
      exact hc1 ((lastOr_none_iff _).1 hcontra)
    rw [attach_eq (linkAllExternally s l1 l2 m).2.1 l1 l2.size hd tl h1' t1' l1.triple _ _ _ e1 e2 hnn]
    rw [hbase, he]
    have hsplit : cs1.take i ++ cs1.drop i = cs1 := List.take_append_drop i cs1
    have Rn : Repr2 (linkAllExternally s l1 l2 m).2.1.heap l1 { size := l2.size, head := some hd, tail := some tl, triple := l1.triple }
        (cs1.take i ++ cs1.drop i) nc := by
      rw [hsplit]
      refine ⟨hR1', ⟨d5, d6, by simp only []; rw [R.r2.size, d2], by simp only []; exact hhd.symm, by simp only []; exact htl.symm⟩, ?_⟩
      intro x hx hxn
      exact Nat.lt_irrefl _ (Nat.lt_of_lt_of_le (hb1 x hx) (d3 x hxn))
    obtain ⟨h', l1', l2', e, r2, t1, _, fr⟩ := spliceBetween_spec _ l1 _ (cs1.take i) (cs1.drop i) nc (linkAllExternally s l1 l2 m).2.2.2.2 Rn
      (by rw [hsplit]; exact hc1) hncne
    rw [e]
    refine ⟨k2, k3, ?_, ?_⟩
    · intro hf; rw [← k1, hok] at hf; cases hf
    intro _
    refine ⟨nc, d1, fun x hx => ⟨d3 x hx, d4 x hx⟩, by first | trivial | rfl, ?_, t1, ?_⟩
    · refine ⟨r2.r1, ?_, ?_⟩
      · refine ⟨R.r2.nodup, Seg_frame (fun b hb => ?_) hR2'.seg, R.r2.size, R.r2.head, R.r2.tail⟩
        refine fr b ?_ ?_
        · rw [hsplit]; exact fun hm => R.disj b hm hb
        · exact fun hm => Nat.lt_irrefl _ (Nat.lt_of_lt_of_le (hb2 b hb) (d3 b hm))
      · intro x hx hx2
        simp only [idsOf_append, List.mem_append] at hx
        rcases hx with (hx | hx) | hx
        · exact R.disj x (by rw [← hsplit, idsOf_append]; exact List.mem_append_left _ hx) hx2
        · exact Nat.lt_irrefl _ (Nat.lt_of_lt_of_le (hb2 x hx2) (d3 x hx))
        · exact R.disj x (by rw [← hsplit, idsOf_append]; exact List.mem_append_right _ hx) hx2
    · intro b hb hb1'
      show h' b = s.heap b
      rw [fr b (by rw [hsplit]; exact hb1') (fun hm => Nat.lt_irrefl _ (Nat.lt_of_lt_of_le hb (d3 b hm)))]
      exact k4 b hb

end CC.PList
