import CollectionsC.Proofs.HashTableLedger
/-! Ledger facts for the hash set (C06/C08/C14): every set operation forwards to the table, so the
counters it leaves untouched, the refusal counter and the dependence on the schedule are the table's. -/
set_option maxHeartbeats 1600000
namespace CC.HashSet
open CC CC.HT CC.Spec
open CC.Spec.Set (Op)

/-- the header and the wrapped table go through the same triple -/
theorem new_other (c : HCfg) (cap : Nat) (tr : Triple) (m : Mem) : otherOf tr (HashSet.new c cap tr m).2.2 = otherOf tr m := by
  unfold HashSet.new; simp only
  split
  · simp
  · cases (HashTable.new c cap tr (m.allocT tr).2).2.1 <;> simp [HashTable.new_other]

theorem destroy_other (s : HashSet) (m : Mem) (h : s.table.triple = s.triple) :
    otherOf s.triple (s.destroy m) = otherOf s.triple m := by
  have := HashTable.destroy_other s.table m
  rw [h] at this
  simp [destroy, this]

theorem step_triple (c : HCfg) (s : HashSet) (op : Op) (m : Mem) :
    (s.step c op m).2.1.triple = s.triple ∧ (s.step c op m).2.1.table.triple = s.table.triple := by
  cases op with
  | add e => exact ⟨rfl, HashTable.add_triple c s.table e dummy m⟩
  | contains e => exact ⟨rfl, rfl⟩
  | remove e => exact ⟨rfl, HashTable.remove_triple c s.table e m⟩
  | removeAll => simp only [step]; rw [removeAll_eq]; exact ⟨rfl, HashTable.removeAll_triple s.table m⟩

theorem step_other (c : HCfg) (s : HashSet) (op : Op) (m : Mem) :
    otherOf s.table.triple (s.step c op m).2.2 = otherOf s.table.triple m := by
  cases op with
  | add e => exact HashTable.add_other c s.table e dummy m
  | contains e => simp only [step, contains, HashTable.containsKey]; rw [HashTable.get_mem]; simp
  | remove e => exact HashTable.remove_other c s.table e m
  | removeAll => simp only [step]; rw [removeAll_eq]; exact HashTable.removeAll_other s.table m

theorem run_triple (c : HCfg) (ops : List Op) (s : HashSet) (m : Mem) :
    (s.run c ops m).2.2.1.triple = s.triple ∧ (s.run c ops m).2.2.1.table.triple = s.table.triple := by
  induction ops generalizing s m with
  | nil => exact ⟨rfl, rfl⟩
  | cons op ops ih =>
    simp only [run]
    obtain ⟨i1, i2⟩ := ih (s.step c op m).2.1 (s.step c op m).2.2
    obtain ⟨s1, s2⟩ := step_triple c s op m
    exact ⟨by rw [i1, s1], by rw [i2, s2]⟩

theorem run_other (c : HCfg) (ops : List Op) (s : HashSet) (m : Mem) :
    otherOf s.table.triple (s.run c ops m).2.2.2 = otherOf s.table.triple m := by
  induction ops generalizing s m with
  | nil => rfl
  | cons op ops ih =>
    simp only [run]
    have := ih (s.step c op m).2.1 (s.step c op m).2.2
    rw [(step_triple c s op m).2] at this
    rw [this, step_other]

theorem iter_other (c : HCfg) (s : HashSet) (it : HIter) (m : Mem) :
    otherOf s.table.triple (s.iterInit m).2 = otherOf s.table.triple m ∧
    otherOf s.table.triple (s.iterNext it m).2.2.2 = otherOf s.table.triple m ∧
    otherOf s.table.triple (s.iterRemove c it m).2.2.2.2 = otherOf s.table.triple m :=
  ⟨(HashTable.iter_other _ s.table it m).1, (HashTable.iter_other _ s.table it m).2, HashTable.iterRemove_other c s.table it m⟩

theorem step_nrefused (c : HCfg) (s : HashSet) (op : Op) (m : Mem) :
    ((s.step c op m).1.st = some .errAlloc ∧ (s.step c op m).2.2.nrefused = m.nrefused + 1) ∨
    ((s.step c op m).1.st ≠ some .errAlloc ∧ (s.step c op m).2.2.nrefused = m.nrefused) := by
  cases op with
  | add e =>
    rcases HashTable.add_nrefused c s.table e dummy m with ⟨a, b⟩ | ⟨a, b⟩
    · left; exact ⟨by simp [step, add, a], b⟩
    · right; exact ⟨by simp [step, add, a], b⟩
  | contains e =>
    right
    have := HashTable.step_nrefused c s.table (.containsKey e) m
    rcases this with ⟨a, _⟩ | ⟨_, b⟩
    · simp [HashTable.step] at a
    · exact ⟨by simp [step], b⟩
  | remove e =>
    right
    have hst : (s.table.remove c e m).1 = .ok ∨ (s.table.remove c e m).1 = .errKeyNotFound := by
      simp only [HashTable.remove]; cases chainRemove (s.table.bucket (s.table.index (keyHash c e))) e <;> simp
    have := HashTable.step_nrefused c s.table (.remove e) m
    simp only [HashTable.step] at this
    rcases this with ⟨a, _⟩ | ⟨_, b⟩
    · rcases hst with h | h <;> rw [h] at a <;> simp at a
    · refine ⟨?_, b⟩
      simp only [step, remove]
      rcases hst with h | h <;> rw [h] <;> simp
  | removeAll =>
    right
    have := HashTable.step_nrefused c s.table .removeAll m
    rcases this with ⟨a, _⟩ | ⟨_, b⟩
    · simp [HashTable.step] at a
    · refine ⟨by simp [step], ?_⟩
      simp only [step]; rw [removeAll_eq]; exact b

theorem step_congr (c : HCfg) (s : HashSet) (op : Op) (m m' : Mem) (h : m.sched = m'.sched) :
    (s.step c op m).1 = (s.step c op m').1 ∧ (s.step c op m).2.1 = (s.step c op m').2.1 ∧
    (s.step c op m).2.2.sched = (s.step c op m').2.2.sched := by
  cases op with
  | add e =>
    obtain ⟨a1, a2, a3⟩ := HashTable.add_congr c s.table e dummy m m' h
    simp only [step, add]; rw [a1, a2]; exact ⟨rfl, rfl, a3⟩
  | contains e =>
    obtain ⟨a1, a2, a3⟩ := HashTable.step_congr c s.table (.containsKey e) m m' h
    simp only [HashTable.step] at a1 a3
    simp only [step, contains]
    exact ⟨a1, trivial, a3⟩
  | remove e =>
    obtain ⟨a1, a2, a3⟩ := HashTable.step_congr c s.table (.remove e) m m' h
    simp only [HashTable.step] at a1 a2 a3
    simp only [step, remove]
    have : (s.table.remove c e m).1 = (s.table.remove c e m').1 := by
      have := congrArg Spec.Map.Out.st a1; simpa using this
    rw [this, a2]; exact ⟨rfl, rfl, a3⟩
  | removeAll =>
    obtain ⟨a1, a2, a3⟩ := HashTable.step_congr c s.table .removeAll m m' h
    simp only [HashTable.step] at a2 a3
    simp only [step]; rw [removeAll_eq, removeAll_eq]; simp only
    rw [a2]; exact ⟨trivial, rfl, a3⟩

theorem run_congr (c : HCfg) (ops : List Op) (s : HashSet) (m m' : Mem) (h : m.sched = m'.sched) :
    (s.run c ops m).1 = (s.run c ops m').1 ∧ (s.run c ops m).2.1 = (s.run c ops m').2.1 ∧
    (s.run c ops m).2.2.1 = (s.run c ops m').2.2.1 := by
  induction ops generalizing s m m' with
  | nil => exact ⟨rfl, rfl, rfl⟩
  | cons op ops ih =>
    obtain ⟨s1, s2, s3⟩ := step_congr c s op m m' h
    simp only [run]
    rw [s1, s2]
    obtain ⟨i1, i2, i3⟩ := ih (s.step c op m').2.1 (s.step c op m).2.2 (s.step c op m').2.2 s3
    rw [i1, i2, i3]; exact ⟨rfl, rfl, rfl⟩

end CC.HashSet
