import CollectionsC.Proofs.HashTable
/-! Allocation counting for the hash table (C20): every doubling costs exactly one bucket-array
allocation, hence the number of reallocations during any number of insertions is the binary
logarithm of the capacity ratio, which is logarithmic in the number of entries for load factors
of at least 0.25. -/
set_option maxHeartbeats 1600000
namespace CC.HT
open CC
theorem allocT_allocsOf (m : Mem) (tr : Triple) :
    allocsOf (m.allocT tr).2 tr = allocsOf m tr + (if (m.allocT tr).1 then 1 else 0) := by
  cases tr with
  | conf =>
    simp only [Mem.allocT_conf, allocsOf]
    cases hs : m.sched with
    | nil => simp [Mem.alloc, hs]
    | cons b rest => cases b <;> simp [Mem.alloc, hs]
  | libc => simp [Mem.allocT, allocsOf]
@[simp] theorem freeT_allocsOf (m : Mem) (tr tr' : Triple) : allocsOf (m.freeT tr) tr' = allocsOf m tr' := by
  cases tr <;> cases tr' <;> simp only [Mem.freeT, allocsOf] <;> (try unfold Mem.free) <;> split <;> rfl
end CC.HT

namespace CC.HashTable
open CC CC.HT CC.Spec

/-- `resize` performs exactly one allocation when it succeeds and none that counts otherwise -/
theorem resize_nalloc (c : HCfg) (t : HashTable) (n : Nat) (m : Mem) :
    allocsOf (t.resize c n m).2.2 t.triple = allocsOf m t.triple + (if (t.resize c n m).1 = .ok then 1 else 0) := by
  unfold resize
  split
  · simp
  · simp only
    cases ha : (m.allocT t.triple).1 with
    | false => simp [allocT_allocsOf, ha]
    | true => simp [allocT_allocsOf, ha]

/-- a failed `resize` leaves the table as it was -/
theorem resize_table_of_fail (c : HCfg) (t : HashTable) (n : Nat) (m : Mem) (h : (t.resize c n m).1 ≠ .ok) :
    (t.resize c n m).2.1 = t := by
  unfold resize at h ⊢
  by_cases hm : t.capacity = Gen.MAX_POW_TWO
  · simp [hm]
  · simp only [hm, if_false] at h ⊢
    cases ha : (m.allocT t.triple).1 with
    | false => simp
    | true => simp [ha] at h

/-- the resize loop: `j` doublings cost exactly `j` allocations, and the last doubling (if any) was
triggered at half the final capacity by the current size -/
theorem growLoop_count (c : HCfg) (fuel : Nat) (t : HashTable) (m : Mem) (h : t.Inv c) :
    ∃ j, (growLoop c fuel t m).2.1.capacity = t.capacity * 2 ^ j ∧
      allocsOf (growLoop c fuel t m).2.2 t.triple = allocsOf m t.triple + j ∧
      (j = 0 ∨ c.thr ((growLoop c fuel t m).2.1.capacity / 2) ≤ t.size) := by
  induction fuel generalizing t m with
  | zero => exact ⟨0, by simp [growLoop], by simp [growLoop], Or.inl rfl⟩
  | succ fuel ih =>
    unfold growLoop
    by_cases hge : t.size ≥ t.threshold
    · simp only [hge, if_true]
      have hn := resize_nalloc c t (t.capacity <<< 1) m
      by_cases hok : (t.resize c (t.capacity <<< 1) m).1 = .ok
      · simp only [hok, ne_eq, not_true_eq_false, if_false]
        rw [if_pos hok] at hn
        have hmax : t.capacity ≠ Gen.MAX_POW_TWO := by
          intro hm; simp [resize, hm] at hok
        have hal : (m.allocT t.triple).1 = true := by
          cases ha : (m.allocT t.triple).1 with
          | true => rfl
          | false => rw [((resize_spec c t m h hmax).1 ha)] at hok; cases hok
        obtain ⟨_, s2, _, s4, s5, _, _, _, s9⟩ := (resize_spec c t m h hmax).2 hal
        obtain ⟨j, j1, j2, j3⟩ := ih (t.resize c (t.capacity <<< 1) m).2.1 (t.resize c (t.capacity <<< 1) m).2.2 s2
        rw [s9] at j2
        refine ⟨j + 1, ?_, by rw [j2, hn]; omega, Or.inr ?_⟩
        · rw [j1, s5, Nat.pow_succ]; simp only [Nat.mul_comm, Nat.mul_assoc]
        · rcases j3 with j3 | j3
          · subst j3
            rw [j1, s5]; simp only [Nat.pow_zero, Nat.mul_one]
            have : 2 * t.capacity / 2 = t.capacity := by omega
            rw [this, ← h.2.2.2.2.2]; exact hge
          · rw [s4] at j3; exact j3
      · simp only [hok, ne_eq, not_false_eq_true, if_true]
        rw [if_neg hok] at hn
        exact ⟨0, by rw [resize_table_of_fail c t _ m hok]; simp, by simpa using hn, Or.inl rfl⟩
    · simp only [hge, if_false]
      exact ⟨0, by simp, by simp, Or.inl rfl⟩


/-- allocation count of one insertion: one per doubling plus one for a new entry -/
theorem add_count (c : HCfg) (t : HashTable) (key : Key) (v : Nat) (m : Mem) (h : t.Inv c) :
    ∃ j, (t.add c key v m).2.1.capacity = t.capacity * 2 ^ j ∧
      allocsOf (t.add c key v m).2.2 t.triple = allocsOf m t.triple + j + ((t.add c key v m).2.1.size - t.size) ∧
      t.size ≤ (t.add c key v m).2.1.size ∧ (t.add c key v m).2.1.size ≤ t.size + 1 ∧
      (j = 0 ∨ c.thr ((t.add c key v m).2.1.capacity / 2) ≤ t.size) := by
  obtain ⟨j, j1, j2, j3⟩ := growLoop_count c 64 t m h
  have p := growLoop_spec c 64 t m h
  have hsz := p.size
  have hT := p.triple
  refine ⟨j, ?_⟩
  unfold add
  by_cases hg : (growLoop c 64 t m).1 = .ok
  · simp only [hg, ne_eq, not_true_eq_false, if_false]
    generalize growLoop c 64 t m = g at j1 j2 j3 hsz hT
    obtain ⟨st, t1, m1⟩ := g
    simp only at j1 j2 j3 hsz hT ⊢
    cases hr : chainReplace (t1.bucket (t1.index (keyHash c key))) key v with
    | some ch =>
      simp only
      exact ⟨j1, by rw [check_allocsOf, j2, hsz]; omega, by omega, by omega, j3⟩
    | none =>
      simp only
      have hn := allocT_allocsOf (m1.check (decide (t1.index (keyHash c key) < t1.buckets.length))) t1.triple
      rw [check_allocsOf] at hn
      generalize hmm : (m1.check (decide (t1.index (keyHash c key) < t1.buckets.length))).allocT t1.triple = mm at hn ⊢
      rw [hT] at hn
      cases ha : mm.1 with
      | false =>
        rw [ha] at hn
        simp only [Bool.not_false, if_true]
        exact ⟨j1, by rw [hn, j2, hsz]; simp, by omega, by omega, j3⟩
      | true =>
        rw [ha] at hn
        simp only [Bool.not_true, Bool.false_eq_true, if_false]
        exact ⟨j1, by rw [hn, j2, hsz]; simp, by omega, by omega, j3⟩
  · simp only [hg, ne_eq, not_false_eq_true, if_true]
    exact ⟨j1, by rw [j2, hsz]; omega, by omega, by omega, j3⟩

/-- insert a list of pairs, ignoring statuses -/
def addMany (c : HCfg) (t : HashTable) (kvs : List (Key × Nat)) (m : Mem) : HashTable × Mem :=
  kvs.foldl (fun tm kv => ((tm.1.add c kv.1 kv.2 tm.2).2.1, (tm.1.add c kv.1 kv.2 tm.2).2.2)) (t, m)

theorem addMany_inv (c : HCfg) (t : HashTable) (kvs : List (Key × Nat)) (m : Mem) (h : t.Inv c) :
    (addMany c t kvs m).1.Inv c := by
  induction kvs generalizing t m with
  | nil => exact h
  | cons kv kvs ih =>
    simp only [addMany, List.foldl_cons]
    exact ih _ _ (add_spec c t kv.1 kv.2 m h).1

/-- **reallocations are logarithmic**: any number of insertions into a table of capacity `c₀` performs
exactly `j` bucket-array allocations where the final capacity is `c₀ · 2^j` (the remaining allocations
are one per new entry), and — for a load factor of at least 0.25, stated only at the capacities a
table can have (`2^k / 4 ≤ thr (2^k)` for `k < 32`; the shipped `(size_t)(x * 0.25f)` is exact at
powers of two but not at every `x`) — when any
reallocation happened the final capacity is below `8 · (size + 1)`, so `j ≤ log2 (8 · (size + 1))`. -/
theorem addMany_count (c : HCfg) (hthr : ∀ k, k < 32 → 2 ^ k / 4 ≤ c.thr (2 ^ k)) (t : HashTable) (kvs : List (Key × Nat)) (m : Mem)
    (h : t.Inv c) :
    ∃ j, (addMany c t kvs m).1.capacity = t.capacity * 2 ^ j ∧
      allocsOf (addMany c t kvs m).2 t.triple = allocsOf m t.triple + j + ((addMany c t kvs m).1.size - t.size) ∧
      t.size ≤ (addMany c t kvs m).1.size ∧ (addMany c t kvs m).1.size ≤ t.size + kvs.length ∧
      (j = 0 ∨ (addMany c t kvs m).1.capacity < 8 * ((addMany c t kvs m).1.size + 1)) := by
  induction kvs generalizing t m with
  | nil => exact ⟨0, by simp [addMany], by simp [addMany], by simp [addMany], by simp [addMany], Or.inl rfl⟩
  | cons kv kvs ih =>
    obtain ⟨j1, a1, a2, a3, a4, a5⟩ := add_count c t kv.1 kv.2 m h
    have hinv := (add_spec c t kv.1 kv.2 m h).1
    have hT := (add_spec c t kv.1 kv.2 m h).2.2.2.2.2.2
    obtain ⟨j2, b1, b2, b3, b4, b5⟩ := ih (t.add c kv.1 kv.2 m).2.1 (t.add c kv.1 kv.2 m).2.2 hinv
    rw [hT] at b2
    have hstep : addMany c t (kv :: kvs) m = addMany c (t.add c kv.1 kv.2 m).2.1 kvs (t.add c kv.1 kv.2 m).2.2 := by
      simp [addMany]
    rw [hstep]
    refine ⟨j1 + j2, ?_, ?_, by omega, by simp only [List.length_cons]; omega, ?_⟩
    · rw [b1, a1, Nat.pow_add, Nat.mul_assoc]
    · rw [b2, a2]; omega
    · rcases b5 with b5 | b5
      · subst b5
        rcases a5 with a5 | a5
        · left; omega
        · right
          rw [b1]; simp only [Nat.pow_zero, Nat.mul_one]
          obtain ⟨k1, hk1, hc1⟩ := hinv.1
          have : (t.add c kv.1 kv.2 m).2.1.capacity / 2 / 4 ≤ c.thr ((t.add c kv.1 kv.2 m).2.1.capacity / 2) := by
            rw [hc1]
            cases k1 with
            | zero => simp
            | succ k =>
              have : 2 ^ (k + 1) / 2 = 2 ^ k := by rw [Nat.pow_succ]; omega
              rw [this]; exact hthr k (by omega)
          omega
      · right; exact b5

end CC.HashTable
