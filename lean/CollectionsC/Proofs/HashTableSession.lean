import CollectionsC.Proofs.HashTableHistory
import CollectionsC.Proofs.HashTableDerived
import CollectionsC.Proofs.HashTableGrowth
/-! One alphabet for everything C02 names: the table calls, iterator sessions (`iter_init`, `next`,
`remove` — any number of sessions, table look-ups allowed while one is open), the two `foreach`
enumerations and `get_keys`/`get_values` (array built, read, destroyed).  One step of the model
refines one step of the ideal map-with-cursor; the history theorem is in `Properties/C02.lean`. -/
set_option maxHeartbeats 3200000
namespace CC.HashTable
open CC CC.HT CC.Spec
open CC.Spec.Map (Op Out)

inductive SOp where
  | tab (op : Op)
  | itInit
  | it (op : IterOp)
  | foreachKey
  | foreachValue
  | getKeys
  | getValues
  deriving Repr, DecidableEq

inductive SOut where
  | tab (o : Out)
  | it (o : IterOut)
  | unit
  /-- an iterator call without an open session (contract violation): not executed -/
  | skipped
  | list (l : List Nat)
  | arr (st : Stat) (l : List Nat)

/-- table + the session iterator, if one is open (a structural call closes it, as in the harness) -/
structure Sess where
  t  : HashTable
  it : Option HIter

def mutating : Op → Bool
  | .add _ _ => true
  | .remove _ => true
  | .removeAll => true
  | _ => false

def sessStep (c : HCfg) (s : Sess) (op : SOp) (m : Mem) : SOut × Sess × Mem :=
  match op with
  | .tab op => (.tab (s.t.step c op m).1, ⟨(s.t.step c op m).2.1, if mutating op then none else s.it⟩, (s.t.step c op m).2.2)
  | .itInit => (.unit, ⟨s.t, some (s.t.iterInit m).1⟩, (s.t.iterInit m).2)
  | .it iop =>
    match s.it with
    | none => (.skipped, s, m)
    | some it => (.it (iterStep c s.t it iop m).1, ⟨(iterStep c s.t it iop m).2.1, some (iterStep c s.t it iop m).2.2.1⟩,
        (iterStep c s.t it iop m).2.2.2)
  | .foreachKey => (.list ((s.t.foreachKey m).1.map encKey), s, (s.t.foreachKey m).2)
  | .foreachValue => (.list (s.t.foreachValue m).1, s, (s.t.foreachValue m).2)
  | .getKeys =>
    match (s.t.getKeys c m).2.1 with
    | none => (.arr (s.t.getKeys c m).1 [], s, (s.t.getKeys c m).2.2)
    | some a => (.arr (s.t.getKeys c m).1 a.contents, s, a.destroy (s.t.getKeys c m).2.2)
  | .getValues =>
    match (s.t.getValues c m).2.1 with
    | none => (.arr (s.t.getValues c m).1 [], s, (s.t.getValues c m).2.2)
    | some a => (.arr (s.t.getValues c m).1 a.contents, s, a.destroy (s.t.getValues c m).2.2)

/-- what the ideal structure takes from the run: whether an allocating call failed and with which
status, and — the enumeration order being unspecified — the order in which a new iterator will walk -/
structure Oracle where
  failed : Option Stat
  walk   : List Entry

def oracleOf (s : Sess) (op : SOp) (o : SOut) : Oracle :=
  { failed := match op, o with
      | .tab op, .tab o => failedOf op o
      | .getKeys, .arr st _ => if st = .ok then none else some st
      | .getValues, .arr st _ => if st = .ok then none else some st
      | _, _ => none
    walk := s.t.buckets.flatten }

/-- the ideal state: the map and the open cursor, if any -/
structure ISess where
  mp  : Map
  cur : Option Cursor

def idealStep (s : ISess) (op : SOp) (w : Oracle) : SOut × ISess :=
  match op with
  | .tab op => (.tab (Map.step s.mp op w.failed).1, ⟨(Map.step s.mp op w.failed).2, if mutating op then none else s.cur⟩)
  | .itInit => (.unit, ⟨s.mp, some ⟨w.walk, none⟩⟩)
  | .it iop =>
    match s.cur with
    | none => (.skipped, s)
    | some cu => (.it (cu.step s.mp iop).1, ⟨(cu.step s.mp iop).2.2, some (cu.step s.mp iop).2.1⟩)
  | .foreachKey => (.list ((Map.keys s.mp).map encKey), s)
  | .foreachValue => (.list (Map.vals s.mp), s)
  | .getKeys =>
    match w.failed with
    | some st => (.arr st [], s)
    | none => (.arr .ok ((Map.keys s.mp).map encKey), s)
  | .getValues =>
    match w.failed with
    | some st => (.arr st [], s)
    | none => (.arr .ok (Map.vals s.mp), s)

/-- outputs agree; enumerations agree up to order (the order of a hash table is unspecified) -/
def OutRel : SOut → SOut → Prop
  | .tab o, .tab o' => o = o'
  | .it o, .it o' => o = o'
  | .unit, .unit => True
  | .skipped, .skipped => True
  | .list l, .list l' => l.Perm l'
  | .arr st l, .arr st' l' => st = st' ∧ l.Perm l'
  | _, _ => False

/-- the session relation: invariant, same map, blocks owned, cursors in step -/
def SessRel (c : HCfg) (s : Sess) (i : ISess) (m : Mem) : Prop :=
  s.t.Inv c ∧ s.t.abs.Perm i.mp ∧ s.t.size + 2 ≤ liveOf m s.t.triple ∧
  match s.it, i.cur with
  | none, none => True
  | some it, some cu => CurRel s.t it cu
  | _, _ => False

theorem Cursor.step_map (cu : Cursor) (mp mp' : Map) (iop : IterOp) (h : mp.Perm mp') :
    (cu.step mp iop).1 = (cu.step mp' iop).1 ∧ (cu.step mp iop).2.1 = (cu.step mp' iop).2.1 ∧
    (cu.step mp iop).2.2.Perm (cu.step mp' iop).2.2 := by
  obtain ⟨todo, last⟩ := cu
  cases iop with
  | next => cases todo <;> exact ⟨rfl, rfl, h⟩
  | remove =>
    cases last with
    | none => exact ⟨rfl, rfl, h⟩
    | some e => exact ⟨rfl, rfl, Map.erase_perm h e.key⟩

theorem abs_wf' (c : HCfg) (t : HashTable) (h : t.Inv c) : Map.WF t.abs := by
  unfold Map.WF; rw [abs_eq, keys_map_pair]; exact h.2.2.2.2.1

/-- **one call of the unified alphabet refines one step of the ideal map-with-cursor** -/
theorem sessStep_refines (c : HCfg) (s : Sess) (i : ISess) (op : SOp) (m : Mem)
    (hr : SessRel c s i m) (hbig : 8 * s.t.size ≤ Gen.CC_MAX_ELEMENTS) :
    OutRel (sessStep c s op m).1 (idealStep i op (oracleOf s op (sessStep c s op m).1)).1 ∧
    SessRel c (sessStep c s op m).2.1 (idealStep i op (oracleOf s op (sessStep c s op m).1)).2 (sessStep c s op m).2.2 ∧
    (sessStep c s op m).2.2.fault = m.fault ∧
    (sessStep c s op m).2.1.t.size ≤ s.t.size + 1 ∧
    (sessStep c s op m).2.1.t.triple = s.t.triple ∧
    liveOf (sessStep c s op m).2.2 s.t.triple + s.t.size = liveOf m s.t.triple + (sessStep c s op m).2.1.t.size := by
  obtain ⟨hinv, hperm, hl, hcur⟩ := hr
  have wf := abs_wf' c s.t hinv
  cases op with
  | tab op =>
    -- the table step (C02.step_refines, re-derived here from the operation specs)
    have key : (s.t.step c op m).1 = (Map.step i.mp op (failedOf op (s.t.step c op m).1)).1 ∧
        (s.t.step c op m).2.1.abs.Perm (Map.step i.mp op (failedOf op (s.t.step c op m).1)).2 ∧
        (s.t.step c op m).2.1.Inv c ∧
        liveOf (s.t.step c op m).2.2 s.t.triple + s.t.size = liveOf m s.t.triple + (s.t.step c op m).2.1.size ∧
        (s.t.step c op m).2.2.fault = m.fault ∧ (s.t.step c op m).2.1.size ≤ s.t.size + 1 ∧
        (¬ mutating op = true → (s.t.step c op m).2.1 = s.t) := by
      cases op with
      | add k v =>
        obtain ⟨a1, a2, a3, a4, a5, a6, _⟩ := add_spec c s.t k v m hinv
        simp only [step]
        by_cases hok : (s.t.add c k v m).1 = .ok
        · obtain ⟨b1, b2, b3⟩ := a2 hok
          have hsz : (s.t.add c k v m).2.1.size ≤ s.t.size + 1 := by
            obtain ⟨_, _, _, _, hh, _⟩ := add_count c s.t k v m hinv; exact hh
          simp only [hok, failedOf, Map.step]
          exact ⟨trivial, b1.trans (Map.insert_perm hperm wf k v), a1, b3, a4, hsz, fun hm => by simp [mutating] at hm⟩
        · obtain ⟨b1, b2, b3, b4⟩ := a3 hok
          have hf : failedOf (Op.add k v) ⟨some (s.t.add c k v m).1, none⟩ = some (s.t.add c k v m).1 := by
            unfold failedOf
            rcases b1 with b1 | b1 <;> rw [b1]
          rw [hf]
          simp only [Map.step]
          exact ⟨trivial, b2.trans hperm, a1, by omega, a4, by omega, fun hm => by simp [mutating] at hm⟩
      | get k =>
        obtain ⟨g1, g2, g3⟩ := get_refines c s.t k m hinv
        simp only [step, Map.step]
        rw [g1, g2, g3, Map.lookup_perm hperm wf k]
        refine ⟨?_, ?_, hinv, by first | rfl | trivial, by first | rfl | trivial, by omega, fun _ => by first | rfl | trivial⟩ <;> cases Map.lookup i.mp k <;> simp [hperm]
      | containsKey k =>
        obtain ⟨g1, g2⟩ := containsKey_refines c s.t k m hinv
        simp only [step, Map.step]
        rw [g1, g2, Map.contains_perm hperm wf k]
        exact ⟨by first | rfl | trivial, hperm, hinv, by first | rfl | trivial, by first | rfl | trivial, by omega, fun _ => by first | rfl | trivial⟩
      | remove k =>
        obtain ⟨p1, p2, p3, p4, p5, p6, p7, _⟩ := remove_spec c s.t k m hinv (fun _ => by omega)
        simp only [step, Map.step]
        rw [p3, p4, Map.lookup_perm hperm wf k]
        rw [Map.lookup_perm hperm wf k] at p4
        cases hlk : Map.lookup i.mp k with
        | none =>
          rw [hlk] at p4
          simp only [Option.isSome_none, Bool.false_eq_true, if_false] at p4 ⊢
          obtain ⟨q1, q2⟩ := p5 (by rw [p4]; simp)
          rw [q1, q2]
          exact ⟨trivial, hperm, hinv, rfl, rfl, by omega, fun hm => by simp [mutating] at hm⟩
        | some v =>
          rw [hlk] at p4
          simp only [Option.isSome_some, if_true] at p4 ⊢
          obtain ⟨q1, q2⟩ := p6 p4
          refine ⟨trivial, ?_, p1, by omega, p7, by omega, fun hm => by simp [mutating] at hm⟩
          rw [p2]; exact Map.erase_perm hperm k
      | removeAll =>
        obtain ⟨r1, r2, r3, _, _, r6, r7, _⟩ := removeAll_spec c s.t m hinv (by omega)
        simp only [step, Map.step]
        exact ⟨trivial, by rw [r2], r1, by omega, r7, by omega, fun hm => by simp [mutating] at hm⟩
    obtain ⟨k1, k2, k3, k4, k5, k6, k7⟩ := key
    have hT := step_triple c s.t op m
    simp only [sessStep, idealStep, oracleOf]
    refine ⟨k1, ⟨k3, k2, by (try dsimp only); rw [hT]; omega, ?_⟩, k5, k6, hT, k4⟩
    by_cases hm : mutating op = true
    · simp [hm]
    · simp only [hm, if_false]
      rw [k7 hm]; exact hcur
  | itInit =>
    obtain ⟨i1, i2, i3⟩ := iterInit_spec c s.t m hinv
    simp only [sessStep, idealStep, oracleOf]
    rw [i2]
    exact ⟨trivial, ⟨hinv, hperm, hl, iterInit_curRel c s.t m hinv⟩, by first | rfl | trivial, by (try dsimp only); omega, by first | rfl | trivial, by first | rfl | trivial⟩
  | it iop =>
    cases hit : s.it with
    | none =>
      rw [hit] at hcur
      cases hcu : i.cur with
      | none =>
        simp only [sessStep, idealStep, hit, hcu]
        exact ⟨trivial, ⟨hinv, hperm, hl, by rw [hit, hcu]; trivial⟩, by first | rfl | trivial, by (try dsimp only); omega, by first | rfl | trivial, by first | rfl | trivial⟩
      | some cu => rw [hcu] at hcur; exact hcur.elim
    | some it =>
      rw [hit] at hcur
      cases hcu : i.cur with
      | none => rw [hcu] at hcur; exact hcur.elim
      | some cu =>
        rw [hcu] at hcur
        obtain ⟨s1, s2, s3, s4, s5, s6, s7, _⟩ := iterStep_refines c s.t it iop m cu hinv hcur hl
        obtain ⟨e1, e2, e3⟩ := Cursor.step_map cu s.t.abs i.mp iop hperm
        simp only [sessStep, idealStep, hit, hcu]
        refine ⟨by rw [s1, e1]; rfl, ⟨s3, by rw [s2]; exact e3, by (try dsimp only); rw [s7]; omega, ?_⟩, s5, ?_, s7, s6⟩
        · simp only; rw [← e2]; exact s4
        · -- an iterator call never grows the table
          try dsimp only
          cases iop with
          | next => simp [iterStep]
          | remove =>
            simp only [iterStep, iterRemove]
            cases hp : it.prev with
            | none => simp
            | some k =>
              simp only
              have hrs := (remove_spec c s.t k m hinv (fun _ => by omega))
              by_cases hok : (s.t.remove c k m).1 = .ok
              · have := (hrs.2.2.2.2.2.1 hok).2; omega
              · rw [(hrs.2.2.2.2.1 hok).1]; omega
  | foreachKey =>
    obtain ⟨f1, f2, _, _⟩ := foreach_refines c s.t m hinv
    simp only [sessStep, idealStep]
    rw [f1, f2]
    exact ⟨((hperm.map _).map _ : ((Map.keys s.t.abs).map encKey).Perm ((Map.keys i.mp).map encKey)),
      ⟨hinv, hperm, hl, hcur⟩, by first | rfl | trivial, by (try dsimp only); omega, by first | rfl | trivial, by first | rfl | trivial⟩
  | foreachValue =>
    obtain ⟨_, _, f3, f4⟩ := foreach_refines c s.t m hinv
    simp only [sessStep, idealStep]
    rw [f3, f4]
    exact ⟨(hperm.map _ : (Map.vals s.t.abs).Perm (Map.vals i.mp)), ⟨hinv, hperm, hl, hcur⟩, by first | rfl | trivial, by (try dsimp only); omega, by first | rfl | trivial, by first | rfl | trivial⟩
  | getKeys =>
    have hw := walk_eq s.t hinv.2.1
    have hsz := hinv.2.2.1
    simp only [sessStep, idealStep, oracleOf]
    cases ha : (s.t.getKeys c m).2.1 with
    | none =>
      have hne : (s.t.getKeys c m).1 ≠ .ok := by
        intro hok
        have := (collect_ok_iff c s.t _ m).mp hok
        unfold getKeys at ha; rw [ha] at this; cases this
      simp only [hne, if_false]
      by_cases h0 : s.t.size = 0
      · have := (collect_spec c s.t (s.t.walk.map (fun e => encKey e.key)) m hinv (by rw [hw, List.length_map]; omega) hbig).1 h0
        unfold getKeys; rw [this]
        exact ⟨⟨rfl, List.Perm.refl _⟩, ⟨hinv, hperm, hl, hcur⟩, by first | rfl | trivial, by (try dsimp only); omega, by first | rfl | trivial, by first | rfl | trivial⟩
      · obtain ⟨_, k2, _, k4, _⟩ := (collect_spec c s.t (s.t.walk.map (fun e => encKey e.key)) m hinv (by rw [hw, List.length_map]; omega) hbig).2 (by omega)
        have := (k2 hne).2
        exact ⟨⟨by first | rfl | trivial, List.Perm.refl _⟩, ⟨hinv, hperm, by unfold getKeys; omega, hcur⟩, k4, by omega, by first | rfl | trivial, by unfold getKeys; omega⟩
    | some a =>
      obtain ⟨r1, r2, r3, r4, r5, r6⟩ := getKeys_spec c s.t m hinv a hbig ha
      have f1 := freeT_spec (s.t.getKeys c m).2.2 a.triple (by rw [r6]; omega)
      have f2 := freeT_spec ((s.t.getKeys c m).2.2.freeT a.triple) a.triple (by rw [f1.1, r6]; omega)
      have hfault : (s.t.getKeys c m).2.2.fault = m.fault := by
        by_cases h0 : s.t.size = 0
        · have := (collect_spec c s.t (s.t.walk.map (fun e => encKey e.key)) m hinv (by rw [hw, List.length_map]; omega) hbig).1 h0
          unfold getKeys at ha; rw [this] at ha; cases ha
        · exact ((collect_spec c s.t (s.t.walk.map (fun e => encKey e.key)) m hinv (by rw [hw, List.length_map]; omega) hbig).2 (by omega)).2.2.2.1
      rw [r6] at f1 f2
      simp only [r4, if_true, DArr.destroy]
      rw [r6]
      refine ⟨⟨rfl, ?_⟩, ⟨hinv, hperm, by omega, hcur⟩, by rw [f2.2.1, f1.2.1, hfault], by omega, by first | rfl | trivial, by omega⟩
      rw [r1]; exact (hperm.map _).map _
  | getValues =>
    have hw := walk_eq s.t hinv.2.1
    have hsz := hinv.2.2.1
    simp only [sessStep, idealStep, oracleOf]
    cases ha : (s.t.getValues c m).2.1 with
    | none =>
      have hne : (s.t.getValues c m).1 ≠ .ok := by
        intro hok
        have := (collect_ok_iff c s.t _ m).mp hok
        unfold getValues at ha; rw [ha] at this; cases this
      simp only [hne, if_false]
      by_cases h0 : s.t.size = 0
      · have := (collect_spec c s.t (s.t.walk.map (·.value)) m hinv (by rw [hw, List.length_map]; omega) hbig).1 h0
        unfold getValues; rw [this]
        exact ⟨⟨rfl, List.Perm.refl _⟩, ⟨hinv, hperm, hl, hcur⟩, by first | rfl | trivial, by (try dsimp only); omega, by first | rfl | trivial, by first | rfl | trivial⟩
      · obtain ⟨_, k2, _, k4, _⟩ := (collect_spec c s.t (s.t.walk.map (·.value)) m hinv (by rw [hw, List.length_map]; omega) hbig).2 (by omega)
        have := (k2 hne).2
        exact ⟨⟨by first | rfl | trivial, List.Perm.refl _⟩, ⟨hinv, hperm, by unfold getValues; omega, hcur⟩, k4, by omega, by first | rfl | trivial, by unfold getValues; omega⟩
    | some a =>
      obtain ⟨r1, r2, r3, r4, r5, r6⟩ := getValues_spec c s.t m hinv a hbig ha
      have f1 := freeT_spec (s.t.getValues c m).2.2 a.triple (by rw [r6]; omega)
      have f2 := freeT_spec ((s.t.getValues c m).2.2.freeT a.triple) a.triple (by rw [f1.1, r6]; omega)
      have hfault : (s.t.getValues c m).2.2.fault = m.fault := by
        by_cases h0 : s.t.size = 0
        · have := (collect_spec c s.t (s.t.walk.map (·.value)) m hinv (by rw [hw, List.length_map]; omega) hbig).1 h0
          unfold getValues at ha; rw [this] at ha; cases ha
        · exact ((collect_spec c s.t (s.t.walk.map (·.value)) m hinv (by rw [hw, List.length_map]; omega) hbig).2 (by omega)).2.2.2.1
      rw [r6] at f1 f2
      simp only [r4, if_true, DArr.destroy]
      rw [r6]
      refine ⟨⟨rfl, ?_⟩, ⟨hinv, hperm, by omega, hcur⟩, by rw [f2.2.1, f1.2.1, hfault], by omega, by first | rfl | trivial, by omega⟩
      rw [r1]; exact hperm.map _

end CC.HashTable

namespace CC.HashTable
open CC CC.HT CC.Spec

/-- a history over the unified alphabet: outputs, oracle entries, final session, final ledger -/
def sessRun (c : HCfg) : List SOp → Sess → Mem → List SOut × List Oracle × Sess × Mem
  | [], s, m => ([], [], s, m)
  | op :: ops, s, m =>
    let r := sessStep c s op m
    let rs := sessRun c ops r.2.1 r.2.2
    (r.1 :: rs.1, oracleOf s op r.1 :: rs.2.1, rs.2.2)

def idealRun : ISess → List SOp → List Oracle → List SOut × ISess
  | i, [], _ => ([], i)
  | i, op :: ops, ws =>
    let r := idealStep i op (ws.headD ⟨none, []⟩)
    let rs := idealRun r.2 ops ws.tail
    (r.1 :: rs.1, rs.2)

/-- output lists agree position by position -/
def OutsRel : List SOut → List SOut → Prop
  | [], [] => True
  | a :: as, b :: bs => OutRel a b ∧ OutsRel as bs
  | _, _ => False

/-- **any history of table calls, iterator sessions and enumerations refines the ideal
map-with-cursor** -/
theorem sessRun_refines (c : HCfg) (ops : List SOp) (s : Sess) (i : ISess) (m : Mem)
    (hr : SessRel c s i m) (hbig : 8 * (s.t.size + ops.length) ≤ Gen.CC_MAX_ELEMENTS) :
    OutsRel (sessRun c ops s m).1 (idealRun i ops (sessRun c ops s m).2.1).1 ∧
    SessRel c (sessRun c ops s m).2.2.1 (idealRun i ops (sessRun c ops s m).2.1).2 (sessRun c ops s m).2.2.2 ∧
    (sessRun c ops s m).2.2.2.fault = m.fault := by
  induction ops generalizing s i m with
  | nil => exact ⟨trivial, hr, rfl⟩
  | cons op ops ih =>
    simp only [List.length_cons] at hbig
    obtain ⟨s1, s2, s3, s4, _, _⟩ := sessStep_refines c s i op m hr (by omega)
    obtain ⟨i1, i2, i3⟩ := ih (sessStep c s op m).2.1 _ (sessStep c s op m).2.2 s2 (by omega)
    simp only [sessRun, idealRun, List.headD_cons, List.tail_cons]
    exact ⟨⟨s1, i1⟩, i2, by rw [i3, s3]⟩

end CC.HashTable
