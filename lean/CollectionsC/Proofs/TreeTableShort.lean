import CollectionsC.Proofs.TreeTableInfra
set_option linter.unusedSimpArgs false
set_option linter.unusedVariables false
/-! The loop invariant of `rebalance_after_delete` on the inductive tree: `Short t q n` — the red-black rules hold
everywhere except that the subtree at position `q` (the node `x` of the C loop, possibly empty) is one black node
short; `n` is the black height the whole tree has once the missing black is counted.  The subtree at `q` itself
satisfies the rules after its root is blackened (it may be red, even below a red parent: the loop then stops and
`x->color = BLACK` repairs everything). -/
namespace CC.Tree
open Colour Dir

def Short : Tree → Path → Nat → Prop
  | t, [], n => RBok t.blacken ∧ bh t + 1 = n
  | nil, _ :: _, _ => False
  | node c l _ _ r, .L :: q, n =>
    Short l q (bh r) ∧ RBok r ∧ n = bh r + (if c = black then 1 else 0) ∧
      (c = red → r.col = black ∧ (q ≠ [] → l.col = black))
  | node c l _ _ r, .R :: q, n =>
    Short r q (bh l) ∧ RBok l ∧ n = bh l + (if c = black then 1 else 0) ∧
      (c = red → l.col = black ∧ (q ≠ [] → r.col = black))

theorem RBok_of_blacken {t : Tree} (h : RBok t.blacken) (hc : t.col = black) : RBok t := by
  cases t with
  | nil => trivial
  | node c l k v r => simp only [col_node] at hc; subst hc; exact h

theorem RBok.blacken {t : Tree} (h : RBok t) : RBok t.blacken := by
  cases t with
  | nil => trivial
  | node c l k v r => exact ⟨h.1, h.2.1, h.2.2.1, by simp⟩

theorem bh_blacken_red {t : Tree} (hc : t.col = red) : bh t.blacken = bh t + 1 := by
  cases t with
  | nil => simp at hc
  | node c l k v r => simp only [col_node] at hc; subst hc; simp [Tree.blacken, bh]

/-- **the context of a position**: from `Short t (g ++ q2) n` with the deficit strictly below `g`, the subtree at
`g` is `Short` for some height `m`; any replacement of it that is again `Short` for `m` (root black or of the old
colour) keeps the whole tree `Short` for `n`; a replacement that satisfies the rules with black height `m` makes
the whole tree satisfy them -/
theorem Short_ctx (g q2 : Path) (hq2 : q2 ≠ []) : ∀ {t : Tree} {n : Nat}, Short t (g ++ q2) n →
    ∃ m, Short (subtree t g) q2 m ∧
      (∀ s' q2', Short s' q2' m → (q2' ≠ [] → s'.col = black ∨ s'.col = (subtree t g).col) →
        Short (replaceAt t g s') (g ++ q2') n) ∧
      (∀ s', RBok s' → bh s' = m → (s'.col = black ∨ s'.col = (subtree t g).col) →
        RBok (replaceAt t g s') ∧ bh (replaceAt t g s') = n ∧ (g ≠ [] → (replaceAt t g s').col = t.col)) := by
  induction g with
  | nil =>
    intro t n h
    have e : subtree t [] = t := by cases t <;> rfl
    refine ⟨n, by simpa [e] using h, ?_, ?_⟩
    · intro s' q2' hs _; simpa [replaceAt] using hs
    · intro s' h1 h2 _; simp [replaceAt, h1, h2]
  | cons d g ih =>
    intro t n h
    cases t with
    | nil => cases d <;> simp [Short] at h
    | node c l k v r =>
      have hne : g ++ q2 ≠ [] := by simp [hq2]
      cases d with
      | L =>
        simp only [List.cons_append, Short] at h
        obtain ⟨h1, h2, h3, h4⟩ := h
        obtain ⟨m, i1, i2, i3⟩ := ih h1
        refine ⟨m, by simpa [subtree] using i1, ?_, ?_⟩
        · intro s' q2' hs hc
          simp only [replaceAt, List.cons_append, Short, subtree] at hc ⊢
          refine ⟨i2 s' q2' hs hc, h2, h3, fun e => ⟨(h4 e).1, fun hne' => ?_⟩⟩
          have hlb := (h4 e).2 hne
          cases g with
          | nil =>
            simp only [replaceAt]
            simp only [subtree] at hc
            by_cases hq : q2' = []
            · subst hq; exact absurd rfl hne'
            · rcases hc hq with e1 | e1
              · exact e1
              · rw [e1]; exact hlb
          | cons d' g' => rw [col_replaceAt_cons]; exact hlb
        · intro s' hs hb hc
          simp only [subtree] at hc
          obtain ⟨j1, j2, j3⟩ := i3 s' hs hb hc
          simp only [replaceAt]
          refine ⟨⟨j1, h2, by rw [j2], fun e => ⟨?_, (h4 e).1⟩⟩, by simp only [bh, j2]; exact h3.symm ▸ rfl, fun _ => rfl⟩
          have hlb := (h4 e).2 hne
          cases g with
          | nil =>
            simp only [replaceAt]
            simp only [subtree] at hc
            rcases hc with e1 | e1
            · exact e1
            · rw [e1]; exact hlb
          | cons d' g' => rw [col_replaceAt_cons]; exact hlb
      | R =>
        simp only [List.cons_append, Short] at h
        obtain ⟨h1, h2, h3, h4⟩ := h
        obtain ⟨m, i1, i2, i3⟩ := ih h1
        refine ⟨m, by simpa [subtree] using i1, ?_, ?_⟩
        · intro s' q2' hs hc
          simp only [replaceAt, List.cons_append, Short, subtree] at hc ⊢
          refine ⟨i2 s' q2' hs hc, h2, h3, fun e => ⟨(h4 e).1, fun hne' => ?_⟩⟩
          have hlb := (h4 e).2 hne
          cases g with
          | nil =>
            simp only [replaceAt]
            simp only [subtree] at hc
            by_cases hq : q2' = []
            · subst hq; exact absurd rfl hne'
            · rcases hc hq with e1 | e1
              · exact e1
              · rw [e1]; exact hlb
          | cons d' g' => rw [col_replaceAt_cons]; exact hlb
        · intro s' hs hb hc
          simp only [subtree] at hc
          obtain ⟨j1, j2, j3⟩ := i3 s' hs hb hc
          simp only [replaceAt]
          refine ⟨⟨h2, j1, by rw [j2], fun e => ⟨(h4 e).1, ?_⟩⟩, by simp only [bh]; exact h3.symm ▸ rfl, fun _ => rfl⟩
          have hlb := (h4 e).2 hne
          cases g with
          | nil =>
            simp only [replaceAt]
            simp only [subtree] at hc
            rcases hc with e1 | e1
            · exact e1
            · rw [e1]; exact hlb
          | cons d' g' => rw [col_replaceAt_cons]; exact hlb

end CC.Tree

namespace CC.Tree
open Colour Dir

theorem col_cases (t : Tree) : t.col = black ∨ t.col = red := by cases h : t.col <;> simp

/-! ### the cases of one iteration, `x` on the left of its parent -/

/-- the sibling of a short subtree is a node -/
theorem Short_sibling_L {cp : Colour} {X : Tree} {kp vp : Nat} {W : Tree} {m : Nat}
    (h : Short (node cp X kp vp W) [.L] m) : ∃ cw wl kw vw wr, W = node cw wl kw vw wr := by
  simp only [Short] at h
  obtain ⟨⟨_, hb⟩, _, _, _⟩ := h
  cases W with
  | nil => simp [bh] at hb
  | node cw wl kw vw wr => exact ⟨cw, wl, kw, vw, wr, rfl⟩

theorem Short_case1_L {cp : Colour} {X : Tree} {kp vp : Nat} {wl : Tree} {kw vw : Nat} {wr : Tree} {m : Nat}
    (h : Short (node cp X kp vp (node red wl kw vw wr)) [.L] m) :
    cp = black ∧ Short (node black (node red X kp vp wl) kw vw wr) [.L, .L] m ∧ wl.col = black := by
  simp only [Short, RBok, bh, col_node] at h
  obtain ⟨⟨hX, hb⟩, ⟨hwl, hwr, hbw, hcw⟩, hm, hc⟩ := h
  have hcp : cp = black := by
    cases cp with
    | black => rfl
    | red => have := (hc rfl).1; simp at this
  subst hcp
  simp only [Short, RBok, bh, col_node]
  simp at hm hb hcw ⊢
  repeat' apply And.intro
  all_goals first | assumption | omega | (intros; simp_all; done) | (simp_all; omega)

theorem Short_case2_L {cp : Colour} {X : Tree} {kp vp : Nat} {wl : Tree} {kw vw : Nat} {wr : Tree} {m : Nat}
    (h : Short (node cp X kp vp (node black wl kw vw wr)) [.L] m) (hx : X.col = black)
    (hwl : wl.col = black) (hwr : wr.col = black) :
    Short (node cp X kp vp (node red wl kw vw wr)) [] m := by
  simp only [Short, RBok, bh, col_node] at h
  obtain ⟨⟨hX, hb⟩, ⟨hwl', hwr', hbw, _⟩, hm, hc⟩ := h
  have hX' := RBok_of_blacken hX hx
  simp only [Short, Tree.blacken, RBok, bh, col_node]
  simp at hm hb ⊢
  repeat' apply And.intro
  all_goals first | assumption | omega | (intros; simp_all; done) | (simp_all; omega)

theorem Short_case3_L {cp : Colour} {X : Tree} {kp vp : Nat} {la : Tree} {kl vl : Nat} {lb : Tree} {kw vw : Nat} {wr : Tree}
    {m : Nat} (h : Short (node cp X kp vp (node black (node red la kl vl lb) kw vw wr)) [.L] m) (hwr : wr.col = black) :
    Short (node cp X kp vp (node black la kl vl (node red lb kw vw wr))) [.L] m := by
  simp only [Short, RBok, bh, col_node] at h ⊢
  obtain ⟨⟨hX, hb⟩, ⟨⟨hla, hlb, hbl, hcl⟩, hwr', hbw, _⟩, hm, hc⟩ := h
  simp at hm hb hbw hcl ⊢
  repeat' apply And.intro
  all_goals first | assumption | omega | (intros; simp_all; done) | (simp_all; omega)

theorem Short_case4_L {cp : Colour} {X : Tree} {kp vp : Nat} {wl : Tree} {kw vw : Nat} {ra : Tree} {kr vr : Nat} {rb : Tree}
    {m : Nat} (h : Short (node cp X kp vp (node black wl kw vw (node red ra kr vr rb))) [.L] m) (hx : X.col = black) :
    RBok (node cp (node black X kp vp wl) kw vw (node black ra kr vr rb)) ∧
    bh (node cp (node black X kp vp wl) kw vw (node black ra kr vr rb)) = m := by
  simp only [Short, RBok, bh, col_node] at h ⊢
  obtain ⟨⟨hX, hb⟩, ⟨hwl, ⟨hra, hrb, hbr, _⟩, hbw, _⟩, hm, hc⟩ := h
  have hX' := RBok_of_blacken hX hx
  simp at hm hb hbw ⊢
  repeat' apply And.intro
  all_goals first | assumption | omega | (intros; simp_all; done) | (simp_all; omega)
/-! ### the cases of one iteration, `x` on the right of its parent -/

/-- the sibling of a short subtree is a node -/
theorem Short_sibling_R {cp : Colour} {X : Tree} {kp vp : Nat} {W : Tree} {m : Nat}
    (h : Short (node cp W kp vp X) [.R] m) : ∃ cw wl kw vw wr, W = node cw wr kw vw wl := by
  simp only [Short] at h
  obtain ⟨⟨_, hb⟩, _, _, _⟩ := h
  cases W with
  | nil => simp [bh] at hb
  | node cw wr kw vw wl => exact ⟨cw, wl, kw, vw, wr, rfl⟩

theorem Short_case1_R {cp : Colour} {X : Tree} {kp vp : Nat} {wl : Tree} {kw vw : Nat} {wr : Tree} {m : Nat}
    (h : Short (node cp (node red wr kw vw wl) kp vp X) [.R] m) :
    cp = black ∧ Short (node black wr kw vw (node red wl kp vp X)) [.R, .R] m ∧ wl.col = black := by
  simp only [Short, RBok, bh, col_node] at h
  obtain ⟨⟨hX, hb⟩, ⟨hwl, hwr, hbw, hcw⟩, hm, hc⟩ := h
  have hcp : cp = black := by
    cases cp with
    | black => rfl
    | red => have := (hc rfl).1; simp at this
  subst hcp
  simp only [Short, RBok, bh, col_node]
  simp at hm hb hcw ⊢
  repeat' apply And.intro
  all_goals first | assumption | omega | (intros; simp_all; done) | (simp_all; omega)

theorem Short_case2_R {cp : Colour} {X : Tree} {kp vp : Nat} {wl : Tree} {kw vw : Nat} {wr : Tree} {m : Nat}
    (h : Short (node cp (node black wr kw vw wl) kp vp X) [.R] m) (hx : X.col = black)
    (hwl : wl.col = black) (hwr : wr.col = black) :
    Short (node cp (node red wr kw vw wl) kp vp X) [] m := by
  simp only [Short, RBok, bh, col_node] at h
  obtain ⟨⟨hX, hb⟩, ⟨hwl', hwr', hbw, _⟩, hm, hc⟩ := h
  have hX' := RBok_of_blacken hX hx
  simp only [Short, Tree.blacken, RBok, bh, col_node]
  simp at hm hb ⊢
  repeat' apply And.intro
  all_goals first | assumption | omega | (intros; simp_all; done) | (simp_all; omega)

theorem Short_case3_R {cp : Colour} {X : Tree} {kp vp : Nat} {la : Tree} {kl vl : Nat} {lb : Tree} {kw vw : Nat} {wr : Tree}
    {m : Nat} (h : Short (node cp (node black wr kw vw (node red lb kl vl la)) kp vp X) [.R] m) (hwr : wr.col = black) :
    Short (node cp (node black (node red wr kw vw lb) kl vl la) kp vp X) [.R] m := by
  simp only [Short, RBok, bh, col_node] at h ⊢
  obtain ⟨⟨hX, hb⟩, ⟨hwr', ⟨hla, hlb, hbl, hcl⟩, hbw, _⟩, hm, hc⟩ := h
  simp at hm hb hbw hcl ⊢
  repeat' apply And.intro
  all_goals first | assumption | omega | (intros; simp_all; done) | (simp_all; omega)

theorem Short_case4_R {cp : Colour} {X : Tree} {kp vp : Nat} {wl : Tree} {kw vw : Nat} {ra : Tree} {kr vr : Nat} {rb : Tree}
    {m : Nat} (h : Short (node cp (node black (node red rb kr vr ra) kw vw wl) kp vp X) [.R] m) (hx : X.col = black) :
    RBok (node cp (node black rb kr vr ra) kw vw (node black wl kp vp X)) ∧
    bh (node cp (node black rb kr vr ra) kw vw (node black wl kp vp X)) = m := by
  simp only [Short, RBok, bh, col_node] at h ⊢
  obtain ⟨⟨hX, hb⟩, ⟨⟨hra, hrb, hbr, _⟩, hwl, hbw, _⟩, hm, hc⟩ := h
  have hX' := RBok_of_blacken hX hx
  simp at hm hb hbw ⊢
  repeat' apply And.intro
  all_goals first | assumption | omega | (intros; simp_all; done) | (simp_all; omega)
end CC.Tree

namespace CC.Tree
open Colour Dir

/-- replacing a subtree by one that satisfies the rules, with the same black height and a root that is black or of
the old colour -/
theorem RBok_replaceAt_black (t : Tree) (q : Path) (s : Tree) (h : RBok t) (hs : RBok s)
    (hbh : bh s = bh (subtree t q)) (hc : s.col = black ∨ s.col = (subtree t q).col) :
    RBok (replaceAt t q s) ∧ bh (replaceAt t q s) = bh t ∧ (q ≠ [] → (replaceAt t q s).col = t.col) := by
  induction q generalizing t with
  | nil =>
    have e : subtree t [] = t := by cases t <;> rfl
    rw [e] at hbh
    exact ⟨by simpa [replaceAt] using hs, by simpa [replaceAt] using hbh, fun h => absurd rfl h⟩
  | cons d q ih =>
    cases t with
    | nil => exact ⟨h, rfl, fun _ => rfl⟩
    | node c l k v r =>
      obtain ⟨hl, hr, hb, hcc⟩ := h
      cases d with
      | L =>
        obtain ⟨i1, i2, i3⟩ := ih l hl (by simpa [subtree] using hbh) (by simpa [subtree] using hc)
        simp only [replaceAt]
        refine ⟨⟨i1, hr, by rw [i2]; exact hb, fun e => ⟨?_, (hcc e).2⟩⟩, by simp only [bh, i2], fun _ => rfl⟩
        cases q with
        | nil =>
          simp only [replaceAt]
          have es : subtree (node c l k v r) [.L] = l := by cases l <;> rfl
          rw [es] at hc
          rcases hc with e1 | e1
          · exact e1
          · rw [e1]; exact (hcc e).1
        | cons d' q' => rw [i3 (by simp)]; exact (hcc e).1
      | R =>
        obtain ⟨i1, i2, i3⟩ := ih r hr (by simpa [subtree] using hbh) (by simpa [subtree] using hc)
        simp only [replaceAt]
        refine ⟨⟨hl, i1, by rw [i2]; exact hb, fun e => ⟨(hcc e).1, ?_⟩⟩, by simp only [bh], fun _ => rfl⟩
        cases q with
        | nil =>
          simp only [replaceAt]
          have es : subtree (node c l k v r) [.R] = r := by cases r <;> rfl
          rw [es] at hc
          rcases hc with e1 | e1
          · exact e1
          · rw [e1]; exact (hcc e).2
        | cons d' q' => rw [i3 (by simp)]; exact (hcc e).2

/-- **the splice establishes the invariant** when a black node left: the tree with a subtree `s'` one black node
shorter than the old subtree at `q` (and satisfying the rules once its root is blackened) is `Short` there -/
theorem Short_establish (t : Tree) (q : Path) (s' : Tree) (h : RBok t) (hs : RBok s'.blacken)
    (hbh : bh s' + 1 = bh (subtree t q)) : Short (replaceAt t q s') q (bh t) := by
  induction q generalizing t with
  | nil =>
    have e : subtree t [] = t := by cases t <;> rfl
    rw [e] at hbh
    simpa [replaceAt, Short] using ⟨hs, hbh⟩
  | cons d q ih =>
    cases t with
    | nil => cases d <;> simp [subtree, bh] at hbh
    | node c l k v r =>
      obtain ⟨hl, hr, hb, hcc⟩ := h
      cases d with
      | L =>
        have := ih l hl (by simpa [subtree] using hbh)
        simp only [replaceAt, Short]
        refine ⟨by rw [← hb]; exact this, hr, by simp only [bh, hb], fun e => ⟨(hcc e).2, fun hq => ?_⟩⟩
        cases q with
        | nil => exact absurd rfl hq
        | cons d' q' => rw [col_replaceAt_cons]; exact (hcc e).1
      | R =>
        have := ih r hr (by simpa [subtree] using hbh)
        simp only [replaceAt, Short]
        refine ⟨by rw [hb]; exact this, hl, by simp only [bh], fun e => ⟨(hcc e).1, fun hq => ?_⟩⟩
        cases q with
        | nil => exact absurd rfl hq
        | cons d' q' => rw [col_replaceAt_cons]; exact (hcc e).2

/-- **the end of the loop**: `x->color = BLACK` at the short position repairs the tree when `x` is red or the root -/
theorem Short_finish (t : Tree) (q : Path) (n : Nat) (h : Short t q n)
    (hx : q = [] ∨ (subtree t q).col = red) :
    RBok (replaceAt t q (subtree t q).blacken) ∧ (q ≠ [] → bh (replaceAt t q (subtree t q).blacken) = n) := by
  induction q generalizing t n with
  | nil =>
    have e : subtree t [] = t := by cases t <;> rfl
    simp only [Short] at h
    exact ⟨by simpa [replaceAt, e] using h.1, fun hq => absurd rfl hq⟩
  | cons d q ih =>
    have hx' : (subtree t (d :: q)).col = red := hx.resolve_left (by simp)
    cases t with
    | nil => cases d <;> simp [Short] at h
    | node c l k v r =>
      cases d with
      | L =>
        simp only [Short] at h
        obtain ⟨h1, h2, h3, h4⟩ := h
        simp only [subtree] at hx' ⊢
        obtain ⟨i1, i2⟩ := ih l (bh r) h1 (Or.inr hx')
        simp only [replaceAt]
        have hbh : bh (replaceAt l q (subtree l q).blacken) = bh r := by
          cases q with
          | nil =>
            have e' : subtree l [] = l := by cases l <;> rfl
            rw [e'] at hx' ⊢
            simp only [replaceAt, Short] at h1 ⊢
            rw [bh_blacken_red hx']; exact h1.2
          | cons d' q' => exact i2 (by simp)
        refine ⟨⟨i1, h2, hbh, fun e => ⟨?_, (h4 e).1⟩⟩, fun _ => by simp only [bh, hbh]; exact h3.symm⟩
        cases q with
        | nil =>
          have e' : subtree l [] = l := by cases l <;> rfl
          simp only [replaceAt, e']
          cases l <;> rfl
        | cons d' q' => rw [col_replaceAt_cons]; exact (h4 e).2 (by simp)
      | R =>
        simp only [Short] at h
        obtain ⟨h1, h2, h3, h4⟩ := h
        simp only [subtree] at hx' ⊢
        obtain ⟨i1, i2⟩ := ih r (bh l) h1 (Or.inr hx')
        simp only [replaceAt]
        have hbh : bh (replaceAt r q (subtree r q).blacken) = bh l := by
          cases q with
          | nil =>
            have e' : subtree r [] = r := by cases r <;> rfl
            rw [e'] at hx' ⊢
            simp only [replaceAt, Short] at h1 ⊢
            rw [bh_blacken_red hx']; exact h1.2
          | cons d' q' => exact i2 (by simp)
        refine ⟨⟨h2, i1, hbh.symm, fun e => ⟨(h4 e).1, ?_⟩⟩, fun _ => by simp only [bh]; exact h3.symm⟩
        cases q with
        | nil =>
          have e' : subtree r [] = r := by cases r <;> rfl
          simp only [replaceAt, e']
          cases r <;> rfl
        | cons d' q' => rw [col_replaceAt_cons]; exact (h4 e).2 (by simp)
end CC.Tree

namespace CC.Tree
open Colour Dir

/-- grafting a short subtree: if the subtree `S'` put at `q` is `Short` at `q2` for the black height of the old
subtree (and keeps its root colour unless the deficit is at its root), the whole tree is `Short` at `q ++ q2` -/
theorem Short_graft (t : Tree) (q q2 : Path) (S' : Tree) (h : RBok t) (hne : subtree t q ≠ nil)
    (hS : Short S' q2 (bh (subtree t q))) (hc : q2 ≠ [] → S'.col = (subtree t q).col) :
    Short (replaceAt t q S') (q ++ q2) (bh t) := by
  induction q generalizing t with
  | nil =>
    have e : subtree t [] = t := by cases t <;> rfl
    rw [e] at hS
    simpa [replaceAt] using hS
  | cons d q ih =>
    cases t with
    | nil => simp [subtree] at hne
    | node c l k v r =>
      obtain ⟨hl, hr, hb, hcc⟩ := h
      cases d with
      | L =>
        simp only [subtree] at hne hS hc
        have := ih l hl hne hS hc
        simp only [replaceAt, List.cons_append, Short]
        refine ⟨by rw [← hb]; exact this, hr, by simp only [bh, hb], fun e => ⟨(hcc e).2, fun hq => ?_⟩⟩
        cases q with
        | nil =>
          have e' : subtree l [] = l := by cases l <;> rfl
          simp only [replaceAt]
          rw [hc (by simpa using hq), e']; exact (hcc e).1
        | cons d' q' => rw [col_replaceAt_cons]; exact (hcc e).1
      | R =>
        simp only [subtree] at hne hS hc
        have := ih r hr hne hS hc
        simp only [replaceAt, List.cons_append, Short]
        refine ⟨by rw [hb]; exact this, hl, by simp only [bh], fun e => ⟨(hcc e).1, fun hq => ?_⟩⟩
        cases q with
        | nil =>
          have e' : subtree r [] = r := by cases r <;> rfl
          simp only [replaceAt]
          rw [hc (by simpa using hq), e']; exact (hcc e).2
        | cons d' q' => rw [col_replaceAt_cons]; exact (hcc e).2

theorem RBok_subtree' (t : Tree) (q : Path) (h : RBok t) : RBok (subtree t q) := by
  induction q generalizing t with
  | nil => cases t <;> exact h
  | cons d q ih =>
    cases t with
    | nil => exact h
    | node c l k v r => cases d <;> simp only [subtree] <;> first | exact ih l h.1 | exact ih r h.2.1

/-! ### what the splice of `remove_node` leaves, per structural case (`c` the colour that left the tree) -/

/-- one child at most: the other child's subtree `s'` in the node's place -/
theorem splice_one_short (t : Tree) (q : Path) {c : Colour} {l : Tree} {k v : Nat} {r s' : Tree} (h : RBok t)
    (hs : subtree t q = node c l k v r) (hcase : (l = nil ∧ s' = r) ∨ (r = nil ∧ s' = l)) :
    (c = black → Short (replaceAt t q s') q (bh t)) ∧
    (c = red → RBok (replaceAt t q s') ∧ (q ≠ [] → (replaceAt t q s').col = t.col)) := by
  have hS := RBok_subtree' t q h
  rw [hs] at hS
  obtain ⟨hl, hr, hb, hcc⟩ := hS
  have hs'ok : RBok s' := by rcases hcase with ⟨_, e⟩ | ⟨_, e⟩ <;> subst e <;> assumption
  have hbs : bh s' = bh l := by
    rcases hcase with ⟨e1, e⟩ | ⟨e1, e⟩ <;> subst e <;> subst e1
    · exact hb.symm
    · rfl
  refine ⟨fun hc => ?_, fun hc => ?_⟩
  · subst hc
    exact Short_establish t q s' h hs'ok.blacken (by rw [hs]; simp only [bh]; simp [hbs])
  · subst hc
    have hcol : s'.col = black := by
      rcases hcase with ⟨_, e⟩ | ⟨_, e⟩ <;> subst e
      · exact (hcc rfl).2
      · exact (hcc rfl).1
    have := RBok_replaceAt_black t q s' h hs'ok (by rw [hs]; simp only [bh]; simp [hbs]) (Or.inl hcol)
    exact ⟨this.1, this.2.2⟩

/-- two children, the successor is the right child -/
theorem splice_child_short (t : Tree) (q : Path) {cz : Colour} {zl : Tree} {zk zv : Nat} {cy : Colour} {yk yv : Nat}
    {yr : Tree} (h : RBok t) (hs : subtree t q = node cz zl zk zv (node cy nil yk yv yr)) :
    (cy = black → Short (replaceAt t q (node cz zl yk yv yr)) (q ++ [.R]) (bh t)) ∧
    (cy = red → RBok (replaceAt t q (node cz zl yk yv yr)) ∧
      (q ≠ [] → (replaceAt t q (node cz zl yk yv yr)).col = t.col)) := by
  have hS := RBok_subtree' t q h
  rw [hs] at hS
  obtain ⟨hl, ⟨_, hyr, hby, hcy⟩, hb, hcc⟩ := hS
  refine ⟨fun hc => ?_, fun hc => ?_⟩
  · subst hc
    refine Short_graft t q [.R] _ h (by rw [hs]; simp) ?_ (fun _ => by rw [hs]; rfl)
    rw [hs]
    have hyb := hyr.blacken
    simp only [Short, bh] at hb hby ⊢
    simp at hb hby ⊢
    repeat' apply And.intro
    all_goals first | assumption | omega | (intro e; exact (hcc e).1) | (intros; simp_all)
  · subst hc
    have hyrb : yr.col = black := (hcy rfl).2
    have := RBok_replaceAt_black t q (node cz zl yk yv yr) h
      ⟨hl, hyr, by simp only [bh] at hb hby; simp at hb hby; omega, fun e => ⟨(hcc e).1, hyrb⟩⟩
      (by rw [hs]; simp only [bh]) (Or.inr (by rw [hs]; rfl))
    exact ⟨this.1, this.2.2⟩

/-- two children, the successor (the minimum of the right child's left subtree `rl`, at `mp`) lies deeper -/
theorem splice_deep_short (t : Tree) (q mp : Path) {cz : Colour} {zl : Tree} {zk zv : Nat} {crz : Colour} {rl : Tree}
    {rk rv : Nat} {rr : Tree} {cy : Colour} {yk yv : Nat} {yr : Tree} (h : RBok t)
    (hs : subtree t q = node cz zl zk zv (node crz rl rk rv rr)) (hy : subtree rl mp = node cy nil yk yv yr) :
    (cy = black → Short (replaceAt t q (node cz zl yk yv (node crz (replaceAt rl mp yr) rk rv rr)))
      (q ++ .R :: .L :: mp) (bh t)) ∧
    (cy = red → RBok (replaceAt t q (node cz zl yk yv (node crz (replaceAt rl mp yr) rk rv rr))) ∧
      (q ≠ [] → (replaceAt t q (node cz zl yk yv (node crz (replaceAt rl mp yr) rk rv rr))).col = t.col)) := by
  have hS := RBok_subtree' t q h
  rw [hs] at hS
  obtain ⟨hl, ⟨hrl, hrr, hbr, hcr⟩, hb, hcc⟩ := hS
  have hone := splice_one_short rl mp (s' := yr) hrl hy (Or.inl ⟨rfl, rfl⟩)
  refine ⟨fun hc => ?_, fun hc => ?_⟩
  · have k1 := hone.1 hc
    refine Short_graft t q (.R :: .L :: mp) _ h (by rw [hs]; simp) ?_ (fun _ => by rw [hs]; rfl)
    rw [hs]
    simp only [Short, bh] at hb ⊢
    refine ⟨⟨by rw [← hbr]; exact k1, hrr, by rw [hb]; simp only [bh, hbr], fun e => ⟨(hcr e).2, fun hq => ?_⟩⟩,
      hl, by simp only [bh], fun e => ⟨(hcc e).1, fun _ => (hcc e).2⟩⟩
    cases mp with
    | nil => exact absurd rfl hq
    | cons d' q' => rw [col_replaceAt_cons]; exact (hcr e).1
  · obtain ⟨k1, k2⟩ := hone.2 hc
    have hbh : bh (replaceAt rl mp yr) = bh rl := by
      have hyok := RBok_subtree' rl mp hrl
      rw [hy] at hyok
      have := RBok_replaceAt_black rl mp yr hrl hyok.2.1 (by rw [hy, hc]; have := hyok.2.2.1; simp [bh] at this ⊢; omega)
        (Or.inl (by have := hyok.2.2.2 hc; exact this.2))
      exact this.2.1
    have hcolrl : mp ≠ [] → (replaceAt rl mp yr).col = rl.col := k2
    have hrl'col : crz = red → (replaceAt rl mp yr).col = black := by
      intro e
      by_cases hmp : mp = []
      · subst hmp
        have e' : subtree rl [] = rl := by cases rl <;> rfl
        rw [e'] at hy
        simp only [replaceAt]
        have hyok : RBok (node cy nil yk yv yr) := by rw [← hy]; exact hrl
        exact (hyok.2.2.2 hc).2
      · rw [hcolrl hmp]; exact (hcr e).1
    have := RBok_replaceAt_black t q (node cz zl yk yv (node crz (replaceAt rl mp yr) rk rv rr)) h
      ⟨hl, ⟨k1, hrr, by rw [hbh]; exact hbr, fun e => ⟨hrl'col e, (hcr e).2⟩⟩,
        by simp only [bh] at hb ⊢; rw [hbh]; exact hb, fun e => ⟨(hcc e).1, (hcc e).2⟩⟩
      (by rw [hs]; simp only [bh]) (Or.inr (by rw [hs]; rfl))
    exact ⟨this.1, this.2.2⟩
end CC.Tree
