import CollectionsC.Proofs.PHashBase
import CollectionsC.Proofs.HashTable
/-! Pointer-level hash table: the shape invariant, the bucket-list reading of a well-shaped table, and
`get`, the insertion after the growth loop, and `remove` as pointer surgery that commutes with
`Model/HashTable.lean`. -/
namespace CC.PHash
open CC CC.HT

/-- shape of the heap with the ghost id lists `idss` (one per bucket slot): bucket `i` heads the
NULL-terminated chain `idss[i]`; no entry occurs twice (so chains are acyclic and pairwise disjoint);
the live entries are exactly the chained ones; every id was handed out by the allocation counter -/
structure Shape (t : PTable) (idss : List (List Nat)) : Prop where
  chains : Chains t.heap t.buckets idss
  nodup  : idss.flatten.Nodup
  live   : ∀ id, (t.heap.get id).isSome = true ↔ id ∈ idss.flatten
  bound  : ∀ id, id ∈ idss.flatten → id < t.fresh

namespace Shape
variable {t : PTable} {idss : List (List Nat)}

theorem len (hs : Shape t idss) : idss.length = t.buckets.length := hs.chains.length

theorem fuel_mem (hs : Shape t idss) : ∀ ids ∈ idss, ids.length ≤ t.fresh := by
  intro ids hm
  obtain ⟨i, hi, rfl⟩ := List.mem_iff_getElem.mp hm
  have hn := nodup_getD_of_nodup_flatten hs.nodup i
  rw [getD_eq_getElem idss i hi] at hn
  exact nodup_bound_length _ _ hn (fun x hx => hs.bound x (List.mem_flatten.mpr ⟨_, hm, hx⟩))

theorem fuel (hs : Shape t idss) (i : Nat) : (idss.getD i []).length ≤ t.fresh := by
  by_cases hi : i < idss.length
  · rw [getD_eq_getElem idss i hi]; exact hs.fuel_mem _ (List.getElem_mem hi)
  · rw [List.getD_eq_getElem?_getD, List.getElem?_eq_none (by omega)]; simp

theorem chainIds_bucket (hs : Shape t idss) (i : Nat) :
    chainIds t.heap t.fresh (t.bucket i) = (idss.getD i [], true) :=
  chainIds_eq (hs.chains.get i) t.fresh (hs.fuel i)

theorem toBuckets_eq (hs : Shape t idss) : t.toBuckets = idss.map (ents t.heap) := by
  unfold PTable.toBuckets
  have h1 := (hs.chains.map_chainIds t.fresh hs.fuel_mem).1
  rw [← h1, List.map_map]
  apply List.map_congr_left
  intro p _; rfl

theorem bucket_eq (hs : Shape t idss) (i : Nat) : (PTable.toTable t).bucket i = ents t.heap (idss.getD i []) := by
  unfold HashTable.bucket PTable.toTable
  simp only
  rw [hs.toBuckets_eq]
  simp only [List.getD_eq_getElem?_getD, List.getElem?_map]
  cases idss[i]? <;> rfl

theorem chainsOk (hs : Shape t idss) : t.chainsOk = true := by
  unfold PTable.chainsOk
  have h2 := (hs.chains.map_chainIds t.fresh hs.fuel_mem).2
  rw [List.all_eq_true] at h2 ⊢
  intro p hp
  exact h2 p (List.mem_of_mem_take hp)

theorem mem_live (hs : Shape t idss) (i : Nat) (x : Nat) (hx : x ∈ idss.getD i []) : (t.heap.get x).isSome = true :=
  (hs.live x).mpr (mem_flatten_of_getD idss x i hx)

end Shape

theorem toTable_len (t : PTable) : (PTable.toTable t).buckets.length = t.buckets.length := by
  simp [PTable.toTable, PTable.toBuckets]

/-- `cc_hashtable_get` on the heap is `get` of the bucket-list model -/
theorem get_comm (c : HCfg) {t : PTable} {idss : List (List Nat)} (hs : Shape t idss) (key : Option Nat) (m : Mem) :
    t.get c key m = (PTable.toTable t).get c key m := by
  have hc := hs.chains.get (t.index (keyHash c key))
  have hci := hs.chainIds_bucket (t.index (keyHash c key))
  have hf := findKey_eq hc key t.fresh (hs.fuel _)
  have hb := hs.bucket_eq (t.index (keyHash c key))
  have e1 : (PTable.toTable t).index (keyHash c key) = t.index (keyHash c key) := rfl
  unfold PTable.get HashTable.get
  simp only [e1, toTable_len, hci, hb, chainFind_ents, Mem.check_true]
  rw [show t.bucket (t.index (keyHash c key)) = t.buckets.getD (t.index (keyHash c key)) none from rfl, hf]
  cases List.find? (fun id => (nd t.heap id).key == key) (idss.getD (t.index (keyHash c key)) []) <;> rfl

theorem containsKey_comm (c : HCfg) {t : PTable} {idss : List (List Nat)} (hs : Shape t idss) (key : Option Nat) (m : Mem) :
    t.containsKey c key m = (PTable.toTable t).containsKey c key m := by
  unfold PTable.containsKey HashTable.containsKey
  rw [get_comm c hs]

/-! ### insertion -/

/-- `cc_hashtable_add` after the growth loop -/
def addTail (c : HCfg) (t : PTable) (key : Option Nat) (v : Nat) (m : Mem) : Stat × PTable × Mem :=
  let h := keyHash c key
  let i := t.index h
  let m := m.check (i < t.buckets.length)
  let m := m.check (chainIds t.heap t.fresh (t.bucket i)).2
  match findKey t.heap key t.fresh (t.bucket i) with
  | some id => (.ok, { t with heap := setValue t.heap id v }, m)
  | none =>
    let a := m.allocT t.triple
    if !a.1 then (.errAlloc, t, a.2) else
    (.ok, { t with heap := insert t.heap t.fresh { key := key, value := v, hash := h, next := t.bucket i },
                   buckets := t.buckets.set i (some t.fresh), fresh := t.fresh + 1, size := t.size + 1 }, a.2)

theorem add_eq (c : HCfg) (t : PTable) (key : Option Nat) (v : Nat) (m : Mem) :
    t.add c key v m = (if (t.growLoop c 64 m).1 ≠ .ok then t.growLoop c 64 m
      else addTail c (t.growLoop c 64 m).2.1 key v (t.growLoop c 64 m).2.2) := rfl

/-- the same part of the bucket-list model -/
def laddTail (c : HCfg) (t : HashTable) (key : Option Nat) (v : Nat) (m : Mem) : Stat × HashTable × Mem :=
  let h := keyHash c key
  let i := t.index h
  let m := m.check (i < t.buckets.length)
  match chainReplace (t.bucket i) key v with
  | some ch => (.ok, { t with buckets := t.buckets.set i ch }, m)
  | none =>
    let a := m.allocT t.triple
    if !a.1 then (.errAlloc, t, a.2) else
    (.ok, { t with buckets := t.buckets.set i ({ key := key, value := v, hash := h } :: t.bucket i),
                   size := t.size + 1 }, a.2)

theorem ladd_eq (c : HCfg) (t : HashTable) (key : Option Nat) (v : Nat) (m : Mem) :
    t.add c key v m = (if (t.growLoop c 64 m).1 ≠ .ok then t.growLoop c 64 m
      else laddTail c (t.growLoop c 64 m).2.1 key v (t.growLoop c 64 m).2.2) := rfl

/-- the table read off a well-shaped heap -/
theorem toTable_eq {t : PTable} {idss : List (List Nat)} (hs : Shape t idss) :
    PTable.toTable t = { capacity := t.capacity, size := t.size, threshold := t.threshold,
                         buckets := idss.map (ents t.heap), triple := t.triple } := by
  unfold PTable.toTable; rw [hs.toBuckets_eq]

/-- what the insertion does to the heap and how it reads in the bucket-list model -/
theorem addTail_spec (c : HCfg) {t : PTable} {idss : List (List Nat)} (hs : Shape t idss) (key : Option Nat)
    (v : Nat) (m : Mem) (hi : t.index (keyHash c key) < t.buckets.length) :
    ∃ idss', Shape (addTail c t key v m).2.1 idss' ∧
      ((addTail c t key v m).1, PTable.toTable (addTail c t key v m).2.1, (addTail c t key v m).2.2) =
        laddTail c (PTable.toTable t) key v m ∧
      (∀ id, id ≠ t.fresh → ((addTail c t key v m).2.1.heap.get id).isSome = (t.heap.get id).isSome) ∧
      t.fresh ≤ (addTail c t key v m).2.1.fresh ∧ (addTail c t key v m).2.1.fresh ≤ t.fresh + 1 := by
  have hc := hs.chains.get (t.index (keyHash c key))
  have hci := hs.chainIds_bucket (t.index (keyHash c key))
  have hf : findKey t.heap key t.fresh (t.bucket (t.index (keyHash c key))) = _ := findKey_eq hc key t.fresh (hs.fuel _)
  have hb := hs.bucket_eq (t.index (keyHash c key))
  have e1 : (PTable.toTable t).index (keyHash c key) = t.index (keyHash c key) := rfl
  have hnd := nodup_getD_of_nodup_flatten hs.nodup (t.index (keyHash c key))
  have hrep := chainReplace_ents t.heap _ key v hnd (hs.mem_live _)
  have hil : t.index (keyHash c key) < idss.length := by rw [hs.len]; exact hi
  have hdec : decide (t.index (keyHash c key) < t.buckets.length) = true := by simpa using hi
  cases hfind : List.find? (fun id => (nd t.heap id).key == key) (idss.getD (t.index (keyHash c key)) []) with
  | some id =>
    have hmem : id ∈ idss.getD (t.index (keyHash c key)) [] := List.mem_of_find?_eq_some hfind
    have hr : addTail c t key v m = (.ok, { t with heap := setValue t.heap id v }, m) := by
      unfold addTail
      simp only [hci, hf, hfind, hdec, Mem.check_true]
    have hl : laddTail c (PTable.toTable t) key v m =
        (.ok, { PTable.toTable t with buckets := ((PTable.toTable t).buckets.set (t.index (keyHash c key))
                  (ents (setValue t.heap id v) (idss.getD (t.index (keyHash c key)) []))) }, m) := by
      unfold laddTail
      simp only [e1, toTable_len, hb, hrep, hfind, hdec, Mem.check_true, Option.map_some]
    have hs' : Shape { t with heap := setValue t.heap id v } idss :=
      ⟨Chains.congr hs.chains (fun x _ => ⟨isSome_setValue _ _ _ _, next_setValue _ _ _ _⟩), hs.nodup,
       fun x => by rw [← hs.live x]; simp only; rw [isSome_setValue], hs.bound⟩
    refine ⟨idss, by rw [hr]; exact hs', ?_, ?_, ?_, ?_⟩
    · rw [hr, hl]
      simp only
      rw [toTable_eq hs', toTable_eq hs]
      simp only
      congr 2
      · congr 1
        apply map_set_congr
        intro j hj
        apply ents_congr
        intro x hx
        rw [nd_setValue_ne]
        rintro rfl
        exact disjoint_of_nodup_flatten hs.nodup j _ hj x hx hmem
    · intro x _; rw [hr]; exact isSome_setValue _ _ _ _
    · rw [hr]; exact Nat.le_refl _
    · rw [hr]; exact Nat.le_succ _
  | none =>
    have hrn : chainReplace (ents t.heap (idss.getD (t.index (keyHash c key)) [])) key v = none := by
      rw [hrep, hfind]; rfl
    cases ha : (m.allocT t.triple).1 with
    | false =>
      have hr : addTail c t key v m = (.errAlloc, t, (m.allocT t.triple).2) := by
        unfold addTail
        simp only [hci, hf, hfind, hdec, Mem.check_true, ha]
        rfl
      have hl : laddTail c (PTable.toTable t) key v m = (.errAlloc, PTable.toTable t, (m.allocT t.triple).2) := by
        unfold laddTail
        simp only [e1, toTable_len, hb, hrn, hdec, Mem.check_true]
        rw [show (PTable.toTable t).triple = t.triple from rfl, ha]
        rfl
      refine ⟨idss, by rw [hr]; exact hs, by rw [hr, hl], fun x _ => by rw [hr], by rw [hr]; exact Nat.le_refl _,
        by rw [hr]; exact Nat.le_succ _⟩
    | true =>
      have hr : addTail c t key v m = (.ok, { t with
          heap := insert t.heap t.fresh { key := key, value := v, hash := keyHash c key, next := t.bucket (t.index (keyHash c key)) },
          buckets := t.buckets.set (t.index (keyHash c key)) (some t.fresh), fresh := t.fresh + 1, size := t.size + 1 },
          (m.allocT t.triple).2) := by
        unfold addTail
        simp only [hci, hf, hfind, hdec, Mem.check_true, ha]
        rfl
      have hl : laddTail c (PTable.toTable t) key v m = (.ok, { PTable.toTable t with
          buckets := ((PTable.toTable t).buckets.set (t.index (keyHash c key))
            ({ key := key, value := v, hash := keyHash c key } :: ents t.heap (idss.getD (t.index (keyHash c key)) []))),
          size := t.size + 1 }, (m.allocT t.triple).2) := by
        unfold laddTail
        simp only [e1, toTable_len, hb, hrn, hdec, Mem.check_true]
        rw [show (PTable.toTable t).triple = t.triple from rfl, ha]
        rfl
      have hfresh : ∀ x, x ∈ idss.flatten → x ≠ t.fresh := fun x hx he => by
        have := hs.bound x hx; omega
      have hperm := perm_cons_set' idss (t.index (keyHash c key)) t.fresh hil
      have hs' : Shape { t with
          heap := insert t.heap t.fresh { key := key, value := v, hash := keyHash c key, next := t.bucket (t.index (keyHash c key)) },
          buckets := t.buckets.set (t.index (keyHash c key)) (some t.fresh), fresh := t.fresh + 1, size := t.size + 1 }
          (idss.set (t.index (keyHash c key)) (t.fresh :: idss.getD (t.index (keyHash c key)) [])) := by
        refine ⟨?_, ?_, ?_, ?_⟩
        · refine Chains.set_congr hs.chains _ hi _ _ ?_ ?_
          · refine ⟨rfl, by simp, ?_⟩
            rw [nd_insert_self]
            refine IsChain.congr hc (fun x hx => ?_)
            have hne := hfresh x (mem_flatten_of_getD idss x _ hx)
            simp only
            rw [get_insert, if_neg hne, nd_insert_ne _ _ _ _ hne]
            exact ⟨rfl, rfl⟩
          · intro j _ x hx
            have hne := hfresh x (mem_flatten_of_getD idss x _ hx)
            simp only
            rw [get_insert, if_neg hne, nd_insert_ne _ _ _ _ hne]
            exact ⟨rfl, rfl⟩
        · rw [hperm.nodup_iff, List.nodup_cons]
          exact ⟨fun hm => hfresh _ hm rfl, hs.nodup⟩
        · intro x
          rw [hperm.mem_iff, List.mem_cons, ← hs.live x]
          simp only [get_insert]
          by_cases hx : x = t.fresh
          · simp [hx]
          · simp [hx]
        · intro x hx
          rw [hperm.mem_iff, List.mem_cons] at hx
          simp only
          rcases hx with rfl | hx
          · omega
          · have := hs.bound x hx; omega
      refine ⟨_, by rw [hr]; exact hs', ?_, ?_, ?_, ?_⟩
      · rw [hr, hl]
        simp only
        rw [toTable_eq hs', toTable_eq hs]
        simp only
        congr 2
        · congr 1
          rw [List.map_set]
          congr 1
          · apply List.map_congr_left
            intro ids hids
            apply ents_congr
            intro x hx
            rw [nd_insert_ne _ _ _ _ (hfresh x (List.mem_flatten.mpr ⟨ids, hids, hx⟩))]
          · rw [ents_cons, nd_insert_self]
            congr 1
            apply ents_congr
            intro x hx
            rw [nd_insert_ne _ _ _ _ (hfresh x (mem_flatten_of_getD idss x _ hx))]
      · intro x hx; rw [hr]; simp only; rw [get_insert, if_neg hx]
      · rw [hr]; exact Nat.le_succ _
      · rw [hr]; exact Nat.le_refl _

/-! ### removal -/

theorem set_getD_self (l : List (Option Nat)) (i : Nat) : l.set i (l.getD i none) = l := by
  apply List.ext_getElem
  · simp
  · intro j h1 h2
    rw [List.getElem_set]
    split
    · next h => subst h; simp [List.getD_eq_getElem?_getD, List.getElem?_eq_getElem h2]
    · rfl

/-- unlinking entry `id` from chain `i`: the shape afterwards -/
theorem shape_unlink {t : PTable} {idss : List (List Nat)} (hs : Shape t idss) (i : Nat) (hi : i < t.buckets.length)
    (pre post : List Nat) (id : Nat) (hd : idss.getD i [] = pre ++ id :: post)
    (h' : Heap) (p' : Option Nat) (sz : Nat)
    (hnew : IsChain h' p' (pre ++ post))
    (hag : ∀ y, y ≠ id → y ∉ idss.getD i [] →
      (h'.get y).isSome = (t.heap.get y).isSome ∧ (nd h' y).next = (nd t.heap y).next)
    (hlive : ∀ y, (h'.get y).isSome = (decide (y ≠ id) && (t.heap.get y).isSome)) :
    Shape { t with buckets := t.buckets.set i p', heap := h', size := sz } (idss.set i (pre ++ post)) := by
  have hil : i < idss.length := by rw [hs.len]; exact hi
  have hperm := perm_set_remove idss i pre post id hil hd
  have hnd := (hperm.nodup_iff.mp hs.nodup)
  rw [List.nodup_cons] at hnd
  refine ⟨?_, hnd.2, ?_, ?_⟩
  · refine Chains.set_congr hs.chains i hi p' _ hnew ?_
    intro j hj y hy
    refine hag y ?_ ?_
    · rintro rfl
      exact disjoint_of_nodup_flatten hs.nodup j i hj _ hy (by rw [hd]; simp)
    · intro hy2
      exact disjoint_of_nodup_flatten hs.nodup j i hj _ hy hy2
  · intro y
    simp only
    rw [hlive y]
    have h1 := hs.live y
    have h2 := hperm.mem_iff (a := y)
    rw [List.mem_cons] at h2
    by_cases hy : y = id
    · subst hy
      simp only [ne_eq, not_true_eq_false, decide_false, Bool.false_and, Bool.false_eq_true, false_iff]
      exact hnd.1
    · simp only [ne_eq, hy, not_false_eq_true, decide_true, Bool.true_and]
      rw [h1, h2]
      simp [hy]
  · intro y hy
    exact hs.bound y ((hperm.mem_iff).mpr (List.mem_cons_of_mem _ hy))

/-- result of a removal: which entry went away, and the shape afterwards -/
structure Unlinked (t t' : PTable) (idss idss' : List (List Nat)) (key : Option Nat) (id : Nat) : Prop where
  shape : Shape t' idss'
  where_ : ∃ i pre post, i < idss.length ∧ idss.getD i [] = pre ++ id :: post ∧ idss' = idss.set i (pre ++ post)
  key_eq : (nd t.heap id).key = key
  was_live : (t.heap.get id).isSome = true
  /-- exactly the unlinked entry is released -/
  live : ∀ y, (t'.heap.get y).isSome = (decide (y ≠ id) && (t.heap.get y).isSome)
  /-- no other entry changes key, value or hash -/
  same : ∀ y, y ≠ id → toEntry (nd t'.heap y) = toEntry (nd t.heap y)
  fresh : t'.fresh = t.fresh

theorem remove_spec (c : HCfg) {t : PTable} {idss : List (List Nat)} (hs : Shape t idss) (key : Option Nat) (m : Mem)
    (hi : t.index (keyHash c key) < t.buckets.length) :
    ((t.remove c key m).1, (t.remove c key m).2.1, PTable.toTable (t.remove c key m).2.2.1, (t.remove c key m).2.2.2) =
        (PTable.toTable t).remove c key m ∧
    ((t.remove c key m).1 ≠ .ok → (t.remove c key m).2.2.1 = t ∧ (t.remove c key m).2.2.2 = m) ∧
    ((t.remove c key m).1 = .ok → (t.remove c key m).2.2.2 = m.freeT t.triple ∧
      ∃ idss' id, Unlinked t (t.remove c key m).2.2.1 idss idss' key id) := by
  have hc := hs.chains.get (t.index (keyHash c key))
  have hci := hs.chainIds_bucket (t.index (keyHash c key))
  have hb := hs.bucket_eq (t.index (keyHash c key))
  have e1 : (PTable.toTable t).index (keyHash c key) = t.index (keyHash c key) := rfl
  have hnd := nodup_getD_of_nodup_flatten hs.nodup (t.index (keyHash c key))
  have hil : t.index (keyHash c key) < idss.length := by rw [hs.len]; exact hi
  have hdec : decide (t.index (keyHash c key) < t.buckets.length) = true := by simpa using hi
  cases hfw : findWithPrev t.heap key t.fresh (t.bucket (t.index (keyHash c key))) none with
  | none =>
    have hne := findWithPrev_none hc key t.fresh (hs.fuel _) none hfw
    have hr : t.remove c key m = (.errKeyNotFound, none, t, m) := by
      unfold PTable.remove
      simp only [hci, hdec, Mem.check_true, hfw]
    have hl : (PTable.toTable t).remove c key m = (.errKeyNotFound, none, PTable.toTable t, m) := by
      unfold HashTable.remove
      simp only [e1, toTable_len, hb, chainRemove_ents_none _ _ _ hne, hdec, Mem.check_true]
    rw [hr, hl]
    exact ⟨rfl, fun _ => ⟨rfl, rfl⟩, fun h => by cases h⟩
  | some r =>
    obtain ⟨id, pv⟩ := r
    obtain ⟨pre, post, hd, hpre, hid, hpv⟩ := findWithPrev_some hc key t.fresh (hs.fuel _) none id pv hfw
    have hl : (PTable.toTable t).remove c key m = (.ok, some (nd t.heap id).value,
        { PTable.toTable t with buckets := ((PTable.toTable t).buckets.set (t.index (keyHash c key)) (ents t.heap (pre ++ post))),
                                size := decWrap t.size }, m.freeT t.triple) := by
      unfold HashTable.remove
      simp only [e1, toTable_len, hb, hd, chainRemove_ents_split _ _ _ _ _ hpre hid, hdec, Mem.check_true]
      rfl
    have hidlive : (t.heap.get id).isSome = true := hs.mem_live _ id (by rw [hd]; simp)
    rw [hd] at hnd hc
    -- the table after the pointer surgery, in both cases
    have main : ∀ (h' : Heap) (p' : Option Nat),
        IsChain h' p' (pre ++ post) →
        (∀ y, y ≠ id → y ∉ idss.getD (t.index (keyHash c key)) [] →
          (h'.get y).isSome = (t.heap.get y).isSome ∧ (nd h' y).next = (nd t.heap y).next) →
        (∀ y, (h'.get y).isSome = (decide (y ≠ id) && (t.heap.get y).isSome)) →
        (∀ y, y ≠ id → toEntry (nd h' y) = toEntry (nd t.heap y)) →
        t.remove c key m = (.ok, some (nd t.heap id).value,
          { t with buckets := t.buckets.set (t.index (keyHash c key)) p', heap := h', size := decWrap t.size },
          m.freeT t.triple) →
        ((t.remove c key m).1, (t.remove c key m).2.1, PTable.toTable (t.remove c key m).2.2.1, (t.remove c key m).2.2.2) =
            (PTable.toTable t).remove c key m ∧
        ((t.remove c key m).1 ≠ .ok → (t.remove c key m).2.2.1 = t ∧ (t.remove c key m).2.2.2 = m) ∧
        ((t.remove c key m).1 = .ok → (t.remove c key m).2.2.2 = m.freeT t.triple ∧
          ∃ idss' id, Unlinked t (t.remove c key m).2.2.1 idss idss' key id) := by
      intro h' p' hnew hag hlive hsame hr
      have hs' := shape_unlink hs _ hi pre post id hd h' p' (decWrap t.size) hnew hag hlive
      have hperm := perm_set_remove idss _ pre post id hil hd
      have hnd2 := (hperm.nodup_iff.mp hs.nodup)
      rw [List.nodup_cons] at hnd2
      rw [hr, hl]
      refine ⟨?_, fun h => absurd rfl h, fun _ => ⟨rfl, _, id, hs', ⟨_, pre, post, hil, hd, rfl⟩, hid, hidlive, hlive, hsame, rfl⟩⟩
      simp only
      rw [toTable_eq hs', toTable_eq hs]
      simp only
      congr 3
      · congr 1
        rw [← List.map_set]
        apply List.map_congr_left
        intro ids hids
        apply ents_congr
        intro y hy
        apply hsame
        rintro rfl
        exact hnd2.1 (List.mem_flatten.mpr ⟨ids, hids, hy⟩)
    rcases hpv with ⟨rfl, rfl⟩ | ⟨pre', x, rfl, rfl⟩
    · -- the head of the chain: `table->buckets[i] = next`
      obtain ⟨_, hnext⟩ := IsChain.next_eq (pre := []) hc
      have hidpost : id ∉ post := (List.nodup_cons.mp hnd).1
      refine main (erase t.heap id) (nd t.heap id).next ?_ ?_ ?_ ?_ ?_
      · refine IsChain.congr hnext (fun y hy => ?_)
        have hne : y ≠ id := by rintro rfl; exact hidpost hy
        rw [get_erase, if_neg hne, nd_erase_ne _ _ _ hne]
        exact ⟨rfl, rfl⟩
      · intro y hne _
        rw [get_erase, if_neg hne, nd_erase_ne _ _ _ hne]
        exact ⟨rfl, rfl⟩
      · intro y
        rw [get_erase]
        by_cases hy : y = id <;> simp [hy]
      · intro y hne; rw [nd_erase_ne _ _ _ hne]
      · unfold PTable.remove
        simp only [hci, hdec, Mem.check_true, hfw]
    · -- inside the chain: `prev->next = next`
      have hc2 : IsChain t.heap (t.buckets.getD (t.index (keyHash c key)) none) (pre' ++ x :: id :: post) := by
        simpa using hc
      have hnd3 : (pre' ++ x :: id :: post).Nodup := by simpa using hnd
      obtain ⟨r, hseg1, hseg2⟩ := (isSeg_append _ _ _ _ _).mp hc2
      obtain ⟨hr1, hxlive, hseg3⟩ := hseg2
      obtain ⟨_, _, hseg4⟩ := hseg3
      subst hr1
      obtain ⟨_, hnd4, hdisj⟩ := List.nodup_append.mp hnd3
      obtain ⟨hx1, hnd5⟩ := List.nodup_cons.mp hnd4
      obtain ⟨hid1, _⟩ := List.nodup_cons.mp hnd5
      have hxid : x ≠ id := fun h => hx1 (by simp [h])
      have hagree : ∀ y, y ≠ id → y ≠ x →
          ((erase (setNext t.heap x (nd t.heap id).next) id).get y).isSome = (t.heap.get y).isSome ∧
          (nd (erase (setNext t.heap x (nd t.heap id).next) id) y).next = (nd t.heap y).next := by
        intro y h1 h2
        rw [get_erase, if_neg h1, nd_erase_ne _ _ _ h1, isSome_setNext, nd_setNext_ne _ _ _ _ h2]
        exact ⟨rfl, rfl⟩
      have hrem : t.remove c key m = (.ok, some (nd t.heap id).value,
          { t with buckets := t.buckets.set (t.index (keyHash c key)) (t.buckets.getD (t.index (keyHash c key)) none),
                   heap := erase (setNext t.heap x (nd t.heap id).next) id, size := decWrap t.size },
          m.freeT t.triple) := by
        rw [set_getD_self]
        unfold PTable.remove
        simp only [hci, hdec, Mem.check_true, hfw]
      refine main _ _ ?_ ?_ ?_ ?_ hrem
      · have : pre' ++ [x] ++ post = pre' ++ x :: post := by simp
        rw [this]
        refine (isSeg_append _ _ _ _ _).mpr ⟨some x, IsSeg.congr hseg1 (fun y hy => ?_), rfl, ?_, ?_⟩
        · exact hagree y (hdisj y hy id (by simp)) (hdisj y hy x (by simp))
        · rw [get_erase, if_neg hxid, isSome_setNext]; exact hxlive
        · rw [nd_erase_ne _ _ _ hxid, nd_setNext_self _ _ _ hxlive]
          simp only
          refine IsSeg.congr hseg4 (fun y hy => ?_)
          refine hagree y ?_ ?_
          · rintro rfl; exact hid1 hy
          · rintro rfl; exact hx1 (by simp [hy])
      · intro y h1 h2
        refine hagree y h1 ?_
        rintro rfl
        exact h2 (by rw [hd]; simp)
      · intro y
        rw [get_erase]
        by_cases hy : y = id
        · simp [hy]
        · rw [if_neg hy, isSome_setNext]; simp [hy]
      · intro y hne
        rw [nd_erase_ne _ _ _ hne, toEntry_setNext]

end CC.PHash
