import CollectionsC.Proofs.MergeSort
/-! One history step of the doubly linked list model refines one step of the ideal pair of lists
(bundle used by `Properties/C04.lean`).  The two lists may sit on different allocator triples
`t1`, `t2`; every operation works through the triple of the list whose header the C code reads
(`list1->mem_calloc` …), so its ledger effect concerns the destination's triple only. -/
namespace CC
open CC Chain
open CC.Spec
open CC.Spec.LSeq (Op Out Params)

theorem Mem.allocT_nrefused (m : Mem) (t : Triple) :
    (m.allocT t).2.nrefused = m.nrefused + (if (m.allocT t).1 then 0 else 1) := by
  cases t
  · obtain ⟨sched, _, _, _, _, _, _, _, _, _⟩ := m
    cases sched with
    | nil => rfl
    | cons b r => cases b <;> rfl
  · rfl
theorem Mem.freeT_nrefused (m : Mem) (t : Triple) : (m.freeT t).nrefused = m.nrefused := by
  cases t
  · simp only [Mem.freeT_conf]; unfold Mem.free; split <;> rfl
  · simp only [Mem.freeT]; split <;> rfl
theorem Mem.freeN_sched (t : Triple) : ∀ (n : Nat) (m : Mem), (Mem.freeN t n m).sched = m.sched
  | 0, _ => rfl
  | k + 1, m => by simp only [Mem.freeN]; rw [Mem.freeN_sched t k, Mem.freeT_sched]
theorem Mem.freeN_nrefused (t : Triple) : ∀ (n : Nat) (m : Mem), (Mem.freeN t n m).nrefused = m.nrefused
  | 0, _ => rfl
  | k + 1, m => by simp only [Mem.freeN]; rw [Mem.freeN_nrefused t k, Mem.freeT_nrefused]
theorem Mem.allocChain_nil (t : Triple) : ∀ (k got : Nat) (m : Mem), m.sched = [] →
    (Mem.allocChain t k got m).1 = true ∧ (Mem.allocChain t k got m).2.sched = []
  | 0, _, m, h => ⟨rfl, h⟩
  | k + 1, got, m, h => by
    have := Mem.allocT_nil m t h
    simp only [Mem.allocChain, this.1, Bool.not_true, Bool.false_eq_true, if_false]
    exact Mem.allocChain_nil t k (got + 1) (m.allocT t).2 this.2
theorem Mem.allocChain_nrefused (t : Triple) : ∀ (k got : Nat) (m : Mem),
    (Mem.allocChain t k got m).2.nrefused = m.nrefused + (if (Mem.allocChain t k got m).1 then 0 else 1)
  | 0, _, m => by simp [Mem.allocChain]
  | k + 1, got, m => by
    have h := Mem.allocT_nrefused m t
    by_cases ha : (m.allocT t).1 = true
    · have ih := Mem.allocChain_nrefused t k (got + 1) (m.allocT t).2
      simp only [Mem.allocChain, ha, Bool.not_true, Bool.false_eq_true, if_false]
      rw [ih, h]; simp [ha]
    · simp only [Bool.not_eq_true] at ha
      simp only [Mem.allocChain, ha, Bool.not_false, if_true, Bool.false_eq_true, if_false, Mem.freeN_nrefused] at h ⊢
      exact h

/-- ledger effect of an operation that works through the triple `t`: no fault raised, the other
allocator's counters untouched, `liveT t` moved by `plus - minus`, `ref` refusals -/
structure Mem.Eff (t : Triple) (m m' : Mem) (plus minus : Nat) (ref : Nat := 0) : Prop where
  fault : m'.fault = m.fault
  live : m'.liveT t + minus = m.liveT t + plus
  frame : Mem.Frame t m m'
  sched : m.sched = [] → m'.sched = []
  nref : m'.nrefused = m.nrefused + ref

theorem Mem.Eff.rfl' (t : Triple) (m : Mem) : Mem.Eff t m m 0 0 := ⟨rfl, rfl, Mem.Frame.rfl' t m, id, rfl⟩
theorem Mem.eff_alloc_true (t : Triple) (m : Mem) (h : (m.allocT t).1 = true) : Mem.Eff t m (m.allocT t).2 1 0 := by
  have := Mem.allocT_fst_true m t h
  exact ⟨this.2, by omega, Mem.frame_allocT t m, fun hs => (Mem.allocT_nil m t hs).2, by rw [Mem.allocT_nrefused, h]; rfl⟩
theorem Mem.eff_alloc_false (t : Triple) (m : Mem) (h : (m.allocT t).1 = false) : Mem.Eff t m (m.allocT t).2 0 0 1 := by
  have := Mem.allocT_fst_false m t h
  exact ⟨this.2.1, by omega, Mem.frame_allocT t m, fun hs => (Mem.allocT_nil m t hs).2, by rw [Mem.allocT_nrefused, h]; rfl⟩
theorem Mem.eff_free (t : Triple) (m : Mem) (h : 0 < m.liveT t) : Mem.Eff t m (m.freeT t) 0 1 := by
  have := Mem.freeT_live m t h
  exact ⟨this.2, by omega, Mem.frame_freeT t m, fun hs => by rw [Mem.freeT_sched]; exact hs, Mem.freeT_nrefused m t⟩
theorem Mem.eff_freeN (t : Triple) (m : Mem) (n : Nat) (h : n ≤ m.liveT t) : Mem.Eff t m (Mem.freeN t n m) 0 n := by
  have := Mem.freeN_live t n m h
  exact ⟨this.2.1, by omega, this.2.2, fun hs => by rw [Mem.freeN_sched]; exact hs, Mem.freeN_nrefused t n m⟩
theorem Mem.eff_allocChain_true (t : Triple) (m : Mem) (k : Nat) (h : (m.allocChain t k 0).1 = true) :
    Mem.Eff t m (m.allocChain t k 0).2 k 0 := by
  have := Mem.allocChain_spec t k 0 m (Nat.zero_le _)
  exact ⟨this.2.2.1, by have := this.1 h; omega, this.2.2.2, fun hs => (Mem.allocChain_nil t k 0 m hs).2,
    by rw [Mem.allocChain_nrefused, h]; rfl⟩
theorem Mem.eff_allocChain_false (t : Triple) (m : Mem) (k : Nat) (h : (m.allocChain t k 0).1 = false) :
    Mem.Eff t m (m.allocChain t k 0).2 0 0 1 := by
  have := Mem.allocChain_spec t k 0 m (Nat.zero_le _)
  exact ⟨this.2.2.1, by have := this.2.1 h; omega, this.2.2.2, fun hs => (Mem.allocChain_nil t k 0 m hs).2,
    by rw [Mem.allocChain_nrefused, h]; rfl⟩
theorem Mem.Eff.trans {t : Triple} {m1 m2 m3 : Mem} {p1 q1 p2 q2 r1 r2 : Nat} (h1 : Mem.Eff t m1 m2 p1 q1 r1)
    (h2 : Mem.Eff t m2 m3 p2 q2 r2) : Mem.Eff t m1 m3 (p1 + p2) (q1 + q2) (r1 + r2) :=
  ⟨by rw [h2.fault, h1.fault], by have := h1.live; have := h2.live; omega, h1.frame.trans h2.frame,
   fun hs => h2.sched (h1.sched hs), by rw [h2.nref, h1.nref]; omega⟩

/-- node blocks held through the triple `t` by a pair of lists on the triples `t1`, `t2` -/
def ownedBy (t1 t2 : Triple) (a b : List Nat) (t : Triple) : Nat :=
  (if t1 = t then a.length else 0) + (if t2 = t then b.length else 0)

/-- what one step must satisfy with respect to the ideal step on `(a, b)`; `t1' t2'` are the triples
of the resulting pair (exchanged by `swapRoles`, otherwise unchanged) -/
structure StepOk (dbl : Bool) (P : Params) (t1 t2 : Triple) (a b : List Nat) (op : Op) (m : Mem)
    (r : Out × (Chain × Chain) × Mem) (a' b' : List Nat) (t1' t2' : Triple) : Prop where
  state : r.2.1 = (ofList t1' a', ofList t2' b')
  triples : (t1' = t1 ∧ t2' = t2) ∨ (t1' = t2 ∧ t2' = t1)
  keep : op ≠ .swapRoles → t1' = t1 ∧ t2' = t2
  atomic : r.1.st = some .errAlloc → a' = a ∧ b' = b ∧ t1' = t1 ∧ t2' = t2 ∧ r.1 = { st := some .errAlloc }
  refines : r.1.st ≠ some .errAlloc → (r.1, (a', b')) = LSeq.step dbl P (a, b) op
  fault : r.2.2.fault = m.fault
  frame : Mem.Frame t1 m r.2.2
  ledger : ∀ t, r.2.2.liveT t + ownedBy t1 t2 a b t = m.liveT t + ownedBy t1' t2' a' b' t
  nosched : m.sched = [] → r.2.2.sched = [] ∧ r.1.st ≠ some .errAlloc
  refused_iff : r.1.st = some .errAlloc ↔ m.nrefused < r.2.2.nrefused

/-- an operation that changes (at most) the destination list -/
theorem StepOk.of {dbl : Bool} {P : Params} {t1 t2 : Triple} {a b : List Nat} {op : Op} {m : Mem}
    {r : Out × (Chain × Chain) × Mem}
    (out : Out) (a' : List Nat) (m' : Mem) (p q : Nat)
    (hr : r = (out, (ofList t1 a', ofList t2 b), m'))
    (hat : out.st = some .errAlloc → a' = a ∧ out = { st := some .errAlloc })
    (href : out.st ≠ some .errAlloc → (out, (a', b)) = LSeq.step dbl P (a, b) op)
    {ref : Nat} (eff : Mem.Eff t1 m m' p q ref) (hcount : a.length + b.length + p = a'.length + b.length + q)
    (hna : m.sched = [] → out.st ≠ some .errAlloc)
    (hri : out.st = some .errAlloc ↔ 0 < ref := by simp) :
    StepOk dbl P t1 t2 a b op m r a' b t1 t2 := by
  subst hr
  refine ⟨rfl, Or.inl ⟨rfl, rfl⟩, fun _ => ⟨rfl, rfl⟩, fun h => ⟨(hat h).1, rfl, rfl, rfl, (hat h).2⟩, href, eff.fault, eff.frame, ?_,
    fun hs => ⟨eff.sched hs, hna hs⟩, by simp only []; rw [eff.nref, hri]; omega⟩
  intro t
  simp only [ownedBy]
  by_cases h1 : t1 = t
  · subst h1; have := eff.live; simp only [if_true]; omega
  · have := eff.frame.liveT (t' := t) (fun e => h1 e.symm); simp only [h1, if_false]; omega

/-- `splice`/`splice_at` between lists on the same triple: nodes change hands, the ledger does not move -/
theorem StepOk.ofMove {dbl : Bool} {P : Params} {t : Triple} {a b : List Nat} {op : Op} {m : Mem}
    {r : Out × (Chain × Chain) × Mem}
    (out : Out) (a' b' : List Nat)
    (hr : r = (out, (ofList t a', ofList t b'), m))
    (hne : out.st ≠ some .errAlloc)
    (href : (out, (a', b')) = LSeq.step dbl P (a, b) op)
    (hcount : a.length + b.length = a'.length + b'.length) :
    StepOk dbl P t t a b op m r a' b' t t := by
  subst hr
  refine ⟨rfl, Or.inl ⟨rfl, rfl⟩, fun _ => ⟨rfl, rfl⟩, fun h => absurd h hne, fun _ => href, rfl, Mem.Frame.rfl' t m, ?_,
    fun hs => ⟨hs, hne⟩, ⟨fun h => absurd h hne, fun h => absurd h (Nat.lt_irrefl _)⟩⟩
  intro t'
  simp only [ownedBy]
  by_cases h1 : t = t' <;> simp [h1] <;> omega


/-- the documented restriction on `splice`/`splice_at`: they move the nodes themselves, so both lists
must sit on the same allocator triple -/
def SpliceOk (t1 t2 : Triple) (op : Op) : Prop := (op = .splice ∨ ∃ i, op = .spliceAt i) → t1 = t2

theorem ownedBy_dest_le (t1 t2 : Triple) (a b : List Nat) : a.length ≤ ownedBy t1 t2 a b t1 := by
  simp [ownedBy]

namespace DList

theorem step_ok_aux (P : Params) (t1 t2 : Triple) (a b : List Nat) (m : Mem) (hlive : a.length ≤ m.liveT t1) : ∀ (op : Op),
    ((op = .splice ∨ ∃ i, op = .spliceAt i) → t1 = t2) →
    ∃ a' b' t1' t2', StepOk true P t1 t2 a b op m (step P (ofList t1 a, ofList t2 b) op m) a' b' t1' t2'
  | .addFirst x, _ => by
    by_cases ha : (m.allocT t1).1 = true
    · exact ⟨x :: a, b, t1, t2, StepOk.of { st := some .ok } _ (m.allocT t1).2 1 0 (by simp [step, addFirst_ofList, ha, LSeq.addFirst]) (by simp)
        (by intro _; simp [LSeq.step, LSeq.addFirst]) (Mem.eff_alloc_true t1 m ha) (by simp; omega) (by intro _; simp)⟩
    · have ha' : (m.allocT t1).1 = false := by simpa using ha
      exact ⟨a, b, t1, t2, StepOk.of { st := some .errAlloc } _ (m.allocT t1).2 0 0 (by simp [step, addFirst_ofList, ha']) (by simp)
        (by simp) (Mem.eff_alloc_false t1 m ha') rfl (by intro hs; simp_all [Mem.allocT_nil m t1 hs, Mem.allocChain_nil t1 _ 0 m hs])⟩
  | .addLast x, _ => by
    by_cases ha : (m.allocT t1).1 = true
    · exact ⟨a ++ [x], b, t1, t2, StepOk.of { st := some .ok } _ (m.allocT t1).2 1 0 (by simp [step, addLast_ofList, ha, LSeq.addLast]) (by simp)
        (by intro _; simp [LSeq.step, LSeq.addLast]) (Mem.eff_alloc_true t1 m ha) (by simp; omega) (by intro _; simp)⟩
    · have ha' : (m.allocT t1).1 = false := by simpa using ha
      exact ⟨a, b, t1, t2, StepOk.of { st := some .errAlloc } _ (m.allocT t1).2 0 0 (by simp [step, addLast_ofList, ha']) (by simp)
        (by simp) (Mem.eff_alloc_false t1 m ha') rfl (by intro hs; simp_all [Mem.allocT_nil m t1 hs, Mem.allocChain_nil t1 _ 0 m hs])⟩
  | .addAt x i, _ => by
    by_cases hi : i < a.length
    · by_cases ha : (m.allocT t1).1 = true
      · exact ⟨a.insertIdx i x, b, t1, t2, StepOk.of { st := some .ok } _ (m.allocT t1).2 1 0
          (by simp [step, addAt_ofList, ha, LSeq.addAt, hi]) (by simp)
          (by intro _; simp [LSeq.step, LSeq.addAt, hi]) (Mem.eff_alloc_true t1 m ha)
          (by simp [List.length_insertIdx, Nat.le_of_lt hi]; omega) (by intro _; simp)⟩
      · have ha' : (m.allocT t1).1 = false := by simpa using ha
        exact ⟨a, b, t1, t2, StepOk.of { st := some .errAlloc } _ (m.allocT t1).2 0 0
          (by simp [step, addAt_ofList, ha', LSeq.addAt, hi]) (by simp)
          (by simp) (Mem.eff_alloc_false t1 m ha') rfl (by intro hs; simp_all [Mem.allocT_nil m t1 hs, Mem.allocChain_nil t1 _ 0 m hs])⟩
    · exact ⟨a, b, t1, t2, StepOk.of { st := some .errOutOfRange } _ m 0 0 (by simp [step, addAt_ofList, LSeq.addAt, hi]) (by simp)
        (by intro _; simp [LSeq.step, LSeq.addAt, hi]) (Mem.Eff.rfl' t1 m) rfl (by intro _; simp)⟩
  | .addAll, _ => by
    by_cases hy : b = []
    · exact ⟨a, b, t1, t2, StepOk.of { st := some .ok } _ m 0 0 (by simp [step, addAll_ofList, hy]) (by simp)
        (by intro _; simp [LSeq.step, LSeq.addAll, hy]) (Mem.Eff.rfl' t1 m) rfl (by intro _; simp)⟩
    · by_cases ha : (m.allocChain t1 b.length 0).1 = true
      · exact ⟨a ++ b, b, t1, t2, StepOk.of { st := some .ok } _ (m.allocChain t1 b.length 0).2 b.length 0
          (by simp [step, addAll_ofList, hy, ha, LSeq.addAll]) (by simp)
          (by intro _; simp [LSeq.step, LSeq.addAll]) (Mem.eff_allocChain_true t1 m _ ha) (by simp) (by intro _; simp)⟩
      · have ha' : (m.allocChain t1 b.length 0).1 = false := by simpa using ha
        exact ⟨a, b, t1, t2, StepOk.of { st := some .errAlloc } _ (m.allocChain t1 b.length 0).2 0 0
          (by simp [step, addAll_ofList, hy, ha']) (by simp) (by simp) (Mem.eff_allocChain_false t1 m _ ha') rfl (by intro hs; simp_all [Mem.allocT_nil m t1 hs, Mem.allocChain_nil t1 _ 0 m hs])⟩
  | .addAllAt i, _ => by
    by_cases hy : b = []
    · exact ⟨a, b, t1, t2, StepOk.of { st := some .ok } _ m 0 0 (by simp [step, addAllAt_ofList, LSeq.addAllAt, hy]) (by simp)
        (by intro _; simp [LSeq.step, LSeq.addAllAt, hy]) (Mem.Eff.rfl' t1 m) rfl (by intro _; simp)⟩
    · by_cases hi : i ≤ a.length
      · by_cases ha : (m.allocChain t1 b.length 0).1 = true
        · exact ⟨a.take i ++ b ++ a.drop i, b, t1, t2, StepOk.of { st := some .ok } _ (m.allocChain t1 b.length 0).2 b.length 0
            (by simp [step, addAllAt_ofList, LSeq.addAllAt, hy, hi, ha]) (by simp)
            (by intro _; simp [LSeq.step, LSeq.addAllAt, hy, hi]) (Mem.eff_allocChain_true t1 m _ ha)
            (by simp [List.length_take, List.length_drop]; omega) (by intro _; simp)⟩
        · have ha' : (m.allocChain t1 b.length 0).1 = false := by simpa using ha
          exact ⟨a, b, t1, t2, StepOk.of { st := some .errAlloc } _ (m.allocChain t1 b.length 0).2 0 0
            (by simp [step, addAllAt_ofList, LSeq.addAllAt, hy, hi, ha']) (by simp) (by simp)
            (Mem.eff_allocChain_false t1 m _ ha') rfl (by intro hs; simp_all [Mem.allocT_nil m t1 hs, Mem.allocChain_nil t1 _ 0 m hs])⟩
      · exact ⟨a, b, t1, t2, StepOk.of { st := some .errOutOfRange } _ m 0 0
          (by simp [step, addAllAt_ofList, LSeq.addAllAt, hy, hi]) (by simp)
          (by intro _; simp [LSeq.step, LSeq.addAllAt, hy, hi]) (Mem.Eff.rfl' t1 m) rfl (by intro _; simp)⟩
  | .splice, hc => by
    by_cases hy : b = []
    · exact ⟨a, b, t1, t2, StepOk.of { st := some .ok } _ m 0 0 (by simp [step, splice_ofList, LSeq.splice, hy]) (by simp)
        (by intro _; simp [LSeq.step, LSeq.splice, hy]) (Mem.Eff.rfl' t1 m) rfl (by intro _; simp)⟩
    · have ht : t1 = t2 := hc (Or.inl rfl)
      subst ht
      exact ⟨a ++ b, [], t1, t1, StepOk.ofMove { st := some .ok } _ _ (by simp [step, splice_ofList, LSeq.splice, hy]) (by simp)
        (by simp [LSeq.step, LSeq.splice]) (by simp)⟩
  | .spliceAt i, hc => by
    by_cases hy : b = []
    · exact ⟨a, b, t1, t2, StepOk.of { st := some .ok } _ m 0 0 (by simp [step, spliceAt_ofList, LSeq.spliceAt, hy]) (by simp)
        (by intro _; simp [LSeq.step, LSeq.spliceAt, hy]) (Mem.Eff.rfl' t1 m) rfl (by intro _; simp)⟩
    · by_cases hi : i ≤ a.length
      · have ht : t1 = t2 := hc (Or.inr ⟨i, rfl⟩)
        subst ht
        exact ⟨a.take i ++ b ++ a.drop i, [], t1, t1, StepOk.ofMove { st := some .ok } _ _
          (by simp [step, spliceAt_ofList, LSeq.spliceAt, hy, hi]) (by simp)
          (by simp [LSeq.step, LSeq.spliceAt, hy, hi])
          (by simp [List.length_take, List.length_drop]; omega)⟩
      · exact ⟨a, b, t1, t2, StepOk.of { st := some .errOutOfRange } _ m 0 0
          (by simp [step, spliceAt_ofList, LSeq.spliceAt, hy, hi]) (by simp)
          (by intro _; simp [LSeq.step, LSeq.spliceAt, hy, hi]) (Mem.Eff.rfl' t1 m) rfl (by intro _; simp)⟩
  | .remove x, _ => by
    by_cases hx : x ∈ a
    · have hpos : 0 < a.length := List.length_pos_of_mem hx
      exact ⟨a.erase x, b, t1, t2, StepOk.of { st := some .ok, val := some x } _ (m.freeT t1) 0 1
        (by simp [step, remove_ofList, LSeq.remove, hx]) (by simp)
        (by intro _; simp [LSeq.step, LSeq.remove, hx]) (Mem.eff_free t1 m (by omega))
        (by rw [List.length_erase_of_mem hx]; omega) (by intro _; simp)⟩
    · exact ⟨a, b, t1, t2, StepOk.of { st := some .errValueNotFound } _ m 0 0
        (by simp [step, remove_ofList, LSeq.remove, hx]) (by simp)
        (by intro _; simp [LSeq.step, LSeq.remove, hx]) (Mem.Eff.rfl' t1 m) rfl (by intro _; simp)⟩
  | .removeAt i, _ => by
    by_cases hi : i < a.length
    · exact ⟨a.eraseIdx i, b, t1, t2, StepOk.of { st := some .ok, val := some (a.getD i 0) } _ (m.freeT t1) 0 1
        (by simp [step, removeAt_ofList, LSeq.removeAt, hi]) (by simp)
        (by intro _; simp [LSeq.step, LSeq.removeAt, hi]) (Mem.eff_free t1 m (by omega))
        (by rw [List.length_eraseIdx, if_pos hi]; omega) (by intro _; simp)⟩
    · exact ⟨a, b, t1, t2, StepOk.of { st := some .errOutOfRange } _ m 0 0
        (by simp [step, removeAt_ofList, LSeq.removeAt, hi]) (by simp)
        (by intro _; simp [LSeq.step, LSeq.removeAt, hi]) (Mem.Eff.rfl' t1 m) rfl (by intro _; simp)⟩
  | .removeFirst, _ => by
    cases a with
    | nil => exact ⟨[], b, t1, t2, StepOk.of { st := some .errValueNotFound } _ m 0 0
        (by simp [step, removeFirst_ofList, LSeq.removeFirst]) (by simp)
        (by intro _; simp [LSeq.step, LSeq.removeFirst]) (Mem.Eff.rfl' t1 m) rfl (by intro _; simp)⟩
    | cons y ys => exact ⟨ys, b, t1, t2, StepOk.of { st := some .ok, val := some y } _ (m.freeT t1) 0 1
        (by simp [step, removeFirst_ofList, LSeq.removeFirst]) (by simp)
        (by intro _; simp [LSeq.step, LSeq.removeFirst]) (Mem.eff_free t1 m (by simp at hlive; omega))
        (by simp; omega) (by intro _; simp)⟩
  | .removeLast, _ => by
    by_cases ha : a = []
    · subst ha
      exact ⟨[], b, t1, t2, StepOk.of { st := some .errValueNotFound } _ m 0 0
        (by simp [step, removeLast_ofList, LSeq.removeLast]) (by simp)
        (by intro _; simp [LSeq.step, LSeq.removeLast]) (Mem.Eff.rfl' t1 m) rfl (by intro _; simp)⟩
    · have hpos : 0 < a.length := List.length_pos_iff.2 ha
      exact ⟨a.dropLast, b, t1, t2, StepOk.of { st := some .ok, val := some (a.getLastD 0) } _ (m.freeT t1) 0 1
        (by simp [step, removeLast_ofList, LSeq.removeLast, ha]) (by simp)
        (by intro _; simp [LSeq.step, LSeq.removeLast, ha]) (Mem.eff_free t1 m (by omega))
        (by simp; omega) (by intro _; simp)⟩
  | .removeAll, _ => by
    by_cases ha : a = []
    · subst ha
      exact ⟨[], b, t1, t2, StepOk.of { st := some .errValueNotFound } _ m 0 0
        (by simp [step, removeAll_ofList, LSeq.removeAll, Mem.freeN]) (by simp)
        (by intro _; simp [LSeq.step, LSeq.removeAll]) (Mem.Eff.rfl' t1 m) rfl (by intro _; simp)⟩
    · exact ⟨[], b, t1, t2, StepOk.of { st := some .ok, vals := a } _ (Mem.freeN t1 a.length m) 0 a.length
        (by simp [step, removeAll_ofList, LSeq.removeAll, ha]) (by simp)
        (by intro _; simp [LSeq.step, LSeq.removeAll, ha]) (Mem.eff_freeN t1 m _ (by omega)) (by simp; omega) (by intro _; simp)⟩
  | .replaceAt x i, _ => by
    by_cases hi : i < a.length
    · exact ⟨a.set i x, b, t1, t2, StepOk.of { st := some .ok, val := some (a.getD i 0) } _ m 0 0
        (by simp [step, replaceAt_ofList, LSeq.replaceAt, hi]) (by simp)
        (by intro _; simp [LSeq.step, LSeq.replaceAt, hi]) (Mem.Eff.rfl' t1 m) (by simp) (by intro _; simp)⟩
    · exact ⟨a, b, t1, t2, StepOk.of { st := some .errOutOfRange } _ m 0 0
        (by simp [step, replaceAt_ofList, LSeq.replaceAt, hi]) (by simp)
        (by intro _; simp [LSeq.step, LSeq.replaceAt, hi]) (Mem.Eff.rfl' t1 m) rfl (by intro _; simp)⟩
  | .reverse, _ => ⟨a.reverse, b, t1, t2, StepOk.of {} _ m 0 0 (by simp [step, reverse_ofList]) (by simp)
        (by intro _; simp [LSeq.step]) (Mem.Eff.rfl' t1 m) (by simp) (by intro _; simp)⟩
  | .filterMut, _ => by
    have hle : (a.filter P.pred).length ≤ a.length := List.length_filter_le _ _
    by_cases ha : a = []
    · subst ha
      exact ⟨[], b, t1, t2, StepOk.of { st := some .errOutOfRange } _ m 0 0
        (by simp [step, filterMut_ofList, LSeq.filterMut, Mem.freeN]) (by simp)
        (by intro _; simp [LSeq.step, LSeq.filterMut]) (Mem.Eff.rfl' t1 m) rfl (by intro _; simp)⟩
    · exact ⟨a.filter P.pred, b, t1, t2, StepOk.of { st := some .ok } _ (Mem.freeN t1 (a.length - (a.filter P.pred).length) m) 0
          (a.length - (a.filter P.pred).length)
        (by simp [step, filterMut_ofList, LSeq.filterMut, ha]) (by simp)
        (by intro _; simp [LSeq.step, LSeq.filterMut, ha]) (Mem.eff_freeN t1 m _ (by omega)) (by omega) (by intro _; simp)⟩
  | .getFirst, _ => ⟨a, b, t1, t2, StepOk.of { st := some (LSeq.getFirst a).1, val := (LSeq.getFirst a).2 } _ m 0 0
        (by simp [step, getFirst_ofList]) (by cases a <;> simp [LSeq.getFirst])
        (by intro _; simp [LSeq.step]) (Mem.Eff.rfl' t1 m) rfl (by intro _; cases a <;> simp [LSeq.getFirst]) (by cases a <;> simp [LSeq.getFirst])⟩
  | .getLast, _ => ⟨a, b, t1, t2, StepOk.of { st := some (LSeq.getLast a).1, val := (LSeq.getLast a).2 } _ m 0 0
        (by simp [step, getLast_ofList]) (by by_cases h : a = [] <;> simp [LSeq.getLast, h])
        (by intro _; simp [LSeq.step]) (Mem.Eff.rfl' t1 m) rfl (by intro _; by_cases h : a = [] <;> simp [LSeq.getLast, h]) (by by_cases h : a = [] <;> simp [LSeq.getLast, h])⟩
  | .getAt i, _ => ⟨a, b, t1, t2, StepOk.of { st := some (LSeq.getAt a i).1, val := (LSeq.getAt a i).2 } _ m 0 0
        (by simp [step, getAt_ofList]) (by by_cases h : i < a.length <;> simp [LSeq.getAt, h])
        (by intro _; simp [LSeq.step]) (Mem.Eff.rfl' t1 m) rfl (by intro _; by_cases h : i < a.length <;> simp [LSeq.getAt, h]) (by by_cases h : i < a.length <;> simp [LSeq.getAt, h])⟩
  | .indexOf x, _ => ⟨a, b, t1, t2, StepOk.of { st := some (LSeq.indexOf P.cmp a x).1, val := (LSeq.indexOf P.cmp a x).2 } _ m 0 0
        (by simp [step, indexOf_ofList])
        (by simp only [LSeq.indexOf]; cases a.findIdx? fun y => P.cmp y x == 0 <;> simp)
        (by intro _; simp [LSeq.step]) (Mem.Eff.rfl' t1 m) rfl (by intro _; simp only [LSeq.indexOf]; cases a.findIdx? fun y => P.cmp y x == 0 <;> simp) (by simp only [LSeq.indexOf]; cases a.findIdx? fun y => P.cmp y x == 0 <;> simp)⟩
  | .contains x, _ => ⟨a, b, t1, t2, StepOk.of { val := some (LSeq.contains a x) } _ m 0 0
        (by simp [step, contains_ofList]) (by simp) (by intro _; simp [LSeq.step]) (Mem.Eff.rfl' t1 m) rfl (by intro _; simp)⟩
  | .containsValue x, _ => ⟨a, b, t1, t2, StepOk.of { val := some (LSeq.containsValue P.cmp a x) } _ m 0 0
        (by simp [step, containsValue_ofList]) (by simp) (by intro _; simp [LSeq.step]) (Mem.Eff.rfl' t1 m) rfl (by intro _; simp)⟩
  | .size, _ => ⟨a, b, t1, t2, StepOk.of { val := some a.length } _ m 0 0
        (by simp [step]) (by simp) (by intro _; simp [LSeq.step]) (Mem.Eff.rfl' t1 m) rfl (by intro _; simp)⟩
  | .toArray, _ => by
    by_cases ha : a = []
    · subst ha
      exact ⟨[], b, t1, t2, StepOk.of { st := some .errInvalidRange } _ m 0 0
        (by simp [step, toArray_ofList, LSeq.toArray]) (by simp)
        (by intro _; simp [LSeq.step, LSeq.toArray]) (Mem.Eff.rfl' t1 m) rfl (by intro _; simp)⟩
    · by_cases hal : (m.allocT t1).1 = true
      · have e1 := Mem.eff_alloc_true t1 m hal
        have e2 := Mem.eff_free t1 (m.allocT t1).2 (by have := e1.live; omega)
        exact ⟨a, b, t1, t2, StepOk.of { st := some .ok, vals := a } _ ((m.allocT t1).2.freeT t1) (1 + 0) (0 + 1)
          (by simp [step, toArray_ofList, LSeq.toArray, ha, hal]) (by simp)
          (by intro _; simp [LSeq.step, LSeq.toArray, ha]) (e1.trans e2) (by omega) (by intro _; simp)⟩
      · have hal' : (m.allocT t1).1 = false := by simpa using hal
        exact ⟨a, b, t1, t2, StepOk.of { st := some .errAlloc } _ (m.allocT t1).2 0 0
          (by simp [step, toArray_ofList, LSeq.toArray, ha, hal']) (by simp) (by simp)
          (Mem.eff_alloc_false t1 m hal') rfl (by intro hs; simp_all [Mem.allocT_nil m t1 hs, Mem.allocChain_nil t1 _ 0 m hs])⟩
  | .foreach, _ => ⟨a, b, t1, t2, StepOk.of { vals := a } _ m 0 0
        (by simp [step, foreach_ofList]) (by simp) (by intro _; simp [LSeq.step]) (Mem.Eff.rfl' t1 m) rfl (by intro _; simp)⟩
  | .swapRoles, _ => by
    refine ⟨b, a, t2, t1, ⟨by simp [step], Or.inr ⟨rfl, rfl⟩, fun h => absurd rfl h, by simp [step], by intro _; simp [step, LSeq.step], rfl,
      Mem.Frame.rfl' t1 m, ?_, fun hs => ⟨hs, by simp [step]⟩, by simp [step]⟩⟩
    intro t
    simp only [step, ownedBy]
    omega

theorem step_ok (P : Params) (t1 t2 : Triple) (a b : List Nat) (m : Mem) (hlive : ∀ t, ownedBy t1 t2 a b t ≤ m.liveT t)
    (op : Op) (hc : SpliceOk t1 t2 op) :
    ∃ a' b' t1' t2', StepOk true P t1 t2 a b op m (step P (ofList t1 a, ofList t2 b) op m) a' b' t1' t2' :=
  step_ok_aux P t1 t2 a b m (Nat.le_trans (ownedBy_dest_le t1 t2 a b) (hlive t1)) op hc
end DList
end CC
