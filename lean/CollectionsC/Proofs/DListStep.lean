import CollectionsC.Proofs.MergeSort
/-! One history step of the doubly linked list model refines one step of the ideal pair of lists
(bundle used by `Properties/C04.lean`). -/
namespace CC
open CC Chain
open CC.Spec
open CC.Spec.LSeq (Op Out Params)

/-- ledger effect of an operation: no fault raised, C-library ledger untouched, `live` moved by
`plus - minus` -/
structure Mem.Eff (m m' : Mem) (plus minus : Nat) (ref : Nat := 0) : Prop where
  fault : m'.fault = m.fault
  libc : m'.libc = m.libc
  live : m'.live + minus = m.live + plus
  sched : m.sched = [] → m'.sched = []
  nref : m'.nrefused = m.nrefused + ref

theorem Mem.alloc_nrefused (m : Mem) :
    m.alloc.2.nrefused = m.nrefused + (if m.alloc.1 then 0 else 1) := by
  unfold Mem.alloc; split <;> simp
theorem Mem.free_nrefused (m : Mem) : m.free.nrefused = m.nrefused := by unfold Mem.free; split <;> rfl
theorem Mem.freeN_nrefused : ∀ (n : Nat) (m : Mem), (Mem.freeN n m).nrefused = m.nrefused
  | 0, _ => rfl
  | k + 1, m => by simp only [Mem.freeN]; rw [Mem.freeN_nrefused k, Mem.free_nrefused]
theorem Mem.allocChain_nrefused : ∀ (k got : Nat) (m : Mem),
    (Mem.allocChain k got m).2.nrefused = m.nrefused + (if (Mem.allocChain k got m).1 then 0 else 1)
  | 0, _, m => by simp [Mem.allocChain]
  | k + 1, got, m => by
    have h := Mem.alloc_nrefused m
    by_cases ha : m.alloc.1 = true
    · have ih := Mem.allocChain_nrefused k (got + 1) m.alloc.2
      simp only [Mem.allocChain, ha, Bool.not_true, Bool.false_eq_true, if_false]
      rw [ih, h]; simp [ha]
    · simp only [Mem.allocChain, ha, Bool.not_false, if_true, Bool.false_eq_true, if_false] at h ⊢
      simp only [Bool.not_eq_true] at ha
      simp only [ha, Bool.not_false, if_true, Bool.false_eq_true, if_false, Mem.freeN_nrefused] at h ⊢
      exact h

theorem Mem.free_sched (m : Mem) : m.free.sched = m.sched := by unfold Mem.free; split <;> rfl
theorem Mem.freeN_sched : ∀ (n : Nat) (m : Mem), (Mem.freeN n m).sched = m.sched
  | 0, _ => rfl
  | k + 1, m => by simp only [Mem.freeN]; rw [Mem.freeN_sched k, Mem.free_sched]
theorem Mem.allocChain_nil : ∀ (k got : Nat) (m : Mem), m.sched = [] →
    (Mem.allocChain k got m).1 = true ∧ (Mem.allocChain k got m).2.sched = []
  | 0, _, m, h => ⟨rfl, h⟩
  | k + 1, got, m, h => by
    have := Mem.alloc_nil m h
    simp only [Mem.allocChain, this.1, Bool.not_true, Bool.false_eq_true, if_false]
    exact Mem.allocChain_nil k (got + 1) m.alloc.2 this.2

theorem Mem.Eff.rfl' (m : Mem) : Mem.Eff m m 0 0 := ⟨rfl, rfl, rfl, id, rfl⟩
theorem Mem.eff_alloc_true (m : Mem) (h : m.alloc.1 = true) : Mem.Eff m m.alloc.2 1 0 := by
  have := Mem.alloc_fst_true m h; exact ⟨this.2.1, this.2.2, by omega, fun hs => (Mem.alloc_nil m hs).2, by rw [Mem.alloc_nrefused, h]; rfl⟩
theorem Mem.eff_alloc_false (m : Mem) (h : m.alloc.1 = false) : Mem.Eff m m.alloc.2 0 0 1 := by
  have := Mem.alloc_fst_false m h; exact ⟨this.2.1, this.2.2, by omega, fun hs => (Mem.alloc_nil m hs).2, by rw [Mem.alloc_nrefused, h]; rfl⟩
theorem Mem.eff_free (m : Mem) (h : 0 < m.live) : Mem.Eff m m.free 0 1 := by
  have := Mem.free_live m h; exact ⟨this.2.1, this.2.2, by omega, fun hs => by rw [Mem.free_sched]; exact hs, Mem.free_nrefused m⟩
theorem Mem.eff_freeN (m : Mem) (n : Nat) (h : n ≤ m.live) : Mem.Eff m (Mem.freeN n m) 0 n := by
  have := Mem.freeN_live n m h; exact ⟨this.2.1, this.2.2, by omega, fun hs => by rw [Mem.freeN_sched]; exact hs, Mem.freeN_nrefused n m⟩
theorem Mem.eff_allocChain_true (m : Mem) (k : Nat) (h : (m.allocChain k 0).1 = true) : Mem.Eff m (m.allocChain k 0).2 k 0 := by
  have := Mem.allocChain_spec k 0 m (Nat.zero_le _); exact ⟨this.2.2.1, this.2.2.2, by have := this.1 h; omega, fun hs => (Mem.allocChain_nil k 0 m hs).2, by rw [Mem.allocChain_nrefused, h]; rfl⟩
theorem Mem.eff_allocChain_false (m : Mem) (k : Nat) (h : (m.allocChain k 0).1 = false) : Mem.Eff m (m.allocChain k 0).2 0 0 1 := by
  have := Mem.allocChain_spec k 0 m (Nat.zero_le _); exact ⟨this.2.2.1, this.2.2.2, by have := this.2.1 h; omega, fun hs => (Mem.allocChain_nil k 0 m hs).2, by rw [Mem.allocChain_nrefused, h]; rfl⟩
theorem Mem.Eff.trans {m1 m2 m3 : Mem} {p1 q1 p2 q2 r1 r2 : Nat} (h1 : Mem.Eff m1 m2 p1 q1 r1) (h2 : Mem.Eff m2 m3 p2 q2 r2) :
    Mem.Eff m1 m3 (p1 + p2) (q1 + q2) (r1 + r2) :=
  ⟨by rw [h2.fault, h1.fault], by rw [h2.libc, h1.libc], by have := h1.live; have := h2.live; omega,
   fun hs => h2.sched (h1.sched hs), by rw [h2.nref, h1.nref]; omega⟩

/-- what one step must satisfy with respect to the ideal step on `(a, b)` -/
structure StepOk (dbl : Bool) (P : Params) (a b : List Nat) (op : Op) (m : Mem)
    (r : Out × (Chain × Chain) × Mem) (a' b' : List Nat) : Prop where
  state : r.2.1 = (ofList a', ofList b')
  atomic : r.1.st = some .errAlloc → a' = a ∧ b' = b ∧ r.1 = { st := some .errAlloc }
  refines : r.1.st ≠ some .errAlloc → (r.1, (a', b')) = LSeq.step dbl P (a, b) op
  fault : r.2.2.fault = m.fault
  libc : r.2.2.libc = m.libc
  ledger : r.2.2.live + (a.length + b.length) = m.live + (a'.length + b'.length)
  nosched : m.sched = [] → r.2.2.sched = [] ∧ r.1.st ≠ some .errAlloc
  refused_iff : r.1.st = some .errAlloc ↔ m.nrefused < r.2.2.nrefused


theorem StepOk.of {dbl : Bool} {P : Params} {a b : List Nat} {op : Op} {m : Mem} {r : Out × (Chain × Chain) × Mem}
    (out : Out) (a' b' : List Nat) (m' : Mem) (p q : Nat)
    (hr : r = (out, (ofList a', ofList b'), m'))
    (hat : out.st = some .errAlloc → a' = a ∧ b' = b ∧ out = { st := some .errAlloc })
    (href : out.st ≠ some .errAlloc → (out, (a', b')) = LSeq.step dbl P (a, b) op)
    {ref : Nat} (eff : Mem.Eff m m' p q ref) (hcount : a.length + b.length + p = a'.length + b'.length + q)
    (hna : m.sched = [] → out.st ≠ some .errAlloc)
    (hri : out.st = some .errAlloc ↔ 0 < ref := by simp) :
    StepOk dbl P a b op m r a' b' := by
  subst hr
  exact ⟨rfl, hat, href, eff.fault, eff.libc, by have := eff.live; simp only []; omega, fun hs => ⟨eff.sched hs, hna hs⟩,
    by simp only []; rw [eff.nref, hri]; omega⟩

namespace DList

theorem step_ok (P : Params) (a b : List Nat) (m : Mem) (hlive : a.length + b.length ≤ m.live) : ∀ (op : Op),
    ∃ a' b', StepOk true P a b op m (step P (ofList a, ofList b) op m) a' b'
  | .addFirst x => by
    by_cases ha : m.alloc.1 = true
    · exact ⟨x :: a, b, StepOk.of { st := some .ok } _ _ m.alloc.2 1 0 (by simp [step, addFirst_ofList, ha, LSeq.addFirst]) (by simp)
        (by intro _; simp [LSeq.step, LSeq.addFirst]) (Mem.eff_alloc_true m ha) (by simp; omega) (by intro _; simp)⟩
    · have ha' : m.alloc.1 = false := by simpa using ha
      exact ⟨a, b, StepOk.of { st := some .errAlloc } _ _ m.alloc.2 0 0 (by simp [step, addFirst_ofList, ha']) (by simp)
        (by simp) (Mem.eff_alloc_false m ha') rfl (by intro hs; simp_all [Mem.alloc_nil m hs, Mem.allocChain_nil _ 0 m hs])⟩
  | .addLast x => by
    by_cases ha : m.alloc.1 = true
    · exact ⟨a ++ [x], b, StepOk.of { st := some .ok } _ _ m.alloc.2 1 0 (by simp [step, addLast_ofList, ha, LSeq.addLast]) (by simp)
        (by intro _; simp [LSeq.step, LSeq.addLast]) (Mem.eff_alloc_true m ha) (by simp; omega) (by intro _; simp)⟩
    · have ha' : m.alloc.1 = false := by simpa using ha
      exact ⟨a, b, StepOk.of { st := some .errAlloc } _ _ m.alloc.2 0 0 (by simp [step, addLast_ofList, ha']) (by simp)
        (by simp) (Mem.eff_alloc_false m ha') rfl (by intro hs; simp_all [Mem.alloc_nil m hs, Mem.allocChain_nil _ 0 m hs])⟩
  | .addAt x i => by
    by_cases hi : i < a.length
    · by_cases ha : m.alloc.1 = true
      · exact ⟨a.insertIdx i x, b, StepOk.of { st := some .ok } _ _ m.alloc.2 1 0
          (by simp [step, addAt_ofList, ha, LSeq.addAt, hi]) (by simp)
          (by intro _; simp [LSeq.step, LSeq.addAt, hi]) (Mem.eff_alloc_true m ha)
          (by simp [List.length_insertIdx, Nat.le_of_lt hi]; omega) (by intro _; simp)⟩
      · have ha' : m.alloc.1 = false := by simpa using ha
        exact ⟨a, b, StepOk.of { st := some .errAlloc } _ _ m.alloc.2 0 0
          (by simp [step, addAt_ofList, ha', LSeq.addAt, hi]) (by simp)
          (by simp) (Mem.eff_alloc_false m ha') rfl (by intro hs; simp_all [Mem.alloc_nil m hs, Mem.allocChain_nil _ 0 m hs])⟩
    · exact ⟨a, b, StepOk.of { st := some .errOutOfRange } _ _ m 0 0 (by simp [step, addAt_ofList, LSeq.addAt, hi]) (by simp)
        (by intro _; simp [LSeq.step, LSeq.addAt, hi]) (Mem.Eff.rfl' m) rfl (by intro _; simp)⟩
  | .addAll => by
    by_cases hy : b = []
    · exact ⟨a, b, StepOk.of { st := some .ok } _ _ m 0 0 (by simp [step, addAll_ofList, hy]) (by simp)
        (by intro _; simp [LSeq.step, LSeq.addAll, hy]) (Mem.Eff.rfl' m) rfl (by intro _; simp)⟩
    · by_cases ha : (m.allocChain b.length 0).1 = true
      · exact ⟨a ++ b, b, StepOk.of { st := some .ok } _ _ (m.allocChain b.length 0).2 b.length 0
          (by simp [step, addAll_ofList, hy, ha, LSeq.addAll]) (by simp)
          (by intro _; simp [LSeq.step, LSeq.addAll]) (Mem.eff_allocChain_true m _ ha) (by simp) (by intro _; simp)⟩
      · have ha' : (m.allocChain b.length 0).1 = false := by simpa using ha
        exact ⟨a, b, StepOk.of { st := some .errAlloc } _ _ (m.allocChain b.length 0).2 0 0
          (by simp [step, addAll_ofList, hy, ha']) (by simp) (by simp) (Mem.eff_allocChain_false m _ ha') rfl (by intro hs; simp_all [Mem.alloc_nil m hs, Mem.allocChain_nil _ 0 m hs])⟩
  | .addAllAt i => by
    by_cases hy : b = []
    · exact ⟨a, b, StepOk.of { st := some .ok } _ _ m 0 0 (by simp [step, addAllAt_ofList, LSeq.addAllAt, hy]) (by simp)
        (by intro _; simp [LSeq.step, LSeq.addAllAt, hy]) (Mem.Eff.rfl' m) rfl (by intro _; simp)⟩
    · by_cases hi : i ≤ a.length
      · by_cases ha : (m.allocChain b.length 0).1 = true
        · exact ⟨a.take i ++ b ++ a.drop i, b, StepOk.of { st := some .ok } _ _ (m.allocChain b.length 0).2 b.length 0
            (by simp [step, addAllAt_ofList, LSeq.addAllAt, hy, hi, ha]) (by simp)
            (by intro _; simp [LSeq.step, LSeq.addAllAt, hy, hi]) (Mem.eff_allocChain_true m _ ha)
            (by simp [List.length_take, List.length_drop]; omega) (by intro _; simp)⟩
        · have ha' : (m.allocChain b.length 0).1 = false := by simpa using ha
          exact ⟨a, b, StepOk.of { st := some .errAlloc } _ _ (m.allocChain b.length 0).2 0 0
            (by simp [step, addAllAt_ofList, LSeq.addAllAt, hy, hi, ha']) (by simp) (by simp)
            (Mem.eff_allocChain_false m _ ha') rfl (by intro hs; simp_all [Mem.alloc_nil m hs, Mem.allocChain_nil _ 0 m hs])⟩
      · exact ⟨a, b, StepOk.of { st := some .errOutOfRange } _ _ m 0 0
          (by simp [step, addAllAt_ofList, LSeq.addAllAt, hy, hi]) (by simp)
          (by intro _; simp [LSeq.step, LSeq.addAllAt, hy, hi]) (Mem.Eff.rfl' m) rfl (by intro _; simp)⟩
  | .splice => by
    by_cases hy : b = []
    · exact ⟨a, b, StepOk.of { st := some .ok } _ _ m 0 0 (by simp [step, splice_ofList, LSeq.splice, hy]) (by simp)
        (by intro _; simp [LSeq.step, LSeq.splice, hy]) (Mem.Eff.rfl' m) rfl (by intro _; simp)⟩
    · exact ⟨a ++ b, [], StepOk.of { st := some .ok } _ _ m 0 0 (by simp [step, splice_ofList, LSeq.splice, hy]) (by simp)
        (by intro _; simp [LSeq.step, LSeq.splice]) (Mem.Eff.rfl' m) (by simp) (by intro _; simp)⟩
  | .spliceAt i => by
    by_cases hy : b = []
    · exact ⟨a, b, StepOk.of { st := some .ok } _ _ m 0 0 (by simp [step, spliceAt_ofList, LSeq.spliceAt, hy]) (by simp)
        (by intro _; simp [LSeq.step, LSeq.spliceAt, hy]) (Mem.Eff.rfl' m) rfl (by intro _; simp)⟩
    · by_cases hi : i ≤ a.length
      · exact ⟨a.take i ++ b ++ a.drop i, [], StepOk.of { st := some .ok } _ _ m 0 0
          (by simp [step, spliceAt_ofList, LSeq.spliceAt, hy, hi]) (by simp)
          (by intro _; simp [LSeq.step, LSeq.spliceAt, hy, hi]) (Mem.Eff.rfl' m)
          (by simp [List.length_take, List.length_drop]; omega) (by intro _; simp)⟩
      · exact ⟨a, b, StepOk.of { st := some .errOutOfRange } _ _ m 0 0
          (by simp [step, spliceAt_ofList, LSeq.spliceAt, hy, hi]) (by simp)
          (by intro _; simp [LSeq.step, LSeq.spliceAt, hy, hi]) (Mem.Eff.rfl' m) rfl (by intro _; simp)⟩
  | .remove x => by
    by_cases hx : x ∈ a
    · have hpos : 0 < a.length := List.length_pos_of_mem hx
      exact ⟨a.erase x, b, StepOk.of { st := some .ok, val := some x } _ _ m.free 0 1
        (by simp [step, remove_ofList, LSeq.remove, hx]) (by simp)
        (by intro _; simp [LSeq.step, LSeq.remove, hx]) (Mem.eff_free m (by omega))
        (by rw [List.length_erase_of_mem hx]; omega) (by intro _; simp)⟩
    · exact ⟨a, b, StepOk.of { st := some .errValueNotFound } _ _ m 0 0
        (by simp [step, remove_ofList, LSeq.remove, hx]) (by simp)
        (by intro _; simp [LSeq.step, LSeq.remove, hx]) (Mem.Eff.rfl' m) rfl (by intro _; simp)⟩
  | .removeAt i => by
    by_cases hi : i < a.length
    · exact ⟨a.eraseIdx i, b, StepOk.of { st := some .ok, val := some (a.getD i 0) } _ _ m.free 0 1
        (by simp [step, removeAt_ofList, LSeq.removeAt, hi]) (by simp)
        (by intro _; simp [LSeq.step, LSeq.removeAt, hi]) (Mem.eff_free m (by omega))
        (by rw [List.length_eraseIdx, if_pos hi]; omega) (by intro _; simp)⟩
    · exact ⟨a, b, StepOk.of { st := some .errOutOfRange } _ _ m 0 0
        (by simp [step, removeAt_ofList, LSeq.removeAt, hi]) (by simp)
        (by intro _; simp [LSeq.step, LSeq.removeAt, hi]) (Mem.Eff.rfl' m) rfl (by intro _; simp)⟩
  | .removeFirst => by
    cases a with
    | nil => exact ⟨[], b, StepOk.of { st := some .errValueNotFound } _ _ m 0 0
        (by simp [step, removeFirst_ofList, LSeq.removeFirst]) (by simp)
        (by intro _; simp [LSeq.step, LSeq.removeFirst]) (Mem.Eff.rfl' m) rfl (by intro _; simp)⟩
    | cons y ys => exact ⟨ys, b, StepOk.of { st := some .ok, val := some y } _ _ m.free 0 1
        (by simp [step, removeFirst_ofList, LSeq.removeFirst]) (by simp)
        (by intro _; simp [LSeq.step, LSeq.removeFirst]) (Mem.eff_free m (by simp at hlive; omega))
        (by simp; omega) (by intro _; simp)⟩
  | .removeLast => by
    by_cases ha : a = []
    · subst ha
      exact ⟨[], b, StepOk.of { st := some .errValueNotFound } _ _ m 0 0
        (by simp [step, removeLast_ofList, LSeq.removeLast]) (by simp)
        (by intro _; simp [LSeq.step, LSeq.removeLast]) (Mem.Eff.rfl' m) rfl (by intro _; simp)⟩
    · have hpos : 0 < a.length := List.length_pos_iff.2 ha
      exact ⟨a.dropLast, b, StepOk.of { st := some .ok, val := some (a.getLastD 0) } _ _ m.free 0 1
        (by simp [step, removeLast_ofList, LSeq.removeLast, ha]) (by simp)
        (by intro _; simp [LSeq.step, LSeq.removeLast, ha]) (Mem.eff_free m (by omega))
        (by simp; omega) (by intro _; simp)⟩
  | .removeAll => by
    by_cases ha : a = []
    · subst ha
      exact ⟨[], b, StepOk.of { st := some .errValueNotFound } _ _ m 0 0
        (by simp [step, removeAll_ofList, LSeq.removeAll, Mem.freeN]) (by simp)
        (by intro _; simp [LSeq.step, LSeq.removeAll]) (Mem.Eff.rfl' m) rfl (by intro _; simp)⟩
    · exact ⟨[], b, StepOk.of { st := some .ok, vals := a } _ _ (Mem.freeN a.length m) 0 a.length
        (by simp [step, removeAll_ofList, LSeq.removeAll, ha]) (by simp)
        (by intro _; simp [LSeq.step, LSeq.removeAll, ha]) (Mem.eff_freeN m _ (by omega)) (by simp; omega) (by intro _; simp)⟩
  | .replaceAt x i => by
    by_cases hi : i < a.length
    · exact ⟨a.set i x, b, StepOk.of { st := some .ok, val := some (a.getD i 0) } _ _ m 0 0
        (by simp [step, replaceAt_ofList, LSeq.replaceAt, hi]) (by simp)
        (by intro _; simp [LSeq.step, LSeq.replaceAt, hi]) (Mem.Eff.rfl' m) (by simp) (by intro _; simp)⟩
    · exact ⟨a, b, StepOk.of { st := some .errOutOfRange } _ _ m 0 0
        (by simp [step, replaceAt_ofList, LSeq.replaceAt, hi]) (by simp)
        (by intro _; simp [LSeq.step, LSeq.replaceAt, hi]) (Mem.Eff.rfl' m) rfl (by intro _; simp)⟩
  | .reverse => ⟨a.reverse, b, StepOk.of {} _ _ m 0 0 (by simp [step, reverse_ofList]) (by simp)
        (by intro _; simp [LSeq.step]) (Mem.Eff.rfl' m) (by simp) (by intro _; simp)⟩
  | .filterMut => by
    have hle : (a.filter P.pred).length ≤ a.length := List.length_filter_le _ _
    by_cases ha : a = []
    · subst ha
      exact ⟨[], b, StepOk.of { st := some .errOutOfRange } _ _ m 0 0
        (by simp [step, filterMut_ofList, LSeq.filterMut, Mem.freeN]) (by simp)
        (by intro _; simp [LSeq.step, LSeq.filterMut]) (Mem.Eff.rfl' m) rfl (by intro _; simp)⟩
    · exact ⟨a.filter P.pred, b, StepOk.of { st := some .ok } _ _ (Mem.freeN (a.length - (a.filter P.pred).length) m) 0
          (a.length - (a.filter P.pred).length)
        (by simp [step, filterMut_ofList, LSeq.filterMut, ha]) (by simp)
        (by intro _; simp [LSeq.step, LSeq.filterMut, ha]) (Mem.eff_freeN m _ (by omega)) (by omega) (by intro _; simp)⟩
  | .getFirst => ⟨a, b, StepOk.of { st := some (LSeq.getFirst a).1, val := (LSeq.getFirst a).2 } _ _ m 0 0
        (by simp [step, getFirst_ofList]) (by cases a <;> simp [LSeq.getFirst])
        (by intro _; simp [LSeq.step]) (Mem.Eff.rfl' m) rfl (by intro _; cases a <;> simp [LSeq.getFirst]) (by cases a <;> simp [LSeq.getFirst])⟩
  | .getLast => ⟨a, b, StepOk.of { st := some (LSeq.getLast a).1, val := (LSeq.getLast a).2 } _ _ m 0 0
        (by simp [step, getLast_ofList]) (by by_cases h : a = [] <;> simp [LSeq.getLast, h])
        (by intro _; simp [LSeq.step]) (Mem.Eff.rfl' m) rfl (by intro _; by_cases h : a = [] <;> simp [LSeq.getLast, h]) (by by_cases h : a = [] <;> simp [LSeq.getLast, h])⟩
  | .getAt i => ⟨a, b, StepOk.of { st := some (LSeq.getAt a i).1, val := (LSeq.getAt a i).2 } _ _ m 0 0
        (by simp [step, getAt_ofList]) (by by_cases h : i < a.length <;> simp [LSeq.getAt, h])
        (by intro _; simp [LSeq.step]) (Mem.Eff.rfl' m) rfl (by intro _; by_cases h : i < a.length <;> simp [LSeq.getAt, h]) (by by_cases h : i < a.length <;> simp [LSeq.getAt, h])⟩
  | .indexOf x => ⟨a, b, StepOk.of { st := some (LSeq.indexOf P.cmp a x).1, val := (LSeq.indexOf P.cmp a x).2 } _ _ m 0 0
        (by simp [step, indexOf_ofList])
        (by simp only [LSeq.indexOf]; cases a.findIdx? fun y => P.cmp y x == 0 <;> simp)
        (by intro _; simp [LSeq.step]) (Mem.Eff.rfl' m) rfl (by intro _; simp only [LSeq.indexOf]; cases a.findIdx? fun y => P.cmp y x == 0 <;> simp) (by simp only [LSeq.indexOf]; cases a.findIdx? fun y => P.cmp y x == 0 <;> simp)⟩
  | .contains x => ⟨a, b, StepOk.of { val := some (LSeq.contains a x) } _ _ m 0 0
        (by simp [step, contains_ofList]) (by simp) (by intro _; simp [LSeq.step]) (Mem.Eff.rfl' m) rfl (by intro _; simp)⟩
  | .containsValue x => ⟨a, b, StepOk.of { val := some (LSeq.containsValue P.cmp a x) } _ _ m 0 0
        (by simp [step, containsValue_ofList]) (by simp) (by intro _; simp [LSeq.step]) (Mem.Eff.rfl' m) rfl (by intro _; simp)⟩
  | .size => ⟨a, b, StepOk.of { val := some a.length } _ _ m 0 0
        (by simp [step]) (by simp) (by intro _; simp [LSeq.step]) (Mem.Eff.rfl' m) rfl (by intro _; simp)⟩
  | .toArray => by
    by_cases ha : a = []
    · subst ha
      exact ⟨[], b, StepOk.of { st := some .errInvalidRange } _ _ m 0 0
        (by simp [step, toArray_ofList, LSeq.toArray]) (by simp)
        (by intro _; simp [LSeq.step, LSeq.toArray]) (Mem.Eff.rfl' m) rfl (by intro _; simp)⟩
    · by_cases hal : m.alloc.1 = true
      · have e1 := Mem.eff_alloc_true m hal
        have e2 := Mem.eff_free m.alloc.2 (by have := e1.live; omega)
        exact ⟨a, b, StepOk.of { st := some .ok, vals := a } _ _ m.alloc.2.free (1 + 0) (0 + 1)
          (by simp [step, toArray_ofList, LSeq.toArray, ha, hal]) (by simp)
          (by intro _; simp [LSeq.step, LSeq.toArray, ha]) (e1.trans e2) (by omega) (by intro _; simp)⟩
      · have hal' : m.alloc.1 = false := by simpa using hal
        exact ⟨a, b, StepOk.of { st := some .errAlloc } _ _ m.alloc.2 0 0
          (by simp [step, toArray_ofList, LSeq.toArray, ha, hal']) (by simp) (by simp)
          (Mem.eff_alloc_false m hal') rfl (by intro hs; simp_all [Mem.alloc_nil m hs, Mem.allocChain_nil _ 0 m hs])⟩
  | .foreach => ⟨a, b, StepOk.of { vals := a } _ _ m 0 0
        (by simp [step, foreach_ofList]) (by simp) (by intro _; simp [LSeq.step]) (Mem.Eff.rfl' m) rfl (by intro _; simp)⟩
  | .swapRoles => ⟨b, a, StepOk.of {} _ _ m 0 0
        (by simp [step]) (by simp) (by intro _; simp [LSeq.step]) (Mem.Eff.rfl' m) (by omega) (by intro _; simp)⟩
end DList
end CC
