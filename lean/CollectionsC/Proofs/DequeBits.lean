import CollectionsC.Base.Word
import CollectionsC.Model.Deque
/-! Bit-level facts behind the deque model:
* `upperPow2` (the 32-bit smear of `upper_pow_two`) returns the least power of two `≥ n`, capped at
  `MAX_POW_TWO = 2^31`;
* the model's `x % capacity` and `decMask x capacity` are the C expressions `x & (capacity - 1)` and
  `(x - 1) & (capacity - 1)` (with `size_t` wrap-around) whenever the capacity is a power of two. -/
namespace CC.Deque
open CC

/-! ## masks -/

/-- `x & (capacity - 1) = x % capacity` for `capacity = 2^k` (cites `Nat.and_two_pow_sub_one_eq_mod`) -/
theorem and_capMask_eq_mod (x k : Nat) : x &&& (2 ^ k - 1) = x % 2 ^ k := and_mask_eq_mod x k

/-- `(x - 1) & (capacity - 1)` computed in 64-bit unsigned arithmetic equals `decMask x capacity`
for `capacity = 2^k ≤ 2^64` and `x < 2^64` -/
theorem decMask_eq_wrap_and (x k : Nat) (hk : k ≤ 64) (hx : x < 2 ^ 64) :
    ((x + 2 ^ 64 - 1) % 2 ^ 64) &&& (2 ^ k - 1) = decMask x (2 ^ k) := by
  rw [and_mask_eq_mod]
  unfold decMask
  split
  · rename_i h0
    subst h0
    have h1 : (0 + 2 ^ 64 - 1) % 2 ^ 64 = 2 ^ 64 - 1 := by decide
    rw [h1]
    obtain ⟨e, he⟩ : ∃ e, 64 = k + e := ⟨64 - k, by omega⟩
    rw [he]
    have hpk : 0 < 2 ^ k := Nat.two_pow_pos k
    have hpe : 0 < 2 ^ e := Nat.two_pow_pos e
    have : 2 ^ (k + e) - 1 = 2 ^ k * (2 ^ e - 1) + (2 ^ k - 1) := by
      rw [Nat.pow_add, Nat.mul_sub_one]
      have : 2 ^ k ≤ 2 ^ k * 2 ^ e := Nat.le_mul_of_pos_right _ hpe
      omega
    rw [this, Nat.mul_add_mod]
    exact Nat.mod_eq_of_lt (by omega)
  · rename_i h0
    have : (x + 2 ^ 64 - 1) % 2 ^ 64 = x - 1 := by
      have : x + 2 ^ 64 - 1 = (x - 1) + 2 ^ 64 := by omega
      rw [this, Nat.add_mod_right, Nat.mod_eq_of_lt (by omega)]
    rw [this]

/-! ## the smear -/

/-- one smear step doubles the window of source bits that feed each result bit -/
theorem smear_step (n t k : Nat)
    (h : ∀ i, t.testBit i = true ↔ ∃ j, i ≤ j ∧ j < i + k ∧ n.testBit j = true) :
    ∀ i, (t ||| (t >>> k)).testBit i = true ↔ ∃ j, i ≤ j ∧ j < i + 2 * k ∧ n.testBit j = true := by
  intro i
  rw [Nat.testBit_or, Nat.testBit_shiftRight, Bool.or_eq_true, h i, h (k + i)]
  constructor
  · rintro (⟨j, h1, h2, h3⟩ | ⟨j, h1, h2, h3⟩)
    · exact ⟨j, h1, by omega, h3⟩
    · exact ⟨j, by omega, by omega, h3⟩
  · rintro ⟨j, h1, h2, h3⟩
    by_cases hj : j < i + k
    · exact Or.inl ⟨j, h1, hj, h3⟩
    · exact Or.inr ⟨j, by omega, by omega, h3⟩

/-- number of significant bits -/
def bits (m : Nat) : Nat := if m = 0 then 0 else m.log2 + 1

theorem two_pow_le_iff_lt_bits (m i : Nat) : 2 ^ i ≤ m ↔ i < bits m := by
  unfold bits
  split
  · rename_i h; subst h
    have := Nat.two_pow_pos i
    constructor <;> intro h <;> omega
  · rename_i h
    rw [← Nat.le_log2 h]; omega

theorem lt_two_pow_bits (m : Nat) : m < 2 ^ bits m := by
  rcases Nat.lt_or_ge m (2 ^ bits m) with h | h
  · exact h
  · have := (two_pow_le_iff_lt_bits m (bits m)).mp h; omega

/-- the five smear steps of `upper_pow_two` turn `m < 2^32` into `2^(bits m) - 1` -/
theorem smear_eq (m : Nat) (hm : m < 2 ^ 32) :
    (let n := m ||| (m >>> 1)
     let n := n ||| (n >>> 2)
     let n := n ||| (n >>> 4)
     let n := n ||| (n >>> 8)
     n ||| (n >>> 16)) = 2 ^ bits m - 1 := by
  have s0 : ∀ i, m.testBit i = true ↔ ∃ j, i ≤ j ∧ j < i + 1 ∧ m.testBit j = true := by
    intro i
    constructor
    · intro h; exact ⟨i, Nat.le_refl _, by omega, h⟩
    · rintro ⟨j, h1, h2, h3⟩
      have : j = i := by omega
      rw [← this]; exact h3
  have s1 := smear_step m _ 1 s0
  have s2 := smear_step m _ 2 s1
  have s4 := smear_step m _ 4 s2
  have s8 := smear_step m _ 8 s4
  have s16 := smear_step m _ 16 s8
  simp only
  apply Nat.eq_of_testBit_eq
  intro i
  rw [Nat.testBit_two_pow_sub_one]
  have key := s16 i
  by_cases hi : i < bits m
  · have h2 : 2 ^ i ≤ m := (two_pow_le_iff_lt_bits m i).mpr hi
    obtain ⟨j, hj1, hj2⟩ := Nat.exists_ge_and_testBit_of_ge_two_pow h2
    have hj32 : j < 32 := by
      have := Nat.ge_two_pow_of_testBit hj2
      rcases Nat.lt_or_ge j 32 with h | h
      · exact h
      · have := Nat.pow_le_pow_right (n := 2) (by decide) h; omega
    rw [key.mpr ⟨j, hj1, by omega, hj2⟩]; simp [hi]
  · have : ¬ (∃ j, i ≤ j ∧ j < i + 2 * 16 ∧ m.testBit j = true) := by
      rintro ⟨j, h1, _, h3⟩
      have h4 := Nat.ge_two_pow_of_testBit h3
      have h5 : 2 ^ i ≤ 2 ^ j := Nat.pow_le_pow_right (by decide) h1
      exact hi ((two_pow_le_iff_lt_bits m i).mp (by omega))
    have hf := (not_congr key).mpr this
    simp only [Bool.not_eq_true] at hf
    rw [hf]; simp [hi]

/-! ## `upper_pow_two` -/

/-- closed form of `upperPow2` -/
theorem upperPow2_eq (n : Nat) :
    upperPow2 n = if n ≥ Gen.MAX_POW_TWO then Gen.MAX_POW_TWO else 2 ^ bits (n - 1) := by
  unfold upperPow2
  split
  · rfl
  · rename_i h
    split
    · rename_i h0; subst h0; rfl
    · rename_i h0
      have hm : n - 1 < 2 ^ 32 := by
        have : Gen.MAX_POW_TWO = 2 ^ 31 := by decide
        have : (2:Nat) ^ 31 < 2 ^ 32 := by decide
        omega
      have := smear_eq (n - 1) hm
      simp only at this ⊢
      rw [this]
      have := Nat.two_pow_pos (bits (n - 1))
      omega

/-- **`upper_pow_two` returns a power of two** (so `capacity = 2^k` after construction and trimming) -/
theorem upperPow2_pow2 (n : Nat) : ∃ k, upperPow2 n = 2 ^ k ∧ k ≤ 31 := by
  rw [upperPow2_eq]
  split
  · exact ⟨31, by decide, Nat.le_refl _⟩
  · rename_i h
    refine ⟨bits (n - 1), rfl, ?_⟩
    rcases Nat.lt_or_ge 31 (bits (n - 1)) with h2 | h2
    · have h3 := (two_pow_le_iff_lt_bits (n - 1) 31).mpr h2
      have : Gen.MAX_POW_TWO = 2 ^ 31 := by decide
      omega
    · exact h2

theorem upperPow2_le_max (n : Nat) : upperPow2 n ≤ Gen.MAX_POW_TWO := by
  obtain ⟨k, h1, h2⟩ := upperPow2_pow2 n
  rw [h1]
  have : Gen.MAX_POW_TWO = 2 ^ 31 := by decide
  rw [this]; exact Nat.pow_le_pow_right (by decide) h2

/-- never below the argument (for arguments up to the capacity limit) -/
theorem upperPow2_ge (n : Nat) (h : n ≤ Gen.MAX_POW_TWO) : n ≤ upperPow2 n := by
  rw [upperPow2_eq]
  split
  · exact h
  · have := lt_two_pow_bits (n - 1); omega

/-- the *least* power of two that is `≥ n` -/
theorem upperPow2_least (n k : Nat) (h : n ≤ 2 ^ k) : upperPow2 n ≤ 2 ^ k := by
  rw [upperPow2_eq]
  split
  · omega
  · apply Nat.pow_le_pow_right (by decide)
    rcases Nat.lt_or_ge k (bits (n - 1)) with h2 | h2
    · have h3 := (two_pow_le_iff_lt_bits (n - 1) k).mpr h2
      have := Nat.two_pow_pos k
      omega
    · exact h2

theorem upperPow2_pos (n : Nat) : 0 < upperPow2 n := by
  obtain ⟨k, h1, _⟩ := upperPow2_pow2 n
  rw [h1]; exact Nat.two_pow_pos k

/-- the capacity conjuncts of `Inv` for a capacity produced by `upper_pow_two` -/
theorem upperPow2_inv (n : Nat) : upperPow2 n = 2 ^ (upperPow2 n).log2 ∧ upperPow2 n ≤ Gen.MAX_POW_TWO := by
  obtain ⟨k, h1, _⟩ := upperPow2_pow2 n
  refine ⟨?_, upperPow2_le_max n⟩
  rw [h1, Nat.log2_two_pow]

end CC.Deque
