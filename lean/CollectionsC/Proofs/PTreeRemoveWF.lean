import CollectionsC.Proofs.PTreeRemove
import CollectionsC.Proofs.PTreeDeleteMain
set_option linter.unusedSimpArgs false
set_option linter.unusedVariables false
namespace CC.PTree
open CC
open CC.Tree (Path Dir)

/-- the node above a position strictly below `g` is found inside the subtree at `g` -/
theorem parentAt_under (T : ITree) (p0 p1 : Nat) (g q2 : Path) (hq2 : q2 ≠ []) :
    parentAt T p0 (g ++ q2) = parentAt (T.subtree g) p1 q2 := by
  have : g ++ q2 ≠ [] := by simp [hq2]
  simp only [parentAt, this, hq2, if_false]
  rw [List.dropLast_append_of_ne_nil hq2, ITree.subtree_append]

/-- what the splice hands to `rebalance_after_delete` (or leaves, when a red node left) -/
structure SpliceOut (st : PT) (T : ITree) (z zk : Nat) (cmp : Nat → Nat → Int) (T' : ITree) (qx : Path) : Prop where
  holds : Holds (removeSplice st z).1 T'
  perm : (z :: T'.ids).Perm T.ids
  content : T'.erase.toList = Spec.OrdMap.erase T.erase.toList zk
  size : (removeSplice st z).1.size = st.size
  fresh : (removeSplice st z).1.fresh = st.fresh
  hx : (removeSplice st z).2.1 = (T'.subtree qx).rid
  par : qx ≠ [] → ((removeSplice st z).1.heap.get (removeSplice st z).2.1).parent = parentAt T' 0 qx
  short : (removeSplice st z).2.2 = .black → Tree.Short T'.erase qx (Tree.bh T.erase)
  red : (removeSplice st z).2.2 = .red → Tree.RB T'.erase
  root : qx = [] ∨ T'.col = .black

theorem removeSplice_out (cmp : Nat → Nat → Int) (hto : Spec.TotalOrder cmp) {st : PT} {T : ITree}
    (h : Represents st T) (hb : Tree.BST cmp T.erase) (hrb : Tree.RB T.erase) (q : Path) {z cz zl zk zv zr}
    (hs : T.subtree q = .node z cz zl zk zv zr) :
    ∃ T' qx, SpliceOut st T z zk cmp T' qx := by
  have hse : Tree.subtree T.erase q = .node cz zl.erase zk zv zr.erase := by rw [← ITree.erase_subtree, hs]; rfl
  have hne : T.subtree q ≠ .nil := by rw [hs]; simp
  have hTcol : T.col = .black := by rw [← ITree.erase_col]; exact hrb.2
  -- a red `z` is not the root
  have hq_red : cz = Colour.red → q ≠ [] := by
    intro e hq; subst hq; simp only [ITree.subtree_root] at hs; rw [hs] at hTcol; simp at hTcol; rw [hTcol] at e; cases e
  have rootcond : ∀ (s : ITree), q = [] ∨ (T.replace q s).col = .black := by
    intro s
    cases q with
    | nil => exact Or.inl rfl
    | cons d q' => right; rw [ITree.col_replace_cons]; exact hTcol
  have one : ∀ (s : ITree), ((zl = .nil ∧ s = zr) ∨ (zl ≠ .nil ∧ zr = .nil ∧ s = zl)) →
      ∃ T' qx, SpliceOut st T z zk cmp T' qx := by
    intro s hcase
    obtain ⟨a, b, c, d, e, f, g1, g2⟩ := splice_one_child cmp hto h.holds hb q hs s hcase
    have hfun := Tree.splice_one_short T.erase q (s' := s.erase) hrb.1 hse (by
      rcases hcase with ⟨e1, e2⟩ | ⟨_, e1, e2⟩
      · left; subst e1; subst e2; exact ⟨rfl, rfl⟩
      · right; subst e1; subst e2; exact ⟨rfl, rfl⟩)
    refine ⟨T.replace q s, q, by rw [a]; exact b, e, f, by rw [a]; exact g1, by rw [a]; exact g2,
      by rw [a]; simp only; rw [ITree.subtree_replace T q s hne],
      fun _ => by rw [a]; simp only; rw [c, ITree.parentAt_replace],
      fun hc => ?_, fun hc => ?_, rootcond s⟩
    · rw [a] at hc; rw [ITree.erase_replace]; exact hfun.1 hc
    · rw [a] at hc; rw [ITree.erase_replace]
      obtain ⟨k1, k2⟩ := hfun.2 hc
      exact ⟨k1, (k2 (hq_red hc)).trans hrb.2⟩
  by_cases hzl : zl = .nil
  · exact one zr (Or.inl ⟨hzl, rfl⟩)
  · by_cases hzr : zr = .nil
    · exact one zl (Or.inr ⟨hzl, hzr, rfl⟩)
    · cases zr with
      | nil => exact absurd rfl hzr
      | node rz crz rl rk rv rr =>
        cases hrl : rl with
        | nil =>
          subst hrl
          obtain ⟨a, b, c, d, e, f, g1, g2⟩ := splice_succ_child cmp hto h.holds hb q hs hzl
          have hfun := Tree.splice_child_short T.erase q hrb.1 hse
          refine ⟨T.replace q (.node rz cz zl rk rv rr), q ++ [.R], b, e, f, g1, g2, ?_, fun _ => ?_,
            fun hc => ?_, fun hc => ?_, Or.inr ?_⟩
          · rw [a]; rw [ITree.subtree_replace_under T q [.R] _ hne]; simp
          · rw [a]; simp only
            rw [c]; simp [parentAt, ITree.subtree_replace T q _ hne]
          · rw [a] at hc; rw [ITree.erase_replace]; exact hfun.1 hc
          · rw [a] at hc; rw [ITree.erase_replace]
            obtain ⟨k1, k2⟩ := hfun.2 hc
            refine ⟨k1, ?_⟩
            by_cases hq : q = []
            · subst hq; simp only [Tree.replaceAt]; simp only [ITree.subtree_root] at hs; rw [hs] at hTcol
              simpa [ITree.erase] using hTcol
            · exact (k2 hq).trans hrb.2
          · cases q with
            | nil => simp only [ITree.replace_root, ITree.subtree_root] at hs ⊢; rw [hs] at hTcol; simpa using hTcol
            | cons d q' => rw [ITree.col_replace_cons]; exact hTcol
        | node li lc ll lk lv lr =>
          have hrlne : rl ≠ .nil := by rw [hrl]; simp
          obtain ⟨y, cy, yk, yv, yr, hy⟩ := ITree.subtree_treeMinPath rl hrlne
          have hfuel : (ITree.node rz crz rl rk rv rr).height ≤ st.size + 2 := by
            have h1 := ITree.height_subtree_le T (q ++ [.R])
            rw [ITree.subtree_append, hs] at h1
            simp only [ITree.subtree_R, ITree.subtree_root] at h1
            have h2 := ITree.height_le_ids T
            rw [h.size]; omega
          obtain ⟨a, b, c, d, e, f, g1, g2⟩ := splice_succ_deep cmp hto h.holds hb q hs hzl _ rfl hy hfuel
          have hye : Tree.subtree rl.erase (Tree.treeMinPath rl.erase) = .node cy .nil yk yv yr.erase := by
            rw [← ITree.erase_subtree, hy]; rfl
          have hfun := Tree.splice_deep_short T.erase q (Tree.treeMinPath rl.erase) hrb.1 hse hye
          have hsubq : (T.replace q (.node y cz zl yk yv (.node rz crz (rl.replace (Tree.treeMinPath rl.erase) yr) rk rv rr))).subtree q =
              .node y cz zl yk yv (.node rz crz (rl.replace (Tree.treeMinPath rl.erase) yr) rk rv rr) :=
            ITree.subtree_replace T q _ hne
          have hyne : rl.subtree (Tree.treeMinPath rl.erase) ≠ .nil := by rw [hy]; simp
          refine ⟨_, q ++ .R :: .L :: Tree.treeMinPath rl.erase, b, e, f, g1, g2, ?_, fun _ => ?_,
            fun hc => ?_, fun hc => ?_, Or.inr ?_⟩
          · rw [a]; simp only
            rw [ITree.subtree_append, hsubq]
            simp only [ITree.subtree_R, ITree.subtree_L]
            rw [ITree.subtree_replace rl _ yr hyne]
          · rw [a]; simp only
            rw [c]
            have e1 : q ++ Dir.R :: Dir.L :: Tree.treeMinPath rl.erase = (q ++ [Dir.R]) ++ (Dir.L :: Tree.treeMinPath rl.erase) := by simp
            rw [e1, parentAt_under _ 0 rz (q ++ [Dir.R]) (Dir.L :: Tree.treeMinPath rl.erase) (List.cons_ne_nil _ _), ITree.subtree_append, hsubq]
            simp only [ITree.subtree_R, ITree.subtree_root]
            cases hmp : Tree.treeMinPath rl.erase with
            | nil => simp [parentAt]
            | cons d' mp' => rw [parentAt_L, ← hmp, ITree.parentAt_replace]
          · rw [a] at hc; rw [ITree.erase_replace]
            simp only [ITree.erase, ITree.erase_replace]
            exact hfun.1 hc
          · rw [a] at hc; rw [ITree.erase_replace]
            simp only [ITree.erase, ITree.erase_replace]
            obtain ⟨k1, k2⟩ := hfun.2 hc
            refine ⟨k1, ?_⟩
            by_cases hq : q = []
            · subst hq; simp only [Tree.replaceAt]; simp only [ITree.subtree_root] at hs; rw [hs] at hTcol
              simpa [ITree.erase] using hTcol
            · exact (k2 hq).trans hrb.2
          · cases q with
            | nil => simp only [ITree.replace_root, ITree.subtree_root] at hs ⊢; rw [hs] at hTcol; simpa using hTcol
            | cons d q' => rw [ITree.col_replace_cons]; exact hTcol
end CC.PTree

namespace CC.PTree
open CC
open CC.Tree (Path Dir)

theorem Short_length (T : ITree) : ∀ (q : Path) (n : Nat), Tree.Short T.erase q n → q.length ≤ T.height := by
  induction T with
  | nil =>
    intro q n h
    cases q with
    | nil => simp
    | cons d q' => simp [ITree.erase, Tree.Short] at h
  | node id c l k v r ihl ihr =>
    intro q n h
    cases q with
    | nil => simp
    | cons d q' =>
      cases d with
      | L =>
        simp only [ITree.erase, Tree.Short] at h
        have := ihl q' _ h.1
        simp only [ITree.height, List.length_cons]; omega
      | R =>
        simp only [ITree.erase, Tree.Short] at h
        have := ihr q' _ h.1
        simp only [ITree.height, List.length_cons]; omega

/-- **`remove_node` end to end** (every structural case, with or without the fix-up): from a heap that represents a
red-black search tree, removing the node `z` yields a heap that represents one — all child and parent pointers,
`root`, sentinel, `size` — made of exactly the other nodes, with `z`'s key erased from the in-order content -/
theorem removeNode_wf (cmp : Nat → Nat → Int) (hto : Spec.TotalOrder cmp) {st : PT} {T : ITree}
    (h : Represents st T) (hb : Tree.BST cmp T.erase) (hrb : Tree.RB T.erase) (q : Path) {z cz zl zk zv zr}
    (hs : T.subtree q = .node z cz zl zk zv zr) :
    ∃ T', Represents (removeNode st z) T' ∧ (z :: T'.ids).Perm T.ids ∧
      T'.erase.toList = Spec.OrdMap.erase T.erase.toList zk ∧ Tree.RB T'.erase := by
  obtain ⟨T1, qx, so⟩ := removeSplice_out cmp hto h hb hrb q hs
  rw [removeNode_eq]
  obtain ⟨o1, o2, o3, o4, o5, o6, o7, o8, o9, o10⟩ := so
  generalize removeSplice st z = R at o1 o4 o5 o6 o7 o8 o9
  have hzT1 : z ∉ T1.ids := (List.nodup_cons.1 ((List.Perm.nodup_iff o2).2 h.nodup)).1
  have hz0 : z ≠ 0 := h.rep.ids_ne z (o2.subset (by simp))
  have hlen : T1.ids.length + 1 = st.size := by
    have := o2.length_eq; simp only [List.length_cons] at this; rw [h.size]; exact this
  cases hc : R.2.2 with
  | red =>
    dsimp only
    simp only [hc, reduceCtorEq, if_false]
    exact ⟨T1, free_represents h o1 o2 o4 o5, o2, o3, o9 hc⟩
  | black =>
    dsimp only
    simp only [hc, if_true]
    -- the state with `size` already decremented represents `T1`
    have hrep1 : Represents { R.1 with size := R.1.size - 1 } T1 :=
      ⟨o1.root, o1.rep, o1.nodup, o1.black, o1.sent, by show R.1.size - 1 = _; rw [o4]; omega,
        fun i hi => by show i < R.1.fresh; rw [o5]; exact h.fresh i (o2.subset (by simp [hi])),
        by show 0 < R.1.fresh; rw [o5]; exact h.fresh_pos⟩
    have pre : DelPre { R.1 with size := R.1.size - 1 } T1 qx (Tree.bh T.erase) R.2.1 :=
      ⟨hrep1, o8 hc, o6, o7, o10⟩
    have hF : qx.length ≤ R.1.size + 2 := by
      have h1 := Short_length T1 qx _ (o8 hc)
      have h2 := ITree.height_le_ids T1
      rw [o4]; omega
    obtain ⟨T2, p1, p2, p3, p4⟩ := rebalanceAfterDelete_post pre (R.1.size + 2) hF
    have hsz := rebalDeleteLoop_size (R.1.size + 2) { R.1 with size := R.1.size - 1 } R.2.1 R.1.size
    have hR1 : ({ ({ R.1 with size := R.1.size - 1 } : PT) with size := R.1.size } : PT) = R.1 := rfl
    rw [hR1] at hsz
    unfold rebalanceAfterDelete
    dsimp only
    rw [hsz]
    dsimp only
    generalize rebalDeleteLoop (R.1.size + 2) { R.1 with size := R.1.size - 1 } R.2.1 = r at p1
    have hzT2 : z ∉ T2.ids := fun hm => hzT1 (p3.subset hm)
    refine ⟨T2, ?_, ?_, p2.trans o3, p4⟩
    · refine ⟨p1.root, p1.rep.frame (fun i hi => ?_), p1.nodup, ?_, ?_, ?_, p1.fresh, p1.fresh_pos⟩
      · show (Heap.del _ z).get i = _
        rw [Heap.get_del]; simp [show i ≠ z from fun e => hzT2 (e ▸ hi)]
      · show ((Heap.del _ z).get 0).color = _
        rw [Heap.get_del]; simp [Ne.symm hz0]; exact p1.black
      · show ((Heap.del _ z).get 0).key = 0 ∧ _
        rw [Heap.get_del]; simp [Ne.symm hz0]; exact p1.sent
      · show R.1.size - 1 = _
        rw [p3.length_eq, o4]; omega
    · rw [List.perm_iff_count] at o2 p3 ⊢
      intro a; have := o2 a; have := p3 a
      simp only [List.count_cons] at *; omega
end CC.PTree

namespace CC.PTree
open CC
open CC.Tree (Path Dir)

/-- **the lookup loop** (`get_tree_node_by_key`) follows `Tree.leafPath` -/
theorem findLoop_rep (cmp : Nat → Nat → Int) (k : Nat) {h : Heap} {T : ITree} {p : Nat} (hr : Rep h T p)
    (f : Nat) (hf : T.height ≤ f) :
    findLoop cmp h k f T.rid =
      match T.subtree (Tree.leafPath cmp k T.erase) with
      | .node x _ _ _ _ _ => some x
      | .nil => none := by
  induction T generalizing p f with
  | nil => cases f <;> simp [findLoop, Tree.leafPath, ITree.erase, S]
  | node id c l key val r ihl ihr =>
    obtain ⟨h1, h2, h3, h4⟩ := hr
    cases f with
    | zero => simp [ITree.height] at hf
    | succ f =>
      simp only [ITree.height] at hf
      simp only [ITree.rid_node, findLoop, S, h1, if_false, h2, ITree.erase, Tree.leafPath]
      by_cases hlt : cmp k key < 0
      · simp only [hlt, if_true, ITree.subtree_L]
        exact ihl h3 f (by omega)
      · by_cases hgt : 0 < cmp k key
        · simp only [hlt, hgt, if_true, if_false, ITree.subtree_R]
          exact ihr h4 f (by omega)
        · simp [hlt, hgt]

theorem findNode_rep (cmp : Nat → Nat → Int) {st : PT} {T : ITree} (h : Represents st T) (k : Nat) :
    findNode cmp st k =
      match T.subtree (Tree.leafPath cmp k T.erase) with
      | .node x _ _ _ _ _ => some x
      | .nil => none := by
  unfold findNode
  by_cases h0 : st.size = 0
  · have : T = .nil := by
      cases T with
      | nil => rfl
      | node _ _ _ _ _ _ => have := h.size; rw [h0] at this; simp at this
    subst this; simp [h0, Tree.leafPath, ITree.erase]
  · simp only [h0, if_false]
    rw [h.root]
    exact findLoop_rep cmp k h.rep _ (by have := ITree.height_le_ids T; rw [h.size]; omega)

/-- **`cc_treetable_remove` end to end**: present key — the node found is removed (`removeNode_wf`); absent key —
the state is unchanged -/
theorem remove_wf (cmp : Nat → Nat → Int) (hto : Spec.TotalOrder cmp) {st : PT} {T : ITree}
    (h : Represents st T) (hb : Tree.BST cmp T.erase) (hrb : Tree.RB T.erase) (k : Nat) :
    (T.subtree (Tree.leafPath cmp k T.erase) = .nil → remove cmp st k = st) ∧
    (∀ {z cz zl zk zv zr}, T.subtree (Tree.leafPath cmp k T.erase) = .node z cz zl zk zv zr →
      zk = k ∧ ∃ T', Represents (remove cmp st k) T' ∧ (z :: T'.ids).Perm T.ids ∧
        T'.erase.toList = Spec.OrdMap.erase T.erase.toList k ∧ Tree.RB T'.erase ∧ Tree.BST cmp T'.erase) := by
  refine ⟨fun hn => ?_, fun {z cz zl zk zv zr} hs => ?_⟩
  · unfold remove; rw [findNode_rep cmp h k, hn]
  · have hk : zk = k := by
      have hse : Tree.subtree T.erase (Tree.leafPath cmp k T.erase) = .node cz zl.erase zk zv zr.erase := by
        rw [← ITree.erase_subtree, hs]; rfl
      rcases Tree.leafPath_spec hto k T.erase with e | ⟨c', a', v', b', e⟩
      · rw [e] at hse; cases hse
      · rw [e] at hse; cases hse; rfl
    subst hk
    refine ⟨rfl, ?_⟩
    obtain ⟨T', a, b, c, d⟩ := removeNode_wf cmp hto h hb hrb _ hs
    have e : remove cmp st zk = removeNode st z := by
      unfold remove; rw [findNode_rep cmp h zk, hs]
    rw [e]
    refine ⟨T', a, b, c, d, ?_⟩
    show Spec.OrdMap.Sorted cmp _
    rw [c]; exact Spec.OrdMap.sorted_erase hb zk

/-- **`cc_treetable_remove_first`** on a non-empty table: the node `tree_min` arrives at is removed -/
theorem removeFirst_wf (cmp : Nat → Nat → Int) (hto : Spec.TotalOrder cmp) {st : PT} {T : ITree}
    (h : Represents st T) (hb : Tree.BST cmp T.erase) (hrb : Tree.RB T.erase) (hne : T ≠ .nil) :
    ∃ z cz zk zv zr, T.subtree (Tree.treeMinPath T.erase) = .node z cz .nil zk zv zr ∧
      ∃ T', Represents (removeFirst st) T' ∧ (z :: T'.ids).Perm T.ids ∧
        T'.erase.toList = Spec.OrdMap.erase T.erase.toList zk ∧ Tree.RB T'.erase := by
  obtain ⟨z, cz, zk, zv, zr, hs⟩ := ITree.subtree_treeMinPath T hne
  refine ⟨z, cz, zk, zv, zr, hs, ?_⟩
  have hsz : st.size ≠ 0 := by
    rw [h.size]
    cases T with
    | nil => exact absurd rfl hne
    | node _ _ _ _ _ _ => simp
  have hmin := (min_max_agree h).1
  rw [h.toTree, hs] at hmin
  unfold removeFirst
  simp only [hsz, if_false]
  rw [hmin]
  exact removeNode_wf cmp hto h hb hrb _ hs
end CC.PTree

namespace CC.PTree
open CC
open CC.Tree (Path Dir)

theorem ITree.subtree_treeMaxPath (t : ITree) (hne : t ≠ .nil) :
    ∃ y cy yl yk yv, t.subtree (Tree.treeMaxPath t.erase) = .node y cy yl yk yv .nil := by
  induction t with
  | nil => exact absurd rfl hne
  | node id c l k v r _ ihr =>
    cases r with
    | nil => exact ⟨id, c, l, k, v, by simp [ITree.erase, Tree.treeMaxPath]⟩
    | node ri rc rl rk rv rr =>
      obtain ⟨y, cy, yl, yk, yv, e⟩ := ihr (by simp)
      exact ⟨y, cy, yl, yk, yv, by simpa [ITree.erase, Tree.treeMaxPath] using e⟩

/-- **`cc_treetable_remove_last`** on a non-empty table -/
theorem removeLast_wf (cmp : Nat → Nat → Int) (hto : Spec.TotalOrder cmp) {st : PT} {T : ITree}
    (h : Represents st T) (hb : Tree.BST cmp T.erase) (hrb : Tree.RB T.erase) (hne : T ≠ .nil) :
    ∃ z cz zl zk zv, T.subtree (Tree.treeMaxPath T.erase) = .node z cz zl zk zv .nil ∧
      ∃ T', Represents (removeLast st) T' ∧ (z :: T'.ids).Perm T.ids ∧
        T'.erase.toList = Spec.OrdMap.erase T.erase.toList zk ∧ Tree.RB T'.erase := by
  obtain ⟨z, cz, zl, zk, zv, hs⟩ := ITree.subtree_treeMaxPath T hne
  refine ⟨z, cz, zl, zk, zv, hs, ?_⟩
  have hsz : st.size ≠ 0 := by
    rw [h.size]
    cases T with
    | nil => exact absurd rfl hne
    | node _ _ _ _ _ _ => simp
  have hmax := (min_max_agree h).2
  rw [h.toTree, hs] at hmax
  unfold removeLast
  simp only [hsz, if_false]
  rw [hmax]
  exact removeNode_wf cmp hto h hb hrb _ hs

/-- the calls of the table API that change the tree -/
inductive POp where
  | add (k v : Nat) (ok : Bool)
  | remove (k : Nat)
  | removeFirst
  | removeLast

def POp.run (cmp : Nat → Nat → Int) (st : PT) : POp → PT
  | .add k v ok => PTree.add cmp st k v ok
  | .remove k => PTree.remove cmp st k
  | .removeFirst => PTree.removeFirst st
  | .removeLast => PTree.removeLast st

/-- the invariant of the pointer-level table: the heap represents a red-black search tree -/
def Good (cmp : Nat → Nat → Int) (st : PT) : Prop :=
  ∃ T, Represents st T ∧ Tree.BST cmp T.erase ∧ Tree.RB T.erase

theorem Good.step (cmp : Nat → Nat → Int) (hto : Spec.TotalOrder cmp) {st : PT} (hg : Good cmp st) (op : POp) :
    Good cmp (op.run cmp st) := by
  obtain ⟨T, h, hb, hrb⟩ := hg
  have sorted_of : ∀ (T' : ITree) (k : Nat), T'.erase.toList = Spec.OrdMap.erase T.erase.toList k →
      Tree.BST cmp T'.erase := by
    intro T' k e; show Spec.OrdMap.Sorted cmp _; rw [e]; exact Spec.OrdMap.sorted_erase hb k
  cases op with
  | add k v ok =>
    cases ok with
    | true =>
      obtain ⟨T', r1, _, r3, r4⟩ := add_wf cmp hto h hb hrb k v
      exact ⟨T', r1, r4, r3⟩
    | false =>
      cases hs : T.subtree (Tree.leafPath cmp k T.erase) with
      | nil => simp only [POp.run]; rw [add_refused cmp h k v hs]; exact ⟨T, h, hb, hrb⟩
      | node x c a k0 v0 b =>
        obtain ⟨_, _, r1, _, r3, r4⟩ := add_existing_wf cmp hto h hb hrb k v false hs
        exact ⟨_, r1, r4, r3⟩
  | remove k =>
    obtain ⟨r1, r2⟩ := remove_wf cmp hto h hb hrb k
    cases hs : T.subtree (Tree.leafPath cmp k T.erase) with
    | nil => simp only [POp.run]; rw [r1 hs]; exact ⟨T, h, hb, hrb⟩
    | node x c a k0 v0 b =>
      obtain ⟨_, T', a1, _, _, a4, a5⟩ := r2 hs
      exact ⟨T', a1, a5, a4⟩
  | removeFirst =>
    by_cases hT : T = .nil
    · subst hT
      have : st.size = 0 := by simpa using h.size
      simp only [POp.run, PTree.removeFirst, this, if_true]; exact ⟨.nil, h, hb, hrb⟩
    · obtain ⟨z, cz, zk, zv, zr, _, T', a1, _, a3, a4⟩ := removeFirst_wf cmp hto h hb hrb hT
      exact ⟨T', a1, sorted_of T' zk a3, a4⟩
  | removeLast =>
    by_cases hT : T = .nil
    · subst hT
      have : st.size = 0 := by simpa using h.size
      simp only [POp.run, PTree.removeLast, this, if_true]; exact ⟨.nil, h, hb, hrb⟩
    · obtain ⟨z, cz, zl, zk, zv, _, T', a1, _, a3, a4⟩ := removeLast_wf cmp hto h hb hrb hT
      exact ⟨T', a1, sorted_of T' zk a3, a4⟩

/-- **every reachable state is good**: from the constructor, any sequence of `add` (granted or refused), `remove`,
`remove_first`, `remove_last` leaves a heap that represents a red-black search tree -/
theorem Good.run (cmp : Nat → Nat → Int) (hto : Spec.TotalOrder cmp) (ops : List POp) :
    Good cmp (ops.foldl (POp.run cmp) PTree.new) := by
  suffices H : ∀ (ops : List POp) (st : PT), Good cmp st → Good cmp (ops.foldl (POp.run cmp) st) from
    H ops _ ⟨.nil, new_represents, by simp [ITree.erase, Tree.BST, Tree.toList, Spec.OrdMap.Sorted],
      by simp [ITree.erase, Tree.RB, Tree.RBok, Tree.col]⟩
  intro ops
  induction ops with
  | nil => intro st h; exact h
  | cons o ops ih => intro st h; exact ih _ (h.step cmp hto o)
end CC.PTree
