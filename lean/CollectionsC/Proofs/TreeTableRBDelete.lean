import CollectionsC.Proofs.TreeTableRBInsert
/-! Red-black invariant, part 2: `remove_node` + `rebalance_after_delete` preserve `RB`
(CLRS cases 1–4 and their mirror images, the two-child rule, removal of the first/last entry). -/
namespace CC.Tree
open Colour
variable {cmp : Nat → Nat → Int}

/-- number of black nodes a deletion result is short of -/
def deficit (d : Bool) : Nat := if d then 1 else 0

/-- what a deletion step guarantees for the subtree `t` it was applied to: the result satisfies
the rules, stays black if `t` was black, and its black height plus the reported deficit is `t`'s -/
def DelPost (t : Tree) (r : Tree × Bool) : Prop :=
  RBok r.1 ∧ (t.col = black → r.1.col = black) ∧ bh r.1 + deficit r.2 = bh t

theorem fixDelLeftB_rb (c : Colour) (x : Tree) (k v : Nat) (w : Tree)
    (hx : RBok x) (hw : RBok w) (hb : bh x + 1 = bh w) (hwc : w.col = black) :
    RBok (fixDelLeftB (node c x k v w)).1 ∧ (c = black → (fixDelLeftB (node c x k v w)).1.col = black) ∧
    bh (fixDelLeftB (node c x k v w)).1 + deficit (fixDelLeftB (node c x k v w)).2 = bh w + (if c = black then 1 else 0) ∧
    (c = red → (fixDelLeftB (node c x k v w)).2 = false) := by
  rcases w with _ | ⟨_ | _, wl, wk, wv, wr⟩
  · simp [bh] at hb
  · simp at hwc
  · rcases wl with _ | ⟨_ | _, a, lk, lv, b⟩ <;> rcases wr with _ | ⟨_ | _, e, rk, rv, f⟩ <;> cases c <;>
      simp_all [fixDelLeftB, RBok, bh, deficit, blacken] <;> omega

theorem fixDelRightB_rb (c : Colour) (w : Tree) (k v : Nat) (x : Tree)
    (hx : RBok x) (hw : RBok w) (hb : bh x + 1 = bh w) (hwc : w.col = black) :
    RBok (fixDelRightB (node c w k v x)).1 ∧ (c = black → (fixDelRightB (node c w k v x)).1.col = black) ∧
    bh (fixDelRightB (node c w k v x)).1 + deficit (fixDelRightB (node c w k v x)).2 = bh w + (if c = black then 1 else 0) ∧
    (c = red → (fixDelRightB (node c w k v x)).2 = false) := by
  rcases w with _ | ⟨_ | _, wl, wk, wv, wr⟩
  · simp [bh] at hb
  · simp at hwc
  · rcases wl with _ | ⟨_ | _, a, lk, lv, b⟩ <;> rcases wr with _ | ⟨_ | _, e, rk, rv, f⟩ <;> cases c <;>
      simp_all [fixDelRightB, RBok, bh, deficit, blacken] <;> omega

/-- `rebalance_after_delete` at a parent whose left subtree is one black node short -/
theorem fixDelLeft_rb (c : Colour) (x : Tree) (k v : Nat) (w : Tree)
    (hx : RBok x) (hw : RBok w) (hb : bh x + 1 = bh w) (hcw : c = red → w.col = black) :
    RBok (fixDelLeft (node c x k v w)).1 ∧ (c = black → (fixDelLeft (node c x k v w)).1.col = black) ∧
    bh (fixDelLeft (node c x k v w)).1 + deficit (fixDelLeft (node c x k v w)).2 = bh w + (if c = black then 1 else 0) := by
  rcases w with _ | ⟨_ | _, wl, wk, wv, wr⟩
  · simp [bh] at hb
  · -- red sibling: case 1, then cases 2–4 below the rotated parent
    have hc : c = black := by cases c <;> simp_all
    subst hc
    obtain ⟨hwl, hwr, hbw, hcol⟩ := hw
    have hcol := hcol rfl
    have := fixDelLeftB_rb red x k v wl hx hwl (by simp [bh] at hb; omega) hcol.1
    obtain ⟨i1, _, i3, i4⟩ := this
    have i4 := i4 rfl
    simp only [fixDelLeft]
    rw [i4] at i3
    refine ⟨⟨i1, hwr, ?_, by simp⟩, fun _ => rfl, ?_⟩
    · simp [deficit] at i3; omega
    · simp [bh, deficit] at i3 ⊢; omega
  · have := fixDelLeftB_rb c x k v (node black wl wk wv wr) hx hw hb rfl
    simp only [fixDelLeft]
    exact ⟨this.1, this.2.1, this.2.2.1⟩

theorem fixDelRight_rb (c : Colour) (w : Tree) (k v : Nat) (x : Tree)
    (hx : RBok x) (hw : RBok w) (hb : bh x + 1 = bh w) (hcw : c = red → w.col = black) :
    RBok (fixDelRight (node c w k v x)).1 ∧ (c = black → (fixDelRight (node c w k v x)).1.col = black) ∧
    bh (fixDelRight (node c w k v x)).1 + deficit (fixDelRight (node c w k v x)).2 = bh w + (if c = black then 1 else 0) := by
  rcases w with _ | ⟨_ | _, wl, wk, wv, wr⟩
  · simp [bh] at hb
  · have hc : c = black := by cases c <;> simp_all
    subst hc
    obtain ⟨hwl, hwr, hbw, hcol⟩ := hw
    have hcol := hcol rfl
    have := fixDelRightB_rb red wr k v x hx hwr (by simp [bh] at hb; omega) hcol.2
    obtain ⟨i1, _, i3, i4⟩ := this
    have i4 := i4 rfl
    simp only [fixDelRight]
    rw [i4] at i3
    refine ⟨⟨hwl, i1, ?_, by simp⟩, fun _ => rfl, ?_⟩
    · simp [deficit] at i3; omega
    · simp [bh, deficit] at i3 ⊢
  · have := fixDelRightB_rb c (node black wl wk wv wr) k v x hx hw hb rfl
    simp only [fixDelRight]
    exact ⟨this.1, this.2.1, this.2.2.1⟩

/-- unlinking a node of colour `c` whose only possible child is `x` (the other link is the sentinel) -/
theorem dropNode_rb (c : Colour) (x : Tree) (hx : RBok x) (hb : bh x = 0) (hcx : c = red → x.col = black) :
    RBok (dropNode c x).1 ∧ (c = black → (dropNode c x).1.col = black) ∧
    bh (dropNode c x).1 + deficit (dropNode c x).2 = (if c = black then 1 else 0) := by
  rcases x with _ | ⟨_ | _, xl, xk, xv, xr⟩ <;> cases c <;>
    simp_all [dropNode, RBok, bh, deficit, blacken]

theorem delMin_rb (t : Tree) (h : RBok t) : DelPost t (delMin t) := by
  induction t with
  | nil => simp [DelPost, delMin, RBok, deficit]
  | node c l k v r ihl _ =>
    obtain ⟨hl, hr, hbh, hcc⟩ := h
    cases l with
    | nil =>
      have := dropNode_rb c r hr (by simpa [bh] using hbh.symm) (fun hc => (hcc hc).2)
      simpa [DelPost, delMin, bh] using this
    | node lc ll lk lv lr =>
      obtain ⟨a, b, d⟩ := ihl hl
      simp only [delMin]
      split
      · rename_i hd
        rw [hd] at d
        have := fixDelLeft_rb c (delMin (node lc ll lk lv lr)).1 k v r a hr
          (by simp [deficit] at d; omega) (fun hc => (hcc hc).2)
        refine ⟨this.1, this.2.1, ?_⟩
        rw [this.2.2]; simp [bh] at hbh ⊢; omega
      · rename_i hd
        simp only [Bool.not_eq_true] at hd
        rw [hd] at d
        simp only [deficit, Bool.false_eq_true, if_false, Nat.add_zero] at d
        refine ⟨⟨a, hr, by omega, fun hc => ⟨b (hcc hc).1, (hcc hc).2⟩⟩, fun hc => hc, ?_⟩
        simp [bh, deficit, d]

theorem delMax_rb (t : Tree) (h : RBok t) : DelPost t (delMax t) := by
  induction t with
  | nil => simp [DelPost, delMax, RBok, deficit]
  | node c l k v r _ ihr =>
    obtain ⟨hl, hr, hbh, hcc⟩ := h
    cases r with
    | nil =>
      have := dropNode_rb c l hl (by simpa [bh] using hbh) (fun hc => (hcc hc).1)
      simp only [DelPost, delMax, bh, col_node] 
      refine ⟨this.1, this.2.1, ?_⟩
      rw [this.2.2]; simp [bh] at hbh; omega
    | node rc rl rk rv rr =>
      obtain ⟨a, b, d⟩ := ihr hr
      simp only [delMax]
      split
      · rename_i hd
        rw [hd] at d
        have := fixDelRight_rb c l k v (delMax (node rc rl rk rv rr)).1 a hl
          (by simp [deficit] at d; omega) (fun hc => (hcc hc).1)
        refine ⟨this.1, this.2.1, ?_⟩
        rw [this.2.2]; simp [bh]
      · rename_i hd
        simp only [Bool.not_eq_true] at hd
        rw [hd] at d
        simp only [deficit, Bool.false_eq_true, if_false, Nat.add_zero] at d
        refine ⟨⟨hl, a, by omega, fun hc => ⟨(hcc hc).1, b (hcc hc).2⟩⟩, fun hc => hc, ?_⟩
        simp [bh, deficit]

/-- `remove_node(z)` at the node `z` -/
theorem removeHere_rb (t : Tree) (h : RBok t) : DelPost t (removeHere t) := by
  rcases t with _ | ⟨c, l, k, v, r⟩
  · simp [DelPost, removeHere, RBok, deficit]
  · obtain ⟨hl, hr, hbh, hcc⟩ := h
    cases l with
    | nil =>
      have := dropNode_rb c r hr (by simpa [bh] using hbh.symm) (fun hc => (hcc hc).2)
      simpa [DelPost, removeHere, bh] using this
    | node lc ll lk lv lr =>
      cases r with
      | nil =>
        have := dropNode_rb c (node lc ll lk lv lr) hl (by simpa [bh] using hbh) (fun hc => (hcc hc).1)
        simp only [DelPost, removeHere, col_node]
        refine ⟨this.1, this.2.1, ?_⟩
        rw [this.2.2]; simp [bh] at hbh ⊢; omega
      | node rc rl rk rv rr =>
        obtain ⟨a, b, d⟩ := delMin_rb _ hr
        simp only [removeHere]
        cases hm : minEntry (node rc rl rk rv rr) with
        | none =>
          have := minEntry_eq (node rc rl rk rv rr)
          rw [hm] at this
          simp at this
        | some m =>
          simp only []
          split
          · rename_i hd
            rw [hd] at d
            have := fixDelRight_rb c (node lc ll lk lv lr) m.1 m.2 (delMin (node rc rl rk rv rr)).1 a hl
              (by simp [deficit] at d; omega) (fun hc => (hcc hc).1)
            exact ⟨this.1, this.2.1, by rw [this.2.2]; simp [bh]⟩
          · rename_i hd
            simp only [Bool.not_eq_true] at hd
            rw [hd] at d
            simp only [deficit, Bool.false_eq_true, if_false, Nat.add_zero] at d
            refine ⟨⟨hl, a, by omega, fun hc => ⟨(hcc hc).1, b (hcc hc).2⟩⟩, fun hc => hc, ?_⟩
            simp [bh, deficit]

/-- **deletion preserves the red-black rules** up to the reported black deficit -/
theorem del_rb (k : Nat) (t : Tree) (h : RBok t) : DelPost t (del cmp k t) := by
  induction t with
  | nil => simp [DelPost, del, RBok, deficit]
  | node c l key val r ihl ihr =>
    have h' := h
    obtain ⟨hl, hr, hbh, hcc⟩ := h
    unfold del
    split
    · obtain ⟨a, b, d⟩ := ihl hl
      dsimp only
      split
      · rename_i hd
        rw [hd] at d
        have := fixDelLeft_rb c (del cmp k l).1 key val r a hr
          (by simp [deficit] at d; omega) (fun hc => (hcc hc).2)
        refine ⟨this.1, this.2.1, ?_⟩
        rw [this.2.2]; simp [bh]; omega
      · rename_i hd
        simp only [Bool.not_eq_true] at hd
        rw [hd] at d
        simp only [deficit, Bool.false_eq_true, if_false, Nat.add_zero] at d
        refine ⟨⟨a, hr, by omega, fun hc => ⟨b (hcc hc).1, (hcc hc).2⟩⟩, fun hc => hc, ?_⟩
        simp [bh, deficit, d]
    · split
      · obtain ⟨a, b, d⟩ := ihr hr
        dsimp only
        split
        · rename_i hd
          rw [hd] at d
          have := fixDelRight_rb c l key val (del cmp k r).1 a hl
            (by simp [deficit] at d; omega) (fun hc => (hcc hc).1)
          refine ⟨this.1, this.2.1, ?_⟩
          rw [this.2.2]; simp [bh]
        · rename_i hd
          simp only [Bool.not_eq_true] at hd
          rw [hd] at d
          simp only [deficit, Bool.false_eq_true, if_false, Nat.add_zero] at d
          refine ⟨⟨hl, a, by omega, fun hc => ⟨(hcc hc).1, b (hcc hc).2⟩⟩, fun hc => hc, ?_⟩
          simp [bh, deficit]
      · exact removeHere_rb _ h'

theorem DelPost.rb {t : Tree} {r : Tree × Bool} (h : DelPost t r) : RB r.1.blacken := by
  obtain ⟨a, _, _⟩ := h
  exact RBok_blacken a.infra

/-- **removal by key, of the first and of the last entry preserve the red-black invariant**
(`remove_node` followed by the final `x->color = BLACK`) -/
theorem RB_delete (k : Nat) (t : Tree) (h : RB t) : RB (del cmp k t).1.blacken := (del_rb k t h.1).rb
theorem RB_delMin (t : Tree) (h : RB t) : RB (delMin t).1.blacken := (delMin_rb t h.1).rb
theorem RB_delMax (t : Tree) (h : RB t) : RB (delMax t).1.blacken := (delMax_rb t h.1).rb
end CC.Tree
